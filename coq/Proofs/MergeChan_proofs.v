(* Proofs about Model/MergeChan.v (property C19). *)
From SV Require Import Base.Prelude Model.Sched Model.MergeChan.
Open Scope N_scope.

(* ---------------- the control invariant ---------------- *)

Definition fut_of (p : rpc) : option fut :=
  match p with
  | REnabled f | RAfterTake f | RRetaking f | RReturning f _ | RAwait f => Some f
  | RParked => Some FWaiting
  | RIdle | RTop | RGone => None
  end.

(* the receiver will look at the slot again before it can park *)
Definition inspect_slot (p : rpc) : Prop :=
  match p with
  | RAfterTake f | RAwait f => f = FDone
  | RParked => False
  | _ => True
  end.
(* the receiver will load sender_dropped before it can park *)
Definition inspect_flag (p : rpc) : Prop :=
  match p with
  | RAwait f => f = FDone
  | RParked => False
  | _ => True
  end.

Definition waiter_link (p : rpc) (w : waiter) : Prop :=
  match fut_of p with
  | None | Some FDone => w = NoWaiter
  | Some FWaiting =>
      match p with
      | RParked => w = Registered true \/ w = Notified
      | _ => w = Registered false \/ w = Notified
      end
  end.

Record CInv (s : state) : Prop := mkCInv {
  ci_link : waiter_link (r_pc s) (wtr s);
  ci_permit : forall w, wtr s = Registered w -> permit s = false;
  ci_woken : r_pc s = RParked -> (wtr s = Notified <-> woken s = true);
  ci_sdrop : sender_dropped s = true <-> (s_pc s = SDropping \/ s_pc s = SGone);
  ci_retake : forall f, r_pc s = RRetaking f -> sender_dropped s = true;
  ci_rdrop : receiver_dropped s = true <-> r_pc s = RGone;
  ci_err : In false (send_results s) -> receiver_dropped s = true;
  ci_tok_slot : slot s <> None ->
                s_pc s = SNeedNotify \/ permit s = true \/ wtr s = Notified \/ inspect_slot (r_pc s);
  ci_tok_flag : sender_dropped s = true ->
                s_pc s = SDropping \/ permit s = true \/ wtr s = Notified \/ inspect_flag (r_pc s)
}.

Lemma cinv_init : CInv init.
Proof.
  constructor; cbn; try tauto; try discriminate; try (intros; discriminate).
  - split; [discriminate|]. intros [H|H]; discriminate.
  - split; discriminate.
Qed.

Ltac finish :=
  cbn in *; subst;
  try solve [ tauto | discriminate | congruence | intros; eauto
            | intuition (try discriminate; try congruence)
            | intuition (subst; cbn in *; try discriminate; try congruence; auto) ].

Lemma cinv_step s lb s' : CInv s -> step s lb = Some s' -> CInv s'.
Proof.
  intros [Hl Hp Hw Hsd Hrt Hrd He Hts Htf] Hs.
  destruct s as [sl p w sd rd sp rp mg dl sr wk wo].
  cbn [slot permit wtr sender_dropped receiver_dropped s_pc r_pc merged delivered send_results wakes woken] in *.
  destruct lb; cbn in Hs.
  - (* SCheck *)
    destruct sp; try discriminate. destruct rd; injection Hs as <-; constructor; finish.
  - (* SMerge *)
    destruct sp; try discriminate. injection Hs as <-.
    destruct c as [x| |]; [|destruct sl as [l|]|]; constructor; finish.
    all: try (intros Hin; apply in_app_or in Hin as [Hin|[Hin|[]]]; [auto|discriminate]).
  - (* SNotify *)
    destruct sp; try discriminate. injection Hs as <-.
    unfold waiter_link in Hl. destruct w as [|hw|]; constructor; finish.
    all: try (intros Hin; apply in_app_or in Hin as [Hin|[Hin|[]]]; [auto|discriminate]).
    all: try (destruct rp as [| |f|f|f|f v|f| |]; try destruct f; destruct hw; finish).
  - (* SDropFlag *)
    destruct sp; try discriminate. injection Hs as <-. constructor; finish.
  - (* SDropNotify *)
    destruct sp; try discriminate. injection Hs as <-.
    unfold waiter_link in Hl. destruct w as [|hw|]; constructor; finish.
    all: try (destruct rp as [| |f|f|f|f v|f| |]; try destruct f; destruct hw; finish).
  - (* RStart *)
    destruct rp; try discriminate; destruct p; injection Hs as <-; constructor; finish.
  - (* RTake *)
    destruct rp as [| |f|f|f|f v|f| |]; try discriminate.
    destruct sl as [l|]; injection Hs as <-; constructor; destruct f; finish.
  - (* RCheckDropped *)
    destruct rp as [| |f|f|f|f v|f| |]; try discriminate. injection Hs as <-.
    destruct sd; constructor; destruct f; finish.
  - (* RRetake *)
    destruct rp as [| |f|f|f|f v|f| |]; try discriminate. injection Hs as <-.
    constructor; destruct f; finish.
  - (* RDropFut *)
    destruct rp as [| |f|f|f|f v|f| |]; try discriminate.
    destruct f; destruct w as [|hw|]; cbn in Hs; injection Hs as <-; constructor; finish.
  - (* RPollNotified *)
    destruct rp as [| |f|f|f|f v|f| |]; try discriminate.
    + destruct f; [destruct w as [|hw|]; try discriminate|]; injection Hs as <-; constructor; finish.
    + destruct w as [|hw|]; try discriminate; injection Hs as <-; constructor; finish.
  - (* RCancel *)
    destruct rp as [| |f|f|f|f v|f| |]; try discriminate.
    destruct w as [|hw|]; cbn in Hs; injection Hs as <-; constructor; finish.
  - (* RDropReceiver *)
    destruct rp as [| |f|f|f|f v|f| |]; try discriminate. injection Hs as <-. constructor; finish.
  - (* RTryRecv *)
    destruct rp as [| |f|f|f|f v|f| |]; try discriminate. injection Hs as <-. constructor; finish.
Qed.

(* ---------------- the data invariant ---------------- *)

Lemma delivered_values_snoc s r :
  concat (map ret_val (delivered s ++ [r])) = delivered_values s ++ ret_val r.
Proof. unfold delivered_values. rewrite map_app, concat_app. cbn [map concat]. rewrite app_nil_r. reflexivity. Qed.

Record DInv (s : state) : Prop := mkDInv {
  di_eq : delivered_values s ++ in_flight s ++ slot_list s = merged s;
  di_none : (In (RecvRet None) (delivered s) \/ exists f, r_pc s = RReturning f None) ->
            sender_dropped s = true /\ slot s = None /\ delivered_values s = merged s;
  di_nonempty : (forall l, slot s = Some l -> l <> []) /\
                (forall f l, r_pc s = RReturning f (Some l) -> l <> []) /\
                (forall l, In (RecvRet (Some l)) (delivered s) -> l <> [])
}.

Lemma dinv_init : DInv init.
Proof.
  constructor; cbn.
  - reflexivity.
  - intros [[]|[f H]]; discriminate.
  - repeat split; intros; try discriminate; contradiction.
Qed.

Lemma dinv_step s lb s' : CInv s -> DInv s -> step s lb = Some s' -> DInv s'.
Proof.
  intros C [He Hn (Hne1 & Hne2 & Hne3)] Hs.
  pose proof (ci_sdrop _ C) as Hsd. pose proof (ci_retake _ C) as Hrt.
  destruct s as [sl p w sd rd sp rp mg dl sr wk wo].
  unfold delivered_values, in_flight, slot_list in *.
  cbn [slot permit wtr sender_dropped receiver_dropped s_pc r_pc merged delivered send_results wakes woken] in *.
  destruct lb; cbn in Hs.
  - (* SCheck *)
    destruct sp; try discriminate. destruct rd; injection Hs as <-; constructor; cbn; auto.
  - (* SMerge *)
    destruct sp; try discriminate. injection Hs as <-.
    assert (Hsdf : sd = false).
    { destruct sd; [|reflexivity]. destruct Hsd as [Hsd _]. destruct (Hsd eq_refl); discriminate. }
    subst sd.
    assert (Hn' : ~ (In (RecvRet None) dl \/ exists f, rp = RReturning f None)).
    { intros H. destruct (Hn H) as [H1 _]. discriminate. }
    destruct c as [x| |]; [|destruct sl as [l|]|];
      (constructor; unfold delivered_values, in_flight, slot_list; cbn;
       [ | intros H; exfalso; apply Hn'; exact H | ]).
    + destruct sl as [l|]; cbn in *; rewrite <- He, <- !app_assoc; reflexivity.
    + repeat split; auto. intros l H. injection H as <-. destruct sl; intros E; [apply app_eq_nil in E as [_ E]|]; discriminate.
    + rewrite ?app_nil_r in *. exact He.
    + repeat split; auto.
    + rewrite ?app_nil_r in *. exact He.
    + repeat split; auto.
    + (* clearing closure: the slot's content is the tail of [merged] and is retracted *)
      rewrite app_nil_r. rewrite <- He. rewrite app_assoc. unfold drop_last.
      rewrite app_length, Nat.add_sub. rewrite firstn_app, Nat.sub_diag, firstn_all. cbn [firstn]. rewrite app_nil_r. reflexivity.
    + repeat split; auto; intros; discriminate.
  - (* SNotify *)
    destruct sp; try discriminate. injection Hs as <-.
    destruct w as [|hw|]; constructor; cbn; auto.
  - (* SDropFlag *)
    destruct sp; try discriminate. injection Hs as <-. constructor; cbn; auto.
    intros H. destruct (Hn H) as (_ & H2 & H3). auto.
  - (* SDropNotify *)
    destruct sp; try discriminate. injection Hs as <-.
    destruct w as [|hw|]; constructor; cbn; auto.
  - (* RStart *)
    destruct rp; try discriminate; destruct p; injection Hs as <-; constructor; cbn; auto.
    all: try (intros [H|[f H]]; [apply Hn; left; exact H|discriminate]).
    all: repeat split; auto; intros; discriminate.
  - (* RTake *)
    destruct rp as [| |f|f|f|f v|f| |]; try discriminate.
    destruct sl as [l|]; injection Hs as <-; constructor; cbn in *; auto.
    + rewrite app_nil_r in *. exact He.
    + intros [H|[f0 H]]; [|discriminate]. destruct (Hn (or_introl H)) as (_ & H2 & _). discriminate.
    + repeat split; auto; try discriminate. intros f0 l0 H. injection H as _ <-. apply Hne1. reflexivity.
    + intros [H|[f0 H]]; [apply Hn; left; exact H|discriminate].
    + repeat split; auto; intros; discriminate.
  - (* RCheckDropped *)
    destruct rp as [| |f|f|f|f v|f| |]; try discriminate. injection Hs as <-.
    destruct sd; constructor; cbn in *; auto.
    all: try (intros [H|[f0 H]]; [apply Hn; left; exact H|discriminate]).
    all: repeat split; auto; intros; discriminate.
  - (* RRetake *)
    destruct rp as [| |f|f|f|f v|f| |]; try discriminate. injection Hs as <-.
    pose proof (Hrt f eq_refl) as Hsdt. subst sd.
    constructor; cbn in *.
    + destruct sl as [l|]; cbn in *; rewrite ?app_nil_r in *; exact He.
    + intros H. split; [reflexivity|]. split; [reflexivity|].
      destruct sl as [l|].
      * destruct H as [H|[f0 H]]; [|discriminate]. destruct (Hn (or_introl H)) as (_ & H2 & _). discriminate.
      * cbn in He. rewrite !app_nil_r in He. exact He.
    + repeat split; auto; try discriminate. intros f0 l0 H. injection H as _ H. apply Hne1. exact H.
  - (* RDropFut *)
    destruct rp as [| |f|f|f|f v|f| |]; try discriminate.
    destruct (drop_notified f p w) as [p' w']. injection Hs as <-.
    constructor; cbn in *.
    + rewrite map_app, concat_app. cbn [map concat]. rewrite app_nil_r.
      destruct v as [l|]; cbn [ret_val]; rewrite <- ?app_assoc in *; rewrite ?app_nil_r in *; exact He.
    + intros [H|[f0 H]]; [|discriminate].
      rewrite map_app, concat_app. cbn [map concat]. rewrite app_nil_r.
      apply in_app_or in H as [H|[H|[]]].
      * destruct (Hn (or_introl H)) as (H1 & H2 & H3). subst sl.
        destruct v as [l|]; cbn [ret_val]; rewrite ?app_nil_r in *; [|auto].
        exfalso. rewrite <- H3 in He. rewrite <- (app_nil_r (concat (map ret_val dl))) in He at 2.
        apply app_inv_head in He. apply (Hne2 f l eq_refl He).
      * injection H as ->. cbn [ret_val]. rewrite app_nil_r.
        apply Hn. right. exists f. reflexivity.
    + repeat split; auto; try discriminate. intros l H. apply in_app_or in H as [H|[H|[]]]; [auto|].
      injection H as ->. apply (Hne2 f l eq_refl).
  - (* RPollNotified *)
    destruct rp as [| |f|f|f|f v|f| |]; try discriminate.
    + destruct f; [destruct w as [|hw|]; try discriminate|]; injection Hs as <-; constructor; cbn in *; auto.
      all: try (intros [H|[f0 H]]; [apply Hn; left; exact H|discriminate]).
      all: repeat split; auto; intros; discriminate.
    + destruct w as [|hw|]; try discriminate; injection Hs as <-; constructor; cbn in *; auto.
      all: try (intros [H|[f0 H]]; [apply Hn; left; exact H|discriminate]).
      all: repeat split; auto; intros; discriminate.
  - (* RCancel *)
    destruct rp as [| |f|f|f|f v|f| |]; try discriminate.
    destruct w as [|hw|]; cbn in Hs; injection Hs as <-; constructor; cbn in *; auto.
    all: try (intros [H|[f0 H]]; [apply Hn; left; exact H|discriminate]).
    all: repeat split; auto; intros; discriminate.
  - (* RDropReceiver *)
    destruct rp as [| |f|f|f|f v|f| |]; try discriminate. injection Hs as <-. constructor; cbn in *; auto.
    + intros [H|[f0 H]]; [apply Hn; left; exact H|discriminate].
    + repeat split; auto; intros; discriminate.
  - (* RTryRecv *)
    destruct rp as [| |f|f|f|f v|f| |]; try discriminate. injection Hs as <-. constructor; cbn in *.
    + rewrite map_app, concat_app. cbn [map concat]. rewrite !app_nil_r in *.
      destruct sl as [l|]; cbn [ret_val]; rewrite ?app_nil_r in *; exact He.
    + intros [H|[f0 H]]; [|discriminate]. apply in_app_or in H as [H|[H|[]]]; [|discriminate].
      destruct (Hn (or_introl H)) as (H1 & H2 & H3). subst sl.
      rewrite map_app, concat_app. cbn [map concat ret_val]. rewrite !app_nil_r. auto.
    + repeat split; auto; try discriminate. intros l H. apply in_app_or in H as [H|[H|[]]]; [auto|discriminate].
Qed.
