(* Proofs about Model/TabletsPayload.v (property C15, byte-level payload). *)
From SV Require Import Base.Prelude Base.Bytes Model.Cql Model.Tablets Model.TabletsPayload
  Proofs.Tablets_proofs.
Open Scope Z_scope.

(* ---- sub-slices of a byte string are byte strings --------------------------------------- *)

Lemma take_ok n (b x r : bytes) : take n b = Some (x, r) -> bytes_ok b -> bytes_ok x /\ bytes_ok r.
Proof.
  intros H Hb. apply take_some in H as [-> _]. unfold bytes_ok in *. now apply Forall_app in Hb.
Qed.

Lemma read_cql_bytes_ok b ob r :
  read_cql_bytes b = Some (ob, r) -> bytes_ok b ->
  bytes_ok r /\ match ob with Some s => bytes_ok s | None => True end.
Proof.
  unfold read_cql_bytes, read_int. destruct (take 4 b) as [[x r0]|] eqn:E; [|discriminate].
  intros H Hb. destruct (take_ok _ _ _ _ E Hb) as [_ Hr0].
  destruct (dec_signed x <? 0).
  - injection H as <- <-. now split.
  - unfold take_n in H. destruct (blen r0 <? _)%N; [discriminate|].
    destruct (take _ r0) as [[y r1]|] eqn:E2; [|discriminate]. injection H as <- <-.
    destruct (take_ok _ _ _ _ E2 Hr0). now split.
Qed.

Lemma read_cql_bytes_len b ob r : read_cql_bytes b = Some (ob, r) -> (List.length r + 4 <= List.length b)%nat.
Proof.
  unfold read_cql_bytes, read_int. destruct (take 4 b) as [[x r0]|] eqn:E; [|discriminate].
  apply take_some in E as [-> Hx]. rewrite app_length, Hx. destruct (dec_signed x <? 0).
  - intros [= <- <-]. lia.
  - unfold take_n. destruct (blen r0 <? _)%N; [discriminate|].
    destruct (take _ r0) as [[y r1]|] eqn:E2; [|discriminate]. apply take_some in E2 as [-> _].
    intros [= <- <-]. rewrite app_length. lia.
Qed.

Lemma tuple_field_ok b ob r :
  tuple_field b = Ok (ob, r) -> bytes_ok b ->
  bytes_ok r /\ match ob with Some s => bytes_ok s | None => True end.
Proof.
  unfold tuple_field. destruct b as [|x b']; [intros [= <- <-] _; split; [constructor|exact I]|].
  destruct (read_cql_bytes (x :: b')) as [[ob' r']|] eqn:E; [|discriminate].
  intros [= <- <-]. now apply read_cql_bytes_ok.
Qed.

(* an 8-byte big-endian two's complement number is an i64 *)
Lemma dec_signed_i64 s : bytes_ok s -> List.length s = 8%nat -> i64_ok (dec_signed s).
Proof.
  intros Hs Hl. pose proof (be_dec_lt s Hs) as Hlt. rewrite Hl in Hlt.
  unfold dec_signed, to_signed, i64_ok, i64_min, i64_max. rewrite Hl.
  change (8 * N.of_nat 8)%N with 64%N. change (256 ^ N.of_nat 8)%N with (2 ^ 64)%N in Hlt.
  change (2 ^ (64 - 1))%N with 9223372036854775808%N.
  change (2 ^ 64)%N with 18446744073709551616%N in Hlt.
  destruct (N.ltb_spec (be_dec s) 9223372036854775808); change (2 ^ Z.of_N 64) with 18446744073709551616; lia.
Qed.

Lemma typed_int8_ok ob z : typed_int 8 ob = Ok z -> match ob with Some s => bytes_ok s | None => True end -> i64_ok z.
Proof.
  unfold typed_int, exact_len. destruct ob as [s|]; [|discriminate].
  destruct (Nat.eqb_spec (List.length s) 8); [|discriminate]. intros [= <-] Hs. now apply dec_signed_i64.
Qed.

(* ---- the fuel is never exhausted ---------------------------------------------------------- *)

Lemma rbind_ok {E A B} (r : result E A) (f : A -> result E B) y :
  rbind r f = Ok y -> exists x, r = Ok x /\ f x = Ok y.
Proof. destruct r as [x|e]; cbn; [intros H; now exists x|discriminate]. Qed.

Lemma tuple_field_err b e : tuple_field b = Err e -> e = DE_RawCqlBytesRead.
Proof.
  unfold tuple_field. destruct b; [discriminate|]. destruct (read_cql_bytes _) as [[? ?]|]; [discriminate|].
  now intros [= <-].
Qed.

Lemma typed_int_err k ob e : typed_int k ob = Err e -> e = DE_ExpectedNonNull \/ e = DE_ByteLengthMismatch.
Proof.
  unfold typed_int, exact_len. destruct ob as [s|]; [|intros [= <-]; now left].
  destruct (List.length s =? k)%nat; [discriminate|intros [= <-]; now right].
Qed.

Lemma typed_uuid_err ob e : typed_uuid ob = Err e -> e = DE_ExpectedNonNull \/ e = DE_ByteLengthMismatch.
Proof.
  unfold typed_uuid, exact_len. destruct ob as [s|]; [|intros [= <-]; now left].
  destruct (List.length s =? 16)%nat; [discriminate|intros [= <-]; now right].
Qed.

Lemma replica_item_err ob e : replica_item ob = Err e -> e <> DE_OutOfFuel.
Proof.
  unfold replica_item. destruct ob as [s|]; [|intros [= <-]; discriminate].
  destruct (tuple_field s) as [f1|e1] eqn:E1; cbn [rbind].
  2:{ intros [= <-]. rewrite (tuple_field_err _ _ E1). discriminate. }
  destruct (typed_uuid (fst f1)) as [u|e2] eqn:E2; cbn [rbind].
  2:{ intros [= <-]. destruct (typed_uuid_err _ _ E2) as [-> | ->]; discriminate. }
  destruct (tuple_field (snd f1)) as [f2|e3] eqn:E3; cbn [rbind].
  2:{ intros [= <-]. rewrite (tuple_field_err _ _ E3). discriminate. }
  destruct (typed_int 4 (fst f2)) as [sh|e4] eqn:E4; cbn [rbind]; [discriminate|].
  intros [= <-]. destruct (typed_int_err _ _ _ E4) as [-> | ->]; discriminate.
Qed.

Lemma parse_items_fuel fuel : forall n b, (List.length b < fuel)%nat -> parse_items fuel n b <> I_Deser DE_OutOfFuel.
Proof.
  induction fuel as [|f IH]; intros n b Hlen; [lia|]. cbn [parse_items].
  destruct (n =? 0)%N; [discriminate|].
  destruct (read_cql_bytes b) as [[ob r]|] eqn:E; [|discriminate].
  apply read_cql_bytes_len in E.
  destruct (replica_item ob) as [[u sh]|e] eqn:Ei.
  - destruct (sh <? 0); [discriminate|]. specialize (IH (n - 1)%N r ltac:(lia)).
    destruct (parse_items f (n - 1)%N r) as [rest|e'|]; [discriminate| |discriminate].
    intros [= ->]. now apply IH.
  - intros [= ->]. now apply (replica_item_err _ _ Ei).
Qed.

Lemma parse_header_err b e : parse_header b = Err e -> e <> DE_OutOfFuel.
Proof.
  unfold parse_header.
  destruct (tuple_field b) as [f1|e1] eqn:E1; cbn [rbind].
  2:{ intros [= <-]. rewrite (tuple_field_err _ _ E1). discriminate. }
  destruct (typed_int 8 (fst f1)) as [a|e2] eqn:E2; cbn [rbind].
  2:{ intros [= <-]. destruct (typed_int_err _ _ _ E2) as [-> | ->]; discriminate. }
  destruct (tuple_field (snd f1)) as [f2|e3] eqn:E3; cbn [rbind].
  2:{ intros [= <-]. rewrite (tuple_field_err _ _ E3). discriminate. }
  destruct (typed_int 8 (fst f2)) as [bb|e4] eqn:E4; cbn [rbind].
  2:{ intros [= <-]. destruct (typed_int_err _ _ _ E4) as [-> | ->]; discriminate. }
  destruct (tuple_field (snd f2)) as [f3|e5] eqn:E5; cbn [rbind].
  2:{ intros [= <-]. rewrite (tuple_field_err _ _ E5). discriminate. }
  destruct (list_open (fst f3)) as [cnt|e6] eqn:E6; cbn [rbind]; [discriminate|].
  intros [= <-]. unfold list_open, read_count in E6. destruct (fst f3) as [s|]; [|discriminate].
  destruct (read_int s) as [[z r]|]; [destruct (z <? 0)|]; try discriminate; injection E6 as <-; discriminate.
Qed.

(* the model artefact DE_OutOfFuel is never the answer *)
Lemma parse_payload_no_fuel b : parse_payload b <> P_Deser DE_OutOfFuel.
Proof.
  unfold parse_payload. destruct (parse_header b) as [[[a bb] [n items]]|e] eqn:E.
  - destruct (bb <=? a); [discriminate|].
    pose proof (parse_items_fuel (S (List.length items)) n items ltac:(lia)) as H.
    destruct (parse_items _ n items) as [r|e|]; [discriminate| |discriminate]. intros [= ->]. now apply H.
  - intros [= ->]. now apply (parse_header_err _ _ E).
Qed.

(* ---- an accepted byte payload is an accepted value-level payload -------------------------- *)

Lemma conv_shards_of_N (r : list raw_replica) :
  conv_shards (map (fun hs => (fst hs, Z.of_N (snd hs))) r) = Some r.
Proof.
  induction r as [|[h s] r IH]; [reflexivity|]. cbn [map conv_shards fst snd].
  destruct (Z.ltb_spec (Z.of_N s) 0); [lia|]. rewrite IH, N2Z.id. reflexivity.
Qed.

Lemma parse_header_i64 b a bb cnt :
  bytes_ok b -> parse_header b = Ok (a, bb, cnt) -> i64_ok a /\ i64_ok bb.
Proof.
  intros Hb. unfold parse_header. intros H.
  apply rbind_ok in H as (f1 & E1 & H). apply rbind_ok in H as (a' & E2 & H).
  apply rbind_ok in H as (f2 & E3 & H). apply rbind_ok in H as (b' & E4 & H).
  apply rbind_ok in H as (f3 & E5 & H). apply rbind_ok in H as (c & E6 & H). injection H as <- <- <-.
  destruct f1 as [ob1 r1], f2 as [ob2 r2]. cbn [fst snd] in *.
  destruct (tuple_field_ok _ _ _ E1 Hb) as [Hr1 Ho1]. destruct (tuple_field_ok _ _ _ E3 Hr1) as [_ Ho2].
  split; eapply typed_int8_ok; eassumption.
Qed.

(* C15_payload_bytes *)
Lemma parse_payload_ok b f l r :
  bytes_ok b -> parse_payload b = P_Ok f l r ->
  exists a bb, i64_ok a /\ i64_ok bb /\ a < bb /\ f = a + 1 /\ l = bb /\ i64_ok f /\ f <= l /\
    (exists cnt, parse_header b = Ok (a, bb, cnt)) /\
    payload_check a bb (map (fun hs => (fst hs, Z.of_N (snd hs))) r) = Ok (f, l, r).
Proof.
  intros Hb. unfold parse_payload. destruct (parse_header b) as [[[a bb] [n items]]|e] eqn:E; [|discriminate].
  destruct (parse_header_i64 b a bb _ Hb E) as [Ha Hbb].
  destruct (Z.leb_spec bb a) as [|Hlt]; [discriminate|].
  destruct (parse_items _ n items) as [reps|e|]; try discriminate. intros [= <- <- <-].
  set (raw := map (fun hs => (fst hs, Z.of_N (snd hs))) reps).
  assert (Hpc : payload_check a bb raw = Ok (token_new (wrap64 (a + 1)), token_new bb, reps)).
  { unfold payload_check. destruct (Z.leb_spec bb a); [lia|]. unfold raw. now rewrite conv_shards_of_N. }
  destruct (payload_check_ok a bb raw _ _ _ Ha Hbb Hpc) as (_ & E1 & E2 & H1 & H2 & H3 & _).
  rewrite E1, E2 in *. exists a, bb.
  split; [assumption|]. split; [assumption|]. split; [assumption|]. split; [reflexivity|]. split; [reflexivity|].
  split; [assumption|]. split; [assumption|]. split; [now eexists|assumption].
Qed.

Lemma parse_payload_range b : bytes_ok b ->
  forall a bb cnt, parse_header b = Ok (a, bb, cnt) -> bb <= a -> parse_payload b = P_WrongTokenRange.
Proof.
  intros _ a bb [n items] E Hle. unfold parse_payload. rewrite E. destruct (Z.leb_spec bb a); [reflexivity|lia].
Qed.

(* C15_bytes_as_learn: a byte payload acts exactly as the value-level event [learn_of_bytes] *)
Lemma step_bytes_learn s k b known :
  bytes_ok b -> step_bytes s k b known = step s (learn_of_bytes k b known) /\ op_i64 (learn_of_bytes k b known).
Proof.
  intros Hb. unfold step_bytes, learn_of_bytes.
  destruct (parse_payload b) as [f l r|e| |] eqn:E;
    try (split; [reflexivity|split; vm_compute; intuition discriminate]).
  destruct (parse_payload_ok b f l r Hb E) as (a & bb & Ha & Hbb & Hlt & -> & -> & _ & _ & _ & Hpc).
  replace (a + 1 - 1) with a by lia. split; [|now split]. cbn [step]. now rewrite Hpc.
Qed.

(* histories whose payload events are byte strings *)
Inductive bop :=
| BLearn (k : tkey) (b : bytes) (known : list node)
| BOp (o : op).
Definition bop_ok (o : bop) : Prop :=
  match o with BLearn _ b _ => bytes_ok b | BOp o => op_i64 o end.
Definition abstract_bop (o : bop) : op :=
  match o with BLearn k b known => learn_of_bytes k b known | BOp o => o end.
Definition bstep (s : info) (o : bop) : option info :=
  match o with BLearn k b known => step_bytes s k b known | BOp o => step s o end.
Definition run_b (h : list bop) : option info :=
  fold_left (fun acc o => match acc with Some s => bstep s o | None => None end) h (Some info_empty).

Lemma run_b_abstract h :
  Forall bop_ok h -> run_b h = run (map abstract_bop h) /\ Forall op_i64 (map abstract_bop h).
Proof.
  unfold run_b, run, run_from. generalize (Some info_empty) as s0.
  induction h as [|o h IH]; intros s0 Hok; [split; [reflexivity|constructor]|].
  inversion Hok as [|? ? Ho Hh]; subst. cbn [fold_left map].
  assert (Hs : forall s, bstep s o = step s (abstract_bop o) /\ op_i64 (abstract_bop o)).
  { intros s. destruct o as [k b known|o]; cbn [bstep abstract_bop bop_ok] in *; [now apply step_bytes_learn|now split]. }
  destruct (IH (match s0 with Some s => bstep s o | None => None end) Hh) as [E F].
  split.
  - rewrite E. destruct s0 as [s|]; [|reflexivity]. now rewrite (proj1 (Hs s)).
  - constructor; [exact (proj2 (Hs info_empty))|exact F].
Qed.

(* the history theorems for byte-level histories *)
Lemma run_b_inv h s k tt :
  Forall bop_ok h -> run_b h = Some s -> find_table s k = Some tt -> tablets_inv (tt_list tt).
Proof.
  intros Hok Hrun. destruct (run_b_abstract h Hok) as [E F]. rewrite E in Hrun.
  now apply (run_tablets_inv _ s k tt F Hrun).
Qed.

Lemma run_b_no_panic h : Forall bop_ok h -> run_b h <> None.
Proof. intros Hok. destruct (run_b_abstract h Hok) as [E F]. rewrite E. now apply run_no_panic. Qed.

Lemma run_b_lookup h s k tok :
  Forall bop_ok h -> run_b h = Some s -> lookup s k tok = spec_lookup (map abstract_bop h) k tok.
Proof.
  intros Hok Hrun. destruct (run_b_abstract h Hok) as [E F]. rewrite E in Hrun.
  now apply lookup_refines.
Qed.

Lemma bytes_okb_ok b : bytes_okb b = true -> bytes_ok b.
Proof.
  unfold bytes_okb, bytes_ok. intros H. apply Forall_forall. intros x Hx.
  rewrite forallb_forall in H. specialize (H x Hx). now apply N.ltb_lt in H.
Qed.

(* ------------------------------------------------------------------------------------ *)
(* round trip: what ScyllaDB sends for (a, b, replicas) is decoded to exactly the value-level *)
(* payload check of (a, b, replicas)                                                      *)
(* ------------------------------------------------------------------------------------ *)
From SV Require Import Proofs.Cql_proofs.
Open Scope Z_scope.

Definition raw_wf (raw : list (N * Z)) : Prop :=
  Forall (fun hs => (fst hs < 2 ^ 128)%N /\ in_range 32 (snd hs) = true) raw.

Lemma tuple_field_framed x r : (blen x <= i32_max)%N -> tuple_field (framed x ++ r) = Ok (Some x, r).
Proof.
  intros H. unfold tuple_field. destruct (framed x ++ r) as [|y l] eqn:E.
  - apply (f_equal (@List.length N)) in E. rewrite app_length, framed_length in E. cbn in E. lia.
  - rewrite <- E, read_cql_framed by exact H. reflexivity.
Qed.

Lemma i64_in_range z : i64_ok z -> in_range 64 z = true.
Proof. unfold i64_ok, i64_min, i64_max, in_range. intros H. apply andb_true_iff. split; lia. Qed.

Lemma typed_int_enc k bits z : (0 < k)%nat -> bits = (8 * Z.of_nat k)%Z -> in_range bits z = true ->
  typed_int k (Some (enc_signed k z)) = Ok z.
Proof.
  intros Hk Hb Hr. unfold typed_int, exact_len. rewrite enc_signed_length, Nat.eqb_refl.
  now rewrite (dec_enc_signed_k k bits z Hk Hb Hr).
Qed.

Lemma typed_uuid_enc h : (h < 2 ^ 128)%N -> typed_uuid (Some (be_enc 16 h)) = Ok h.
Proof.
  intros H. unfold typed_uuid, exact_len. rewrite be_enc_length. cbn [Nat.eqb].
  rewrite be_dec_enc_small; [reflexivity|]. change (256 ^ N.of_nat 16)%N with (2 ^ 128)%N. exact H.
Qed.

Lemma small_blen (x : bytes) : (List.length x <= 100)%nat -> (blen x <= i32_max)%N.
Proof. unfold blen, i32_max. lia. Qed.

Lemma replica_item_enc h s : (h < 2 ^ 128)%N -> in_range 32 s = true ->
  replica_item (Some (framed (be_enc 16 h) ++ framed (enc_signed 4 s))) = Ok (h, s).
Proof.
  intros Hh Hs. unfold replica_item.
  rewrite tuple_field_framed by (apply small_blen; rewrite be_enc_length; lia). cbn [rbind fst snd].
  rewrite typed_uuid_enc by exact Hh. cbn [rbind].
  rewrite <- (app_nil_r (framed (enc_signed 4 s))).
  rewrite tuple_field_framed by (apply small_blen; rewrite enc_signed_length; lia). cbn [rbind fst snd].
  rewrite (typed_int_enc 4 32) by (lia || assumption). reflexivity.
Qed.

Lemma enc_replica_length hs : List.length (enc_replica hs) = 32%nat.
Proof.
  unfold enc_replica. rewrite framed_length, app_length, !framed_length, be_enc_length, enc_signed_length. reflexivity.
Qed.

Lemma flat_enc_length raw : List.length (flat_map enc_replica raw) = (32 * List.length raw)%nat.
Proof.
  induction raw as [|hs raw IH]; [reflexivity|]. cbn [flat_map List.length].
  rewrite app_length, enc_replica_length, IH. lia.
Qed.

Lemma parse_items_enc raw : forall fuel rest,
  raw_wf raw -> (List.length raw <= fuel)%nat ->
  parse_items fuel (N.of_nat (List.length raw)) (flat_map enc_replica raw ++ rest) =
  match conv_shards raw with Some r => I_Ok r | None => I_ShardNum end.
Proof.
  induction raw as [|[h s] raw IH]; intros fuel rest Hwf Hfuel.
  - destruct fuel; reflexivity.
  - inversion Hwf as [|? ? [Hh Hs] Hwf']; subst. cbn [fst snd] in Hh, Hs.
    destruct fuel as [|fuel]; [cbn in Hfuel; lia|].
    cbn [parse_items List.length flat_map conv_shards].
    destruct (N.eqb_spec (N.of_nat (S (List.length raw))) 0); [lia|].
    unfold enc_replica at 1. cbn [fst snd]. rewrite <- app_assoc.
    rewrite read_cql_framed.
    2:{ apply small_blen. rewrite app_length, !framed_length, be_enc_length, enc_signed_length. lia. }
    rewrite replica_item_enc by assumption.
    destruct (s <? 0)%Z; [reflexivity|].
    replace (N.of_nat (S (List.length raw)) - 1)%N with (N.of_nat (List.length raw)) by lia.
    rewrite IH by (assumption || (cbn in Hfuel; lia)).
    now destruct (conv_shards raw).
Qed.

(* C15_payload_roundtrip *)
Lemma parse_enc_payload a b raw :
  i64_ok a -> i64_ok b -> raw_wf raw -> (N.of_nat (List.length raw) <= 67108863)%N ->
  parse_payload (enc_payload a b raw) =
  match payload_check a b raw with
  | Ok (f, l, r) => P_Ok f l r
  | Err WrongTokenRange => P_WrongTokenRange
  | Err ShardNum => P_ShardNum
  end.
Proof.
  intros Ha Hb Hwf Hlen. unfold parse_payload, enc_payload.
  assert (Hhdr : parse_header (framed (enc_signed 8 a) ++ framed (enc_signed 8 b) ++
                     framed (be32 (N.of_nat (List.length raw)) ++ flat_map enc_replica raw)) =
                 Ok (a, b, (N.of_nat (List.length raw), flat_map enc_replica raw))).
  { unfold parse_header.
    rewrite tuple_field_framed by (apply small_blen; rewrite enc_signed_length; lia). cbn [rbind fst snd].
    rewrite (typed_int_enc 8 64) by (lia || now apply i64_in_range). cbn [rbind].
    rewrite tuple_field_framed by (apply small_blen; rewrite enc_signed_length; lia). cbn [rbind fst snd].
    rewrite (typed_int_enc 8 64) by (lia || now apply i64_in_range). cbn [rbind].
    rewrite <- (app_nil_r (framed (be32 _ ++ _))).
    rewrite tuple_field_framed.
    2:{ unfold blen, i32_max. rewrite app_length, be32_length, flat_enc_length. lia. }
    cbn [rbind fst snd list_open]. unfold read_count.
    rewrite read_int_be32 by (unfold i32_max; lia).
    destruct (Z.of_N (N.of_nat (List.length raw)) <? 0) eqn:E; [lia|]. cbn [rbind]. now rewrite N2Z.id. }
  rewrite Hhdr. unfold payload_check. destruct (b <=? a); [reflexivity|].
  rewrite <- (app_nil_r (flat_map enc_replica raw)) at 2.
  rewrite parse_items_enc by (try assumption; rewrite flat_enc_length; lia).
  now destruct (conv_shards raw).
Qed.

(* hence a value-level Learn and the byte payload ScyllaDB sends for it act alike *)
Lemma step_bytes_enc s k a b raw known :
  i64_ok a -> i64_ok b -> raw_wf raw -> (N.of_nat (List.length raw) <= 67108863)%N ->
  step_bytes s k (enc_payload a b raw) known = step s (Learn k a b raw known).
Proof.
  intros Ha Hb Hwf Hlen. unfold step_bytes. rewrite parse_enc_payload by assumption. cbn [step].
  destruct (payload_check a b raw) as [[[f l] r]|[|]]; reflexivity.
Qed.
