(* Theorems about Model/MergeChan.v (property C19) on top of the two inductive invariants of
   Proofs/MergeChan_proofs.v. *)
From SV Require Import Base.Prelude Model.Sched Model.MergeChan Proofs.MergeChan_proofs.
Open Scope N_scope.

(* ---------------- every reachable state satisfies both invariants ---------------- *)

Definition Inv (s : state) : Prop := CInv s /\ DInv s.

Lemma inv_reachable s : reachable step init s -> Inv s.
Proof.
  apply (invariant_reachable _ _ step Inv init).
  - split; [apply cinv_init|apply dinv_init].
  - intros s0 l s1 [C D] Hs. split; [eapply cinv_step; eassumption|eapply dinv_step; eassumption].
Qed.

(* ---------------- the property theorems ---------------- *)

Lemma c19_no_loss_dup s : reachable step init s ->
  delivered_values s ++ in_flight s ++ slot_list s = merged s.
Proof. intros H. apply inv_reachable in H as [_ D]. apply (di_eq _ D). Qed.

Definition sender_quiet_slot (s : state) : Prop := s_pc s <> SNeedNotify.
Definition sender_quiet_flag (s : state) : Prop := s_pc s <> SDropping.

Lemma c19_no_lost_wakeup s : reachable step init s -> r_pc s = RParked ->
  (slot s <> None /\ s_pc s <> SNeedNotify) \/ (sender_dropped s = true /\ s_pc s <> SDropping) ->
  wtr s = Notified /\ woken s = true.
Proof.
  intros H Hp Hpend. apply inv_reachable in H as [C _].
  pose proof (ci_link _ C) as Hl. pose proof (ci_permit _ C) as Hpm. pose proof (ci_woken _ C Hp) as Hw.
  rewrite Hp in Hl. unfold waiter_link in Hl. cbn in Hl.
  assert (Hn : wtr s = Notified).
  { destruct Hpend as [[Hs Hq]|[Hs Hq]].
    - destruct (ci_tok_slot _ C Hs) as [H|[H|[H|H]]]; [contradiction| |exact H|rewrite Hp in H; contradiction].
      destruct Hl as [Hl|Hl]; [|exact Hl]. rewrite (Hpm _ Hl) in H. discriminate.
    - destruct (ci_tok_flag _ C Hs) as [H|[H|[H|H]]]; [contradiction| |exact H|rewrite Hp in H; contradiction].
      destruct Hl as [Hl|Hl]; [|exact Hl]. rewrite (Hpm _ Hl) in H. discriminate. }
  split; [exact Hn|]. apply Hw. exact Hn.
Qed.

Lemma c19_last_update s : reachable step init s ->
  (In (RecvRet None) (delivered s) \/ exists f, r_pc s = RReturning f None) ->
  sender_dropped s = true /\ slot s = None /\ delivered_values s = merged s.
Proof. intros H. apply inv_reachable in H as [_ D]. apply (di_none _ D). Qed.

Lemma c19_send_err_only_if s : reachable step init s ->
  In false (send_results s) -> receiver_dropped s = true /\ r_pc s = RGone.
Proof.
  intros H Hin. apply inv_reachable in H as [C _]. pose proof (ci_err _ C Hin) as Hr.
  split; [exact Hr|]. apply (ci_rdrop _ C). exact Hr.
Qed.

Lemma c19_send_check s : s_pc s = SIdle ->
  exists s', step s SCheck = Some s' /\
    (receiver_dropped s = true ->
       send_results s' = send_results s ++ [false] /\ s_pc s' = SIdle /\
       merged s' = merged s /\ slot s' = slot s) /\
    (receiver_dropped s = false -> send_results s' = send_results s /\ s_pc s' = SChecked).
Proof.
  intros Hp. cbn [step]. rewrite Hp. destruct (receiver_dropped s) eqn:E; eexists; (split; [reflexivity|]).
  - split; [|discriminate]. intros _. cbn. rewrite Hp. auto.
  - split; [discriminate|]. intros _. cbn. auto.
Qed.

Lemma c19_cancel_safe s s' : reachable step init s -> step s RCancel = Some s' ->
  Inv s' /\ slot s' = slot s /\ merged s' = merged s /\ delivered s' = delivered s /\
  r_pc s' = RIdle /\ wtr s' = NoWaiter /\
  (((slot s <> None /\ s_pc s <> SNeedNotify) \/ (sender_dropped s = true /\ s_pc s <> SDropping)) ->
   permit s' = true).
Proof.
  intros H Hs. split; [apply inv_reachable; eapply reachable_step; eassumption|].
  pose proof (c19_no_lost_wakeup s H) as Hw.
  cbn [step] in Hs. destruct (r_pc s) eqn:Ep; try discriminate.
  specialize (Hw eq_refl).
  destruct (wtr s) eqn:Ew; cbn in Hs; injection Hs as <-; cbn; repeat split; auto;
    intros Hpend; destruct (Hw Hpend) as [Hn _]; discriminate.
Qed.

(* no receiver step is ever stuck inside a poll *)
Lemma c19_progress s lb : reachable step init s -> next_label (r_pc s) = Some lb ->
  exists s', step s lb = Some s'.
Proof.
  intros H Hn. apply inv_reachable in H as [C _]. pose proof (ci_link _ C) as Hl.
  destruct s as [sl p w sd rd sp rp mg dl sr wk wo]. cbn in *.
  destruct rp as [| |f|f|f|f v|f| |]; cbn in Hn; try discriminate; injection Hn as <-; cbn.
  - destruct p; eexists; reflexivity.
  - destruct sl; eexists; reflexivity.
  - eexists; reflexivity.
  - eexists; reflexivity.
  - destruct (drop_notified f p w); eexists; reflexivity.
  - destruct f; [|eexists; reflexivity]. unfold waiter_link in Hl. cbn in Hl.
    destruct Hl as [->| ->]; eexists; reflexivity.
Qed.


(* ---------------- the operations are runs of atomic steps ---------------- *)

Lemma poll_loop_run fuel : forall s s' r, poll_loop fuel s = Some (s', r) ->
  exists ls, run step s ls = Some s'.
Proof.
  induction fuel as [|k IH]; intros s s' r H; cbn [poll_loop] in H; [discriminate|].
  assert (G : forall lb, match step s lb with Some s1 => poll_loop k s1 | None => None end = Some (s', r) ->
                          exists ls, run step s ls = Some s').
  { intros lb H0. destruct (step s lb) as [s1|] eqn:E1; [|discriminate].
    destruct (IH _ _ _ H0) as [ls Hr]. exists (lb :: ls). cbn [run]. rewrite E1. exact Hr. }
  destruct (r_pc s) eqn:Ep; cbn [next_label] in H; try discriminate; try (eapply G; exact H).
  - destruct (step s RDropFut) as [s1|] eqn:E1; [|discriminate].
    injection H as <- _. exists [RDropFut]. cbn [run]. rewrite E1. reflexivity.
  - injection H as <- _. exists []. reflexivity.
Qed.

Lemma op_poll_run s s' r : op_poll s = Some (s', r) -> exists ls, run step s ls = Some s'.
Proof.
  unfold op_poll. destruct (r_pc s); try discriminate.
  - destruct (step s RStart) as [s1|] eqn:E; [|discriminate]. intros H.
    destruct (poll_loop_run _ _ _ _ H) as [ls Hr]. exists (RStart :: ls). cbn [run]. rewrite E. exact Hr.
  - destruct (step s RPollNotified) as [s1|] eqn:E; [|discriminate]. intros H.
    destruct (poll_loop_run _ _ _ _ H) as [ls Hr]. exists (RPollNotified :: ls). cbn [run]. rewrite E. exact Hr.
Qed.

Lemma op_modify_run u s s' b : op_modify u s = Some (s', b) -> exists ls, run step s ls = Some s'.
Proof.
  unfold op_modify. destruct (step s SCheck) as [s1|] eqn:E1; [|discriminate].
  destruct (s_pc s1) eqn:Ep1.
  1: { intros H. injection H as <- _. exists [SCheck]. cbn [run]. rewrite E1. reflexivity. }
  all: destruct (step s1 (SMerge u)) as [s2|] eqn:E2; [|discriminate];
       destruct (s_pc s2) eqn:Ep2;
       try (intros H; injection H as <- _; exists [SCheck; SMerge u]; cbn [run]; rewrite E1, E2; reflexivity);
       destruct (step s2 SNotify) as [s3|] eqn:E3; [|discriminate];
       intros H; injection H as <- _; exists [SCheck; SMerge u; SNotify]; cbn [run]; rewrite E1, E2, E3; reflexivity.
Qed.

Lemma op_drop_sender_run s s' : op_drop_sender s = Some s' -> exists ls, run step s ls = Some s'.
Proof.
  unfold op_drop_sender. destruct (step s SDropFlag) as [s1|] eqn:E1; [|discriminate].
  intros H. exists [SDropFlag; SDropNotify]. cbn [run]. rewrite E1, H. reflexivity.
Qed.

Lemma run_op_run o s s' ob : run_op o s = Some (s', ob) -> exists ls, run step s ls = Some s'.
Proof.
  destruct o; cbn [run_op].
  - destruct (op_modify (CMerge x) s) as [[s1 b]|] eqn:E; [|discriminate]. intros H; injection H as <- _.
    eapply op_modify_run; exact E.
  - destruct (op_modify CNoop s) as [[s1 b]|] eqn:E; [|discriminate]. intros H; injection H as <- _.
    eapply op_modify_run; exact E.
  - destruct (op_modify CClear s) as [[s1 b]|] eqn:E; [|discriminate]. intros H; injection H as <- _.
    eapply op_modify_run; exact E.
  - destruct (op_drop_sender s) as [s1|] eqn:E; [|discriminate]. intros H; injection H as <- _.
    eapply op_drop_sender_run; exact E.
  - destruct (op_poll s) as [[s1 r]|] eqn:E; [|discriminate]. intros H; injection H as <- _.
    eapply op_poll_run; exact E.
  - destruct (step s RCancel) as [s1|] eqn:E; [|discriminate]. intros H; injection H as <- _.
    exists [RCancel]. cbn [run]. rewrite E. reflexivity.
  - destruct (step s RDropReceiver) as [s1|] eqn:E; [|discriminate]. intros H; injection H as <- _.
    exists [RDropReceiver]. cbn [run]. rewrite E. reflexivity.
  - destruct (step s RTryRecv) as [s1|] eqn:E; [|discriminate]. intros H; injection H as <- _.
    exists [RTryRecv]. cbn [run]. rewrite E. reflexivity.
Qed.

(* ---------------- one poll at a quiescent point, as a function ---------------- *)
(* With the sender between operations, a poll of the recv future (fresh or parked) returns all
   pending updates if there are any, else None if the sender is gone, else parks - in
   particular it never parks on a pending value or on a dropped sender (no lost wake-up, last
   update delivered before the end is reported), and it always terminates within the fuel. *)
Lemma poll_spec s : CInv s -> (s_pc s = SIdle \/ s_pc s = SGone) -> (r_pc s = RIdle \/ r_pc s = RParked) ->
  exists s',
    (match slot s with
     | Some l => op_poll s = Some (s', Ready (Some l)) /\ r_pc s' = RIdle /\
                 delivered s' = delivered s ++ [RecvRet (Some l)]
     | None =>
         if sender_dropped s
         then op_poll s = Some (s', Ready None) /\ r_pc s' = RIdle /\ delivered s' = delivered s ++ [RecvRet None]
         else op_poll s = Some (s', Pending) /\ r_pc s' = RParked /\ delivered s' = delivered s /\
              wtr s' = Registered true /\ woken s' = false
     end) /\
    slot s' = None /\ merged s' = merged s /\ s_pc s' = s_pc s /\ sender_dropped s' = sender_dropped s /\
    receiver_dropped s' = receiver_dropped s /\ send_results s' = send_results s /\ wakes s' = wakes s.
Proof.
  intros C Hsp Hrp.
  pose proof (ci_link _ C) as Hl. pose proof (ci_permit _ C) as Hpm.
  pose proof (ci_tok_slot _ C) as Hts. pose proof (ci_tok_flag _ C) as Htf. pose proof (ci_woken _ C) as Hw.
  destruct s as [sl p w sd rd sp rp mg dl sr wk wo]. cbn in *.
  unfold waiter_link in Hl.
  destruct Hrp as [-> | ->]; cbn in Hl.
  - (* fresh future *)
    subst w. destruct sl as [l|]; [|destruct sd]; destruct p; eexists; cbn; repeat split; intros; discriminate.
  - (* parked future *)
    destruct Hl as [-> | ->].
    + (* still registered: nothing can be pending *)
      pose proof (Hpm true eq_refl) as ->.
      destruct sl as [l|].
      * exfalso. destruct (Hts ltac:(discriminate)) as [H|[H|[H|H]]]; try discriminate; try contradiction.
        destruct Hsp; subst; discriminate.
      * destruct sd.
        -- exfalso. destruct (Htf eq_refl) as [H|[H|[H|H]]]; try discriminate; try contradiction.
           destruct Hsp; subst; discriminate.
        -- assert (wo = false) as -> by (destruct wo; [destruct (Hw eq_refl) as [_ H]; discriminate (H eq_refl)|reflexivity]).
           eexists; cbn; repeat split; intros; discriminate.
    + destruct sl as [l|]; [|destruct sd]; destruct p; eexists; cbn; repeat split; intros; try discriminate.
Qed.


(* ---------------- the stress acceptor ---------------- *)

Lemma nrange_app a k1 : forall k2, nrange a (k1 + k2) = nrange a k1 ++ nrange (a + N.of_nat k1) k2.
Proof.
  revert a; induction k1 as [|k IH]; intros a k2.
  - cbn [Nat.add nrange app]. rewrite N.add_0_r. reflexivity.
  - cbn [Nat.add nrange app]. rewrite IH. f_equal. f_equal. f_equal. lia.
Qed.

Lemma runs_from_sound runs : forall e e', runs_from e runs = Some e' ->
  e <= e' /\ expand runs = nrange e (N.to_nat (e' - e)).
Proof.
  induction runs as [|[a len] r IH]; intros e e' H; cbn [runs_from] in H.
  - injection H as <-. split; [lia|]. rewrite N.sub_diag. reflexivity.
  - destruct (N.eqb_spec a e) as [->|]; [|discriminate].
    destruct (IH _ _ H) as [Hle He]. split; [lia|].
    unfold expand in *. cbn [map concat]. rewrite He. unfold expand_run. cbn [fst snd].
    replace (N.to_nat (e' - e)) with (N.to_nat len + N.to_nat (e' - (e + len)))%nat by lia.
    rewrite nrange_app. rewrite N2Nat.id. reflexivity.
Qed.

Lemma batches_from_sound bs : forall e e', batches_from e bs = Some e' ->
  e <= e' /\ expand_batches bs = nrange e (N.to_nat (e' - e)).
Proof.
  induction bs as [|b r IH]; intros e e' H; cbn [batches_from] in H.
  - injection H as <-. split; [lia|]. rewrite N.sub_diag. reflexivity.
  - destruct (runs_from e b) as [e1|] eqn:E1; [|discriminate].
    destruct (runs_from_sound _ _ _ E1) as [Hle1 He1]. destruct (IH _ _ H) as [Hle2 He2].
    split; [lia|]. unfold expand_batches in *. cbn [map concat]. rewrite He1, He2.
    replace (N.to_nat (e' - e)) with (N.to_nat (e1 - e) + N.to_nat (e' - e1))%nat by lia.
    rewrite nrange_app. f_equal. f_equal. lia.
Qed.

(* accepted <=> what the consumer received, batch after batch, is exactly 0, 1, ..., n-1 *)
Lemma stress_ok_sound n bs : stress_ok n bs = true -> expand_batches bs = nrange 0 (N.to_nat n).
Proof.
  unfold stress_ok. destruct (batches_from 0 bs) as [e|] eqn:E; [|discriminate].
  intros H. apply N.eqb_eq in H. subst e. destruct (batches_from_sound _ _ _ E) as [_ He].
  rewrite He. rewrite N.sub_0_r. reflexivity.
Qed.



(* ---------------- refinement of the poll-granularity specification ---------------- *)

Definition Sim (s : state) (a : astate) : Prop :=
  CInv s /\
  slot s = opt_of_list (a_pend a) /\
  sender_dropped s = negb (a_salive a) /\
  s_pc s = (if a_salive a then SIdle else SGone) /\
  receiver_dropped s = negb (a_ralive a) /\
  r_pc s = (if a_ralive a then if a_parked a then RParked else RIdle else RGone) /\
  (a_parked a = true -> (a_base a <= wakes s)%nat /\ (woken s = true -> (a_base a < wakes s)%nat)) /\
  (a_ralive a = false -> a_parked a = false).

Lemma sim_init : Sim init a_init.
Proof. unfold Sim. split; [apply cinv_init|]. cbn. repeat split; auto; discriminate. Qed.

Lemma cinv_run s ls s' : CInv s -> run step s ls = Some s' -> CInv s'.
Proof. intros C H. eapply (run_invariant _ _ step CInv); [apply cinv_step|exact C|exact H]. Qed.

Lemma list_eqb_refl l : list_eqb l l = true.
Proof. induction l as [|x l IH]; cbn [list_eqb]; [reflexivity|]. rewrite N.eqb_refl, IH. reflexivity. Qed.
Lemma obs_eqb_refl o : obs_eqb o o = true.
Proof.
  destruct o as [b| |[|[l|]]|[l|]]; cbn; try reflexivity; try apply list_eqb_refl. destruct b; reflexivity.
Qed.

Lemma opt_of_list_snoc l x : opt_of_list (l ++ [x]) = Some (l ++ [x]).
Proof. destruct l; reflexivity. Qed.

Lemma sim_step o s a s' ob : Sim s a -> run_op o s = Some (s', ob) ->
  exists a', spec_op o a (wakes s') = Some (ob, a') /\ wake_ok a' (wakes s') = true /\ Sim s' a'.
Proof.
  intros (C & Hsl & Hsd & Hsp & Hrd & Hrp & Hwk & Hpk) Hop.
  assert (C' : CInv s') by (destruct (run_op_run _ _ _ _ Hop) as [ls Hr]; eapply cinv_run; eassumption).
  unfold Sim.
  pose proof (ci_link _ C) as Hl. pose proof (ci_woken _ C) as Hwo. pose proof (ci_permit _ C) as Hpm.
  destruct s as [sl p w sd rd sp rp mg dl sr wk wo]; destruct a as [pend sal ral prk base].
  cbn [slot permit wtr sender_dropped receiver_dropped s_pc r_pc merged delivered send_results wakes woken
       a_pend a_salive a_ralive a_parked a_base] in *.
  subst sl sd sp rd rp.
  destruct o; cbn [run_op] in Hop.
  - (* OMerge *)
    destruct sal; [|discriminate]. destruct ral.
    + (* accepted *)
      unfold op_modify in Hop. cbn in Hop.
      destruct prk; unfold waiter_link in Hl; cbn in Hl.
      * destruct (Hwk eq_refl) as [Hb1 Hb2].
        assert (Hb3 : w = Notified -> (base < wk)%nat) by (intros E; apply Hb2; apply (Hwo eq_refl); exact E).
        destruct Hl as [-> | ->]; destruct pend as [|y pend]; cbn in Hop; injection Hop as <- <-;
          (eexists; split; [cbn; reflexivity|]);
          (split; [unfold wake_ok; cbn; rewrite ?opt_of_list_snoc; try (destruct (pend ++ [x]); cbn);
                   first [apply Nat.ltb_lt; lia | apply Nat.leb_le; lia
                         | apply Nat.ltb_lt; specialize (Hb3 eq_refl); lia]|]).
        all: (split; [exact C'|]); repeat split; cbn; auto; try lia; try (intros; discriminate).
        all: try (destruct pend; reflexivity).
        all: try (intros _; specialize (Hb3 eq_refl); lia).
      * subst w. destruct pend as [|y pend]; cbn in Hop; injection Hop as <- <-;
          (eexists; split; [cbn; reflexivity|]); (split; [reflexivity|]);
          (split; [exact C'|]); repeat split; cbn; auto; try (intros; discriminate); try (destruct pend; reflexivity).
    + (* refused *)
      unfold op_modify in Hop. cbn in Hop. injection Hop as <- <-.
      rewrite (Hpk eq_refl) in *. eexists; split; [cbn; reflexivity|]. split; [reflexivity|].
      split; [exact C'|]. repeat split; cbn; auto; intros; discriminate.
  - (* ONoop *)
    destruct sal; [|discriminate]. destruct ral.
    + unfold op_modify in Hop. cbn in Hop.
      destruct prk; unfold waiter_link in Hl; cbn in Hl.
      * destruct (Hwk eq_refl) as [Hb1 Hb2].
        assert (Hb3 : w = Notified -> (base < wk)%nat) by (intros E; apply Hb2; apply (Hwo eq_refl); exact E).
        destruct Hl as [-> | ->]; destruct pend as [|y pend]; cbn in Hop; injection Hop as <- <-;
          (eexists; split; [cbn; reflexivity|]);
          (split; [unfold wake_ok; cbn;
                   first [reflexivity | apply Nat.ltb_lt; lia | apply Nat.leb_le; lia
                         | apply Nat.ltb_lt; specialize (Hb3 eq_refl); lia]|]).
        all: (split; [exact C'|]); repeat split; cbn; auto; try lia; try (intros; discriminate).
        all: try (intros _; specialize (Hb3 eq_refl); lia).
      * subst w. destruct pend as [|y pend]; cbn in Hop; injection Hop as <- <-;
          (eexists; split; [cbn; reflexivity|]); (split; [reflexivity|]);
          (split; [exact C'|]); repeat split; cbn; auto; try (intros; discriminate).
    + unfold op_modify in Hop. cbn in Hop. injection Hop as <- <-.
      rewrite (Hpk eq_refl) in *. eexists; split; [cbn; reflexivity|]. split; [reflexivity|].
      split; [exact C'|]. repeat split; cbn; auto; intros; discriminate.
  - (* OClear *)
    destruct sal; [|discriminate]. destruct ral.
    + unfold op_modify in Hop. cbn in Hop.
      destruct prk; unfold waiter_link in Hl; cbn in Hl.
      * destruct (Hwk eq_refl) as [Hb1 Hb2].
        destruct Hl as [-> | ->]; destruct pend as [|y pend]; cbn in Hop; injection Hop as <- <-;
          (eexists; split; [cbn; reflexivity|]); (split; [reflexivity|]);
          (split; [exact C'|]); repeat split; cbn; auto; try lia; try (intros; discriminate).
      * subst w. destruct pend as [|y pend]; cbn in Hop; injection Hop as <- <-;
          (eexists; split; [cbn; reflexivity|]); (split; [reflexivity|]);
          (split; [exact C'|]); repeat split; cbn; auto; try (intros; discriminate).
    + unfold op_modify in Hop. cbn in Hop. injection Hop as <- <-.
      rewrite (Hpk eq_refl) in *. eexists; split; [cbn; reflexivity|]. split; [reflexivity|].
      split; [exact C'|]. repeat split; cbn; auto; intros; discriminate.
  - (* ODropSender *)
    destruct sal; [|discriminate]. unfold op_drop_sender in Hop. cbn in Hop.
    destruct ral; [destruct prk|]; unfold waiter_link in Hl; cbn in Hl.
    + destruct (Hwk eq_refl) as [Hb1 Hb2].
      assert (Hb3 : w = Notified -> (base < wk)%nat) by (intros E; apply Hb2; apply (Hwo eq_refl); exact E).
      destruct Hl as [-> | ->]; cbn in Hop; injection Hop as <- <-;
        (eexists; split; [cbn; reflexivity|]);
        (split; [unfold wake_ok; cbn; rewrite orb_true_r;
                 first [apply Nat.ltb_lt; lia | apply Nat.leb_le; lia
                       | apply Nat.ltb_lt; specialize (Hb3 eq_refl); lia]|]).
      all: (split; [exact C'|]); repeat split; cbn; auto; try lia; try (intros; discriminate).
      all: try (intros _; specialize (Hb3 eq_refl); lia).
    + subst w. cbn in Hop; injection Hop as <- <-.
      eexists; split; [cbn; reflexivity|]. split; [reflexivity|].
      split; [exact C'|]. repeat split; cbn; auto; intros; discriminate.
    + rewrite (Hpk eq_refl) in *. subst w. cbn in Hop; injection Hop as <- <-.
      eexists; split; [cbn; reflexivity|]. split; [reflexivity|].
      split; [exact C'|]. repeat split; cbn; auto; intros; discriminate.
  - (* OPoll *)
    destruct ral; [|destruct prk; discriminate].
    destruct (poll_spec _ C) as (s2 & Hres & Hsl2 & Hmg2 & Hsp2 & Hsd2 & Hrd2 & Hsr2 & Hwk2).
    { cbn. destruct sal; auto. }
    { cbn. destruct prk; auto. }
    cbn [slot sender_dropped s_pc receiver_dropped wakes merged send_results delivered r_pc] in Hres, Hsl2, Hmg2, Hsp2, Hsd2, Hrd2, Hsr2, Hwk2.
    destruct pend as [|y pend]; [destruct sal|]; cbn [opt_of_list negb] in Hop, Hres.
    + destruct Hres as (Hp & Hrp2 & Hdl2 & Hw2 & Hwo2). rewrite Hp in Hop. injection Hop as <- <-.
      eexists; split; [cbn; reflexivity|]. split; [reflexivity|].
      split; [exact C'|]. cbn. rewrite Hsl2, Hsd2, Hsp2, Hrd2, Hrp2, Hwk2, Hwo2.
      repeat split; auto; try lia; intros; discriminate.
    + destruct Hres as (Hp & Hrp2 & Hdl2). rewrite Hp in Hop. injection Hop as <- <-.
      eexists; split; [cbn; reflexivity|]. split; [reflexivity|].
      split; [exact C'|]. cbn. rewrite Hsl2, Hsd2, Hsp2, Hrd2, Hrp2.
      repeat split; auto; intros; discriminate.
    + destruct Hres as (Hp & Hrp2 & Hdl2). rewrite Hp in Hop. injection Hop as <- <-.
      eexists; split; [cbn; reflexivity|]. split; [reflexivity|].
      split; [exact C'|]. cbn. rewrite Hsl2, Hsd2, Hsp2, Hrd2, Hrp2.
      repeat split; auto; intros; discriminate.
  - (* OCancel *)
    destruct ral; [destruct prk|]; cbn in Hop; try discriminate.
    unfold waiter_link in Hl; cbn in Hl.
    destruct Hl as [-> | ->]; cbn in Hop; injection Hop as <- <-;
      (eexists; split; [cbn; reflexivity|]); (split; [reflexivity|]);
      (split; [exact C'|]); repeat split; cbn; auto; intros; discriminate.
  - (* ODropReceiver *)
    destruct ral; [destruct prk|]; cbn in Hop; try discriminate. injection Hop as <- <-.
    eexists; split; [cbn; reflexivity|]. split; [reflexivity|].
    split; [exact C'|]. repeat split; cbn; auto; intros; discriminate.
  - (* OTry *)
    destruct ral; [destruct prk|]; cbn in Hop; try discriminate. injection Hop as <- <-.
    eexists; split; [cbn; reflexivity|]. split; [reflexivity|].
    split; [exact C'|]. repeat split; cbn; auto; intros; discriminate.
Qed.

(* every script: what the model observes satisfies the specification *)
Lemma run_ops_spec os : forall s a tr, Sim s a -> run_ops os s = Some tr -> spec_check os a tr = true.
Proof.
  induction os as [|o os IH]; intros s a tr HS H; cbn [run_ops] in H.
  - injection H as <-. reflexivity.
  - destruct (run_op o s) as [[s1 ob]|] eqn:E; [|discriminate].
    destruct (run_ops os s1) as [tl|] eqn:E2; [|discriminate]. injection H as <-.
    destruct (sim_step _ _ _ _ _ HS E) as (a' & Hsp & Hwk & HS').
    cbn [spec_check]. rewrite Hsp, obs_eqb_refl, Hwk. cbn [andb]. eapply IH; eassumption.
Qed.

Lemma c19_refines_spec os tr : run_ops os init = Some tr -> spec_check os a_init tr = true.
Proof. apply run_ops_spec. apply sim_init. Qed.

(* reachability versions used by the property statements *)
Lemma c19_poll_spec s : reachable step init s ->
  (s_pc s = SIdle \/ s_pc s = SGone) -> (r_pc s = RIdle \/ r_pc s = RParked) ->
  exists s',
    (match slot s with
     | Some l => op_poll s = Some (s', Ready (Some l)) /\ r_pc s' = RIdle /\
                 delivered s' = delivered s ++ [RecvRet (Some l)]
     | None =>
         if sender_dropped s
         then op_poll s = Some (s', Ready None) /\ r_pc s' = RIdle /\ delivered s' = delivered s ++ [RecvRet None]
         else op_poll s = Some (s', Pending) /\ r_pc s' = RParked /\ delivered s' = delivered s /\
              wtr s' = Registered true /\ woken s' = false
     end) /\
    slot s' = None /\ merged s' = merged s /\ s_pc s' = s_pc s /\ sender_dropped s' = sender_dropped s /\
    receiver_dropped s' = receiver_dropped s /\ send_results s' = send_results s /\ wakes s' = wakes s.
Proof. intros H. apply poll_spec. apply inv_reachable in H. apply H. Qed.

Lemma c19_run_op_reachable o s s' ob : reachable step init s -> run_op o s = Some (s', ob) ->
  reachable step init s'.
Proof. intros H Hop. destruct (run_op_run _ _ _ _ Hop) as [ls Hr]. eapply reachable_run; eassumption. Qed.


(* the model accepts every operation the specification makes available (so the refinement
   theorem is not vacuous for any script the specification allows) *)
Lemma sim_avail o s a wk ob a' : Sim s a -> spec_op o a wk = Some (ob, a') ->
  exists s' ob', run_op o s = Some (s', ob').
Proof.
  intros (C & Hsl & Hsd & Hsp & Hrd & Hrp & Hwk & Hpk) Hspec.
  destruct o; cbn [spec_op run_op] in *.
  5: { (* OPoll *)
    destruct (a_ralive a) eqn:Er; [|discriminate].
    destruct (poll_spec s C) as (s2 & Hres & _).
    { rewrite Hsp. destruct (a_salive a); auto. }
    { rewrite Hrp. destruct (a_parked a); auto. }
    destruct (slot s); [|destruct (sender_dropped s)]; destruct Hres as (Hp & _); rewrite Hp;
      eexists; eexists; reflexivity. }
  all: destruct s as [sl p w sd rd sp rp mg dl sr wk0 wo]; destruct a as [pend sal ral prk base];
    cbn [slot permit wtr sender_dropped receiver_dropped s_pc r_pc merged delivered send_results wakes woken
         a_pend a_salive a_ralive a_parked a_base] in *; subst sl sd sp rd rp.
  - destruct sal; [|discriminate]. unfold op_modify. destruct ral; destruct pend; cbn; eexists; eexists; reflexivity.
  - destruct sal; [|discriminate]. unfold op_modify. destruct ral; destruct pend; cbn; eexists; eexists; reflexivity.
  - destruct sal; [|discriminate]. unfold op_modify. destruct ral; destruct pend; cbn; eexists; eexists; reflexivity.
  - destruct sal; [|discriminate]. unfold op_drop_sender. cbn. eexists; eexists; reflexivity.
  - destruct prk; [|discriminate]. destruct ral; [|discriminate (Hpk eq_refl)].
    cbn. destruct w; cbn; eexists; eexists; reflexivity.
  - destruct ral; [|discriminate]. destruct prk; [discriminate|]. cbn. eexists; eexists; reflexivity.
  - destruct ral; [|discriminate]. destruct prk; [discriminate|]. cbn. eexists; eexists; reflexivity.
Qed.

(* states that agree on everything except the wake baseline *)
Definition same_but_base (a b : astate) : Prop :=
  a_pend a = a_pend b /\ a_salive a = a_salive b /\ a_ralive a = a_ralive b /\ a_parked a = a_parked b.

Lemma spec_op_base o a b wk ob a' : same_but_base a b -> spec_op o a wk = Some (ob, a') ->
  exists b', spec_op o b O = Some (ob, b') /\ same_but_base a' b'.
Proof.
  intros (H1 & H2 & H3 & H4). destruct a as [pa sa ra ka ba], b as [pb sb rb kb bb]. cbn in *. subst.
  destruct o; cbn [spec_op a_pend a_salive a_ralive a_parked a_base];
    repeat match goal with |- context[if ?c then _ else _] => destruct c; cbn [andb negb] end;
    try destruct pb;
    intros H; try discriminate; injection H as <- <-; eexists; (split; [reflexivity|]);
    unfold same_but_base; cbn; auto.
Qed.

Lemma run_ops_total os : forall s a b, Sim s a -> same_but_base a b -> spec_avail os b = true ->
  exists tr, run_ops os s = Some tr.
Proof.
  induction os as [|o os IH]; intros s a b HS Hb Hav; cbn [run_ops]; [eexists; reflexivity|].
  cbn [spec_avail] in Hav. destruct (spec_op o b O) as [[ob b']|] eqn:Eb; [|discriminate].
  assert (Hb' : same_but_base b a) by (destruct Hb as (?&?&?&?); unfold same_but_base; auto).
  destruct (spec_op_base _ _ _ _ _ _ Hb' Eb) as (a0 & Ea0 & _).
  destruct (sim_avail _ _ _ _ _ _ HS Ea0) as (s' & ob' & Hop). rewrite Hop.
  destruct (sim_step _ _ _ _ _ HS Hop) as (a' & Hsp' & _ & HS').
  destruct (spec_op_base _ _ _ _ _ _ Hb Hsp') as (b2 & Eb2 & Hb2).
  rewrite Eb in Eb2. injection Eb2 as _ <-.
  destruct (IH _ _ _ HS' Hb2 Hav) as [tl Htl]. rewrite Htl. eexists; reflexivity.
Qed.

Lemma c19_model_total os : spec_avail os a_init = true -> exists tr, run_ops os init = Some tr.
Proof.
  apply (run_ops_total os init a_init a_init); [apply sim_init|]. unfold same_but_base. auto.
Qed.

(* ---------------- closure classes ---------------- *)

(* the updates handed to merging closures along a schedule, in order *)
Fixpoint merged_labels (ls : list label) : list upd :=
  match ls with
  | [] => []
  | SMerge (CMerge x) :: r => x :: merged_labels r
  | _ :: r => merged_labels r
  end.
Fixpoint no_clear (ls : list label) : bool :=
  match ls with
  | [] => true
  | SMerge CClear :: _ => false
  | _ :: r => no_clear r
  end.

Lemma step_merged s lb s' : step s lb = Some s' ->
  merged s' = match lb with SMerge c => merged_after (merged s) (slot s) c | _ => merged s end.
Proof.
  destruct s as [sl p w sd rd sp rp mg dl sr wk wo]. destruct lb; cbn.
  - destruct sp; try discriminate. destruct rd; intros H; injection H as <-; reflexivity.
  - destruct sp; try discriminate. intros H; injection H as <-. destruct (merge_slot sl c); reflexivity.
  - destruct sp; try discriminate. intros H; injection H as <-. destruct w; reflexivity.
  - destruct sp; try discriminate. intros H; injection H as <-. reflexivity.
  - destruct sp; try discriminate. intros H; injection H as <-. destruct w; reflexivity.
  - destruct rp; try discriminate; destruct p; intros H; injection H as <-; reflexivity.
  - destruct rp; try discriminate. destruct sl; intros H; injection H as <-; reflexivity.
  - destruct rp; try discriminate. intros H; injection H as <-. reflexivity.
  - destruct rp; try discriminate. intros H; injection H as <-. reflexivity.
  - destruct rp as [| |f|f|f|f v|f| |]; try discriminate. destruct f; destruct w; cbn; intros H; injection H as <-; reflexivity.
  - destruct rp as [| |f|f|f|f v|f| |]; try discriminate.
    + destruct f; [destruct w; try discriminate|]; intros H; injection H as <-; reflexivity.
    + destruct w; try discriminate; intros H; injection H as <-; reflexivity.
  - destruct rp; try discriminate. destruct w; cbn; intros H; injection H as <-; reflexivity.
  - destruct rp; try discriminate. intros H; injection H as <-. reflexivity.
  - destruct rp; try discriminate. intros H; injection H as <-. reflexivity.
Qed.

(* with inflationary closures only (merge / no-op), [merged] is everything ever merged in *)
Lemma merged_inflationary ls : forall s s', run step s ls = Some s' -> no_clear ls = true ->
  merged s' = merged s ++ merged_labels ls.
Proof.
  induction ls as [|lb ls IH]; intros s s' Hr Hn; cbn [run] in Hr.
  - injection Hr as <-. cbn. rewrite app_nil_r. reflexivity.
  - destruct (step s lb) as [s1|] eqn:E; [|discriminate].
    pose proof (step_merged _ _ _ E) as Hm.
    assert (Hn' : no_clear ls = true) by (destruct lb as [|[| |]| | | | | | | | | | | |]; cbn in Hn; try discriminate; exact Hn).
    rewrite (IH _ _ Hr Hn'), Hm.
    destruct lb as [|[x| |]| | | | | | | | | | | |]; cbn [merged_after merged_labels]; try reflexivity.
    + rewrite <- app_assoc. reflexivity.
    + discriminate.
Qed.

Lemma c19_inflationary ls s : run step init ls = Some s -> no_clear ls = true ->
  delivered_values s ++ in_flight s ++ slot_list s = merged_labels ls.
Proof.
  intros Hr Hn. rewrite (c19_no_loss_dup s) by (exists ls; exact Hr).
  rewrite (merged_inflationary _ _ _ Hr Hn). reflexivity.
Qed.

(* a clearing closure retracts exactly what is pending in the slot: nothing delivered or in
   flight is touched, and no notification is issued *)
Lemma c19_clear_retracts s s' : reachable step init s -> step s (SMerge CClear) = Some s' ->
  slot s' = None /\ merged s' ++ slot_list s = merged s /\ delivered s' = delivered s /\
  in_flight s' = in_flight s /\ wakes s' = wakes s /\ permit s' = permit s /\ wtr s' = wtr s /\
  s_pc s' = SIdle /\ send_results s' = send_results s ++ [true].
Proof.
  intros Hr Hs. pose proof (c19_no_loss_dup s Hr) as He.
  destruct s as [sl p w sd rd sp rp mg dl sr wk wo]. cbn in Hs. destruct sp; try discriminate.
  injection Hs as <-. unfold delivered_values, in_flight, slot_list in *. cbn in *.
  repeat split; try reflexivity.
  rewrite <- He. unfold drop_last. rewrite app_assoc, app_length, Nat.add_sub.
  rewrite firstn_app, Nat.sub_diag, firstn_all. cbn [firstn]. rewrite app_nil_r. reflexivity.
Qed.
