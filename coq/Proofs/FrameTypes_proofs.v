(* Proofs about the binary type grammar and the column specs (Model/FrameTypes.v):
   truncation safety for EVERY custom-type parser, round trip for the types of the binary
   notation, fuel sufficiency. *)
From SV Require Import Base.Prelude Base.Bytes Model.FrameBase Model.FrameTypes Proofs.FrameBase_proofs.
Open Scope N_scope.

(* induction principle with the nested lists *)
Lemma coltype_ind' (P : coltype -> Prop) :
  (forall n, P (TNative n)) ->
  (forall fr e, P e -> P (TList fr e)) ->
  (forall fr e, P e -> P (TSet fr e)) ->
  (forall fr k v, P k -> P v -> P (TMap fr k v)) ->
  (forall e d, P e -> P (TVector e d)) ->
  (forall fr ks nm fs, Forall (fun f => P (snd f)) fs -> P (TUdt fr ks nm fs)) ->
  (forall es, Forall P es -> P (TTuple es)) ->
  forall t, P t.
Proof.
  intros Hn Hl Hs Hm Hv Hu Ht. fix IH 1. intros t. destruct t as [n|fr e|fr e|fr k v|e d|fr ks nm fs|es].
  - apply Hn.
  - apply Hl, IH.
  - apply Hs, IH.
  - apply Hm; apply IH.
  - apply Hv, IH.
  - apply Hu. induction fs as [|[a b] fs IHfs]; constructor; [apply IH|exact IHfs].
  - apply Ht. induction es as [|e es IHes]; constructor; [apply IH|exact IHes].
Qed.

Section WithCustom.
Variable custom : custom_parser.

Definition custom_step (depth : N) (s : bytes) : parser coltype :=
  fun b => let '(r, d) := custom s in
           (match r with Ok t => Ok (t, b) | Err e => Err e end, mkCost 0 (depth + 1 + d)).

Lemma psafe_custom_step depth s : psafe (custom_step depth s).
Proof.
  apply psafe_noread; intros b; [|intros b']; unfold run, custom_step;
    destruct (custom s) as [[t|e] d]; cbn; auto.
Qed.

Lemma deser_type_f_unfold fuel depth :
  deser_type_f custom fuel depth =
  match fuel with
  | O => fail EOutOfFuel
  | S f =>
    if MAX_TYPE_NESTING_DEPTH <? depth then fail ETypeNestingTooDeep
    else
      bind (tick_depth (depth + 1)) (fun _ =>
      bind read_short (fun id =>
      if id =? 0 then bind read_string (fun s => custom_step depth s)
      else if id =? 32 then bind (deser_type_f custom f (depth + 1)) (fun e => ret (TList false e))
      else if id =? 33 then
        bind (deser_type_f custom f (depth + 1)) (fun k =>
        bind (deser_type_f custom f (depth + 1)) (fun v => ret (TMap false k v)))
      else if id =? 34 then bind (deser_type_f custom f (depth + 1)) (fun e => ret (TSet false e))
      else if id =? 48 then
        bind read_string (fun ks => bind read_string (fun name => bind read_short (fun n =>
        bind (tick_alloc_capped n 4 SZ_UDT_FIELD) (fun _ =>
        bind (repeatS (bind read_string (fun fname =>
                       bind (deser_type_f custom f (depth + 1)) (fun ft => ret (fname, ft)))) n)
             (fun fs => ret (TUdt false ks name fs))))))
      else if id =? 49 then
        bind read_short (fun n =>
        bind (tick_alloc_capped n 2 SZ_COLTYPE) (fun _ =>
        bind (repeatS (deser_type_f custom f (depth + 1)) n) (fun es => ret (TTuple es))))
      else match native_of_id id with
           | Some nt => ret (TNative nt)
           | None => fail ETypeNotImplemented
           end))
  end.
Proof. destruct fuel; reflexivity. Qed.

Lemma psafe_deser_type_f : forall fuel depth, psafe (deser_type_f custom fuel depth).
Proof.
  induction fuel as [|f IH]; intros depth; rewrite deser_type_f_unfold; [apply psafe_fail|].
  apply psafe_if; [apply psafe_fail|].
  apply psafe_bind; [apply psafe_tick_depth|intros _].
  apply psafe_bind; [apply psafe_read_short|intros id].
  repeat (apply psafe_if).
  - apply psafe_bind; [apply psafe_read_string|intros s; apply psafe_custom_step].
  - psafe_tac.
  - psafe_tac.
  - psafe_tac.
  - psafe_tac. apply psafe_repeatS. psafe_tac.
  - psafe_tac.
  - destruct (native_of_id id); psafe_tac.
Qed.

Lemma psafe_deser_type : psafe (deser_type custom).
Proof. apply psafe_deser_type_f. Qed.

(* a type costs at least its 2-byte id *)
Lemma consuming_deser_type_f fuel depth : consuming (deser_type_f custom fuel depth).
Proof.
  intros b v r H. rewrite deser_type_f_unfold in H. destruct fuel as [|f]; [rewrite run_fail in H; discriminate|].
  destruct (MAX_TYPE_NESTING_DEPTH <? depth); [rewrite run_fail in H; discriminate|].
  rewrite run_bind, run_tick_depth, run_bind in H.
  destruct (run read_short b) as [[id r1]|e] eqn:E; [|discriminate].
  apply consuming_read_short in E.
  assert (S : (length r <= length r1)%nat); [|lia].
  revert H. apply psafe_shrinks.
  repeat (apply psafe_if).
  - apply psafe_bind; [apply psafe_read_string|intros s; apply psafe_custom_step].
  - apply psafe_bind; [apply psafe_deser_type_f|intros; apply psafe_ret].
  - apply psafe_bind; [apply psafe_deser_type_f|intros].
    apply psafe_bind; [apply psafe_deser_type_f|intros; apply psafe_ret].
  - apply psafe_bind; [apply psafe_deser_type_f|intros; apply psafe_ret].
  - psafe_tac. apply psafe_repeatS. psafe_tac. apply psafe_deser_type_f.
  - psafe_tac. apply psafe_repeatS. apply psafe_deser_type_f.
  - destruct (native_of_id id); psafe_tac.
Qed.

(* ---- round trip of the binary notation ----------------------------------------------------- *)
Lemma native_id_facts n :
  let id := id_of_native n in
  id < 65536 /\ (id =? 0) = false /\ (id =? 32) = false /\ (id =? 33) = false /\ (id =? 34) = false /\
  (id =? 48) = false /\ (id =? 49) = false /\ native_of_id id = Some n.
Proof. destruct n; cbv zeta; repeat split; reflexivity. Qed.

Lemma type_depth_pos t : 1 <= type_depth t.
Proof. destruct t; cbn [type_depth]; lia. Qed.

Lemma fold_max_ge {A} (g : A -> N) (l : list A) x :
  In x l -> g x <= fold_right (fun f m => N.max (g f) m) 0 l.
Proof.
  induction l as [|y l IH]; intros H; [contradiction|]. cbn [fold_right].
  destruct H as [->|H]; [lia|]. specialize (IH H). lia.
Qed.

Ltac lit_eqb :=
  repeat match goal with
         | |- context [N.eqb ?a ?b] =>
           let v := eval vm_compute in (N.eqb a b) in
           match v with true => idtac | false => idtac end;
           change (N.eqb a b) with v
         end.

Lemma run_deser_type_enc : forall t fuel depth r,
  wf_type_b t = true -> depth + type_depth t <= MAX_TYPE_NESTING_DEPTH + 1 ->
  (N.to_nat (type_depth t) <= fuel)%nat ->
  run (deser_type_f custom fuel depth) (enc_type t ++ r) = Ok (t, r).
Proof.
  unfold MAX_TYPE_NESTING_DEPTH.
  induction t as [n|fr e IHe|fr e IHe|fr k v IHk IHv|e d IHe|fr ks nm fs IHfs|es IHes] using coltype_ind';
    intros fuel depth r W D F;
    match type of F with (N.to_nat (type_depth ?t) <= _)%nat => pose proof (type_depth_pos t) as TP end;
    rewrite deser_type_f_unfold;
    (destruct fuel as [|f]; [lia|]);
    unfold MAX_TYPE_NESTING_DEPTH;
    (destruct (128 <? depth) eqn:Ed; [apply N.ltb_lt in Ed; lia|]);
    cbn [type_depth] in D, F;
    rewrite run_bind, run_tick_depth; cbv beta iota; cbn [enc_type wf_type_b] in *.
  - (* native *)
    pose proof (native_id_facts n) as NF. cbv zeta in NF.
    destruct NF as (L & E0 & E1 & E2 & E3 & E4 & E5 & EN).
    rewrite run_bind, run_read_short_enc by exact L. cbv beta iota.
    rewrite E0, E1, E2, E3, E4, E5, EN. reflexivity.
  - (* list *)
    apply andb_true_iff in W as [Wf We]. destruct fr; [discriminate|].
    rewrite <- app_assoc, run_bind, run_read_short_enc by lia. cbv beta iota. lit_eqb. cbv iota.
    rewrite run_bind, IHe; [reflexivity|exact We|lia|lia].
  - (* set *)
    apply andb_true_iff in W as [Wf We]. destruct fr; [discriminate|].
    rewrite <- app_assoc, run_bind, run_read_short_enc by lia. cbv beta iota. lit_eqb. cbv iota.
    rewrite run_bind, IHe; [reflexivity|exact We|lia|lia].
  - (* map *)
    apply andb_true_iff in W as [W Wv]. apply andb_true_iff in W as [Wf Wk]. destruct fr; [discriminate|].
    rewrite <- !app_assoc, run_bind, run_read_short_enc by lia. cbv beta iota. lit_eqb. cbv iota.
    rewrite run_bind, IHk; [|exact Wk|lia|lia]. cbv beta iota.
    rewrite run_bind, IHv; [reflexivity|exact Wv|lia|lia].
  - (* vector: not in the binary notation *)
    discriminate.
  - (* udt *)
    repeat (apply andb_true_iff in W as [W ?]). destruct fr; [discriminate|].
    repeat match goal with H : _ <? _ = true |- _ => apply N.ltb_lt in H end.
    repeat match goal with H : bytes_okb _ = true |- _ => apply bytes_okb_ok in H end.
    rewrite <- !app_assoc, run_bind, run_read_short_enc by lia. cbv beta iota. lit_eqb. cbv iota.
    rewrite run_bind, run_read_string_enc by (repeat split; assumption). cbv beta iota.
    rewrite run_bind, run_read_string_enc by (repeat split; assumption). cbv beta iota.
    rewrite run_bind, run_read_short_enc by assumption. cbv beta iota.
    rewrite run_bind, run_tick_alloc_capped. cbv beta iota. rewrite run_bind.
    rewrite (run_repeatS_enc _ (fun f => enc_string (fst f) ++ enc_type (snd f))); [reflexivity|].
    rewrite Forall_forall in *. intros [fname ft] Hin r'. cbn [fst snd].
    match goal with H : forallb _ fs = true |- _ => rewrite forallb_forall in H; specialize (H _ Hin) end.
    cbn [fst snd] in *.
    repeat match goal with H : _ && _ = true |- _ => apply andb_true_iff in H as [H ?] end.
    repeat match goal with H : _ <? _ = true |- _ => apply N.ltb_lt in H end.
    repeat match goal with H : bytes_okb _ = true |- _ => apply bytes_okb_ok in H end.
    rewrite <- app_assoc, run_bind, run_read_string_enc by (repeat split; assumption). cbv beta iota.
    pose proof (fold_max_ge (fun f => type_depth (snd f)) fs _ Hin) as M. cbn [snd] in M.
    rewrite run_bind, (IHfs _ Hin); [reflexivity|assumption|cbn [snd]; lia|cbn [snd]; lia].
  - (* tuple *)
    apply andb_true_iff in W as [Wl We]. apply N.ltb_lt in Wl.
    rewrite <- !app_assoc, run_bind, run_read_short_enc by lia. cbv beta iota. lit_eqb. cbv iota.
    rewrite run_bind, run_read_short_enc by assumption. cbv beta iota.
    rewrite run_bind, run_tick_alloc_capped. cbv beta iota. rewrite run_bind.
    rewrite (run_repeatS_enc _ enc_type); [reflexivity|].
    rewrite Forall_forall in *. intros e Hin r'. rewrite forallb_forall in We.
    pose proof (fold_max_ge type_depth es _ Hin) as M.
    apply IHes; [exact Hin|apply We; exact Hin|lia|lia].
Qed.

Lemma run_deser_type_top t r :
  wf_type t -> run (deser_type custom) (enc_type t ++ r) = Ok (t, r).
Proof.
  intros [W D]. unfold deser_type, TYPE_FUEL. apply run_deser_type_enc; [exact W|lia|].
  unfold MAX_TYPE_NESTING_DEPTH in D. lia.
Qed.

(* ---- table / column specs -------------------------------------------------------------------- *)
Lemma psafe_deser_table_spec : psafe deser_table_spec.
Proof. unfold deser_table_spec. psafe_tac. Qed.
Lemma psafe_deser_col_spec g : psafe (deser_col_spec custom g).
Proof.
  unfold deser_col_spec. apply psafe_bind; [destruct g; [apply psafe_ret|apply psafe_deser_table_spec]|intros ts].
  apply psafe_bind; [apply psafe_read_string|intros nm].
  apply psafe_bind; [apply psafe_deser_type|intros ty]. apply psafe_ret.
Qed.
Lemma consuming_deser_col_spec g : consuming (deser_col_spec custom g).
Proof.
  intros b v r H. unfold deser_col_spec in H. rewrite run_bind in H.
  destruct (run match g with Some g0 => ret g0 | None => deser_table_spec end b) as [[ts r1]|e] eqn:E1; [|discriminate].
  assert (L1 : (length r1 <= length b)%nat).
  { revert E1. apply psafe_shrinks. destruct g; [apply psafe_ret|apply psafe_deser_table_spec]. }
  rewrite run_bind in H. destruct (run read_string r1) as [[nm r2]|e] eqn:E2; [|discriminate].
  apply consuming_read_string in E2.
  assert (L3 : (length r <= length r2)%nat); [|lia].
  revert H. apply psafe_shrinks. apply psafe_bind; [apply psafe_deser_type|intros; apply psafe_ret].
Qed.
Lemma psafe_deser_col_specs g n : psafe (deser_col_specs custom g n).
Proof.
  unfold deser_col_specs. apply psafe_bind; [apply psafe_tick_alloc_capped|intros _].
  apply psafe_repeatN; [apply psafe_deser_col_spec|apply consuming_deser_col_spec].
Qed.
Lemma run_deser_table_spec_enc ts r :
  wf_tablespec ts -> run deser_table_spec (enc_table_spec ts ++ r) = Ok (ts, r).
Proof.
  destruct ts as [ks t]. intros [H1 H2]. cbn [fst snd] in *. unfold deser_table_spec, enc_table_spec.
  cbn [fst snd]. rewrite <- app_assoc, run_bind, run_read_string_enc by exact H1. cbv beta iota.
  rewrite run_bind, run_read_string_enc by exact H2. reflexivity.
Qed.

Lemma enc_string_nonempty s : enc_string s <> [].
Proof.
  intros X. apply (f_equal (@length N)) in X. unfold enc_string, enc_short in X.
  rewrite app_length, be_enc_length in X. cbn in X. lia.
Qed.

(* column specs, per-column table spec or a global one that every column carries *)
Lemma run_deser_col_specs_enc (global : bool) g cols r :
  Forall wf_colspec cols ->
  (global = true -> wf_tablespec g /\ Forall (fun c => cs_table c = g) cols) ->
  run (deser_col_specs custom (if global then Some g else None) (lenN cols))
      (flat_map (enc_col_spec global) cols ++ r) = Ok (cols, r).
Proof.
  intros W G. unfold deser_col_specs. rewrite run_bind, run_tick_alloc_capped. cbv beta iota.
  apply run_repeatN_enc.
  - rewrite Forall_forall in *. intros [ts nm ty] Hin r'. specialize (W _ Hin).
    destruct W as (Wt & Wn & Wy). cbn [cs_table cs_name cs_type] in *.
    unfold deser_col_spec, enc_col_spec. cbn [cs_table cs_name cs_type].
    destruct global.
    + destruct (G eq_refl) as [_ Gc]. specialize (Gc _ Hin). cbn in Gc. subst g.
      cbn [app]. rewrite run_bind, run_ret. cbv beta iota.
      rewrite <- app_assoc, run_bind, run_read_string_enc by exact Wn. cbv beta iota.
      rewrite run_bind, run_deser_type_top by exact Wy. reflexivity.
    + rewrite <- !app_assoc, run_bind, run_deser_table_spec_enc by exact Wt. cbv beta iota.
      rewrite run_bind, run_read_string_enc by exact Wn. cbv beta iota.
      rewrite run_bind, run_deser_type_top by exact Wy. reflexivity.
  - rewrite Forall_forall. intros c _. unfold enc_col_spec. destruct global.
    + cbn [app]. intros X. apply app_eq_nil in X as [X _]. eapply enc_string_nonempty; eauto.
    + unfold enc_table_spec. intros X. apply app_eq_nil in X as [X _]. apply app_eq_nil in X as [X _].
      eapply enc_string_nonempty; eauto.
Qed.

(* ---- fuel: the nesting check comes first, so the constant fuel is never exhausted --------- *)
Hypothesis custom_noof : forall s, fst (custom s) <> Err EOutOfFuel.

Lemma noof_custom_step depth s : noof (custom_step depth s).
Proof.
  intros b. unfold run, custom_step. pose proof (custom_noof s) as H.
  destruct (custom s) as [[t|e] d]; cbn in *; congruence.
Qed.

Lemma noof_deser_type_f : forall fuel depth,
  (130 <= N.to_nat depth + fuel)%nat -> (1 <= fuel)%nat -> noof (deser_type_f custom fuel depth).
Proof.
  induction fuel as [|f IH]; intros depth H1 H2; [lia|]. rewrite deser_type_f_unfold.
  destruct (MAX_TYPE_NESTING_DEPTH <? depth) eqn:Ed; [apply noof_fail; discriminate|].
  apply N.ltb_ge in Ed. unfold MAX_TYPE_NESTING_DEPTH in Ed.
  assert (Hrec : noof (deser_type_f custom f (depth + 1))) by (apply IH; lia).
  apply noof_bind; [apply noof_tick_depth|intros _].
  apply noof_bind; [apply noof_read_short|intros id].
  repeat apply noof_if.
  - apply noof_bind; [apply noof_read_string|intros s; apply noof_custom_step].
  - noof_tac.
  - noof_tac.
  - noof_tac.
  - noof_tac.
  - noof_tac.
  - destruct (native_of_id id); noof_tac.
Qed.

Lemma noof_deser_type : noof (deser_type custom).
Proof. apply noof_deser_type_f; unfold TYPE_FUEL; lia. Qed.

Lemma noof_deser_table_spec : noof deser_table_spec.
Proof. unfold deser_table_spec. noof_tac. Qed.
Lemma noof_deser_col_specs g n : noof (deser_col_specs custom g n).
Proof.
  unfold deser_col_specs. apply noof_bind; [apply noof_tick_alloc_capped|intros _].
  apply noof_repeatN; [|apply consuming_deser_col_spec].
  unfold deser_col_spec. apply noof_bind; [destruct g; [apply noof_ret|apply noof_deser_table_spec]|intros ts].
  apply noof_bind; [apply noof_read_string|intros nm].
  apply noof_bind; [apply noof_deser_type|intros ty]. apply noof_ret.
Qed.

End WithCustom.
