(* Proofs for Model/PartKey.v (property C03): PartitionKey::new puts the value bound to the
   j-th announced partition-key marker into slot j whatever the marker order; the encoded key is
   the serialized partition key of the specification; the token is the partitioner's token of
   that key; over-long components are refused. *)
From SV Require Import Base.Prelude Base.Bytes Model.Murmur Model.PartKey Proofs.Murmur_proofs.
From Coq Require Import Permutation Sorted.
Open Scope N_scope.

(* ---- the sort ---- *)
Lemma insert_perm p l : Permutation (insert_by_index p l) (p :: l).
Proof.
  induction l as [|x l IH]; [reflexivity|]. cbn [insert_by_index].
  destruct (pki_index p <=? pki_index x); [reflexivity|].
  rewrite IH. apply perm_swap.
Qed.

Lemma sort_perm l : Permutation (sort_by_index l) l.
Proof.
  induction l as [|x l IH]; [reflexivity|]. cbn [sort_by_index fold_right].
  rewrite insert_perm. constructor. exact IH.
Qed.

Definition idx_le (a b : pk_index) : Prop := pki_index a <= pki_index b.
Definition idx_lt (a b : pk_index) : Prop := pki_index a < pki_index b.

Lemma insert_sorted p l : StronglySorted idx_le l -> StronglySorted idx_le (insert_by_index p l).
Proof.
  induction l as [|x l IH]; intros H; cbn [insert_by_index].
  - constructor; constructor.
  - apply StronglySorted_inv in H as [Hs Hf].
    destruct (pki_index p <=? pki_index x) eqn:E.
    + apply N.leb_le in E. constructor; [constructor; assumption|].
      constructor; [exact E|]. eapply Forall_impl; [|exact Hf]. unfold idx_le. intros a Ha. lia.
    + apply N.leb_gt in E. constructor; [apply IH; exact Hs|].
      eapply Permutation_Forall; [symmetry; apply insert_perm|].
      constructor; [unfold idx_le; lia|exact Hf].
Qed.

Lemma sort_sorted l : StronglySorted idx_le (sort_by_index l).
Proof.
  induction l as [|x l IH]; [constructor|]. cbn [sort_by_index fold_right]. apply insert_sorted. exact IH.
Qed.

Lemma sorted_strict l : StronglySorted idx_le l -> NoDup (map pki_index l) -> StronglySorted idx_lt l.
Proof.
  induction l as [|x l IH]; intros Hs Hn; [constructor|].
  apply StronglySorted_inv in Hs as [Hs Hf]. cbn [map] in Hn. inversion Hn as [|? ? Hnotin Hn']; subst.
  constructor; [apply IH; assumption|].
  rewrite Forall_forall in *. intros a Ha. specialize (Hf a Ha). unfold idx_le, idx_lt in *.
  assert (pki_index a <> pki_index x).
  { intros E. apply Hnotin. rewrite <- E. apply in_map. exact Ha. }
  lia.
Qed.

(* ---- enumerate ---- *)
Lemma enumerate_idx wire : forall i, map pki_index (enumerate_from i wire) = wire.
Proof. induction wire as [|x r IH]; intros i; [reflexivity|]. cbn [enumerate_from map pki_index]. now rewrite IH. Qed.

Lemma enumerate_seq wire : forall i, map pki_sequence (enumerate_from i wire) = nrange i (length wire).
Proof. induction wire as [|x r IH]; intros i; [reflexivity|]. cbn [enumerate_from map pki_sequence length nrange]. now rewrite IH. Qed.

Lemma enumerate_In wire : forall i j, (j < length wire)%nat ->
  In {| pki_index := nth j wire 0; pki_sequence := i + N.of_nat j |} (enumerate_from i wire).
Proof.
  induction wire as [|x r IH]; intros i j H; cbn [length] in H; [lia|].
  destruct j as [|j]; cbn [enumerate_from nth].
  - left. f_equal. lia.
  - right. replace (i + N.of_nat (S j)) with (N.succ i + N.of_nat j) by lia. apply IH. lia.
Qed.

Lemma nrange_NoDup len : forall lo, NoDup (nrange lo len).
Proof.
  induction len as [|k IH]; intros lo; [constructor|]. cbn [nrange]. constructor; [|apply IH].
  rewrite nrange_In. lia.
Qed.

(* ---- set_nth ---- *)
Lemma set_nth_length {A} (x : A) l : forall i, length (set_nth i x l) = length l.
Proof. induction l as [|y l IH]; intros i; [reflexivity|]. destruct i; cbn [set_nth length]; [reflexivity|now rewrite IH]. Qed.

Lemma nth_set_nth_eq {A} (x d : A) l : forall i, (i < length l)%nat -> nth i (set_nth i x l) d = x.
Proof.
  induction l as [|y l IH]; intros i H; cbn [length] in H; [lia|].
  destruct i; cbn [set_nth nth]; [reflexivity|apply IH; lia].
Qed.

Lemma nth_set_nth_neq {A} (x d : A) l : forall i j, i <> j -> nth j (set_nth i x l) d = nth j l d.
Proof.
  induction l as [|y l IH]; intros i j H; [reflexivity|].
  destruct i, j; cbn [set_nth nth]; try reflexivity; [lia|apply IH; lia].
Qed.

(* ---- the extraction loop ---- *)
Definition store (values : list raw_value) (slots : list (option bytes)) (p : pk_index) :=
  match nth (N.to_nat (pki_index p)) values RNull with
  | RValue b => set_nth (N.to_nat (pki_sequence p)) (Some b) slots
  | _ => slots
  end.

Lemma store_length values slots p : length (store values slots p) = length slots.
Proof. unfold store. destruct (nth _ values RNull); try reflexivity. apply set_nth_length. Qed.

Lemma pk_loop_ok chk ncols count values : N.of_nat (length values) <= 65535 ->
  forall pkis offset slots,
  StronglySorted idx_lt pkis ->
  Forall (fun p => offset <= pki_index p /\ (N.to_nat (pki_index p) < length values)%nat /\
                   (N.to_nat (pki_index p) < ncols)%nat /\
                   (N.to_nat (pki_sequence p) < length slots)%nat) pkis ->
  pk_new_loop chk ncols count pkis (skipn (N.to_nat offset) values) offset slots =
  Ok (fold_left (store values) pkis slots).
Proof.
  intros HV. induction pkis as [|p rest IH]; intros offset slots Hs Hf; [reflexivity|].
  apply StronglySorted_inv in Hs as [Hs Hlt]. inversion Hf as [|? ? (Ho & Hv & Hc & Hq) Hf']; subst.
  cbn [pk_new_loop fold_left].
  destruct (pki_index p <? offset) eqn:E1; [apply N.ltb_lt in E1; lia|].
  cbv zeta. unfold iter_nth. rewrite skipn_skipn'.
  replace (N.to_nat offset + N.to_nat (pki_index p - offset))%nat with (N.to_nat (pki_index p)) by lia.
  rewrite (skipn_cons_nth RNull) by exact Hv.
  assert (Hstored :
    match nth (N.to_nat (pki_index p)) values RNull with
    | RValue b =>
        if (N.to_nat (pki_index p) <? ncols)%nat
        then if (N.to_nat (pki_sequence p) <? length slots)%nat
             then Ok (set_nth (N.to_nat (pki_sequence p)) (Some b) slots) else Err RustPanic
        else Err RustPanic
    | _ => Ok slots
    end = @Ok c03_error _ (store values slots p)).
  { unfold store. destruct (nth _ values RNull); try reflexivity.
    apply Nat.ltb_lt in Hc, Hq. rewrite Hc, Hq. reflexivity. }
  rewrite Hstored.
  destruct (65535 <? pki_index p + 1) eqn:E2; [apply N.ltb_lt in E2; lia|].
  replace (S (N.to_nat (pki_index p))) with (N.to_nat (pki_index p + 1)) by lia.
  apply IH; [exact Hs|].
  rewrite Forall_forall in *. intros a Ha. specialize (Hf' a Ha). specialize (Hlt a Ha).
  unfold idx_lt in Hlt. rewrite store_length. lia.
Qed.

(* the slots after the loop *)
Lemma nth_fold_store values pkis : forall slots j,
  NoDup (map pki_sequence pkis) ->
  Forall (fun p => (N.to_nat (pki_sequence p) < length slots)%nat) pkis ->
  nth j (fold_left (store values) pkis slots) None =
  match find (fun p => N.to_nat (pki_sequence p) =? j)%nat pkis with
  | Some p => match nth (N.to_nat (pki_index p)) values RNull with
              | RValue b => Some b
              | _ => nth j slots None
              end
  | None => nth j slots None
  end.
Proof.
  induction pkis as [|p rest IH]; intros slots j Hn Hf; [reflexivity|].
  cbn [map] in Hn. inversion Hn as [|? ? Hnotin Hn']; subst.
  inversion Hf as [|? ? Hp Hf']; subst.
  cbn [fold_left find]. rewrite IH; [|exact Hn'|].
  2:{ eapply Forall_impl; [|exact Hf']. intros a Ha. rewrite store_length. exact Ha. }
  destruct (N.to_nat (pki_sequence p) =? j)%nat eqn:E.
  - apply Nat.eqb_eq in E.
    assert (Hnone : find (fun p0 => (N.to_nat (pki_sequence p0) =? j)%nat) rest = None).
    { destruct (find _ rest) as [p'|] eqn:Ef; [|reflexivity]. exfalso.
      apply find_some in Ef as [Hin Heq]. apply Nat.eqb_eq in Heq.
      apply Hnotin. replace (pki_sequence p) with (pki_sequence p') by lia. apply in_map. exact Hin. }
    rewrite Hnone. unfold store. destruct (nth _ values RNull); try reflexivity.
    subst j. apply nth_set_nth_eq. exact Hp.
  - apply Nat.eqb_neq in E.
    assert (Hsame : nth j (store values slots p) None = nth j slots None).
    { unfold store. destruct (nth _ values RNull); try reflexivity. apply nth_set_nth_neq. exact E. }
    rewrite Hsame. reflexivity.
Qed.

Lemma find_unique (l : list pk_index) p :
  NoDup (map pki_sequence l) -> In p l ->
  find (fun x => N.to_nat (pki_sequence x) =? N.to_nat (pki_sequence p))%nat l = Some p.
Proof.
  induction l as [|x l IH]; intros Hn Hin; [destruct Hin|].
  cbn [map] in Hn. inversion Hn as [|? ? Hnotin Hn']; subst. cbn [find].
  destruct Hin as [->|Hin].
  - rewrite Nat.eqb_refl. reflexivity.
  - destruct (N.to_nat (pki_sequence x) =? N.to_nat (pki_sequence p))%nat eqn:E.
    + apply Nat.eqb_eq in E. exfalso. apply Hnotin.
      replace (pki_sequence x) with (pki_sequence p) by lia. apply in_map. exact Hin.
    + apply IH; assumption.
Qed.

Lemma fold_store_length values pkis : forall sl, length (fold_left (store values) pkis sl) = length sl.
Proof.
  induction pkis as [|p r IH]; intros sl; [reflexivity|]. cbn [fold_left]. rewrite IH. apply store_length.
Qed.

Lemma nth_repeat_None {A} n j : nth j (repeat (@None A) n) None = None.
Proof. revert j; induction n as [|n IH]; intros j; destruct j; cbn [repeat nth]; auto. Qed.

(* PartitionKey::new puts the value bound to the j-th announced marker into slot j *)
Theorem pk_new_order chk ncols wire values :
  NoDup wire ->
  (forall i, In i wire -> (N.to_nat i < length values)%nat /\ (N.to_nat i < ncols)%nat) ->
  N.of_nat (length values) <= 65535 ->
  pk_new chk ncols wire values = Ok (map (fun i => as_value (nth (N.to_nat i) values RNull)) wire).
Proof.
  intros Hnd Hin HV. unfold pk_new, deser_pk_indexes.
  set (pkis := sort_by_index (enumerate_from 0 wire)).
  assert (Hperm : Permutation pkis (enumerate_from 0 wire)) by apply sort_perm.
  assert (Hidx : Permutation (map pki_index pkis) wire).
  { rewrite <- (enumerate_idx wire 0). apply Permutation_map. exact Hperm. }
  assert (Hseq : Permutation (map pki_sequence pkis) (nrange 0 (length wire))).
  { rewrite <- (enumerate_seq wire 0). apply Permutation_map. exact Hperm. }
  assert (Hsorted : StronglySorted idx_lt pkis).
  { apply sorted_strict; [apply sort_sorted|].
    eapply Permutation_NoDup; [symmetry; exact Hidx|exact Hnd]. }
  assert (Hall : Forall (fun p => 0 <= pki_index p /\ (N.to_nat (pki_index p) < length values)%nat /\
                   (N.to_nat (pki_index p) < ncols)%nat /\
                   (N.to_nat (pki_sequence p) < length (repeat (@None bytes) (length wire)))%nat) pkis).
  { rewrite Forall_forall. intros p Hp. rewrite repeat_length.
    assert (In (pki_index p) wire) as Hi.
    { eapply Permutation_in; [exact Hidx|]. apply in_map. exact Hp. }
    assert (In (pki_sequence p) (nrange 0 (length wire))) as Hsq.
    { eapply Permutation_in; [exact Hseq|]. apply in_map. exact Hp. }
    apply nrange_In in Hsq. specialize (Hin _ Hi). lia. }
  pose proof (pk_loop_ok chk ncols (N.of_nat (length values)) values HV pkis 0 _ Hsorted Hall) as Hloop.
  change (N.to_nat 0) with O in Hloop. cbn [skipn] in Hloop. rewrite Hloop. f_equal.
  assert (Hnds : NoDup (map pki_sequence pkis)).
  { eapply Permutation_NoDup; [symmetry; exact Hseq|apply nrange_NoDup]. }
  apply (nth_ext _ _ None None).
  - rewrite fold_store_length, repeat_length, map_length. reflexivity.
  - intros j Hj. rewrite fold_store_length, repeat_length in Hj.
    rewrite nth_fold_store; [|exact Hnds|].
    2:{ eapply Forall_impl; [|exact Hall]. intros a (_ & _ & _ & Ha). exact Ha. }
    set (pj := {| pki_index := nth j wire 0; pki_sequence := 0 + N.of_nat j |}).
    assert (Hpj : In pj pkis).
    { eapply Permutation_in; [symmetry; exact Hperm|]. apply enumerate_In. exact Hj. }
    pose proof (find_unique pkis pj Hnds Hpj) as Hfind.
    replace (N.to_nat (pki_sequence pj)) with j in Hfind by (cbn [pj pki_sequence]; lia).
    rewrite Hfind. cbn [pj pki_index]. rewrite nth_repeat_None.
    set (f := fun i => as_value (nth (N.to_nat i) values RNull)).
    rewrite (nth_indep _ None (f 0)) by (rewrite map_length; exact Hj).
    rewrite map_nth. unfold f. destruct (nth _ values RNull); reflexivity.
Qed.

(* ---- encoding ---- *)
Definition fits (c : bytes) : Prop := N.of_nat (length c) <= 65535.

Lemma be_enc_2 n : n <= 65535 -> be_enc 2 n = [n / 256; n mod 256].
Proof.
  intros H. cbn [be_enc app]. f_equal. apply N.mod_small.
  apply N.div_lt_upper_bound; lia.
Qed.

Lemma composite_chunks_ok comps : Forall fits comps ->
  exists chunks, composite_chunks comps = Ok chunks /\
                 concat chunks = concat (map spec_component comps).
Proof.
  induction comps as [|c r IH]; intros H; [exists []; split; reflexivity|].
  inversion H as [|? ? Hc Hr]; subst. destruct (IH Hr) as (cs & Hcs & Hcat).
  cbn [composite_chunks]. unfold fits in Hc.
  destruct (65535 <? N.of_nat (length c)) eqn:E; [apply N.ltb_lt in E; lia|].
  rewrite Hcs. eexists; split; [reflexivity|].
  cbn [concat map]. rewrite Hcat. unfold spec_component. rewrite be_enc_2 by exact Hc.
  rewrite <- !app_assoc. reflexivity.
Qed.

Lemma composite_chunks_err comps : Exists (fun c => 65535 < N.of_nat (length c)) comps ->
  exists n, composite_chunks comps = Err (ValueTooLong n) /\ 65535 < n /\
            In n (map (fun c => N.of_nat (length c)) comps).
Proof.
  induction comps as [|c r IH]; intros H; [inversion H|].
  cbn [composite_chunks map].
  destruct (65535 <? N.of_nat (length c)) eqn:E.
  - apply N.ltb_lt in E. eexists; split; [reflexivity|]. split; [exact E|left; reflexivity].
  - apply N.ltb_ge in E. inversion H as [? ? Hc|? ? Hr]; subst; [lia|].
    destruct (IH Hr) as (n & Hn & Hlt & Hin). rewrite Hn. exists n. split; [reflexivity|].
    split; [exact Hlt|right; exact Hin].
Qed.

Lemma composite_chunks_only_err comps e : composite_chunks comps = Err e ->
  exists n, e = ValueTooLong n /\ 65535 < n.
Proof.
  revert e; induction comps as [|c r IH]; intros e H; cbn [composite_chunks] in H; [discriminate|].
  destruct (65535 <? N.of_nat (length c)) eqn:E.
  - apply N.ltb_lt in E. inversion H; subst. eexists; split; [reflexivity|exact E].
  - destruct (composite_chunks r) as [cs|e'] eqn:Er; [discriminate|]. inversion H; subst.
    apply IH. reflexivity.
Qed.

Lemma encoded_pk_chunks_ok slots :
  (length (flatten_slots slots) = 1%nat \/ Forall fits (flatten_slots slots)) ->
  exists chunks, encoded_pk_chunks slots = Ok chunks /\
                 concat chunks = spec_serialized_key (flatten_slots slots).
Proof.
  unfold encoded_pk_chunks, spec_serialized_key.
  destruct (flatten_slots slots) as [|c [|c' r]] eqn:Ef; intros H.
  - exists []. split; reflexivity.
  - exists [c]. split; [reflexivity|]. cbn [concat]. apply app_nil_r.
  - destruct H as [H|H]; [cbn [length] in H; lia|]. apply composite_chunks_ok. exact H.
Qed.

Lemma flatten_all_values wire values :
  (forall i, In i wire -> exists b, nth (N.to_nat i) values RNull = RValue b) ->
  flatten_slots (map (fun i => as_value (nth (N.to_nat i) values RNull)) wire) =
  spec_components wire values.
Proof.
  induction wire as [|x r IH]; intros H; [reflexivity|].
  cbn [map flatten_slots spec_components]. destruct (H x (or_introl eq_refl)) as [b Hb].
  rewrite Hb. cbn [as_value flatten_slots bound_bytes]. f_equal.
  apply IH. intros i Hi. apply H. right. exact Hi.
Qed.

Definition key_ok (ncols : nat) (wire : list N) (values : list raw_value) : Prop :=
  NoDup wire /\
  (forall i, In i wire -> (N.to_nat i < length values)%nat /\ (N.to_nat i < ncols)%nat /\
                          exists b, nth (N.to_nat i) values RNull = RValue b) /\
  N.of_nat (length values) <= 65535.

Lemma pk_new_key_ok chk ncols wire values : key_ok ncols wire values ->
  exists slots, pk_new chk ncols wire values = Ok slots /\
                flatten_slots slots = spec_components wire values.
Proof.
  intros (Hnd & Hin & HV). eexists. split.
  - apply pk_new_order; [exact Hnd| |exact HV]. intros i Hi. destruct (Hin i Hi) as (A & B & _). split; assumption.
  - apply flatten_all_values. intros i Hi. destruct (Hin i Hi) as (_ & _ & C). exact C.
Qed.

Theorem ps_compute_partition_key_spec chk ncols wire values :
  key_ok ncols wire values ->
  (length wire = 1%nat \/ Forall fits (spec_components wire values)) ->
  ps_compute_partition_key chk ncols wire values =
  Ok (spec_serialized_key (spec_components wire values)).
Proof.
  intros Hk Hfit. destruct (pk_new_key_ok chk _ _ _ Hk) as (slots & Hs & Hf).
  unfold ps_compute_partition_key. rewrite Hs.
  destruct (encoded_pk_chunks_ok slots) as (chunks & Hc & Hcat).
  { rewrite Hf. destruct Hfit as [H|H]; [left; unfold spec_components; rewrite map_length; exact H|right; exact H]. }
  rewrite Hc, Hcat, Hf. reflexivity.
Qed.

Theorem ps_calculate_token_spec chk p ncols wire values :
  wire <> [] -> key_ok ncols wire values ->
  (length wire = 1%nat \/ Forall fits (spec_components wire values)) ->
  (Z.of_nat (length (spec_serialized_key (spec_components wire values))) < 2 ^ 63)%Z ->
  ps_calculate_token chk p ncols wire values = Ok (Some (spec_token p wire values)).
Proof.
  intros Hne Hk Hfit Hbound. destruct (pk_new_key_ok chk _ _ _ Hk) as (slots & Hs & Hf).
  unfold ps_calculate_token. destruct wire as [|w0 wr]; [contradiction|].
  rewrite Hs. unfold pk_calculate_token.
  destruct (encoded_pk_chunks_ok slots) as (chunks & Hc & Hcat).
  { rewrite Hf. destruct Hfit as [H|H]; [left; unfold spec_components; rewrite map_length; exact H|right; exact H]. }
  rewrite Hc. rewrite feed_chunking by (rewrite Hcat, Hf; exact Hbound).
  rewrite Hcat, Hf. reflexivity.
Qed.

Theorem ps_calculate_token_too_long chk p ncols wire values :
  key_ok ncols wire values -> (1 < length wire)%nat ->
  Exists (fun c => 65535 < N.of_nat (length c)) (spec_components wire values) ->
  exists n, ps_calculate_token chk p ncols wire values = Err (ValueTooLong n) /\ 65535 < n /\
            In n (map (fun c => N.of_nat (length c)) (spec_components wire values)).
Proof.
  intros Hk Hlen Hex. destruct (pk_new_key_ok chk _ _ _ Hk) as (slots & Hs & Hf).
  unfold ps_calculate_token. destruct wire as [|w0 wr]; [cbn [length] in Hlen; lia|].
  rewrite Hs. unfold pk_calculate_token, encoded_pk_chunks. rewrite Hf.
  destruct (composite_chunks_err _ Hex) as (n & Hn & Hlt & Hin).
  destruct (spec_components (w0 :: wr) values) as [|c [|c' r]] eqn:Ec.
  - inversion Hex.
  - apply (f_equal (@length _)) in Ec. unfold spec_components in Ec. rewrite map_length in Ec.
    cbn [length] in Ec, Hlen. lia.
  - rewrite Hn. exists n. repeat split; assumption.
Qed.

(* an Ok token never comes from a truncated component, and the only errors are the two named *)
Theorem ps_calculate_token_errors chk p ncols wire values e :
  key_ok ncols wire values -> ps_calculate_token chk p ncols wire values = Err e ->
  exists n, e = ValueTooLong n /\ 65535 < n.
Proof.
  intros Hk H. destruct (pk_new_key_ok chk _ _ _ Hk) as (slots & Hs & Hf).
  unfold ps_calculate_token in H. destruct wire as [|w0 wr]; [discriminate|].
  rewrite Hs in H. unfold pk_calculate_token, encoded_pk_chunks in H.
  destruct (flatten_slots slots) as [|c [|c' r]]; try discriminate.
  destruct (composite_chunks (c :: c' :: r)) as [cs|e'] eqn:Ec; [discriminate|].
  inversion H; subst. eapply composite_chunks_only_err. exact Ec.
Qed.

(* ---- calculate_token_for_partition_key ---- *)
Lemma filter_values_map comps : filter_values (map RValue comps) = comps.
Proof. induction comps as [|c r IH]; [reflexivity|]. cbn [map filter_values]. now rewrite IH. Qed.

Theorem token_for_partition_key_spec p comps :
  (length comps = 1%nat \/ Forall fits comps) ->
  (Z.of_nat (length (spec_serialized_key comps)) < 2 ^ 63)%Z ->
  token_for_partition_key p (map RValue comps) = Ok (token_spec p (spec_serialized_key comps)).
Proof.
  intros Hfit Hbound. unfold token_for_partition_key.
  destruct comps as [|c [|c' r]].
  - cbn [map]. cbn [filter_values composite_chunks]. rewrite feed_chunking by exact Hbound. reflexivity.
  - cbn [map]. rewrite feed_chunking by (cbn [concat]; rewrite app_nil_r; exact Hbound).
    cbn [concat spec_serialized_key]. rewrite app_nil_r. reflexivity.
  - destruct Hfit as [H|H]; [cbn [length] in H; lia|].
    cbn [map]. change (RValue c :: RValue c' :: map RValue r) with (map RValue (c :: c' :: r)).
    rewrite filter_values_map. destruct (composite_chunks_ok _ H) as (chunks & Hc & Hcat).
    rewrite Hc. rewrite feed_chunking by (rewrite Hcat; exact Hbound). rewrite Hcat. reflexivity.
Qed.


(* ---- the executable predicates ---- *)
Lemma nodupb_sound l : nodupb l = true -> NoDup l.
Proof.
  induction l as [|x r IH]; intros H; [constructor|].
  cbn [nodupb] in H. apply andb_true_iff in H as [H1 H2]. constructor; [|apply IH; exact H2].
  intros Hin. apply negb_true_iff in H1.
  assert (existsb (N.eqb x) r = true) as E; [|congruence].
  apply existsb_exists. exists x. split; [exact Hin|apply N.eqb_refl].
Qed.

Lemma key_okb_sound ncols wire values : key_okb ncols wire values = true -> key_ok ncols wire values.
Proof.
  unfold key_okb, key_ok. intros H.
  apply andb_true_iff in H as [H H3]. apply andb_true_iff in H as [H1 H2].
  split; [apply nodupb_sound; exact H1|]. split; [|apply N.leb_le; exact H3].
  intros i Hi. rewrite forallb_forall in H2. specialize (H2 i Hi).
  apply andb_true_iff in H2 as [H2 Hv]. apply andb_true_iff in H2 as [Ha Hb].
  apply Nat.ltb_lt in Ha, Hb. split; [exact Ha|]. split; [exact Hb|].
  destruct (nth (N.to_nat i) values RNull) as [| |b]; try discriminate. exists b. reflexivity.
Qed.

Lemma fitsb_fits c : fitsb c = true <-> fits c.
Proof. unfold fitsb, fits. apply N.leb_le. Qed.

Lemma serializableb_true comps : serializableb comps = true ->
  length comps = 1%nat \/ Forall fits comps.
Proof.
  unfold serializableb. intros H. apply orb_true_iff in H as [H|H].
  - left. apply Nat.eqb_eq. exact H.
  - right. rewrite forallb_forall in H. apply Forall_forall. intros c Hc. apply fitsb_fits, H, Hc.
Qed.

Lemma serializableb_false comps : serializableb comps = false ->
  length comps <> 1%nat /\ Exists (fun c => 65535 < N.of_nat (length c)) comps.
Proof.
  unfold serializableb. intros H. apply orb_false_iff in H as [H1 H2].
  split; [apply Nat.eqb_neq; exact H1|].
  induction comps as [|c r IH]; [discriminate|].
  cbn [forallb] in H2. apply andb_false_iff in H2 as [H2|H2].
  - left. unfold fitsb in H2. apply N.leb_gt in H2. exact H2.
  - right. clear H1. revert H2. clear IH. induction r as [|c' r IH]; [discriminate|].
    cbn [forallb]. intros H. apply andb_false_iff in H as [H|H].
    + left. unfold fitsb in H. apply N.leb_gt in H. exact H.
    + right. apply IH. exact H.
Qed.

(* the model satisfies the property predicate the driver evaluates on observed outputs *)
Theorem prop_token_model chk p ncols wire values :
  (Z.of_nat (length (spec_serialized_key (spec_components wire values))) < 2 ^ 63)%Z ->
  prop_token_ok p ncols wire values (ps_calculate_token chk p ncols wire values) = true.
Proof.
  intros Hbound. unfold prop_token_ok.
  destruct (key_okb ncols wire values) eqn:Ek; [|reflexivity]. cbn [negb].
  apply key_okb_sound in Ek.
  destruct wire as [|w0 wr]; [reflexivity|].
  destruct (serializableb (spec_components (w0 :: wr) values)) eqn:Es.
  - apply serializableb_true in Es.
    rewrite ps_calculate_token_spec; [apply Z.eqb_refl|discriminate|exact Ek| |exact Hbound].
    destruct Es as [H|H]; [left; unfold spec_components in H; rewrite map_length in H; exact H|right; exact H].
  - apply serializableb_false in Es as [Hl Hex].
    destruct (ps_calculate_token_too_long chk p ncols (w0 :: wr) values Ek) as (n & Hn & Hlt & _).
    + unfold spec_components in Hl. rewrite map_length in Hl. cbn [length] in *. lia.
    + exact Hex.
    + rewrite Hn. apply N.ltb_lt. exact Hlt.
Qed.

Lemma all_values_map values : forallb is_value values = true ->
  values = map RValue (map bound_bytes values).
Proof.
  induction values as [|v r IH]; intros H; [reflexivity|].
  cbn [forallb] in H. apply andb_true_iff in H as [Hv Hr].
  destruct v as [| |b]; try discriminate. cbn [map bound_bytes]. f_equal. apply IH. exact Hr.
Qed.

Theorem token_for_partition_key_too_long p comps : (1 < length comps)%nat ->
  Exists (fun c => 65535 < N.of_nat (length c)) comps ->
  exists n, token_for_partition_key p (map RValue comps) = Err (ValueTooLong n) /\ 65535 < n.
Proof.
  intros Hl Hex. unfold token_for_partition_key.
  destruct comps as [|c [|c' r]]; cbn [length] in Hl; try lia.
  change (map RValue (c :: c' :: r)) with (RValue c :: RValue c' :: map RValue r).
  cbv iota. change (RValue c :: RValue c' :: map RValue r) with (map RValue (c :: c' :: r)).
  rewrite filter_values_map. destruct (composite_chunks_err _ Hex) as (n & Hn & Hlt & _).
  rewrite Hn. exists n. split; [reflexivity|exact Hlt].
Qed.

Theorem prop_pk_token_model p values :
  (Z.of_nat (length (spec_serialized_key (map bound_bytes values))) < 2 ^ 63)%Z ->
  prop_pk_token_ok p values (token_for_partition_key p values) = true.
Proof.
  intros Hbound. unfold prop_pk_token_ok.
  destruct (forallb is_value values) eqn:Ev; [|reflexivity]. cbn [negb].
  apply all_values_map in Ev. set (comps := map bound_bytes values) in *. rewrite Ev.
  cbv zeta.
  destruct (serializableb comps || (length comps =? 0)%nat) eqn:Es.
  - rewrite token_for_partition_key_spec; [apply Z.eqb_refl| |exact Hbound].
    apply orb_true_iff in Es as [Es|Es]; [apply serializableb_true; exact Es|].
    apply Nat.eqb_eq in Es. right. destruct comps; [constructor|discriminate].
  - apply orb_false_iff in Es as [Es E0]. apply serializableb_false in Es as [Hl Hex].
    apply Nat.eqb_neq in E0.
    assert (Hgt : (1 < length comps)%nat).
    { clear -Hl E0. destruct comps as [|? [|? ?]]; cbn [length] in *; [congruence|congruence|lia]. }
    destruct (token_for_partition_key_too_long p comps Hgt Hex) as (n & Hn & Hlt).
    rewrite Hn. apply N.ltb_lt. exact Hlt.
Qed.

(* ---- corollaries: the token depends on the key components only ---- *)
Theorem feed_chunk_independent p chunks1 chunks2 :
  concat chunks1 = concat chunks2 -> (Z.of_nat (length (concat chunks1)) < 2 ^ 63)%Z ->
  feed p chunks1 = feed p chunks2.
Proof.
  intros He Hb. rewrite (feed_chunking p chunks1) by exact Hb.
  rewrite (feed_chunking p chunks2) by (rewrite <- He; exact Hb). rewrite He. reflexivity.
Qed.

Theorem marker_order_irrelevant chk p ncols1 wire1 values1 ncols2 wire2 values2 :
  wire1 <> [] -> key_ok ncols1 wire1 values1 -> key_ok ncols2 wire2 values2 ->
  spec_components wire1 values1 = spec_components wire2 values2 ->
  (length wire1 = 1%nat \/ Forall fits (spec_components wire1 values1)) ->
  (Z.of_nat (length (spec_serialized_key (spec_components wire1 values1))) < 2 ^ 63)%Z ->
  ps_calculate_token chk p ncols1 wire1 values1 = ps_calculate_token chk p ncols2 wire2 values2.
Proof.
  intros Hne Hk1 Hk2 Hc Hfit Hb.
  assert (Hlen : length wire1 = length wire2).
  { apply (f_equal (@length _)) in Hc. unfold spec_components in Hc. rewrite !map_length in Hc. exact Hc. }
  rewrite (ps_calculate_token_spec chk p ncols1 wire1 values1 Hne Hk1 Hfit Hb).
  rewrite (ps_calculate_token_spec chk p ncols2 wire2 values2).
  - unfold spec_token. rewrite Hc. reflexivity.
  - destruct wire2; [destruct wire1; [contradiction|discriminate]|discriminate].
  - exact Hk2.
  - rewrite <- Hc, <- Hlen. exact Hfit.
  - rewrite <- Hc. exact Hb.
Qed.

(* ---- key_okb decides key_ok exactly ---- *)
Lemma nodupb_complete l : NoDup l -> nodupb l = true.
Proof.
  induction l as [|x r IH]; intros H; [reflexivity|].
  inversion H as [|? ? Hnotin Hr]; subst. cbn [nodupb]. rewrite IH by exact Hr.
  rewrite andb_true_r. apply negb_true_iff.
  destruct (existsb (N.eqb x) r) eqn:E; [|reflexivity]. exfalso.
  apply existsb_exists in E as (y & Hy & Heq). apply N.eqb_eq in Heq. subst y. exact (Hnotin Hy).
Qed.

Theorem key_okb_complete ncols wire values : key_ok ncols wire values -> key_okb ncols wire values = true.
Proof.
  intros (Hnd & Hin & HV). unfold key_okb.
  rewrite (nodupb_complete wire Hnd). cbn [andb].
  apply andb_true_iff. split; [|apply N.leb_le; exact HV].
  apply forallb_forall. intros i Hi. destruct (Hin i Hi) as (A & B & (b & Hb)).
  apply Nat.ltb_lt in A, B. rewrite A, B, Hb. reflexivity.
Qed.

Theorem key_okb_iff ncols wire values : key_okb ncols wire values = true <-> key_ok ncols wire values.
Proof. split; [apply key_okb_sound|apply key_okb_complete]. Qed.

(* ---- without the length premise (Murmur_proofs part 8) ---- *)
Theorem ps_calculate_token_spec_all chk p ncols wire values :
  wire <> [] -> key_ok ncols wire values ->
  (length wire = 1%nat \/ Forall fits (spec_components wire values)) ->
  ps_calculate_token chk p ncols wire values = Ok (Some (spec_token p wire values)).
Proof.
  intros Hne Hk Hfit. destruct (pk_new_key_ok chk _ _ _ Hk) as (slots & Hs & Hf).
  unfold ps_calculate_token. destruct wire as [|w0 wr]; [contradiction|].
  rewrite Hs. unfold pk_calculate_token.
  destruct (encoded_pk_chunks_ok slots) as (chunks & Hc & Hcat).
  { rewrite Hf. destruct Hfit as [H|H]; [left; unfold spec_components; rewrite map_length; exact H|right; exact H]. }
  rewrite Hc. rewrite feed_chunking_all. rewrite Hcat, Hf. reflexivity.
Qed.
