(* Deepening round 4 (proof only) for property C15: characterising theorems for extracted functions the
   driver uses for a verdict that no pinned theorem mentioned (tablet_for_token on its own, op_i64b,
   refresh_op / derive_removed / derive_recreated, token_new), the payload check as an equivalence, and
   table presence after maintenance without the unique-keyspace-names premise. *)
From SV Require Import Base.Prelude Model.Tablets Proofs.Tablets_proofs.
Open Scope Z_scope.

(* ---- 1. tablet_for_token / replicas / per-DC on ANY list satisfying the invariant ---- *)

Lemma tablet_for_token_iff l tok t :
  tablets_inv l ->
  (tablet_for_token l tok = Some t <-> In t l /\ t_first t <= tok <= t_last t).
Proof.
  intros Hinv. apply list_inv_of_tablets_inv in Hinv. rewrite tablet_for_token_find by assumption. split.
  - intros E. apply find_some in E as [Hin E]. unfold covers in E. split; [assumption|lia].
  - intros [Hin Hc]. apply find_covers_unique; [assumption|assumption|]. unfold covers.
    apply andb_true_iff. split; lia.
Qed.

Lemma tablet_for_token_none_iff l tok :
  tablets_inv l ->
  (tablet_for_token l tok = None <-> forall t, In t l -> ~ (t_first t <= tok <= t_last t)).
Proof.
  intros Hinv. split.
  - intros E t Hin Hc. assert (H : tablet_for_token l tok = Some t) by (apply tablet_for_token_iff; tauto).
    congruence.
  - intros H. destruct (tablet_for_token l tok) as [t|] eqn:E; [|reflexivity].
    apply tablet_for_token_iff in E as [Hin Hc]; [|assumption]. exfalso. exact (H t Hin Hc).
Qed.

Lemma tablet_lookup_char l tok :
  tablets_inv l ->
  (forall t, tablet_for_token l tok = Some t <-> In t l /\ t_first t <= tok <= t_last t) /\
  (tablet_for_token l tok = None <-> forall t, In t l -> ~ (t_first t <= tok <= t_last t)) /\
  (forall t1 t2, In t1 l -> In t2 l -> t_first t1 <= tok <= t_last t1 -> t_first t2 <= tok <= t_last t2 -> t1 = t2).
Proof.
  intros Hinv. split; [intros t; now apply tablet_for_token_iff|]. split; [now apply tablet_for_token_none_iff|].
  intros t1 t2 H1 H2 C1 C2.
  assert (E1 : tablet_for_token l tok = Some t1) by (apply tablet_for_token_iff; tauto).
  assert (E2 : tablet_for_token l tok = Some t2) by (apply tablet_for_token_iff; tauto).
  congruence.
Qed.

(* ---- 2. the payload check as an equivalence, with its two refusal classes ---- *)

Lemma conv_shards_some_iff raw r :
  conv_shards raw = Some r <->
  Forall (fun hs => 0 <= snd hs) raw /\ r = map (fun hs => (fst hs, Z.to_N (snd hs))) raw.
Proof.
  pose proof (conv_shards_spec raw) as H. destruct (conv_shards raw) as [r'|].
  - destruct H as [H1 H2]. rewrite forallb_forall in H1. split.
    + intros [= <-]. split; [|assumption]. apply Forall_forall. intros x Hx. specialize (H1 x Hx). lia.
    + intros [_ ->]. now rewrite H2.
  - split; [discriminate|]. intros [Hall _]. exfalso.
    assert (E : forallb (fun hs => 0 <=? snd hs) raw = true).
    { apply forallb_forall. intros x Hx. rewrite Forall_forall in Hall. specialize (Hall x Hx). lia. }
    congruence.
Qed.

Lemma conv_shards_none_iff raw :
  conv_shards raw = None <-> Exists (fun hs => snd hs < 0) raw.
Proof.
  pose proof (conv_shards_spec raw) as H. destruct (conv_shards raw) as [r'|].
  - destruct H as [H1 _]. rewrite forallb_forall in H1. split; [discriminate|].
    intros Hex. apply Exists_exists in Hex as (x & Hx & Hneg). specialize (H1 x Hx). lia.
  - split; [|reflexivity]. intros _. apply Exists_exists.
    induction raw as [|x raw IH]; cbn [forallb] in H; [discriminate|].
    destruct (Z.leb_spec 0 (snd x)) as [Hx|Hx].
    + cbn in H. destruct (IH H) as (y & Hy & Hneg). exists y. split; [now right|assumption].
    + exists x. split; [now left|assumption].
Qed.

Lemma payload_check_iff a b raw :
  i64_ok a -> i64_ok b ->
  (forall f l r, payload_check a b raw = Ok (f, l, r) <->
     a < b /\ f = a + 1 /\ l = b /\ Forall (fun hs => 0 <= snd hs) raw /\
     r = map (fun hs => (fst hs, Z.to_N (snd hs))) raw) /\
  (payload_check a b raw = Err WrongTokenRange <-> b <= a) /\
  (payload_check a b raw = Err ShardNum <-> a < b /\ Exists (fun hs => snd hs < 0) raw) /\
  (spec_payload_ok a b raw = true <-> exists x, payload_check a b raw = Ok x).
Proof.
  intros Ha Hb. split; [|split; [|split]].
  - intros f l r. split.
    + intros E. destruct (payload_check_ok a b raw f l r Ha Hb E) as (H1 & H2 & H3 & _ & _ & _ & H7).
      apply conv_shards_some_iff in H7 as [H7 H8]. tauto.
    + intros (Hlt & -> & -> & Hall & ->).
      assert (Ec : conv_shards raw = Some (map (fun hs => (fst hs, Z.to_N (snd hs))) raw))
        by (apply conv_shards_some_iff; tauto).
      destruct (payload_check a b raw) as [[[f l] r]|e] eqn:E.
      * destruct (payload_check_ok a b raw f l r Ha Hb E) as (_ & -> & -> & _ & _ & _ & H7). congruence.
      * exfalso. unfold payload_check in E. destruct (Z.leb_spec b a); [lia|]. rewrite Ec in E. discriminate.
  - unfold payload_check. destruct (Z.leb_spec b a) as [H|H].
    + split; [intros _; assumption|reflexivity].
    + split; [|lia]. destruct (conv_shards raw); discriminate.
  - unfold payload_check. destruct (Z.leb_spec b a) as [H|H].
    + split; [discriminate|lia].
    + rewrite <- conv_shards_none_iff. destruct (conv_shards raw).
      * split; [discriminate|intros [_ ?]; discriminate].
      * split; [intros _; split; [assumption|reflexivity]|reflexivity].
  - pose proof (payload_check_spec a b raw) as H. destruct (payload_check a b raw) as [[[f l] r]|e].
    + destruct H as [-> _]. split; [intros _; eexists; reflexivity|reflexivity].
    + rewrite H. split; [discriminate|intros [x Hx]; discriminate].
Qed.

(* ---- 3. the driver's gate op_i64b ---- *)

Lemma op_i64b_iff o : op_i64b o = true <-> op_i64 o.
Proof.
  destruct o as [k a b raw known|]; cbn [op_i64b op_i64]; [|tauto].
  now rewrite andb_true_iff, !i64_ok_b.
Qed.

Lemma hist_i64b_iff h : forallb op_i64b h = true <-> Forall op_i64 h.
Proof.
  rewrite forallb_forall, Forall_forall. split; intros H o Ho; apply op_i64b_iff, H, Ho.
Qed.

(* ---- 4. what ClusterState derives for a refresh ---- *)

Lemma node_eqb_refl n : node_eqb n n = true.
Proof.
  unfold node_eqb. rewrite !N.eqb_refl. cbn. now apply optN_eqb_eq.
Qed.

Lemma node_eqb_iff a b : node_eqb a b = true <-> a = b.
Proof. split; [apply node_eqb_eq|intros ->; apply node_eqb_refl]. Qed.

Lemma refresh_op_char kss old new :
  exists rm rc, refresh_op kss old new = Maintain kss rm new rc /\
    (forall h, In h rm <-> (exists o, In o old /\ host o = h) /\ (forall n, In n new -> host n <> h)) /\
    (forall n, In n rc <-> In n new /\ exists o, In o old /\ host o = host n /\ o <> n).
Proof.
  exists (derive_removed old new), (derive_recreated old new). split; [reflexivity|]. split.
  - intros h. unfold derive_removed. rewrite in_map_iff. split.
    + intros (o & <- & Ho). apply filter_In in Ho as [Ho Hn]. split; [exists o; tauto|].
      intros n Hin E. apply negb_true_iff in Hn.
      assert (Hex : existsb (fun n0 => (host n0 =? host o)%N) new = true).
      { apply existsb_exists. exists n. split; [assumption|now apply N.eqb_eq]. }
      congruence.
    + intros [(o & Ho & <-) Hn]. exists o. split; [reflexivity|]. apply filter_In. split; [assumption|].
      apply negb_true_iff. apply not_true_is_false. intros Hex. apply existsb_exists in Hex as (n & Hin & E).
      apply N.eqb_eq in E. exact (Hn n Hin E).
  - intros n. unfold derive_recreated. rewrite filter_In, existsb_exists. split.
    + intros [Hn (o & Ho & E)]. split; [assumption|]. exists o. apply andb_true_iff in E as [E1 E2].
      apply N.eqb_eq in E1. apply negb_true_iff in E2. split; [assumption|]. split; [assumption|].
      intros ->. now rewrite node_eqb_refl in E2.
    + intros [Hn (o & Ho & E1 & E2)]. split; [assumption|]. exists o. split; [assumption|].
      apply andb_true_iff. split; [now apply N.eqb_eq|]. apply negb_true_iff. apply not_true_is_false.
      intros E. apply node_eqb_eq in E. contradiction.
Qed.

(* ---- 5. Token::new and the token i64::MIN ---- *)

Lemma token_new_char v :
  i64_ok v ->
  i64_ok (token_new v) /\ i64_min < token_new v /\
  (v <> i64_min -> token_new v = v) /\ token_new i64_min = i64_max /\ token_new (token_new v) = token_new v.
Proof.
  unfold i64_ok, token_new. destruct i64_consts as [-> ->]. intros Hv.
  destruct (Z.eqb_spec v (-9223372036854775808)) as [->|Hne]; cbn; repeat split; try lia.
  destruct (Z.eqb_spec v (-9223372036854775808)); [contradiction|reflexivity].
Qed.

(* no reachable table answers the raw token i64::MIN: every range starts above it (first = a + 1) *)
Lemma min_token_unanswered h s k :
  Forall op_i64 h -> run h = Some s -> lookup_tablet s k i64_min = None /\ lookup s k i64_min = None.
Proof.
  intros Hok Hrun.
  assert (E : lookup_tablet s k i64_min = None).
  { destruct (lookup_tablet s k i64_min) as [t|] eqn:E; [|reflexivity]. exfalso.
    pose proof (lookup_covers h s k i64_min t Hok Hrun E) as Hc.
    assert (Hgt : first_gt_min s).
    { apply (run_from_first_gt_min h info_empty s state_inv_empty); [|assumption|exact Hrun].
      intros k' t' Ht'. cbn in Ht'. contradiction. }
    rewrite lookup_or_empty in E.
    destruct (or_empty_ok s k (run_state_inv h s Hok Hrun)) as (Hli & _).
    rewrite tablet_for_token_find in E by assumption. apply find_some in E as [Hin _].
    specialize (Hgt k t Hin). lia. }
  split; [assumption|]. unfold lookup. now rewrite E.
Qed.

(* ---- 6. table presence after maintenance, WITHOUT the unique-keyspace-names premise ---- *)

Lemma maintain_presence h kss removed current recreated s s' k :
  Forall op_i64 h -> run h = Some s -> step s (Maintain kss removed current recreated) = Some s' ->
  is_some (find_table s' k) =
  (is_some (find_table s k) && keep_table kss k) || existsb (fun k' => tkey_eqb k' k) (schema_tables kss).
Proof.
  intros Hok Hrun Hstep. cbn [step] in Hstep. injection Hstep as <-. unfold info_maintenance.
  set (t1 := filter _ (i_tables s)). set (t2 := fold_left add_missing _ t1).
  assert (Et2 : is_some (afind t2 k) =
                (is_some (find_table s k) && keep_table kss k) || existsb (fun k' => tkey_eqb k' k) (schema_tables kss)).
  { unfold t2. rewrite afind_add_missing. unfold t1. rewrite (afind_filter (keep_table kss)).
    rewrite find_table_afind.
    destruct (keep_table kss k); destruct (afind (i_tables s) k); cbn;
      destruct (existsb (fun k' => tkey_eqb k' k) (schema_tables kss)); reflexivity. }
  destruct (negb (is_nil removed) || negb (is_nil recreated) || i_flag s).
  - rewrite find_table_afind. cbn [i_tables]. rewrite (afind_map (table_maintenance removed current recreated)).
    rewrite <- Et2. now destruct (afind t2 k).
  - exact Et2.
Qed.

(* the premise of C15_present / C15_maintain_tables is NECESSARY in the model: with a duplicated keyspace
   name the retain closure reads the first description, the "add empty entries" loop reads all of them *)
Lemma maintain_presence_dup_witness :
  let kss := [mkKs 1 false [] []; mkKs 1 true [1%N] []] in
  exists s', step info_empty (Maintain kss [] [] []) = Some s' /\
    keep_table kss (1, 1)%N = false /\ is_some (find_table s' (1, 1)%N) = true /\
    ~ NoDup (map ks_name kss).
Proof.
  cbn zeta. eexists. split; [reflexivity|]. split; [reflexivity|]. split; [reflexivity|].
  intros H. inversion H as [|? ? Hn _]. apply Hn. now left.
Qed.
