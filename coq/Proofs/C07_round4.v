(* C07, deepening round 4 (proof only): Prop-level meaning of the extracted acceptors and
   predicates the driver uses for a verdict, completeness of the two timeout acceptors, and the
   primitives of the node relation.  New file: Proofs/Pager_proofs.v is unchanged. *)
From SV Require Import Base.Prelude Model.Pager Proofs.Pager_proofs.
Open Scope N_scope.

Lemma items_eqb_eq a b : list_eqb item_eqb a b = true <-> a = b.
Proof. apply list_eqb_eq. exact item_eqb_eq. Qed.
Lemma keys_eqb_eq a b : list_eqb key_eqb a b = true <-> a = b.
Proof. apply list_eqb_eq. exact key_eqb_eq. Qed.

(* ---- accept_full is EXACT comparison with the sequential reference ---- *)
Theorem accept_full_iff m script oi ok :
  accept_full m script oi ok = true <->
  oi = obs_items (snd (seq_run m script)) /\ ok = map req_key (fst (seq_run m script)).
Proof.
  unfold accept_full. destruct (seq_run m script) as [rq o]. cbn [fst snd].
  rewrite andb_true_iff, items_eqb_eq, keys_eqb_eq. tauto.
Qed.

(* ---- the property predicates, as propositions ---- *)
Lemma opt_state_eqb_eq (a b : option (list N)) : opt_eqb (list_eqb N.eqb) a b = true <-> a = b.
Proof.
  destruct a as [a|], b as [b|]; cbn [opt_eqb]; try (split; [discriminate|discriminate]); try tauto.
  rewrite (list_eqb_eq N.eqb N.eqb_eq). split; [intros ->; reflexivity|intros E; injection E; auto].
Qed.

Lemma states_ok_iff script ok :
  states_ok script ok = true <->
  (forall i st, In (i, st) ok -> st = spec_state (script_pages script) i).
Proof.
  split; [|apply states_ok_intro].
  unfold states_ok. rewrite forallb_forall. intros H i st Hin.
  specialize (H (i, st) Hin). cbn [fst snd] in H. apply opt_state_eqb_eq in H. exact H.
Qed.

Theorem prop_ok_iff m n script :
  (forall oi ok, prop_full_ok m n script oi ok = true <->
     (forall i st, In (i, st) ok -> st = spec_state (script_pages script) i) /\
     (forall its, expected true m n true script = Some its -> oi = its)) /\
  (forall cnt oi ok, prop_drop_ok m n script cnt oi ok = true <->
     (forall i st, In (i, st) ok -> st = spec_state (script_pages script) i) /\
     (forall its, expected true m n true script = Some its -> oi = firstn cnt its)).
Proof.
  split; intros; unfold prop_full_ok, prop_drop_ok; rewrite andb_true_iff, states_ok_iff;
    destruct (expected true m n true script) as [its|].
  - rewrite items_eqb_eq. split; intros [H1 H2]; split; auto.
    intros its' E; injection E as <-; exact H2.
  - split; intros [H1 _]; split; auto. discriminate.
  - rewrite items_eqb_eq. split; intros [H1 H2]; split; auto.
    intros its' E; injection E as <-; exact H2.
  - split; intros [H1 _]; split; auto. discriminate.
Qed.

(* ---- ctor_fails: the constructor of the sequential reference returned an error ---- *)
Theorem ctor_fails_iff m script :
  (ctor_fails m script = true <-> exists rq0 e, start m script = (rq0, SFail e)) /\
  (forall s0, pager_init m script = Some s0 -> ctor_fails m script = false).
Proof.
  unfold ctor_fails, seq_run, pager_init.
  destruct (start m script) as [rq0 [| e | rows p]]; cbn [snd].
  - split; [split; [discriminate|intros (? & ? & E); discriminate E]|discriminate].
  - split; [split; [intros _; eauto|reflexivity]|discriminate].
  - destruct (pfuture m p) as [rq ms]. cbn [snd].
    split; [split|intros; destruct (pdone m p); reflexivity].
    + destruct (pdone m p); discriminate.
    + intros (? & ? & E); discriminate E.
Qed.

(* ---- the two timeout acceptors unfolded, and their completeness ---- *)
Lemma accept_full_timeout_iff m script ctor oi ok :
  accept_full_timeout m script ctor oi ok = true <->
  exists sc, In sc (early_timeouts script) /\ accept_full m sc oi ok = true /\
             ctor = ctor_fails m sc.
Proof.
  unfold accept_full_timeout. rewrite existsb_exists.
  split; intros (sc & Hin & H); exists sc; (split; [exact Hin|]).
  - apply andb_true_iff in H as [H1 H2]. apply Bool.eqb_prop in H2. auto.
  - destruct H as [H1 ->]. rewrite H1, Bool.eqb_reflx. reflexivity.
Qed.

Lemma accept_drop_timeout_iff m script cnt oi ok :
  accept_drop_timeout m script cnt oi ok = true <->
  exists sc, In sc (early_timeouts script) /\ accept_drop m sc cnt oi ok = true /\
             ctor_fails m sc = false.
Proof.
  unfold accept_drop_timeout. rewrite existsb_exists.
  split; intros (sc & Hin & H); exists sc; (split; [exact Hin|]).
  - apply andb_true_iff in H as [H1 H2]. apply negb_true_iff in H2. auto.
  - destruct H as [H1 H2]. rewrite H1, H2. reflexivity.
Qed.

Theorem early_timeout_complete m script sc : In sc (early_timeouts script) ->
  (forall s0 ls s, pager_init m sc = Some s0 -> run s0 ls = Some s -> s_cons s = CEnded ->
     accept_full_timeout m script false (s_out s) (map req_key (s_reqs s)) = true) /\
  (forall rq0 e, start m sc = (rq0, SFail e) ->
     accept_full_timeout m script true [IErr e; IEnd] (map req_key rq0) = true).
Proof.
  intros Hin. destruct (accept_full_complete_thm m sc) as [Hp Hf]. split.
  - intros s0 ls s H0 Hr He. apply accept_full_timeout_iff. exists sc. repeat split; auto.
    + eapply Hp; eassumption.
    + symmetry. eapply (proj2 (ctor_fails_iff m sc)); eassumption.
  - intros rq0 e Hst. apply accept_full_timeout_iff. exists sc. repeat split; auto.
    symmetry. apply (proj1 (ctor_fails_iff m sc)). eauto.
Qed.

Theorem drop_timeout_complete m script sc s0 lsa sa sb lp s1 ls2 s2 :
  In sc (early_timeouts script) ->
  pager_init m sc = Some s0 ->
  run s0 lsa = Some sa ->
  (sb = sa /\ lsa = [] \/
   step sa LCons = Some sb /\ List.length (s_out sb) = S (List.length (s_out sa))) ->
  s_cons sb = CActive ->
  Forall (eq LProd) lp -> run sb lp = Some s1 ->
  run s1 (LDrop :: ls2) = Some s2 ->
  accept_drop_timeout m script (List.length (s_out s2)) (s_out s2) (map req_key (s_reqs s2)) = true.
Proof.
  intros Hin H0 Ha Hb Hc Hlp H1 H2. apply accept_drop_timeout_iff. exists sc. repeat split; auto.
  - eapply accept_drop_complete; eassumption.
  - eapply (proj2 (ctor_fails_iff m sc)); eassumption.
Qed.

(* ---- primitives of the node relation ---- *)
Theorem coord_primitives :
  (forall t used x, fits (Some t) used x = true <-> x = t) /\
  (forall used x, fits None used x = true <-> ~ In x used) /\
  (forall (l : list target), last_opt l = None <-> l = []) /\
  (forall (l : list target) x, last_opt l = Some x <-> exists pre, l = pre ++ [x]).
Proof.
  split; [|split; [|split]].
  - intros t used x. cbn [fits]. apply N.eqb_eq.
  - intros used x. cbn [fits]. rewrite negb_true_iff. split.
    + intros H Hin. apply existsb_In in Hin. congruence.
    + intros H. destruct (existsb (N.eqb x) used) eqn:E; [|reflexivity].
      apply existsb_In in E. contradiction.
  - intros l. split; [|intros ->; reflexivity].
    induction l as [|a [|b r] IH]; cbn [last_opt]; [reflexivity|discriminate|].
    intros H. apply IH in H. discriminate H.
  - intros l x. split.
    + revert x. induction l as [|a [|b r] IH]; intros x; cbn [last_opt].
      * discriminate.
      * intros E; injection E as <-. exists []. reflexivity.
      * intros H. apply IH in H as (pre & E). exists (a :: pre). rewrite E. reflexivity.
    + intros (pre & ->). induction pre as [|a pre IH]; [reflexivity|].
      cbn [app]. destruct (pre ++ [x]) eqn:E; [destruct pre; discriminate E|]. cbn [last_opt]. exact IH.
Qed.

(* ---- the environments of the timeout tolerance, exactly ---- *)
Theorem early_timeouts_iff : forall script sc,
  In sc (early_timeouts script) <->
  exists pre ps rest i, script = pre ++ ps :: rest /\ sc = pre ++ with_timeout i ps :: rest /\
    (i <= List.length (ps_faults ps))%nat /\
    Forall (fun q => existsb is_timeout (ps_faults q) = false) pre.
Proof.
  induction script as [|p script IH]; intros sc; cbn [early_timeouts].
  - split; [intros []|]. intros (pre & ps & rest & i & E & _). destruct pre; discriminate E.
  - rewrite in_app_iff, in_map_iff. split.
    + intros [(i & <- & Hi)|H].
      * apply in_seq in Hi. exists [], p, script, i. repeat split; [lia|constructor].
      * destruct (existsb is_timeout (ps_faults p)) eqn:Et; [destruct H|].
        apply in_map_iff in H as (sc' & <- & H). apply IH in H as (pre & ps & rest & i & -> & -> & Hi & Hp).
        exists (p :: pre), ps, rest, i. repeat split; auto.
    + intros (pre & ps & rest & i & E & -> & Hi & Hp). destruct pre as [|q pre]; cbn [app] in *.
      * injection E as -> ->. left. exists i. split; [reflexivity|]. apply in_seq. lia.
      * injection E as -> ->. right. inversion Hp as [|? ? Hq Hp']; subst. rewrite Hq.
        apply in_map. apply IH. exists pre, ps, rest, i. repeat split; auto.
Qed.
