(* Proofs for Model/PartName.v (property C03): a table that names the CDC partitioner class (any
   name ending in cdc_suffix) is hashed with the CDC hasher, one that names
   Murmur3Partitioner with the Murmur3 hasher. *)
From SV Require Import Base.Prelude Base.Bytes Model.Murmur Model.PartName Proofs.Murmur_proofs.
From Coq Require Import Ascii String.

Lemma is_prefix_app p : forall l, is_prefix p l = true -> exists t, l = (p ++ t)%list.
Proof.
  induction p as [|a p IH]; intros l H; [exists l; reflexivity|].
  destruct l as [|b l]; [discriminate|]. cbn [is_prefix] in H.
  apply andb_true_iff in H as [Hab Hp]. apply Ascii.eqb_eq in Hab. subst b.
  destruct (IH l Hp) as [t ->]. exists t. reflexivity.
Qed.

Lemma cdc_not_murmur3 s : ends_with s cdc_suffix = true ->
  ends_with s murmur3_suffix = false.
Proof.
  unfold ends_with. intros H. apply is_prefix_app in H as [t Ht]. rewrite Ht. reflexivity.
Qed.

Theorem from_str_cdc s : ends_with s cdc_suffix = true -> partitioner_from_str s = Some PCdc.
Proof.
  intros H. unfold partitioner_from_str. rewrite (cdc_not_murmur3 s H), H. reflexivity.
Qed.

Theorem from_str_murmur3 s : ends_with s murmur3_suffix = true ->
  partitioner_from_str s = Some PMurmur3.
Proof. intros H. unfold partitioner_from_str. rewrite H. reflexivity. Qed.

(* tables using the CDC partitioner get the CDC token, for every chunking of the key *)
Theorem cdc_table_token s chunks : ends_with s cdc_suffix = true ->
  feed (table_partitioner (Some s)) chunks = cdc_token_spec (List.concat chunks).
Proof.
  intros H. unfold table_partitioner. rewrite (from_str_cdc s H).
  unfold feed. cbn [build_hasher]. rewrite fold_hasher_cdc. cbn [hasher_finish]. apply cdc_chunking.
Qed.

Theorem murmur3_table_token s chunks : ends_with s murmur3_suffix = true ->
  (Z.of_nat (List.length (List.concat chunks)) < 2 ^ 63)%Z ->
  feed (table_partitioner (Some s)) chunks = murmur3_token_spec (List.concat chunks).
Proof.
  intros H Hb. unfold table_partitioner. rewrite (from_str_murmur3 s H).
  apply (feed_chunking PMurmur3 chunks Hb).
Qed.

(* ---- the metadata chain ---- *)
Theorem cdc_table_chain rows ks t name chunks :
  partitioners_get rows ks t None = Some (Some name) -> ends_with name cdc_suffix = true ->
  feed (prepared_partitioner (Some rows) true (Some (ks, t))) chunks = cdc_token_spec (List.concat chunks).
Proof.
  intros Hg He. unfold prepared_partitioner, table_meta_partitioner. rewrite Hg.
  apply cdc_table_token. exact He.
Qed.

Theorem murmur3_table_chain rows ks t name chunks :
  partitioners_get rows ks t None = Some (Some name) -> ends_with name murmur3_suffix = true ->
  (Z.of_nat (List.length (List.concat chunks)) < 2 ^ 63)%Z ->
  feed (prepared_partitioner (Some rows) true (Some (ks, t))) chunks = murmur3_token_spec (List.concat chunks).
Proof.
  intros Hg He Hb. unfold prepared_partitioner, table_meta_partitioner. rewrite Hg.
  apply murmur3_table_token; assumption.
Qed.

(* the last row of a table decides *)
Lemma partitioners_get_last rows ks t p acc :
  partitioners_get (rows ++ [((ks, t), p)]) ks t acc = Some p.
Proof.
  revert acc; induction rows as [|[[k n] q] r IH]; intros acc; cbn [partitioners_get app].
  - rewrite !String.eqb_refl. reflexivity.
  - destruct (String.eqb k ks && String.eqb n t)%bool; apply IH.
Qed.

(* ---- "last row wins" as a theorem: the row of (ks, t) after which no other row of (ks, t)
        follows decides, whatever stands before it and whatever other tables follow ---- *)
Definition row_is (ks t : string) (x : st_row) : bool :=
  (String.eqb (fst (fst x)) ks && String.eqb (snd (fst x)) t)%bool.

Lemma partitioners_get_app a : forall b ks t acc,
  partitioners_get (a ++ b)%list ks t acc = partitioners_get b ks t (partitioners_get a ks t acc).
Proof.
  induction a as [|[[k n] p] r IH]; intros b ks t acc; cbn [partitioners_get app]; [reflexivity|].
  destruct (String.eqb k ks && String.eqb n t)%bool; apply IH.
Qed.

Lemma partitioners_get_nomatch r ks t : forall acc,
  forallb (fun x => negb (row_is ks t x)) r = true -> partitioners_get r ks t acc = acc.
Proof.
  induction r as [|[[k n] p] r IH]; intros acc H; cbn [partitioners_get]; [reflexivity|].
  cbn [forallb] in H. apply andb_true_iff in H as [H1 H2]. unfold row_is in H1. cbn [fst snd] in H1.
  apply negb_true_iff in H1. rewrite H1. apply IH. exact H2.
Qed.

Theorem partitioners_get_last_row r1 r2 ks t p :
  forallb (fun x => negb (row_is ks t x)) r2 = true ->
  partitioners_get (r1 ++ ((ks, t), p) :: r2)%list ks t None = Some p.
Proof.
  intros H. rewrite partitioners_get_app. cbn [partitioners_get]. rewrite !String.eqb_refl. cbn [andb].
  apply partitioners_get_nomatch. exact H.
Qed.

Theorem cdc_table_last_row r1 r2 ks t name chunks :
  forallb (fun x => negb (row_is ks t x)) r2 = true -> ends_with name cdc_suffix = true ->
  feed (prepared_partitioner (Some (r1 ++ ((ks, t), Some name) :: r2)%list) true (Some (ks, t))) chunks
  = cdc_token_spec (List.concat chunks).
Proof.
  intros H He. apply (cdc_table_chain _ ks t name chunks); [apply partitioners_get_last_row; exact H|exact He].
Qed.

Theorem murmur3_table_last_row r1 r2 ks t name chunks :
  forallb (fun x => negb (row_is ks t x)) r2 = true -> ends_with name murmur3_suffix = true ->
  (Z.of_nat (List.length (List.concat chunks)) < 2 ^ 63)%Z ->
  feed (prepared_partitioner (Some (r1 ++ ((ks, t), Some name) :: r2)%list) true (Some (ks, t))) chunks
  = murmur3_token_spec (List.concat chunks).
Proof.
  intros H He Hb. apply (murmur3_table_chain _ ks t name chunks); [apply partitioners_get_last_row; exact H|exact He|exact Hb].
Qed.

(* everything else gives the default: no row, a null row, an unknown class, a table unknown to
   the metadata, no scylla_tables at all, a statement without bind columns *)
Theorem default_partitioner_cases rows ks t :
  prepared_partitioner None true (Some (ks, t)) = PMurmur3 /\
  prepared_partitioner (Some rows) false (Some (ks, t)) = PMurmur3 /\
  prepared_partitioner (Some rows) true None = PMurmur3 /\
  (partitioners_get rows ks t None = None -> prepared_partitioner (Some rows) true (Some (ks, t)) = PMurmur3) /\
  (partitioners_get rows ks t None = Some None -> prepared_partitioner (Some rows) true (Some (ks, t)) = PMurmur3).
Proof.
  repeat split; try reflexivity; intros H; unfold prepared_partitioner, table_meta_partitioner; rewrite H; reflexivity.
Qed.

(* ---- fetch modes ---- *)
Theorem cdc_table_fetch_modes fm has_columns r1 r2 ks t name chunks :
  (fm = FetchMinimal \/ (fm = FetchFull /\ has_columns = true)) ->
  forallb (fun x => negb (row_is ks t x)) r2 = true -> ends_with name cdc_suffix = true ->
  feed (session_partitioner fm (Some (r1 ++ ((ks, t), Some name) :: r2)%list) true has_columns (Some (ks, t))) chunks
  = cdc_token_spec (List.concat chunks).
Proof.
  intros [->|[-> ->]] H He; cbn [session_partitioner]; apply cdc_table_last_row; assumption.
Qed.

Theorem murmur3_table_fetch_modes fm has_columns r1 r2 ks t name chunks :
  (fm = FetchMinimal \/ (fm = FetchFull /\ has_columns = true)) ->
  forallb (fun x => negb (row_is ks t x)) r2 = true -> ends_with name murmur3_suffix = true ->
  (Z.of_nat (List.length (List.concat chunks)) < 2 ^ 63)%Z ->
  feed (session_partitioner fm (Some (r1 ++ ((ks, t), Some name) :: r2)%list) true has_columns (Some (ks, t))) chunks
  = murmur3_token_spec (List.concat chunks).
Proof.
  intros [->|[-> ->]] H He Hb; cbn [session_partitioner]; apply murmur3_table_last_row; assumption.
Qed.
