(* Proofs for Model/PartName.v (property C03): a table that names the CDC partitioner class (any
   name ending in cdc_suffix) is hashed with the CDC hasher, one that names
   Murmur3Partitioner with the Murmur3 hasher. *)
From SV Require Import Base.Prelude Base.Bytes Model.Murmur Model.PartName Proofs.Murmur_proofs.
From Coq Require Import Ascii String.

Lemma is_prefix_app p : forall l, is_prefix p l = true -> exists t, l = (p ++ t)%list.
Proof.
  induction p as [|a p IH]; intros l H; [exists l; reflexivity|].
  destruct l as [|b l]; [discriminate|]. cbn [is_prefix] in H.
  apply andb_true_iff in H as [Hab Hp]. apply Ascii.eqb_eq in Hab. subst b.
  destruct (IH l Hp) as [t ->]. exists t. reflexivity.
Qed.

Lemma cdc_not_murmur3 s : ends_with s cdc_suffix = true ->
  ends_with s murmur3_suffix = false.
Proof.
  unfold ends_with. intros H. apply is_prefix_app in H as [t Ht]. rewrite Ht. reflexivity.
Qed.

Theorem from_str_cdc s : ends_with s cdc_suffix = true -> partitioner_from_str s = Some PCdc.
Proof.
  intros H. unfold partitioner_from_str. rewrite (cdc_not_murmur3 s H), H. reflexivity.
Qed.

Theorem from_str_murmur3 s : ends_with s murmur3_suffix = true ->
  partitioner_from_str s = Some PMurmur3.
Proof. intros H. unfold partitioner_from_str. rewrite H. reflexivity. Qed.

(* tables using the CDC partitioner get the CDC token, for every chunking of the key *)
Theorem cdc_table_token s chunks : ends_with s cdc_suffix = true ->
  feed (table_partitioner (Some s)) chunks = cdc_token_spec (List.concat chunks).
Proof.
  intros H. unfold table_partitioner. rewrite (from_str_cdc s H).
  unfold feed. cbn [build_hasher]. rewrite fold_hasher_cdc. cbn [hasher_finish]. apply cdc_chunking.
Qed.

Theorem murmur3_table_token s chunks : ends_with s murmur3_suffix = true ->
  (Z.of_nat (List.length (List.concat chunks)) < 2 ^ 63)%Z ->
  feed (table_partitioner (Some s)) chunks = murmur3_token_spec (List.concat chunks).
Proof.
  intros H Hb. unfold table_partitioner. rewrite (from_str_murmur3 s H).
  apply (feed_chunking PMurmur3 chunks Hb).
Qed.

(* ---- the metadata chain ---- *)
Theorem cdc_table_chain rows ks t name chunks :
  partitioners_get rows ks t None = Some (Some name) -> ends_with name cdc_suffix = true ->
  feed (prepared_partitioner (Some rows) true (Some (ks, t))) chunks = cdc_token_spec (List.concat chunks).
Proof.
  intros Hg He. unfold prepared_partitioner, table_meta_partitioner. rewrite Hg.
  apply cdc_table_token. exact He.
Qed.

Theorem murmur3_table_chain rows ks t name chunks :
  partitioners_get rows ks t None = Some (Some name) -> ends_with name murmur3_suffix = true ->
  (Z.of_nat (List.length (List.concat chunks)) < 2 ^ 63)%Z ->
  feed (prepared_partitioner (Some rows) true (Some (ks, t))) chunks = murmur3_token_spec (List.concat chunks).
Proof.
  intros Hg He Hb. unfold prepared_partitioner, table_meta_partitioner. rewrite Hg.
  apply murmur3_table_token; assumption.
Qed.

(* the last row of a table decides *)
Lemma partitioners_get_last rows ks t p acc :
  partitioners_get (rows ++ [((ks, t), p)]) ks t acc = Some p.
Proof.
  revert acc; induction rows as [|[[k n] q] r IH]; intros acc; cbn [partitioners_get app].
  - rewrite !String.eqb_refl. reflexivity.
  - destruct (String.eqb k ks && String.eqb n t)%bool; apply IH.
Qed.

(* ---- "last row wins" as a theorem: the row of (ks, t) after which no other row of (ks, t)
        follows decides, whatever stands before it and whatever other tables follow ---- *)
Definition row_is (ks t : string) (x : st_row) : bool :=
  (String.eqb (fst (fst x)) ks && String.eqb (snd (fst x)) t)%bool.

Lemma partitioners_get_app a : forall b ks t acc,
  partitioners_get (a ++ b)%list ks t acc = partitioners_get b ks t (partitioners_get a ks t acc).
Proof.
  induction a as [|[[k n] p] r IH]; intros b ks t acc; cbn [partitioners_get app]; [reflexivity|].
  destruct (String.eqb k ks && String.eqb n t)%bool; apply IH.
Qed.

Lemma partitioners_get_nomatch r ks t : forall acc,
  forallb (fun x => negb (row_is ks t x)) r = true -> partitioners_get r ks t acc = acc.
Proof.
  induction r as [|[[k n] p] r IH]; intros acc H; cbn [partitioners_get]; [reflexivity|].
  cbn [forallb] in H. apply andb_true_iff in H as [H1 H2]. unfold row_is in H1. cbn [fst snd] in H1.
  apply negb_true_iff in H1. rewrite H1. apply IH. exact H2.
Qed.

Theorem partitioners_get_last_row r1 r2 ks t p :
  forallb (fun x => negb (row_is ks t x)) r2 = true ->
  partitioners_get (r1 ++ ((ks, t), p) :: r2)%list ks t None = Some p.
Proof.
  intros H. rewrite partitioners_get_app. cbn [partitioners_get]. rewrite !String.eqb_refl. cbn [andb].
  apply partitioners_get_nomatch. exact H.
Qed.

Theorem cdc_table_last_row r1 r2 ks t name chunks :
  forallb (fun x => negb (row_is ks t x)) r2 = true -> ends_with name cdc_suffix = true ->
  feed (prepared_partitioner (Some (r1 ++ ((ks, t), Some name) :: r2)%list) true (Some (ks, t))) chunks
  = cdc_token_spec (List.concat chunks).
Proof.
  intros H He. apply (cdc_table_chain _ ks t name chunks); [apply partitioners_get_last_row; exact H|exact He].
Qed.

Theorem murmur3_table_last_row r1 r2 ks t name chunks :
  forallb (fun x => negb (row_is ks t x)) r2 = true -> ends_with name murmur3_suffix = true ->
  (Z.of_nat (List.length (List.concat chunks)) < 2 ^ 63)%Z ->
  feed (prepared_partitioner (Some (r1 ++ ((ks, t), Some name) :: r2)%list) true (Some (ks, t))) chunks
  = murmur3_token_spec (List.concat chunks).
Proof.
  intros H He Hb. apply (murmur3_table_chain _ ks t name chunks); [apply partitioners_get_last_row; exact H|exact He|exact Hb].
Qed.

(* everything else gives the default: no row, a null row, an unknown class, a table unknown to
   the metadata, no scylla_tables at all, a statement without bind columns *)
Theorem default_partitioner_cases rows ks t :
  prepared_partitioner None true (Some (ks, t)) = PMurmur3 /\
  prepared_partitioner (Some rows) false (Some (ks, t)) = PMurmur3 /\
  prepared_partitioner (Some rows) true None = PMurmur3 /\
  (partitioners_get rows ks t None = None -> prepared_partitioner (Some rows) true (Some (ks, t)) = PMurmur3) /\
  (partitioners_get rows ks t None = Some None -> prepared_partitioner (Some rows) true (Some (ks, t)) = PMurmur3).
Proof.
  repeat split; try reflexivity; intros H; unfold prepared_partitioner, table_meta_partitioner; rewrite H; reflexivity.
Qed.

(* ---- fetch modes ---- *)
Theorem cdc_table_fetch_modes fm has_columns r1 r2 ks t name chunks :
  (fm = FetchMinimal \/ (fm = FetchFull /\ has_columns = true)) ->
  forallb (fun x => negb (row_is ks t x)) r2 = true -> ends_with name cdc_suffix = true ->
  feed (session_partitioner fm (Some (r1 ++ ((ks, t), Some name) :: r2)%list) true has_columns (Some (ks, t))) chunks
  = cdc_token_spec (List.concat chunks).
Proof.
  intros [->|[-> ->]] H He; cbn [session_partitioner]; apply cdc_table_last_row; assumption.
Qed.

Theorem murmur3_table_fetch_modes fm has_columns r1 r2 ks t name chunks :
  (fm = FetchMinimal \/ (fm = FetchFull /\ has_columns = true)) ->
  forallb (fun x => negb (row_is ks t x)) r2 = true -> ends_with name murmur3_suffix = true ->
  (Z.of_nat (List.length (List.concat chunks)) < 2 ^ 63)%Z ->
  feed (session_partitioner fm (Some (r1 ++ ((ks, t), Some name) :: r2)%list) true has_columns (Some (ks, t))) chunks
  = murmur3_token_spec (List.concat chunks).
Proof.
  intros [->|[-> ->]] H He Hb; cbn [session_partitioner]; apply murmur3_table_last_row; assumption.
Qed.

(* ===== exact characterisations (deepening round 3) ===== *)

(* ---- from_str: exact characterisation ---- *)
Theorem from_str_cdc_iff s : partitioner_from_str s = Some PCdc <-> ends_with s cdc_suffix = true.
Proof.
  split; [|apply from_str_cdc]. unfold partitioner_from_str.
  destruct (ends_with s murmur3_suffix); [discriminate|].
  destruct (ends_with s cdc_suffix); [reflexivity|discriminate].
Qed.

Theorem from_str_murmur3_iff s : partitioner_from_str s = Some PMurmur3 <-> ends_with s murmur3_suffix = true.
Proof.
  split; [|apply from_str_murmur3]. unfold partitioner_from_str.
  destruct (ends_with s murmur3_suffix); [reflexivity|].
  destruct (ends_with s cdc_suffix); discriminate.
Qed.

Theorem from_str_none_iff s : partitioner_from_str s = None <->
  ends_with s cdc_suffix = false /\ ends_with s murmur3_suffix = false.
Proof.
  unfold partitioner_from_str. destruct (ends_with s murmur3_suffix) eqn:Em.
  - split; [discriminate|intros [_ H]; discriminate].
  - destruct (ends_with s cdc_suffix); split; try discriminate; try (intros [H _]; discriminate); auto.
Qed.

Theorem table_partitioner_cdc_iff name : table_partitioner name = PCdc <->
  exists s, name = Some s /\ ends_with s cdc_suffix = true.
Proof.
  unfold table_partitioner. destruct name as [s|].
  - destruct (partitioner_from_str s) as [[|]|] eqn:E.
    + split; [discriminate|]. intros (s' & Hs & He). inversion Hs; subst s'.
      apply from_str_cdc_iff in He. congruence.
    + split; [|reflexivity]. intros _. exists s. split; [reflexivity|]. apply from_str_cdc_iff. exact E.
    + split; [discriminate|]. intros (s' & Hs & He). inversion Hs; subst s'.
      apply from_str_cdc_iff in He. congruence.
  - split; [discriminate|]. intros (s & Hs & _). discriminate.
Qed.

(* ---- the HashMap lookup: exact characterisation ("the last row of the table") ---- *)
Lemma partitioners_get_acc rows ks t : forall acc,
  partitioners_get rows ks t acc =
  match partitioners_get rows ks t None with Some p => Some p | None => acc end.
Proof.
  induction rows as [|[[k n] p] r IH]; intros acc; cbn [partitioners_get]; [reflexivity|].
  destruct (String.eqb k ks && String.eqb n t)%bool.
  - rewrite (IH (Some p)). destruct (partitioners_get r ks t None); reflexivity.
  - apply IH.
Qed.

Theorem partitioners_get_some_iff rows ks t p :
  partitioners_get rows ks t None = Some p <->
  exists r1 r2, rows = (r1 ++ ((ks, t), p) :: r2)%list /\
                forallb (fun x => negb (row_is ks t x)) r2 = true.
Proof.
  split.
  - revert p. induction rows as [|[[k n] q] r IH]; intros p H; cbn [partitioners_get] in H; [discriminate|].
    destruct (String.eqb k ks && String.eqb n t)%bool eqn:E.
    + rewrite partitioners_get_acc in H.
      destruct (partitioners_get r ks t None) as [p'|] eqn:Er.
      * inversion H; subst p'. destruct (IH p eq_refl) as (r1 & r2 & Hr & Hn).
        exists (((k, n), q) :: r1), r2. split; [rewrite Hr; reflexivity|exact Hn].
      * inversion H; subst q. apply andb_true_iff in E as [Ek En].
        apply String.eqb_eq in Ek, En. subst k n.
        exists [], r. split; [reflexivity|].
        clear IH H. induction r as [|[[k' n'] q'] r IHr]; [reflexivity|].
        cbn [partitioners_get] in Er. cbn [forallb]. unfold row_is at 1. cbn [fst snd].
        destruct (String.eqb k' ks && String.eqb n' t)%bool eqn:E'.
        -- rewrite partitioners_get_acc in Er. destruct (partitioners_get r ks t None); discriminate.
        -- cbn [negb andb]. apply IHr. exact Er.
    + destruct (IH p H) as (r1 & r2 & Hr & Hn).
      exists (((k, n), q) :: r1), r2. split; [rewrite Hr; reflexivity|exact Hn].
  - intros (r1 & r2 & -> & Hn). apply partitioners_get_last_row. exact Hn.
Qed.

Theorem partitioners_get_none_iff rows ks t :
  partitioners_get rows ks t None = None <-> forallb (fun x => negb (row_is ks t x)) rows = true.
Proof.
  split.
  - induction rows as [|[[k n] q] r IH]; intros H; [reflexivity|].
    cbn [partitioners_get] in H. cbn [forallb]. unfold row_is at 1. cbn [fst snd].
    destruct (String.eqb k ks && String.eqb n t)%bool.
    + rewrite partitioners_get_acc in H. destruct (partitioners_get r ks t None); discriminate.
    + cbn [negb andb]. apply IH. exact H.
  - intros H. apply partitioners_get_nomatch. exact H.
Qed.

(* ---- which partitioner a Session gives a prepared statement: exact characterisation ---- *)
Theorem session_partitioner_cdc_iff fm st in_tables has_columns spec :
  session_partitioner fm st in_tables has_columns spec = PCdc <->
  (fm = FetchMinimal \/ (fm = FetchFull /\ has_columns = true)) /\ in_tables = true /\
  exists rows ks t r1 r2 name,
    st = Some rows /\ spec = Some (ks, t) /\
    rows = (r1 ++ ((ks, t), Some name) :: r2)%list /\
    forallb (fun x => negb (row_is ks t x)) r2 = true /\ ends_with name cdc_suffix = true.
Proof.
  assert (Hpp : prepared_partitioner st in_tables spec = PCdc <->
    in_tables = true /\ exists rows ks t r1 r2 name,
      st = Some rows /\ spec = Some (ks, t) /\ rows = (r1 ++ ((ks, t), Some name) :: r2)%list /\
      forallb (fun x => negb (row_is ks t x)) r2 = true /\ ends_with name cdc_suffix = true).
  { unfold prepared_partitioner. destruct spec as [[ks t]|].
    - destruct in_tables.
      + rewrite table_partitioner_cdc_iff. unfold table_meta_partitioner. split.
        * intros (s & Hs & He). destruct st as [rows|]; [|discriminate].
          destruct (partitioners_get rows ks t None) as [p|] eqn:Eg; [|discriminate]. subst p.
          apply partitioners_get_some_iff in Eg as (r1 & r2 & Hr & Hn).
          split; [reflexivity|]. exists rows, ks, t, r1, r2, s. repeat split; assumption.
        * intros (_ & rows & ks' & t' & r1 & r2 & name & -> & Hsp & Hr & Hn & He).
          inversion Hsp; subst ks' t'. exists name. split; [|exact He].
          rewrite (proj2 (partitioners_get_some_iff rows ks t (Some name))); [reflexivity|].
          exists r1, r2. split; assumption.
      + split; [discriminate|intros [H _]; discriminate].
    - split; [discriminate|]. intros (_ & rows & ks & t & r1 & r2 & name & _ & H & _). discriminate. }
  destruct fm; cbn [session_partitioner].
  - split; [discriminate|]. intros ([H|[H _]] & _); discriminate.
  - rewrite Hpp. split; [intros H; split; [left; reflexivity|exact H]|intros [_ H]; exact H].
  - destruct has_columns.
    + rewrite Hpp. split; [intros H; split; [right; split; reflexivity|exact H]|intros [_ H]; exact H].
    + split; [discriminate|]. intros ([H|[_ H]] & _); discriminate.
Qed.
