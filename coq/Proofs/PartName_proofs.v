(* Proofs for Model/PartName.v (property C03): a table that names the CDC partitioner class (any
   name ending in cdc_suffix) is hashed with the CDC hasher, one that names
   Murmur3Partitioner with the Murmur3 hasher. *)
From SV Require Import Base.Prelude Base.Bytes Model.Murmur Model.PartName Proofs.Murmur_proofs.
From Coq Require Import Ascii String.

Lemma is_prefix_app p : forall l, is_prefix p l = true -> exists t, l = (p ++ t)%list.
Proof.
  induction p as [|a p IH]; intros l H; [exists l; reflexivity|].
  destruct l as [|b l]; [discriminate|]. cbn [is_prefix] in H.
  apply andb_true_iff in H as [Hab Hp]. apply Ascii.eqb_eq in Hab. subst b.
  destruct (IH l Hp) as [t ->]. exists t. reflexivity.
Qed.

Lemma cdc_not_murmur3 s : ends_with s cdc_suffix = true ->
  ends_with s murmur3_suffix = false.
Proof.
  unfold ends_with. intros H. apply is_prefix_app in H as [t Ht]. rewrite Ht. reflexivity.
Qed.

Theorem from_str_cdc s : ends_with s cdc_suffix = true -> partitioner_from_str s = Some PCdc.
Proof.
  intros H. unfold partitioner_from_str. rewrite (cdc_not_murmur3 s H), H. reflexivity.
Qed.

Theorem from_str_murmur3 s : ends_with s murmur3_suffix = true ->
  partitioner_from_str s = Some PMurmur3.
Proof. intros H. unfold partitioner_from_str. rewrite H. reflexivity. Qed.

(* tables using the CDC partitioner get the CDC token, for every chunking of the key *)
Theorem cdc_table_token s chunks : ends_with s cdc_suffix = true ->
  feed (table_partitioner (Some s)) chunks = cdc_token_spec (List.concat chunks).
Proof.
  intros H. unfold table_partitioner. rewrite (from_str_cdc s H).
  unfold feed. cbn [build_hasher]. rewrite fold_hasher_cdc. cbn [hasher_finish]. apply cdc_chunking.
Qed.

Theorem murmur3_table_token s chunks : ends_with s murmur3_suffix = true ->
  (Z.of_nat (List.length (List.concat chunks)) < 2 ^ 63)%Z ->
  feed (table_partitioner (Some s)) chunks = murmur3_token_spec (List.concat chunks).
Proof.
  intros H Hb. unfold table_partitioner. rewrite (from_str_murmur3 s H).
  apply (feed_chunking PMurmur3 chunks Hb).
Qed.

(* ---- the metadata chain ---- *)
Theorem cdc_table_chain rows ks t name chunks :
  partitioners_get rows ks t None = Some (Some name) -> ends_with name cdc_suffix = true ->
  feed (prepared_partitioner (Some rows) true (Some (ks, t))) chunks = cdc_token_spec (List.concat chunks).
Proof.
  intros Hg He. unfold prepared_partitioner, table_meta_partitioner. rewrite Hg.
  apply cdc_table_token. exact He.
Qed.

Theorem murmur3_table_chain rows ks t name chunks :
  partitioners_get rows ks t None = Some (Some name) -> ends_with name murmur3_suffix = true ->
  (Z.of_nat (List.length (List.concat chunks)) < 2 ^ 63)%Z ->
  feed (prepared_partitioner (Some rows) true (Some (ks, t))) chunks = murmur3_token_spec (List.concat chunks).
Proof.
  intros Hg He Hb. unfold prepared_partitioner, table_meta_partitioner. rewrite Hg.
  apply murmur3_table_token; assumption.
Qed.

(* the last row of a table decides *)
Lemma partitioners_get_last rows ks t p acc :
  partitioners_get (rows ++ [((ks, t), p)]) ks t acc = Some p.
Proof.
  revert acc; induction rows as [|[[k n] q] r IH]; intros acc; cbn [partitioners_get app].
  - rewrite !String.eqb_refl. reflexivity.
  - destruct (String.eqb k ks && String.eqb n t)%bool; apply IH.
Qed.
