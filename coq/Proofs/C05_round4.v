(* Property C05, deepening round 4 (proof only): characterisations of the extracted acceptor
   pieces the driver uses for a verdict (pick_matches on Some / None, min_group, the "group 8 =
   not allowed" boundary), a frame statement for group_of, and the consistency of the two-read
   model with the one-snapshot Plan.  Nothing here changes a Model function. *)
From SV Require Import Base.Prelude Model.Ring Model.Replicas Model.Plan Proofs.Ring_proofs Proofs.Replicas_proofs Proofs.Plan_proofs.
From Coq Require Import Permutation Lia.
Open Scope Z_scope.

Lemma mgw_le (grp : N -> nat) l m : In m l -> (min_group_with l grp <= grp m)%nat.
Proof.
  induction l as [|x r IH]; intros H; [destruct H|]. cbn [min_group_with fold_right].
  fold (min_group_with r grp). destruct H as [->|H]; [lia|]. specialize (IH H). lia.
Qed.

Lemma mgw_le8 (grp : N -> nat) l : (min_group_with l grp <= 8)%nat.
Proof. induction l as [|x r IH]; cbn [min_group_with fold_right]; [lia|]. fold (min_group_with r grp). lia. Qed.

Lemma mgw_attained (grp : N -> nat) l :
  min_group_with l grp = 8%nat \/ exists n, In n l /\ grp n = min_group_with l grp.
Proof.
  induction l as [|x r IH]; [left; reflexivity|]. cbn [min_group_with fold_right].
  fold (min_group_with r grp).
  destruct (Nat.min_spec (grp x) (min_group_with r grp)) as [[_ E]|[_ E]]; rewrite E.
  - right. exists x. split; [now left|reflexivity].
  - destruct IH as [IH|(n & Hn & En)]; [now left|]. right. exists n. split; [now right|assumption].
Qed.

Section Round4.
  Variables (dcf rackf : N -> option N) (g : ring N) (keyspaces : list (N * strategy)).
  Variables (enabled connected : N -> bool) (pol : policy) (rq : request).

  Local Notation group_of := (group_of dcf rackf g keyspaces enabled connected pol rq).
  Local Notation pick_matches := (pick_matches dcf rackf g keyspaces enabled connected pol rq).
  Local Notation lwt_sequence := (lwt_sequence dcf rackf g keyspaces enabled connected pol rq).
  Local Notation min_group := (min_group dcf rackf g keyspaces enabled connected pol rq).

  Lemma group_of_le8 n : (group_of n <= 8)%nat.
  Proof.
    rewrite group_of_first_true.
    exact (first_true_le (conds dcf rackf g keyspaces enabled connected pol rq) n).
  Qed.

  (* min_group: a lower bound of every token-owning node's group, at most 8, and attained
     unless it is 8 *)
  Theorem min_group_spec :
    (forall m, In m (all_nodes g) -> (min_group <= group_of m)%nat) /\ (min_group <= 8)%nat /\
    (min_group = 8%nat \/ exists n, In n (all_nodes g) /\ group_of n = min_group).
  Proof.
    unfold Plan.min_group. split; [intros m Hm; now apply mgw_le|]. split; [apply mgw_le8|apply mgw_attained].
  Qed.

  (* "8 = the node may not be named at all", exactly *)
  Theorem group_lt8_iff : sorted_weak g -> forall n,
    (group_of n < 8)%nat <-> enabled n = true /\ permitted dcf g pol rq n = true.
  Proof.
    intros Hs n. split.
    - exact (grp_lt8_ok dcf rackf g keyspaces enabled connected (fun _ => 0%N) pol rq Hs n).
    - intros [He Hp]. rewrite group_of_first_true.
      change 8%nat with (List.length (conds dcf rackf g keyspaces enabled connected pol rq)).
      apply first_true_lt.
      destruct (ok_in_last_groups dcf rackf g enabled connected (fun _ => 0%N) pol rq n He Hp) as [H|[Hf H]];
        apply filter_In in H; destruct H as [Hin _].
      + exists (c6 dcf g enabled pol rq). split; [unfold conds; cbn [In]; tauto|].
        unfold c6. rewrite He. cbn [andb]. now apply mem_In.
      + exists (c7 g enabled pol rq). split; [unfold conds; cbn [In]; tauto|].
        unfold c7. rewrite Hf, He. cbn [andb]. now apply mem_In.
  Qed.

  (* pick_matches (Some n), exactly (the converse of pick_matches_sound) *)
  Theorem pick_matches_some_iff : sorted_weak g -> forall n,
    pick_matches (Some n) = true <->
    (group_of n < 8)%nat /\ (forall m, In m (all_nodes g) -> (group_of n <= group_of m)%nat) /\
    (rq_lwt rq = true -> (group_of n < 3)%nat -> exists r, lwt_sequence = n :: r).
  Proof.
    intros Hs n. split; [exact (pick_matches_sound dcf rackf g keyspaces enabled connected (fun _ => 0%N) pol rq n)|].
    intros (H8 & Hmin & Hl).
    assert (Hin : In n (all_nodes g)).
    { destruct (proj1 (group_lt8_iff Hs n) H8) as [_ Hp]. apply permitted_spec in Hp. tauto. }
    unfold Plan.pick_matches. cbv zeta.
    change (group_with rackf enabled connected pol rq (all_nodes g) (local_nodes dcf g pol rq)
              (rep_local dcf rackf g keyspaces pol rq) (rep_any dcf rackf g keyspaces pol rq)) with group_of.
    rewrite !andb_true_iff, Nat.eqb_eq, Nat.ltb_lt. split; [split; [|assumption]|].
    - apply Nat.le_antisymm.
      + destruct (mgw_attained group_of (all_nodes g)) as [E|(m & Hm & E)]; [lia|]. rewrite <- E. now apply Hmin.
      + now apply mgw_le.
    - destruct (rq_lwt rq) eqn:El; [|reflexivity]. cbn [andb].
      destruct (group_of n <? 3)%nat eqn:E3; [|reflexivity]. apply Nat.ltb_lt in E3.
      destruct (Hl eq_refl E3) as (r & ->). apply N.eqb_refl.
  Qed.

  (* pick_matches None, exactly: no token-owning node is allowed, or (LWT, remote replicas
     allowed) the ring's primary replica is down and no node is in a local replica group *)
  Theorem pick_matches_none_iff :
    pick_matches None = true <->
    (forall m, In m (all_nodes g) -> group_of m = 8%nat) \/
    (rq_lwt rq = true /\ remote_allowed pol rq = true /\
     exists t s primary r, token_strategy keyspaces pol rq = Some (t, s) /\
       reps_ordered dcf rackf g keyspaces t s CAny = primary :: r /\
       alive enabled connected primary = false /\
       forall m, In m (all_nodes g) -> (2 <= group_of m)%nat).
  Proof.
    unfold Plan.pick_matches. cbv zeta.
    change (group_with rackf enabled connected pol rq (all_nodes g) (local_nodes dcf g pol rq)
              (rep_local dcf rackf g keyspaces pol rq) (rep_any dcf rackf g keyspaces pol rq)) with group_of.
    rewrite orb_true_iff, Nat.eqb_eq. split.
    - intros [H|H].
      + left. intros m Hm. pose proof (mgw_le group_of _ _ Hm). pose proof (group_of_le8 m). lia.
      + right. rewrite !andb_true_iff in H. destruct H as [[Hl Hr] H]. split; [assumption|]. split; [assumption|].
        destruct (token_strategy keyspaces pol rq) as [[t s]|]; [|discriminate].
        destruct (reps_ordered dcf rackf g keyspaces t s CAny) as [|primary r] eqn:Eo; [discriminate|].
        apply andb_true_iff in H. destruct H as [Ha H2]. apply negb_true_iff in Ha. apply Nat.leb_le in H2.
        exists t, s, primary, r. repeat split; try assumption.
        intros m Hm. pose proof (mgw_le group_of _ _ Hm). lia.
    - intros [H|(Hl & Hr & t & s & primary & r & Ets & Eo & Ea & H2)].
      + left. destruct (mgw_attained group_of (all_nodes g)) as [E|(m & Hm & E)]; [assumption|].
        rewrite <- E. now apply H.
      + right. rewrite Hl, Hr, Ets, Eo, Ea. cbn [andb negb]. apply Nat.leb_le.
        destruct (mgw_attained group_of (all_nodes g)) as [E|(m & Hm & E)]; [lia|]. rewrite <- E. now apply H2.
  Qed.
End Round4.

(* frame: a node's group depends on the liveness of that node only *)
Theorem group_of_frame dcf rackf (g : ring N) keyspaces en1 co1 en2 co2 pol rq n :
  en1 n = en2 n -> co1 n = co2 n ->
  group_of dcf rackf g keyspaces en1 co1 pol rq n = group_of dcf rackf g keyspaces en2 co2 pol rq n.
Proof. intros He Hc. unfold group_of, group_with, alive. rewrite He, Hc. reflexivity. Qed.

(* the two-read model with the same liveness at both reads is the one-snapshot Plan *)
Theorem two_reads_same_snapshot dcf rackf (g : ring N) keyspaces en co shf pol rq cho shuf :
  plan_two_reads dcf rackf g keyspaces en co en co shf pol rq cho shuf =
  match pick dcf rackf g keyspaces en co shf pol rq cho with
  | Some _ => Some (plan dcf rackf g keyspaces en co shf pol rq cho shuf)
  | None => None
  end.
Proof. unfold plan_two_reads, plan. destruct (pick dcf rackf g keyspaces en co shf pol rq cho); reflexivity. Qed.

(* hence: a two-read plan the kind-L acceptor accepts never names the picked node again when
   that node's own liveness did not change (whatever happened to the other nodes) *)
Theorem two_reads_unchanged_head dcf rackf (g : ring N) keyspaces en1 co1 en2 co2 pol rq h rest :
  en1 h = en2 h -> co1 h = co2 h ->
  two_reads_matches dcf rackf g keyspaces en1 co1 en2 co2 pol rq (h :: rest) = true ->
  ~ In h rest /\
  exists a b, rest = a ++ b /\ plan_matches dcf rackf g keyspaces en2 co2 pol rq (a ++ h :: b) = true.
Proof.
  intros He Hc. cbn [two_reads_matches]. cbv zeta.
  rewrite <- (group_of_frame dcf rackf g keyspaces en1 co1 en2 co2 pol rq h He Hc).
  rewrite andb_true_iff. intros [Hp H].
  destruct (pick_matches_sound dcf rackf g keyspaces en1 co1 (fun _ => 0%N) pol rq h Hp) as (H8 & _).
  assert (E8 : (8 <=? group_of dcf rackf g keyspaces en1 co1 pol rq h)%nat = false) by (apply Nat.leb_gt; exact H8).
  rewrite E8, Bool.eqb_reflx in H. apply andb_true_iff in H. destruct H as [Hn H].
  apply negb_true_iff, mem_false in Hn. split; [assumption|].
  apply existsb_exists in H. destruct H as (F & HF & Hm).
  destruct (inserts_spec h rest [] F HF) as (a & b & E & ->). cbn [rev app] in E. exists a, b. split; assumption.
Qed.
