(* Proofs about Model/Plan.v (property C05). *)
From SV Require Import Base.Prelude Model.Ring Model.Replicas Model.Plan
  Proofs.Ring_proofs Proofs.Replicas_proofs.
From Coq Require Import Permutation.
Open Scope Z_scope.

(* ---------------------------------------------------------------- boolean reflections *)
Lemma nondecreasing_cons x l :
  nondecreasing (x :: l) = true <-> (forall y, In y l -> (x <= y)%nat) /\ nondecreasing l = true.
Proof.
  revert x. induction l as [|y r IH]; intros x.
  - cbn. split; [intros _; split; [intros ? []|reflexivity]|reflexivity].
  - change (nondecreasing (x :: y :: r)) with ((x <=? y)%nat && nondecreasing (y :: r)).
    rewrite andb_true_iff, Nat.leb_le. split.
    + intros [H1 H2]. split; [|assumption]. intros z [<-|Hz]; [assumption|].
      apply IH in H2. destruct H2 as [H2 _]. specialize (H2 z Hz). lia.
    + intros [H1 H2]. split; [apply H1; now left|assumption].
Qed.

Lemma nondecreasing_spec l : nondecreasing l = true ->
  forall i j a b, (i < j)%nat -> nth_error l i = Some a -> nth_error l j = Some b -> (a <= b)%nat.
Proof.
  induction l as [|x r IH]; intros H i j a b Hij Hi Hj; [destruct i; discriminate|].
  apply nondecreasing_cons in H. destruct H as [H1 H2].
  destruct j as [|j']; [lia|]. cbn in Hj. destruct i as [|i'].
  - cbn in Hi. injection Hi as <-. apply H1. eapply nth_error_In; eassumption.
  - cbn in Hi. apply (IH H2 i' j'); [lia|assumption|assumption].
Qed.

Lemma nondecreasing_of_pairs l :
  (forall i j a b, (i < j)%nat -> nth_error l i = Some a -> nth_error l j = Some b -> (a <= b)%nat) ->
  nondecreasing l = true.
Proof.
  induction l as [|x r IH]; intros H; [reflexivity|]. apply nondecreasing_cons. split.
  - intros y Hy. apply In_nth_error in Hy. destruct Hy as (k & Hk). apply (H 0%nat (S k)); [lia|reflexivity|exact Hk].
  - apply IH. intros i j a b Hij Hi Hj. apply (H (S i) (S j)); [lia|exact Hi|exact Hj].
Qed.

Lemma nondecreasing_app a b :
  nondecreasing a = true -> nondecreasing b = true ->
  (forall x y, In x a -> In y b -> (x <= y)%nat) -> nondecreasing (a ++ b) = true.
Proof.
  induction a as [|x r IH]; intros Ha Hb Hab; [assumption|]. cbn [app].
  apply nondecreasing_cons in Ha. destruct Ha as [H1 H2]. apply nondecreasing_cons. split.
  - intros y Hy. apply in_app_or in Hy. destruct Hy as [Hy|Hy]; [auto|]. apply Hab; [now left|assumption].
  - apply IH; [assumption|assumption|]. intros u v Hu Hv. apply Hab; [now right|assumption].
Qed.

Lemma nondecreasing_const k l : (forall x, In x l -> x = k) -> nondecreasing l = true.
Proof.
  induction l as [|x r IH]; intros H; [reflexivity|]. apply nondecreasing_cons. split.
  - intros y Hy. rewrite (H x (or_introl eq_refl)), (H y (or_intror Hy)). lia.
  - apply IH. intros y Hy. apply H. now right.
Qed.

(* ---------------------------------------------------------------- generic facts *)
Lemma nondecreasing_filter {A} (f : A -> nat) (P : A -> bool) l :
  nondecreasing (map f l) = true -> nondecreasing (map f (filter P l)) = true.
Proof.
  induction l as [|x r IH]; intros H; [reflexivity|]. cbn [map] in H. apply nondecreasing_cons in H.
  destruct H as [H1 H2]. cbn [filter]. destruct (P x); [|auto]. cbn [map]. apply nondecreasing_cons.
  split; [|auto]. intros y Hy. apply H1. apply in_map_iff in Hy. destruct Hy as (z & <- & Hz).
  apply in_map. apply filter_In in Hz. tauto.
Qed.

Lemma nondecreasing_map_S l : nondecreasing l = true -> nondecreasing (map S l) = true.
Proof.
  induction l as [|x r IH]; intros H; [reflexivity|]. apply nondecreasing_cons in H. destruct H as [H1 H2].
  cbn [map]. apply nondecreasing_cons. split; [|auto]. intros y Hy. apply in_map_iff in Hy.
  destruct Hy as (z & <- & Hz). specialize (H1 z Hz). lia.
Qed.

(* index of the first predicate that holds *)
Fixpoint first_true (cs : list (N -> bool)) (n : N) : nat :=
  match cs with
  | [] => 0%nat
  | c :: r => if c n then 0%nat else S (first_true r n)
  end.

Lemma first_true_le cs n : (first_true cs n <= List.length cs)%nat.
Proof. induction cs as [|c r IH]; cbn; [lia|]. destruct (c n); lia. Qed.

Lemma first_true_lt cs n : (first_true cs n < List.length cs)%nat <-> exists c, In c cs /\ c n = true.
Proof.
  induction cs as [|c r IH]; cbn [first_true List.length].
  - split; [lia|intros (c & [] & _)].
  - destruct (c n) eqn:E.
    + split; [intros _; exists c; split; [now left|assumption]|lia].
    + rewrite <- Nat.succ_lt_mono, IH. split; intros (c' & Hc & Ec); exists c'.
      * split; [now right|assumption].
      * destruct Hc as [<-|Hc]; [congruence|tauto].
Qed.

Lemma first_true_nth cs n k c : nth_error cs k = Some c -> c n = true -> (first_true cs n <= k)%nat.
Proof.
  revert k. induction cs as [|c0 r IH]; intros k Hk Hc; [destruct k; discriminate|].
  cbn [first_true]. destruct (c0 n) eqn:E; [lia|]. destruct k as [|k']; cbn in Hk.
  - injection Hk as ->. congruence.
  - specialize (IH k' Hk Hc). lia.
Qed.

(* segments that contain exactly the nodes satisfying their predicate, chained and
   de-duplicated, are sorted by the index of the first predicate a node satisfies *)
Lemma uniq_concat_sorted (cs : list (N -> bool)) (segs : list (list N)) :
  Forall2 (fun c Sg => forall n, In n Sg <-> c n = true) cs segs ->
  nondecreasing (map (first_true cs) (uniq (concat segs))) = true.
Proof.
  induction 1 as [|c Sg cs' segs' Hc Hrest IH]; [reflexivity|]. cbn [concat].
  unfold uniq. rewrite (uniq_by_app N.eqb Neqb_eq), map_app. fold (uniq Sg). fold (uniq (concat segs')).
  apply nondecreasing_app.
  - apply (nondecreasing_const 0%nat). intros x Hx. apply in_map_iff in Hx. destruct Hx as (n & <- & Hn).
    rewrite uniq_In in Hn. apply Hc in Hn. cbn [first_true]. now rewrite Hn.
  - set (P := fun x => negb (mem_by N.eqb x Sg)).
    assert (E : map (first_true (c :: cs')) (filter P (uniq (concat segs'))) =
                map S (map (first_true cs') (filter P (uniq (concat segs'))))).
    { rewrite map_map. apply map_ext_in. intros n Hn. apply filter_In in Hn. destruct Hn as [_ Hn].
      unfold P in Hn. apply negb_true_iff, (mem_by_false N.eqb Neqb_eq) in Hn.
      cbn [first_true]. destruct (c n) eqn:E; [|reflexivity]. apply Hc in E. contradiction. }
    rewrite E. apply nondecreasing_map_S. now apply nondecreasing_filter.
  - intros x y Hx Hy. apply in_map_iff in Hx. destruct Hx as (n & <- & Hn).
    rewrite uniq_In in Hn. apply Hc in Hn. cbn [first_true]. rewrite Hn. lia.
Qed.

Lemma first_true_true cs n : (first_true cs n < List.length cs)%nat ->
  exists c, nth_error cs (first_true cs n) = Some c /\ c n = true.
Proof.
  induction cs as [|c r IH]; cbn [first_true List.length]; [lia|].
  destruct (c n) eqn:E; [intros _; exists c; split; [reflexivity|assumption]|].
  intros H. apply IH. lia.
Qed.

Lemma segs_nth_In (cs : list (N -> bool)) (segs : list (list N)) :
  Forall2 (fun c Sg => forall n, In n Sg <-> c n = true) cs segs ->
  forall k c n, nth_error cs k = Some c -> c n = true -> exists Sg, nth_error segs k = Some Sg /\ In n Sg.
Proof.
  induction 1 as [|c0 S0 cs' segs' H0 Hr IH]; intros k c n Hk Hc; [destruct k; discriminate|].
  destruct k as [|k']; cbn in Hk |- *.
  - injection Hk as <-. exists S0. split; [reflexivity|now apply H0].
  - now apply (IH k' c n).
Qed.

Lemma segs_In_cond (cs : list (N -> bool)) (segs : list (list N)) :
  Forall2 (fun c Sg => forall n, In n Sg <-> c n = true) cs segs ->
  forall k Sg n, nth_error segs k = Some Sg -> In n Sg -> exists c, nth_error cs k = Some c /\ c n = true.
Proof.
  induction 1 as [|c0 S0 cs' segs' H0 Hr IH]; intros k Sg n Hk Hn; [destruct k; discriminate|].
  destruct k as [|k']; cbn in Hk |- *.
  - injection Hk as <-. exists c0. split; [reflexivity|now apply H0].
  - now apply (IH k' Sg n).
Qed.

Lemma In_concat_nth {A} (segs : list (list A)) x :
  In x (concat segs) <-> exists k Sg, nth_error segs k = Some Sg /\ In x Sg.
Proof.
  rewrite in_concat. split.
  - intros (Sg & HS & Hx). apply In_nth_error in HS. destruct HS as (k & Hk). eauto.
  - intros (k & Sg & Hk & Hx). exists Sg. split; [eapply nth_error_In; eassumption|assumption].
Qed.

Lemma nth_error_Some_lt {A} (l : list A) k x : nth_error l k = Some x -> (k < List.length l)%nat.
Proof. intros H. apply nth_error_Some. congruence. Qed.

(* ---------------------------------------------------------------- de-duplication of targets *)
Section Dedup.
  Variable shf : N -> N.
  Definition consistent (x : target) : Prop := snd x = None \/ snd x = Some (shf (fst x)).

  Lemma cmp_consistent x y : consistent x -> consistent y -> target_cmp x y = N.eqb (fst x) (fst y).
  Proof.
    unfold consistent, target_cmp. destruct x as [n s], y as [m u]. cbn [fst snd].
    intros [->| ->] [->| ->]; try now rewrite andb_true_r.
    destruct (N.eqb n m) eqn:E; [|reflexivity]. apply N.eqb_eq in E. subst. cbn. apply N.eqb_refl.
  Qed.

  Lemma existsb_cmp x kept : consistent x -> Forall consistent kept ->
    existsb (target_cmp x) kept = mem (fst x) (map fst kept).
  Proof.
    intros Hx Hk. induction Hk as [|y r Hy Hr IH]; [reflexivity|]. cbn [existsb map].
    unfold mem. cbn [mem_by existsb]. fold (mem (fst x) (map fst r)). now rewrite cmp_consistent, IH.
  Qed.

  Lemma dedup_aux_ext kept kept' l : Forall consistent kept -> Forall consistent kept' -> Forall consistent l ->
    (forall n, In n (map fst kept) <-> In n (map fst kept')) -> dedup_aux kept l = dedup_aux kept' l.
  Proof.
    intros Hk Hk' Hl. revert kept kept' Hk Hk'. induction Hl as [|x r Hx Hr IH]; intros kept kept' Hk Hk' He; [reflexivity|].
    cbn [dedup_aux]. rewrite !existsb_cmp by assumption. unfold mem.
    rewrite (mem_by_ext N.eqb Neqb_eq (fst x) _ _ He).
    destruct (mem_by N.eqb (fst x) (map fst kept')); [now apply IH|]. f_equal.
    apply IH; try (constructor; assumption). intros n. cbn [map In]. rewrite He. tauto.
  Qed.

  (* a chain  map mk A ++ rest  where mk builds a consistent target of the given node *)
  Lemma dedup_aux_map_app (mk : N -> target) A rest kept :
    (forall n, fst (mk n) = n) -> (forall n, consistent (mk n)) ->
    Forall consistent kept -> Forall consistent rest ->
    dedup_aux kept (map mk A ++ rest) =
    map mk (uniq_aux N.eqb (map fst kept) A) ++ dedup_aux (map mk A ++ kept) rest.
  Proof.
    intros Hf Hc. revert kept. induction A as [|a A' IH]; intros kept Hk Hr; [reflexivity|].
    cbn [map app dedup_aux uniq_aux]. rewrite existsb_cmp by auto. rewrite Hf. unfold mem.
    assert (Hmk : forall l, Forall consistent (map mk l)).
    { intros l. apply Forall_forall. intros x Hx. apply in_map_iff in Hx. destruct Hx as (n & <- & _). auto. }
    destruct (mem_by N.eqb a (map fst kept)) eqn:E.
    - rewrite IH by assumption. f_equal. apply dedup_aux_ext; try assumption.
      + apply Forall_app. split; [apply Hmk|assumption].
      + constructor; [auto|]. apply Forall_app. split; [apply Hmk|assumption].
      + intros n. cbn [map In]. rewrite Hf. apply (mem_by_In N.eqb Neqb_eq) in E.
        rewrite !map_app, !in_app_iff. split; [tauto|]. intros [<-|H]; tauto.
    - cbn [map app]. f_equal. rewrite IH by (try constructor; auto). cbn [map]. rewrite Hf. f_equal.
      apply dedup_aux_ext; try assumption.
      + apply Forall_app. split; [apply Hmk|]. constructor; auto.
      + constructor; [auto|]. apply Forall_app. split; [apply Hmk|assumption].
      + intros n. cbn [map In]. rewrite !map_app, !in_app_iff. cbn [map In]. tauto.
  Qed.

  Definition with_shard (n : N) : target := (n, Some (shf n)).
  Definition no_shard (n : N) : target := (n, @None N).

  Lemma dedup_chain A B :
    dedup (map with_shard A ++ map no_shard B) =
    map with_shard (uniq A) ++ map no_shard (filter (fun n => negb (mem n A)) (uniq B)).
  Proof.
    unfold dedup.
    assert (Hw : forall l, Forall consistent (map with_shard l)).
    { intros l. apply Forall_forall. intros x Hx. apply in_map_iff in Hx. destruct Hx as (n & <- & _). now right. }
    assert (Hn : forall l, Forall consistent (map no_shard l)).
    { intros l. apply Forall_forall. intros x Hx. apply in_map_iff in Hx. destruct Hx as (n & <- & _). now left. }
    rewrite (dedup_aux_map_app with_shard A (map no_shard B) []); auto; [|intros n; now right].
    f_equal. rewrite app_nil_r.
    rewrite <- (app_nil_r (map no_shard B)).
    rewrite (dedup_aux_map_app no_shard B [] (map with_shard A)); auto; [|intros n; now left].
    cbn [dedup_aux]. rewrite app_nil_r. f_equal. rewrite map_map. cbn [with_shard fst]. rewrite map_id.
    apply (uniq_aux_filter N.eqb Neqb_eq).
  Qed.
End Dedup.

Section PlanProofs.
  Variables (dcf rackf : N -> option N) (g : ring N) (keyspaces : list (N * strategy)).
  Variables (enabled connected : N -> bool) (shf : N -> N) (pol : policy) (rq : request).

  Local Notation alive := (alive enabled connected).
  Local Notation all_nodes := (all_nodes g).
  Local Notation local_nodes := (local_nodes dcf g pol rq).
  Local Notation rep_local := (rep_local dcf rackf g keyspaces pol rq).
  Local Notation rep_any := (rep_any dcf rackf g keyspaces pol rq).
  Local Notation eff_pref := (eff_pref pol rq).
  Local Notation token_strategy := (token_strategy keyspaces pol rq).
  Local Notation failover_possible := (failover_possible pol rq).
  Local Notation crit_rack := (crit_rack pol rq).
  Local Notation crit_local := (crit_local pol rq).
  Local Notation remote_allowed := (remote_allowed pol rq).
  Local Notation restricted_dc := (restricted_dc pol rq).
  Local Notation permitted := (permitted dcf g pol rq).
  Local Notation permitted_with := (permitted_with dcf pol rq).
  Local Notation group_with := (group_with rackf enabled connected pol rq).
  Local Notation group_of := (group_of dcf rackf g keyspaces enabled connected pol rq).
  Local Notation lwt_sequence := (lwt_sequence dcf rackf g keyspaces enabled connected pol rq).
  Local Notation plan_matches := (plan_matches dcf rackf g keyspaces enabled connected pol rq).
  Local Notation pick_matches := (pick_matches dcf rackf g keyspaces enabled connected pol rq).
  Local Notation crit_ok := (crit_ok rackf).
  Local Notation reps_iter := (reps_iter dcf rackf g keyspaces).
  Local Notation reps_ordered := (reps_ordered dcf rackf g keyspaces).
  Local Notation filtered_replicas := (filtered_replicas dcf rackf g keyspaces).

  (* ============================================================= soundness of the acceptor *)
  Lemma permitted_spec n : permitted n = true <->
    In n all_nodes /\ (forall d, pref_dc eff_pref = Some d -> pol_failover pol = false -> in_dc dcf d n = true).
  Proof.
    unfold Plan.permitted, Plan.permitted_with, Plan.restricted_dc.
    rewrite andb_true_iff, mem_In. split; intros [H1 H2]; (split; [assumption|]).
    - intros d Hd Hf. rewrite Hd, Hf in H2. assumption.
    - destruct (pref_dc eff_pref) as [d|]; [|reflexivity].
      destruct (pol_failover pol) eqn:Ef; [reflexivity|]. now apply H2.
  Qed.

  Theorem plan_matches_sound p : plan_matches p = true ->
    P_nodup p /\ P_filter enabled p /\ P_locality dcf pol rq p /\ P_complete dcf g enabled pol rq p /\
    P_order dcf rackf g keyspaces enabled connected pol rq p /\
    P_lwt dcf rackf g keyspaces enabled connected pol rq p.
  Proof.
    unfold Plan.plan_matches. cbv zeta. rewrite !andb_true_iff.
    intros [[[[H1 H2] H3] H4] H5].
    fold all_nodes in *. change (permitted_with all_nodes) with permitted in *.
    rewrite forallb_forall in H2, H3.
    assert (Hok : forall n, In n p -> enabled n = true /\ permitted n = true).
    { intros n Hn. specialize (H2 n Hn). now apply andb_true_iff in H2. }
    split; [now apply nodupb_spec|]. split; [intros n Hn; now apply Hok|]. split; [|split; [|split]].
    - intros d Hd Hf n Hn. destruct (Hok n Hn) as [_ Hp]. apply permitted_spec in Hp. now apply Hp.
    - intros n Hn He Hl. apply mem_In. apply H3. apply filter_In. split; [assumption|].
      rewrite He. cbn [andb]. apply permitted_spec. tauto.
    - intros i j a b Hij Hi Hj.
      apply (nondecreasing_spec _ H4 i j); [assumption| |]; rewrite nth_error_map; [now rewrite Hi|now rewrite Hj].
    - intros Hl. rewrite Hl in H5. now apply list_eqb_spec.
  Qed.

  Theorem plan_matches_ring p : plan_matches p = true -> P_ring g p.
  Proof.
    unfold Plan.plan_matches. cbv zeta. rewrite !andb_true_iff. intros [[[[_ H2] _] _] _].
    fold all_nodes in *. change (permitted_with all_nodes) with permitted in *.
    rewrite forallb_forall in H2. intros n Hn. specialize (H2 n Hn). apply andb_true_iff in H2.
    destruct H2 as [_ H2]. apply permitted_spec in H2. tauto.
  Qed.

  (* the acceptor refuses nothing that has the property *)
  Theorem plan_matches_complete p :
    P_nodup p -> P_filter enabled p -> P_locality dcf pol rq p -> P_ring g p -> P_complete dcf g enabled pol rq p ->
    P_order dcf rackf g keyspaces enabled connected pol rq p ->
    P_lwt dcf rackf g keyspaces enabled connected pol rq p -> plan_matches p = true.
  Proof.
    intros H1 H2 H3 H4 H5 H6 H7. unfold Plan.plan_matches. cbv zeta. fold all_nodes.
    change (permitted_with all_nodes) with permitted. change (group_with all_nodes local_nodes rep_local rep_any) with group_of.
    rewrite !andb_true_iff. repeat split.
    - now apply nodupb_spec.
    - apply forallb_forall. intros n Hn. rewrite (H2 n Hn). cbn [andb]. apply permitted_spec.
      split; [now apply H4|]. intros d Hd Hf. now apply (H3 d Hd Hf).
    - apply forallb_forall. intros n Hn. apply filter_In in Hn. destruct Hn as [Hin Hok].
      apply andb_true_iff in Hok. destruct Hok as [He Hp]. apply permitted_spec in Hp. apply mem_In.
      apply H5; tauto.
    - apply nondecreasing_of_pairs. intros i j a b Hij Hi Hj. rewrite nth_error_map in Hi, Hj.
      destruct (nth_error p i) as [x|] eqn:Ex; [|discriminate]. destruct (nth_error p j) as [y|] eqn:Ey; [|discriminate].
      cbn in Hi, Hj. injection Hi as <-. injection Hj as <-. now apply (H6 i j).
    - destruct (rq_lwt rq) eqn:El; [|reflexivity]. apply list_eqb_spec. now apply H7.
  Qed.

  Lemma min_group_with_le (grp : N -> nat) l m : In m l -> (min_group_with l grp <= grp m)%nat.
  Proof.
    induction l as [|x r IH]; intros H; [destruct H|]. cbn [min_group_with fold_right].
    fold (min_group_with r grp). destruct H as [->|H]; [lia|]. specialize (IH H). lia.
  Qed.

  Theorem pick_matches_sound n : pick_matches (Some n) = true ->
    (group_of n < 8)%nat /\ (forall m, In m all_nodes -> (group_of n <= group_of m)%nat) /\
    (rq_lwt rq = true -> (group_of n < 3)%nat -> exists r, lwt_sequence = n :: r).
  Proof.
    unfold Plan.pick_matches. cbv zeta. rewrite !andb_true_iff, Nat.eqb_eq, Nat.ltb_lt.
    fold all_nodes. change (group_with all_nodes local_nodes rep_local rep_any) with group_of.
    intros [[H1 H2] H3]. split; [assumption|]. split.
    - intros m Hm. rewrite H1. now apply min_group_with_le.
    - intros Hl Hg. rewrite Hl in H3. apply Nat.ltb_lt in Hg. rewrite Hg in H3. cbn [andb] in H3.
      destruct lwt_sequence as [|x r]; [discriminate|]. apply N.eqb_eq in H3. subst. now exists r.
  Qed.

  (* ============================================================= the model satisfies the acceptor *)
  Definition in_rack (n : N) : bool := match crit_rack with Some c => crit_ok c n | None => false end.
  Definition has_local : bool := match crit_local with Some _ => true | None => false end.
  Definition c0 (n : N) : bool := in_rack n && alive n && mem n rep_local.
  Definition c1 (n : N) : bool := has_local && alive n && mem n rep_local.
  Definition c2 (n : N) : bool := remote_allowed && alive n && mem n rep_any.
  Definition c3 (n : N) : bool := in_rack n && alive n && mem n local_nodes.
  Definition c4 (n : N) : bool := alive n && mem n local_nodes.
  Definition c5 (n : N) : bool := failover_possible && alive n && mem n all_nodes.
  Definition c6 (n : N) : bool := enabled n && mem n local_nodes.
  Definition c7 (n : N) : bool := failover_possible && enabled n && mem n all_nodes.
  Definition conds : list (N -> bool) := [c0; c1; c2; c3; c4; c5; c6; c7].

  Lemma group_of_first_true n : group_of n = first_true conds n.
  Proof.
    unfold Plan.group_of, Plan.group_with, conds, c0, c1, c2, c3, c4, c5, c6, c7, in_rack, has_local. cbv zeta. cbn [first_true].
    repeat match goal with |- context [if ?b then _ else _] => destruct b end; reflexivity.
  Qed.

  Lemma rotate_perm {A} k (l : list A) : Permutation (rotate k l) l.
  Proof. unfold rotate. rewrite Permutation_app_comm. now rewrite firstn_skipn. Qed.

  Section Model.
    Hypothesis Hs : sorted_weak g.
    Hypothesis Hk : forall k s, ks_lookup keyspaces k = Some s -> nts_keys_ok s.
    Variables (cho : nat -> nat -> nat) (shuf : nat -> list N -> list N).
    Hypothesis Hshuf : forall site l, Permutation (shuf site l) l.

    Local Notation maybe_shuffled := (maybe_shuffled dcf rackf g keyspaces enabled connected rq shuf).
    Local Notation round_robin := (round_robin cho).
    Local Notation fallback := (fallback dcf rackf g keyspaces enabled connected shf pol rq cho shuf).

    Lemma token_strategy_keys t s : token_strategy = Some (t, s) -> nts_keys_ok s.
    Proof.
      unfold Plan.token_strategy. destruct (pol_token_aware pol); [|discriminate].
      destruct (rq_token rq); [|discriminate]. destruct (rq_ks rq) as [k|]; [|discriminate].
      destruct (ks_lookup keyspaces k) as [s'|] eqn:E; [|discriminate]. intros [= <- <-]. eauto.
    Qed.

    Lemma ordered_iter_In t s c n : nts_keys_ok s -> In n (reps_ordered t s c) <-> In n (reps_iter t s c).
    Proof.
      intros Hok. unfold Plan.reps_ordered, Plan.reps_iter, rset_for.
      pose proof (ordered_perm dcf rackf g (pre keyspaces) t Hs s (crit_dc c) Hok) as P.
      split; apply Permutation_in; [assumption|now apply Permutation_sym].
    Qed.

    Lemma maybe_shuffled_In site t s c n : nts_keys_ok s ->
      In n (maybe_shuffled site t s c) <-> alive n = true /\ crit_ok c n = true /\ In n (reps_iter t s c).
    Proof.
      intros Hok. unfold Plan.maybe_shuffled.
      assert (G : forall det, In n (filtered_replicas t s c alive det) <->
                              alive n = true /\ crit_ok c n = true /\ In n (reps_iter t s c)).
      { intros det. unfold Plan.filtered_replicas. rewrite filter_In, andb_true_iff.
        destruct det; [rewrite (ordered_iter_In t s c n Hok)|]; tauto. }
      destruct (rq_lwt rq); [apply G|]. rewrite <- G.
      split; apply Permutation_in; [apply Hshuf|apply Permutation_sym, Hshuf].
    Qed.

    Lemma round_robin_In site nodes pred n :
      In n (round_robin site nodes pred) <-> In n nodes /\ pred n = true.
    Proof.
      unfold Plan.round_robin. rewrite filter_In.
      split; intros [H1 H2]; (split; [|assumption]); revert H1; apply Permutation_in;
        [apply rotate_perm|apply Permutation_sym, rotate_perm].
    Qed.

    (* the eight chained groups, as node lists *)
    Definition seg_replicas : list (list N) :=
      match token_strategy with
      | Some (t, s) =>
          [ match crit_rack with Some c => maybe_shuffled 1 t s c | None => [] end;
            match crit_local with Some c => maybe_shuffled 2 t s c | None => [] end;
            if remote_allowed then maybe_shuffled 3 t s CAny else [] ]
      | None => [ []; []; [] ]
      end.
    Definition seg_nodes : list (list N) :=
      [ match crit_rack with
        | Some c => round_robin 4 local_nodes (fun n => alive n && crit_ok c n)
        | None => []
        end;
        round_robin 5 local_nodes alive;
        if failover_possible then round_robin 6 all_nodes alive else [];
        filter enabled local_nodes;
        if failover_possible then filter enabled all_nodes else [] ].

    Lemma crit_rack_local c : crit_rack = Some c ->
      exists d r, c = CRack d r /\ crit_local = Some (CDc d).
    Proof.
      unfold Plan.crit_rack, Plan.crit_local. destruct eff_pref as [|d|d r]; try discriminate.
      intros [= <-]. exists d, r. split; reflexivity.
    Qed.

    Lemma crit_local_dc c : crit_local = Some c -> exists d, c = CDc d.
    Proof.
      unfold Plan.crit_local. destruct (pref_dc eff_pref) as [d|]; [|discriminate]. intros [= <-]. now exists d.
    Qed.

    Lemma segments_spec :
      Forall2 (fun c Sg => forall n, In n Sg <-> c n = true) conds (seg_replicas ++ seg_nodes).
    Proof.
      unfold conds, c0, c1, c2, c3, c4, c5, c6, c7, seg_replicas, seg_nodes, in_rack, has_local.
      assert (Hrl : forall t s c, token_strategy = Some (t, s) -> crit_local = Some c -> rep_local = reps_iter t s c).
      { intros t s c E1 E2. unfold Plan.rep_local. now rewrite E1, E2. }
      assert (Hra : forall t s, token_strategy = Some (t, s) -> rep_any = reps_iter t s CAny).
      { intros t s E1. unfold Plan.rep_any. now rewrite E1. }
      assert (Hrl0 : token_strategy = None -> rep_local = []) by (intros E; unfold Plan.rep_local; now rewrite E).
      assert (Hra0 : token_strategy = None -> rep_any = []) by (intros E; unfold Plan.rep_any; now rewrite E).
      assert (Hrl1 : crit_local = None -> rep_local = []).
      { intros E. unfold Plan.rep_local. rewrite E. now destruct token_strategy as [[? ?]|]. }
      destruct token_strategy as [[t s]|] eqn:Ets; cbn [app].
      - pose proof (token_strategy_keys t s Ets) as Hok.
        repeat (apply Forall2_cons; [intros n; rewrite ?andb_true_iff, ?mem_In|]); try apply Forall2_nil.
        + destruct crit_rack as [c|] eqn:Ec.
          * destruct (crit_rack_local c Ec) as (d & r & -> & El).
            rewrite (maybe_shuffled_In _ _ _ _ _ Hok), (Hrl t s _ eq_refl El). unfold Plan.reps_iter, rset_for. cbn [crit_dc]. tauto.
          * split; [intros []|intros [[C _] _]; discriminate].
        + destruct crit_local as [c|] eqn:Ec.
          * destruct (crit_local_dc c Ec) as (d & ->).
            rewrite (maybe_shuffled_In _ _ _ _ _ Hok), (Hrl t s _ eq_refl eq_refl). cbn [Plan.crit_ok]. tauto.
          * split; [intros []|intros [[C _] _]; discriminate].
        + destruct remote_allowed.
          * rewrite (maybe_shuffled_In _ _ _ _ _ Hok), (Hra t s eq_refl). cbn [Plan.crit_ok]. tauto.
          * split; [intros []|intros [[C _] _]; discriminate].
        + destruct crit_rack as [c|]; [rewrite round_robin_In, andb_true_iff; tauto|split; [intros []|intros [[C _] _]; discriminate]].
        + rewrite round_robin_In. tauto.
        + destruct failover_possible; [rewrite round_robin_In; tauto|split; [intros []|intros [[C _] _]; discriminate]].
        + rewrite filter_In. tauto.
        + destruct failover_possible; [rewrite filter_In; tauto|split; [intros []|intros [[C _] _]; discriminate]].
      - rewrite (Hrl0 eq_refl), (Hra0 eq_refl).
        repeat (apply Forall2_cons; [intros n; rewrite ?andb_true_iff, ?mem_In|]); try apply Forall2_nil.
        + split; [intros []|intros [_ []]].
        + split; [intros []|intros [_ []]].
        + split; [intros []|intros [_ []]].
        + destruct crit_rack as [c|]; [rewrite round_robin_In, andb_true_iff; tauto|split; [intros []|intros [[C _] _]; discriminate]].
        + rewrite round_robin_In. tauto.
        + destruct failover_possible; [rewrite round_robin_In; tauto|split; [intros []|intros [[C _] _]; discriminate]].
        + rewrite filter_In. tauto.
        + destruct failover_possible; [rewrite filter_In; tauto|split; [intros []|intros [[C _] _]; discriminate]].
    Qed.

    Lemma fallback_structure :
      fallback = map (with_shard shf) (uniq (concat seg_replicas)) ++
                 map no_shard (filter (fun n => negb (mem n (concat seg_replicas))) (uniq (concat seg_nodes))).
    Proof.
      unfold Plan.fallback. rewrite <- dedup_chain. f_equal. f_equal.
      - unfold Plan.fb_replicas, seg_replicas. destruct token_strategy as [[t s]|]; [|reflexivity].
        cbn [concat]. rewrite app_nil_r. reflexivity.
      - unfold Plan.fb_nodes, seg_nodes. cbn [concat]. rewrite app_nil_r. reflexivity.
    Qed.

    Lemma fallback_nodes : map fst fallback = uniq (concat (seg_replicas ++ seg_nodes)).
    Proof.
      rewrite fallback_structure, concat_app, map_app, !map_map. cbn [with_shard no_shard fst].
      rewrite !map_id. unfold uniq at 3. rewrite (uniq_by_app N.eqb Neqb_eq). reflexivity.
    Qed.

    (* ---- every group member is enabled and permitted; every enabled permitted node is in the
            last two groups *)
    Lemma all_nodes_In n : In n all_nodes <-> exists e, In e g /\ snd e = n.
    Proof. unfold Plan.all_nodes, unique_nodes. rewrite uniq_In, in_map_iff. split; intros (e & H1 & H2); eauto. Qed.

    Lemma dc_nodes_In d n : In n (unique_nodes (dc_ring dcf g d)) <-> In n all_nodes /\ in_dc dcf d n = true.
    Proof.
      unfold unique_nodes at 1. rewrite uniq_In, in_map_iff. split.
      - intros (e & E & He). apply (dc_ring_In dcf rackf) in He. destruct He as [He Hd]. subst n.
        split; [apply all_nodes_In; exists e; tauto|assumption].
      - intros [Hn Hd]. apply all_nodes_In in Hn. destruct Hn as (e & He & <-). exists e.
        split; [reflexivity|]. apply (dc_ring_In dcf rackf). tauto.
    Qed.

    Lemma local_nodes_ok n : In n local_nodes ->
      In n all_nodes /\ (forall d, restricted_dc = Some d -> in_dc dcf d n = true).
    Proof.
      unfold Plan.local_nodes, Plan.restricted_dc. destruct (pref_dc eff_pref) as [d|].
      - rewrite dc_nodes_In. intros [H1 H2]. split; [assumption|]. intros d'.
        destruct (pol_failover pol); [discriminate|]. now intros [= <-].
      - intros H. split; [assumption|discriminate].
    Qed.

    Lemma failover_unrestricted : failover_possible = true -> restricted_dc = None.
    Proof.
      unfold Plan.failover_possible, Plan.restricted_dc. destruct (pref_dc eff_pref); [|reflexivity].
      now intros ->.
    Qed.

    Lemma remote_unrestricted : remote_allowed = true -> restricted_dc = None.
    Proof.
      unfold Plan.remote_allowed. pose proof failover_unrestricted as H. unfold Plan.restricted_dc in *.
      unfold Plan.failover_possible in *. destruct (pref_dc eff_pref); [|reflexivity]. exact H.
    Qed.

    Lemma reps_iter_ok t s c n : In n (reps_iter t s c) ->
      In n all_nodes /\ (forall d, crit_dc c = Some d -> in_dc dcf d n = true).
    Proof.
      unfold Plan.reps_iter, rset_for. intros H. split.
      - apply (iter_in_walk dcf rackf g (pre keyspaces) t Hs) in H. rewrite uniq_In, ring_range_In in H.
        unfold Plan.all_nodes, unique_nodes. now apply uniq_In.
      - intros d Hd. rewrite Hd, dc_filter in H. apply filter_In in H. tauto.
    Qed.

    Lemma rep_local_ok n : In n rep_local ->
      In n all_nodes /\ (forall d, restricted_dc = Some d -> in_dc dcf d n = true).
    Proof.
      unfold Plan.rep_local. destruct token_strategy as [[t s]|]; [|intros []].
      destruct crit_local as [c|] eqn:Ec; [|intros []]. destruct (crit_local_dc c Ec) as (d & ->).
      intros H. apply reps_iter_ok in H. destruct H as [H1 H2]. split; [assumption|].
      intros d' Hd'. unfold Plan.crit_local in Ec. unfold Plan.restricted_dc in Hd'.
      destruct (pref_dc eff_pref) as [d0|]; [|discriminate]. injection Ec as <-.
      destruct (pol_failover pol); [discriminate|]. injection Hd' as <-. now apply H2.
    Qed.

    Lemma rep_any_ok n : In n rep_any -> In n all_nodes.
    Proof.
      unfold Plan.rep_any. destruct token_strategy as [[t s]|]; [|intros []].
      intros H. now apply reps_iter_ok in H.
    Qed.

    Lemma alive_enabled n : alive n = true -> enabled n = true.
    Proof. unfold Plan.alive. now intros H%andb_true_iff. Qed.

    Lemma cond_ok n : (exists c, In c conds /\ c n = true) -> enabled n = true /\ permitted n = true.
    Proof.
      intros (c & Hc & E). unfold conds in Hc. cbn [In] in Hc.
      assert (Hperm : forall m, In m all_nodes -> (forall d, restricted_dc = Some d -> in_dc dcf d m = true) -> permitted m = true).
      { intros m H1 H2. unfold Plan.permitted, Plan.permitted_with. rewrite andb_true_iff, mem_In. split; [assumption|].
        destruct restricted_dc as [d|]; [now apply H2|reflexivity]. }
      destruct Hc as [<-|[<-|[<-|[<-|[<-|[<-|[<-|[<-|[]]]]]]]]]; unfold c0, c1, c2, c3, c4, c5, c6, c7 in E; rewrite ?andb_true_iff, ?mem_In in E.
      - destruct E as [[_ Ha] Hr]. split; [now apply alive_enabled|]. apply rep_local_ok in Hr. now apply Hperm.
      - destruct E as [[_ Ha] Hr]. split; [now apply alive_enabled|]. apply rep_local_ok in Hr. now apply Hperm.
      - destruct E as [[Hra Ha] Hr]. split; [now apply alive_enabled|]. apply rep_any_ok in Hr.
        apply Hperm; [assumption|]. rewrite (remote_unrestricted Hra). discriminate.
      - destruct E as [[_ Ha] Hr]. split; [now apply alive_enabled|]. apply local_nodes_ok in Hr. now apply Hperm.
      - destruct E as [Ha Hr]. split; [now apply alive_enabled|]. apply local_nodes_ok in Hr. now apply Hperm.
      - destruct E as [[Hf Ha] Hr]. split; [now apply alive_enabled|]. apply Hperm; [assumption|].
        rewrite (failover_unrestricted Hf). discriminate.
      - destruct E as [He Hr]. split; [assumption|]. apply local_nodes_ok in Hr. now apply Hperm.
      - destruct E as [[Hf He] Hr]. split; [assumption|]. apply Hperm; [assumption|].
        rewrite (failover_unrestricted Hf). discriminate.
    Qed.

    Lemma ok_in_last_groups n : enabled n = true -> permitted n = true ->
      In n (filter enabled local_nodes) \/ (failover_possible = true /\ In n (filter enabled all_nodes)).
    Proof.
      intros He Hp. unfold Plan.permitted, Plan.permitted_with in Hp. apply andb_true_iff in Hp.
      destruct Hp as [Hin Hr]. apply mem_In in Hin. rewrite !filter_In.
      unfold Plan.local_nodes, Plan.restricted_dc, Plan.failover_possible in *.
      destruct (pref_dc eff_pref) as [d|]; [|left; tauto].
      destruct (pol_failover pol); [right; tauto|]. left. split; [|assumption]. apply dc_nodes_In. tauto.
    Qed.

    Lemma concat_segs_cond n :
      In n (concat (seg_replicas ++ seg_nodes)) <-> exists c, In c conds /\ c n = true.
    Proof.
      rewrite In_concat_nth. split.
      - intros (k & Sg & Hq & Hn). destruct (segs_In_cond _ _ segments_spec k Sg n Hq Hn) as (c & Hc & E).
        exists c. split; [eapply nth_error_In; eassumption|assumption].
      - intros (c & Hc & E). apply In_nth_error in Hc. destruct Hc as (k & Hq).
        destruct (segs_nth_In _ _ segments_spec k c n Hq E) as (Sg & HS & Hn). eauto.
    Qed.

    Lemma lwt_sequence_segs : rq_lwt rq = true -> lwt_sequence = uniq (concat seg_replicas).
    Proof.
      intros Hl. unfold Plan.lwt_sequence, seg_replicas, Plan.maybe_shuffled. rewrite Hl.
      destruct token_strategy as [[t s]|]; [|reflexivity]. cbn [concat]. now rewrite app_nil_r.
    Qed.

    Lemma seg_replicas_length : List.length seg_replicas = 3%nat.
    Proof. unfold seg_replicas. now destruct token_strategy as [[? ?]|]. Qed.

    Lemma replica_group_iff n : In n (concat (seg_replicas ++ seg_nodes)) ->
      ((group_of n < 3)%nat <-> In n (concat seg_replicas)).
    Proof.
      intros Hin. rewrite group_of_first_true. split.
      - intros Hlt. destruct (first_true_true conds n) as (c & Hc & E); [unfold conds at 2; cbn [List.length]; lia|].
        destruct (segs_nth_In _ _ segments_spec _ c n Hc E) as (Sg & HS & Hn).
        apply In_concat_nth. exists (first_true conds n), Sg. split; [|assumption].
        rewrite nth_error_app1 in HS by (rewrite seg_replicas_length; assumption). assumption.
      - intros H. apply In_concat_nth in H. destruct H as (k & Sg & Hq & Hn).
        assert (Hq3 : (k < 3)%nat) by (rewrite <- seg_replicas_length; apply nth_error_Some; congruence).
        assert (Hq' : nth_error (seg_replicas ++ seg_nodes) k = Some Sg) by (rewrite nth_error_app1; [assumption|rewrite seg_replicas_length; assumption]).
        destruct (segs_In_cond _ _ segments_spec k Sg n Hq' Hn) as (c & Hc & E).
        pose proof (first_true_nth conds n k c Hc E). lia.
    Qed.

    (* plans made of the nodes of a duplicate-free list sorted by group that has exactly the
       members of the chain and whose replica part is the chained replica part *)
    Lemma fallback_matches : plan_matches (map fst fallback) = true.
    Proof.
      rewrite fallback_nodes. set (F := uniq (concat (seg_replicas ++ seg_nodes))).
      assert (HF : forall n, In n F <-> exists c, In c conds /\ c n = true).
      { intros n. unfold F. rewrite uniq_In. apply concat_segs_cond. }
      unfold Plan.plan_matches. cbv zeta. fold all_nodes. change (permitted_with all_nodes) with permitted.
      change (group_with all_nodes local_nodes rep_local rep_any) with group_of.
      rewrite !andb_true_iff. repeat split.
      - apply nodupb_spec, uniq_NoDup.
      - apply forallb_forall. intros n Hn. apply HF, cond_ok in Hn. destruct Hn as [-> ->]. reflexivity.
      - apply forallb_forall. intros n Hn. apply filter_In in Hn. destruct Hn as [_ Hn].
        apply andb_true_iff in Hn. destruct Hn as [He Hp]. apply mem_In, HF.
        destruct (ok_in_last_groups n He Hp) as [H|[Hf H]]; apply filter_In in H; destruct H as [H1 H2].
        + exists c6. split; [unfold conds; cbn; tauto|]. unfold c6.
          rewrite H2. cbn. now apply mem_In.
        + exists c7. split; [unfold conds; cbn; tauto|]. unfold c7.
          rewrite Hf, H2. cbn. now apply mem_In.
      - rewrite (map_ext _ _ group_of_first_true). apply uniq_concat_sorted, segments_spec.
      - destruct (rq_lwt rq) eqn:Hl; [|reflexivity]. apply list_eqb_spec. rewrite (lwt_sequence_segs Hl).
        unfold F. rewrite concat_app. unfold uniq at 1. rewrite (uniq_by_app N.eqb Neqb_eq), filter_app.
        fold (uniq (concat seg_replicas)). fold (uniq (concat seg_nodes)).
        rewrite (filter_id_all _ (uniq (concat seg_replicas))), (filter_nil_all _ (filter _ (uniq (concat seg_nodes)))).
        + now rewrite app_nil_r.
        + intros n Hn. apply filter_In in Hn. destruct Hn as [Hn Hm].
          apply negb_true_iff, (mem_by_false N.eqb Neqb_eq) in Hm. apply Nat.ltb_ge.
          destruct (Nat.lt_ge_cases (group_of n) 3) as [Hlt|]; [|assumption]. exfalso. apply Hm.
          apply replica_group_iff; [|assumption]. rewrite concat_app. apply in_or_app. right. rewrite uniq_In in Hn. exact Hn.
        + intros n Hn. apply Nat.ltb_lt. rewrite uniq_In in Hn. apply replica_group_iff; [|assumption].
          rewrite concat_app. apply in_or_app. now left.
    Qed.

    Theorem fallback_properties :
      let p := map fst fallback in
      P_nodup p /\ P_filter enabled p /\ P_locality dcf pol rq p /\ P_complete dcf g enabled pol rq p /\
      P_order dcf rackf g keyspaces enabled connected pol rq p /\
      P_lwt dcf rackf g keyspaces enabled connected pol rq p.
    Proof. apply plan_matches_sound, fallback_matches. Qed.

    (* no two elements of the fallback plan are equal under the target comparator *)
    Lemma cmp_same_node x y : target_cmp x y = true -> fst x = fst y.
    Proof. unfold target_cmp. intros H. apply andb_true_iff in H. now apply N.eqb_eq. Qed.

    Theorem fallback_targets_distinct :
      ForallOrdPairs (fun x y => target_cmp x y = false) fallback.
    Proof.
      assert (Hn : NoDup (map fst fallback)) by (rewrite fallback_nodes; apply uniq_NoDup).
      induction fallback as [|x r IH]; [constructor|]. cbn [map] in Hn. inversion Hn as [|? ? Hx Hr]; subst.
      constructor; [|auto]. apply Forall_forall. intros y Hy.
      destruct (target_cmp x y) eqn:E; [|reflexivity]. exfalso. apply Hx.
      apply cmp_same_node in E. rewrite E. now apply in_map.
    Qed.

    (* without a location preference the LWT sequence is literally the ring order: the alive
       replicas in the order of their first position on the ring walk from the token *)
    Theorem lwt_sequence_ring_order t s : eff_pref = PAny -> token_strategy = Some (t, s) ->
      lwt_sequence = filter (fun n => alive n && mem n (reps_iter t s CAny)) (uniq (ring_range g t)).
    Proof.
      intros Hp Ets. pose proof (token_strategy_keys t s Ets) as Hok.
      unfold Plan.lwt_sequence, Plan.crit_rack, Plan.crit_local, Plan.remote_allowed. rewrite Ets, Hp. cbn [pref_dc app].
      unfold Plan.filtered_replicas, Plan.reps_ordered, Plan.reps_iter, rset_for. cbn [crit_dc].
      rewrite (ordered_view dcf rackf g (pre keyspaces) t Hs s None Hok). cbn [fst].
      rewrite filter_filter_and. unfold uniq at 1. rewrite (uniq_by_NoDup_id N.eqb Neqb_eq).
      - apply filter_ext. intros n. cbn [Plan.crit_ok]. rewrite andb_true_r. apply andb_comm.
      - apply NoDup_filter, uniq_NoDup.
    Qed.

    (* ============================================================= pick() *)
    Hypothesis Hcho : forall site len, (0 < len)%nat -> (cho site len < len)%nat.

    Local Notation pick := (pick dcf rackf g keyspaces enabled connected shf pol rq cho).
    Local Notation plan := (plan dcf rackf g keyspaces enabled connected shf pol rq cho shuf).
    Local Notation pick_replica := (pick_replica dcf rackf g keyspaces enabled connected rq cho).
    Local Notation pick_node := (pick_node cho).

    Lemma nth_error_cho {A} (l : list A) site : l <> [] -> exists x, nth_error l (cho site (List.length l)) = Some x.
    Proof.
      intros Hne. destruct (nth_error l (cho site (List.length l))) as [x|] eqn:E; [now exists x|].
      apply nth_error_None in E. destruct l as [|y r]; [congruence|].
      specialize (Hcho site (List.length (y :: r))). cbn [List.length] in *. lia.
    Qed.

    Lemma pick_node_spec site nodes pred :
      match pick_node site nodes pred with
      | Some n => In n nodes /\ pred n = true
      | None => forall n, In n nodes -> pred n = false
      end.
    Proof.
      unfold Plan.pick_node. destruct (find pred (rotate (cho site (List.length nodes)) nodes)) as [n|] eqn:E.
      - apply find_some in E. destruct E as [E1 E2]. split; [|assumption].
        revert E1. apply Permutation_in, rotate_perm.
      - intros n Hn. apply (find_none _ _ E). revert Hn. apply Permutation_in, Permutation_sym, rotate_perm.
    Qed.

    Lemma pick_replica_spec site t s c : nts_keys_ok s ->
      match pick_replica site t s c with
      | Some (Computed n) =>
          alive n = true /\ crit_ok c n = true /\ In n (reps_iter t s c) /\
          (rq_lwt rq = true -> exists r, filtered_replicas t s c alive true = n :: r)
      | Some ToBeComputedInFallback =>
          rq_lwt rq = true /\ c = CAny /\
          exists primary r, reps_ordered t s CAny = primary :: r /\ alive primary = false
      | None => forall n, In n (reps_iter t s c) -> alive n && crit_ok c n = false
      end.
    Proof.
      intros Hok. unfold Plan.pick_replica. destruct (rq_lwt rq) eqn:Hl.
      - assert (Hdet : match filtered_replicas t s c alive true with
                       | [] => forall n, In n (reps_iter t s c) -> alive n && crit_ok c n = false
                       | n :: r => alive n = true /\ crit_ok c n = true /\ In n (reps_iter t s c)
                       end).
        { destruct (filtered_replicas t s c alive true) as [|n r] eqn:Ef.
          - intros n Hn. destruct (alive n && crit_ok c n) eqn:E; [|reflexivity]. exfalso.
            assert (Hin : In n (filtered_replicas t s c alive true)).
            { unfold Plan.filtered_replicas. apply filter_In. split; [now apply ordered_iter_In|assumption]. }
            rewrite Ef in Hin. destruct Hin.
          - assert (Hin : In n (filtered_replicas t s c alive true)) by (rewrite Ef; now left).
            unfold Plan.filtered_replicas in Hin. apply filter_In in Hin. destruct Hin as [H1 H2].
            apply andb_true_iff in H2. rewrite (ordered_iter_In t s c n Hok) in H1. tauto. }
        destruct c as [|d|d r0].
        + destruct (reps_ordered t s CAny) as [|primary r] eqn:Eo.
          * intros n Hn. apply (ordered_iter_In t s CAny n Hok) in Hn. rewrite Eo in Hn. destruct Hn.
          * destruct (alive primary) eqn:Ea.
            -- split; [assumption|]. split; [reflexivity|]. split.
               ++ apply (ordered_iter_In t s CAny primary Hok). rewrite Eo. now left.
               ++ intros _. unfold Plan.filtered_replicas. rewrite Eo. cbn [filter Plan.crit_ok].
                  rewrite Ea. cbn [andb]. eexists. reflexivity.
            -- split; [reflexivity|]. split; [reflexivity|]. exists primary, r. split; [reflexivity|assumption].
        + destruct (filtered_replicas t s (CDc d) alive true) as [|n r]; [exact Hdet|].
          destruct Hdet as (H1 & H2 & H3). repeat split; try assumption. intros _. eexists. reflexivity.
        + destruct (filtered_replicas t s (CRack d r0) alive true) as [|n r]; [exact Hdet|].
          destruct Hdet as (H1 & H2 & H3). repeat split; try assumption. intros _. eexists. reflexivity.
      - set (it := reps_iter t s c).
        destruct (nth_error it (cho site (List.length it))) as [happy|] eqn:Eh.
        + destruct (alive happy && crit_ok c happy) eqn:Ep.
          * apply andb_true_iff in Ep. destruct Ep as [E1 E2]. repeat split; try assumption.
            -- eapply nth_error_In; eassumption.
            -- discriminate.
          * set (f := filter (fun n => alive n && crit_ok c n) it).
            destruct (nth_error f (cho (site + 10) (List.length f))) as [n|] eqn:Ef; cbn [option_map].
            -- apply nth_error_In in Ef. unfold f in Ef. apply filter_In in Ef. destruct Ef as [F1 F2].
               apply andb_true_iff in F2. destruct F2 as [F2 F3]. repeat split; try assumption. discriminate.
            -- intros n Hn. destruct (alive n && crit_ok c n) eqn:E; [|reflexivity]. exfalso.
               assert (Hne : f <> []).
               { intros C. assert (Hin : In n f) by (unfold f; apply filter_In; tauto). rewrite C in Hin. destruct Hin. }
               destruct (nth_error_cho f (site + 10) Hne) as (x & Hx). congruence.
        + intros n Hn. exfalso. assert (Hne : it <> []) by (intros C; rewrite C in Hn; destruct Hn).
          destruct (nth_error_cho it site Hne) as (x & Hx). congruence.
    Qed.

    Definition none_below (k : nat) : Prop :=
      forall j c, (j < k)%nat -> nth_error conds j = Some c -> forall n, c n = false.

    Lemma none_below_0 : none_below 0.
    Proof. intros j c Hj. lia. Qed.

    Lemma none_below_S k c : nth_error conds k = Some c -> none_below k -> (forall n, c n = false) -> none_below (S k).
    Proof.
      intros Hc Hb Hn j c' Hj Hc' n. destruct (Nat.eq_dec j k) as [->|Hne].
      - rewrite Hc in Hc'. injection Hc' as <-. apply Hn.
      - apply (Hb j c'); [lia|assumption].
    Qed.

    Lemma none_below_group k n : (k <= 8)%nat -> none_below k -> (k <= group_of n)%nat.
    Proof.
      intros Hk8 Hb. rewrite group_of_first_true.
      destruct (Nat.lt_ge_cases (first_true conds n) k) as [Hlt|]; [|assumption]. exfalso.
      assert (Hlen : (first_true conds n < List.length conds)%nat) by (unfold conds at 2; cbn [List.length]; lia).
      destruct (first_true_true conds n Hlen) as (c & Hc & E). rewrite (Hb _ c Hlt Hc n) in E. discriminate.
    Qed.

    Lemma and_mem_false (pred : N -> bool) nodes :
      (forall n, In n nodes -> pred n = false) -> forall n, pred n && mem n nodes = false.
    Proof.
      intros H n. destruct (mem n nodes) eqn:E; [|apply andb_false_r].
      apply mem_In in E. rewrite (H n E). reflexivity.
    Qed.

    Lemma in_rack_some c n : crit_rack = Some c -> in_rack n = crit_ok c n.
    Proof. intros E. unfold in_rack. now rewrite E. Qed.
    Lemma in_rack_none n : crit_rack = None -> in_rack n = false.
    Proof. intros E. unfold in_rack. now rewrite E. Qed.

    (* the token-unaware attempts *)
    Lemma nodes_part_spec : none_below 3 ->
      match pick_nodes_part dcf rackf g enabled connected pol rq cho with
      | Some (p, sh) => exists k c, nth_error conds k = Some c /\ c p = true /\ none_below k /\
                                    sh = None /\ (3 <= k)%nat
      | None => none_below 8
      end.
    Proof.
      intros H3. unfold Plan.pick_nodes_part, Plan.node_steps. cbn [first_node].
      (* attempt 3: local rack *)
      assert (S3 : (exists p, match crit_rack with
                              | Some c => pick_node 24 local_nodes (fun n => alive n && crit_ok c n)
                              | None => None end = Some p /\ c3 p = true) \/
                   (match crit_rack with
                    | Some c => pick_node 24 local_nodes (fun n => alive n && crit_ok c n)
                    | None => None end = None /\ forall n, c3 n = false)).
      { destruct crit_rack as [c|] eqn:Ec.
        - pose proof (pick_node_spec 24 local_nodes (fun n => alive n && crit_ok c n)) as Hs3.
          destruct (pick_node 24 local_nodes (fun n => alive n && crit_ok c n)) as [p|].
          + left. exists p. split; [reflexivity|]. destruct Hs3 as [Hin Hp]. unfold c3.
            rewrite (in_rack_some c p Ec). apply mem_In in Hin. rewrite Hin.
            apply andb_true_iff in Hp. destruct Hp as [-> ->]. reflexivity.
          + right. split; [reflexivity|]. intros n. unfold c3. rewrite (in_rack_some c n Ec).
            rewrite (andb_comm (crit_ok c n)). exact (and_mem_false (fun n => alive n && crit_ok c n) local_nodes Hs3 n).
        - right. split; [reflexivity|]. intros n. unfold c3. now rewrite (in_rack_none n Ec). }
      destruct S3 as [(p & -> & Hp)|[-> N3]].
      { exists 3%nat, c3. repeat split; try assumption; try reflexivity; try lia. }
      pose proof (none_below_S 3 c3 eq_refl H3 N3) as H4.
      (* attempt 4: local *)
      pose proof (pick_node_spec 25 local_nodes alive) as Hs4.
      destruct (pick_node 25 local_nodes alive) as [p|].
      { destruct Hs4 as [Hin Hp]. exists 4%nat, c4.
        assert (c4 p = true) by (unfold c4; apply mem_In in Hin; now rewrite Hp, Hin).
        repeat split; try assumption; try reflexivity; try lia. }
      assert (N4 : forall n, c4 n = false) by (intros n; unfold c4; now apply and_mem_false).
      pose proof (none_below_S 4 c4 eq_refl H4 N4) as H5.
      (* attempt 5: anywhere, if failover is possible *)
      assert (S5 : (exists p, (if failover_possible then pick_node 26 all_nodes alive else None) = Some p /\ c5 p = true) \/
                   ((if failover_possible then pick_node 26 all_nodes alive else None) = None /\ forall n, c5 n = false)).
      { destruct failover_possible eqn:Ef.
        - pose proof (pick_node_spec 26 all_nodes alive) as Hs5.
          destruct (pick_node 26 all_nodes alive) as [p|].
          + left. exists p. split; [reflexivity|]. destruct Hs5 as [Hin Hp]. unfold c5.
            apply mem_In in Hin. now rewrite Ef, Hp, Hin.
          + right. split; [reflexivity|]. intros n. unfold c5. rewrite Ef. cbn [andb]. now apply and_mem_false.
        - right. split; [reflexivity|]. intros n. unfold c5. now rewrite Ef. }
      destruct S5 as [(p & -> & Hp)|[-> N5]].
      { exists 5%nat, c5. repeat split; try assumption; try reflexivity; try lia. }
      pose proof (none_below_S 5 c5 eq_refl H5 N5) as H6.
      (* attempt 6: enabled local *)
      pose proof (pick_node_spec 27 local_nodes enabled) as Hs6.
      destruct (pick_node 27 local_nodes enabled) as [p|].
      { destruct Hs6 as [Hin Hp]. exists 6%nat, c6.
        assert (c6 p = true) by (unfold c6; apply mem_In in Hin; now rewrite Hp, Hin).
        repeat split; try assumption; try reflexivity; try lia. }
      assert (N6 : forall n, c6 n = false) by (intros n; unfold c6; now apply and_mem_false).
      pose proof (none_below_S 6 c6 eq_refl H6 N6) as H7.
      (* attempt 7: enabled anywhere *)
      destruct failover_possible eqn:Ef.
      - pose proof (pick_node_spec 28 all_nodes enabled) as Hs7.
        destruct (pick_node 28 all_nodes enabled) as [p|].
        + destruct Hs7 as [Hin Hp]. exists 7%nat, c7.
          assert (c7 p = true) by (unfold c7; apply mem_In in Hin; now rewrite Ef, Hp, Hin).
          repeat split; try assumption; try reflexivity; try lia.
        + apply (none_below_S 7 c7 eq_refl H7). intros n. unfold c7. rewrite Ef. cbn [andb]. now apply and_mem_false.
      - apply (none_below_S 7 c7 eq_refl H7). intros n. unfold c7. now rewrite Ef.
    Qed.

    (* the token-aware attempts *)
    Lemma filtered_det_In t s c m : nts_keys_ok s -> In m (filtered_replicas t s c alive true) ->
      alive m && crit_ok c m && mem m (reps_iter t s c) = true.
    Proof.
      intros Hok H. unfold Plan.filtered_replicas in H. apply filter_In in H. destruct H as [H1 H2].
      rewrite H2. cbn [andb]. apply mem_In. now apply (ordered_iter_In t s c m Hok).
    Qed.

    Lemma replica_step_spec site t s c (ck : N -> bool) : nts_keys_ok s ->
      (forall n, ck n = alive n && crit_ok c n && mem n (reps_iter t s c)) ->
      match pick_replica site t s c with
      | Some (Computed n) => ck n = true /\ (rq_lwt rq = true -> exists r, filtered_replicas t s c alive true = n :: r)
      | Some ToBeComputedInFallback =>
          rq_lwt rq = true /\ c = CAny /\ exists primary r, reps_ordered t s CAny = primary :: r /\ alive primary = false
      | None => (forall n, ck n = false) /\ filtered_replicas t s c alive true = []
      end.
    Proof.
      intros Hok Heq. pose proof (pick_replica_spec site t s c Hok) as H.
      destruct (pick_replica site t s c) as [[n|]|].
      - destruct H as (H1 & H2 & H3 & H4). split; [|assumption]. rewrite Heq, H1, H2. cbn. now apply mem_In.
      - assumption.
      - assert (Hn : forall n, ck n = false).
        { intros n. rewrite Heq. exact (and_mem_false (fun n => alive n && crit_ok c n) _ H n). }
        split; [assumption|]. destruct (filtered_replicas t s c alive true) as [|m r] eqn:E; [reflexivity|].
        assert (Hm : In m (filtered_replicas t s c alive true)) by (rewrite E; now left).
        apply (filtered_det_In t s c m Hok) in Hm. rewrite <- Heq, Hn in Hm. discriminate.
    Qed.

    Lemma c0_eq t s c n : token_strategy = Some (t, s) -> crit_rack = Some c ->
      c0 n = alive n && crit_ok c n && mem n (reps_iter t s c).
    Proof.
      intros Ets Ec. destruct (crit_rack_local c Ec) as (d & r & -> & El).
      unfold c0. rewrite (in_rack_some _ n Ec). unfold Plan.rep_local. rewrite Ets, El.
      rewrite (andb_comm (crit_ok (CRack d r) n)). reflexivity.
    Qed.
    Lemma c1_eq t s c n : token_strategy = Some (t, s) -> crit_local = Some c ->
      c1 n = alive n && crit_ok c n && mem n (reps_iter t s c).
    Proof.
      intros Ets Ec. destruct (crit_local_dc c Ec) as (d & ->).
      unfold c1, has_local. unfold Plan.rep_local. rewrite Ets, Ec. cbn [Plan.crit_ok andb].
      now rewrite andb_true_r.
    Qed.
    Lemma c2_eq t s n : token_strategy = Some (t, s) -> remote_allowed = true ->
      c2 n = alive n && crit_ok CAny n && mem n (reps_iter t s CAny).
    Proof.
      intros Ets Er. unfold c2. unfold Plan.rep_any. rewrite Ets, Er. cbn [Plan.crit_ok andb].
      now rewrite andb_true_r.
    Qed.

    Lemma uniq_cons_app n (r X : list N) : exists q, uniq ((n :: r) ++ X) = n :: q.
    Proof. unfold uniq, uniq_by. cbn [app uniq_aux mem_by existsb]. eexists. reflexivity. Qed.

    Definition pick_result_ok (o : option target) : Prop :=
      match o with
      | Some (p, sh) =>
          exists k c, nth_error conds k = Some c /\ c p = true /\ none_below k /\
                      sh = (if (k <? 3)%nat then Some (shf p) else None) /\
                      (rq_lwt rq = true -> (k < 3)%nat -> exists r, lwt_sequence = p :: r)
      | None =>
          none_below 8 \/
          (rq_lwt rq = true /\ remote_allowed = true /\ none_below 2 /\
           exists t s primary r, token_strategy = Some (t, s) /\ reps_ordered t s CAny = primary :: r /\
                                 alive primary = false)
      end.

    Lemma nodes_part_result : none_below 3 ->
      pick_result_ok (pick_nodes_part dcf rackf g enabled connected pol rq cho).
    Proof.
      intros H3. pose proof (nodes_part_spec H3) as H.
      destruct (pick_nodes_part dcf rackf g enabled connected pol rq cho) as [[p sh]|]; [|now left].
      destruct H as (k & c & Hc & Hp & Hb & -> & Hk3). exists k, c. repeat split; try assumption.
      - assert (E : (k <? 3)%nat = false) by (apply Nat.ltb_ge; assumption). now rewrite E.
      - intros _ Hlt. lia.
    Qed.

    Theorem pick_spec : pick_result_ok pick.
    Proof.
      unfold Plan.pick. destruct token_strategy as [[t s]|] eqn:Ets.
      2:{ (* no token / keyspace / token-awareness: no replica group exists *)
          apply nodes_part_result.
          assert (Hrl : rep_local = []) by (unfold Plan.rep_local; now rewrite Ets).
          assert (Hra : rep_any = []) by (unfold Plan.rep_any; now rewrite Ets).
          apply (none_below_S 2 c2 eq_refl); [apply (none_below_S 1 c1 eq_refl); [apply (none_below_S 0 c0 eq_refl); [apply none_below_0|]|]|];
            intros n; unfold c0, c1, c2; rewrite ?Hrl, ?Hra; apply andb_false_r. }
      pose proof (token_strategy_keys t s Ets) as Hok.
      unfold Plan.replica_steps. cbn [first_picked].
      assert (Hseq : lwt_sequence =
                uniq ((match crit_rack with Some c => filtered_replicas t s c alive true | None => [] end) ++
                      (match crit_local with Some c => filtered_replicas t s c alive true | None => [] end) ++
                      (if remote_allowed then filtered_replicas t s CAny alive true else []))).
      { unfold Plan.lwt_sequence. now rewrite Ets. }
      (* attempt 0: local rack *)
      assert (S0 : (exists n, match crit_rack with Some c => pick_replica 21 t s c | None => None end = Some (Computed n) /\
                              c0 n = true /\ (rq_lwt rq = true -> exists r, lwt_sequence = n :: r)) \/
                   (match crit_rack with Some c => pick_replica 21 t s c | None => None end = None /\
                    (forall n, c0 n = false) /\
                    match crit_rack with Some c => filtered_replicas t s c alive true | None => [] end = [])).
      { destruct crit_rack as [c|] eqn:Ec.
        - pose proof (replica_step_spec 21 t s c c0 Hok (fun n => c0_eq t s c n Ets Ec)) as H.
          destruct (pick_replica 21 t s c) as [[n|]|].
          + left. exists n. split; [reflexivity|]. destruct H as [H1 H2]. split; [assumption|].
            intros Hl. destruct (H2 Hl) as (r & Er). rewrite Hseq, Er. apply uniq_cons_app.
          + exfalso. destruct H as (_ & Hc & _). destruct (crit_rack_local c Ec) as (d & r & -> & _). discriminate.
          + right. destruct H as [H1 H2]. split; [reflexivity|]. split; assumption.
        - right. split; [reflexivity|]. split; [|reflexivity]. intros n. unfold c0. now rewrite (in_rack_none n Ec). }
      destruct S0 as [(n & -> & Hn & Hl)|(-> & N0 & D0)].
      { exists 0%nat, c0. split; [reflexivity|]. split; [assumption|]. split; [apply none_below_0|].
        split; [reflexivity|]. intros Hl' _. now apply Hl. }
      pose proof (none_below_S 0 c0 eq_refl none_below_0 N0) as H1. rewrite D0 in Hseq. cbn [app] in Hseq.
      (* attempt 1: local datacenter *)
      assert (S1 : (exists n, match crit_local with Some c => pick_replica 22 t s c | None => None end = Some (Computed n) /\
                              c1 n = true /\ (rq_lwt rq = true -> exists r, lwt_sequence = n :: r)) \/
                   (match crit_local with Some c => pick_replica 22 t s c | None => None end = None /\
                    (forall n, c1 n = false) /\
                    match crit_local with Some c => filtered_replicas t s c alive true | None => [] end = [])).
      { destruct crit_local as [c|] eqn:Ec.
        - pose proof (replica_step_spec 22 t s c c1 Hok (fun n => c1_eq t s c n Ets Ec)) as H.
          destruct (pick_replica 22 t s c) as [[n|]|].
          + left. exists n. split; [reflexivity|]. destruct H as [Hc1 H2]. split; [assumption|].
            intros Hl. destruct (H2 Hl) as (r & Er). rewrite Hseq, Er. apply uniq_cons_app.
          + exfalso. destruct H as (_ & Hc & _). destruct (crit_local_dc c Ec) as (d & ->). discriminate.
          + right. destruct H as [Hc1 H2]. split; [reflexivity|]. split; assumption.
        - right. split; [reflexivity|]. split; [|reflexivity]. intros n. unfold c1, has_local. now rewrite Ec. }
      destruct S1 as [(n & -> & Hn & Hl)|(-> & N1 & D1)].
      { exists 1%nat, c1. split; [reflexivity|]. split; [assumption|]. split; [assumption|].
        split; [reflexivity|]. intros Hl' _. now apply Hl. }
      pose proof (none_below_S 1 c1 eq_refl H1 N1) as H2. rewrite D1 in Hseq. cbn [app] in Hseq.
      (* attempt 2: any datacenter *)
      destruct remote_allowed eqn:Er.
      - pose proof (replica_step_spec 23 t s CAny c2 Hok (fun n => c2_eq t s n Ets Er)) as H.
        destruct (pick_replica 23 t s CAny) as [[n|]|].
        + destruct H as [Hc2 Hl2]. exists 2%nat, c2. repeat split; try assumption; try reflexivity.
          intros Hl _. destruct (Hl2 Hl) as (r & Er2). rewrite Hseq, Er2.
          rewrite <- (app_nil_r (n :: r)). apply uniq_cons_app.
        + right. destruct H as (Hl & _ & primary & r & Eo & Ea). repeat split; try assumption.
          exists t, s, primary, r. repeat split; assumption.
        + destruct H as [N2 _]. apply nodes_part_result. exact (none_below_S 2 c2 eq_refl H2 N2).
      - apply nodes_part_result. apply (none_below_S 2 c2 eq_refl H2). intros n. unfold c2. now rewrite Er.
    Qed.

    (* ---- pick() is accepted *)
    Lemma min_group_with_ge (grp : N -> nat) l k : (k <= 8)%nat -> (forall m, In m l -> (k <= grp m)%nat) ->
      (k <= min_group_with l grp)%nat.
    Proof.
      intros Hk8. induction l as [|x r IH]; intros H; cbn [min_group_with fold_right]; [assumption|].
      fold (min_group_with r grp). specialize (IH (fun m Hm => H m (or_intror Hm))).
      specialize (H x (or_introl eq_refl)). lia.
    Qed.
    Lemma min_group_with_le8 (grp : N -> nat) l : (min_group_with l grp <= 8)%nat.
    Proof. induction l as [|x r IH]; cbn [min_group_with fold_right]; [lia|]. fold (min_group_with r grp). lia. Qed.

    Lemma group_of_exact k c p : nth_error conds k = Some c -> c p = true -> none_below k ->
      group_of p = k /\ In p all_nodes /\ (k < 8)%nat /\ min_group_with all_nodes group_of = k.
    Proof.
      intros Hc Hp Hb. assert (Hk8 : (k < 8)%nat) by (apply nth_error_Some_lt in Hc; exact Hc).
      assert (Hg : group_of p = k).
      { apply Nat.le_antisymm; [rewrite group_of_first_true; eapply first_true_nth; eassumption|].
        apply none_below_group; [lia|assumption]. }
      assert (Hin : In p all_nodes).
      { destruct (cond_ok p) as [_ Hperm]; [exists c; split; [eapply nth_error_In; eassumption|assumption]|].
        apply permitted_spec in Hperm. tauto. }
      repeat split; try assumption. apply Nat.le_antisymm.
      - rewrite <- Hg. now apply min_group_with_le.
      - apply min_group_with_ge; [lia|]. intros m _. apply none_below_group; [lia|assumption].
    Qed.

    Theorem pick_matches_model : pick_matches (option_map fst pick) = true.
    Proof.
      pose proof pick_spec as H. unfold pick_result_ok in H. unfold Plan.pick_matches. cbv zeta.
      fold all_nodes. change (group_with all_nodes local_nodes rep_local rep_any) with group_of.
      destruct pick as [[p sh]|]; cbn [option_map fst].
      - destruct H as (k & c & Hc & Hp & Hb & _ & Hl).
        destruct (group_of_exact k c p Hc Hp Hb) as (Hg & Hin & Hk8 & Hmin).
        rewrite Hmin, Hg, Nat.eqb_refl. assert (E8 : (k <? 8)%nat = true) by now apply Nat.ltb_lt.
        rewrite E8. cbn [andb]. destruct (rq_lwt rq) eqn:El; [|reflexivity]. cbn [andb].
        destruct (k <? 3)%nat eqn:E3; [|reflexivity]. apply Nat.ltb_lt in E3.
        destruct (Hl eq_refl E3) as (r & ->). apply N.eqb_refl.
      - destruct H as [H8|(Hl & Hr & H2 & t & s & primary & r & Ets & Eo & Ea)].
        + assert (E : min_group_with all_nodes group_of = 8%nat).
          { apply Nat.le_antisymm; [apply min_group_with_le8|]. apply min_group_with_ge; [lia|].
            intros m _. now apply none_below_group. }
          now rewrite E.
        + rewrite Hl, Hr, Ets, Eo, Ea. cbn [andb negb].
          assert (E : (2 <=? min_group_with all_nodes group_of)%nat = true).
          { apply Nat.leb_le. apply min_group_with_ge; [lia|]. intros m _. apply none_below_group; [lia|assumption]. }
          rewrite E. apply orb_true_r.
    Qed.

    (* ---- moving an accepted pick to the front of an accepted plan keeps it accepted *)
    Lemma remove_by_filter x l : remove_by N.eqb x l = filter (fun y => negb (N.eqb x y)) l.
    Proof. induction l as [|y r IH]; [reflexivity|]. cbn [remove_by filter]. destruct (N.eqb x y); cbn [negb]; now rewrite IH. Qed.

    Lemma grp_lt8_ok n : (group_of n < 8)%nat -> enabled n = true /\ permitted n = true.
    Proof.
      intros H. apply cond_ok. rewrite group_of_first_true in H.
      apply (first_true_lt conds n). unfold conds at 2. cbn [List.length]. exact H.
    Qed.

    Lemma plan_front F p : plan_matches F = true -> pick_matches (Some p) = true ->
      plan_matches (p :: remove_by N.eqb p F) = true.
    Proof.
      intros HF Hp. pose proof (pick_matches_sound p Hp) as (Hp8 & Hpmin & Hplwt).
      pose proof (plan_matches_sound F HF) as (F1 & F2 & F3 & F4 & F5 & F6).
      destruct (grp_lt8_ok p Hp8) as [Hpe Hpp].
      unfold Plan.plan_matches in *. cbv zeta in *. fold all_nodes in *.
      change (permitted_with all_nodes) with permitted in *.
      change (group_with all_nodes local_nodes rep_local rep_any) with group_of in *.
      rewrite !andb_true_iff in HF. destruct HF as [[[[G1 G2] G3] G4] G5].
      rewrite forallb_forall in G2, G3.
      assert (HinF : forall n, In n F -> In n all_nodes).
      { intros n Hn. specialize (G2 n Hn). apply andb_true_iff in G2. destruct G2 as [_ G2].
        apply permitted_spec in G2. tauto. }
      rewrite !andb_true_iff. repeat split.
      - apply nodupb_spec. constructor.
        + rewrite (remove_by_In N.eqb Neqb_eq). tauto.
        + apply (remove_by_NoDup N.eqb Neqb_eq), F1.
      - apply forallb_forall. intros n [<-|Hn]; [now rewrite Hpe, Hpp|].
        apply (remove_by_In N.eqb Neqb_eq) in Hn. apply G2. tauto.
      - apply forallb_forall. intros n Hn. specialize (G3 n Hn). apply mem_In in G3. apply mem_In.
        destruct (N.eq_dec n p) as [->|Hne]; [now left|]. right. apply (remove_by_In N.eqb Neqb_eq). tauto.
      - cbn [map]. apply nondecreasing_cons. split.
        + intros y Hy. apply in_map_iff in Hy. destruct Hy as (n & <- & Hn).
          apply (remove_by_In N.eqb Neqb_eq) in Hn. apply Hpmin, HinF. tauto.
        + rewrite remove_by_filter. now apply nondecreasing_filter.
      - destruct (rq_lwt rq) eqn:El; [|reflexivity]. apply list_eqb_spec in G5. apply list_eqb_spec.
        assert (Hrem : filter (fun n => (group_of n <? 3)%nat) (remove_by N.eqb p F) = remove_by N.eqb p lwt_sequence).
        { rewrite <- G5, !remove_by_filter, !filter_filter_and. apply filter_ext. intros n. apply andb_comm. }
        assert (HndL : NoDup lwt_sequence) by (rewrite <- G5; apply NoDup_filter, F1).
        cbn [filter]. destruct (group_of p <? 3)%nat eqn:E3.
        + apply Nat.ltb_lt in E3. destruct (Hplwt eq_refl E3) as (r & Er). rewrite Hrem, Er.
          cbn [remove_by]. rewrite N.eqb_refl. f_equal. rewrite Er in HndL. inversion HndL as [|? ? Hnr Hr]; subst.
          rewrite remove_by_filter. apply filter_id_all. intros y Hy. apply negb_true_iff, N.eqb_neq. intros ->. contradiction.
        + rewrite Hrem, remove_by_filter. apply filter_id_all. intros y Hy. apply negb_true_iff, N.eqb_neq. intros <-.
          rewrite <- G5 in Hy. apply filter_In in Hy. destruct Hy as [_ Hy]. congruence.
    Qed.

    (* ---- Plan: the picked target first, then the fallback plan without it *)
    Lemma filter_ws_ws p l :
      filter (fun x => negb (target_eqb x (with_shard shf p))) (map (with_shard shf) l) =
      map (with_shard shf) (remove_by N.eqb p l).
    Proof.
      induction l as [|n r IH]; [reflexivity|]. cbn [map filter remove_by]. unfold target_eqb at 1.
      cbn [with_shard fst snd oeqb]. rewrite (N.eqb_sym n p). destruct (N.eqb p n) eqn:E.
      - apply N.eqb_eq in E. subst. rewrite N.eqb_refl. cbn [andb negb]. exact IH.
      - cbn [andb negb map]. now rewrite IH.
    Qed.
    Lemma filter_ns_ws p l :
      filter (fun x => negb (target_eqb x (with_shard shf p))) (map no_shard l) = map no_shard l.
    Proof.
      apply filter_id_all. intros x Hx. apply in_map_iff in Hx. destruct Hx as (n & <- & _).
      unfold target_eqb. cbn [with_shard no_shard fst snd oeqb]. now rewrite andb_false_r.
    Qed.
    Lemma filter_ns_ns p l :
      filter (fun x => negb (target_eqb x (no_shard p))) (map no_shard l) = map no_shard (remove_by N.eqb p l).
    Proof.
      induction l as [|n r IH]; [reflexivity|]. cbn [map filter remove_by]. unfold target_eqb at 1.
      cbn [no_shard fst snd oeqb]. rewrite andb_true_r, (N.eqb_sym n p). destruct (N.eqb p n); cbn [negb map]; now rewrite IH.
    Qed.

    Lemma remove_by_app p (a b : list N) : remove_by N.eqb p (a ++ b) = remove_by N.eqb p a ++ remove_by N.eqb p b.
    Proof. now rewrite !remove_by_filter, filter_app. Qed.
    Lemma remove_by_notin p (l : list N) : ~ In p l -> remove_by N.eqb p l = l.
    Proof.
      intros H. rewrite remove_by_filter. apply filter_id_all. intros y Hy. apply negb_true_iff, N.eqb_neq.
      intros ->. contradiction.
    Qed.

    Lemma target_eqb_eq x y : target_eqb x y = true -> x = y.
    Proof.
      unfold target_eqb. destruct x as [n s], y as [m u]. cbn [fst snd]. intros H.
      apply andb_true_iff in H. destruct H as [H1 H2]. apply N.eqb_eq in H1. apply oeqb_eq in H2. now subst.
    Qed.
    Lemma target_cmp_refl x : target_cmp x x = true.
    Proof. unfold target_cmp. rewrite N.eqb_refl. destruct (snd x); [apply N.eqb_refl|reflexivity]. Qed.

    Lemma replica_member k c p : nth_error conds k = Some c -> c p = true -> (k < 3)%nat ->
      In p (concat seg_replicas).
    Proof.
      intros Hc Hp Hk3. destruct (segs_nth_In _ _ segments_spec k c p Hc Hp) as (Sg & HS & Hin).
      rewrite nth_error_app1 in HS by (rewrite seg_replicas_length; assumption).
      apply In_concat_nth. eauto.
    Qed.

    Lemma no_replicas k : (3 <= k)%nat -> none_below k -> concat seg_replicas = [].
    Proof.
      intros Hk3 Hb. destruct (concat seg_replicas) as [|m r] eqn:E; [reflexivity|]. exfalso.
      assert (Hm : In m (concat seg_replicas)) by (rewrite E; now left).
      apply In_concat_nth in Hm. destruct Hm as (j & Sg & Hj & Hin).
      assert (Hj3 : (j < 3)%nat) by (rewrite <- seg_replicas_length; eapply nth_error_Some_lt; eassumption).
      assert (Hj' : nth_error (seg_replicas ++ seg_nodes) j = Some Sg) by (rewrite nth_error_app1; [assumption|rewrite seg_replicas_length; assumption]).
      destruct (segs_In_cond _ _ segments_spec j Sg m Hj' Hin) as (c & Hc & Ec).
      rewrite (Hb j c) in Ec; [discriminate|lia|assumption].
    Qed.

    Lemma plan_nodes :
      map fst plan = match pick with
                     | Some (p, _) => p :: remove_by N.eqb p (map fst fallback)
                     | None => map fst fallback
                     end.
    Proof.
      unfold Plan.plan. pose proof pick_spec as H. unfold pick_result_ok in H.
      destruct pick as [[p sh]|].
      - destruct H as (k & c & Hc & Hp & Hb & Hsh & _). cbn [map fst]. f_equal. rewrite fallback_structure.
        destruct (k <? 3)%nat eqn:E3; subst sh.
        + apply Nat.ltb_lt in E3. change (p, Some (shf p)) with (with_shard shf p).
          rewrite filter_app, filter_ws_ws, filter_ns_ws, !map_app, !map_map. cbn [with_shard no_shard fst].
          rewrite !map_id, remove_by_app. f_equal. symmetry. apply remove_by_notin.
          intros C. apply filter_In in C. destruct C as [_ C]. apply negb_true_iff, mem_false in C.
          apply C. now apply (replica_member k c p).
        + apply Nat.ltb_ge in E3. change (p, @None N) with (no_shard p).
          rewrite (no_replicas k E3 Hb). cbn [uniq uniq_by uniq_aux map app].
          rewrite (filter_id_all (fun n => negb (mem n []))) by reflexivity.
          rewrite filter_ns_ns, !map_map. cbn [no_shard fst]. now rewrite !map_id.
      - destruct fallback as [|f rest] eqn:Ef; [reflexivity|].
        pose proof fallback_targets_distinct as Hd. rewrite Ef in Hd. inversion Hd as [|? ? Hf Hr]; subst.
        rewrite (filter_id_all _ rest); [reflexivity|]. intros x Hx. apply negb_true_iff.
        destruct (target_eqb x f) eqn:E; [|reflexivity]. exfalso. apply target_eqb_eq in E. subst x.
        rewrite Forall_forall in Hf. specialize (Hf f Hx). rewrite target_cmp_refl in Hf. discriminate.
    Qed.

    Theorem plan_matches_model : plan_matches (map fst plan) = true.
    Proof.
      rewrite plan_nodes. pose proof pick_matches_model as Hp.
      destruct pick as [[p sh]|]; cbn [option_map fst] in Hp.
      - apply plan_front; [apply fallback_matches|assumption].
      - apply fallback_matches.
    Qed.

    Theorem plan_properties :
      let p := map fst plan in
      P_nodup p /\ P_filter enabled p /\ P_locality dcf pol rq p /\ P_complete dcf g enabled pol rq p /\
      P_order dcf rackf g keyspaces enabled connected pol rq p /\
      P_lwt dcf rackf g keyspaces enabled connected pol rq p.
    Proof. apply plan_matches_sound, plan_matches_model. Qed.

    (* LWT: the replica part of the plan does not depend on any oracle *)
    Theorem plan_lwt_deterministic : rq_lwt rq = true ->
      filter (fun n => (group_of n <? 3)%nat) (map fst plan) = lwt_sequence.
    Proof. intros Hl. destruct plan_properties as (_ & _ & _ & _ & _ & H). now apply H. Qed.
  End Model.
End PlanProofs.

(* ============================================================= liveness read twice *)
Lemma NoDup_map_filter {A B} (f : A -> B) (p : A -> bool) l : NoDup (map f l) -> NoDup (map f (filter p l)).
Proof.
  induction l as [|x r IH]; intros H; [constructor|]. cbn [map] in H. inversion H as [|? ? Hx Hr]; subst.
  cbn [filter]. destruct (p x); [|auto]. cbn [map]. constructor; [|auto].
  intros C. apply Hx. apply in_map_iff in C. destruct C as (y & Ey & Hy). apply filter_In in Hy.
  apply in_map_iff. exists y. tauto.
Qed.

Lemma filter_target_structure (p : target) l : NoDup (map fst l) ->
  let tl := filter (fun x => negb (target_eqb x p)) l in
  map fst tl = map fst l \/
  exists a b, map fst l = a ++ fst p :: b /\ map fst tl = a ++ b.
Proof.
  cbv zeta. induction l as [|x r IH]; intros Hn; [now left|]. cbn [map] in Hn. inversion Hn as [|? ? Hx Hr]; subst.
  cbn [filter]. destruct (target_eqb x p) eqn:E; cbn [negb].
  - right. unfold target_eqb in E. apply andb_true_iff in E. destruct E as [E1 E2].
    apply N.eqb_eq in E1. exists [], (map fst r). cbn [app map]. split; [now rewrite E1|].
    f_equal. apply filter_id_all. intros y Hy. apply negb_true_iff.
    destruct (target_eqb y p) eqn:Ey; [|reflexivity]. exfalso. apply Hx.
    unfold target_eqb in Ey. apply andb_true_iff in Ey. destruct Ey as [Ey _]. apply N.eqb_eq in Ey.
    rewrite E1, <- Ey. now apply in_map.
  - cbn [map]. destruct (IH Hr) as [H|(a & b & H1 & H2)].
    + left. now rewrite H.
    + right. exists (fst x :: a), b. cbn [app]. now rewrite H1, H2.
Qed.

Section TwoReads.
  Variables (dcf rackf : N -> option N) (g : ring N) (keyspaces : list (N * strategy)).
  Variables (en1 co1 en2 co2 : N -> bool) (shf : N -> N) (pol : policy) (rq : request).
  Hypothesis Hs : sorted_weak g.
  Hypothesis Hk : forall k s, ks_lookup keyspaces k = Some s -> nts_keys_ok s.
  Variables (cho : nat -> nat -> nat) (shuf : nat -> list N -> list N).
  Hypothesis Hshuf : forall site l, Permutation (shuf site l) l.
  Hypothesis Hcho : forall site len, (0 < len)%nat -> (cho site len < len)%nat.

  (* what survives a liveness change between pick() and fallback(): the first target is an
     acceptable pick for the liveness pick() saw; the rest is the fallback plan of the later
     liveness (accepted as a whole) with at most the picked target removed; so every node is
     enabled at the time it was chosen and permitted (host filter, locality), and the rest has
     no node twice *)
  Theorem two_reads_safe p tl :
    plan_two_reads dcf rackf g keyspaces en1 co1 en2 co2 shf pol rq cho shuf = Some (p :: tl) ->
    pick_matches dcf rackf g keyspaces en1 co1 pol rq (Some (fst p)) = true /\
    plan_matches dcf rackf g keyspaces en2 co2 pol rq
      (map fst (fallback dcf rackf g keyspaces en2 co2 shf pol rq cho shuf)) = true /\
    (en1 (fst p) = true /\ permitted dcf g pol rq (fst p) = true) /\
    (forall n, In n (map fst tl) -> en2 n = true /\ permitted dcf g pol rq n = true) /\
    NoDup (map fst tl) /\
    (* the rest IS the later fallback plan, or that plan with the picked node taken out *)
    (let fb2 := map fst (fallback dcf rackf g keyspaces en2 co2 shf pol rq cho shuf) in
     map fst tl = fb2 \/ exists a b, fb2 = a ++ fst p :: b /\ map fst tl = a ++ b).
  Proof.
    unfold plan_two_reads. pose proof (pick_matches_model dcf rackf g keyspaces en1 co1 shf pol rq Hs Hk cho shuf Hshuf Hcho) as Hp.
    pose proof (fallback_matches dcf rackf g keyspaces en2 co2 shf pol rq Hs Hk cho shuf Hshuf) as Hf.
    destruct (pick dcf rackf g keyspaces en1 co1 shf pol rq cho) as [q|]; [|discriminate].
    intros [= <- <-]. cbn [option_map] in Hp. split; [assumption|]. split; [assumption|].
    pose proof (plan_matches_sound dcf rackf g keyspaces en2 co2 shf pol rq _ Hf) as (F1 & F2 & F3 & _).
    pose proof (plan_matches_ring dcf rackf g keyspaces en2 co2 shf pol rq _ Hf) as F4.
    split; [|split].
    - destruct (pick_matches_sound dcf rackf g keyspaces en1 co1 shf pol rq (fst q) Hp) as (H8 & _).
      eapply grp_lt8_ok; eassumption.
    - intros n Hn. apply in_map_iff in Hn. destruct Hn as (x & <- & Hx). apply filter_In in Hx. destruct Hx as [Hx _].
      assert (Hin : In (fst x) (map fst (fallback dcf rackf g keyspaces en2 co2 shf pol rq cho shuf))) by now apply in_map.
      split; [now apply F2|]. apply permitted_spec. split; [now apply F4|]. intros d Hd Hfo. now apply (F3 d Hd Hfo).
    - split; [apply NoDup_map_filter; exact F1|]. apply filter_target_structure. exact F1.
  Qed.
End TwoReads.

(* ---- ... and what does not: the same node twice, group order of either snapshot ---- *)
Definition tw_g : ring N := [(10, 1%N); (20, 2%N)].
Definition tw_ks : list (N * strategy) := [(0%N, Simple 1)].
Definition tw_pol := {| pol_pref := None; pol_token_aware := true; pol_failover := false |}.
Definition tw_rq := {| rq_token := Some 5; rq_ks := Some 0%N; rq_lwt := false; rq_pref := PAny |}.
Definition tw_up (_ : N) : bool := true.
Definition tw_co2 (n : N) : bool := negb (N.eqb n 1).        (* node 1 loses its connections *)
Definition tw_plan : option (list target) :=
  plan_two_reads (fun _ => None) (fun _ => None) tw_g tw_ks tw_up tw_up tw_up tw_co2 (fun _ => 0%N) tw_pol tw_rq
                 (fun _ _ => 0%nat) (fun _ l => l).

Lemma two_reads_refuted :
  exists p, tw_plan = Some p /\ map fst p = [1; 2; 1]%N /\ ~ NoDup (map fst p) /\
    (* out of group order under the liveness pick() saw and under the later one *)
    nondecreasing (map (group_of (fun _ => None) (fun _ => None) tw_g tw_ks tw_up tw_up tw_pol tw_rq) (map fst p)) = false /\
    nondecreasing (map (group_of (fun _ => None) (fun _ => None) tw_g tw_ks tw_up tw_co2 tw_pol tw_rq) (map fst p)) = false /\
    (* while every enabled node is named (complete under both) *)
    (forall n, In n (all_nodes tw_g) -> In n (map fst p)).
Proof.
  eexists. split; [vm_compute; reflexivity|]. split; [reflexivity|]. split; [|split; [vm_compute; reflexivity|split; [vm_compute; reflexivity|]]].
  - cbn [map fst]. intros H. inversion H as [|? ? Hx _]; subst. apply Hx. right. now left.
  - vm_compute. intros n [<-|[<-|[]]]; tauto.
Qed.

(* ============================================================= the kind-L acceptor *)
Lemma inserts_spec h : forall post pre l, In l (inserts h pre post) ->
  exists a b, rev pre ++ post = a ++ b /\ l = a ++ h :: b.
Proof.
  induction post as [|x r IH]; intros pre l H; cbn [inserts In] in H.
  - destruct H as [<-|[]]. exists (rev pre), []. split; reflexivity.
  - destruct H as [<-|H].
    + exists (rev pre), (x :: r). split; reflexivity.
    + destruct (IH (x :: pre) l H) as (a & b & E & ->). exists a, b. split; [|reflexivity].
      rewrite <- E. cbn [rev]. now rewrite <- app_assoc.
Qed.

Lemma inserts_complete h : forall post pre a b, post = a ++ b -> In (rev pre ++ a ++ h :: b) (inserts h pre post).
Proof.
  induction post as [|x r IH]; intros pre a b E.
  - destruct a; [|discriminate]. destruct b; [|discriminate]. cbn. now left.
  - destruct a as [|y a'].
    + cbn [app] in E. subst b. cbn [inserts In app]. now left.
    + cbn [app] in E. injection E as <- E. cbn [inserts In]. right.
      specialize (IH (x :: pre) a' b E). cbn [rev] in IH. rewrite <- app_assoc in IH. exact IH.
Qed.

(* what an accepted two-read plan is: the head is an acceptable pick for the earlier liveness and
   the rest is a plan accepted for the later liveness, or such a plan with the head taken out *)
Theorem two_reads_matches_sound dcf rackf g keyspaces en1 co1 en2 co2 pol rq p :
  two_reads_matches dcf rackf g keyspaces en1 co1 en2 co2 pol rq p = true ->
  exists h rest, p = h :: rest /\
    pick_matches dcf rackf g keyspaces en1 co1 pol rq (Some h) = true /\
    exists F, plan_matches dcf rackf g keyspaces en2 co2 pol rq F = true /\
      ((rest = F /\
        (* the picked node is named again only if it is still allowed later and its annotation changed *)
        (In h rest ->
         (group_of dcf rackf g keyspaces en2 co2 pol rq h < 8)%nat /\
         Bool.eqb (group_of dcf rackf g keyspaces en1 co1 pol rq h <? 3)%nat
                  (group_of dcf rackf g keyspaces en2 co2 pol rq h <? 3)%nat = false)) \/
       (~ In h rest /\ exists a b, F = a ++ h :: b /\ rest = a ++ b)).
Proof.
  destruct p as [|h rest]; [discriminate|]. cbn [two_reads_matches]. cbv zeta.
  rewrite andb_true_iff. intros [Hp H]. exists h, rest. split; [reflexivity|]. split; [assumption|].
  destruct (8 <=? group_of dcf rackf g keyspaces en2 co2 pol rq h)%nat eqn:E8.
  - apply andb_true_iff in H. destruct H as [Hn H]. apply negb_true_iff, mem_false in Hn.
    exists rest. split; [assumption|]. left. split; [reflexivity|]. intros Hi. contradiction.
  - apply Nat.leb_gt in E8. destruct (Bool.eqb _ _) eqn:Eb.
    + apply andb_true_iff in H. destruct H as [Hn H]. apply negb_true_iff, mem_false in Hn.
      apply existsb_exists in H. destruct H as (F & HF & Hm). exists F. split; [assumption|]. right. split; [assumption|].
      destruct (inserts_spec h rest [] F HF) as (a & b & E & ->). cbn [rev app] in E. exists a, b. split; [reflexivity|assumption].
    + apply andb_true_iff in H. destruct H as [_ H]. exists rest. split; [assumption|]. left. split; [reflexivity|].
      intros _. split; [lia|reflexivity].
Qed.

(* the meaning of the kind-L violation test ... *)
Lemma two_reads_safe_b_spec dcf rackf g keyspaces en1 co1 en2 co2 pol rq p :
  two_reads_safe_b dcf rackf g keyspaces en1 co1 en2 co2 pol rq p = true <->
  exists h rest, p = h :: rest /\
    (en1 h = true /\ permitted dcf g pol rq h = true) /\
    (forall n, In n rest -> en2 n = true /\ permitted dcf g pol rq n = true) /\
    NoDup rest /\
    (In h rest ->
     ~ ((group_of dcf rackf g keyspaces en2 co2 pol rq h < 8)%nat /\
        Bool.eqb (group_of dcf rackf g keyspaces en1 co1 pol rq h <? 3)%nat
                 (group_of dcf rackf g keyspaces en2 co2 pol rq h <? 3)%nat = true)).
Proof.
  destruct p as [|h rest].
  - split; [discriminate|]. intros (h & rest & E & _). discriminate.
  - cbn [two_reads_safe_b]. cbv zeta. rewrite !andb_true_iff, forallb_forall, nodupb_spec, negb_true_iff. split.
    + intros [[[[H1 H2] H3] H4] H5]. exists h, rest. split; [reflexivity|]. split; [tauto|]. split.
      { intros n Hn. specialize (H3 n Hn). now apply andb_true_iff in H3. }
      split; [assumption|]. intros Hi [Hl He]. apply mem_In in Hi. rewrite Hi in H5.
      apply Nat.ltb_lt in Hl. rewrite Hl, He in H5. discriminate.
    + intros (h' & rest' & [= <- <-] & [H1 H2] & H3 & H4 & H5). repeat split; try assumption.
      { intros n Hn. apply andb_true_iff. now apply H3. }
      destruct (mem h rest) eqn:Em; [|reflexivity]. apply mem_In in Em. specialize (H5 Em).
      destruct (_ <? 8)%nat eqn:E8; [|reflexivity]. destruct (Bool.eqb _ _) eqn:Eb; [|reflexivity].
      exfalso. apply H5. split; [now apply Nat.ltb_lt|reflexivity].
Qed.

(* ... and: whatever the kind-L acceptor accepts passes it (an accepted plan is never a violation) *)
Theorem two_reads_matches_safe dcf rackf g keyspaces en1 co1 en2 co2 pol rq p :
  sorted_weak g ->
  two_reads_matches dcf rackf g keyspaces en1 co1 en2 co2 pol rq p = true ->
  two_reads_safe_b dcf rackf g keyspaces en1 co1 en2 co2 pol rq p = true.
Proof.
  intros Hs H. apply two_reads_matches_sound in H.
  destruct H as (h & rest & -> & Hp & F & HF & Hr).
  apply two_reads_safe_b_spec. exists h, rest. split; [reflexivity|].
  pose proof (plan_matches_sound dcf rackf g keyspaces en2 co2 (fun _ => 0%N) pol rq _ HF) as (F1 & F2 & F3 & _).
  pose proof (plan_matches_ring dcf rackf g keyspaces en2 co2 (fun _ => 0%N) pol rq _ HF) as F4.
  assert (HFok : forall n, In n F -> en2 n = true /\ permitted dcf g pol rq n = true).
  { intros n Hn. split; [now apply F2|]. apply permitted_spec. split; [now apply F4|]. intros d Hd Hfo. now apply (F3 d Hd Hfo). }
  split.
  { destruct (pick_matches_sound dcf rackf g keyspaces en1 co1 (fun _ => 0%N) pol rq h Hp) as (H8 & _).
    exact (grp_lt8_ok dcf rackf g keyspaces en1 co1 (fun _ => 0%N) pol rq Hs h H8). }
  destruct Hr as [[-> Hi]|(Hn & a & b & -> & ->)].
  - split; [assumption|]. split; [assumption|]. intros Hin [_ He]. destruct (Hi Hin) as [_ He']. congruence.
  - split; [|split].
    + intros n Hn'. apply HFok. rewrite in_app_iff in *. cbn [In]. tauto.
    + eapply NoDup_remove_1. exact F1.
    + intros Hin. contradiction.
Qed.

Lemma remove_split (h : N) l : NoDup l -> In h l ->
  exists a b, l = a ++ h :: b /\ remove_by N.eqb h l = a ++ b.
Proof.
  intros Hn Hi. apply in_split in Hi. destruct Hi as (a & b & ->). exists a, b. split; [reflexivity|].
  apply NoDup_remove_2 in Hn. rewrite in_app_iff in Hn.
  rewrite !remove_by_filter, filter_app. cbn [filter]. rewrite N.eqb_refl. cbn [negb]. rewrite <- !remove_by_filter.
  rewrite !remove_by_filter.
  rewrite (filter_id_all _ a), (filter_id_all _ b); [reflexivity| |];
    intros y Hy; apply negb_true_iff, N.eqb_neq; intros ->; tauto.
Qed.

Lemma filter_ws_ns shf p l :
  filter (fun x => negb (target_eqb x (no_shard p))) (map (with_shard shf) l) = map (with_shard shf) l.
Proof.
  apply filter_id_all. intros x Hx. apply in_map_iff in Hx. destruct Hx as (n & <- & _).
  unfold target_eqb. cbn [with_shard no_shard fst snd oeqb]. now rewrite andb_false_r.
Qed.

Section TwoReadsAccept.
  Variables (dcf rackf : N -> option N) (g : ring N) (keyspaces : list (N * strategy)).
  Variables (en1 co1 en2 co2 : N -> bool) (shf : N -> N) (pol : policy) (rq : request).
  Hypothesis Hs : sorted_weak g.
  Hypothesis Hk : forall k s, ks_lookup keyspaces k = Some s -> nts_keys_ok s.
  Variables (cho : nat -> nat -> nat) (shuf : nat -> list N -> list N).
  Hypothesis Hshuf : forall site l, Permutation (shuf site l) l.
  Hypothesis Hcho : forall site len, (0 < len)%nat -> (cho site len < len)%nat.

  Local Notation R2 := (concat (seg_replicas dcf rackf g keyspaces en2 co2 pol rq shuf)).
  Local Notation N2 := (concat (seg_nodes dcf rackf g en2 co2 pol rq cho)).
  Local Notation X2 := (filter (fun n => negb (mem n R2)) (uniq N2)).
  Local Notation fb2 := (fallback dcf rackf g keyspaces en2 co2 shf pol rq cho shuf).
  Local Notation g2 := (group_of dcf rackf g keyspaces en2 co2 pol rq).

  Lemma fb2_nodes : map fst fb2 = uniq R2 ++ X2.
  Proof. rewrite fallback_structure, map_app, !map_map. cbn [with_shard no_shard fst]. now rewrite !map_id. Qed.

  Lemma fb2_In h : In h (map fst fb2) <-> (g2 h < 8)%nat.
  Proof.
    rewrite fallback_nodes, uniq_In, (concat_segs_cond dcf rackf g keyspaces en2 co2 shf pol rq Hs Hk cho shuf Hshuf).
    rewrite group_of_first_true. symmetry. apply (first_true_lt (conds dcf rackf g keyspaces en2 co2 pol rq) h).
  Qed.

  (* the model's two-read plan is accepted by the kind-L acceptor, for every oracle *)
  Theorem two_reads_accepted pl :
    plan_two_reads dcf rackf g keyspaces en1 co1 en2 co2 shf pol rq cho shuf = Some pl ->
    two_reads_matches dcf rackf g keyspaces en1 co1 en2 co2 pol rq (map fst pl) = true.
  Proof.
    unfold plan_two_reads.
    pose proof (pick_matches_model dcf rackf g keyspaces en1 co1 shf pol rq Hs Hk cho shuf Hshuf Hcho) as Hpm.
    pose proof (pick_spec dcf rackf g keyspaces en1 co1 shf pol rq Hs Hk cho shuf Hshuf Hcho) as Hps.
    pose proof (fallback_matches dcf rackf g keyspaces en2 co2 shf pol rq Hs Hk cho shuf Hshuf) as Hf2.
    destruct (pick dcf rackf g keyspaces en1 co1 shf pol rq cho) as [[h sh]|]; [|discriminate].
    intros [= <-]. cbn [option_map fst] in Hpm. cbn [map fst two_reads_matches]. cbv zeta. rewrite Hpm. cbn [andb].
    unfold pick_result_ok in Hps. destruct Hps as (k & c & Hc & Hp & Hb & Hsh & _).
    destruct (group_of_exact dcf rackf g keyspaces en1 co1 shf pol rq Hs Hk cho shuf Hshuf Hcho k c h Hc Hp Hb) as (Hg1 & _ & _ & _).
    rewrite Hg1.
    assert (Hnd : NoDup (map fst fb2)) by (rewrite fallback_nodes; apply uniq_NoDup).
    set (tl := filter (fun x => negb (target_eqb x (h, sh))) fb2).
    destruct (8 <=? g2 h)%nat eqn:E8.
    - (* the picked node is not allowed any more: nothing to remove *)
      apply Nat.leb_le in E8. assert (Hnot : ~ In h (map fst fb2)) by (rewrite fb2_In; lia).
      assert (Etl : tl = fb2).
      { apply filter_id_all. intros x Hx. apply negb_true_iff. destruct (target_eqb x (h, sh)) eqn:Ex; [|reflexivity].
        exfalso. apply target_eqb_eq in Ex. subst x. apply Hnot. change h with (fst (h, sh)). now apply in_map. }
      rewrite Etl. apply andb_true_iff. split; [apply negb_true_iff, mem_false; exact Hnot|exact Hf2].
    - apply Nat.leb_gt in E8. assert (Hin : In h (map fst fb2)) by (now apply fb2_In).
      assert (HinC : In h (concat (seg_replicas dcf rackf g keyspaces en2 co2 pol rq shuf ++ seg_nodes dcf rackf g en2 co2 pol rq cho))).
      { rewrite fallback_nodes, uniq_In in Hin. exact Hin. }
      pose proof (replica_group_iff dcf rackf g keyspaces en2 co2 shf pol rq Hs Hk cho shuf Hshuf h HinC) as Hrg.
      rewrite fb2_nodes in Hin, Hnd, Hf2. unfold tl. rewrite fallback_structure, filter_app, map_app.
      assert (HndR : NoDup (uniq R2)) by apply uniq_NoDup.
      assert (HndX : NoDup X2) by (apply NoDup_filter, uniq_NoDup).
      destruct (g2 h <? 3)%nat eqn:E3.
      + (* later: a replica target (with shard) *)
        apply Nat.ltb_lt in E3. assert (HR : In h R2) by now apply Hrg. assert (HuR : In h (uniq R2)) by now apply uniq_In.
        assert (HnX : ~ In h X2).
        { intros C. apply filter_In in C. destruct C as [_ C]. apply negb_true_iff, mem_false in C. contradiction. }
        destruct (k <? 3)%nat eqn:Ek; subst sh; cbn [Bool.eqb].
        * change (h, Some (shf h)) with (with_shard shf h). rewrite filter_ws_ws, filter_ns_ws, !map_map. cbn [with_shard no_shard fst]. rewrite !map_id.
          destruct (remove_split h (uniq R2) HndR HuR) as (a & b & Ea & Er). rewrite Er.
          apply andb_true_iff. split.
          -- apply negb_true_iff, mem_false. rewrite <- Er. rewrite in_app_iff, (remove_by_In N.eqb Neqb_eq). tauto.
          -- apply existsb_exists. exists (uniq R2 ++ X2). split; [|exact Hf2].
             rewrite Ea, <- !app_assoc. cbn [app].
             exact (inserts_complete h (a ++ b ++ X2) [] a (b ++ X2) eq_refl).
        * change (h, @None N) with (no_shard h). rewrite filter_ws_ns, filter_ns_ns, !map_map. cbn [with_shard no_shard fst]. rewrite !map_id.
          rewrite (remove_by_notin h X2 HnX). apply andb_true_iff. split; [apply mem_In; exact Hin|exact Hf2].
      + (* later: a node target (no shard) *)
        apply Nat.ltb_ge in E3. assert (HR : ~ In h R2) by (intros C; apply Hrg in C; lia).
        assert (HuR : ~ In h (uniq R2)) by (rewrite uniq_In; exact HR).
        assert (HX : In h X2) by (apply in_app_or in Hin; tauto).
        destruct (k <? 3)%nat eqn:Ek; subst sh; cbn [Bool.eqb].
        * change (h, Some (shf h)) with (with_shard shf h). rewrite filter_ws_ws, filter_ns_ws, !map_map. cbn [with_shard no_shard fst]. rewrite !map_id.
          rewrite (remove_by_notin h (uniq R2) HuR). apply andb_true_iff. split; [apply mem_In; exact Hin|exact Hf2].
        * change (h, @None N) with (no_shard h). rewrite filter_ws_ns, filter_ns_ns, !map_map. cbn [with_shard no_shard fst]. rewrite !map_id.
          destruct (remove_split h X2 HndX HX) as (a & b & Ea & Er). rewrite Er.
          apply andb_true_iff. split.
          -- apply negb_true_iff, mem_false. rewrite <- Er. rewrite in_app_iff, (remove_by_In N.eqb Neqb_eq). tauto.
          -- apply existsb_exists. exists (uniq R2 ++ X2). split; [|exact Hf2].
             rewrite Ea, !app_assoc.
             exact (inserts_complete h ((uniq R2 ++ a) ++ b) [] (uniq R2 ++ a) b eq_refl).
  Qed.
  (* ... hence passes the kind-L violation test *)
  Corollary two_reads_model_safe pl :
    plan_two_reads dcf rackf g keyspaces en1 co1 en2 co2 shf pol rq cho shuf = Some pl ->
    two_reads_safe_b dcf rackf g keyspaces en1 co1 en2 co2 pol rq (map fst pl) = true.
  Proof. intros H. apply two_reads_matches_safe; [exact Hs|]. now apply two_reads_accepted. Qed.
End TwoReadsAccept.

(* ---- any number of liveness reads ------------------------------------------------------ *)
(* a liveness snapshot: (enabled, connected) *)
Definition snapshot := ((N -> bool) * (N -> bool))%type.

Lemma dedup_aux_sub kept l x : In x (dedup_aux kept l) -> In x l.
Proof.
  revert kept. induction l as [|y r IH]; intros kept; [intros []|]. cbn [dedup_aux].
  destruct (existsb (target_cmp y) kept).
  - intros H. right. eapply IH; exact H.
  - intros [->|H]; [now left|]. right. eapply IH; exact H.
Qed.

Lemma dedup_aux_nodes shf kept l :
  Forall (consistent shf) kept -> Forall (consistent shf) l ->
  NoDup (map fst (dedup_aux kept l)) /\
  (forall x, In x (dedup_aux kept l) -> ~ In (fst x) (map fst kept)).
Proof.
  intros Hk Hl. revert kept Hk. induction Hl as [|y r Hy Hr IH]; intros kept Hk.
  - split; [constructor|intros x []].
  - cbn [dedup_aux]. rewrite (existsb_cmp shf y kept Hy Hk).
    destruct (mem (fst y) (map fst kept)) eqn:Em.
    + apply IH; assumption.
    + apply mem_false in Em. destruct (IH (y :: kept) (Forall_cons _ Hy Hk)) as [H1 H2]. split.
      * cbn [map]. constructor; [|assumption]. intros Hin. apply in_map_iff in Hin. destruct Hin as (z & Ez & Hz).
        apply (H2 z Hz). cbn [map]. left. now symmetry.
      * intros x [->|Hx]; [assumption|]. intros Hin. apply (H2 x Hx). cbn [map]. now right.
Qed.

Section Reads.
  Variables (dcf rackf : N -> option N) (g : ring N) (keyspaces : list (N * strategy)).
  Variables (shf : N -> N) (pol : policy) (rq : request).
  Hypothesis Hs : sorted_weak g.
  Hypothesis Hk : forall k s, ks_lookup keyspaces k = Some s -> nts_keys_ok s.
  Variables (cho : nat -> nat -> nat) (shuf : nat -> list N -> list N).
  Hypothesis Hshuf : forall site l, Permutation (shuf site l) l.
  Hypothesis Hcho : forall site len, (0 < len)%nat -> (cho site len < len)%nat.

  (* what the fallback chain (before unique_by) offers under one snapshot *)
  Definition chain_under (s : snapshot) : list target :=
    fb_replicas dcf rackf g keyspaces (fst s) (snd s) shf pol rq shuf ++
    fb_nodes dcf rackf g (fst s) (snd s) pol rq cho.

  (* one Plan whose first target is picked under [s0] and whose fallback iterator pulls each of
     its candidates under a snapshot of its own: [reads] = the candidates that passed their
     liveness test, in the order pulled, each with the snapshot it was tested under.  unique_by
     runs over everything pulled; Plan filters the picked target out by exact equality. *)
  Definition reads_ok (reads : list (target * snapshot)) : Prop :=
    Forall (fun r => In (fst r) (chain_under (snd r))) reads.
  Definition plan_reads (s0 : snapshot) (reads : list (target * snapshot)) : option (list target) :=
    match pick dcf rackf g keyspaces (fst s0) (snd s0) shf pol rq cho with
    | Some p => Some (p :: filter (fun x => negb (target_eqb x p)) (dedup (map fst reads)))
    | None => None
    end.

  Lemma chain_segs s : chain_under s =
    map (with_shard shf) (concat (seg_replicas dcf rackf g keyspaces (fst s) (snd s) pol rq shuf)) ++
    map no_shard (concat (seg_nodes dcf rackf g (fst s) (snd s) pol rq cho)).
  Proof.
    unfold chain_under. f_equal.
    - unfold fb_replicas, seg_replicas. destruct (token_strategy keyspaces pol rq) as [[t st]|]; [|reflexivity].
      cbn [concat]. rewrite app_nil_r. reflexivity.
    - unfold fb_nodes, seg_nodes. cbn [concat]. rewrite app_nil_r. reflexivity.
  Qed.

  Lemma chain_ok s x : In x (chain_under s) ->
    fst s (fst x) = true /\ permitted dcf g pol rq (fst x) = true /\ consistent shf x.
  Proof.
    intros Hx.
    assert (Hc : consistent shf x /\ In (fst x) (map fst (fallback dcf rackf g keyspaces (fst s) (snd s) shf pol rq cho shuf))).
    { rewrite fallback_nodes, uniq_In, concat_app, in_app_iff. rewrite chain_segs in Hx.
      apply in_app_or in Hx. destruct Hx as [Hx|Hx]; apply in_map_iff in Hx; destruct Hx as (n & <- & Hn).
      - split; [right; reflexivity|left; exact Hn].
      - split; [left; reflexivity|right; exact Hn]. }
    destruct Hc as [Hc Hin].
    pose proof (fallback_matches dcf rackf g keyspaces (fst s) (snd s) shf pol rq Hs Hk cho shuf Hshuf) as Hf.
    pose proof (plan_matches_sound dcf rackf g keyspaces (fst s) (snd s) shf pol rq _ Hf) as (_ & F2 & F3 & _).
    pose proof (plan_matches_ring dcf rackf g keyspaces (fst s) (snd s) shf pol rq _ Hf) as F4.
    split; [now apply F2|]. split; [|exact Hc].
    apply permitted_spec. split; [now apply F4|]. intros d Hd Hfo. now apply (F3 d Hd Hfo).
  Qed.

  (* whatever the number of liveness changes and wherever they fall: the first target is an
     acceptable pick for the snapshot pick() saw, was enabled then and is permitted; every later
     target passed its test under the snapshot it was pulled in (enabled then) and is permitted;
     the later targets name no node twice; the picked node is named again at most once and only
     with another annotation (shard / no shard) than the picked target *)
  Theorem plan_reads_safe s0 reads p tl :
    reads_ok reads ->
    plan_reads s0 reads = Some (p :: tl) ->
    pick_matches dcf rackf g keyspaces (fst s0) (snd s0) pol rq (Some (fst p)) = true /\
    (fst s0 (fst p) = true /\ permitted dcf g pol rq (fst p) = true) /\
    (forall x, In x tl -> exists s, In (x, s) reads /\ fst s (fst x) = true /\ permitted dcf g pol rq (fst x) = true) /\
    NoDup (map fst tl) /\
    (forall x, In x tl -> fst x = fst p -> snd x <> snd p).
  Proof.
    intros Hr. unfold plan_reads.
    pose proof (pick_matches_model dcf rackf g keyspaces (fst s0) (snd s0) shf pol rq Hs Hk cho shuf Hshuf Hcho) as Hp.
    destruct (pick dcf rackf g keyspaces (fst s0) (snd s0) shf pol rq cho) as [q|]; [|discriminate].
    intros [= <- <-]. cbn [option_map] in Hp. split; [assumption|].
    assert (Hcons : Forall (consistent shf) (map fst reads)).
    { apply Forall_forall. intros x Hx. apply in_map_iff in Hx. destruct Hx as ([y s] & <- & Hy).
      unfold reads_ok in Hr. rewrite Forall_forall in Hr. specialize (Hr _ Hy). cbn [fst snd] in *. now apply chain_ok in Hr. }
    destruct (dedup_aux_nodes shf [] (map fst reads) (Forall_nil _) Hcons) as [Hnd _]. fold (dedup (map fst reads)) in Hnd.
    split; [|split; [|split]].
    - destruct (pick_matches_sound dcf rackf g keyspaces (fst s0) (snd s0) shf pol rq (fst q) Hp) as (H8 & _).
      exact (grp_lt8_ok dcf rackf g keyspaces (fst s0) (snd s0) shf pol rq Hs (fst q) H8).
    - intros x Hx. apply filter_In in Hx. destruct Hx as [Hx _]. apply dedup_aux_sub in Hx.
      apply in_map_iff in Hx. destruct Hx as ([y s] & Ey & Hy). cbn [fst] in Ey. subst y. exists s. split; [assumption|].
      unfold reads_ok in Hr. rewrite Forall_forall in Hr. specialize (Hr _ Hy). cbn [fst snd] in Hr.
      apply chain_ok in Hr. tauto.
    - apply NoDup_map_filter. exact Hnd.
    - intros x Hx Ef Es. apply filter_In in Hx. destruct Hx as [_ Hx]. apply negb_true_iff in Hx.
      unfold target_eqb in Hx. rewrite Ef, Es, N.eqb_refl in Hx. cbn [andb] in Hx.
      assert (oeqb (snd q) (snd q) = true) by now apply oeqb_eq. congruence.
  Qed.

  (* the two-read plan is the instance in which every candidate is pulled under the second snapshot *)
  Lemma plan_two_reads_as_reads s0 s1 :
    plan_two_reads dcf rackf g keyspaces (fst s0) (snd s0) (fst s1) (snd s1) shf pol rq cho shuf =
    plan_reads s0 (map (fun x => (x, s1)) (chain_under s1)) /\
    reads_ok (map (fun x => (x, s1)) (chain_under s1)).
  Proof.
    split.
    - unfold plan_two_reads, plan_reads, fallback. rewrite map_map. cbn [fst]. now rewrite map_id.
    - unfold reads_ok. apply Forall_forall. intros r Hr. apply in_map_iff in Hr. destruct Hr as (x & <- & Hx). exact Hx.
  Qed.
End Reads.
