(* Proofs about Model/Plan.v (property C05). *)
From SV Require Import Base.Prelude Model.Ring Model.Replicas Model.Plan
  Proofs.Ring_proofs Proofs.Replicas_proofs.
From Coq Require Import Permutation.
Open Scope Z_scope.

(* ---------------------------------------------------------------- boolean reflections *)
Lemma nodupb_spec l : nodupb l = true <-> NoDup l.
Proof.
  induction l as [|x r IH]; cbn [nodupb]; [split; [constructor|reflexivity]|].
  rewrite andb_true_iff, negb_true_iff, IH, mem_false. split.
  - intros [H1 H2]. now constructor.
  - intros H. inversion H; subst. tauto.
Qed.

Lemma list_eqb_spec a b : list_eqb a b = true <-> a = b.
Proof.
  revert b. induction a as [|x r IH]; intros [|y q]; cbn [list_eqb].
  - split; reflexivity.
  - split; discriminate.
  - split; discriminate.
  - rewrite andb_true_iff, N.eqb_eq, IH. split; [intros [-> ->]; reflexivity|intros [= -> ->]; tauto].
Qed.

Lemma nondecreasing_cons x l :
  nondecreasing (x :: l) = true <-> (forall y, In y l -> (x <= y)%nat) /\ nondecreasing l = true.
Proof.
  revert x. induction l as [|y r IH]; intros x.
  - cbn. split; [intros _; split; [intros ? []|reflexivity]|reflexivity].
  - change (nondecreasing (x :: y :: r)) with ((x <=? y)%nat && nondecreasing (y :: r)).
    rewrite andb_true_iff, Nat.leb_le. split.
    + intros [H1 H2]. split; [|assumption]. intros z [<-|Hz]; [assumption|].
      apply IH in H2. destruct H2 as [H2 _]. specialize (H2 z Hz). lia.
    + intros [H1 H2]. split; [apply H1; now left|assumption].
Qed.

Lemma nondecreasing_spec l : nondecreasing l = true ->
  forall i j a b, (i < j)%nat -> nth_error l i = Some a -> nth_error l j = Some b -> (a <= b)%nat.
Proof.
  induction l as [|x r IH]; intros H i j a b Hij Hi Hj; [destruct i; discriminate|].
  apply nondecreasing_cons in H. destruct H as [H1 H2].
  destruct j as [|j']; [lia|]. cbn in Hj. destruct i as [|i'].
  - cbn in Hi. injection Hi as <-. apply H1. eapply nth_error_In; eassumption.
  - cbn in Hi. apply (IH H2 i' j'); [lia|assumption|assumption].
Qed.

Lemma nondecreasing_app a b :
  nondecreasing a = true -> nondecreasing b = true ->
  (forall x y, In x a -> In y b -> (x <= y)%nat) -> nondecreasing (a ++ b) = true.
Proof.
  induction a as [|x r IH]; intros Ha Hb Hab; [assumption|]. cbn [app].
  apply nondecreasing_cons in Ha. destruct Ha as [H1 H2]. apply nondecreasing_cons. split.
  - intros y Hy. apply in_app_or in Hy. destruct Hy as [Hy|Hy]; [auto|]. apply Hab; [now left|assumption].
  - apply IH; [assumption|assumption|]. intros u v Hu Hv. apply Hab; [now right|assumption].
Qed.

Lemma nondecreasing_const k l : (forall x, In x l -> x = k) -> nondecreasing l = true.
Proof.
  induction l as [|x r IH]; intros H; [reflexivity|]. apply nondecreasing_cons. split.
  - intros y Hy. rewrite (H x (or_introl eq_refl)), (H y (or_intror Hy)). lia.
  - apply IH. intros y Hy. apply H. now right.
Qed.

(* ---------------------------------------------------------------- generic facts *)
Lemma nondecreasing_filter {A} (f : A -> nat) (P : A -> bool) l :
  nondecreasing (map f l) = true -> nondecreasing (map f (filter P l)) = true.
Proof.
  induction l as [|x r IH]; intros H; [reflexivity|]. cbn [map] in H. apply nondecreasing_cons in H.
  destruct H as [H1 H2]. cbn [filter]. destruct (P x); [|auto]. cbn [map]. apply nondecreasing_cons.
  split; [|auto]. intros y Hy. apply H1. apply in_map_iff in Hy. destruct Hy as (z & <- & Hz).
  apply in_map. apply filter_In in Hz. tauto.
Qed.

Lemma nondecreasing_map_S l : nondecreasing l = true -> nondecreasing (map S l) = true.
Proof.
  induction l as [|x r IH]; intros H; [reflexivity|]. apply nondecreasing_cons in H. destruct H as [H1 H2].
  cbn [map]. apply nondecreasing_cons. split; [|auto]. intros y Hy. apply in_map_iff in Hy.
  destruct Hy as (z & <- & Hz). specialize (H1 z Hz). lia.
Qed.

(* index of the first predicate that holds *)
Fixpoint first_true (cs : list (N -> bool)) (n : N) : nat :=
  match cs with
  | [] => 0%nat
  | c :: r => if c n then 0%nat else S (first_true r n)
  end.

Lemma first_true_le cs n : (first_true cs n <= List.length cs)%nat.
Proof. induction cs as [|c r IH]; cbn; [lia|]. destruct (c n); lia. Qed.

Lemma first_true_lt cs n : (first_true cs n < List.length cs)%nat <-> exists c, In c cs /\ c n = true.
Proof.
  induction cs as [|c r IH]; cbn [first_true List.length].
  - split; [lia|intros (c & [] & _)].
  - destruct (c n) eqn:E.
    + split; [intros _; exists c; split; [now left|assumption]|lia].
    + rewrite <- Nat.succ_lt_mono, IH. split; intros (c' & Hc & Ec); exists c'.
      * split; [now right|assumption].
      * destruct Hc as [<-|Hc]; [congruence|tauto].
Qed.

Lemma first_true_nth cs n k c : nth_error cs k = Some c -> c n = true -> (first_true cs n <= k)%nat.
Proof.
  revert k. induction cs as [|c0 r IH]; intros k Hk Hc; [destruct k; discriminate|].
  cbn [first_true]. destruct (c0 n) eqn:E; [lia|]. destruct k as [|k']; cbn in Hk.
  - injection Hk as ->. congruence.
  - specialize (IH k' Hk Hc). lia.
Qed.

(* segments that contain exactly the nodes satisfying their predicate, chained and
   de-duplicated, are sorted by the index of the first predicate a node satisfies *)
Lemma uniq_concat_sorted (cs : list (N -> bool)) (segs : list (list N)) :
  Forall2 (fun c Sg => forall n, In n Sg <-> c n = true) cs segs ->
  nondecreasing (map (first_true cs) (uniq (concat segs))) = true.
Proof.
  induction 1 as [|c Sg cs' segs' Hc Hrest IH]; [reflexivity|]. cbn [concat].
  unfold uniq. rewrite (uniq_by_app N.eqb Neqb_eq), map_app. fold (uniq Sg). fold (uniq (concat segs')).
  apply nondecreasing_app.
  - apply (nondecreasing_const 0%nat). intros x Hx. apply in_map_iff in Hx. destruct Hx as (n & <- & Hn).
    rewrite uniq_In in Hn. apply Hc in Hn. cbn [first_true]. now rewrite Hn.
  - set (P := fun x => negb (mem_by N.eqb x Sg)).
    assert (E : map (first_true (c :: cs')) (filter P (uniq (concat segs'))) =
                map S (map (first_true cs') (filter P (uniq (concat segs'))))).
    { rewrite map_map. apply map_ext_in. intros n Hn. apply filter_In in Hn. destruct Hn as [_ Hn].
      unfold P in Hn. apply negb_true_iff, (mem_by_false N.eqb Neqb_eq) in Hn.
      cbn [first_true]. destruct (c n) eqn:E; [|reflexivity]. apply Hc in E. contradiction. }
    rewrite E. apply nondecreasing_map_S. now apply nondecreasing_filter.
  - intros x y Hx Hy. apply in_map_iff in Hx. destruct Hx as (n & <- & Hn).
    rewrite uniq_In in Hn. apply Hc in Hn. cbn [first_true]. rewrite Hn. lia.
Qed.

(* ---------------------------------------------------------------- de-duplication of targets *)
Section Dedup.
  Variable shf : N -> N.
  Definition consistent (x : target) : Prop := snd x = None \/ snd x = Some (shf (fst x)).

  Lemma cmp_consistent x y : consistent x -> consistent y -> target_cmp x y = N.eqb (fst x) (fst y).
  Proof.
    unfold consistent, target_cmp. destruct x as [n s], y as [m u]. cbn [fst snd].
    intros [->| ->] [->| ->]; try now rewrite andb_true_r.
    destruct (N.eqb n m) eqn:E; [|reflexivity]. apply N.eqb_eq in E. subst. cbn. apply N.eqb_refl.
  Qed.

  Lemma existsb_cmp x kept : consistent x -> Forall consistent kept ->
    existsb (target_cmp x) kept = mem (fst x) (map fst kept).
  Proof.
    intros Hx Hk. induction Hk as [|y r Hy Hr IH]; [reflexivity|]. cbn [existsb map].
    unfold mem. cbn [mem_by existsb]. fold (mem (fst x) (map fst r)). now rewrite cmp_consistent, IH.
  Qed.

  Lemma dedup_aux_ext kept kept' l : Forall consistent kept -> Forall consistent kept' -> Forall consistent l ->
    (forall n, In n (map fst kept) <-> In n (map fst kept')) -> dedup_aux kept l = dedup_aux kept' l.
  Proof.
    intros Hk Hk' Hl. revert kept kept' Hk Hk'. induction Hl as [|x r Hx Hr IH]; intros kept kept' Hk Hk' He; [reflexivity|].
    cbn [dedup_aux]. rewrite !existsb_cmp by assumption. unfold mem.
    rewrite (mem_by_ext N.eqb Neqb_eq (fst x) _ _ He).
    destruct (mem_by N.eqb (fst x) (map fst kept')); [now apply IH|]. f_equal.
    apply IH; try (constructor; assumption). intros n. cbn [map In]. rewrite He. tauto.
  Qed.

  (* a chain  map mk A ++ rest  where mk builds a consistent target of the given node *)
  Lemma dedup_aux_map_app (mk : N -> target) A rest kept :
    (forall n, fst (mk n) = n) -> (forall n, consistent (mk n)) ->
    Forall consistent kept -> Forall consistent rest ->
    dedup_aux kept (map mk A ++ rest) =
    map mk (uniq_aux N.eqb (map fst kept) A) ++ dedup_aux (map mk A ++ kept) rest.
  Proof.
    intros Hf Hc. revert kept. induction A as [|a A' IH]; intros kept Hk Hr; [reflexivity|].
    cbn [map app dedup_aux uniq_aux]. rewrite existsb_cmp by auto. rewrite Hf. unfold mem.
    assert (Hmk : forall l, Forall consistent (map mk l)).
    { intros l. apply Forall_forall. intros x Hx. apply in_map_iff in Hx. destruct Hx as (n & <- & _). auto. }
    destruct (mem_by N.eqb a (map fst kept)) eqn:E.
    - rewrite IH by assumption. f_equal. apply dedup_aux_ext; try assumption.
      + apply Forall_app. split; [apply Hmk|assumption].
      + constructor; [auto|]. apply Forall_app. split; [apply Hmk|assumption].
      + intros n. cbn [map In]. rewrite Hf. apply (mem_by_In N.eqb Neqb_eq) in E.
        rewrite !map_app, !in_app_iff. split; [tauto|]. intros [<-|H]; tauto.
    - cbn [map app]. f_equal. rewrite IH by (try constructor; auto). cbn [map]. rewrite Hf. f_equal.
      apply dedup_aux_ext; try assumption.
      + apply Forall_app. split; [apply Hmk|]. constructor; auto.
      + constructor; [auto|]. apply Forall_app. split; [apply Hmk|assumption].
      + intros n. cbn [map In]. rewrite !map_app, !in_app_iff. cbn [map In]. tauto.
  Qed.

  Definition with_shard (n : N) : target := (n, Some (shf n)).
  Definition no_shard (n : N) : target := (n, @None N).

  Lemma dedup_chain A B :
    dedup (map with_shard A ++ map no_shard B) =
    map with_shard (uniq A) ++ map no_shard (filter (fun n => negb (mem n A)) (uniq B)).
  Proof.
    unfold dedup.
    assert (Hw : forall l, Forall consistent (map with_shard l)).
    { intros l. apply Forall_forall. intros x Hx. apply in_map_iff in Hx. destruct Hx as (n & <- & _). now right. }
    assert (Hn : forall l, Forall consistent (map no_shard l)).
    { intros l. apply Forall_forall. intros x Hx. apply in_map_iff in Hx. destruct Hx as (n & <- & _). now left. }
    rewrite (dedup_aux_map_app with_shard A (map no_shard B) []); auto; [|intros n; now right].
    f_equal. rewrite app_nil_r.
    rewrite <- (app_nil_r (map no_shard B)).
    rewrite (dedup_aux_map_app no_shard B [] (map with_shard A)); auto; [|intros n; now left].
    cbn [dedup_aux]. rewrite app_nil_r. f_equal. rewrite map_map. cbn [with_shard fst]. rewrite map_id.
    apply (uniq_aux_filter N.eqb Neqb_eq).
  Qed.
End Dedup.

Section PlanProofs.
  Variables (dcf rackf : N -> option N) (g : ring N) (keyspaces : list (N * strategy)).
  Variables (enabled connected : N -> bool) (shf : N -> N) (pol : policy) (rq : request).

  Local Notation alive := (alive enabled connected).
  Local Notation all_nodes := (all_nodes g).
  Local Notation local_nodes := (local_nodes dcf g pol rq).
  Local Notation rep_local := (rep_local dcf rackf g keyspaces pol rq).
  Local Notation rep_any := (rep_any dcf rackf g keyspaces pol rq).
  Local Notation eff_pref := (eff_pref pol rq).
  Local Notation token_strategy := (token_strategy keyspaces pol rq).
  Local Notation failover_possible := (failover_possible pol rq).
  Local Notation crit_rack := (crit_rack pol rq).
  Local Notation crit_local := (crit_local pol rq).
  Local Notation remote_allowed := (remote_allowed pol rq).
  Local Notation restricted_dc := (restricted_dc pol rq).
  Local Notation permitted := (permitted dcf g pol rq).
  Local Notation permitted_with := (permitted_with dcf pol rq).
  Local Notation group_with := (group_with rackf enabled connected pol rq).
  Local Notation group_of := (group_of dcf rackf g keyspaces enabled connected pol rq).
  Local Notation lwt_sequence := (lwt_sequence dcf rackf g keyspaces enabled connected pol rq).
  Local Notation plan_matches := (plan_matches dcf rackf g keyspaces enabled connected pol rq).
  Local Notation pick_matches := (pick_matches dcf rackf g keyspaces enabled connected pol rq).
  Local Notation crit_ok := (crit_ok rackf).
  Local Notation reps_iter := (reps_iter dcf rackf g keyspaces).
  Local Notation reps_ordered := (reps_ordered dcf rackf g keyspaces).
  Local Notation filtered_replicas := (filtered_replicas dcf rackf g keyspaces).

  (* ============================================================= soundness of the acceptor *)
  Lemma permitted_spec n : permitted n = true <->
    In n all_nodes /\ (forall d, pref_dc eff_pref = Some d -> pol_failover pol = false -> in_dc dcf d n = true).
  Proof.
    unfold Plan.permitted, Plan.permitted_with, Plan.restricted_dc.
    rewrite andb_true_iff, mem_In. split; intros [H1 H2]; (split; [assumption|]).
    - intros d Hd Hf. rewrite Hd, Hf in H2. assumption.
    - destruct (pref_dc eff_pref) as [d|]; [|reflexivity].
      destruct (pol_failover pol) eqn:Ef; [reflexivity|]. now apply H2.
  Qed.

  Theorem plan_matches_sound p : plan_matches p = true ->
    P_nodup p /\ P_filter enabled p /\ P_locality dcf pol rq p /\ P_complete dcf g enabled pol rq p /\
    P_order dcf rackf g keyspaces enabled connected pol rq p /\
    P_lwt dcf rackf g keyspaces enabled connected pol rq p.
  Proof.
    unfold Plan.plan_matches. cbv zeta. rewrite !andb_true_iff.
    intros [[[[H1 H2] H3] H4] H5].
    fold all_nodes in *. change (permitted_with all_nodes) with permitted in *.
    rewrite forallb_forall in H2, H3.
    assert (Hok : forall n, In n p -> enabled n = true /\ permitted n = true).
    { intros n Hn. specialize (H2 n Hn). now apply andb_true_iff in H2. }
    split; [now apply nodupb_spec|]. split; [intros n Hn; now apply Hok|]. split; [|split; [|split]].
    - intros d Hd Hf n Hn. destruct (Hok n Hn) as [_ Hp]. apply permitted_spec in Hp. now apply Hp.
    - intros n Hn He Hl. apply mem_In. apply H3. apply filter_In. split; [assumption|].
      rewrite He. cbn [andb]. apply permitted_spec. tauto.
    - intros i j a b Hij Hi Hj.
      apply (nondecreasing_spec _ H4 i j); [assumption| |]; rewrite nth_error_map; [now rewrite Hi|now rewrite Hj].
    - intros Hl. rewrite Hl in H5. now apply list_eqb_spec.
  Qed.

  Lemma min_group_with_le (grp : N -> nat) l m : In m l -> (min_group_with l grp <= grp m)%nat.
  Proof.
    induction l as [|x r IH]; intros H; [destruct H|]. cbn [min_group_with fold_right].
    fold (min_group_with r grp). destruct H as [->|H]; [lia|]. specialize (IH H). lia.
  Qed.

  Theorem pick_matches_sound n : pick_matches (Some n) = true ->
    (group_of n < 8)%nat /\ (forall m, In m all_nodes -> (group_of n <= group_of m)%nat) /\
    (rq_lwt rq = true -> (group_of n < 3)%nat -> exists r, lwt_sequence = n :: r).
  Proof.
    unfold Plan.pick_matches. cbv zeta. rewrite !andb_true_iff, Nat.eqb_eq, Nat.ltb_lt.
    fold all_nodes. change (group_with all_nodes local_nodes rep_local rep_any) with group_of.
    intros [[H1 H2] H3]. split; [assumption|]. split.
    - intros m Hm. rewrite H1. now apply min_group_with_le.
    - intros Hl Hg. rewrite Hl in H3. apply Nat.ltb_lt in Hg. rewrite Hg in H3. cbn [andb] in H3.
      destruct lwt_sequence as [|x r]; [discriminate|]. apply N.eqb_eq in H3. subst. now exists r.
  Qed.
End PlanProofs.
