(* Proofs for Model/Route.v (property C12). *)
From SV Require Import Base.Prelude Base.Bytes Model.Ring Model.Replicas Model.Plan Model.Shard Model.Route.
From SV Require Model.Murmur Model.PartKey Model.Tablets.
From SV Require Import Proofs.Ring_proofs Proofs.Replicas_proofs Proofs.Plan_proofs Proofs.Shard_proofs.
From SV Require Proofs.Tablets_proofs Proofs.PartKey_proofs.
From Coq Require Import Permutation.
Open Scope Z_scope.

(* ====================================================================================== *)
(* 1. pools                                                                                *)
(* ====================================================================================== *)

Definition cho_ok (cho : nat -> nat -> nat) : Prop :=
  forall site len, (0 < len)%nat -> (cho site len < len)%nat.

Lemma choose_conn_In cho site v c : choose_conn cho site v = Some c -> In c v.
Proof.
  unfold choose_conn. destruct v as [|x [|y r]]; [discriminate| |].
  - intros [= <-]. now left.
  - apply nth_error_In.
Qed.

Lemma choose_conn_some cho site v : cho_ok cho -> v <> [] -> exists c, choose_conn cho site v = Some c.
Proof.
  intros Hc Hv. unfold choose_conn. destruct v as [|x [|y r]]; [congruence|eauto|].
  destruct (nth_error (x :: y :: r) (cho site (List.length (x :: y :: r)))) as [c|] eqn:E; [eauto|].
  apply nth_error_None in E. specialize (Hc site (List.length (x :: y :: r))). cbn [List.length] in *. lia.
Qed.

Lemma choose_conn_none cho site v : choose_conn cho site v = None -> cho_ok cho -> v = [].
Proof.
  intros E Hc. destruct v as [|x r]; [reflexivity|].
  destruct (choose_conn_some cho site (x :: r) Hc) as [c Hc']; congruence.
Qed.

Lemma swap_remove_snoc {A} i (body : list A) lst :
  swap_remove i (body ++ [lst]) =
  if (i =? List.length body)%nat then body else firstn i body ++ lst :: skipn (S i) body.
Proof. unfold swap_remove. rewrite rev_app_distr. cbn [rev app]. now rewrite rev_involutive. Qed.

Lemma swap_remove_length {A} i (l : list A) : (i < List.length l)%nat ->
  List.length (swap_remove i l) = pred (List.length l).
Proof.
  intros Hi. destruct (exists_last (l := l)) as (body & lst & ->); [intros ->; cbn in Hi; lia|].
  rewrite swap_remove_snoc, app_length in *. cbn [List.length] in *.
  destruct (Nat.eqb_spec i (List.length body)); [lia|].
  rewrite app_length. cbn [List.length]. rewrite firstn_length, skipn_length. lia.
Qed.

Lemma skipn_cons_nth {A} i (l : list A) y r d : skipn i l = y :: r -> nth i l d = y /\ skipn (S i) l = r.
Proof.
  revert l. induction i as [|i IH]; intros l E.
  - destruct l; [discriminate|]. cbn in E. injection E as -> ->. split; reflexivity.
  - destruct l as [|a l]; [discriminate|]. cbn [skipn] in E. apply IH in E. exact E.
Qed.

Lemma swap_remove_In {A} i (l : list A) d x : (i < List.length l)%nat ->
  In x l -> x <> nth i l d -> In x (swap_remove i l).
Proof.
  intros Hi Hx Hne. destruct (exists_last (l := l)) as (body & lst & ->); [intros ->; cbn in Hi; lia|].
  rewrite swap_remove_snoc. rewrite app_length in Hi. cbn [List.length] in Hi.
  apply in_app_or in Hx.
  destruct (Nat.eqb_spec i (List.length body)) as [->|Hd].
  - rewrite app_nth2, Nat.sub_diag in Hne by lia. cbn in Hne.
    destruct Hx as [Hx|[Hx|[]]]; [assumption|congruence].
  - assert (Hi' : (i < List.length body)%nat) by lia.
    rewrite app_nth1 in Hne by assumption.
    destruct Hx as [Hx|[<-|[]]].
    + rewrite <- (firstn_skipn i body) in Hx. apply in_app_or in Hx. apply in_or_app.
      destruct Hx as [Hx|Hx]; [now left|]. right. right.
      destruct (skipn i body) as [|y r] eqn:E.
      * destruct Hx.
      * destruct (skipn_cons_nth i body y r d E) as [Hy Hr].
        destruct Hx as [Hx|Hx]; [congruence|]. now rewrite Hr.
    + apply in_or_app. right. now left.
Qed.

Lemma try_shards_In cho fuel site to_try slots c :
  try_shards cho fuel site to_try slots = Some c -> exists i, In c (nth i slots []).
Proof.
  revert site to_try. induction fuel as [|f IH]; intros site to_try; cbn [try_shards]; [discriminate|].
  destruct to_try as [|a r]; [discriminate|].
  destruct (choose_conn cho (S site) _) as [c'|] eqn:E.
  - intros [= <-]. apply choose_conn_In in E. eauto.
  - apply IH.
Qed.

Lemma In_nth_concat {A} (slots : list (list A)) i c : In c (nth i slots []) -> In c (concat slots).
Proof.
  intros H. destruct (Nat.lt_ge_cases i (List.length slots)) as [Hi|Hi].
  - apply in_concat. exists (nth i slots []). split; [now apply nth_In|assumption].
  - rewrite nth_overflow in H by assumption. destruct H.
Qed.

Lemma try_shards_some cho fuel site to_try slots : cho_ok cho ->
  (List.length to_try <= fuel)%nat ->
  (exists i, In (N.of_nat i) to_try /\ nth i slots [] <> []) ->
  exists c, try_shards cho fuel site to_try slots = Some c.
Proof.
  intros Hc. revert site to_try. induction fuel as [|f IH]; intros site to_try Hf (i & Hi & Hne).
  - destruct to_try; [destruct Hi|cbn in Hf; lia].
  - cbn [try_shards]. destruct to_try as [|a r] eqn:Et; [destruct Hi|]. rewrite <- Et in *.
    assert (Hlen : (0 < List.length to_try)%nat) by (subst to_try; cbn; lia).
    pose proof (Hc site _ Hlen) as Hidx.
    destruct (choose_conn cho (S site) _) as [c'|] eqn:E; [eauto|].
    apply choose_conn_none in E; [|assumption].
    apply IH.
    + rewrite swap_remove_length by assumption. lia.
    + exists i. split; [|assumption].
      apply swap_remove_In with (d := 0%N); [assumption|assumption|].
      intros Heq. rewrite <- Heq, Nnat.Nat2N.id in E. congruence.
Qed.

Lemma shard_u16_idem s : shard_u16 (shard_u16 s) = shard_u16 s.
Proof. unfold shard_u16. destruct (N.leb_spec s 65535) as [H|H]; [|reflexivity]. destruct (N.leb_spec s 65535); [reflexivity|lia]. Qed.

Lemma pool_has_shard_spec p s : pool_has_shard p s = true <-> exists c, In c (pool_conns p) /\ conn_shard c = s.
Proof.
  unfold pool_has_shard. rewrite existsb_exists. split; intros (c & H1 & H2); exists c; (split; [assumption|]).
  - now apply N.eqb_eq. - now apply N.eqb_eq.
Qed.

(* connection_for_shard on a well-formed pool: always a connection of the pool (the
   `unreachable!` is unreachable), and one bound to the requested shard whenever there is one *)
Lemma connection_for_shard_spec cho p shard : cho_ok cho -> pool_wf p -> p <> PoolDown ->
  exists c, connection_for_shard cho p shard = Some c /\ In c (pool_conns p) /\
            (pool_sharder p <> None -> pool_has_shard p (shard_u16 shard) = true ->
             conn_shard c = shard_u16 shard).
Proof.
  intros Hc Hwf Hnd. destruct p as [|conns|nr msb slots]; [congruence| |].
  - destruct Hwf as [Hne _]. cbn [connection_for_shard pool_conns pool_sharder].
    destruct (choose_conn_some cho 40 conns Hc Hne) as [c E]. exists c.
    split; [assumption|]. split; [now apply choose_conn_In in E|congruence].
  - destruct Hwf as [[Hlen Hslots] Hne]. cbn [connection_for_shard pool_conns pool_sharder].
    set (s16 := shard_u16 shard).
    destruct (match nth_error slots (N.to_nat s16) with Some v => choose_conn cho 41 v | None => None end)
      as [c|] eqn:E.
    + exists c. split; [reflexivity|].
      destruct (nth_error slots (N.to_nat s16)) as [v|] eqn:Ev; [|discriminate].
      apply choose_conn_In in E. apply nth_error_nth with (d := []) in Ev. subst v.
      split; [now apply In_nth_concat in E|]. intros _ _.
      destruct (Hslots _ _ E) as [_ H]. lia.
    + assert (Hempty : nth (N.to_nat s16) slots [] = []).
      { destruct (nth_error slots (N.to_nat s16)) as [v|] eqn:Ev.
        - apply choose_conn_none in E; [|assumption]. subst v. now apply nth_error_nth.
        - apply nth_error_None in Ev. now apply nth_overflow. }
      destruct (try_shards_some cho (S (N.to_nat nr)) 42 (nrange 0 (N.to_nat nr)) slots Hc) as [c Ec].
      * rewrite nrange_length. lia.
      * destruct (concat slots) as [|c0 r] eqn:Ecs; [congruence|].
        assert (Hin : In c0 (concat slots)) by (rewrite Ecs; now left).
        apply in_concat in Hin. destruct Hin as (v & Hv & Hc0).
        apply In_nth with (d := []) in Hv. destruct Hv as (i & Hi & <-).
        exists i. split; [|intros E0; rewrite E0 in Hc0; destruct Hc0].
        apply nrange_In. lia.
      * exists c. split; [assumption|]. destruct (try_shards_In _ _ _ _ _ _ Ec) as [i Hi].
        split; [now apply In_nth_concat in Hi|]. intros _ Hhas.
        apply pool_has_shard_spec in Hhas. destruct Hhas as (c1 & Hc1 & Hs1).
        cbn [pool_conns] in Hc1. apply in_concat in Hc1. destruct Hc1 as (v & Hv & Hc1).
        apply In_nth with (d := []) in Hv. destruct Hv as (j & Hj & <-).
        destruct (Hslots _ _ Hc1) as [_ Hj']. fold s16 in Hs1.
        assert (Hj2 : j = N.to_nat s16) by lia. rewrite Hj2, Hempty in Hc1. destruct Hc1.
Qed.

Lemma connection_for_shard_down cho shard : connection_for_shard cho PoolDown shard = None.
Proof. reflexivity. Qed.

(* ---- the refiller keeps every connection under the shard the server reported ------------ *)
Lemma sharder_eqb_spec a b : sharder_eqb a b = true <-> a = b.
Proof.
  destruct a as [[n1 m1]|], b as [[n2 m2]|]; cbn; try (split; [discriminate|congruence]); [|tauto].
  rewrite andb_true_iff, !N.eqb_eq. split; [intros [-> ->]; reflexivity|intros [= -> ->]; tauto].
Qed.

Definition sharder_len (sh : option (N * N)) : nat :=
  match sh with Some (nr, _) => N.to_nat nr | None => 1%nat end.

Lemma nth_repeat_nil {A} i k : nth i (repeat (@nil A) k) [] = [].
Proof. revert i. induction k as [|k IH]; intros [|i]; cbn; auto. Qed.

Lemma slots_wf_empty sh : slots_wf sh (repeat [] (sharder_len sh)).
Proof.
  split; [rewrite repeat_length; destruct sh as [[? ?]|]; reflexivity|].
  intros i c H. rewrite nth_repeat_nil in H. destruct H.
Qed.

Lemma set_slot_length {A} i (x : A) l : List.length (set_slot i x l) = List.length l.
Proof. revert i. induction l as [|y r IH]; intros [|i]; cbn; auto. Qed.

Lemma nth_set_slot {A} i j (x : A) l d : (i < List.length l)%nat ->
  nth j (set_slot i x l) d = if (j =? i)%nat then x else nth j l d.
Proof.
  revert i j. induction l as [|y r IH]; intros i j Hi; [cbn in Hi; lia|].
  destruct i as [|i], j as [|j]; cbn [set_slot nth Nat.eqb]; try reflexivity.
  apply IH. cbn in Hi. lia.
Qed.

Lemma nth_set_slot_out {A} i j (x : A) l d : (List.length l <= i)%nat -> nth j (set_slot i x l) d = nth j l d.
Proof.
  revert i j. induction l as [|y r IH]; intros i j Hi; [destruct i; reflexivity|].
  destruct i as [|i]; [cbn in Hi; lia|]. destruct j as [|j]; cbn [set_slot nth]; [reflexivity|].
  apply IH. cbn in Hi. lia.
Qed.

Definition rf_wf (r : refiller) : Prop := slots_wf (rf_sharder r) (rf_conns r).

Lemma maybe_reshard_wf r sh : rf_wf r -> rf_wf (maybe_reshard r sh) /\ rf_sharder (maybe_reshard r sh) = sh.
Proof.
  intros H. unfold maybe_reshard. destruct (sharder_eqb (rf_sharder r) sh) eqn:E.
  - apply sharder_eqb_spec in E. tauto.
  - split; [apply slots_wf_empty|reflexivity].
Qed.

Lemma swap_remove_incl {A} i (l : list A) x : In x (swap_remove i l) -> In x l.
Proof.
  destruct l as [|a r] eqn:El; [intros []|]. rewrite <- El.
  destruct (exists_last (l := l)) as (body & lst & ->); [congruence|].
  rewrite swap_remove_snoc. destruct (i =? List.length body)%nat.
  - intros H. apply in_or_app. now left.
  - intros H. apply in_app_or in H. apply in_or_app. destruct H as [H|[<-|H]].
    + left. rewrite <- (firstn_skipn i body). apply in_or_app. now left.
    + right. now left.
    + left. rewrite <- (firstn_skipn (S i) body). apply in_or_app. now right.
Qed.

Lemma handle_ready_wf size r c requested : conn_ok c -> rf_wf r -> rf_wf (handle_ready size r c requested).
Proof.
  intros Hc Hr. unfold handle_ready.
  destruct (maybe_reshard_wf r (conn_sharder c) Hr) as [H1 Hsh].
  set (r1 := maybe_reshard r (conn_sharder c)) in *.
  assert (Hid : (N.to_nat (conn_shard c) < List.length (rf_conns r1))%nat).
  { destruct H1 as [Hl _]. rewrite Hl, Hsh. unfold conn_ok, conn_sharder, conn_shard in *.
    destruct (cinfo c) as [[[s nr] msb]|]; lia. }
  assert (Hnew : rf_wf (mkRef (rf_sharder r1)
                   (set_slot (N.to_nat (conn_shard c)) (nth (N.to_nat (conn_shard c)) (rf_conns r1) [] ++ [c]) (rf_conns r1))
                   (rf_excess r1))).
  { destruct H1 as [Hl Hs]. split; cbn [rf_sharder rf_conns].
    - now rewrite set_slot_length.
    - intros i x. rewrite nth_set_slot by assumption.
      destruct (Nat.eqb_spec i (N.to_nat (conn_shard c))) as [->|Hne]; [|apply Hs].
      intros Hx. apply in_app_or in Hx. destruct Hx as [Hx|[<-|[]]]; [now apply Hs|].
      split; [now rewrite Hsh|reflexivity]. }
  destruct size as [n|n].
  - destruct (active_count r1 <? n)%nat; [exact Hnew|]. destruct requested; [exact H1|exact H1].
  - destruct (List.length _ <? n)%nat; [exact Hnew|]. destruct requested; [exact H1|exact H1].
Qed.

Lemma remove_conn_wf r c : rf_wf r -> rf_wf (remove_conn r c).
Proof.
  intros [Hl Hs]. unfold remove_conn.
  destruct (N.to_nat (conn_shard c) <? List.length (rf_conns r))%nat eqn:Elt.
  - destruct (index_conn c (nth (N.to_nat (conn_shard c)) (rf_conns r) [])) as [idx|].
    + split; cbn [rf_sharder rf_conns]; [now rewrite set_slot_length|].
      apply Nat.ltb_lt in Elt. intros i x. rewrite nth_set_slot by assumption.
      destruct (Nat.eqb_spec i (N.to_nat (conn_shard c))) as [->|Hne]; [|apply Hs].
      intros Hx. apply swap_remove_incl in Hx. now apply Hs.
    + destruct (index_conn c (rf_excess r)); split; assumption.
  - destruct (index_conn c (rf_excess r)); split; assumption.
Qed.

Lemma pool_step_wf size r e : event_ok e -> rf_wf r -> rf_wf (pool_step size r e).
Proof.
  intros He Hr. destruct e as [c rq|c]; cbn [pool_step].
  - pose proof (handle_ready_wf size r c rq He Hr) as H.
    destruct (rf_is_full size _); exact H.
  - now apply remove_conn_wf.
Qed.

Lemma pool_run_wf size evs : Forall event_ok evs -> rf_wf (pool_run size evs).
Proof.
  unfold pool_run. assert (H0 : rf_wf rf_init).
  { split; [reflexivity|]. intros [|[|i]] c H; destruct H. }
  revert H0. generalize rf_init. induction evs as [|e evs IH]; intros r Hr Hev; [assumption|].
  cbn [fold_left]. inversion Hev; subst. apply IH; [|assumption]. now apply pool_step_wf.
Qed.

Lemma rf_view_wf r : rf_wf r -> pool_wf (rf_view r).
Proof.
  intros [Hl Hs]. unfold rf_view.
  destruct (forallb _ (rf_conns r)) eqn:E; [exact I|].
  assert (Hne : concat (rf_conns r) <> []).
  { intros Hc. rewrite <- not_true_iff_false in E. apply E. apply forallb_forall. intros v Hv.
    destruct v as [|x v']; [reflexivity|]. exfalso.
    assert (In x (concat (rf_conns r))) by (apply in_concat; exists (x :: v'); split; [assumption|now left]).
    rewrite Hc in H. destruct H. }
  destruct (rf_sharder r) as [[nr msb]|] eqn:Esh.
  - split; [split; assumption|assumption].
  - cbn in Hl. destruct (rf_conns r) as [|v [|? ?]]; try discriminate. cbn [nth concat] in *.
    rewrite app_nil_r in Hne. split; [assumption|].
    intros c Hc. destruct (Hs 0%nat c Hc) as [H _]. unfold conn_sharder in H.
    destruct (cinfo c) as [[[? ?] ?]|]; [discriminate|reflexivity].
Qed.

Lemma pool_wfb_sound p : pool_wfb p = true -> pool_wf p.
Proof.
  destruct p as [|conns|nr msb slots]; cbn [pool_wfb pool_wf]; [trivial| |].
  - rewrite andb_true_iff, forallb_forall. intros [H1 H2]. split.
    + destruct conns; [discriminate|congruence].
    + intros c Hc. specialize (H2 c Hc). destruct (cinfo c); [discriminate|reflexivity].
  - rewrite !andb_true_iff, forallb_forall. intros [[H1 H2] H3]. apply Nat.eqb_eq in H1.
    split; [split; [assumption|]|destruct (concat slots); [discriminate|congruence]].
    intros i c Hc.
    destruct (Nat.lt_ge_cases i (List.length slots)) as [Hi|Hi];
      [|rewrite nth_overflow in Hc by assumption; destruct Hc].
    assert (Hin : In (N.of_nat i, nth i slots []) (combine (nrange 0 (List.length slots)) slots)).
    { clear - Hi. assert (G : forall lo (l : list (list conn)) i, (i < List.length l)%nat ->
        In ((lo + N.of_nat i)%N, nth i l []) (combine (nrange lo (List.length l)) l)).
      { intros lo l. revert lo. induction l as [|v l IH]; intros lo j Hj; [cbn in Hj; lia|].
        cbn [List.length nrange combine]. destruct j as [|j].
        - left. f_equal. lia.
        - right. cbn [nth]. replace (lo + N.of_nat (S j))%N with (N.succ lo + N.of_nat j)%N by lia.
          apply IH. cbn in Hj. lia. }
      specialize (G 0%N slots i Hi). now rewrite N.add_0_l in G. }
    specialize (H2 _ Hin). cbn [fst snd] in H2. rewrite forallb_forall in H2. specialize (H2 c Hc).
    apply andb_true_iff in H2. destruct H2 as [Ha Hb]. apply sharder_eqb_spec in Ha. apply N.eqb_eq in Hb.
    split; [assumption|lia].
Qed.

(* ====================================================================================== *)
(* 2. the acceptor is sound: accepted observation => the property, in terms of the          *)
(*    specification (spec_replicas / spec_shard_of / the tablet's replica list)             *)
(* ====================================================================================== *)

Lemma first_nonempty_nil {A} (l : list (list A)) : first_nonempty l = [] -> forall v, In v l -> v = [].
Proof.
  induction l as [|[|x r] l IH]; cbn [first_nonempty]; [intros _ v []| |discriminate].
  intros H v [<-|Hv]; [reflexivity|now apply IH].
Qed.

Lemma first_nonempty_split {A B} (f : A -> list B) (cs : list A) x rest :
  first_nonempty (map f cs) = x :: rest ->
  exists pre c post, cs = pre ++ c :: post /\ f c = x :: rest /\ forall c', In c' pre -> f c' = [].
Proof.
  induction cs as [|c cs IH]; cbn [map first_nonempty]; [discriminate|].
  destruct (f c) as [|y r] eqn:E.
  - intros H. destruct (IH H) as (pre & c0 & post & -> & H1 & H2).
    exists (c :: pre), c0, post. split; [reflexivity|]. split; [assumption|].
    intros c' [<-|Hc']; [assumption|now apply H2].
  - intros [= <- <-]. exists [], c, cs. split; [reflexivity|]. split; [assumption|intros ? []].
Qed.

(* the shape of the criteria list *)
Lemma allowed_crits_dc pol rq c d : In c (allowed_crits pol rq) -> crit_dc c = Some d ->
  pref_dc (eff_pref pol rq) = Some d.
Proof.
  unfold allowed_crits, crit_rack, crit_local, remote_allowed, failover_possible.
  destruct (eff_pref pol rq) as [|d0|d0 r0]; cbn [pref_dc app].
  - intros [<-|[]]. discriminate.
  - destruct (pol_failover pol); cbn [app]; intros H; repeat destruct H as [<-|H]; try destruct H; cbn; congruence.
  - destruct (pol_failover pol); cbn [app]; intros H; repeat destruct H as [<-|H]; try destruct H; cbn; congruence.
Qed.

Lemma allowed_crits_restricted pol rq c d : restricted_dc pol rq = Some d -> In c (allowed_crits pol rq) ->
  crit_dc c = Some d.
Proof.
  unfold allowed_crits, crit_rack, crit_local, remote_allowed, failover_possible, restricted_dc.
  destruct (eff_pref pol rq) as [|d0|d0 r0]; cbn [pref_dc app]; [discriminate| |];
    destruct (pol_failover pol); try discriminate; intros [= <-]; cbn [app];
    intros H; repeat destruct H as [<-|H]; try destruct H; reflexivity.
Qed.

Lemma allowed_crits_local pol rq d : pref_dc (eff_pref pol rq) = Some d -> In (CDc d) (allowed_crits pol rq).
Proof.
  unfold allowed_crits, crit_rack, crit_local.
  destruct (eff_pref pol rq) as [|d0|d0 r0]; cbn [pref_dc app]; [discriminate| |]; intros [= <-].
  - now left. - right. now left.
Qed.

Lemma allowed_crits_any pol rq : restricted_dc pol rq = None -> In CAny (allowed_crits pol rq).
Proof.
  unfold allowed_crits, crit_rack, crit_local, remote_allowed, failover_possible, restricted_dc.
  destruct (eff_pref pol rq) as [|d0|d0 r0]; cbn [pref_dc app]; [intros _; now left| |];
    destruct (pol_failover pol); try discriminate; intros _; cbn; tauto.
Qed.

(* a criterion without datacenter comes after the preferred datacenter's criterion *)
Lemma app_split_prefix {A} (P : A -> Prop) (l1 l2 pre : list A) c post :
  l1 ++ l2 = pre ++ c :: post -> (forall x, In x l1 -> P x) -> ~ P c -> exists q, pre = l1 ++ q.
Proof.
  revert pre. induction l1 as [|a l1 IH]; intros pre E H1 Hc; [now exists pre|].
  destruct pre as [|a' pre]; cbn [app] in E.
  - injection E as -> _. exfalso. apply Hc, H1. now left.
  - injection E as <- E. destruct (IH pre E) as [q ->]; [intros x Hx; apply H1; now right|assumption|].
    now exists q.
Qed.

Lemma allowed_crits_order pol rq d pre c post : pref_dc (eff_pref pol rq) = Some d ->
  allowed_crits pol rq = pre ++ c :: post -> crit_dc c = None -> In (CDc d) pre.
Proof.
  intros Hp E Hc. unfold allowed_crits in E. rewrite app_assoc in E.
  apply (app_split_prefix (fun x => crit_dc x <> None)) in E.
  - destruct E as [q ->]. apply in_or_app. left. revert Hp. unfold crit_rack, crit_local.
    destruct (eff_pref pol rq) as [|d0|d0 r0]; cbn [pref_dc app]; [discriminate| |]; intros [= <-]; cbn; tauto.
  - unfold crit_rack, crit_local. destruct (eff_pref pol rq) as [|d0|d0 r0]; cbn [pref_dc app];
      intros x Hx; repeat destruct Hx as [<-|Hx]; try destruct Hx; cbn; discriminate.
  - intros H. now apply H.
Qed.

Section AcceptSound.
  Variables (cl : cluster) (cfg : exec_cfg) (rq : request) (s : rsource) (own : list sreplica).
  Let pol := ex_pol cfg.
  (* what is needed of a replica source: its sets are exactly the owners, restricted to the
     criterion's datacenter, in both views *)
  Hypothesis Hsrc : forall c x,
    (In x (src_iter s c) <-> In x own /\ (forall d, crit_dc c = Some d -> in_dc (c_dcf cl) d (fst x) = true)) /\
    (In x (src_ordered s c) <-> In x (src_iter s c)).

  Let cands (c : crit) := g_filtered (c_rackf cl) (c_enabled cl) (c_connected cl) s c (rq_lwt rq).

  Lemma cands_In c x : In x (cands c) <->
    In x own /\ c_alive cl (fst x) = true /\ crit_ok (c_rackf cl) c (fst x) = true /\
    (forall d, crit_dc c = Some d -> in_dc (c_dcf cl) d (fst x) = true).
  Proof.
    unfold cands, g_filtered, sr_ok, c_alive. rewrite filter_In, andb_true_iff.
    destruct (Hsrc c x) as [H1 H2].
    assert (G : In x (if rq_lwt rq then src_ordered s c else src_iter s c) <-> In x (src_iter s c))
      by (destruct (rq_lwt rq); [exact H2|reflexivity]).
    rewrite G, H1. tauto.
  Qed.

  Lemma crit_ok_dc d x : crit_ok (c_rackf cl) (CDc d) x = true.
  Proof. reflexivity. Qed.

  Lemma replica_cands_sound x rest :
    replica_cands cl cfg rq (Some s) = x :: rest ->
    forall y, In y (x :: rest) ->
      In y own /\ usable cl pol rq (fst y) = true /\
      (forall d, pref_dc (eff_pref pol rq) = Some d ->
         (exists r', In r' own /\ c_alive cl (fst r') = true /\ in_dc (c_dcf cl) d (fst r') = true) ->
         in_dc (c_dcf cl) d (fst y) = true).
  Proof.
    unfold replica_cands. fold pol. intros E y Hy.
    apply (first_nonempty_split (fun c => g_filtered (c_rackf cl) (c_enabled cl) (c_connected cl) s c (rq_lwt rq)))
      in E. destruct E as (pre & c & post & Ecs & Ec & Hpre). fold (cands c) in Ec.
    rewrite <- Ec in Hy. apply cands_In in Hy. destruct Hy as (Ho & Ha & Hk & Hd).
    assert (Hc : In c (allowed_crits pol rq)) by (rewrite Ecs; apply in_or_app; right; now left).
    split; [assumption|]. split.
    - unfold usable, permitted_dc. rewrite Ha. cbn [andb].
      destruct (restricted_dc pol rq) as [d|] eqn:Er; [|reflexivity].
      apply Hd. now apply (allowed_crits_restricted pol rq c d).
    - intros d Hp (r' & Ho' & Ha' & Hd').
      destruct (crit_dc c) as [d'|] eqn:Ecd.
      + pose proof (allowed_crits_dc pol rq c d' Hc Ecd) as Hp'. rewrite Hp in Hp'. injection Hp' as ->.
        now apply Hd.
      + pose proof (allowed_crits_order pol rq d pre c post Hp Ecs Ecd) as Hin.
        specialize (Hpre _ Hin). fold (cands (CDc d)) in Hpre.
        assert (In r' (cands (CDc d))).
        { apply cands_In. repeat split; try assumption. intros d0 [= <-]. assumption. }
        rewrite Hpre in H. destruct H.
  Qed.

  Lemma replica_cands_nonempty :
    (exists r, In r own /\ usable cl pol rq (fst r) = true) -> replica_cands cl cfg rq (Some s) <> [].
  Proof.
    intros (r & Ho & Hu) E. unfold usable, permitted_dc in Hu. apply andb_true_iff in Hu. destruct Hu as [Ha Hp].
    unfold replica_cands in E. fold pol in E.
    pose proof (first_nonempty_nil _ E) as Hall.
    destruct (restricted_dc pol rq) as [d|] eqn:Er.
    - assert (Hin : In (CDc d) (allowed_crits pol rq)).
      { apply allowed_crits_local. unfold restricted_dc in Er.
        destruct (pref_dc (eff_pref pol rq)); [|discriminate]. destruct (pol_failover pol); congruence. }
      specialize (Hall (cands (CDc d)) (in_map _ _ _ Hin)).
      assert (In r (cands (CDc d))).
      { apply cands_In. repeat split; try assumption. now intros d0 [= <-]. }
      rewrite Hall in H. destruct H.
    - pose proof (allowed_crits_any pol rq Er) as Hin.
      specialize (Hall (cands CAny) (in_map _ _ _ Hin)).
      assert (In r (cands CAny)).
      { apply cands_In. repeat split; try assumption. intros d0 [=]. }
      rewrite Hall in H. destruct H.
  Qed.

  Lemma accept_shard_sound n w sh : pool_sharder (c_pool cl n) <> None ->
    accept_shard cl n (Some w) sh = true ->
    pool_has_shard (c_pool cl n) (shard_u16 w) = true -> sh = shard_u16 w.
  Proof.
    unfold accept_shard. destruct (pool_sharder (c_pool cl n)); [|congruence].
    intros _ H Hh. rewrite Hh in H. now apply N.eqb_eq.
  Qed.

  (* accepted => the first frame went to a usable owner, in the preferred datacenter when that
     holds a live owner, on a connection of the owning shard when the pool has one *)
  Theorem accept_obs_sound obs :
    accept_obs cl cfg rq (Some s) obs = true ->
    (exists r, In r own /\ usable cl pol rq (fst r) = true) ->
    exists n sh r,
      obs = Some (n, sh) /\ In r own /\ fst r = n /\ usable cl pol rq n = true /\
      (forall d, pref_dc (eff_pref pol rq) = Some d ->
         (exists r', In r' own /\ c_alive cl (fst r') = true /\ in_dc (c_dcf cl) d (fst r') = true) ->
         in_dc (c_dcf cl) d n = true) /\
      (pool_sharder (c_pool cl n) <> None ->
       exists r', In r' own /\ fst r' = n /\
         (pool_has_shard (c_pool cl n) (shard_u16 (snd r')) = true -> sh = shard_u16 (snd r'))).
  Proof.
    intros Hacc Hex. pose proof (replica_cands_nonempty Hex) as Hne.
    unfold accept_obs in Hacc. destruct (replica_cands cl cfg rq (Some s)) as [|x rest] eqn:E; [congruence|].
    destruct obs as [[n sh]|]; [|discriminate].
    assert (Hy : exists y, In y (x :: rest) /\ n = fst y /\ accept_shard cl n (Some (snd y)) sh = true).
    { destruct (rq_lwt rq).
      - apply andb_true_iff in Hacc. destruct Hacc as [H1 H2]. apply N.eqb_eq in H1.
        exists x. split; [now left|]. split; assumption.
      - apply existsb_exists in Hacc. destruct Hacc as (y & Hy & H). apply andb_true_iff in H.
        destruct H as [H1 H2]. apply N.eqb_eq in H1. exists y. repeat split; assumption. }
    destruct Hy as (y & Hy & -> & Hsh).
    destruct (replica_cands_sound x rest E y Hy) as (Ho & Hu & Hd).
    exists (fst y), sh, y. repeat split; try assumption; try reflexivity.
    intros Hs. exists y. repeat split; try assumption.
    now apply accept_shard_sound.
  Qed.
End AcceptSound.

(* ---- the two kinds of replica source meet the hypothesis -------------------------------- *)
Definition tablets_coherent (cl : cluster) : Prop :=
  (forall k tok dc, Tablets.lookup_dc (c_tablets cl) k tok dc =
                    option_map (Tablets.restrict_dc dc) (Tablets.lookup (c_tablets cl) k tok)) /\
  (forall k tok l r, Tablets.lookup (c_tablets cl) k tok = Some l -> In r l ->
                     Tablets.ndc (fst r) = c_dcf cl (Tablets.host (fst r))).

Lemma computed_shard_spec p t : computed_shard p t = spec_owner_shard p t.
Proof. unfold computed_shard, spec_owner_shard. destruct (pool_sharder p) as [[nr msb]|]; [apply shard_of_spec|reflexivity]. Qed.

Lemma ring_source_ok cl k t s :
  sorted_weak (c_ring cl) -> nts_keys_ok s ->
  Tablets.find_table (c_tablets cl) k = None ->
  forall c x,
    (In x (src_iter (ring_source cl t s) c) <->
     In x (owners cl k t s) /\ (forall d, crit_dc c = Some d -> in_dc (c_dcf cl) d (fst x) = true)) /\
    (In x (src_ordered (ring_source cl t s) c) <-> In x (src_iter (ring_source cl t s) c)).
Proof.
  intros Hs Hk Hft c x. unfold owners. rewrite Hft. cbn [ring_source src_iter src_ordered]. split.
  - rewrite replicas_spec by assumption. rewrite !in_map_iff. unfold spec_replicas at 1.
    split.
    + intros (n & <- & Hn). cbn [fst]. rewrite computed_shard_spec.
      destruct (crit_dc c) as [d|].
      * apply filter_In in Hn. destruct Hn as [Hn Hd]. split; [exists n; split; [reflexivity|assumption]|].
        now intros d0 [= <-].
      * split; [exists n; split; [reflexivity|assumption]|intros ? [=]].
    + intros [(n & <- & Hn) Hd]. exists n. rewrite computed_shard_spec. split; [reflexivity|].
      destruct (crit_dc c) as [d|]; [|assumption]. apply filter_In. split; [assumption|]. now apply Hd.
  - rewrite !in_map_iff. split; intros (n & <- & Hn); exists n; (split; [reflexivity|]); revert Hn;
      apply Permutation_in; [|apply Permutation_sym]; now apply ordered_perm.
Qed.

Lemma in_dc_optN dcf d h (nd : option N) : nd = dcf h -> Tablets.optN_eqb nd (Some d) = in_dc dcf d h.
Proof. intros ->. unfold in_dc, Tablets.optN_eqb. destruct (dcf h); reflexivity. Qed.

Lemma tablet_source_ok cl k t s tt :
  tablets_coherent cl -> Tablets.find_table (c_tablets cl) k = Some tt ->
  forall c x,
    (In x (src_iter (tablet_source (c_tablets cl) k t) c) <->
     In x (owners cl k t s) /\ (forall d, crit_dc c = Some d -> in_dc (c_dcf cl) d (fst x) = true)) /\
    (In x (src_ordered (tablet_source (c_tablets cl) k t) c) <-> In x (src_iter (tablet_source (c_tablets cl) k t) c)).
Proof.
  intros [Hdc Hco] Hft c x. unfold owners. rewrite Hft.
  cbn [tablet_source src_iter src_ordered]. split; [|reflexivity].
  unfold tablet_reps. destruct (crit_dc c) as [d|].
  - rewrite Hdc. destruct (Tablets.lookup (c_tablets cl) k t) as [l|] eqn:El; cbn [option_map tab_reps].
    + rewrite !in_map_iff. unfold Tablets.restrict_dc. split.
      * intros (r & <- & Hr). apply filter_In in Hr. destruct Hr as [Hr Hd]. cbn [fst].
        split; [exists r; tauto|]. intros d0 [= <-].
        rewrite <- (in_dc_optN (c_dcf cl) d _ _ (Hco k t l r El Hr)). assumption.
      * intros [(r & <- & Hr) Hd]. exists r. split; [reflexivity|]. apply filter_In. split; [assumption|].
        rewrite (in_dc_optN (c_dcf cl) d _ _ (Hco k t l r El Hr)). now apply Hd.
    + split; [intros []|intros [[] _]].
  - split; [intros H; split; [assumption|intros ? [=]]|tauto].
Qed.

(* token_strategy for the request Session::execute builds *)
Lemma routing_request_ok st cfg values rq :
  routing_request st cfg values = Ok rq ->
  exists tok, PartKey.ps_calculate_token true (st_part st) (st_ncols st) (st_wire st) values = Ok tok /\
    rq_token rq = tok /\ rq_ks rq = option_map fst (st_table st) /\
    rq_lwt rq = (st_lwt st || ex_serial_cl cfg)%bool /\ rq_pref rq = ex_pref cfg.
Proof.
  unfold routing_request. destruct (PartKey.ps_calculate_token _ _ _ _) as [tok|e]; [|discriminate].
  intros [= <-]. exists tok. cbn. repeat split; reflexivity.
Qed.

Definition keys_ok (cl : cluster) : Prop :=
  forall k s, ks_lookup (c_keyspaces cl) k = Some s -> nts_keys_ok s.

Theorem route_ok_sound cl cfg st values obs :
  sorted_weak (c_ring cl) -> keys_ok cl ->
  ((exists k tt, st_table st = Some k /\ Tablets.find_table (c_tablets cl) k = Some tt) -> tablets_coherent cl) ->
  route_ok cl cfg st values obs = true -> route_prop cl cfg st values obs.
Proof.
  intros Hs Hk Hco Hacc k t s Hst Htok Hta Hks rq Hrq own Hex. subst own.
  unfold route_ok in Hacc. rewrite Hrq in Hacc.
  destruct (routing_request_ok _ _ _ _ Hrq) as (tok & Htok' & Hrt & Hrk & _ & _).
  rewrite Htok in Htok'. injection Htok' as <-.
  assert (Hts : token_strategy (c_keyspaces cl) (ex_pol cfg) rq = Some (t, s)).
  { unfold token_strategy. rewrite Hta, Hrt, Hrk, Hst. cbn [option_map fst]. now rewrite Hks. }
  unfold route_source in Hacc. rewrite Hts, Hst in Hacc.
  destruct (Tablets.find_table (c_tablets cl) k) as [tt|] eqn:Eft.
  - assert (Hco' : tablets_coherent cl) by (apply Hco; exists k, tt; tauto).
    exact (accept_obs_sound cl cfg rq _ (owners cl k t s) (tablet_source_ok cl k t s tt Hco' Eft) obs Hacc Hex).
  - exact (accept_obs_sound cl cfg rq _ (owners cl k t s) (ring_source_ok cl k t s Hs (Hk _ _ Hks) Eft) obs Hacc Hex).
Qed.

(* ====================================================================================== *)
(* 3. the model's first attempt is accepted, for every oracle                               *)
(* ====================================================================================== *)

Definition shuf_ok (shufp : nat -> list sreplica -> list sreplica) : Prop :=
  forall site l, Permutation (shufp site l) l.

Lemma dedup_aux_incl kept l x : In x (dedup_aux kept l) -> In x l.
Proof.
  revert kept. induction l as [|y r IH]; intros kept; cbn [dedup_aux]; [intros []|].
  destruct (existsb (target_cmp y) kept).
  - intros H. right. now apply IH in H.
  - intros [<-|H]; [now left|right; now apply IH in H].
Qed.
Lemma dedup_incl l x : In x (dedup l) -> In x l.
Proof. apply dedup_aux_incl. Qed.
Lemma dedup_cons x l : dedup (x :: l) = x :: dedup_aux [x] l.
Proof. reflexivity. Qed.
Lemma dedup_nil_inv l : dedup l = [] -> l = [].
Proof. destruct l; [reflexivity|rewrite dedup_cons; discriminate]. Qed.

Lemma first_nonempty_prefix {A} (l : list (list A)) : exists r, concat l = first_nonempty l ++ r.
Proof.
  induction l as [|[|x v] l IH]; cbn [concat first_nonempty app].
  - now exists []. - exact IH. - exists (concat l). reflexivity.
Qed.

Lemma first_nonempty_In {A} (l : list (list A)) x : In x (first_nonempty l) -> exists v, In v l /\ In x v.
Proof.
  induction l as [|[|y v] l IH]; cbn [first_nonempty]; [intros []| |].
  - intros H. destruct (IH H) as (v & Hv & Hx). exists v. split; [now right|assumption].
  - intros H. exists (y :: v). split; [now left|assumption].
Qed.

Lemma list_case {A} (l : list A) : l = [] \/ exists x r, l = x :: r.
Proof. destruct l as [|x r]; [now left|right; eauto]. Qed.
Lemma first_nonempty_cons_nil {A} (l : list (list A)) : first_nonempty ([] :: l) = first_nonempty l.
Proof. reflexivity. Qed.
Lemma first_nonempty_single {A} (v : list A) : first_nonempty [v] = v.
Proof. destruct v; reflexivity. Qed.
Lemma first_nonempty_cons_ne {A} (v : list A) l : v <> [] -> first_nonempty (v :: l) = v.
Proof. destruct v; [congruence|reflexivity]. Qed.

Definition cands_of (rackf : N -> option N) (en co : N -> bool) (s : rsource) (lwt : bool) (c : crit) : list sreplica :=
  g_filtered rackf en co s c lwt.

Section ModelAccepted.
  Variables (cl : cluster) (cfg : exec_cfg) (rq : request).
  Variables (cho : nat -> nat -> nat) (shufp : nat -> list sreplica -> list sreplica).
  Hypothesis Hcho : cho_ok cho.
  Hypothesis Hshuf : shuf_ok shufp.
  Hypothesis Hwf : forall n, pool_wf (c_pool cl n).
  Hypothesis Hen : forall n, c_enabled cl n = false -> c_pool cl n = PoolDown.

  Let pol := ex_pol cfg.
  Let dcf := c_dcf cl.
  Let rackf := c_rackf cl.
  Let g := c_ring cl.
  Let en := c_enabled cl.
  Let co := c_connected cl.
  Let al := alive en co.
  Let ln := local_nodes dcf g pol rq.
  Let an := all_nodes g.

  (* ---- a live node always yields a connection, a dead one never ------------------------- *)
  Lemma alive_connection n shard : al n = true ->
    exists c, node_connection cl cho n shard = Some c /\ In c (pool_conns (c_pool cl n)) /\
      (pool_sharder (c_pool cl n) <> None -> pool_has_shard (c_pool cl n) (shard_u16 shard) = true ->
       conn_shard c = shard_u16 shard).
  Proof.
    unfold al, alive, en, co, c_connected. intros H. apply andb_true_iff in H. destruct H as [He Hc].
    unfold node_connection. rewrite He.
    apply connection_for_shard_spec; [assumption|apply Hwf|].
    intros E. rewrite E in Hc. discriminate.
  Qed.

  Lemma dead_connection n shard : al n = false -> node_connection cl cho n shard = None.
  Proof.
    unfold al, alive, en, co, c_connected, node_connection. intros H.
    destruct (c_enabled cl n) eqn:He; [|reflexivity]. cbn [andb] in H.
    destruct (c_pool cl n); [reflexivity|discriminate|discriminate].
  Qed.

  Lemma accept_shard_conn n want c : In c (pool_conns (c_pool cl n)) ->
    (forall w, want = Some w -> pool_sharder (c_pool cl n) <> None ->
       pool_has_shard (c_pool cl n) (shard_u16 w) = true -> conn_shard c = shard_u16 w) ->
    accept_shard cl n want (conn_shard c) = true.
  Proof.
    intros Hin Hw. unfold accept_shard.
    assert (Hhas : pool_has_shard (c_pool cl n) (conn_shard c) = true)
      by (apply pool_has_shard_spec; exists c; tauto).
    destruct (pool_sharder (c_pool cl n)) as [shd|] eqn:Es; [|assumption].
    destruct want as [w|]; [|assumption].
    destruct (pool_has_shard (c_pool cl n) (shard_u16 w)) eqn:Eh; [|assumption].
    apply N.eqb_eq. apply Hw; [reflexivity|congruence|assumption].
  Qed.

  (* ---- the node part of the plan -------------------------------------------------------- *)
  Definition rack_pred (n : N) : bool :=
    match crit_rack pol rq with Some c => al n && crit_ok rackf c n | None => false end.
  Let g1 := match crit_rack pol rq with Some c => filter (fun n => al n && crit_ok rackf c n) ln | None => [] end.
  Let g2 := filter al ln.
  Let g3 := if failover_possible pol rq then filter al an else [].

  Lemma node_cands_eq : node_cands cl cfg rq = first_nonempty [g1; g2; g3].
  Proof. reflexivity. Qed.

  Lemma filter_nil_iff {A} (p : A -> bool) l : filter p l = [] <-> forall x, In x l -> p x = false.
  Proof.
    split.
    - intros H x Hx. destruct (p x) eqn:E; [|reflexivity].
      assert (In x (filter p l)) by (apply filter_In; tauto). rewrite H in H0. destruct H0.
    - intros H. induction l as [|y r IH]; [reflexivity|]. cbn. rewrite (H y) by now left.
      apply IH. intros x Hx. apply H. now right.
  Qed.

  Lemma pick_node_filter site nodes pred :
    match pick_node cho site nodes pred with
    | Some n => In n (filter pred nodes)
    | None => filter pred nodes = []
    end.
  Proof.
    pose proof (pick_node_spec cho site nodes pred) as H.
    destruct (pick_node cho site nodes pred) as [n|].
    - apply filter_In. exact H.
    - now apply filter_nil_iff.
  Qed.

  (* pick()'s node part: a node of the first live group when there is one; in any case a node of
     the permitted set that is enabled *)
  Lemma pick_nodes_part_spec :
    match pick_nodes_part dcf rackf g en co pol rq cho with
    | Some (n, sh) =>
        sh = None /\
        match node_cands cl cfg rq with
        | [] => al n = false
        | l => In n l
        end
    | None => node_cands cl cfg rq = []
    end.
  Proof.
    rewrite node_cands_eq. unfold pick_nodes_part, node_steps. cbn [first_node].
    fold ln an al. unfold g1, g2, g3.
    (* step 1 *)
    destruct (crit_rack pol rq) as [c|] eqn:Ecr.
    - pose proof (pick_node_filter 24 ln (fun n => al n && crit_ok rackf c n)) as H1.
      destruct (pick_node cho 24 ln _) as [n|].
      + split; [reflexivity|]. cbn [first_nonempty].
        destruct (filter _ ln) as [|y r]; [destruct H1|exact H1].
      + rewrite H1. cbn [first_nonempty]. clear H1.
        pose proof (pick_node_filter 25 ln al) as H2.
        destruct (pick_node cho 25 ln al) as [n|].
        * split; [reflexivity|]. destruct (filter al ln) as [|y r]; [destruct H2|exact H2].
        * rewrite H2. cbn [first_nonempty].
          destruct (failover_possible pol rq).
          -- pose proof (pick_node_filter 26 an al) as H3.
             destruct (pick_node cho 26 an al) as [n|].
             ++ split; [reflexivity|]. destruct (filter al an) as [|y r]; [destruct H3|exact H3].
             ++ rewrite H3. cbn [first_nonempty].
                pose proof (pick_node_spec cho 27 ln en) as H4.
                destruct (pick_node cho 27 ln en) as [n|].
                ** split; [reflexivity|]. apply filter_nil_iff with (x := n) in H3; [assumption|].
                   destruct H4 as [H4 _].
                   apply (local_nodes_ok dcf rackf g en co (fun _ => 0%N)) in H4. apply H4.
                ** pose proof (pick_node_spec cho 28 an en) as H5.
                   destruct (pick_node cho 28 an en) as [n|]; [|reflexivity].
                   split; [reflexivity|]. apply filter_nil_iff with (x := n) in H3; [assumption|apply H5].
          -- cbn [first_nonempty].
             pose proof (pick_node_spec cho 27 ln en) as H4.
             destruct (pick_node cho 27 ln en) as [n|]; [|reflexivity].
             split; [reflexivity|]. destruct H4 as [H4 _].
             now apply filter_nil_iff with (x := n) in H2.
    - cbn [first_nonempty].
      pose proof (pick_node_filter 25 ln al) as H2.
      destruct (pick_node cho 25 ln al) as [n|] eqn:E25.
      + split; [reflexivity|]. destruct (filter al ln) as [|y r]; [destruct H2|exact H2].
      + rewrite H2. cbn [first_nonempty].
        destruct (failover_possible pol rq).
        * pose proof (pick_node_filter 26 an al) as H3.
          destruct (pick_node cho 26 an al) as [n|].
          -- split; [reflexivity|]. destruct (filter al an) as [|y r]; [destruct H3|exact H3].
          -- rewrite H3. cbn [first_nonempty].
             pose proof (pick_node_spec cho 27 ln en) as H4.
             destruct (pick_node cho 27 ln en) as [n|].
             ++ split; [reflexivity|]. apply filter_nil_iff with (x := n) in H3; [assumption|].
                destruct H4 as [H4 _].
                apply (local_nodes_ok dcf rackf g en co (fun _ => 0%N)) in H4. apply H4.
             ++ pose proof (pick_node_spec cho 28 an en) as H5.
                destruct (pick_node cho 28 an en) as [n|]; [|reflexivity].
                split; [reflexivity|]. apply filter_nil_iff with (x := n) in H3; [assumption|apply H5].
        * cbn [first_nonempty].
          pose proof (pick_node_spec cho 27 ln en) as H4.
          destruct (pick_node cho 27 ln en) as [n|]; [|reflexivity].
          split; [reflexivity|]. destruct H4 as [H4 _].
          now apply filter_nil_iff with (x := n) in H2.
  Qed.

  (* ---- fallback()'s node part ------------------------------------------------------------ *)
  Lemma round_robin_nil site nodes pred : round_robin cho site nodes pred = [] <-> filter pred nodes = [].
  Proof.
    rewrite !filter_nil_iff. unfold round_robin. rewrite filter_nil_iff. split; intros H x Hx; apply H.
    - revert Hx. apply Permutation_in, Permutation_sym, rotate_perm.
    - revert Hx. apply Permutation_in, rotate_perm.
  Qed.
  Lemma round_robin_filter site nodes pred n : In n (round_robin cho site nodes pred) <-> In n (filter pred nodes).
  Proof. rewrite round_robin_In, filter_In. tauto. Qed.

  Let rr4 := match crit_rack pol rq with
             | Some c => round_robin cho 4 ln (fun n => al n && crit_ok rackf c n) | None => [] end.
  Let rr5 := round_robin cho 5 ln al.
  Let rr6 := if failover_possible pol rq then round_robin cho 6 an al else [].
  Let down_part := filter en ln ++ (if failover_possible pol rq then filter en an else []).

  Lemma fb_nodes_eq : fb_nodes dcf rackf g en co pol rq cho =
    map (fun n => (n, None)) (rr4 ++ rr5 ++ rr6 ++ down_part).
  Proof. reflexivity. Qed.

  Lemma rr_groups : (rr4 = [] <-> g1 = []) /\ (rr5 = [] <-> g2 = []) /\ (rr6 = [] <-> g3 = []) /\
    (forall n, In n rr4 -> In n g1) /\ (forall n, In n rr5 -> In n g2) /\ (forall n, In n rr6 -> In n g3).
  Proof.
    unfold rr4, rr5, rr6, g1, g2, g3.
    destruct (crit_rack pol rq); destruct (failover_possible pol rq);
      repeat split; try tauto; try apply round_robin_nil; try (intros n; apply round_robin_filter).
  Qed.

  Lemma down_part_dead n : node_cands cl cfg rq = [] -> In n (rr4 ++ rr5 ++ rr6 ++ down_part) -> al n = false.
  Proof.
    rewrite node_cands_eq. intros Hnc Hn.
    pose proof (first_nonempty_nil _ Hnc) as Hall.
    assert (H1 : g1 = []) by (apply Hall; cbn; tauto).
    assert (H2 : g2 = []) by (apply Hall; cbn; tauto).
    assert (H3 : g3 = []) by (apply Hall; cbn; tauto).
    destruct rr_groups as (_ & _ & _ & I1 & I2 & I3).
    apply in_app_or in Hn. destruct Hn as [Hn|Hn]; [apply I1 in Hn; rewrite H1 in Hn; destruct Hn|].
    apply in_app_or in Hn. destruct Hn as [Hn|Hn]; [apply I2 in Hn; rewrite H2 in Hn; destruct Hn|].
    apply in_app_or in Hn. destruct Hn as [Hn|Hn]; [apply I3 in Hn; rewrite H3 in Hn; destruct Hn|].
    unfold down_part in Hn. apply in_app_or in Hn. destruct Hn as [Hn|Hn].
    - apply filter_In in Hn. destruct Hn as [Hn _]. unfold g2 in H2.
      now apply filter_nil_iff with (x := n) in H2.
    - unfold g3 in H3. destruct (failover_possible pol rq); [|destruct Hn].
      apply filter_In in Hn. destruct Hn as [Hn _]. now apply filter_nil_iff with (x := n) in H3.
  Qed.

  Lemma fb_nodes_head x rest : node_cands cl cfg rq = x :: rest ->
    exists n tl, fb_nodes dcf rackf g en co pol rq cho = (n, None) :: tl /\ In n (x :: rest).
  Proof.
    rewrite node_cands_eq, fb_nodes_eq. intros Hnc.
    destruct rr_groups as (E1 & E2 & E3 & I1 & I2 & I3).
    destruct (list_case rr4) as [R4|(a & r4 & R4)].
    - rewrite (proj1 E1 R4), first_nonempty_cons_nil in Hnc.
      destruct (list_case rr5) as [R5|(b & r5 & R5)].
      + rewrite (proj1 E2 R5), first_nonempty_cons_nil, first_nonempty_single in Hnc.
        destruct (list_case rr6) as [R6|(c & r6 & R6)].
        * rewrite (proj1 E3 R6) in Hnc. discriminate.
        * rewrite R4, R5, R6. cbn [app map]. exists c. eexists. split; [reflexivity|].
          rewrite <- Hnc. apply I3. rewrite R6. now left.
      + rewrite first_nonempty_cons_ne in Hnc by (intros G; apply E2 in G; congruence).
        rewrite R4, R5. cbn [app map]. exists b. eexists. split; [reflexivity|].
        rewrite <- Hnc. apply I2. rewrite R5. now left.
    - rewrite first_nonempty_cons_ne in Hnc by (intros G; apply E1 in G; congruence).
      rewrite R4. cbn [app map]. exists a. eexists. split; [reflexivity|].
      rewrite <- Hnc. apply I1. rewrite R4. now left.
  Qed.

  (* ---- the replica part ------------------------------------------------------------------ *)
  Section WithSource.
    Variable s : rsource.
    Hypothesis Hord : forall c x, In x (src_ordered s c) <-> In x (src_iter s c).

    Local Notation cands := (cands_of rackf en co s (rq_lwt rq)).
    Local Notation pick_replica := (g_pick_replica rackf en co rq cho).

    Lemma cands_alive c x : In x (cands c) -> al (fst x) = true.
    Proof.
      unfold cands_of, g_filtered, sr_ok. rewrite filter_In. intros [_ H]. apply andb_true_iff in H. apply H.
    Qed.

    Lemma filtered_views c : g_filtered rackf en co s c true = [] <-> g_filtered rackf en co s c false = [].
    Proof.
      unfold g_filtered. rewrite !filter_nil_iff. split; intros H x Hx; apply H; now apply Hord.
    Qed.

    Lemma pick_replica_spec site c : c <> CAny \/ rq_lwt rq = false ->
      match cands c with
      | [] => pick_replica site s c = None
      | x :: rest => exists y, In y (x :: rest) /\ (rq_lwt rq = true -> y = x) /\
                               pick_replica site s c = Some (GComputed y)
      end.
    Proof.
      intros Hc. unfold cands_of, g_pick_replica. destruct (rq_lwt rq) eqn:El.
      - destruct c as [|d|d r]; [destruct Hc; congruence| |];
          (destruct (g_filtered rackf en co s _ true) as [|x rest]; [reflexivity|];
           exists x; split; [now left|]; split; reflexivity).
      - destruct (nth_error (src_iter s c) (cho site (List.length (src_iter s c)))) as [happy|] eqn:Eh.
        + destruct (sr_ok rackf en co c happy) eqn:Eok.
          * assert (Hin : In happy (g_filtered rackf en co s c false)).
            { unfold g_filtered. apply filter_In. split; [now apply nth_error_In in Eh|assumption]. }
            destruct (g_filtered rackf en co s c false) as [|x rest]; [destruct Hin|].
            exists happy. split; [assumption|]. split; [discriminate|reflexivity].
          * destruct (g_filtered rackf en co s c false) as [|x rest] eqn:Ef; [cbn [List.length]; destruct (cho (site + 10) 0); reflexivity|].
            destruct (nth_error (x :: rest) (cho (site + 10) (List.length (x :: rest)))) as [y|] eqn:Ey.
            -- exists y. split; [now apply nth_error_In in Ey|]. split; [discriminate|reflexivity].
            -- apply nth_error_None in Ey. specialize (Hcho (site + 10)%nat (List.length (x :: rest))).
               cbn [List.length] in *. lia.
        + assert (Hnil : src_iter s c = []).
          { apply nth_error_None in Eh. destruct (src_iter s c) as [|z r]; [reflexivity|].
            specialize (Hcho site (List.length (z :: r))). cbn [List.length] in *. lia. }
          unfold g_filtered. rewrite Hnil. reflexivity.
    Qed.

    Definition site_of (c : crit) : nat := match c with CRack _ _ => 21 | CDc _ => 22 | CAny => 23 end.
    Definition fbsite_of (c : crit) : nat := match c with CRack _ _ => 1 | CDc _ => 2 | CAny => 3 end.
    Definition steps_of (crits : list crit) : list (option gpicked) :=
      map (fun c => pick_replica (site_of c) s c) crits.

    Lemma replica_steps_eq k :
      g_first_picked (g_replica_steps rackf en co pol rq cho s) k = g_first_picked (steps_of (allowed_crits pol rq)) k.
    Proof.
      unfold g_replica_steps, steps_of, allowed_crits, crit_rack, crit_local, remote_allowed, failover_possible.
      destruct (eff_pref pol rq) as [|d|d r]; cbn [pref_dc app map site_of].
      - reflexivity.
      - destruct (pol_failover pol); reflexivity.
      - destruct (pol_failover pol); reflexivity.
    Qed.

    Lemma fb_replicas_eq :
      g_fb_replicas rackf en co pol rq (Some s) shufp =
      map to_target (concat (map (fun c => g_maybe_shuffled rackf en co rq shufp (fbsite_of c) s c) (allowed_crits pol rq))).
    Proof.
      unfold g_fb_replicas, allowed_crits, crit_rack, crit_local, remote_allowed, failover_possible.
      destruct (eff_pref pol rq) as [|d|d r]; cbn [pref_dc app map concat fbsite_of]; rewrite ?app_nil_r.
      - reflexivity.
      - destruct (pol_failover pol); cbn [app map concat]; rewrite ?app_nil_r; reflexivity.
      - destruct (pol_failover pol); cbn [app map concat]; rewrite ?app_nil_r; reflexivity.
    Qed.

    Lemma allowed_crits_shape : exists l1 l2, allowed_crits pol rq = l1 ++ l2 /\
      Forall (fun c => c <> CAny) l1 /\ (l2 = [] \/ l2 = [CAny]).
    Proof.
      unfold allowed_crits, crit_rack, crit_local, remote_allowed, failover_possible.
      destruct (eff_pref pol rq) as [|d|d r]; cbn [pref_dc app].
      - exists [], [CAny]. repeat split; [constructor|now right].
      - exists [CDc d], (if pol_failover pol then [CAny] else []).
        repeat split; [repeat constructor; discriminate|destruct (pol_failover pol); tauto].
      - exists [CRack d r; CDc d], (if pol_failover pol then [CAny] else []).
        repeat split; [repeat constructor; discriminate|destruct (pol_failover pol); tauto].
    Qed.

    (* what the chain of pick_replica attempts returns *)
    Lemma pick_chain l1 l2 k : Forall (fun c => c <> CAny) l1 -> (l2 = [] \/ l2 = [CAny]) ->
      let r := g_first_picked (steps_of (l1 ++ l2)) k in
      match first_nonempty (map cands (l1 ++ l2)) with
      | x :: rest =>
          (exists y, In y (x :: rest) /\ (rq_lwt rq = true -> y = x) /\ r = Some (to_target y)) \/
          (rq_lwt rq = true /\ r = None)
      | [] => r = k \/ r = None
      end.
    Proof.
      intros H1 H2. induction H1 as [|c l1 Hc H1 IH]; cbn [app].
      - destruct H2 as [->| ->]; cbn [map steps_of first_nonempty g_first_picked site_of]; [now left|].
        destruct (Bool.bool_dec (rq_lwt rq) true) as [El|El].
        + (* LWT, unrestricted: the primary replica or nothing *)
          unfold cands_of, g_pick_replica, g_filtered. rewrite El.
          destruct (src_ordered s CAny) as [|p rest] eqn:Eo; cbn [filter g_first_picked]; [now left|].
          unfold sr_ok. cbn [crit_ok]. rewrite andb_true_r. fold al.
          destruct (al (fst p)) eqn:Ea.
          * left. exists p. split; [now left|]. split; reflexivity.
          * destruct (filter _ rest); [now right|right; split; reflexivity].
        + apply not_true_is_false in El.
          pose proof (pick_replica_spec 23 CAny (or_intror El)) as Hp.
          destruct (cands CAny) as [|x rest]; [rewrite Hp; now left|].
          destruct Hp as (y & Hy & Hl & ->). left. exists y. repeat split; assumption.
      - cbn [map steps_of first_nonempty g_first_picked]. fold (steps_of (l1 ++ l2)).
        pose proof (pick_replica_spec (site_of c) c (or_introl Hc)) as Hp.
        destruct (cands c) as [|x rest].
        + rewrite Hp. exact IH.
        + destruct Hp as (y & Hy & Hl & ->). left. exists y. repeat split; assumption.
    Qed.

    Lemma maybe_shuffled_lwt site c : rq_lwt rq = true ->
      g_maybe_shuffled rackf en co rq shufp site s c = cands c.
    Proof. intros El. unfold g_maybe_shuffled, cands_of. now rewrite El. Qed.

    Lemma maybe_shuffled_nil site c : cands c = [] -> g_maybe_shuffled rackf en co rq shufp site s c = [].
    Proof.
      unfold g_maybe_shuffled, cands_of. destruct (rq_lwt rq) eqn:El; [trivial|].
      intros E. rewrite E. apply Permutation_nil, Permutation_sym, Hshuf.
    Qed.

    (* the plan starts with a live replica of the first criterion that has one *)
    Lemma plan_head_replica x rest : replica_cands cl cfg rq (Some s) = x :: rest ->
      exists y tl, In y (x :: rest) /\ (rq_lwt rq = true -> y = x) /\
        g_plan dcf rackf g en co pol rq (Some s) cho shufp = to_target y :: tl.
    Proof.
      unfold replica_cands. fold pol rackf en co. change (fun c => g_filtered rackf en co s c (rq_lwt rq)) with cands. intros Erc.
      destruct allowed_crits_shape as (l1 & l2 & Ecs & Hl1 & Hl2).
      pose proof (pick_chain l1 l2 (pick_nodes_part dcf rackf g en co pol rq cho) Hl1 Hl2) as Hch.
      cbv zeta in Hch. rewrite <- Ecs, Erc in Hch. rewrite <- replica_steps_eq in Hch.
      unfold g_plan, g_pick.
      destruct Hch as [(y & Hy & Hl & ->)|[El ->]].
      - exists y. eexists. repeat split; [assumption|assumption].
      - unfold g_fallback. rewrite fb_replicas_eq.
        assert (Hcat : exists r', concat (map (fun c => g_maybe_shuffled rackf en co rq shufp (fbsite_of c) s c)
                                         (allowed_crits pol rq)) = (x :: rest) ++ r').
        { rewrite <- Erc.
          replace (map (fun c => g_maybe_shuffled rackf en co rq shufp (fbsite_of c) s c) (allowed_crits pol rq))
            with (map cands (allowed_crits pol rq)).
          - apply first_nonempty_prefix.
          - apply map_ext. intros c. symmetry. now apply maybe_shuffled_lwt. }
        destruct Hcat as [r' ->]. cbn [app map]. rewrite dedup_cons.
        exists x. eexists. split; [now left|]. split; reflexivity.
    Qed.

    Lemma fb_replicas_nil : replica_cands cl cfg rq (Some s) = [] ->
      g_fb_replicas rackf en co pol rq (Some s) shufp = [].
    Proof.
      unfold replica_cands. fold pol rackf en co. change (fun c => g_filtered rackf en co s c (rq_lwt rq)) with cands. intros Erc. rewrite fb_replicas_eq.
      pose proof (first_nonempty_nil _ Erc) as Hall.
      assert (G : forall cs, (forall c, In c cs -> cands c = []) ->
                concat (map (fun c => g_maybe_shuffled rackf en co rq shufp (fbsite_of c) s c) cs) = []).
      { induction cs as [|c cs IH]; intros Hcs; [reflexivity|].
        cbn [map concat]. rewrite maybe_shuffled_nil by (apply Hcs; now left). cbn [app].
        apply IH. intros c' Hc'. apply Hcs. now right. }
      rewrite G; [reflexivity|]. intros c Hc. apply Hall. now apply in_map.
    Qed.

    Lemma pick_no_replica : replica_cands cl cfg rq (Some s) = [] ->
      g_pick dcf rackf g en co pol rq (Some s) cho = pick_nodes_part dcf rackf g en co pol rq cho \/
      g_pick dcf rackf g en co pol rq (Some s) cho = None.
    Proof.
      unfold replica_cands. fold pol rackf en co. change (fun c => g_filtered rackf en co s c (rq_lwt rq)) with cands. intros Erc.
      destruct allowed_crits_shape as (l1 & l2 & Ecs & Hl1 & Hl2).
      pose proof (pick_chain l1 l2 (pick_nodes_part dcf rackf g en co pol rq cho) Hl1 Hl2) as Hch.
      cbv zeta in Hch. rewrite <- Ecs, Erc in Hch. rewrite <- replica_steps_eq in Hch. exact Hch.
    Qed.
  End WithSource.

  (* ---- the target loop of the request fiber ---------------------------------------------- *)
  Definition obs_of (o : option (N * conn)) : option (N * N) :=
    option_map (fun nc => (fst nc, conn_shard (snd nc))) o.

  Lemma first_attempt_dead p : (forall x, In x p -> al (fst x) = false) -> first_attempt cl cho p = None.
  Proof.
    induction p as [|x p IH]; intros H; [reflexivity|]. cbn [first_attempt].
    unfold with_random_shard at 1 2. cbn [fst snd]. rewrite dead_connection by (apply H; now left).
    apply IH. intros y Hy. apply H. now right.
  Qed.

  Lemma first_attempt_head (x : target) (tl : list target) : al (fst x) = true ->
    exists c, first_attempt cl cho (x :: tl) = Some (fst x, c) /\ In c (pool_conns (c_pool cl (fst x))) /\
      (forall w, snd x = Some w -> pool_sharder (c_pool cl (fst x)) <> None ->
         pool_has_shard (c_pool cl (fst x)) (shard_u16 w) = true -> conn_shard c = shard_u16 w).
  Proof.
    intros Ha. cbn [first_attempt]. unfold with_random_shard. cbn [fst snd].
    destruct (alive_connection (fst x) (match snd x with Some s => s | None =>
                N.of_nat (cho 30 match pool_sharder (c_pool cl (fst x)) with Some (nr, _) => N.to_nat nr | None => 1%nat end) end) Ha)
      as (c & Ec & Hin & Hsh).
    rewrite Ec. exists c. split; [reflexivity|]. split; [assumption|].
    intros w Hw. rewrite Hw in Hsh. exact Hsh.
  Qed.

  (* no live replica: the first attempt goes to a live node of the first node group that has one,
     or nowhere *)
  Lemma nodes_case src :
    g_fb_replicas rackf en co pol rq src shufp = [] ->
    (g_pick dcf rackf g en co pol rq src cho = pick_nodes_part dcf rackf g en co pol rq cho \/
     g_pick dcf rackf g en co pol rq src cho = None) ->
    match node_cands cl cfg rq, obs_of (first_attempt cl cho (g_plan dcf rackf g en co pol rq src cho shufp)) with
    | [], None => True
    | l, Some (n, sh) => In n l /\ accept_shard cl n None sh = true
    | _, _ => False
    end.
  Proof.
    intros Hfb Hpick. unfold g_plan, g_fallback. rewrite Hfb. cbn [app].
    pose proof pick_nodes_part_spec as Hk.
    destruct (node_cands cl cfg rq) as [|x rest] eqn:Enc.
    - (* nobody is alive: every element of the plan is skipped *)
      rewrite first_attempt_dead; [exact I|].
      assert (Hfbn : forall y, In y (fb_nodes dcf rackf g en co pol rq cho) -> al (fst y) = false).
      { intros y Hy. rewrite fb_nodes_eq in Hy. apply in_map_iff in Hy. destruct Hy as (n & <- & Hn).
        cbn [fst]. now apply down_part_dead. }
      assert (Hded : forall y, In y (dedup (fb_nodes dcf rackf g en co pol rq cho)) -> al (fst y) = false).
      { intros y Hy. apply Hfbn. now apply dedup_incl. }
      destruct Hpick as [-> | ->].
      + destruct (pick_nodes_part dcf rackf g en co pol rq cho) as [[n sh]|].
        * destruct Hk as [_ Hk]. intros y [<-|Hy]; [exact Hk|]. apply filter_In in Hy. apply Hded, Hy.
        * destruct (dedup _) as [|f r] eqn:Ed; [intros ? []|].
          intros y [<-|Hy]; [apply Hded; now left|]. apply filter_In in Hy. apply Hded. right. apply Hy.
      + destruct (dedup _) as [|f r] eqn:Ed; [intros ? []|].
        intros y [<-|Hy]; [apply Hded; now left|]. apply filter_In in Hy. apply Hded. right. apply Hy.
    - assert (Hal : forall n, In n (x :: rest) -> al n = true).
      { intros n Hn. rewrite <- Enc, node_cands_eq in Hn. apply first_nonempty_In in Hn.
        destruct Hn as (v & Hv & Hn). unfold g1, g2, g3 in Hv.
        destruct Hv as [<-|[<-|[<-|[]]]].
        - destruct (crit_rack pol rq); [|destruct Hn]. apply filter_In in Hn. destruct Hn as [_ Hn].
          apply andb_true_iff in Hn. apply Hn.
        - apply filter_In in Hn. apply Hn.
        - destruct (failover_possible pol rq); [|destruct Hn]. apply filter_In in Hn. apply Hn. }
      assert (Hhead : exists n (tl : list target), In n (x :: rest) /\
                match g_pick dcf rackf g en co pol rq src cho with
                | Some p => p :: filter (fun y => negb (target_eqb y p)) (dedup (fb_nodes dcf rackf g en co pol rq cho))
                | None => match dedup (fb_nodes dcf rackf g en co pol rq cho) with
                          | [] => []
                          | f :: r => f :: filter (fun y => negb (target_eqb y f)) r
                          end
                end = @cons target (n, None) tl).
      { destruct (fb_nodes_head x rest Enc) as (n' & tl' & Efb & Hn').
        destruct Hpick as [-> | ->].
        - destruct (pick_nodes_part dcf rackf g en co pol rq cho) as [[n sh]|].
          + destruct Hk as [-> Hk]. exists n. eexists. split; [exact Hk|reflexivity].
          + discriminate.
        - rewrite Efb, dedup_cons. exists n'. eexists. split; [assumption|reflexivity]. }
      destruct Hhead as (n & tl & Hn & ->).
      destruct (first_attempt_head (n, None) tl (Hal n Hn)) as (c & -> & Hin & _).
      cbn [obs_of option_map fst snd]. split; [assumption|].
      apply accept_shard_conn; [assumption|discriminate].
  Qed.

  (* THE MODEL IS ACCEPTED: whatever the oracles draw, the (node, shard of the connection) of the
     model's first attempt passes the acceptor *)
  Theorem plan_accepted src :
    (forall s, src = Some s -> forall c x, In x (src_ordered s c) <-> In x (src_iter s c)) ->
    accept_obs cl cfg rq src
      (obs_of (first_attempt cl cho (g_plan dcf rackf g en co pol rq src cho shufp))) = true.
  Proof.
    intros Hord. unfold accept_obs.
    destruct (replica_cands cl cfg rq src) as [|x rest] eqn:Erc.
    - assert (Hn : match node_cands cl cfg rq, obs_of (first_attempt cl cho (g_plan dcf rackf g en co pol rq src cho shufp)) with
                   | [], None => True
                   | l, Some (n, sh) => In n l /\ accept_shard cl n None sh = true
                   | _, _ => False
                   end).
      { apply nodes_case.
        - destruct src as [s|]; [|reflexivity]. apply (fb_replicas_nil s); try assumption; try (apply Hord; reflexivity).
        - destruct src as [s|]; [|now left]. apply (pick_no_replica s); try assumption; try (apply Hord; reflexivity). }
      destruct (node_cands cl cfg rq) as [|y l];
        destruct (obs_of _) as [[n sh]|]; try exact (False_ind _ Hn); try reflexivity.
      + destruct Hn as [[] _].
      + destruct Hn as [Hn1 Hn2]. apply andb_true_iff. split; [now apply mem_In|assumption].
    - destruct src as [s|]; [|discriminate].
      destruct (plan_head_replica s (Hord s eq_refl) x rest Erc) as (y & tl & Hy & Hl & ->).
      assert (Ha : al (fst y) = true).
      { rewrite <- Erc in Hy. unfold replica_cands in Hy. apply first_nonempty_In in Hy.
        destruct Hy as (v & Hv & Hy). apply in_map_iff in Hv. destruct Hv as (c & <- & _).
        exact (cands_alive s c y Hy). }
      destruct (first_attempt_head (to_target y) tl Ha) as (c & -> & Hin & Hsh).
      cbn [obs_of option_map fst snd to_target] in *.
      assert (Hacc : accept_shard cl (fst y) (Some (snd y)) (conn_shard c) = true).
      { apply accept_shard_conn; [assumption|]. intros w [= <-]. now apply Hsh. }
      destruct (rq_lwt rq) eqn:El.
      + rewrite <- (Hl eq_refl). rewrite N.eqb_refl. exact Hacc.
      + apply existsb_exists. exists y. split; [assumption|]. rewrite N.eqb_refl. exact Hacc.
  Qed.
End ModelAccepted.

(* ---- for the two concrete kinds of source, and for the whole route ---------------------- *)
Definition cluster_ok (cl : cluster) : Prop :=
  (forall n, pool_wf (c_pool cl n)) /\ (forall n, c_enabled cl n = false -> c_pool cl n = PoolDown).

Lemma route_source_views cl pol rq table s :
  sorted_weak (c_ring cl) -> keys_ok cl ->
  route_source cl pol rq table = Some s -> forall c x, In x (src_ordered s c) <-> In x (src_iter s c).
Proof.
  intros Hs Hk. unfold route_source.
  destruct (token_strategy (c_keyspaces cl) pol rq) as [[t st]|] eqn:Ets; [|discriminate].
  destruct table as [k|]; [|discriminate].
  destruct (Tablets.find_table (c_tablets cl) k) as [tt|] eqn:Eft; intros [= <-] c x.
  - reflexivity.
  - assert (Hst : nts_keys_ok st).
    { unfold token_strategy in Ets. destruct (pol_token_aware pol); [|discriminate].
      destruct (rq_token rq); [|discriminate]. destruct (rq_ks rq) as [ks|]; [|discriminate].
      destruct (ks_lookup (c_keyspaces cl) ks) eqn:E; [|discriminate]. injection Ets as _ <-. exact (Hk _ _ E). }
    cbn [ring_source src_iter src_ordered]. rewrite !in_map_iff.
    split; intros (n & <- & Hn); exists n; (split; [reflexivity|]); revert Hn;
      apply Permutation_in; [|apply Permutation_sym]; now apply ordered_perm.
Qed.

Definition route_obs (cl : cluster) cho shufp cfg st values : result PartKey.c03_error (option (N * N)) :=
  match route cl cho shufp cfg st values with
  | Ok o => Ok (obs_of o)
  | Err e => Err e
  end.

Theorem route_accepted cl cfg st values cho shufp :
  cho_ok cho -> shuf_ok shufp -> cluster_ok cl -> sorted_weak (c_ring cl) -> keys_ok cl ->
  match route_obs cl cho shufp cfg st values with
  | Ok obs => route_ok cl cfg st values obs = true
  | Err _ => route_ok cl cfg st values None = true
  end.
Proof.
  intros Hc Hsh [Hwf Hen] Hs Hk. unfold route_obs, route, route_ok.
  destruct (routing_request st cfg values) as [rq|e]; [|reflexivity].
  unfold route_plan. apply plan_accepted; try assumption.
  intros s Es. now apply (route_source_views cl (ex_pol cfg) rq (st_table st)).
Qed.

(* ====================================================================================== *)
(* 4. the composition: the property holds of the model's route, for every oracle            *)
(* ====================================================================================== *)
Theorem route_model_prop cl cfg st values cho shufp obs :
  cho_ok cho -> shuf_ok shufp -> cluster_ok cl -> sorted_weak (c_ring cl) -> keys_ok cl ->
  ((exists k tt, st_table st = Some k /\ Tablets.find_table (c_tablets cl) k = Some tt) -> tablets_coherent cl) ->
  route_obs cl cho shufp cfg st values = Ok obs -> route_prop cl cfg st values obs.
Proof.
  intros Hc Hsh Hcl Hs Hk Hco Hr.
  pose proof (route_accepted cl cfg st values cho shufp Hc Hsh Hcl Hs Hk) as Ha. rewrite Hr in Ha.
  now apply route_ok_sound.
Qed.

Lemma route_obs_inv cl cho shufp cfg st values rq :
  routing_request st cfg values = Ok rq ->
  route cl cho shufp cfg st values = Ok (first_attempt cl cho (route_plan cl cho shufp cfg st rq)) /\
  route_obs cl cho shufp cfg st values = Ok (obs_of (first_attempt cl cho (route_plan cl cho shufp cfg st rq))).
Proof. intros H. unfold route_obs, route. rewrite H. split; reflexivity. Qed.

Lemma owners_ring cl k t s : Tablets.find_table (c_tablets cl) k = None ->
  owners cl k t s = map (fun n => (n, spec_owner_shard (c_pool cl n) t))
                        (spec_replicas (c_dcf cl) (c_rackf cl) (c_ring cl) t s None).
Proof. intros H. unfold owners. now rewrite H. Qed.

Lemma lookup_tablet_table s k t tb : Tablets.lookup_tablet s k t = Some tb ->
  exists tt, Tablets.find_table s k = Some tt.
Proof. unfold Tablets.lookup_tablet. destruct (Tablets.find_table s k) as [tt|]; [eauto|discriminate]. Qed.

Lemma owners_tablet cl k t s tb : Tablets.lookup_tablet (c_tablets cl) k t = Some tb ->
  owners cl k t s = map (fun r => (Tablets.host (fst r), snd r)) (Tablets.r_all (Tablets.t_reps tb)).
Proof.
  intros H. unfold owners. destruct (lookup_tablet_table _ _ _ _ H) as [tt ->].
  unfold Tablets.lookup. now rewrite H.
Qed.

(* C12_first_target, in full: a ring table *)
Theorem first_target_ring cl cfg st values cho shufp k t s rq :
  cho_ok cho -> shuf_ok shufp -> cluster_ok cl -> sorted_weak (c_ring cl) -> keys_ok cl ->
  st_table st = Some k -> Tablets.find_table (c_tablets cl) k = None ->
  PartKey.ps_calculate_token true (st_part st) (st_ncols st) (st_wire st) values = Ok (Some t) ->
  pol_token_aware (ex_pol cfg) = true ->
  ks_lookup (c_keyspaces cl) (fst k) = Some s ->
  routing_request st cfg values = Ok rq ->
  let reps := spec_replicas (c_dcf cl) (c_rackf cl) (c_ring cl) t s None in
  (exists n, In n reps /\ usable cl (ex_pol cfg) rq n = true) ->
  exists n c,
    route cl cho shufp cfg st values = Ok (Some (n, c)) /\
    In n reps /\ usable cl (ex_pol cfg) rq n = true /\
    (forall d, pref_dc (eff_pref (ex_pol cfg) rq) = Some d ->
       (exists m, In m reps /\ c_alive cl m = true /\ in_dc (c_dcf cl) d m = true) ->
       in_dc (c_dcf cl) d n = true) /\
    (forall nr msb, pool_sharder (c_pool cl n) = Some (nr, msb) ->
       pool_has_shard (c_pool cl n) (shard_u16 (spec_shard_of nr msb t)) = true ->
       conn_shard c = shard_u16 (spec_shard_of nr msb t)).
Proof.
  intros Hc Hsh Hcl Hs Hk Hst Hft Htok Hta Hks Hrq reps (n0 & Hn0 & Hu0).
  destruct (route_obs_inv cl cho shufp cfg st values rq Hrq) as [Er Eo].
  assert (Hco : (exists k tt, st_table st = Some k /\ Tablets.find_table (c_tablets cl) k = Some tt) -> tablets_coherent cl).
  { intros (k' & tt & Hk' & Hf). rewrite Hst in Hk'. injection Hk' as <-. congruence. }
  pose proof (route_model_prop cl cfg st values cho shufp _ Hc Hsh Hcl Hs Hk Hco Eo k t s Hst Htok Hta Hks rq Hrq) as P.
  cbv zeta in P. rewrite (owners_ring cl k t s Hft) in P.
  destruct P as (n & sh & r & Eobs & Hr & Hfst & Hu & Hd & Hshard).
  { exists (n0, spec_owner_shard (c_pool cl n0) t). split; [|assumption].
    apply in_map_iff. exists n0. tauto. }
  apply in_map_iff in Hr. destruct Hr as (n' & <- & Hn'). cbn [fst] in Hfst. subst n'.
  destruct (first_attempt cl cho (route_plan cl cho shufp cfg st rq)) as [[n1 c]|] eqn:Efa; [|discriminate].
  cbn [obs_of option_map fst snd] in Eobs. injection Eobs as -> <-.
  exists n, c. split; [rewrite Er; reflexivity|]. split; [assumption|]. split; [assumption|]. split.
  - intros d Hp (m & Hm & Ham & Hdm). apply (Hd d Hp).
    exists (m, spec_owner_shard (c_pool cl m) t). split; [apply in_map_iff; exists m; tauto|]. tauto.
  - intros nr msb Ep Hhas. destruct Hshard as (r' & Hr' & Hf' & Hs'); [congruence|].
    apply in_map_iff in Hr'. destruct Hr' as (m & <- & _). cbn [fst snd] in *. subst m.
    unfold spec_owner_shard in Hs'. rewrite Ep in Hs'. now apply Hs'.
Qed.

(* C12_tablets, in full: a table with a tablet covering the token *)
Theorem first_target_tablet cl cfg st values cho shufp k t s rq tb :
  cho_ok cho -> shuf_ok shufp -> cluster_ok cl -> sorted_weak (c_ring cl) -> keys_ok cl -> tablets_coherent cl ->
  st_table st = Some k -> Tablets.lookup_tablet (c_tablets cl) k t = Some tb ->
  PartKey.ps_calculate_token true (st_part st) (st_ncols st) (st_wire st) values = Ok (Some t) ->
  pol_token_aware (ex_pol cfg) = true ->
  ks_lookup (c_keyspaces cl) (fst k) = Some s ->
  routing_request st cfg values = Ok rq ->
  let reps := Tablets.r_all (Tablets.t_reps tb) in
  (exists r, In r reps /\ usable cl (ex_pol cfg) rq (Tablets.host (fst r)) = true) ->
  exists n c r,
    route cl cho shufp cfg st values = Ok (Some (n, c)) /\
    In r reps /\ Tablets.host (fst r) = n /\ usable cl (ex_pol cfg) rq n = true /\
    (forall d, pref_dc (eff_pref (ex_pol cfg) rq) = Some d ->
       (exists r', In r' reps /\ c_alive cl (Tablets.host (fst r')) = true /\
                   in_dc (c_dcf cl) d (Tablets.host (fst r')) = true) ->
       in_dc (c_dcf cl) d n = true) /\
    (pool_sharder (c_pool cl n) <> None ->
     exists r', In r' reps /\ Tablets.host (fst r') = n /\
       (pool_has_shard (c_pool cl n) (shard_u16 (snd r')) = true -> conn_shard c = shard_u16 (snd r'))).
Proof.
  intros Hc Hsh Hcl Hs Hk Hco Hst Hlt Htok Hta Hks Hrq reps (r0 & Hr0 & Hu0).
  destruct (route_obs_inv cl cho shufp cfg st values rq Hrq) as [Er Eo].
  pose proof (route_model_prop cl cfg st values cho shufp _ Hc Hsh Hcl Hs Hk (fun _ => Hco) Eo k t s Hst Htok Hta Hks rq Hrq) as P.
  cbv zeta in P. rewrite (owners_tablet cl k t s tb Hlt) in P.
  destruct P as (n & sh & r & Eobs & Hr & Hfst & Hu & Hd & Hshard).
  { exists (Tablets.host (fst r0), snd r0). split; [|assumption]. apply in_map_iff. exists r0. tauto. }
  apply in_map_iff in Hr. destruct Hr as (r1 & <- & Hr1). cbn [fst] in Hfst.
  destruct (first_attempt cl cho (route_plan cl cho shufp cfg st rq)) as [[n1 c]|] eqn:Efa; [|discriminate].
  cbn [obs_of option_map fst snd] in Eobs. injection Eobs as -> <-.
  exists n, c, r1. split; [rewrite Er; reflexivity|]. split; [assumption|]. split; [assumption|].
  split; [assumption|]. split.
  - intros d Hp (r' & Hr' & Ha' & Hd'). apply (Hd d Hp).
    exists (Tablets.host (fst r'), snd r'). split; [apply in_map_iff; exists r'; tauto|]. tauto.
  - intros Hp. destruct (Hshard Hp) as (r' & Hr' & Hf' & Hs').
    apply in_map_iff in Hr'. destruct Hr' as (r2 & <- & Hr2). cbn [fst snd] in *.
    exists r2. tauto.
Qed.

(* tablets take precedence over the ring: the replica source of a table with a tablets entry
   does not look at the keyspace's strategy or at the ring *)
Lemma tablets_precedence cl pol rq k tt :
  Tablets.find_table (c_tablets cl) k = Some tt ->
  route_source cl pol rq (Some k) =
  match token_strategy (c_keyspaces cl) pol rq with
  | Some (t, _) => Some (tablet_source (c_tablets cl) k t)
  | None => None
  end.
Proof. intros H. unfold route_source. destruct (token_strategy _ _ _) as [[t s]|]; [now rewrite H|reflexivity]. Qed.

(* the same token: the request carries the server-side partitioner's token of the bound key *)
Lemma routing_request_token st cfg values :
  st_wire st <> [] -> PartKey_proofs.key_ok (st_ncols st) (st_wire st) values ->
  (List.length (st_wire st) = 1%nat \/
   Forall PartKey_proofs.fits (PartKey.spec_components (st_wire st) values)) ->
  (Z.of_nat (List.length (PartKey.spec_serialized_key (PartKey.spec_components (st_wire st) values))) < 2 ^ 63)%Z ->
  exists rq, routing_request st cfg values = Ok rq /\
             rq_token rq = Some (PartKey.spec_token (st_part st) (st_wire st) values) /\
             rq_ks rq = option_map fst (st_table st).
Proof.
  intros H1 H2 H3 H4. unfold routing_request.
  rewrite (PartKey_proofs.ps_calculate_token_spec true (st_part st) _ _ _ H1 H2 H3 H4).
  eexists. split; [reflexivity|]. split; reflexivity.
Qed.

(* the pool part of C12_shard, for every history of the refiller *)
Theorem pool_shard_bound size evs cho shard :
  Forall event_ok evs -> cho_ok cho ->
  let p := rf_view (pool_run size evs) in
  pool_wf p /\
  (p <> PoolDown ->
   exists c, connection_for_shard cho p shard = Some c /\ In c (pool_conns p) /\
     (pool_sharder p <> None -> pool_has_shard p (shard_u16 shard) = true -> conn_shard c = shard_u16 shard)).
Proof.
  intros Hev Hc p. assert (Hwf : pool_wf p) by (apply rf_view_wf, pool_run_wf, Hev).
  split; [assumption|]. intros Hnd. now apply connection_for_shard_spec.
Qed.

Lemma shard_u16_small nr msb t : (0 < nr <= 65536)%N -> shard_u16 (spec_shard_of nr msb t) = spec_shard_of nr msb t.
Proof.
  intros H. unfold shard_u16. rewrite <- shard_of_spec.
  pose proof (shard_of_lt nr msb t (proj1 H)). destruct (N.leb_spec (shard_of nr msb t) 65535); [reflexivity|lia].
Qed.

(* the tablets state a ClusterState can be in (payloads resolved against the known nodes, every
   refresh deriving removed / recreated nodes) is coherent with the nodes' datacenters *)
Lemma tablets_reachable_coherent cl known0 h :
  Forall Tablets.op_i64 (Tablets.cluster_ops known0 h) ->
  Tablets.run (Tablets.cluster_ops known0 h) = Some (c_tablets cl) ->
  (forall nd, In nd (Tablets.cluster_known known0 h) -> Tablets.ndc nd = c_dcf cl (Tablets.host nd)) ->
  tablets_coherent cl.
Proof.
  intros Hi Hr Hn. split.
  - intros k tok dc. exact (Tablets_proofs.lookup_dc_restrict _ _ k tok dc Hi Hr).
  - intros k tok l r Hl Hin. apply Hn.
    unfold Tablets.lookup in Hl. destruct (Tablets.lookup_tablet (c_tablets cl) k tok) as [t|] eqn:Et; [|discriminate].
    injection Hl as <-.
    exact (Tablets_proofs.cluster_no_stale_nodes known0 h _ k tok t r Hi Hr Et Hin).
Qed.

(* ====================================================================================== *)
(* 5. on ring tables the generalised plan IS the plan of C05 (Model/Plan.v)                 *)
(* ====================================================================================== *)
Lemma filter_map_comm {A B} (f : A -> B) (p : B -> bool) l :
  filter p (map f l) = map f (filter (fun x => p (f x)) l).
Proof. induction l as [|x l IH]; [reflexivity|]. cbn. destruct (p (f x)); cbn; now rewrite IH. Qed.

Section RingEquiv.
  Variables (cl : cluster) (pol : policy) (rq : request) (t : Z) (s : strategy).
  Variables (cho : nat -> nat -> nat) (shufp : nat -> list sreplica -> list sreplica).
  Hypothesis Hs : sorted_weak (c_ring cl).
  Hypothesis Hk : nts_keys_ok s.
  Hypothesis Hshuf : shuf_ok shufp.

  Let dcf := c_dcf cl.
  Let rackf := c_rackf cl.
  Let g := c_ring cl.
  Let kss := c_keyspaces cl.
  Let en := c_enabled cl.
  Let co := c_connected cl.
  Definition ring_shf (n : N) : N := computed_shard (c_pool cl n) t.
  Let sh (n : N) : sreplica := (n, ring_shf n).
  (* the node-level shuffle a (node, shard)-level shuffle induces *)
  Definition node_shuf (site : nat) (l : list N) : list N := map fst (shufp site (map sh l)).

  Lemma node_shuf_perm site l : Permutation (node_shuf site l) l.
  Proof.
    unfold node_shuf. replace l with (map fst (map sh l)) at 2.
    - apply Permutation_map, Hshuf.
    - rewrite map_map. cbn. apply map_id.
  Qed.

  Lemma shufp_lift site l : shufp site (map sh l) = map sh (node_shuf site l).
  Proof.
    unfold node_shuf. rewrite map_map.
    assert (H : forall x, In x (shufp site (map sh l)) -> sh (fst x) = x).
    { intros x Hx. apply (Permutation_in _ (Hshuf site (map sh l))) in Hx.
      apply in_map_iff in Hx. destruct Hx as (n & <- & _). reflexivity. }
    induction (shufp site (map sh l)) as [|x r IH]; [reflexivity|].
    cbn [map]. rewrite H by now left. f_equal. apply IH. intros y Hy. apply H. now right.
  Qed.

  Lemma ring_iter_eq c :
    src_iter (ring_source cl t s) c = map sh (reps_iter dcf rackf g kss t s c).
  Proof.
    cbn [ring_source src_iter]. unfold reps_iter, rset_for. f_equal.
    apply precomputed_any. exact Hs.
  Qed.

  Lemma ring_ordered_eq c :
    src_ordered (ring_source cl t s) c = map sh (reps_ordered dcf rackf g kss t s c).
  Proof.
    cbn [ring_source src_ordered]. unfold reps_ordered, rset_for. f_equal.
    rewrite !ordered_view by assumption. cbn [fst].
    now rewrite (precomputed_any (c_dcf cl) (c_rackf cl) (c_ring cl) (c_pre cl) (pre kss) t s (crit_dc c) Hs).
  Qed.

  Lemma ring_filtered_eq c det :
    g_filtered rackf en co (ring_source cl t s) c det =
    map sh (filtered_replicas dcf rackf g kss t s c (alive en co) det).
  Proof.
    unfold g_filtered, filtered_replicas. destruct det.
    - rewrite ring_ordered_eq, filter_map_comm. reflexivity.
    - rewrite ring_iter_eq, filter_map_comm. reflexivity.
  Qed.

  Lemma ring_shuffled_eq site c :
    g_maybe_shuffled rackf en co rq shufp site (ring_source cl t s) c =
    map sh (maybe_shuffled dcf rackf g kss en co rq node_shuf site t s c).
  Proof.
    unfold g_maybe_shuffled, maybe_shuffled. destruct (rq_lwt rq).
    - apply ring_filtered_eq.
    - rewrite ring_filtered_eq. apply shufp_lift.
  Qed.

  Hypothesis Hts : token_strategy kss pol rq = Some (t, s).

  Lemma ring_fb_replicas_eq :
    g_fb_replicas rackf en co pol rq (Some (ring_source cl t s)) shufp =
    fb_replicas dcf rackf g kss en co ring_shf pol rq node_shuf.
  Proof.
    unfold g_fb_replicas, fb_replicas. rewrite Hts.
    assert (G : forall l, map to_target (map sh l) = map (fun n => (n, Some (ring_shf n))) l)
      by (intros l; rewrite map_map; reflexivity).
    rewrite <- G. f_equal. rewrite !map_app. f_equal; [|f_equal].
    - destruct (crit_rack pol rq); [apply ring_shuffled_eq|reflexivity].
    - destruct (crit_local pol rq); [apply ring_shuffled_eq|reflexivity].
    - destruct (remote_allowed pol rq); [apply ring_shuffled_eq|reflexivity].
  Qed.

  Definition lift_picked (p : picked) : gpicked :=
    match p with Computed n => GComputed (sh n) | ToBeComputedInFallback => GToBeComputedInFallback end.

  Lemma ring_pick_replica_eq site c :
    g_pick_replica rackf en co rq cho site (ring_source cl t s) c =
    option_map lift_picked (pick_replica dcf rackf g kss en co rq cho site t s c).
  Proof.
    unfold g_pick_replica, pick_replica. destruct (rq_lwt rq).
    - destruct c as [|d|d r].
      + rewrite ring_ordered_eq. destruct (reps_ordered dcf rackf g kss t s CAny) as [|p rest]; [reflexivity|].
        cbn [map sh fst]. destruct (alive en co p); reflexivity.
      + rewrite ring_filtered_eq. destruct (filtered_replicas _ _ _ _ _ _ _ _ true); reflexivity.
      + rewrite ring_filtered_eq. destruct (filtered_replicas _ _ _ _ _ _ _ _ true); reflexivity.
    - rewrite ring_iter_eq, map_length, nth_error_map.
      destruct (nth_error (reps_iter dcf rackf g kss t s c) _) as [happy|]; [|reflexivity].
      cbn [option_map]. unfold sr_ok. cbn [sh fst].
      destruct (alive en co happy && crit_ok rackf c happy); [reflexivity|].
      rewrite ring_filtered_eq, map_length, nth_error_map. unfold filtered_replicas.
      destruct (nth_error _ _); reflexivity.
  Qed.

  Lemma ring_first_picked_eq l k :
    g_first_picked (map (option_map lift_picked) l) k = first_picked ring_shf l k.
  Proof.
    induction l as [|[[n|]|] l IH]; cbn [map option_map lift_picked g_first_picked first_picked]; auto.
  Qed.

  Lemma ring_pick_eq :
    g_pick dcf rackf g en co pol rq (Some (ring_source cl t s)) cho =
    pick dcf rackf g kss en co ring_shf pol rq cho.
  Proof.
    unfold g_pick, pick. rewrite Hts. rewrite <- ring_first_picked_eq. f_equal.
    unfold g_replica_steps, replica_steps. cbn [map].
    repeat f_equal.
    - destruct (crit_rack pol rq); [apply ring_pick_replica_eq|reflexivity].
    - destruct (crit_local pol rq); [apply ring_pick_replica_eq|reflexivity].
    - destruct (remote_allowed pol rq); [apply ring_pick_replica_eq|reflexivity].
  Qed.

  (* every plan of the generalised model on a ring table is a plan of the C05 model, with the
     induced node-level shuffle: all theorems of C05 apply to it *)
  Theorem ring_plan_eq :
    g_plan dcf rackf g en co pol rq (Some (ring_source cl t s)) cho shufp =
    plan dcf rackf g kss en co ring_shf pol rq cho node_shuf.
  Proof.
    unfold g_plan, plan, g_fallback, fallback. rewrite ring_pick_eq, ring_fb_replicas_eq. reflexivity.
  Qed.
End RingEquiv.

Theorem route_plan_ring cl cfg st rq cho shufp k t s :
  sorted_weak (c_ring cl) -> keys_ok cl -> shuf_ok shufp ->
  st_table st = Some k -> Tablets.find_table (c_tablets cl) k = None ->
  token_strategy (c_keyspaces cl) (ex_pol cfg) rq = Some (t, s) ->
  route_plan cl cho shufp cfg st rq =
  plan (c_dcf cl) (c_rackf cl) (c_ring cl) (c_keyspaces cl) (c_enabled cl) (c_connected cl)
       (ring_shf cl t) (ex_pol cfg) rq cho (node_shuf cl t shufp) /\
  (forall site l, Permutation (node_shuf cl t shufp site l) l).
Proof.
  intros Hs Hk Hsh Hst Hft Hts. split; [|intros site l; now apply node_shuf_perm].
  unfold route_plan, route_source. rewrite Hts, Hst, Hft.
  apply ring_plan_eq; try assumption.
  unfold token_strategy in Hts. destruct (pol_token_aware (ex_pol cfg)); [|discriminate].
  destruct (rq_token rq); [|discriminate]. destruct (rq_ks rq) as [ks|]; [|discriminate].
  destruct (ks_lookup (c_keyspaces cl) ks) eqn:E; [|discriminate]. injection Hts as _ <-. exact (Hk _ _ E).
Qed.

(* ... in particular C05_plan_properties: the plan a ring-table request is executed over is
   duplicate-free, names only enabled nodes, only preferred-datacenter nodes without failover,
   every other enabled node, in group order, deterministic replica order for LWT *)
Theorem route_plan_c05 cl cfg st rq cho shufp k t s :
  sorted_weak (c_ring cl) -> keys_ok cl -> shuf_ok shufp -> cho_ok cho ->
  st_table st = Some k -> Tablets.find_table (c_tablets cl) k = None ->
  token_strategy (c_keyspaces cl) (ex_pol cfg) rq = Some (t, s) ->
  let p := map fst (route_plan cl cho shufp cfg st rq) in
  P_nodup p /\ P_filter (c_enabled cl) p /\ P_locality (c_dcf cl) (ex_pol cfg) rq p /\
  P_complete (c_dcf cl) (c_ring cl) (c_enabled cl) (ex_pol cfg) rq p /\
  P_order (c_dcf cl) (c_rackf cl) (c_ring cl) (c_keyspaces cl) (c_enabled cl) (c_connected cl) (ex_pol cfg) rq p /\
  P_lwt (c_dcf cl) (c_rackf cl) (c_ring cl) (c_keyspaces cl) (c_enabled cl) (c_connected cl) (ex_pol cfg) rq p.
Proof.
  intros Hs Hk Hsh Hc Hst Hft Hts.
  destruct (route_plan_ring cl cfg st rq cho shufp k t s Hs Hk Hsh Hst Hft Hts) as [-> Hp].
  exact (plan_properties (c_dcf cl) (c_rackf cl) (c_ring cl) (c_keyspaces cl) (c_enabled cl) (c_connected cl)
           (ring_shf cl t) (ex_pol cfg) rq Hs Hk cho (node_shuf cl t shufp) Hp Hc).
Qed.

(* ---- the acceptor of the pool tie ---------------------------------------------------------- *)
Lemma accept_conn_shard_sound p want sh : accept_conn_shard p want sh = true ->
  pool_has_shard p sh = true /\
  (pool_sharder p <> None -> pool_has_shard p (shard_u16 want) = true -> sh = shard_u16 want).
Proof.
  unfold accept_conn_shard. intros H. apply andb_true_iff in H. destruct H as [H1 H2].
  split; [assumption|]. intros Hs Hh. destruct (pool_sharder p); [|congruence].
  rewrite Hh in H2. now apply N.eqb_eq.
Qed.

Lemma accept_conn_shard_complete cho p want c : pool_wf p ->
  connection_for_shard cho p want = Some c -> cho_ok cho -> accept_conn_shard p want (conn_shard c) = true.
Proof.
  intros Hwf Hc Hcho. assert (Hnd : p <> PoolDown) by (intros ->; discriminate).
  destruct (connection_for_shard_spec cho p want Hcho Hwf Hnd) as (c' & Ec & Hin & Hsh).
  rewrite Hc in Ec. injection Ec as <-. unfold accept_conn_shard. apply andb_true_iff. split.
  - apply pool_has_shard_spec. exists c. tauto.
  - destruct (pool_sharder p) eqn:Es; [|reflexivity].
    destruct (pool_has_shard p (shard_u16 want)) eqn:Eh; [|reflexivity].
    apply N.eqb_eq. apply Hsh; [congruence|reflexivity].
Qed.

(* ====================================================================================== *)
(* 6. deepening: LWT determinism, tablets without a usable replica, unknown hosts, trimming *)
(* ====================================================================================== *)

(* LWT: the first attempt is THE first live replica (ring order / tablet order) of the first
   location criterion that has one -- the same for every oracle *)
Theorem lwt_first_target cl cfg st values cho shufp rq x rest :
  cho_ok cho -> shuf_ok shufp -> cluster_ok cl -> sorted_weak (c_ring cl) -> keys_ok cl ->
  routing_request st cfg values = Ok rq -> rq_lwt rq = true ->
  replica_cands cl cfg rq (route_source cl (ex_pol cfg) rq (st_table st)) = x :: rest ->
  exists c, route cl cho shufp cfg st values = Ok (Some (fst x, c)) /\
    In c (pool_conns (c_pool cl (fst x))) /\
    (pool_sharder (c_pool cl (fst x)) <> None ->
     pool_has_shard (c_pool cl (fst x)) (shard_u16 (snd x)) = true -> conn_shard c = shard_u16 (snd x)).
Proof.
  intros Hc Hsh [Hwf Hen] Hs Hk Hrq Hl Hrc.
  destruct (route_source cl (ex_pol cfg) rq (st_table st)) as [s|] eqn:Esrc; [|discriminate].
  pose proof (route_source_views cl (ex_pol cfg) rq (st_table st) s Hs Hk Esrc) as Hord.
  destruct (plan_head_replica cl cfg rq cho shufp Hc s Hord x rest Hrc) as (y & tl & Hy & Hyx & Hp).
  rewrite (Hyx Hl) in Hp. clear y Hy Hyx.
  assert (Ha : alive (c_enabled cl) (c_connected cl) (fst x) = true).
  { assert (Hin : In x (replica_cands cl cfg rq (Some s))) by (rewrite Hrc; now left).
    unfold replica_cands in Hin. apply first_nonempty_In in Hin. destruct Hin as (v & Hv & Hx).
    apply in_map_iff in Hv. destruct Hv as (c & <- & _). exact (cands_alive cl rq s c x Hx). }
  destruct (first_attempt_head cl cho Hc Hwf (to_target x) tl Ha) as (c & Ec & Hin & Hshard).
  exists c. split.
  - unfold route. rewrite Hrq. unfold route_plan. rewrite Esrc, Hp, Ec. reflexivity.
  - split; [exact Hin|]. intros H1 H2. exact (Hshard (snd x) eq_refl H1 H2).
Qed.

(* what the LWT candidates of a tablet table are: the tablet's own list, in ITS order, restricted
   to the live nodes (and to the criterion's datacenter / rack) *)
Lemma lwt_cands_tablet cl (rq : request) k t c : rq_lwt rq = true ->
  g_filtered (c_rackf cl) (c_enabled cl) (c_connected cl) (tablet_source (c_tablets cl) k t) c (rq_lwt rq) =
  filter (fun x => c_alive cl (fst x) && crit_ok (c_rackf cl) c (fst x))
         (tablet_reps (c_tablets cl) k t (crit_dc c)).
Proof. intros ->. reflexivity. Qed.

(* ... and of a ring table: the replicas in the order of their first position on the ring walk
   from the token (C04_views_ordered), each with its computed shard *)
Lemma lwt_cands_ring cl (rq : request) t s c : rq_lwt rq = true -> sorted_weak (c_ring cl) -> nts_keys_ok s ->
  g_filtered (c_rackf cl) (c_enabled cl) (c_connected cl) (ring_source cl t s) c (rq_lwt rq) =
  filter (fun x => c_alive cl (fst x) && crit_ok (c_rackf cl) c (fst x))
    (map (fun n => (n, computed_shard (c_pool cl n) t))
       (filter (fun n => mem n (spec_replicas (c_dcf cl) (c_rackf cl) (c_ring cl) t s (crit_dc c)))
               (uniq (ring_range (c_ring cl) t)))).
Proof.
  intros -> Hs Hk. unfold g_filtered. cbn [ring_source src_ordered].
  rewrite ordered_view by assumption. cbn [fst]. now rewrite replicas_spec by assumption.
Qed.

(* a table with a tablets entry but no live permitted replica for the token (no tablet covers it,
   or the covering tablet names only unknown / dead hosts): the request is NOT routed by the ring;
   the first attempt goes to a live node of the first node group that has one, or nowhere *)
Theorem tablet_no_replica_nodes cl cfg st values cho shufp rq :
  cho_ok cho -> shuf_ok shufp -> cluster_ok cl -> sorted_weak (c_ring cl) -> keys_ok cl ->
  routing_request st cfg values = Ok rq ->
  replica_cands cl cfg rq (route_source cl (ex_pol cfg) rq (st_table st)) = [] ->
  match route_obs cl cho shufp cfg st values with
  | Ok (Some (n, sh)) => In n (node_cands cl cfg rq) /\ pool_has_shard (c_pool cl n) sh = true
  | Ok None => node_cands cl cfg rq = []
  | Err _ => False
  end.
Proof.
  intros Hc Hsh [Hwf Hen] Hs Hk Hrq Hrc.
  pose proof (plan_accepted cl cfg rq cho shufp Hc Hsh Hwf
                (route_source cl (ex_pol cfg) rq (st_table st))
                (fun s Es => route_source_views cl (ex_pol cfg) rq (st_table st) s Hs Hk Es)) as Ha.
  unfold route_obs, route. rewrite Hrq. unfold route_plan.
  unfold accept_obs in Ha. rewrite Hrc in Ha.
  destruct (obs_of _) as [[n sh]|].
  - destruct (node_cands cl cfg rq) as [|y l] eqn:En; [discriminate|].
    apply andb_true_iff in Ha. destruct Ha as [H1 H2]. split; [now apply mem_In|].
    unfold accept_shard in H2. destruct (pool_sharder (c_pool cl n)); exact H2.
  - destruct (node_cands cl cfg rq); [reflexivity|discriminate].
Qed.

Lemma tablet_uncovered_no_cands cl cfg rq k t :
  tablets_coherent cl -> Tablets.lookup (c_tablets cl) k t = None ->
  replica_cands cl cfg rq (Some (tablet_source (c_tablets cl) k t)) = [].
Proof.
  intros [Hdc _] Hl. unfold replica_cands.
  assert (G : forall c, g_filtered (c_rackf cl) (c_enabled cl) (c_connected cl)
                          (tablet_source (c_tablets cl) k t) c (rq_lwt rq) = []).
  { intros c. unfold g_filtered. cbn [tablet_source src_iter src_ordered]. unfold tablet_reps.
    destruct (crit_dc c) as [d|]; [rewrite Hdc|]; rewrite Hl; destruct (rq_lwt rq); reflexivity. }
  induction (allowed_crits (ex_pol cfg) rq) as [|c cs IH]; [reflexivity|].
  cbn [map first_nonempty]. now rewrite G.
Qed.

(* composed with C15: right after a payload naming hosts the driver does not know, the owners of
   a token of its range are exactly the KNOWN hosts of the payload, in payload order (the unknown
   ones are skipped, there is no fallback to the ring) *)
Theorem owners_after_learn cl pre k a b raw known tok s :
  Forall Tablets.op_i64 (pre ++ [Tablets.Learn k a b raw known]) ->
  Tablets.run (pre ++ [Tablets.Learn k a b raw known]) = Some (c_tablets cl) ->
  Tablets.spec_payload_ok a b raw = true -> a < tok <= b ->
  owners cl k tok s =
  map (fun r => (Tablets.host (fst r), snd r))
      (Tablets.spec_resolved known (map (fun hs => (fst hs, Z.to_N (snd hs))) raw)).
Proof.
  intros Hi Hr Hp Ht.
  pose proof (Tablets_proofs.latest_wins pre [] k a b raw known tok (c_tablets cl) Hi Hr Hp Ht eq_refl) as Hl.
  cbn in Hl. unfold owners.
  destruct (Tablets.find_table (c_tablets cl) k) as [tt|] eqn:Eft.
  - rewrite Hl. reflexivity.
  - unfold Tablets.lookup, Tablets.lookup_tablet in Hl. rewrite Eft in Hl. discriminate.
Qed.

(* ---- excess-connection trimming: a full pool keeps no excess connection ------------------ *)
Lemma forallb_set_slot_shrink {A} (n : nat) i (v : list A) (l : list (list A)) :
  (List.length v <= List.length (nth i l []))%nat ->
  forallb (fun w => (n <=? List.length w)%nat) (set_slot i v l) = true ->
  forallb (fun w => (n <=? List.length w)%nat) l = true.
Proof.
  revert i. induction l as [|w l IH]; intros i Hv H; [reflexivity|].
  destruct i as [|i]; cbn [set_slot forallb nth] in *.
  - apply andb_true_iff in H. destruct H as [H1 H2]. apply andb_true_iff. split; [|assumption].
    apply Nat.leb_le in H1. apply Nat.leb_le. lia.
  - apply andb_true_iff in H. destruct H as [H1 H2]. apply andb_true_iff. split; [assumption|].
    now apply (IH i).
Qed.

Lemma concat_set_slot_length {A} i (v : list A) (l : list (list A)) : (i < List.length l)%nat ->
  (List.length (concat (set_slot i v l)) + List.length (nth i l []) =
   List.length (concat l) + List.length v)%nat.
Proof.
  revert i. induction l as [|w l IH]; intros i Hi; [cbn in Hi; lia|].
  destruct i as [|i]; cbn [set_slot concat nth]; rewrite !app_length.
  - lia.
  - cbn in Hi. specialize (IH i ltac:(lia)). lia.
Qed.

Definition trimmed (size : pool_size) (r : refiller) : Prop :=
  rf_is_full size r = true -> rf_excess r = [].

Lemma remove_conn_trimmed size r c : trimmed size r -> trimmed size (remove_conn r c).
Proof.
  intros Ht. unfold remove_conn.
  destruct (if (N.to_nat (conn_shard c) <? List.length (rf_conns r))%nat
            then index_conn c (nth (N.to_nat (conn_shard c)) (rf_conns r) []) else None) as [idx|] eqn:E.
  - intros Hf. cbn [rf_excess]. apply Ht.
    destruct (N.to_nat (conn_shard c) <? List.length (rf_conns r))%nat eqn:Elt; [|discriminate].
    apply Nat.ltb_lt in Elt.
    set (i := N.to_nat (conn_shard c)) in *. set (v := nth i (rf_conns r) []) in *.
    assert (Hidx : (idx < List.length v)%nat).
    { clear -E. revert idx E. induction v as [|x v IH]; intros idx E; [discriminate|].
      cbn [index_conn] in E. destruct (conn_eqb c x); [injection E as <-; cbn; lia|].
      destruct (index_conn c v) as [j|]; [|discriminate]. injection E as <-. specialize (IH j eq_refl). cbn. lia. }
    pose proof (swap_remove_length idx v Hidx) as Hlen.
    unfold rf_is_full in *. cbn [rf_conns rf_sharder rf_excess active_count] in *. destruct size as [n|n].
    + unfold active_count in *. cbn [rf_conns] in Hf.
      pose proof (concat_set_slot_length i (swap_remove idx v) (rf_conns r) Elt) as Hc. fold v in Hc.
      apply Nat.leb_le in Hf. apply Nat.leb_le. lia.
    + apply (forallb_set_slot_shrink n i (swap_remove idx v)); [fold v; lia|exact Hf].
  - destruct (index_conn c (rf_excess r)) as [idx|] eqn:E2; [|exact Ht].
    intros Hf. cbn [rf_excess]. unfold rf_is_full in Hf. cbn [rf_conns] in Hf.
    assert (He : rf_excess r = []).
    { apply Ht. unfold rf_is_full. destruct size; exact Hf. }
    rewrite He in E2. discriminate.
Qed.

Theorem pool_run_trimmed size evs : trimmed size (pool_run size evs).
Proof.
  unfold pool_run. assert (H0 : trimmed size rf_init) by (intros _; reflexivity).
  revert H0. generalize rf_init. induction evs as [|e evs IH]; intros r Hr; [exact Hr|].
  cbn [fold_left]. apply IH. destruct e as [c rq|c]; cbn [pool_step].
  - destruct (rf_is_full size (handle_ready size r c rq)) eqn:Ef.
    + intros _. reflexivity.
    + intros Hf. congruence.
  - now apply remove_conn_trimmed.
Qed.

Lemma refill_ok_sound size evs final : refill_ok size evs final = true ->
  map conn_shard (concat (rf_conns (pool_run size evs))) = final.
Proof.
  unfold refill_ok. intros H. now apply list_eqb_spec.
Qed.

(* no usable owner in the SPECIFICATION's sense => the model has no replica candidate (so
   C12_no_replica_nodes applies): the link between "no live permitted replica" and replica_cands *)
Theorem no_usable_owner_no_cands cl cfg st values k t s rq :
  sorted_weak (c_ring cl) -> keys_ok cl ->
  ((exists tt, Tablets.find_table (c_tablets cl) k = Some tt) -> tablets_coherent cl) ->
  st_table st = Some k ->
  PartKey.ps_calculate_token true (st_part st) (st_ncols st) (st_wire st) values = Ok (Some t) ->
  pol_token_aware (ex_pol cfg) = true ->
  ks_lookup (c_keyspaces cl) (fst k) = Some s ->
  routing_request st cfg values = Ok rq ->
  (forall r, In r (owners cl k t s) -> usable cl (ex_pol cfg) rq (fst r) = false) ->
  replica_cands cl cfg rq (route_source cl (ex_pol cfg) rq (st_table st)) = [].
Proof.
  intros Hs Hk Hco Hst Htok Hta Hks Hrq Hno.
  destruct (routing_request_ok _ _ _ _ Hrq) as (tok & Htok' & Hrt & Hrk & _ & _).
  rewrite Htok in Htok'. injection Htok' as <-.
  assert (Hts : token_strategy (c_keyspaces cl) (ex_pol cfg) rq = Some (t, s)).
  { unfold token_strategy. rewrite Hta, Hrt, Hrk, Hst. cbn [option_map fst]. now rewrite Hks. }
  unfold route_source. rewrite Hts, Hst.
  assert (G : forall src, (forall c x,
              (In x (src_iter src c) <-> In x (owners cl k t s) /\ (forall d, crit_dc c = Some d -> in_dc (c_dcf cl) d (fst x) = true)) /\
              (In x (src_ordered src c) <-> In x (src_iter src c))) ->
            replica_cands cl cfg rq (Some src) = []).
  { intros src Hsrc. destruct (replica_cands cl cfg rq (Some src)) as [|x rest] eqn:E; [reflexivity|].
    destruct (replica_cands_sound cl cfg rq src (owners cl k t s) Hsrc x rest E x (or_introl eq_refl)) as (Ho & Hu & _).
    rewrite (Hno x Ho) in Hu. discriminate. }
  destruct (Tablets.find_table (c_tablets cl) k) as [tt|] eqn:Eft.
  - apply G. apply (tablet_source_ok cl k t s tt); [apply Hco; eauto|assumption].
  - apply G. apply (ring_source_ok cl k t s Hs (Hk _ _ Hks) Eft).
Qed.

(* ====================================================================================== *)
(* 7. the executable property predicate: route_prop implies prop_obs_ok                      *)
(*    (so prop_obs_ok = false, the driver's `viol`, refutes route_prop for that observation) *)
(* ====================================================================================== *)
Theorem prop_obs_complete cl cfg st values spec_tok obs :
  (forall t, spec_tok = Some t ->
     PartKey.ps_calculate_token true (st_part st) (st_ncols st) (st_wire st) values = Ok (Some t)) ->
  route_prop cl cfg st values obs -> prop_obs_ok cl cfg st values spec_tok obs = true.
Proof.
  intros Htok P. unfold prop_obs_ok.
  destruct (st_table st) as [k|] eqn:Est; [|reflexivity].
  destruct spec_tok as [t|]; [|reflexivity].
  destruct (routing_request st cfg values) as [rq|e] eqn:Erq; [|reflexivity].
  destruct (pol_token_aware (ex_pol cfg)) eqn:Eta; [|reflexivity]. cbn [negb].
  destruct (ks_lookup (c_keyspaces cl) (fst k)) as [s|] eqn:Eks; [|reflexivity].
  destruct (filter (fun r => usable cl (ex_pol cfg) rq (fst r)) (owners cl k t s)) as [|u us] eqn:Ef; [reflexivity|].
  assert (Hex : exists r, In r (owners cl k t s) /\ usable cl (ex_pol cfg) rq (fst r) = true).
  { exists u. apply (filter_In (fun r => usable cl (ex_pol cfg) rq (fst r)) u (owners cl k t s)). rewrite Ef. now left. }
  destruct (P k t s Est (Htok t eq_refl) Eta Eks rq Erq Hex) as (n & sh & r & -> & Hr & Hfst & Hu & Hd & Hs).
  rewrite <- Ef. apply andb_true_iff. split; [apply andb_true_iff; split|].
  - apply existsb_exists. exists r. split; [apply filter_In; split; [assumption|now rewrite Hfst]|].
    rewrite Hfst. apply N.eqb_refl.
  - destruct (pref_dc (eff_pref (ex_pol cfg) rq)) as [d|] eqn:Ep; [|reflexivity].
    destruct (existsb (fun r0 => c_alive cl (fst r0) && in_dc (c_dcf cl) d (fst r0)) (owners cl k t s)) eqn:Ee;
      [|reflexivity]. cbn [negb orb].
    apply existsb_exists in Ee. destruct Ee as (r' & Hr' & Hb). apply andb_true_iff in Hb.
    apply (Hd d eq_refl). exists r'. tauto.
  - destruct (pool_sharder (c_pool cl n)) as [shd|] eqn:Esh; [|reflexivity].
    destruct Hs as (r' & Hr' & Hf' & Hs'); [congruence|].
    apply existsb_exists. exists r'. split; [assumption|]. rewrite Hf', N.eqb_refl. cbn [andb].
    destruct (pool_has_shard (c_pool cl n) (shard_u16 (snd r'))) eqn:Eh; [|reflexivity].
    cbn [negb orb]. apply N.eqb_eq. now apply Hs'.
Qed.

(* ... and conversely: prop_obs_ok is exactly route_prop for that observation (given the token) *)
Theorem prop_obs_sound cl cfg st values t obs :
  PartKey.ps_calculate_token true (st_part st) (st_ncols st) (st_wire st) values = Ok (Some t) ->
  prop_obs_ok cl cfg st values (Some t) obs = true -> route_prop cl cfg st values obs.
Proof.
  intros Htok Hb k t' s Hst Htok' Hta Hks rq Hrq own Hex. subst own.
  rewrite Htok in Htok'. injection Htok' as <-.
  unfold prop_obs_ok in Hb. rewrite Hst, Hrq, Hta, Hks in Hb. cbn [negb] in Hb.
  destruct Hex as (r0 & Hr0 & Hu0).
  destruct (filter (fun r => usable cl (ex_pol cfg) rq (fst r)) (owners cl k t s)) as [|u us] eqn:Ef.
  { assert (H0 : In r0 (filter (fun r => usable cl (ex_pol cfg) rq (fst r)) (owners cl k t s))) by (apply filter_In; tauto).
    rewrite Ef in H0. destruct H0. }
  rewrite <- Ef in Hb. destruct obs as [[n sh]|]; [|discriminate].
  apply andb_true_iff in Hb. destruct Hb as [Hb Hshard]. apply andb_true_iff in Hb. destruct Hb as [Hnode Hpref].
  apply existsb_exists in Hnode. destruct Hnode as (r & Hr & Hn). apply N.eqb_eq in Hn.
  apply filter_In in Hr. destruct Hr as [Hr Hur].
  exists n, sh, r. split; [reflexivity|]. split; [assumption|]. split; [assumption|].
  split; [now rewrite <- Hn|]. split.
  - intros d Hp (r' & Hr' & Ha' & Hd'). rewrite Hp in Hpref.
    apply orb_true_iff in Hpref. destruct Hpref as [Hne|Hin]; [|assumption].
    apply negb_true_iff in Hne. rewrite <- not_true_iff_false in Hne. exfalso. apply Hne.
    apply existsb_exists. exists r'. split; [assumption|]. now rewrite Ha', Hd'.
  - intros Hs. destruct (pool_sharder (c_pool cl n)); [|congruence].
    apply existsb_exists in Hshard. destruct Hshard as (r' & Hr' & Hb'). apply andb_true_iff in Hb'.
    destruct Hb' as [H1 H2]. apply N.eqb_eq in H1. exists r'. repeat split; try assumption.
    intros Hh. rewrite Hh in H2. cbn in H2. now apply N.eqb_eq.
Qed.

(* ====================================================================================== *)
(* 8. deepening round 3: what the refiller model lets go, and the acceptors of the refiller tie *)
(* ====================================================================================== *)
(* ---- same_keys is multiset equality ---------------------------------------------------- *)
Definition key_eqb (k x : N * N) : bool := N.eqb (fst x) (fst k) && N.eqb (snd x) (snd k).
Lemma key_eqb_eq k x : key_eqb k x = true <-> x = k.
Proof.
  unfold key_eqb. rewrite andb_true_iff, !N.eqb_eq. destruct k, x; cbn. split; [intros [-> ->]; reflexivity|intros [= -> ->]; tauto].
Qed.
Lemma count_key_cons k x l : count_key k (x :: l) = ((if key_eqb k x then 1 else 0) + count_key k l)%nat.
Proof. unfold count_key. cbn [filter]. fold (key_eqb k x). destruct (key_eqb k x); reflexivity. Qed.
Lemma count_key_app k a b : count_key k (a ++ b) = (count_key k a + count_key k b)%nat.
Proof. unfold count_key. now rewrite filter_app, app_length. Qed.
Lemma count_key_pos_In k l : (0 < count_key k l)%nat -> In k l.
Proof.
  induction l as [|x l IH]; [cbn; lia|]. rewrite count_key_cons. destruct (key_eqb k x) eqn:E.
  - intros _. left. now apply key_eqb_eq.
  - intros H. right. apply IH. lia.
Qed.

Lemma same_keys_perm a b : same_keys a b = true -> Permutation a b.
Proof.
  unfold same_keys. rewrite andb_true_iff, forallb_forall. intros [Hl Hc]. apply Nat.eqb_eq in Hl.
  assert (Hc' : forall k, In k a -> count_key k a = count_key k b) by (intros k Hk; apply Nat.eqb_eq, Hc, Hk).
  clear Hc. revert b Hl Hc'. induction a as [|x a IH]; intros b Hl Hc.
  - destruct b; [constructor|discriminate].
  - assert (Hx : In x b).
    { apply count_key_pos_In. rewrite <- Hc by now left. rewrite count_key_cons.
      replace (key_eqb x x) with true by (symmetry; now apply key_eqb_eq). lia. }
    apply in_split in Hx. destruct Hx as (b1 & b2 & ->).
    apply Permutation_cons_app. apply IH.
    + rewrite app_length in *. cbn [List.length] in *. lia.
    + intros k Hk. specialize (Hc k (or_intror Hk)).
      rewrite count_key_cons in Hc. rewrite count_key_app in *. rewrite count_key_cons in Hc. lia.
Qed.

Lemma perm_same_keys a b : Permutation a b -> same_keys a b = true.
Proof.
  intros P. unfold same_keys. apply andb_true_iff. split; [apply Nat.eqb_eq, Permutation_length, P|].
  apply forallb_forall. intros k _. apply Nat.eqb_eq. unfold count_key.
  apply Permutation_length. clear -P. induction P; cbn; try (destruct (_ && _)); try (destruct (N.eqb _ _ && N.eqb _ _)); eauto using Permutation.
Qed.

Lemma conn_eqb_refl x : conn_eqb x x = true.
Proof. unfold conn_eqb. apply N.eqb_refl. Qed.

Lemma held_not_released size r e x :
  In x (rf_held (pool_step size r e)) -> ~ In x (released_step size r e).
Proof.
  intros Hh Hr. destruct e as [c rq|c]; [|exact Hr]. unfold released_step in Hr.
  apply filter_In in Hr. destruct Hr as [_ Hn]. apply negb_true_iff in Hn.
  rewrite <- not_true_iff_false in Hn. apply Hn. apply existsb_exists. exists x. split; [assumption|apply conn_eqb_refl].
Qed.

Lemma In_concat_set_slot_app {A} i (c : A) (l : list (list A)) x :
  In x (concat l) -> In x (concat (set_slot i (nth i l [] ++ [c]) l)).
Proof.
  revert i. induction l as [|v l IH]; intros i H; [destruct i; exact H|].
  destruct i as [|i]; cbn [set_slot nth concat] in *.
  - apply in_app_or in H. apply in_or_app. destruct H as [H|H]; [left; apply in_or_app; now left|now right].
  - apply in_app_or in H. apply in_or_app. destruct H as [H|H]; [now left|right; now apply IH].
Qed.

Lemma In_concat_set_slot_new {A} i (c : A) (l : list (list A)) : (i < List.length l)%nat ->
  In c (concat (set_slot i (nth i l [] ++ [c]) l)).
Proof.
  revert i. induction l as [|v l IH]; intros i H; [cbn in H; lia|].
  destruct i as [|i]; cbn [set_slot nth concat].
  - apply in_or_app. left. apply in_or_app. right. now left.
  - apply in_or_app. right. apply IH. cbn in H. lia.
Qed.

(* without a resharding, handle_ready keeps every connection that sits in a slot *)
Lemma handle_ready_keeps_slots size r c rq x :
  sharder_eqb (rf_sharder r) (conn_sharder c) = true ->
  In x (concat (rf_conns r)) -> In x (concat (rf_conns (handle_ready size r c rq))).
Proof.
  intros Hs Hx. unfold handle_ready, maybe_reshard. rewrite Hs.
  destruct (match size with PerHost n => (active_count r <? n)%nat | PerShard n => (List.length (nth (N.to_nat (conn_shard c)) (rf_conns r) []) <? n)%nat end);
    [|destruct rq; exact Hx].
  cbn [rf_conns]. now apply In_concat_set_slot_app.
Qed.

Lemma pool_step_conns size r e : rf_conns (pool_step size r e) =
  match e with EvReady c rq => rf_conns (handle_ready size r c rq) | EvBroken c => rf_conns (remove_conn r c) end.
Proof. destruct e as [c rq|c]; cbn [pool_step]; [destruct (rf_is_full size _); reflexivity|reflexivity]. Qed.

(* (1) a connection that sits in a pool slot is let go only by a resharding *)
Theorem slot_conn_released_only_by_reshard size r c rq x :
  sharder_eqb (rf_sharder r) (conn_sharder c) = true ->
  In x (concat (rf_conns r)) -> ~ In x (released_step size r (EvReady c rq)).
Proof.
  intros Hs Hx. apply held_not_released. unfold rf_held. apply in_or_app. left.
  rewrite pool_step_conns. now apply handle_ready_keeps_slots.
Qed.

(* the acceptance test of handle_ready *)
Definition at_target (size : pool_size) (r : refiller) (c : conn) : bool :=
  match size with
  | PerHost n => (n <=? active_count r)%nat
  | PerShard n => (n <=? List.length (nth (N.to_nat (conn_shard c)) (rf_conns r) []))%nat
  end.

(* (2) a new connection is let go only if its shard (PerShard) / the node (PerHost) is at its target:
   never a connection of an under-filled shard *)
Theorem new_conn_released_only_at_target size r c rq :
  rf_wf r -> conn_ok c -> sharder_eqb (rf_sharder r) (conn_sharder c) = true ->
  In c (released_step size r (EvReady c rq)) -> at_target size r c = true.
Proof.
  intros Hwf Hok Hs Hr. destruct (at_target size r c) eqn:Et; [reflexivity|]. exfalso.
  revert Hr. apply held_not_released. unfold rf_held. apply in_or_app. left. rewrite pool_step_conns.
  unfold handle_ready, maybe_reshard. rewrite Hs.
  assert (Hcan : match size with PerHost n => (active_count r <? n)%nat
                 | PerShard n => (List.length (nth (N.to_nat (conn_shard c)) (rf_conns r) []) <? n)%nat end = true).
  { unfold at_target in Et. destruct size as [n|n]; apply Nat.leb_gt in Et; now apply Nat.ltb_lt. }
  rewrite Hcan. cbn [rf_conns]. apply In_concat_set_slot_new.
  destruct Hwf as [Hl _]. rewrite Hl. apply sharder_eqb_spec in Hs. rewrite Hs.
  unfold conn_ok, conn_sharder, conn_shard in *. destruct (cinfo c) as [[[s nr] msb]|]; lia.
Qed.

(* (3) under-filled: the new connection is accepted into the slot of the shard the server reported *)
Theorem under_target_accepted size r c rq :
  rf_wf r -> conn_ok c -> sharder_eqb (rf_sharder r) (conn_sharder c) = true -> at_target size r c = false ->
  In c (nth (N.to_nat (conn_shard c)) (rf_conns (pool_step size r (EvReady c rq))) []).
Proof.
  intros Hwf Hok Hs Et. rewrite pool_step_conns. unfold handle_ready, maybe_reshard. rewrite Hs.
  assert (Hcan : match size with PerHost n => (active_count r <? n)%nat
                 | PerShard n => (List.length (nth (N.to_nat (conn_shard c)) (rf_conns r) []) <? n)%nat end = true).
  { unfold at_target in Et. destruct size as [n|n]; apply Nat.leb_gt in Et; now apply Nat.ltb_lt. }
  rewrite Hcan. cbn [rf_conns]. rewrite nth_set_slot.
  - rewrite Nat.eqb_refl. apply in_or_app. right. now left.
  - destruct Hwf as [Hl _]. rewrite Hl. apply sharder_eqb_spec in Hs. rewrite Hs.
    unfold conn_ok, conn_sharder, conn_shard in *. destruct (cinfo c) as [[[s nr] msb]|]; lia.
Qed.

(* (4) a connection waiting in the excess list is let go only when the pool has become full or the list
   outgrew its limit *)
Theorem excess_released_only_when_full size r c rq x :
  sharder_eqb (rf_sharder r) (conn_sharder c) = true ->
  In x (rf_excess r) -> In x (released_step size r (EvReady c rq)) ->
  rf_is_full size (handle_ready size r c rq) = true \/
  (excess_limit size r < S (List.length (rf_excess r)))%nat.
Proof.
  intros Hs Hx Hr. destruct (rf_is_full size (handle_ready size r c rq)) eqn:Ef; [now left|right].
  destruct (Nat.lt_ge_cases (excess_limit size r) (S (List.length (rf_excess r)))) as [H|H]; [assumption|exfalso].
  revert Hr. apply held_not_released. unfold rf_held. apply in_or_app. right.
  cbn [pool_step]. rewrite Ef. unfold handle_ready, maybe_reshard. rewrite Hs.
  destruct (match size with PerHost n => (active_count r <? n)%nat | PerShard n => (List.length (nth (N.to_nat (conn_shard c)) (rf_conns r) []) <? n)%nat end);
    [exact Hx|]. destruct rq; [exact Hx|]. cbn [rf_excess].
  rewrite app_length. cbn [List.length].
  destruct (Nat.ltb_spec (excess_limit size r) (List.length (rf_excess r) + 1)); [lia|].
  apply in_or_app. now left.
Qed.

(* the excess list never outgrows its limit; under PerHost it is always empty *)
Lemma excess_limit_reshard size r sh : excess_limit size (maybe_reshard r sh) = excess_limit size (mkRef sh [] []).
Proof. unfold maybe_reshard. destruct (sharder_eqb (rf_sharder r) sh) eqn:E; [apply sharder_eqb_spec in E; unfold excess_limit; now rewrite E|reflexivity]. Qed.

Definition excess_bounded (size : pool_size) (r : refiller) : Prop :=
  (List.length (rf_excess r) <= excess_limit size r)%nat.

Lemma handle_ready_excess_bounded size r c rq : excess_bounded size r -> excess_bounded size (handle_ready size r c rq).
Proof.
  unfold excess_bounded. intros H. unfold handle_ready.
  set (r1 := maybe_reshard r (conn_sharder c)).
  assert (H1 : (List.length (rf_excess r1) <= excess_limit size r1)%nat).
  { unfold r1, maybe_reshard. destruct (sharder_eqb (rf_sharder r) (conn_sharder c)); [exact H|cbn; lia]. }
  assert (Hl : forall cs ex, excess_limit size (mkRef (rf_sharder r1) cs ex) = excess_limit size r1) by (intros; reflexivity).
  destruct (match size with PerHost n => (active_count r1 <? n)%nat | PerShard n => (List.length (nth (N.to_nat (conn_shard c)) (rf_conns r1) []) <? n)%nat end).
  - rewrite Hl. exact H1.
  - destruct rq; [exact H1|]. rewrite Hl. cbn [rf_excess].
    destruct (Nat.ltb_spec (excess_limit size r1) (List.length (rf_excess r1 ++ [c]))); [cbn; lia|assumption].
Qed.

Lemma swap_remove_length_le {A} i (l : list A) : (List.length (swap_remove i l) <= List.length l)%nat.
Proof.
  destruct l as [|a l'] eqn:E; [cbn; lia|]. rewrite <- E.
  destruct (exists_last (l := l)) as (body & lst & ->); [congruence|].
  rewrite swap_remove_snoc, app_length. cbn [List.length]. destruct (i =? List.length body)%nat; [lia|].
  rewrite app_length. cbn [List.length]. rewrite firstn_length, skipn_length. lia.
Qed.

Lemma remove_conn_excess_bounded size r c : excess_bounded size r -> excess_bounded size (remove_conn r c).
Proof.
  unfold excess_bounded, remove_conn. intros H.
  destruct (if (N.to_nat (conn_shard c) <? List.length (rf_conns r))%nat then index_conn c (nth (N.to_nat (conn_shard c)) (rf_conns r) []) else None).
  - exact H.
  - destruct (index_conn c (rf_excess r)); [|exact H]. cbn [rf_excess].
    pose proof (swap_remove_length_le n (rf_excess r)). unfold excess_limit in *. cbn [rf_sharder]. lia.
Qed.

Theorem pool_run_excess_bounded size evs :
  (List.length (rf_excess (pool_run size evs)) <= excess_limit size (pool_run size evs))%nat.
Proof.
  unfold pool_run. assert (H0 : excess_bounded size rf_init) by (unfold excess_bounded; cbn; lia).
  revert H0. generalize rf_init. induction evs as [|e evs IH]; intros r Hr; [exact Hr|].
  cbn [fold_left]. apply IH. destruct e as [c rq|c]; cbn [pool_step].
  - pose proof (handle_ready_excess_bounded size r c rq Hr) as H.
    destruct (rf_is_full size _); [unfold excess_bounded; cbn; lia|exact H].
  - now apply remove_conn_excess_bounded.
Qed.

(* the limit itself: 10 x shard count, far from overflowing usize for a u16 shard count; 0 under PerHost *)
Theorem excess_limit_bound size r :
  match rf_sharder r with Some (nr, _) => (nr <= 65535)%N | None => True end ->
  (N.of_nat (excess_limit size r) <= 655350)%N /\ (forall n, size = PerHost n -> excess_limit size r = 0%nat).
Proof.
  intros H. split; [|intros n ->; reflexivity]. unfold excess_limit. destruct size; [cbn; lia|].
  destruct (rf_sharder r) as [[nr msb]|]; lia.
Qed.

(* ---- the two acceptors of the refiller tie, with content -------------------------------- *)
Lemma concat_all_nil {A} (l : list (list A)) :
  forallb (fun v => match v with [] => true | _ => false end) l = true -> concat l = [].
Proof. induction l as [|[|x v] l IH]; cbn; [reflexivity|exact IH|discriminate]. Qed.

Lemma rf_view_conns r : rf_wf r -> pool_conns (rf_view r) = concat (rf_conns r).
Proof.
  intros [Hl _]. unfold rf_view.
  destruct (forallb _ (rf_conns r)) eqn:E; [symmetry; now apply concat_all_nil|].
  destruct (rf_sharder r) as [[nr msb]|]; [reflexivity|]. cbn in Hl.
  destruct (rf_conns r) as [|v [|? ?]]; try discriminate. cbn. now rewrite app_nil_r.
Qed.

(* accepted by refill_ok: the pool the REQUESTS see after the history (rf_view, well formed) consists of
   connections with exactly the observed server-side shards, slot by slot *)
Theorem refill_ok_view size evs final : Forall event_ok evs -> refill_ok size evs final = true ->
  pool_wf (rf_view (pool_run size evs)) /\
  map conn_shard (pool_conns (rf_view (pool_run size evs))) = final.
Proof.
  intros Hev H. pose proof (pool_run_wf size evs Hev) as Hwf.
  split; [now apply rf_view_wf|]. rewrite rf_view_conns by assumption. now apply refill_ok_sound.
Qed.

(* accepted by refill_closed_ok <-> the connections the client closed are a permutation (as (shard, shard
   count) pairs) of the connections the model lets go *)
Theorem refill_closed_ok_perm size evs closed :
  refill_closed_ok size evs closed = true <->
  Permutation (map conn_key (refill_released size rf_init evs)) closed.
Proof. unfold refill_closed_ok. split; [apply same_keys_perm|apply perm_same_keys]. Qed.

(* every connection the model lets go along a history is let go by ONE step of it, to which the step
   theorems above apply *)
Lemma refill_released_step size r evs x : In x (refill_released size r evs) ->
  exists pre e post, evs = pre ++ e :: post /\
    In x (released_step size (fold_left (pool_step size) pre r) e).
Proof.
  revert r. induction evs as [|e evs IH]; intros r H; [destruct H|].
  cbn [refill_released] in H. apply in_app_or in H. destruct H as [H|H].
  - exists [], e, evs. split; [reflexivity|exact H].
  - destruct (IH _ H) as (pre & e' & post & -> & Hx). exists (e :: pre), e', post. split; [reflexivity|exact Hx].
Qed.

