(* Proofs for Model/Route.v (property C12). *)
From SV Require Import Base.Prelude Base.Bytes Model.Ring Model.Replicas Model.Plan Model.Shard Model.Route.
From SV Require Model.Murmur Model.PartKey Model.Tablets.
From SV Require Import Proofs.Ring_proofs Proofs.Replicas_proofs Proofs.Plan_proofs Proofs.Shard_proofs.
From SV Require Proofs.Tablets_proofs.
From Coq Require Import Permutation.
Open Scope Z_scope.

(* ====================================================================================== *)
(* 1. pools                                                                                *)
(* ====================================================================================== *)

Definition cho_ok (cho : nat -> nat -> nat) : Prop :=
  forall site len, (0 < len)%nat -> (cho site len < len)%nat.

Lemma choose_conn_In cho site v c : choose_conn cho site v = Some c -> In c v.
Proof.
  unfold choose_conn. destruct v as [|x [|y r]]; [discriminate| |].
  - intros [= <-]. now left.
  - apply nth_error_In.
Qed.

Lemma choose_conn_some cho site v : cho_ok cho -> v <> [] -> exists c, choose_conn cho site v = Some c.
Proof.
  intros Hc Hv. unfold choose_conn. destruct v as [|x [|y r]]; [congruence|eauto|].
  destruct (nth_error (x :: y :: r) (cho site (List.length (x :: y :: r)))) as [c|] eqn:E; [eauto|].
  apply nth_error_None in E. specialize (Hc site (List.length (x :: y :: r))). cbn [List.length] in *. lia.
Qed.

Lemma choose_conn_none cho site v : choose_conn cho site v = None -> cho_ok cho -> v = [].
Proof.
  intros E Hc. destruct v as [|x r]; [reflexivity|].
  destruct (choose_conn_some cho site (x :: r) Hc) as [c Hc']; congruence.
Qed.

Lemma swap_remove_snoc {A} i (body : list A) lst :
  swap_remove i (body ++ [lst]) =
  if (i =? List.length body)%nat then body else firstn i body ++ lst :: skipn (S i) body.
Proof. unfold swap_remove. rewrite rev_app_distr. cbn [rev app]. now rewrite rev_involutive. Qed.

Lemma swap_remove_length {A} i (l : list A) : (i < List.length l)%nat ->
  List.length (swap_remove i l) = pred (List.length l).
Proof.
  intros Hi. destruct (exists_last (l := l)) as (body & lst & ->); [intros ->; cbn in Hi; lia|].
  rewrite swap_remove_snoc, app_length in *. cbn [List.length] in *.
  destruct (Nat.eqb_spec i (List.length body)); [lia|].
  rewrite app_length. cbn [List.length]. rewrite firstn_length, skipn_length. lia.
Qed.

Lemma skipn_cons_nth {A} i (l : list A) y r d : skipn i l = y :: r -> nth i l d = y /\ skipn (S i) l = r.
Proof.
  revert l. induction i as [|i IH]; intros l E.
  - destruct l; [discriminate|]. cbn in E. injection E as -> ->. split; reflexivity.
  - destruct l as [|a l]; [discriminate|]. cbn [skipn] in E. apply IH in E. exact E.
Qed.

Lemma swap_remove_In {A} i (l : list A) d x : (i < List.length l)%nat ->
  In x l -> x <> nth i l d -> In x (swap_remove i l).
Proof.
  intros Hi Hx Hne. destruct (exists_last (l := l)) as (body & lst & ->); [intros ->; cbn in Hi; lia|].
  rewrite swap_remove_snoc. rewrite app_length in Hi. cbn [List.length] in Hi.
  apply in_app_or in Hx.
  destruct (Nat.eqb_spec i (List.length body)) as [->|Hd].
  - rewrite app_nth2, Nat.sub_diag in Hne by lia. cbn in Hne.
    destruct Hx as [Hx|[Hx|[]]]; [assumption|congruence].
  - assert (Hi' : (i < List.length body)%nat) by lia.
    rewrite app_nth1 in Hne by assumption.
    destruct Hx as [Hx|[<-|[]]].
    + rewrite <- (firstn_skipn i body) in Hx. apply in_app_or in Hx. apply in_or_app.
      destruct Hx as [Hx|Hx]; [now left|]. right. right.
      destruct (skipn i body) as [|y r] eqn:E.
      * destruct Hx.
      * destruct (skipn_cons_nth i body y r d E) as [Hy Hr].
        destruct Hx as [Hx|Hx]; [congruence|]. now rewrite Hr.
    + apply in_or_app. right. now left.
Qed.

Lemma try_shards_In cho fuel site to_try slots c :
  try_shards cho fuel site to_try slots = Some c -> exists i, In c (nth i slots []).
Proof.
  revert site to_try. induction fuel as [|f IH]; intros site to_try; cbn [try_shards]; [discriminate|].
  destruct to_try as [|a r]; [discriminate|].
  destruct (choose_conn cho (S site) _) as [c'|] eqn:E.
  - intros [= <-]. apply choose_conn_In in E. eauto.
  - apply IH.
Qed.

Lemma In_nth_concat {A} (slots : list (list A)) i c : In c (nth i slots []) -> In c (concat slots).
Proof.
  intros H. destruct (Nat.lt_ge_cases i (List.length slots)) as [Hi|Hi].
  - apply in_concat. exists (nth i slots []). split; [now apply nth_In|assumption].
  - rewrite nth_overflow in H by assumption. destruct H.
Qed.

Lemma try_shards_some cho fuel site to_try slots : cho_ok cho ->
  (List.length to_try <= fuel)%nat ->
  (exists i, In (N.of_nat i) to_try /\ nth i slots [] <> []) ->
  exists c, try_shards cho fuel site to_try slots = Some c.
Proof.
  intros Hc. revert site to_try. induction fuel as [|f IH]; intros site to_try Hf (i & Hi & Hne).
  - destruct to_try; [destruct Hi|cbn in Hf; lia].
  - cbn [try_shards]. destruct to_try as [|a r] eqn:Et; [destruct Hi|]. rewrite <- Et in *.
    assert (Hlen : (0 < List.length to_try)%nat) by (subst to_try; cbn; lia).
    pose proof (Hc site _ Hlen) as Hidx.
    destruct (choose_conn cho (S site) _) as [c'|] eqn:E; [eauto|].
    apply choose_conn_none in E; [|assumption].
    apply IH.
    + rewrite swap_remove_length by assumption. lia.
    + exists i. split; [|assumption].
      apply swap_remove_In with (d := 0%N); [assumption|assumption|].
      intros Heq. rewrite <- Heq, Nnat.Nat2N.id in E. congruence.
Qed.

Lemma shard_u16_idem s : shard_u16 (shard_u16 s) = shard_u16 s.
Proof. unfold shard_u16. destruct (N.leb_spec s 65535) as [H|H]; [|reflexivity]. destruct (N.leb_spec s 65535); [reflexivity|lia]. Qed.

Lemma pool_has_shard_spec p s : pool_has_shard p s = true <-> exists c, In c (pool_conns p) /\ conn_shard c = s.
Proof.
  unfold pool_has_shard. rewrite existsb_exists. split; intros (c & H1 & H2); exists c; (split; [assumption|]).
  - now apply N.eqb_eq. - now apply N.eqb_eq.
Qed.

(* connection_for_shard on a well-formed pool: always a connection of the pool (the
   `unreachable!` is unreachable), and one bound to the requested shard whenever there is one *)
Lemma connection_for_shard_spec cho p shard : cho_ok cho -> pool_wf p -> p <> PoolDown ->
  exists c, connection_for_shard cho p shard = Some c /\ In c (pool_conns p) /\
            (pool_sharder p <> None -> pool_has_shard p (shard_u16 shard) = true ->
             conn_shard c = shard_u16 shard).
Proof.
  intros Hc Hwf Hnd. destruct p as [|conns|nr msb slots]; [congruence| |].
  - destruct Hwf as [Hne _]. cbn [connection_for_shard pool_conns pool_sharder].
    destruct (choose_conn_some cho 40 conns Hc Hne) as [c E]. exists c.
    split; [assumption|]. split; [now apply choose_conn_In in E|congruence].
  - destruct Hwf as [[Hlen Hslots] Hne]. cbn [connection_for_shard pool_conns pool_sharder].
    set (s16 := shard_u16 shard).
    destruct (match nth_error slots (N.to_nat s16) with Some v => choose_conn cho 41 v | None => None end)
      as [c|] eqn:E.
    + exists c. split; [reflexivity|].
      destruct (nth_error slots (N.to_nat s16)) as [v|] eqn:Ev; [|discriminate].
      apply choose_conn_In in E. apply nth_error_nth with (d := []) in Ev. subst v.
      split; [now apply In_nth_concat in E|]. intros _ _.
      destruct (Hslots _ _ E) as [_ H]. lia.
    + assert (Hempty : nth (N.to_nat s16) slots [] = []).
      { destruct (nth_error slots (N.to_nat s16)) as [v|] eqn:Ev.
        - apply choose_conn_none in E; [|assumption]. subst v. now apply nth_error_nth.
        - apply nth_error_None in Ev. now apply nth_overflow. }
      destruct (try_shards_some cho (S (N.to_nat nr)) 42 (nrange 0 (N.to_nat nr)) slots Hc) as [c Ec].
      * rewrite nrange_length. lia.
      * destruct (concat slots) as [|c0 r] eqn:Ecs; [congruence|].
        assert (Hin : In c0 (concat slots)) by (rewrite Ecs; now left).
        apply in_concat in Hin. destruct Hin as (v & Hv & Hc0).
        apply In_nth with (d := []) in Hv. destruct Hv as (i & Hi & <-).
        exists i. split; [|intros E0; rewrite E0 in Hc0; destruct Hc0].
        apply nrange_In. lia.
      * exists c. split; [assumption|]. destruct (try_shards_In _ _ _ _ _ _ Ec) as [i Hi].
        split; [now apply In_nth_concat in Hi|]. intros _ Hhas.
        apply pool_has_shard_spec in Hhas. destruct Hhas as (c1 & Hc1 & Hs1).
        cbn [pool_conns] in Hc1. apply in_concat in Hc1. destruct Hc1 as (v & Hv & Hc1).
        apply In_nth with (d := []) in Hv. destruct Hv as (j & Hj & <-).
        destruct (Hslots _ _ Hc1) as [_ Hj']. fold s16 in Hs1.
        assert (Hj2 : j = N.to_nat s16) by lia. rewrite Hj2, Hempty in Hc1. destruct Hc1.
Qed.

Lemma connection_for_shard_down cho shard : connection_for_shard cho PoolDown shard = None.
Proof. reflexivity. Qed.

(* ---- the refiller keeps every connection under the shard the server reported ------------ *)
Lemma sharder_eqb_spec a b : sharder_eqb a b = true <-> a = b.
Proof.
  destruct a as [[n1 m1]|], b as [[n2 m2]|]; cbn; try (split; [discriminate|congruence]); [|tauto].
  rewrite andb_true_iff, !N.eqb_eq. split; [intros [-> ->]; reflexivity|intros [= -> ->]; tauto].
Qed.

Definition sharder_len (sh : option (N * N)) : nat :=
  match sh with Some (nr, _) => N.to_nat nr | None => 1%nat end.

Lemma nth_repeat_nil {A} i k : nth i (repeat (@nil A) k) [] = [].
Proof. revert i. induction k as [|k IH]; intros [|i]; cbn; auto. Qed.

Lemma slots_wf_empty sh : slots_wf sh (repeat [] (sharder_len sh)).
Proof.
  split; [rewrite repeat_length; destruct sh as [[? ?]|]; reflexivity|].
  intros i c H. rewrite nth_repeat_nil in H. destruct H.
Qed.

Lemma set_slot_length {A} i (x : A) l : List.length (set_slot i x l) = List.length l.
Proof. revert i. induction l as [|y r IH]; intros [|i]; cbn; auto. Qed.

Lemma nth_set_slot {A} i j (x : A) l d : (i < List.length l)%nat ->
  nth j (set_slot i x l) d = if (j =? i)%nat then x else nth j l d.
Proof.
  revert i j. induction l as [|y r IH]; intros i j Hi; [cbn in Hi; lia|].
  destruct i as [|i], j as [|j]; cbn [set_slot nth Nat.eqb]; try reflexivity.
  apply IH. cbn in Hi. lia.
Qed.

Lemma nth_set_slot_out {A} i j (x : A) l d : (List.length l <= i)%nat -> nth j (set_slot i x l) d = nth j l d.
Proof.
  revert i j. induction l as [|y r IH]; intros i j Hi; [destruct i; reflexivity|].
  destruct i as [|i]; [cbn in Hi; lia|]. destruct j as [|j]; cbn [set_slot nth]; [reflexivity|].
  apply IH. cbn in Hi. lia.
Qed.

Definition rf_wf (r : refiller) : Prop := slots_wf (rf_sharder r) (rf_conns r).

Lemma maybe_reshard_wf r sh : rf_wf r -> rf_wf (maybe_reshard r sh) /\ rf_sharder (maybe_reshard r sh) = sh.
Proof.
  intros H. unfold maybe_reshard. destruct (sharder_eqb (rf_sharder r) sh) eqn:E.
  - apply sharder_eqb_spec in E. tauto.
  - split; [apply slots_wf_empty|reflexivity].
Qed.

Lemma swap_remove_incl {A} i (l : list A) x : In x (swap_remove i l) -> In x l.
Proof.
  destruct l as [|a r] eqn:El; [intros []|]. rewrite <- El.
  destruct (exists_last (l := l)) as (body & lst & ->); [congruence|].
  rewrite swap_remove_snoc. destruct (i =? List.length body)%nat.
  - intros H. apply in_or_app. now left.
  - intros H. apply in_app_or in H. apply in_or_app. destruct H as [H|[<-|H]].
    + left. rewrite <- (firstn_skipn i body). apply in_or_app. now left.
    + right. now left.
    + left. rewrite <- (firstn_skipn (S i) body). apply in_or_app. now right.
Qed.

Lemma handle_ready_wf size r c requested : conn_ok c -> rf_wf r -> rf_wf (handle_ready size r c requested).
Proof.
  intros Hc Hr. unfold handle_ready.
  destruct (maybe_reshard_wf r (conn_sharder c) Hr) as [H1 Hsh].
  set (r1 := maybe_reshard r (conn_sharder c)) in *.
  assert (Hid : (N.to_nat (conn_shard c) < List.length (rf_conns r1))%nat).
  { destruct H1 as [Hl _]. rewrite Hl, Hsh. unfold conn_ok, conn_sharder, conn_shard in *.
    destruct (cinfo c) as [[[s nr] msb]|]; lia. }
  assert (Hnew : rf_wf (mkRef (rf_sharder r1)
                   (set_slot (N.to_nat (conn_shard c)) (nth (N.to_nat (conn_shard c)) (rf_conns r1) [] ++ [c]) (rf_conns r1))
                   (rf_excess r1))).
  { destruct H1 as [Hl Hs]. split; cbn [rf_sharder rf_conns].
    - now rewrite set_slot_length.
    - intros i x. rewrite nth_set_slot by assumption.
      destruct (Nat.eqb_spec i (N.to_nat (conn_shard c))) as [->|Hne]; [|apply Hs].
      intros Hx. apply in_app_or in Hx. destruct Hx as [Hx|[<-|[]]]; [now apply Hs|].
      split; [now rewrite Hsh|reflexivity]. }
  destruct size as [n|n].
  - destruct (active_count r1 <? n)%nat; [exact Hnew|]. destruct requested; [exact H1|exact H1].
  - destruct (List.length _ <? n)%nat; [exact Hnew|]. destruct requested; [exact H1|exact H1].
Qed.

Lemma remove_conn_wf r c : rf_wf r -> rf_wf (remove_conn r c).
Proof.
  intros [Hl Hs]. unfold remove_conn.
  destruct (N.to_nat (conn_shard c) <? List.length (rf_conns r))%nat eqn:Elt.
  - destruct (index_conn c (nth (N.to_nat (conn_shard c)) (rf_conns r) [])) as [idx|].
    + split; cbn [rf_sharder rf_conns]; [now rewrite set_slot_length|].
      apply Nat.ltb_lt in Elt. intros i x. rewrite nth_set_slot by assumption.
      destruct (Nat.eqb_spec i (N.to_nat (conn_shard c))) as [->|Hne]; [|apply Hs].
      intros Hx. apply swap_remove_incl in Hx. now apply Hs.
    + destruct (index_conn c (rf_excess r)); split; assumption.
  - destruct (index_conn c (rf_excess r)); split; assumption.
Qed.

Lemma pool_step_wf size r e : event_ok e -> rf_wf r -> rf_wf (pool_step size r e).
Proof.
  intros He Hr. destruct e as [c rq|c]; cbn [pool_step].
  - pose proof (handle_ready_wf size r c rq He Hr) as H.
    destruct (rf_is_full size _); exact H.
  - now apply remove_conn_wf.
Qed.

Lemma pool_run_wf size evs : Forall event_ok evs -> rf_wf (pool_run size evs).
Proof.
  unfold pool_run. assert (H0 : rf_wf rf_init).
  { split; [reflexivity|]. intros [|[|i]] c H; destruct H. }
  revert H0. generalize rf_init. induction evs as [|e evs IH]; intros r Hr Hev; [assumption|].
  cbn [fold_left]. inversion Hev; subst. apply IH; [|assumption]. now apply pool_step_wf.
Qed.

Lemma rf_view_wf r : rf_wf r -> pool_wf (rf_view r).
Proof.
  intros [Hl Hs]. unfold rf_view.
  destruct (forallb _ (rf_conns r)) eqn:E; [exact I|].
  assert (Hne : concat (rf_conns r) <> []).
  { intros Hc. rewrite <- not_true_iff_false in E. apply E. apply forallb_forall. intros v Hv.
    destruct v as [|x v']; [reflexivity|]. exfalso.
    assert (In x (concat (rf_conns r))) by (apply in_concat; exists (x :: v'); split; [assumption|now left]).
    rewrite Hc in H. destruct H. }
  destruct (rf_sharder r) as [[nr msb]|] eqn:Esh.
  - split; [split; assumption|assumption].
  - cbn in Hl. destruct (rf_conns r) as [|v [|? ?]]; try discriminate. cbn [nth concat] in *.
    rewrite app_nil_r in Hne. split; [assumption|].
    intros c Hc. destruct (Hs 0%nat c Hc) as [H _]. unfold conn_sharder in H.
    destruct (cinfo c) as [[[? ?] ?]|]; [discriminate|reflexivity].
Qed.

Lemma pool_wfb_sound p : pool_wfb p = true -> pool_wf p.
Proof.
  destruct p as [|conns|nr msb slots]; cbn [pool_wfb pool_wf]; [trivial| |].
  - rewrite andb_true_iff, forallb_forall. intros [H1 H2]. split.
    + destruct conns; [discriminate|congruence].
    + intros c Hc. specialize (H2 c Hc). destruct (cinfo c); [discriminate|reflexivity].
  - rewrite !andb_true_iff, forallb_forall. intros [[H1 H2] H3]. apply Nat.eqb_eq in H1.
    split; [split; [assumption|]|destruct (concat slots); [discriminate|congruence]].
    intros i c Hc.
    destruct (Nat.lt_ge_cases i (List.length slots)) as [Hi|Hi];
      [|rewrite nth_overflow in Hc by assumption; destruct Hc].
    assert (Hin : In (N.of_nat i, nth i slots []) (combine (nrange 0 (List.length slots)) slots)).
    { clear - Hi. assert (G : forall lo (l : list (list conn)) i, (i < List.length l)%nat ->
        In ((lo + N.of_nat i)%N, nth i l []) (combine (nrange lo (List.length l)) l)).
      { intros lo l. revert lo. induction l as [|v l IH]; intros lo j Hj; [cbn in Hj; lia|].
        cbn [List.length nrange combine]. destruct j as [|j].
        - left. f_equal. lia.
        - right. cbn [nth]. replace (lo + N.of_nat (S j))%N with (N.succ lo + N.of_nat j)%N by lia.
          apply IH. cbn in Hj. lia. }
      specialize (G 0%N slots i Hi). now rewrite N.add_0_l in G. }
    specialize (H2 _ Hin). cbn [fst snd] in H2. rewrite forallb_forall in H2. specialize (H2 c Hc).
    apply andb_true_iff in H2. destruct H2 as [Ha Hb]. apply sharder_eqb_spec in Ha. apply N.eqb_eq in Hb.
    split; [assumption|lia].
Qed.

(* ====================================================================================== *)
(* 2. the acceptor is sound: accepted observation => the property, in terms of the          *)
(*    specification (spec_replicas / spec_shard_of / the tablet's replica list)             *)
(* ====================================================================================== *)

Lemma first_nonempty_nil {A} (l : list (list A)) : first_nonempty l = [] -> forall v, In v l -> v = [].
Proof.
  induction l as [|[|x r] l IH]; cbn [first_nonempty]; [intros _ v []| |discriminate].
  intros H v [<-|Hv]; [reflexivity|now apply IH].
Qed.

Lemma first_nonempty_split {A B} (f : A -> list B) (cs : list A) x rest :
  first_nonempty (map f cs) = x :: rest ->
  exists pre c post, cs = pre ++ c :: post /\ f c = x :: rest /\ forall c', In c' pre -> f c' = [].
Proof.
  induction cs as [|c cs IH]; cbn [map first_nonempty]; [discriminate|].
  destruct (f c) as [|y r] eqn:E.
  - intros H. destruct (IH H) as (pre & c0 & post & -> & H1 & H2).
    exists (c :: pre), c0, post. split; [reflexivity|]. split; [assumption|].
    intros c' [<-|Hc']; [assumption|now apply H2].
  - intros [= <- <-]. exists [], c, cs. split; [reflexivity|]. split; [assumption|intros ? []].
Qed.

(* the shape of the criteria list *)
Lemma allowed_crits_dc pol rq c d : In c (allowed_crits pol rq) -> crit_dc c = Some d ->
  pref_dc (eff_pref pol rq) = Some d.
Proof.
  unfold allowed_crits, crit_rack, crit_local, remote_allowed, failover_possible.
  destruct (eff_pref pol rq) as [|d0|d0 r0]; cbn [pref_dc app].
  - intros [<-|[]]. discriminate.
  - destruct (pol_failover pol); cbn [app]; intros H; repeat destruct H as [<-|H]; try destruct H; cbn; congruence.
  - destruct (pol_failover pol); cbn [app]; intros H; repeat destruct H as [<-|H]; try destruct H; cbn; congruence.
Qed.

Lemma allowed_crits_restricted pol rq c d : restricted_dc pol rq = Some d -> In c (allowed_crits pol rq) ->
  crit_dc c = Some d.
Proof.
  unfold allowed_crits, crit_rack, crit_local, remote_allowed, failover_possible, restricted_dc.
  destruct (eff_pref pol rq) as [|d0|d0 r0]; cbn [pref_dc app]; [discriminate| |];
    destruct (pol_failover pol); try discriminate; intros [= <-]; cbn [app];
    intros H; repeat destruct H as [<-|H]; try destruct H; reflexivity.
Qed.

Lemma allowed_crits_local pol rq d : pref_dc (eff_pref pol rq) = Some d -> In (CDc d) (allowed_crits pol rq).
Proof.
  unfold allowed_crits, crit_rack, crit_local.
  destruct (eff_pref pol rq) as [|d0|d0 r0]; cbn [pref_dc app]; [discriminate| |]; intros [= <-].
  - now left. - right. now left.
Qed.

Lemma allowed_crits_any pol rq : restricted_dc pol rq = None -> In CAny (allowed_crits pol rq).
Proof.
  unfold allowed_crits, crit_rack, crit_local, remote_allowed, failover_possible, restricted_dc.
  destruct (eff_pref pol rq) as [|d0|d0 r0]; cbn [pref_dc app]; [intros _; now left| |];
    destruct (pol_failover pol); try discriminate; intros _; cbn; tauto.
Qed.

(* a criterion without datacenter comes after the preferred datacenter's criterion *)
Lemma app_split_prefix {A} (P : A -> Prop) (l1 l2 pre : list A) c post :
  l1 ++ l2 = pre ++ c :: post -> (forall x, In x l1 -> P x) -> ~ P c -> exists q, pre = l1 ++ q.
Proof.
  revert pre. induction l1 as [|a l1 IH]; intros pre E H1 Hc; [now exists pre|].
  destruct pre as [|a' pre]; cbn [app] in E.
  - injection E as -> _. exfalso. apply Hc, H1. now left.
  - injection E as <- E. destruct (IH pre E) as [q ->]; [intros x Hx; apply H1; now right|assumption|].
    now exists q.
Qed.

Lemma allowed_crits_order pol rq d pre c post : pref_dc (eff_pref pol rq) = Some d ->
  allowed_crits pol rq = pre ++ c :: post -> crit_dc c = None -> In (CDc d) pre.
Proof.
  intros Hp E Hc. unfold allowed_crits in E. rewrite app_assoc in E.
  apply (app_split_prefix (fun x => crit_dc x <> None)) in E.
  - destruct E as [q ->]. apply in_or_app. left. revert Hp. unfold crit_rack, crit_local.
    destruct (eff_pref pol rq) as [|d0|d0 r0]; cbn [pref_dc app]; [discriminate| |]; intros [= <-]; cbn; tauto.
  - unfold crit_rack, crit_local. destruct (eff_pref pol rq) as [|d0|d0 r0]; cbn [pref_dc app];
      intros x Hx; repeat destruct Hx as [<-|Hx]; try destruct Hx; cbn; discriminate.
  - intros H. now apply H.
Qed.

Section AcceptSound.
  Variables (cl : cluster) (cfg : exec_cfg) (rq : request) (s : rsource) (own : list sreplica).
  Let pol := ex_pol cfg.
  (* what is needed of a replica source: its sets are exactly the owners, restricted to the
     criterion's datacenter, in both views *)
  Hypothesis Hsrc : forall c x,
    (In x (src_iter s c) <-> In x own /\ (forall d, crit_dc c = Some d -> in_dc (c_dcf cl) d (fst x) = true)) /\
    (In x (src_ordered s c) <-> In x (src_iter s c)).

  Let cands (c : crit) := g_filtered (c_rackf cl) (c_enabled cl) (c_connected cl) s c (rq_lwt rq).

  Lemma cands_In c x : In x (cands c) <->
    In x own /\ c_alive cl (fst x) = true /\ crit_ok (c_rackf cl) c (fst x) = true /\
    (forall d, crit_dc c = Some d -> in_dc (c_dcf cl) d (fst x) = true).
  Proof.
    unfold cands, g_filtered, sr_ok, c_alive. rewrite filter_In, andb_true_iff.
    destruct (Hsrc c x) as [H1 H2].
    assert (G : In x (if rq_lwt rq then src_ordered s c else src_iter s c) <-> In x (src_iter s c))
      by (destruct (rq_lwt rq); [exact H2|reflexivity]).
    rewrite G, H1. tauto.
  Qed.

  Lemma crit_ok_dc d x : crit_ok (c_rackf cl) (CDc d) x = true.
  Proof. reflexivity. Qed.

  Lemma replica_cands_sound x rest :
    replica_cands cl cfg rq (Some s) = x :: rest ->
    forall y, In y (x :: rest) ->
      In y own /\ usable cl pol rq (fst y) = true /\
      (forall d, pref_dc (eff_pref pol rq) = Some d ->
         (exists r', In r' own /\ c_alive cl (fst r') = true /\ in_dc (c_dcf cl) d (fst r') = true) ->
         in_dc (c_dcf cl) d (fst y) = true).
  Proof.
    unfold replica_cands. fold pol. intros E y Hy.
    apply (first_nonempty_split (fun c => g_filtered (c_rackf cl) (c_enabled cl) (c_connected cl) s c (rq_lwt rq)))
      in E. destruct E as (pre & c & post & Ecs & Ec & Hpre). fold (cands c) in Ec.
    rewrite <- Ec in Hy. apply cands_In in Hy. destruct Hy as (Ho & Ha & Hk & Hd).
    assert (Hc : In c (allowed_crits pol rq)) by (rewrite Ecs; apply in_or_app; right; now left).
    split; [assumption|]. split.
    - unfold usable, permitted_dc. rewrite Ha. cbn [andb].
      destruct (restricted_dc pol rq) as [d|] eqn:Er; [|reflexivity].
      apply Hd. now apply (allowed_crits_restricted pol rq c d).
    - intros d Hp (r' & Ho' & Ha' & Hd').
      destruct (crit_dc c) as [d'|] eqn:Ecd.
      + pose proof (allowed_crits_dc pol rq c d' Hc Ecd) as Hp'. rewrite Hp in Hp'. injection Hp' as ->.
        now apply Hd.
      + pose proof (allowed_crits_order pol rq d pre c post Hp Ecs Ecd) as Hin.
        specialize (Hpre _ Hin). fold (cands (CDc d)) in Hpre.
        assert (In r' (cands (CDc d))).
        { apply cands_In. repeat split; try assumption. intros d0 [= <-]. assumption. }
        rewrite Hpre in H. destruct H.
  Qed.

  Lemma replica_cands_nonempty :
    (exists r, In r own /\ usable cl pol rq (fst r) = true) -> replica_cands cl cfg rq (Some s) <> [].
  Proof.
    intros (r & Ho & Hu) E. unfold usable, permitted_dc in Hu. apply andb_true_iff in Hu. destruct Hu as [Ha Hp].
    unfold replica_cands in E. fold pol in E.
    pose proof (first_nonempty_nil _ E) as Hall.
    destruct (restricted_dc pol rq) as [d|] eqn:Er.
    - assert (Hin : In (CDc d) (allowed_crits pol rq)).
      { apply allowed_crits_local. unfold restricted_dc in Er.
        destruct (pref_dc (eff_pref pol rq)); [|discriminate]. destruct (pol_failover pol); congruence. }
      specialize (Hall (cands (CDc d)) (in_map _ _ _ Hin)).
      assert (In r (cands (CDc d))).
      { apply cands_In. repeat split; try assumption. now intros d0 [= <-]. }
      rewrite Hall in H. destruct H.
    - pose proof (allowed_crits_any pol rq Er) as Hin.
      specialize (Hall (cands CAny) (in_map _ _ _ Hin)).
      assert (In r (cands CAny)).
      { apply cands_In. repeat split; try assumption. intros d0 [=]. }
      rewrite Hall in H. destruct H.
  Qed.

  Lemma accept_shard_sound n w sh : pool_sharder (c_pool cl n) <> None ->
    accept_shard cl n (Some w) sh = true ->
    pool_has_shard (c_pool cl n) (shard_u16 w) = true -> sh = shard_u16 w.
  Proof.
    unfold accept_shard. destruct (pool_sharder (c_pool cl n)); [|congruence].
    intros _ H Hh. rewrite Hh in H. now apply N.eqb_eq.
  Qed.

  (* accepted => the first frame went to a usable owner, in the preferred datacenter when that
     holds a live owner, on a connection of the owning shard when the pool has one *)
  Theorem accept_obs_sound obs :
    accept_obs cl cfg rq (Some s) obs = true ->
    (exists r, In r own /\ usable cl pol rq (fst r) = true) ->
    exists n sh r,
      obs = Some (n, sh) /\ In r own /\ fst r = n /\ usable cl pol rq n = true /\
      (forall d, pref_dc (eff_pref pol rq) = Some d ->
         (exists r', In r' own /\ c_alive cl (fst r') = true /\ in_dc (c_dcf cl) d (fst r') = true) ->
         in_dc (c_dcf cl) d n = true) /\
      (pool_sharder (c_pool cl n) <> None ->
       exists r', In r' own /\ fst r' = n /\
         (pool_has_shard (c_pool cl n) (shard_u16 (snd r')) = true -> sh = shard_u16 (snd r'))).
  Proof.
    intros Hacc Hex. pose proof (replica_cands_nonempty Hex) as Hne.
    unfold accept_obs in Hacc. destruct (replica_cands cl cfg rq (Some s)) as [|x rest] eqn:E; [congruence|].
    destruct obs as [[n sh]|]; [|discriminate].
    assert (Hy : exists y, In y (x :: rest) /\ n = fst y /\ accept_shard cl n (Some (snd y)) sh = true).
    { destruct (rq_lwt rq).
      - apply andb_true_iff in Hacc. destruct Hacc as [H1 H2]. apply N.eqb_eq in H1.
        exists x. split; [now left|]. split; assumption.
      - apply existsb_exists in Hacc. destruct Hacc as (y & Hy & H). apply andb_true_iff in H.
        destruct H as [H1 H2]. apply N.eqb_eq in H1. exists y. repeat split; assumption. }
    destruct Hy as (y & Hy & -> & Hsh).
    destruct (replica_cands_sound x rest E y Hy) as (Ho & Hu & Hd).
    exists (fst y), sh, y. repeat split; try assumption; try reflexivity.
    intros Hs. exists y. repeat split; try assumption.
    now apply accept_shard_sound.
  Qed.
End AcceptSound.

(* ---- the two kinds of replica source meet the hypothesis -------------------------------- *)
Definition tablets_coherent (cl : cluster) : Prop :=
  (forall k tok dc, Tablets.lookup_dc (c_tablets cl) k tok dc =
                    option_map (Tablets.restrict_dc dc) (Tablets.lookup (c_tablets cl) k tok)) /\
  (forall k tok l r, Tablets.lookup (c_tablets cl) k tok = Some l -> In r l ->
                     Tablets.ndc (fst r) = c_dcf cl (Tablets.host (fst r))).

Lemma computed_shard_spec p t : computed_shard p t = spec_owner_shard p t.
Proof. unfold computed_shard, spec_owner_shard. destruct (pool_sharder p) as [[nr msb]|]; [apply shard_of_spec|reflexivity]. Qed.

Lemma ring_source_ok cl k t s :
  sorted_strict (c_ring cl) -> nts_keys_ok s ->
  Tablets.find_table (c_tablets cl) k = None ->
  forall c x,
    (In x (src_iter (ring_source cl t s) c) <->
     In x (owners cl k t s) /\ (forall d, crit_dc c = Some d -> in_dc (c_dcf cl) d (fst x) = true)) /\
    (In x (src_ordered (ring_source cl t s) c) <-> In x (src_iter (ring_source cl t s) c)).
Proof.
  intros Hs Hk Hft c x. unfold owners. rewrite Hft. cbn [ring_source src_iter src_ordered]. split.
  - rewrite replicas_spec by assumption. rewrite !in_map_iff. unfold spec_replicas at 1.
    split.
    + intros (n & <- & Hn). cbn [fst]. rewrite computed_shard_spec.
      destruct (crit_dc c) as [d|].
      * apply filter_In in Hn. destruct Hn as [Hn Hd]. split; [exists n; split; [reflexivity|assumption]|].
        now intros d0 [= <-].
      * split; [exists n; split; [reflexivity|assumption]|intros ? [=]].
    + intros [(n & <- & Hn) Hd]. exists n. rewrite computed_shard_spec. split; [reflexivity|].
      destruct (crit_dc c) as [d|]; [|assumption]. apply filter_In. split; [assumption|]. now apply Hd.
  - rewrite !in_map_iff. split; intros (n & <- & Hn); exists n; (split; [reflexivity|]); revert Hn;
      apply Permutation_in; [|apply Permutation_sym]; now apply ordered_perm.
Qed.

Lemma in_dc_optN dcf d h (nd : option N) : nd = dcf h -> Tablets.optN_eqb nd (Some d) = in_dc dcf d h.
Proof. intros ->. unfold in_dc, Tablets.optN_eqb. destruct (dcf h); reflexivity. Qed.

Lemma tablet_source_ok cl k t s tt :
  tablets_coherent cl -> Tablets.find_table (c_tablets cl) k = Some tt ->
  forall c x,
    (In x (src_iter (tablet_source (c_tablets cl) k t) c) <->
     In x (owners cl k t s) /\ (forall d, crit_dc c = Some d -> in_dc (c_dcf cl) d (fst x) = true)) /\
    (In x (src_ordered (tablet_source (c_tablets cl) k t) c) <-> In x (src_iter (tablet_source (c_tablets cl) k t) c)).
Proof.
  intros [Hdc Hco] Hft c x. unfold owners. rewrite Hft.
  cbn [tablet_source src_iter src_ordered]. split; [|reflexivity].
  unfold tablet_reps. destruct (crit_dc c) as [d|].
  - rewrite Hdc. destruct (Tablets.lookup (c_tablets cl) k t) as [l|] eqn:El; cbn [option_map tab_reps].
    + rewrite !in_map_iff. unfold Tablets.restrict_dc. split.
      * intros (r & <- & Hr). apply filter_In in Hr. destruct Hr as [Hr Hd]. cbn [fst].
        split; [exists r; tauto|]. intros d0 [= <-].
        rewrite <- (in_dc_optN (c_dcf cl) d _ _ (Hco k t l r El Hr)). assumption.
      * intros [(r & <- & Hr) Hd]. exists r. split; [reflexivity|]. apply filter_In. split; [assumption|].
        rewrite (in_dc_optN (c_dcf cl) d _ _ (Hco k t l r El Hr)). now apply Hd.
    + split; [intros []|intros [[] _]].
  - split; [intros H; split; [assumption|intros ? [=]]|tauto].
Qed.

(* token_strategy for the request Session::execute builds *)
Lemma routing_request_ok st cfg values rq :
  routing_request st cfg values = Ok rq ->
  exists tok, PartKey.ps_calculate_token (st_part st) (st_ncols st) (st_wire st) values = Ok tok /\
    rq_token rq = tok /\ rq_ks rq = option_map fst (st_table st) /\
    rq_lwt rq = (st_lwt st || ex_serial_cl cfg)%bool /\ rq_pref rq = ex_pref cfg.
Proof.
  unfold routing_request. destruct (PartKey.ps_calculate_token _ _ _ _) as [tok|e]; [|discriminate].
  intros [= <-]. exists tok. cbn. repeat split; reflexivity.
Qed.

Definition keys_ok (cl : cluster) : Prop :=
  forall k s, ks_lookup (c_keyspaces cl) k = Some s -> nts_keys_ok s.

Theorem route_ok_sound cl cfg st values obs :
  sorted_strict (c_ring cl) -> keys_ok cl -> tablets_coherent cl ->
  route_ok cl cfg st values obs = true -> route_prop cl cfg st values obs.
Proof.
  intros Hs Hk Hco Hacc k t s Hst Htok Hta Hks rq Hrq own Hex. subst own.
  unfold route_ok in Hacc. rewrite Hrq in Hacc.
  destruct (routing_request_ok _ _ _ _ Hrq) as (tok & Htok' & Hrt & Hrk & _ & _).
  rewrite Htok in Htok'. injection Htok' as <-.
  assert (Hts : token_strategy (c_keyspaces cl) (ex_pol cfg) rq = Some (t, s)).
  { unfold token_strategy. rewrite Hta, Hrt, Hrk, Hst. cbn [option_map fst]. now rewrite Hks. }
  unfold route_source in Hacc. rewrite Hts, Hst in Hacc.
  destruct (Tablets.find_table (c_tablets cl) k) as [tt|] eqn:Eft.
  - exact (accept_obs_sound cl cfg rq _ (owners cl k t s) (tablet_source_ok cl k t s tt Hco Eft) obs Hacc Hex).
  - exact (accept_obs_sound cl cfg rq _ (owners cl k t s) (ring_source_ok cl k t s Hs (Hk _ _ Hks) Eft) obs Hacc Hex).
Qed.
