(* Proofs about Model/StreamsTrace.v (property C02):
   - the handler map with ages refines the untimed one, whatever the clock says;
   - the acceptor c02_trace_ok accepts the history of every run of the connection model;
   - the frame reader consumes exactly header + `length` bytes per frame. *)
From SV Require Import Base.Prelude Base.Bytes Model.Streams Proofs.Streams_proofs Model.StreamsTrace.
From SV Require Model.ConnFail.
From Coq Require Import Permutation FMapPositive.
Open Scope N_scope.

(* ================================================================ Part 5: the acceptor *)

Section MhasLemmas.
  Context {V : Type}.
  Implicit Types m : nmap V.
  Lemma mhas_true k m : mhas k m = true <-> exists v, mget k m = Some v.
  Proof. unfold mhas. destruct (mget k m); split; intros H; eauto; try discriminate. now destruct H. Qed.
  Lemma mhas_false k m : mhas k m = false <-> mget k m = None.
  Proof. unfold mhas. destruct (mget k m); split; intros H; congruence. Qed.
  Lemma mhas_mput_same k v m : mhas k (mput k v m) = true.
  Proof. unfold mhas. now rewrite mget_mput_same. Qed.
  Lemma mhas_mput_other k k' v m : k <> k' -> mhas k (mput k' v m) = mhas k m.
  Proof. intros H. unfold mhas. now rewrite mget_mput_other. Qed.
  Lemma mhas_mput k k' v m : mhas k (mput k' v m) = (k =? k') || mhas k m.
  Proof.
    destruct (N.eqb_spec k k'); [subst; now rewrite mhas_mput_same|].
    now rewrite mhas_mput_other.
  Qed.
  Lemma mhas_mempty k : mhas k (@mempty V) = false.
  Proof. unfold mhas. now rewrite mget_mempty. Qed.
End MhasLemmas.

Lemma forall_below_spec n f : forall_below n f = true <-> forall i, i < n -> f i = true.
Proof.
  unfold forall_below. induction n as [|n IH] using N.peano_ind.
  - rewrite N.peano_rect_base. split; [intros _ i Hi; lia|reflexivity].
  - rewrite N.peano_rect_succ, Bool.andb_true_iff, IH. split.
    + intros [H1 H2] i Hi. destruct (N.eq_dec i n); [subst; assumption|]. apply H2. lia.
    + intros H. split; [apply H; lia|]. intros i Hi. apply H. lia.
Qed.

(* ---------- the simulation relation between a model state and the acceptor's state ---------- *)

Definition bound (dn : nmap (N * cout)) (pos m : N) : N :=
  match mget m dn with Some (pd, _) => pd | None => pos end.

Definition SimSub (nx : N) (sb : nmap N) (pos : N) : Prop :=
  (forall m, mhas m sb = (m <? nx)) /\ (forall m p, mget m sb = Some p -> p < pos).

Definition SimOwed (owed : list (N * N)) (ao : nmap N) : Prop :=
  forall sid m, mget sid ao = Some m <-> In (sid, m) owed.

Definition SimRecv (w : list (N * N)) (q : list N) (nx : N) (rest : list (N * N)) (rc : nmap N) : Prop :=
  (forall m, mhas m rc = true -> ~ In m (rids w ++ q)) /\
  (forall m, mhas m rc = true -> m < nx) /\
  (forall sid r, In (sid, r) rest -> mget r rc = Some sid).

Definition SimAns (fl : list (N * N)) (mb : list (N * outcome)) (an : nmap N) : Prop :=
  (forall sid m, In (sid, m) fl -> mhas m an = true) /\
  (forall tok ans, In (tok, Resp ans) mb -> mhas ans an = true).

Definition SimDone (cp mb : list (N * outcome)) (br : bool) (dn : nmap (N * cout)) (pos : N) : Prop :=
  (forall m, mhas m dn = true <-> In m (map fst cp)) /\
  (forall m p o, mget m dn = Some (p, o) -> p < pos) /\
  (forall m p, mget m dn = Some (p, OErrAlloc) -> In (m, ErrAlloc) mb) /\
  (br = false -> forall rid o, In (rid, o) cp -> In (rid, o) mb).

Definition SimWit (mb : list (N * outcome)) (w : list (N * N)) (rc sb : nmap N)
                  (dn : nmap (N * cout)) (pos : N) : Prop :=
  forall m, In (m, ErrAlloc) mb ->
    mget m rc = None /\
    exists pm, mget m sb = Some pm /\
      forall sid, sid < nids ->
        exists r ps, r <> m /\ mget r sb = Some ps /\ ps < bound dn pos m /\
          (forall pd o, mget r dn = Some (pd, o) -> pm < pd) /\
          (mget r rc = Some sid \/ In (sid, r) w).

Definition Sim (s : conn) (a : acc) : Prop :=
  SimSub (c_next_rid s) (a_sub a) (a_pos a) /\
  SimOwed (c_owed s) (a_owed a) /\
  SimRecv (c_writing s) (c_queue s) (c_next_rid s) (c_owed s ++ c_inflight s) (a_recv a) /\
  SimAns (c_inflight s) (c_mailbox s) (a_ans a) /\
  SimDone (c_completed s) (c_mailbox s) (c_broken s) (a_done a) (a_pos a) /\
  SimWit (c_mailbox s) (c_writing s) (a_recv a) (a_sub a) (a_done a) (a_pos a).

Ltac acc_simpl := cbn [a_pos a_sub a_recv a_owed a_ans a_done] in *.

Lemma Sim_init : Sim conn_init acc_init.
Proof.
  unfold Sim, conn_init, acc_init. conn_simpl. acc_simpl.
  split; [|split; [|split; [|split; [|split]]]].
  - split.
    + intros m. rewrite mhas_mempty. symmetry. apply N.ltb_ge. lia.
    + intros m p H. now rewrite mget_mempty in H.
  - intros sid m. rewrite mget_mempty. cbn. split; [discriminate|tauto].
  - split; [|split].
    + intros m H. now rewrite mhas_mempty in H.
    + intros m H. now rewrite mhas_mempty in H.
    + intros sid r [].
  - split; [intros sid m []|intros tok ans []].
  - split; [|split; [|split]].
    + intros m. rewrite mhas_mempty. cbn. split; [discriminate|tauto].
    + intros m p o H. now rewrite mget_mempty in H.
    + intros m p H. now rewrite mget_mempty in H.
    + intros _ rid o [].
  - intros m [].
Qed.

(* monotonicity helpers *)
Lemma SimSub_pos nx sb pos : SimSub nx sb pos -> SimSub nx sb (pos + 1).
Proof. intros [A B]. split; [assumption|]. intros m p H. apply B in H. lia. Qed.

Lemma SimDone_pos cp mb br dn pos : SimDone cp mb br dn pos -> SimDone cp mb br dn (pos + 1).
Proof. intros (A & B & C & D). repeat split; try apply A; try assumption. intros m p o H. apply B in H. lia. Qed.

Lemma bound_pos dn pos m : bound dn pos m <= bound dn (pos + 1) m.
Proof. unfold bound. destruct (mget m dn) as [[pd o]|]; lia. Qed.

Lemma SimWit_pos mb w rc sb dn pos : SimWit mb w rc sb dn pos -> SimWit mb w rc sb dn (pos + 1).
Proof.
  intros H m Hm. destruct (H m Hm) as (A & pm & B & C). split; [assumption|]. exists pm. split; [assumption|].
  intros sid Hs. destruct (C sid Hs) as (r & ps & D1 & D2 & D3 & D4 & D5). exists r, ps.
  repeat split; try assumption. pose proof (bound_pos dn pos m). lia.
Qed.

Lemma SimSub_lt nx sb pos m p : SimSub nx sb pos -> mget m sb = Some p -> m < nx.
Proof.
  intros [A _] H. assert (Hm : mhas m sb = true) by (apply mhas_true; eauto).
  rewrite A in Hm. now apply N.ltb_lt.
Qed.

Lemma SimSub_has nx sb pos m : SimSub nx sb pos -> m < nx -> exists p, mget m sb = Some p /\ p < pos.
Proof.
  intros [A B] H. assert (Hm : mhas m sb = true) by (rewrite A; now apply N.ltb_lt).
  apply mhas_true in Hm as [p Hp]. exists p. split; [assumption|]. eapply B; eassumption.
Qed.

Lemma SimWit_sub nx mb w rc sb dn pos :
  SimSub nx sb pos -> SimWit mb w rc sb dn pos -> SimWit mb w rc (mput nx pos sb) dn (pos + 1).
Proof.
  intros SS H m Hm. destruct (H m Hm) as (A & pm & B & C). split; [assumption|]. exists pm.
  assert (Hmn : m <> nx). { pose proof (SimSub_lt _ _ _ _ _ SS B). lia. }
  split; [now rewrite mget_mput_other|].
  intros sid Hs. destruct (C sid Hs) as (r & ps & D1 & D2 & D3 & D4 & D5). exists r, ps.
  assert (Hrn : r <> nx). { pose proof (SimSub_lt _ _ _ _ _ SS D2). lia. }
  repeat split; try assumption; [now rewrite mget_mput_other|].
  pose proof (bound_pos dn pos m). lia.
Qed.

Lemma rids_In r p : In r (rids p) <-> exists sid, In (sid, r) p.
Proof.
  unfold rids. rewrite in_map_iff. split.
  - intros ([sid r'] & E & H). cbn in E. subst. eauto.
  - intros (sid & H). exists (sid, r). auto.
Qed.

Lemma sids_In sid p : In sid (sids p) <-> exists r, In (sid, r) p.
Proof.
  unfold sids. rewrite in_map_iff. split.
  - intros ([sid' r] & E & H). cbn in E. subst. eauto.
  - intros (r & H). exists (sid, r). auto.
Qed.

Ltac sim_split := split; [|split; [|split; [|split; [|split]]]].

(* ---------- one step of the model = the events it shows are accepted ---------- *)

Lemma sim_Submit s s' a : Sim s a -> step s Submit = Some s' ->
  exists a', acc_run a (obs_step s Submit) = Some a' /\ Sim s' a'.
Proof.
  intros (SS & SO & SR & SA & SD & SW) H. cbn [step] in H.
  destruct (c_broken s) eqn:Hb; [discriminate|]. inv_some H.
  cbn [obs_step acc_run acc_step].
  assert (Hn : mhas (c_next_rid s) (a_sub a) = false). { rewrite (proj1 SS). apply N.ltb_irrefl. }
  rewrite Hn. eexists. split; [reflexivity|].
  unfold Sim. conn_simpl. acc_simpl. sim_split.
  - destruct SS as [S1 S2]. split.
    + intros m. rewrite mhas_mput, S1.
      destruct (N.eqb_spec m (c_next_rid s)), (N.ltb_spec m (c_next_rid s)),
               (N.ltb_spec m (c_next_rid s + 1)); cbn; try reflexivity; lia.
    + intros m p Hg. destruct (N.eq_dec m (c_next_rid s)).
      * subst. rewrite mget_mput_same in Hg. inv_some Hg. lia.
      * rewrite mget_mput_other in Hg by assumption. apply S2 in Hg. lia.
  - exact SO.
  - destruct SR as (R1 & R2 & R3). split; [|split].
    + intros m Hm Hin. pose proof (R2 m Hm). rewrite app_assoc in Hin.
      apply in_app_or in Hin as [Hin|[<-|[]]]; [now apply (R1 m Hm)|lia].
    + intros m Hm. apply R2 in Hm. lia.
    + exact R3.
  - exact SA.
  - apply SimDone_pos. exact SD.
  - apply SimWit_sub; assumption.
Qed.

Lemma sim_SubmitDropped s s' a : Sim s a -> step s SubmitDropped = Some s' ->
  exists a', acc_run a (obs_step s SubmitDropped) = Some a' /\ Sim s' a'.
Proof.
  intros (SS & SO & SR & SA & SD & SW) H. cbn [step] in H.
  destruct (c_broken s) eqn:Hb; [discriminate|]. inv_some H.
  cbn [obs_step acc_run acc_step].
  assert (Hn : mhas (c_next_rid s) (a_sub a) = false). { rewrite (proj1 SS). apply N.ltb_irrefl. }
  rewrite Hn. eexists. split; [reflexivity|].
  unfold Sim. conn_simpl. acc_simpl. sim_split.
  - destruct SS as [S1 S2]. split.
    + intros m. rewrite mhas_mput, S1.
      destruct (N.eqb_spec m (c_next_rid s)), (N.ltb_spec m (c_next_rid s)),
               (N.ltb_spec m (c_next_rid s + 1)); cbn; try reflexivity; lia.
    + intros m p Hg. destruct (N.eq_dec m (c_next_rid s)).
      * subst. rewrite mget_mput_same in Hg. inv_some Hg. lia.
      * rewrite mget_mput_other in Hg by assumption. apply S2 in Hg. lia.
  - exact SO.
  - destruct SR as (R1 & R2 & R3). split; [|split]; [exact R1| |exact R3].
    intros m Hm. apply R2 in Hm. lia.
  - exact SA.
  - apply SimDone_pos. exact SD.
  - apply SimWit_sub; assumption.
Qed.

(* steps that show nothing and touch nothing the acceptor tracks *)
Lemma sim_Cancel s s' a rid : Sim s a -> step s (Cancel rid) = Some s' ->
  exists a', acc_run a (obs_step s (Cancel rid)) = Some a' /\ Sim s' a'.
Proof.
  intros HS H. cbn [step] in H. destruct (is_waiting s rid); [|discriminate]. inv_some H.
  exists a. split; [reflexivity|]. exact HS.
Qed.

Lemma sim_OrphanerTake s s' a : Sim s a -> step s OrphanerTake = Some s' ->
  exists a', acc_run a (obs_step s OrphanerTake) = Some a' /\ Sim s' a'.
Proof.
  intros HS H. cbn [step] in H. destruct (c_broken s) eqn:Hb; [discriminate|].
  destruct (c_notices s); [discriminate|]. inv_some H.
  exists a. split; [reflexivity|]. unfold Sim in *. conn_simpl. now rewrite Hb in HS.
Qed.

Lemma sim_Break s s' a : Sim s a -> step s Break = Some s' ->
  exists a', acc_run a (obs_step s Break) = Some a' /\ Sim s' a'.
Proof.
  intros (SS & SO & SR & SA & SD & SW) H. cbn [step] in H.
  destruct (c_broken s) eqn:Hb; [discriminate|]. inv_some H.
  exists a. split; [reflexivity|]. unfold Sim. conn_simpl. sim_split; try assumption.
  destruct SD as (A & B & C & D). repeat split; try apply A; try assumption. discriminate.
Qed.

(* a request that is still queued or pending has no final answer yet (connection not broken) *)
Lemma pending_not_done s dn pos br r :
  Inv s -> SimDone (c_completed s) (c_mailbox s) br dn pos ->
  br = false -> In r (rids (pending s) ++ c_queue s) -> mget r dn = None.
Proof.
  intros [HH HC] (A & B & C & D) Hb Hin. apply mhas_false.
  destruct (mhas r dn) eqn:E; [|reflexivity]. exfalso.
  apply A in E. apply in_map_iff in E as ([r' o] & E1 & E2). cbn in E1. subst r'.
  apply (D Hb) in E2. eapply (i_mbfresh _ _ _ _ _ _ _ _ HC); [|exact Hin].
  change r with (fst (r, o)). now apply in_map.
Qed.

Lemma sim_WriterTake s s' a : Inv s -> Sim s a -> step s WriterTake = Some s' ->
  exists a', acc_run a (obs_step s WriterTake) = Some a' /\ Sim s' a'.
Proof.
  intros HI (SS & SO & SR & SA & SD & SW) H. pose proof HI as [HH HC]. cbn [step] in H.
  destruct (c_broken s) eqn:Hb; [discriminate|].
  destruct (c_queue s) as [|rid q] eqn:Hq; [discriminate|].
  exists a. split; [reflexivity|].
  assert (Hfresh : ~ In rid (rids (pending s))).
  { pose proof (i_rq _ _ _ _ _ _ _ _ HC) as A. rewrite ?Hq in A. apply NoDup_remove_2 in A.
    intros Hin. apply A, in_or_app. now left. }
  destruct SR as (R1 & R2 & R3).
  destruct (InvH_alloc _ _ rid HH Hfresh) as [(sid & m' & Ha & Hnin & Hlt & _)|[Ha Hall]];
    rewrite Ha in H; inv_some H; unfold Sim; conn_simpl; sim_split.
  - exact SS.
  - exact SO.
  - split; [|split]; [|exact R2|exact R3].
    intros m Hm Hin. apply (R1 m Hm). rewrite rids_app in Hin. cbn [rids map snd] in Hin.
    rewrite <- app_assoc in Hin. exact Hin.
  - exact SA.
  - exact SD.
  - intros m Hm. destruct (SW m Hm) as (A & pm & B & C). split; [exact A|]. exists pm.
    split; [exact B|]. intros sd Hs.
    destruct (C sd Hs) as (r & ps & D1 & D2 & D3 & D4 & [D5|D5]); exists r, ps;
      repeat split; auto. right. apply in_or_app. now left.
  - exact SS.
  - exact SO.
  - split; [|split]; [|exact R2|exact R3].
    intros m Hm Hin. apply (R1 m Hm). rewrite in_app_iff in *. cbn [In]. tauto.
  - destruct SA as [A1 A2]. split; [exact A1|]. intros tok ans [E|E]; [discriminate|eauto].
  - destruct SD as (A & B & C & D). repeat split; try apply A; try assumption.
    + intros m p E. right. eauto.
    + intros _ r o E. right. now apply D.
  - intros m [E|Hm].
    + inv_some E.
      assert (Hrq : In m (rids (pending s) ++ c_queue s)).
      { rewrite ?Hq. apply in_or_app. right. now left. }
      split.
      * apply mhas_false. destruct (mhas m (a_recv a)) eqn:E; [|reflexivity]. exfalso.
        apply (R1 m E). apply in_or_app. right. now left.
      * assert (Hlt : m < c_next_rid s).
        { apply (i_lt _ _ _ _ _ _ _ _ HC). rewrite ?Hq. rewrite !in_app_iff. right. left. now left. }
        destruct (SimSub_has _ _ _ _ SS Hlt) as (pm & Hpm & _). exists pm. split; [exact Hpm|].
        intros sd Hs. apply Hall in Hs. apply sids_In in Hs as [r Hr]. unfold pending in Hr.
        assert (Hrr : In r (rids (pending s))) by (apply rids_In; eauto).
        assert (Hrlt : r < c_next_rid s).
        { apply (i_lt _ _ _ _ _ _ _ _ HC). apply in_or_app. now left. }
        destruct (SimSub_has _ _ _ _ SS Hrlt) as (ps & Hps & Hpos). exists r, ps.
        assert (Hnd : forall x, In x (rids (pending s) ++ c_queue s) -> mget x (a_done a) = None).
        { intros x Hx. eapply (pending_not_done s); [exact HI|exact SD|reflexivity|exact Hx]. }
        repeat split.
        -- intros ->. contradiction.
        -- exact Hps.
        -- unfold bound. rewrite (Hnd m Hrq). exact Hpos.
        -- intros pd o E. rewrite Hnd in E; [discriminate|]. apply in_or_app. now left.
        -- apply in_app_or in Hr as [Hr|Hr]; [now right|left; now apply R3].
    + exact (SW m Hm).
Qed.

Lemma sim_PeerRecv s s' a : Inv s -> Sim s a -> step s PeerRecv = Some s' ->
  exists a', acc_run a (obs_step s PeerRecv) = Some a' /\ Sim s' a'.
Proof.
  intros HI (SS & SO & SR & SA & SD & SW) H. pose proof HI as [HH HC]. cbn [step] in H.
  destruct (c_broken s) eqn:Hb; [discriminate|].
  destruct (c_writing s) as [|[sid r] w] eqn:Hw; [discriminate|]. inv_some H.
  cbn [obs_step]. rewrite Hw. cbn [acc_run acc_step].
  destruct SR as (R1 & R2 & R3). unfold SimOwed in SO.
  assert (Hpend : pending s = (sid, r) :: w ++ c_owed s ++ c_inflight s).
  { unfold pending. now rewrite Hw. }
  assert (Hnds : NoDup (sids (pending s))) by apply (i_sids _ _ HH).
  assert (Hndr : NoDup (rids (pending s) ++ c_queue s)) by apply (i_rq _ _ _ _ _ _ _ _ HC).
  rewrite Hpend in Hnds, Hndr. cbn [sids rids map fst snd app] in Hnds, Hndr.
  fold (sids (w ++ c_owed s ++ c_inflight s)) in Hnds. fold (rids (w ++ c_owed s ++ c_inflight s)) in Hndr.
  inversion Hnds as [|? ? Hs1 Hs2]; subst. inversion Hndr as [|? ? Hr1 Hr2]; subst.
  assert (Hrin : In r (rids (pending s) ++ c_queue s)).
  { rewrite Hpend. cbn [rids map snd app]. now left. }
  assert (Hsid : sid < nids).
  { apply (used_lt (hm_words (c_hm s))); [apply (i_wf _ _ HH)|]. apply (i_used _ _ HH).
    rewrite Hpend. cbn [sids map fst]. now left. }
  assert (Hrlt : r < c_next_rid s).
  { apply (i_lt _ _ _ _ _ _ _ _ HC). rewrite app_assoc. apply in_or_app. now left. }
  assert (Hsub : mhas r (a_sub a) = true).
  { rewrite (proj1 SS). now apply N.ltb_lt. }
  assert (Hrecv : mhas r (a_recv a) = false).
  { destruct (mhas r (a_recv a)) eqn:E; [|reflexivity]. exfalso. apply (R1 r E).
    rewrite ?Hw. cbn [rids map snd app]. now left. }
  assert (Hdone : mhas r (a_done a) = false).
  { apply mhas_false. eapply (pending_not_done s); [exact HI|exact SD|reflexivity|exact Hrin]. }
  assert (Howed : mhas sid (a_owed a) = false).
  { destruct (mhas sid (a_owed a)) eqn:E; [|reflexivity]. exfalso.
    apply mhas_true in E as [m' E]. apply SO in E. apply Hs1. rewrite !sids_app.
    apply in_or_app. right. apply in_or_app. left. apply sids_In. eauto. }
  assert (Hlt : (sid <? nids) = true) by now apply N.ltb_lt.
  rewrite Hlt, Hsub, Hrecv, Hdone, Howed. cbn [andb negb]. eexists. split; [reflexivity|].
  unfold Sim. conn_simpl. acc_simpl. sim_split.
  - now apply SimSub_pos.
  - intros sid' m. destruct (N.eq_dec sid' sid).
    + subst sid'. rewrite mget_mput_same. split.
      * intros E. inv_some E. apply in_or_app. right. now left.
      * intros E. apply in_app_or in E as [E|[E|[]]].
        -- exfalso. apply Hs1. rewrite !sids_app. apply in_or_app. right. apply in_or_app. left.
           apply sids_In. eauto.
        -- now inv_some E.
    + rewrite mget_mput_other by assumption. rewrite SO. rewrite in_app_iff. cbn [In]. split; [tauto|].
      intros [E|[E|[]]]; [assumption|]. inv_some E. contradiction.
  - split; [|split].
    + intros m Hm. rewrite mhas_mput in Hm. destruct (N.eqb_spec m r).
      * subst m. intros Hin. apply Hr1. rewrite !rids_app, <- !app_assoc. rewrite in_app_iff in *.
        destruct Hin as [Hin|Hin]; [now left|]. right. rewrite !in_app_iff. tauto.
      * cbn [orb] in Hm. intros Hin. apply (R1 m Hm). rewrite ?Hw. cbn [rids map snd app]. now right.
    + intros m Hm. rewrite mhas_mput in Hm. destruct (N.eqb_spec m r); [now subst|]. now apply R2.
    + intros sid' r' Hin. rewrite <- app_assoc in Hin. apply in_app_or in Hin as [Hin|Hin].
      * assert (r' <> r).
        { intros ->. apply Hr1. rewrite !rids_app. apply in_or_app. left. apply in_or_app. right.
          apply in_or_app. left. apply rids_In. eauto. }
        rewrite mget_mput_other by assumption. apply R3. apply in_or_app. now left.
      * cbn [app] in Hin. destruct Hin as [E|Hin].
        -- inv_some E. apply mget_mput_same.
        -- assert (r' <> r).
           { intros ->. apply Hr1. rewrite !rids_app. apply in_or_app. left. apply in_or_app. right.
             apply in_or_app. right. apply rids_In. eauto. }
           rewrite mget_mput_other by assumption. apply R3. apply in_or_app. now right.
  - exact SA.
  - now apply SimDone_pos.
  - apply SimWit_pos. intros m Hm. destruct (SW m Hm) as (A & pm & B & C).
    assert (Hmr : m <> r).
    { intros ->. eapply (i_mbfresh _ _ _ _ _ _ _ _ HC); [|exact Hrin].
      change r with (fst (r, ErrAlloc)). now apply in_map. }
    split; [now rewrite mget_mput_other|]. exists pm. split; [exact B|]. intros sd Hs.
    destruct (C sd Hs) as (r0 & ps & D1 & D2 & D3 & D4 & D5). exists r0, ps.
    repeat split; try assumption. destruct D5 as [D5|D5].
    + left. assert (r0 <> r). { intros ->. apply mhas_false in Hrecv. congruence. }
      now rewrite mget_mput_other.
    + rewrite ?Hw in D5. destruct D5 as [E|D5]; [|now right]. inv_some E. left. apply mget_mput_same.
Qed.

Lemma NoDup_app_l {A} (l1 l2 : list A) : NoDup (l1 ++ l2) -> NoDup l2.
Proof. induction l1 as [|x l1 IH]; cbn [app]; [tauto|]. intros H. inversion H; auto. Qed.
Lemma NoDup_app_r {A} (l1 l2 : list A) : NoDup (l1 ++ l2) -> NoDup l1.
Proof.
  induction l1 as [|x l1 IH]; cbn [app]; [constructor|]. intros H. inversion H; subst.
  constructor; [|auto]. intros Hin. apply H2. apply in_or_app. now left.
Qed.
Lemma NoDup_sids_app_l p1 p2 : NoDup (sids (p1 ++ p2)) -> NoDup (sids p2).
Proof. rewrite sids_app. apply NoDup_app_l. Qed.
Lemma NoDup_sids_app_r p1 p2 : NoDup (sids (p1 ++ p2)) -> NoDup (sids p1).
Proof. rewrite sids_app. apply NoDup_app_r. Qed.

Lemma sim_PeerAnswer s s' a sid : Inv s -> Sim s a -> step s (PeerAnswer sid) = Some s' ->
  exists a', acc_run a (obs_step s (PeerAnswer sid)) = Some a' /\ Sim s' a'.
Proof.
  intros HI (SS & SO & SR & SA & SD & SW) H. pose proof HI as [HH HC]. cbn [step] in H.
  destruct (c_broken s) eqn:Hb; [discriminate|].
  destruct (extract sid (c_owed s)) as [[rid owed']|] eqn:He; [|discriminate]. inv_some H.
  cbn [obs_step]. rewrite He. cbn [acc_run acc_step]. unfold SimOwed in SO.
  assert (Hin : In (sid, rid) (c_owed s)) by (eapply extract_In; eassumption).
  rewrite (proj2 (SO sid rid) Hin), N.eqb_refl. eexists. split; [reflexivity|].
  pose proof (extract_perm _ _ _ _ He) as Hperm.
  assert (Hnd : NoDup (sids (c_owed s))).
  { pose proof (i_sids _ _ HH) as A. unfold pending in A.
    apply NoDup_sids_app_l in A. now apply NoDup_sids_app_r in A. }
  assert (Hnd' : NoDup (sid :: sids owed')).
  { eapply Permutation_NoDup; [|exact Hnd]. change (sid :: sids owed') with (sids ((sid, rid) :: owed')).
    unfold sids. now apply Permutation_map. }
  inversion Hnd' as [|? ? Hn1 Hn2]; subst.
  destruct SR as (R1 & R2 & R3).
  unfold Sim. conn_simpl. acc_simpl. sim_split.
  - now apply SimSub_pos.
  - intros sid' m. destruct (N.eq_dec sid' sid).
    + subst sid'. rewrite mget_mrem_same. split; [discriminate|]. intros E. exfalso. apply Hn1.
      apply sids_In. eauto.
    + rewrite mget_mrem_other by assumption. rewrite SO. split.
      * intros E. apply (Permutation_in _ Hperm) in E. destruct E as [E|E]; [inv_some E; contradiction|assumption].
      * intros E. apply (Permutation_in _ (Permutation_sym Hperm)). now right.
  - split; [|split]; [exact R1|exact R2|].
    intros sid' r' E. apply R3. rewrite !in_app_iff in *. cbn [In] in E.
    destruct E as [E|[E|[E|[]]]].
    + left. apply (Permutation_in _ (Permutation_sym Hperm)). now right.
    + now right.
    + inv_some E. now left.
  - destruct SA as [A1 A2]. split.
    + intros sid' m E. rewrite mhas_mput. apply in_app_or in E as [E|[E|[]]].
      * rewrite (A1 _ _ E). apply Bool.orb_true_r.
      * inv_some E. now rewrite N.eqb_refl.
    + intros tok ans E. rewrite mhas_mput, (A2 _ _ E). apply Bool.orb_true_r.
  - now apply SimDone_pos.
  - now apply SimWit_pos.
Qed.

Lemma sim_ReaderDeliver s s' a : Sim s a -> step s ReaderDeliver = Some s' ->
  exists a', acc_run a (obs_step s ReaderDeliver) = Some a' /\ Sim s' a'.
Proof.
  intros (SS & SO & SR & SA & SD & SW) H. cbn [step] in H.
  destruct (c_broken s) eqn:Hb; [discriminate|].
  destruct (c_inflight s) as [|[sid ans] fl] eqn:Hfl; [discriminate|].
  exists a. split; [reflexivity|].
  destruct SR as (R1 & R2 & R3). destruct SA as [A1 A2]. destruct SD as (D1 & D2 & D3 & D4).
  assert (R3' : forall sid0 r, In (sid0, r) (c_owed s ++ fl) -> mget r (a_recv a) = Some sid0).
  { intros sid0 r E. apply R3. rewrite in_app_iff in *. cbn [In]. tauto. }
  assert (A1' : forall sid0 m, In (sid0, m) fl -> mhas m (a_ans a) = true).
  { intros sid0 m E. apply (A1 sid0). now right. }
  destruct (hm_lookup (c_hm s) sid) as [m' [|rid' tok|]]; inv_some H; unfold Sim; conn_simpl; sim_split;
    try exact SS; try exact SO; try (split; [|split]; assumption); try (split; assumption).
  - repeat split; try apply D1; assumption.
  - exact SW.
  - split; [exact A1'|]. intros tok' ans' [E|E]; [inv_some E|eauto]. apply (A1 sid). now left.
  - repeat split; try apply D1; try assumption.
    + intros m p E. right. eauto.
    + intros _ r o E. right. now apply D4.
  - intros m [E|E]; [discriminate|]. exact (SW m E).
  - repeat split; try apply D1; try assumption. discriminate.
  - exact SW.
Qed.

Lemma aget_notin_none {V} k (m : list (N * V)) : ~ In k (map fst m) -> aget k m = None.
Proof.
  induction m as [|[k' v] r IH]; cbn [aget map fst In]; [reflexivity|].
  intros H. destruct (N.eqb_spec k' k); [tauto|]. apply IH. tauto.
Qed.

Lemma sim_Complete s s' a rid : Inv s -> Sim s a -> step s (Complete rid) = Some s' ->
  exists a', acc_run a (obs_step s (Complete rid)) = Some a' /\ Sim s' a'.
Proof.
  intros HI (SS & SO & SR & SA & SD & SW) H. pose proof HI as [HH HC]. cbn [step] in H.
  destruct (is_waiting s rid) eqn:Hwt; [|discriminate].
  unfold is_waiting in Hwt. apply Bool.andb_true_iff in Hwt as [Hwt Hcp].
  apply Bool.andb_true_iff in Hwt as [Hlt _]. apply N.ltb_lt in Hlt.
  assert (Hnc : aget rid (c_completed s) = None) by (destruct (aget rid (c_completed s)); [discriminate|reflexivity]).
  clear Hcp. apply aget_None_notin in Hnc.
  destruct SD as (D1 & D2 & D3 & D4).
  assert (Hsub : mhas rid (a_sub a) = true) by (rewrite (proj1 SS); now apply N.ltb_lt).
  assert (Hdone : mhas rid (a_done a) = false).
  { destruct (mhas rid (a_done a)) eqn:E; [|reflexivity]. apply D1 in E. contradiction. }
  assert (Hpm : exists pm, mget rid (a_sub a) = Some pm /\ pm < a_pos a) by (eapply SimSub_has; eassumption).
  (* what changes in the acceptor: one more final answer, at the current position *)
  assert (HW : forall o, SimWit (c_mailbox s) (c_writing s) (a_recv a) (a_sub a)
                                (mput rid (a_pos a, o) (a_done a)) (a_pos a + 1)).
  { intros o m Hm. destruct (SW m Hm) as (A & pm & B & C). split; [exact A|]. exists pm. split; [exact B|].
    intros sd Hs. destruct (C sd Hs) as (r0 & ps & E1 & E2 & E3 & E4 & E5). exists r0, ps.
    repeat split; try assumption.
    - unfold bound in *. destruct (N.eq_dec m rid).
      + subst m. rewrite mget_mput_same. apply mhas_false in Hdone. now rewrite Hdone in E3.
      + rewrite mget_mput_other by assumption. destruct (mget m (a_done a)) as [[pd o']|]; lia.
    - intros pd o' E. destruct (N.eq_dec r0 rid).
      + subst r0. rewrite mget_mput_same in E. inv_some E. eapply (proj2 SS). exact B.
      + rewrite mget_mput_other in E by assumption. eauto. }
  assert (HD1 : forall o oc, forall m, mhas m (mput rid (a_pos a, oc) (a_done a)) = true <->
                              In m (map fst ((rid, o) :: c_completed s))).
  { intros o oc m. rewrite mhas_mput. cbn [map fst In]. rewrite <- D1. destruct (N.eqb_spec m rid); cbn [orb].
    - subst. tauto.
    - split; [tauto|]. intros [E|E]; [congruence|assumption]. }
  assert (HD2 : forall oc m p o, mget m (mput rid (a_pos a, oc) (a_done a)) = Some (p, o) -> p < a_pos a + 1).
  { intros oc m p o E. destruct (N.eq_dec m rid).
    - subst. rewrite mget_mput_same in E. inv_some E. lia.
    - rewrite mget_mput_other in E by assumption. apply D2 in E. lia. }
  destruct (aget rid (c_mailbox s)) as [o|] eqn:Hmb.
  - inv_some H. cbn [obs_step]. rewrite Hmb. cbn [acc_run acc_step]. rewrite Hsub, Hdone. cbn [andb negb].
    apply aget_In in Hmb.
    assert (Hchk : match cout_of o with
                   | ORows m' => (m' =? rid) && mhas rid (a_ans a)
                   | OErrAlloc => negb (mhas rid (a_recv a))
                   | OOther => true
                   end = true).
    { destruct o as [ans| |]; cbn [cout_of]; [| |reflexivity].
      - pose proof (i_mbresp _ _ _ _ _ _ _ _ HC _ _ Hmb). subst ans. rewrite N.eqb_refl.
        cbn [andb]. exact (proj2 SA _ _ Hmb).
      - destruct (SW rid Hmb) as (A & _). apply mhas_false in A. now rewrite A. }
    rewrite Hchk. eexists. split; [reflexivity|].
    unfold Sim. conn_simpl. acc_simpl. sim_split.
    + now apply SimSub_pos.
    + exact SO.
    + exact SR.
    + exact SA.
    + repeat split; try apply HD1; try (eapply HD2; eassumption).
      * intros m p E. destruct (N.eq_dec m rid).
        -- subst. rewrite mget_mput_same in E. inv_some E. destruct o; try discriminate. exact Hmb.
        -- rewrite mget_mput_other in E by assumption. eauto.
      * intros Hbr r o' [E|E]; [inv_some E; exact Hmb|now apply D4].
    + apply HW.
  - destruct (c_broken s) eqn:Hb; [|discriminate]. inv_some H. cbn [obs_step]. rewrite Hmb.
    cbn [acc_run acc_step]. rewrite Hsub, Hdone. cbn [andb negb]. eexists. split; [reflexivity|].
    unfold Sim. conn_simpl. acc_simpl. sim_split.
    + now apply SimSub_pos.
    + exact SO.
    + exact SR.
    + exact SA.
    + repeat split; try apply HD1; try (eapply HD2; eassumption).
      * intros m p E. destruct (N.eq_dec m rid).
        -- subst. rewrite mget_mput_same in E. inv_some E.
        -- rewrite mget_mput_other in E by assumption. eauto.
      * discriminate.
    + apply HW.
Qed.

Theorem sim_step s l s' a : Inv s -> Sim s a -> step s l = Some s' ->
  exists a', acc_run a (obs_step s l) = Some a' /\ Sim s' a'.
Proof.
  destruct l; intros HI HS H.
  - eapply sim_Submit; eassumption.
  - eapply sim_SubmitDropped; eassumption.
  - eapply sim_WriterTake; eassumption.
  - eapply sim_PeerRecv; eassumption.
  - eapply sim_PeerAnswer; eassumption.
  - eapply sim_ReaderDeliver; eassumption.
  - eapply sim_Cancel; eassumption.
  - eapply sim_OrphanerTake; eassumption.
  - eapply sim_Complete; eassumption.
  - eapply sim_Break; eassumption.
Qed.

Lemma acc_run_app a e1 : forall a0, a0 = a -> forall e2,
  acc_run a0 (e1 ++ e2) = match acc_run a0 e1 with Some a' => acc_run a' e2 | None => None end.
Proof.
  intros a0 _. revert a0. induction e1 as [|e r IH]; intros a0 e2; cbn [app acc_run]; [reflexivity|].
  destruct (acc_step a0 e); [apply IH|reflexivity].
Qed.

Lemma sim_run ls : forall s a sf, Inv s -> Sim s a -> run s ls = Some sf ->
  exists af, acc_run a (obs_run s ls) = Some af /\ Sim sf af.
Proof.
  induction ls as [|l r IH]; intros s a sf HI HS H; cbn [run obs_run] in *.
  - inv_some H. exists a. split; [reflexivity|assumption].
  - destruct (step s l) as [s1|] eqn:Hs; [|discriminate].
    destruct (sim_step _ _ _ _ HI HS Hs) as (a1 & Ha1 & HS1).
    destruct (IH s1 a1 sf (Inv_step _ _ _ HI Hs) HS1 H) as (af & Haf & HSf).
    exists af. split; [|assumption]. rewrite (acc_run_app a _ a eq_refl), Ha1. exact Haf.
Qed.

Lemma fold_set_in (f : N * N -> option N) l : forall st0 sid,
  (exists e, In e l /\ f e = Some sid) \/ mhas sid st0 = true ->
  mhas sid (fold_left (fun s e => match f e with Some x => mput x tt s | None => s end) l st0) = true.
Proof.
  induction l as [|e r IH]; intros st0 sid H; cbn [fold_left].
  - destruct H as [(e & [] & _)|H]; assumption.
  - apply IH. destruct H as [(e' & [E|E] & Hf)|H].
    + subst e'. right. rewrite Hf. apply mhas_mput_same.
    + left. eauto.
    + right. destruct (f e); [|assumption]. rewrite mhas_mput, H. apply Bool.orb_true_r.
Qed.

Lemma final_ok_sim s a : Sim s a -> c_writing s = [] -> final_ok a = true.
Proof.
  intros (SS & SO & SR & SA & SD & SW) Hw. unfold final_ok. apply forallb_forall.
  intros [m [pdm o]] Hin. cbn [fst]. apply melements_spec in Hin. unfold exhaust_ok. rewrite Hin.
  destruct (mget m (a_sub a)) as [pm|] eqn:Hpm; [|reflexivity].
  destruct o; try reflexivity.
  destruct SD as (D1 & D2 & D3 & D4). pose proof (D3 _ _ Hin) as Hmb.
  destruct (SW m Hmb) as (A & pm' & B & C). rewrite Hpm in B. inv_some B.
  apply mhas_false in A. rewrite A. cbn [negb andb]. apply forall_below_spec. intros sid Hs.
  destruct (C sid Hs) as (r & ps & E1 & E2 & E3 & E4 & E5). rewrite Hw in E5.
  destruct E5 as [E5|[]]. unfold sid_set. apply fold_set_in. left. exists (r, ps). split.
  - now apply melements_spec.
  - unfold possibly_pending. unfold bound in E3. rewrite Hin in E3.
    assert (H1 : (r =? m) = false) by now apply N.eqb_neq.
    assert (H2 : (ps <? pdm) = true) by now apply N.ltb_lt.
    rewrite H1, H2. cbn [negb andb].
    destruct (mget r (a_done a)) as [[pd o]|] eqn:Hd; [|exact E5].
    assert (H3 : (pm' <? pd) = true) by (apply N.ltb_lt; eauto). rewrite H3. exact E5.
Qed.

(* The acceptor accepts the history of every run of the connection model that ends with every
   written frame received (the runner waits for that before it reads the peer's trace). *)
Theorem trace_sound ls s : run conn_init ls = Some s -> c_writing s = [] ->
  c02_trace_ok (obs_run conn_init ls) = true.
Proof.
  intros H Hw. destruct (sim_run ls conn_init acc_init s Inv_init Sim_init H) as (af & Ha & HS).
  unfold c02_trace_ok. rewrite Ha. eapply final_ok_sim; eassumption.
Qed.

(* without the final condition: every event is accepted one by one (no stream id carried by two
   unanswered requests, every answer to the right caller); only the justification of
   UnableToAllocStreamId needs the frames still on their way to the peer *)
Theorem trace_sound_prefix ls s : run conn_init ls = Some s ->
  exists a, acc_run acc_init (obs_run conn_init ls) = Some a.
Proof.
  intros H. destruct (sim_run ls conn_init acc_init s Inv_init Sim_init H) as (af & Ha & _). eauto.
Qed.

(* ================================================================ Part 4: the map with ages *)

Lemma ot_contains_insert o sid now x :
  ot_contains (ot_insert o sid now) x = (x =? sid) || ot_contains o x.
Proof.
  unfold ot_contains, ot_insert. cbn [ot_orphans]. destruct (N.eqb_spec x sid).
  - subst. now rewrite aget_aput_same.
  - now rewrite aget_aput_other.
Qed.

Lemma ot_contains_remove o sid x :
  ot_contains (ot_remove o sid) x = negb (x =? sid) && ot_contains o x.
Proof.
  unfold ot_contains, ot_remove. destruct (aget sid (ot_orphans o)) eqn:E; cbn [ot_orphans].
  - destruct (N.eqb_spec x sid).
    + subst. now rewrite aget_arem_same.
    + now rewrite aget_arem_other.
  - destruct (N.eqb_spec x sid); [subst; now rewrite E|reflexivity].
Qed.

(* the timed map and the untimed map hold the same data, whatever the recorded times are *)
Definition TRel (t : thmap) (m : hmap) : Prop :=
  th_words t = hm_words m /\ th_handlers t = hm_handlers m /\ th_r2s t = hm_r2s m /\
  forall sid, ot_contains (th_ot t) sid = smem sid (hm_orphans m).

Lemma TRel_new : TRel th_new hm_new.
Proof. repeat split. Qed.

Lemma th_step_refines t m o now : TRel t m ->
  TRel (fst (th_step t (TOp o now))) (fst (hm_step m o)) /\
  snd (th_step t (TOp o now)) = TRes (snd (hm_step m o)).
Proof.
  intros (A & B & C & D). destruct o as [rid tok|rid|sid|tok]; cbn [th_step hm_step].
  - unfold th_allocate, hm_allocate. rewrite A, B, C.
    destruct (sid_alloc (hm_words m)) as [[sid ws']|]; [|repeat split; assumption].
    destruct (mget sid (hm_handlers m)); cbn [fst snd]; repeat split; assumption.
  - unfold th_orphan, hm_orphan. rewrite C. destruct (mget rid (hm_r2s m)) as [sid|]; cbn [fst snd].
    + split; [|reflexivity]. repeat split; cbn [th_words th_handlers th_r2s th_ot hm_words hm_handlers hm_r2s hm_orphans];
        try congruence. intros x. now rewrite ot_contains_insert, smem_sadd, D.
    + repeat split; assumption.
  - unfold th_lookup, hm_lookup. rewrite D, A, B, C. destruct (smem sid (hm_orphans m)); cbn [fst snd].
    + split; [|reflexivity]. repeat split. cbn [th_ot hm_orphans]. intros x.
      now rewrite ot_contains_remove, smem_srem, D.
    + destruct (mget sid (hm_handlers m)) as [[rid tok]|]; cbn [fst snd]; split; try reflexivity;
        repeat split; assumption.
  - unfold th_holds, hm_holds. rewrite B. cbn [fst snd]. repeat split; assumption.
Qed.

Theorem th_refines ops : forall t m, TRel t m ->
  TRel (fst (th_run t ops)) (fst (hm_run m (untimed ops))) /\
  untimed_res (snd (th_run t ops)) = snd (hm_run m (untimed ops)).
Proof.
  induction ops as [|o r IH]; intros t m HR; cbn [th_run untimed flat_map hm_run].
  - split; [assumption|reflexivity].
  - destruct o as [o now|now].
    + destruct (th_step_refines t m o now HR) as [H1 H2].
      destruct (th_step t (TOp o now)) as [t1 x] eqn:E1. cbn [app]. fold (untimed r).
      cbn [hm_run]. destruct (hm_step m o) as [m1 y] eqn:E2. cbn [fst snd] in H1, H2.
      destruct (IH t1 m1 H1) as [H3 H4].
      destruct (th_run t1 r) as [t2 xs]. destruct (hm_run m1 (untimed r)) as [m2 ys].
      cbn [fst snd] in *. subst x. cbn [untimed_res flat_map app]. fold (untimed_res xs).
      split; [assumption|]. now rewrite H4.
    + cbn [th_step app]. fold (untimed r). destruct (IH t m HR) as [H3 H4].
      destruct (th_run t r) as [t2 xs]. cbn [fst snd] in *. cbn [untimed_res flat_map app].
      fold (untimed_res xs). split; assumption.
Qed.

Lemma same_ops_untimed a : forall b, same_ops a b -> untimed a = untimed b.
Proof.
  induction a as [|x a IH]; intros [|y b] H; cbn [same_ops] in H; try tauto.
  - destruct x; tauto.
  - destruct x as [o n|n], y as [o' n'|n']; try tauto; cbn [untimed flat_map].
    + destruct H as [-> H]. fold (untimed a). fold (untimed b). now rewrite (IH b H).
    + fold (untimed a). fold (untimed b). cbn [app]. now apply IH.
Qed.

(* Allocation (and every other return value of the map) is independent of the ages: two runs of
   the same operations under ANY two clocks return the same results -- in particular an allocation
   fails in one iff it fails in the other, however long ago the orphans were made. *)
Theorem th_clock_independent a b : same_ops a b ->
  untimed_res (snd (th_run th_new a)) = untimed_res (snd (th_run th_new b)).
Proof.
  intros H. rewrite (proj2 (th_refines a _ _ TRel_new)), (proj2 (th_refines b _ _ TRel_new)).
  now rewrite (same_ops_untimed a b H).
Qed.

(* ---------- old_orphans_count ---------- *)
Lemma filter_length_le {A} (f g : A -> bool) l :
  (forall x, f x = true -> g x = true) -> (List.length (filter f l) <= List.length (filter g l))%nat.
Proof.
  intros H. induction l as [|x r IH]; cbn [filter]; [lia|].
  destruct (f x) eqn:E.
  - rewrite (H x E). cbn [List.length]. lia.
  - destruct (g x); cbn [List.length]; lia.
Qed.

Lemma is_old_mono mn mn' e e' : mn <= mn' -> snd e' = snd e -> fst e' <= fst e ->
  is_old mn e = true -> is_old mn' e' = true.
Proof.
  unfold is_old. intros H1 H2 H3 H. rewrite H2.
  apply Bool.orb_true_iff in H. apply Bool.orb_true_iff.
  destruct H as [H|H].
  - apply N.ltb_lt in H. destruct (N.ltb_spec (fst e') mn'); [now left|]. lia.
  - apply Bool.andb_true_iff in H as [Ha Hb]. apply N.eqb_eq in Ha.
    destruct (N.ltb_spec (fst e') mn'); [now left|]. right.
    assert (fst e' = mn') by lia. rewrite Hb. apply Bool.andb_true_iff. split; [now apply N.eqb_eq|reflexivity].
Qed.

(* the count never exceeds the number of orphans and grows with the clock *)
Theorem older_than_le o now age : ot_older_than o now age <= N.of_nat (List.length (ot_by o)).
Proof.
  unfold ot_older_than.
  assert ((List.length (filter (is_old (now - age)) (ot_by o)) <= List.length (ot_by o))%nat); [|lia].
  induction (ot_by o) as [|e r IH]; cbn [filter List.length]; [lia|].
  destruct (is_old (now - age) e); cbn [List.length]; lia.
Qed.

Theorem older_than_mono_now o now now' age : now <= now' ->
  ot_older_than o now age <= ot_older_than o now' age.
Proof.
  intros H. unfold ot_older_than.
  assert ((List.length (filter (is_old (now - age)) (ot_by o)) <=
           List.length (filter (is_old (now' - age)) (ot_by o)))%nat); [|lia].
  apply filter_length_le. intros e He. apply (is_old_mono (now - age) (now' - age) e e); [lia|reflexivity|lia|exact He].
Qed.

(* ... and shrinks when the same ids were orphaned later (what the tie's bracket rests on: the
   real clock readings lie between the runner's stamps taken before and after each call) *)
Theorem older_than_mono_times l1 l2 mn mn' : mn <= mn' ->
  Forall2 (fun e1 e2 => snd e2 = snd e1 /\ fst e2 <= fst e1) l1 l2 ->
  (List.length (filter (is_old mn) l1) <= List.length (filter (is_old mn') l2))%nat.
Proof.
  intros Hm H. induction H as [|e1 e2 r1 r2 [Ha Hb] _ IH]; cbn [filter]; [lia|].
  destruct (is_old mn e1) eqn:E.
  - rewrite (is_old_mono mn mn' e1 e2 Hm Ha Hb E). cbn [List.length]. lia.
  - destruct (is_old mn' e2); cbn [List.length]; lia.
Qed.

Theorem older_than_young o now age :
  (forall e, In e (ot_by o) -> now - age < fst e) -> ot_older_than o now age = 0.
Proof.
  intros H. unfold ot_older_than.
  assert (E : filter (is_old (now - age)) (ot_by o) = []); [|now rewrite E].
  induction (ot_by o) as [|e r IH]; cbn [filter]; [reflexivity|].
  assert (He : is_old (now - age) e = false).
  { pose proof (H e (or_introl eq_refl)). unfold is_old.
    destruct (N.ltb_spec (fst e) (now - age)); [lia|]. destruct (N.eqb_spec (fst e) (now - age)); [lia|reflexivity]. }
  rewrite He. apply IH. intros e' Hin. apply H. now right.
Qed.

(* ================================================================ Part 6: the frame reader *)

Lemma ntake_app a : forall r, ConnFail.ntake (N.of_nat (List.length a)) (a ++ r) = Some (a, r).
Proof.
  induction a as [|x a IH]; intros r.
  - cbn [List.length app]. destruct r; reflexivity.
  - cbn [List.length app ConnFail.ntake].
    assert (E : (N.of_nat (S (List.length a)) =? 0) = false) by (apply N.eqb_neq; lia).
    rewrite E. replace (N.of_nat (S (List.length a)) - 1) with (N.of_nat (List.length a)) by lia.
    now rewrite IH.
Qed.

(* read_response_frame on a stream that starts with a well-formed frame returns exactly that
   frame -- header and `length` body bytes, whatever the length (no clamp) -- and leaves the rest *)
Theorem parse_frame_exact f rest : frame_wf f ->
  ConnFail.parse_frame (ConnFail.f_raw f ++ rest) = ConnFail.Got f rest.
Proof.
  intros (H9 & Hv1 & Hv2 & Hop & Hlen). destruct f as [h body].
  unfold ConnFail.f_raw, ConnFail.parse_frame in *. cbn [ConnFail.f_hdr ConnFail.f_body] in *.
  rewrite <- app_assoc. change 9 with (N.of_nat 9). rewrite <- H9, ntake_app.
  unfold ConnFail.f_version, ConnFail.f_opcode, ConnFail.f_len in *. cbn [ConnFail.f_hdr] in *.
  rewrite Hv1, Hv2, Hop, Hlen. cbn [N.eqb negb]. rewrite !N.eqb_refl. cbn [negb].
  now rewrite ntake_app.
Qed.

Theorem read_frames_exact fs : forall k rest, Forall frame_wf fs ->
  read_frames (List.length fs + k) (concat (map ConnFail.f_raw fs) ++ rest) =
  (fs ++ fst (read_frames k rest), snd (read_frames k rest)).
Proof.
  induction fs as [|f r IH]; intros k rest H; cbn [List.length map concat app plus].
  - now destruct (read_frames k rest).
  - inversion H as [|? ? Hf Hr]; subst. cbn [read_frames]. rewrite <- app_assoc.
    rewrite (parse_frame_exact f _ Hf), (IH k rest Hr). reflexivity.
Qed.

(* a full bitmap refuses, whatever the orphanage holds and however old its entries are *)
Theorem th_alloc_full t rid tok : wf_words (th_words t) ->
  ((forall j, j < nids -> used (th_words t) j = true) <-> th_allocate t rid tok = (t, AllocFull)).
Proof.
  intros Hwf. unfold th_allocate. split.
  - intros H. apply (bitmap_full _ Hwf) in H. now rewrite H.
  - intros H. apply (bitmap_full _ Hwf).
    destruct (sid_alloc (th_words t)) as [[sid ws']|]; [|reflexivity].
    destruct (mget sid (th_handlers t)); discriminate.
Qed.

(* ================================================================ what an accepted history satisfies
   (soundness of the acceptor w.r.t. the property text, stated on positions of the event list) *)

Lemma acc_step_owed_keep a e a1 sid m : acc_step a e = Some a1 -> mget sid (a_owed a) = Some m ->
  e = EOut sid m \/ mget sid (a_owed a1) = Some m.
Proof.
  intros H Ho. destruct e as [m0|sid0 m0|sid0 m0|m0 o]; cbn [acc_step] in H.
  - destruct (mhas m0 (a_sub a)); inv_some H. now right.
  - destruct ((sid0 <? nids) && mhas m0 (a_sub a) && negb (mhas m0 (a_recv a)) && negb (mhas m0 (a_done a)) &&
              negb (mhas sid0 (a_owed a))) eqn:E; [|discriminate]. inv_some H. right. acc_simpl.
    apply Bool.andb_true_iff in E as [_ E]. apply Bool.negb_true_iff, mhas_false in E.
    assert (sid <> sid0) by congruence. now rewrite mget_mput_other.
  - destruct (mget sid0 (a_owed a)) as [m'|] eqn:E; [|discriminate].
    destruct (N.eqb_spec m' m0); [|discriminate]. inv_some H. acc_simpl.
    destruct (N.eq_dec sid sid0).
    + subst. left. congruence.
    + right. now rewrite mget_mrem_other.
  - destruct (mhas m0 (a_sub a) && negb (mhas m0 (a_done a)) && _); inv_some H. now right.
Qed.

(* while stream sid is owed for m, no other request frame is accepted on it before the answer *)
Lemma owed_blocks evs : forall a af sid m j m2, acc_run a evs = Some af ->
  mget sid (a_owed a) = Some m -> nth_error evs j = Some (EIn sid m2) ->
  exists k, (k < j)%nat /\ nth_error evs k = Some (EOut sid m).
Proof.
  induction evs as [|e r IH]; intros a af sid m j m2 H Ho Hj; [destruct j; discriminate|].
  cbn [acc_run] in H. destruct (acc_step a e) as [a1|] eqn:Hs; [|discriminate].
  destruct j as [|j]; cbn [nth_error] in Hj.
  - inv_some Hj. exfalso. cbn [acc_step] in Hs.
    destruct ((sid <? nids) && mhas m2 (a_sub a) && negb (mhas m2 (a_recv a)) && negb (mhas m2 (a_done a)) &&
              negb (mhas sid (a_owed a))) eqn:E; [|discriminate].
    apply Bool.andb_true_iff in E as [_ E]. apply Bool.negb_true_iff, mhas_false in E. congruence.
  - destruct (acc_step_owed_keep _ _ _ _ _ Hs Ho) as [E0|Ho1].
    + subst e. exists 0%nat. split; [lia|reflexivity].
    + destruct (IH _ _ _ _ _ _ H Ho1 Hj) as (k & Hk & Hn). exists (S k). split; [lia|exact Hn].
Qed.

Lemma acc_run_no_share evs : forall a af i j sid m1 m2, acc_run a evs = Some af -> (i < j)%nat ->
  nth_error evs i = Some (EIn sid m1) -> nth_error evs j = Some (EIn sid m2) ->
  exists k, (i < k < j)%nat /\ nth_error evs k = Some (EOut sid m1).
Proof.
  induction evs as [|e r IH]; intros a af i j sid m1 m2 H Hij Hi Hj; [destruct i; discriminate|].
  cbn [acc_run] in H. destruct (acc_step a e) as [a1|] eqn:Hs; [|discriminate].
  destruct j as [|j]; [lia|]. cbn [nth_error] in Hj. destruct i as [|i]; cbn [nth_error] in Hi.
  - inv_some Hi. cbn [acc_step] in Hs.
    destruct ((sid <? nids) && mhas m1 (a_sub a) && negb (mhas m1 (a_recv a)) && negb (mhas m1 (a_done a)) &&
              negb (mhas sid (a_owed a))); [|discriminate]. inv_some Hs.
    assert (Ho : mget sid (a_owed (mk_acc (a_pos a + 1) (a_sub a) (mput m1 sid (a_recv a))
                                          (mput sid m1 (a_owed a)) (a_ans a) (a_done a))) = Some m1)
      by (acc_simpl; apply mget_mput_same).
    destruct (owed_blocks _ _ _ _ _ _ _ H Ho Hj) as (k & Hk & Hn). exists (S k). split; [lia|exact Hn].
  - destruct (IH _ _ i j _ _ _ H ltac:(lia) Hi Hj) as (k & Hk & Hn). exists (S k). split; [lia|exact Hn].
Qed.

Lemma acc_step_ans a e a1 m : acc_step a e = Some a1 -> mhas m (a_ans a1) = true ->
  mhas m (a_ans a) = true \/ exists sid, e = EOut sid m.
Proof.
  intros H Hm. destruct e as [m0|sid0 m0|sid0 m0|m0 o]; cbn [acc_step] in H.
  - destruct (mhas m0 (a_sub a)); inv_some H. now left.
  - destruct (_ && _); inv_some H. now left.
  - destruct (mget sid0 (a_owed a)) as [m'|]; [|discriminate].
    destruct (m' =? m0); inv_some H. acc_simpl. rewrite mhas_mput in Hm.
    destruct (N.eqb_spec m m0); [subst; right; eauto|now left].
  - destruct (_ && _); inv_some H. now left.
Qed.

Lemma acc_run_rows evs : forall a af k m m', acc_run a evs = Some af ->
  nth_error evs k = Some (EDone m (ORows m')) ->
  m' = m /\ (mhas m (a_ans a) = true \/
             exists j sid, (j < k)%nat /\ nth_error evs j = Some (EOut sid m)).
Proof.
  induction evs as [|e r IH]; intros a af k m m' H Hk; [destruct k; discriminate|].
  cbn [acc_run] in H. destruct (acc_step a e) as [a1|] eqn:Hs; [|discriminate].
  destruct k as [|k]; cbn [nth_error] in Hk.
  - inv_some Hk. cbn [acc_step] in Hs.
    destruct (mhas m (a_sub a) && negb (mhas m (a_done a)) && ((m' =? m) && mhas m (a_ans a))) eqn:E; [|discriminate].
    apply Bool.andb_true_iff in E as [_ E]. apply Bool.andb_true_iff in E as [E1 E2].
    apply N.eqb_eq in E1. split; [assumption|now left].
  - destruct (IH _ _ _ _ _ H Hk) as [Hm [Ha|(j & sid & Hj & Hn)]]; (split; [assumption|]).
    + destruct (acc_step_ans _ _ _ _ Hs Ha) as [Ha0|[sid E0]]; [now left|]. subst e.
      right. exists 0%nat, sid. split; [lia|reflexivity].
    + right. exists (S j), sid. split; [lia|exact Hn].
Qed.

Lemma acc_step_owed_new a e a1 sid m : acc_step a e = Some a1 -> mget sid (a_owed a1) = Some m ->
  mget sid (a_owed a) = Some m \/ e = EIn sid m.
Proof.
  intros H Ho. destruct e as [m0|sid0 m0|sid0 m0|m0 o]; cbn [acc_step] in H.
  - destruct (mhas m0 (a_sub a)); inv_some H. now left.
  - destruct (_ && _); inv_some H. acc_simpl. destruct (N.eq_dec sid sid0).
    + subst. rewrite mget_mput_same in Ho. inv_some Ho. now right.
    + rewrite mget_mput_other in Ho by assumption. now left.
  - destruct (mget sid0 (a_owed a)) as [m'|]; [|discriminate].
    destruct (m' =? m0); inv_some H. acc_simpl. destruct (N.eq_dec sid sid0).
    + subst. now rewrite mget_mrem_same in Ho.
    + rewrite mget_mrem_other in Ho by assumption. now left.
  - destruct (_ && _); inv_some H. now left.
Qed.

Lemma acc_run_out evs : forall a af j sid m, acc_run a evs = Some af ->
  nth_error evs j = Some (EOut sid m) ->
  mget sid (a_owed a) = Some m \/ exists i, (i < j)%nat /\ nth_error evs i = Some (EIn sid m).
Proof.
  induction evs as [|e r IH]; intros a af j sid m H Hj; [destruct j; discriminate|].
  cbn [acc_run] in H. destruct (acc_step a e) as [a1|] eqn:Hs; [|discriminate].
  destruct j as [|j]; cbn [nth_error] in Hj.
  - inv_some Hj. cbn [acc_step] in Hs. destruct (mget sid (a_owed a)) as [m'|] eqn:E; [|discriminate].
    destruct (N.eqb_spec m' m); [|discriminate]. subst. now left.
  - destruct (IH _ _ _ _ _ H Hj) as [Ho|(i & Hi & Hn)].
    + destruct (acc_step_owed_new _ _ _ _ _ Hs Ho) as [Ho0|E0]; [now left|]. subst e.
      right. exists 0%nat. split; [lia|reflexivity].
    + right. exists (S i). split; [lia|exact Hn].
Qed.

Lemma trace_ok_run evs : c02_trace_ok evs = true -> exists a, acc_run acc_init evs = Some a.
Proof. unfold c02_trace_ok. destruct (acc_run acc_init evs); [eauto|discriminate]. Qed.

(* sentence 2 of the property: between two request frames on one stream id the peer has answered
   the first one *)
Theorem trace_ok_no_share evs i j sid m1 m2 : c02_trace_ok evs = true -> (i < j)%nat ->
  nth_error evs i = Some (EIn sid m1) -> nth_error evs j = Some (EIn sid m2) ->
  exists k, (i < k < j)%nat /\ nth_error evs k = Some (EOut sid m1).
Proof. intros H. destruct (trace_ok_run _ H) as [a Ha]. eapply acc_run_no_share; eassumption. Qed.

(* sentence 1: a caller that completed with rows got the rows built for its own marker, which the
   peer had sent before on the stream id it had received that very request with *)
Theorem trace_ok_delivery evs k m m' : c02_trace_ok evs = true ->
  nth_error evs k = Some (EDone m (ORows m')) ->
  m' = m /\ exists i j sid, (i < j < k)%nat /\ nth_error evs i = Some (EIn sid m) /\
                            nth_error evs j = Some (EOut sid m).
Proof.
  intros H Hk. destruct (trace_ok_run _ H) as [a Ha].
  destruct (acc_run_rows _ _ _ _ _ _ Ha Hk) as [Hm [Hx|(j & sid & Hj & Hn)]].
  - cbn in Hx. now rewrite mhas_mempty in Hx.
  - split; [assumption|]. destruct (acc_run_out _ _ _ _ _ _ Ha Hn) as [Hx|(i & Hi & Hni)].
    + cbn in Hx. now rewrite mget_mempty in Hx.
    + exists i, j, sid. repeat split; try lia; assumption.
Qed.

(* ================================================================ the stream-id sentence for EVERY
   operation sequence on the map (duplicated request ids and tokens included) *)
Record KInv (m : hmap) (st : list N) : Prop := {
  k_wf : wf_words (hm_words m);
  k_st : forall j, smem j st = used (hm_words m) j;
  k_h : forall sid h, mget sid (hm_handlers m) = Some h -> used (hm_words m) sid = true;
  k_o : forall sid, smem sid (hm_orphans m) = true ->
        used (hm_words m) sid = true /\ mget sid (hm_handlers m) = None;
  k_r : forall rid sid, mget rid (hm_r2s m) = Some sid ->
        exists tok, mget sid (hm_handlers m) = Some (rid, tok)
}.

Lemma KInv_new : KInv hm_new [].
Proof.
  constructor; cbn [hm_new hm_words hm_handlers hm_r2s hm_orphans].
  - apply wf_sid_new.
  - intros j. now rewrite used_sid_new.
  - intros sid h H. now rewrite mget_mempty in H.
  - intros sid H. discriminate.
  - intros rid sid H. now rewrite mget_mempty in H.
Qed.

Lemma smem_cons x y l : smem x (y :: l) = (x =? y) || smem x l.
Proof. reflexivity. Qed.

Lemma KInv_step m st o : KInv m st -> op_in_range o ->
  exists st', ids_check_step st o (snd (hm_step m o)) = Some st' /\ KInv (fst (hm_step m o)) st'.
Proof.
  intros [A B C D E] Hr. destruct o as [rid tok|rid|sid|tok]; cbn [hm_step].
  - unfold hm_allocate. destruct (sid_alloc (hm_words m)) as [[sid ws']|] eqn:Ha.
    + destruct (bitmap_alloc _ _ _ A Ha) as (Hlt & Hfree & _ & Hset & Hwf').
      assert (Hn : mget sid (hm_handlers m) = None).
      { destruct (mget sid (hm_handlers m)) eqn:G; [|reflexivity]. apply C in G. congruence. }
      rewrite Hn. cbn [fst snd ids_check_step].
      assert (H1 : (sid <? nids) = true) by now apply N.ltb_lt.
      assert (H2 : smem sid st = false) by now rewrite B.
      rewrite H1, H2. cbn [andb negb]. eexists. split; [reflexivity|].
      constructor; cbn [hm_words hm_handlers hm_r2s hm_orphans].
      * exact Hwf'.
      * intros j. now rewrite smem_cons, Hset, B.
      * intros s h G. rewrite Hset. destruct (N.eqb_spec s sid); [reflexivity|].
        rewrite mget_mput_other in G by assumption. cbn [orb]. eauto.
      * intros s G. destruct (D s G) as [G1 G2]. assert (s <> sid) by congruence.
        rewrite Hset, G1, Bool.orb_true_r. split; [reflexivity|]. now rewrite mget_mput_other.
      * intros r s G. destruct (N.eq_dec r rid).
        -- subst. rewrite mget_mput_same in G. inv_some G. exists tok. apply mget_mput_same.
        -- rewrite mget_mput_other in G by assumption. destruct (E r s G) as [t Ht].
           assert (s <> sid) by congruence. exists t. now rewrite mget_mput_other.
    + cbn [fst snd ids_check_step].
      assert (Hall : forall_below nids (fun j => smem j st) = true).
      { apply forall_below_spec. intros i Hi. rewrite B. now apply (proj1 (bitmap_full _ A) Ha). }
      rewrite Hall. eexists. split; [reflexivity|]. constructor; assumption.
  - unfold hm_orphan. cbn [fst snd ids_check_step]. eexists. split; [reflexivity|].
    destruct (mget rid (hm_r2s m)) as [sid|] eqn:G; [|constructor; assumption].
    destruct (E _ _ G) as [tok Ht].
    constructor; cbn [hm_words hm_handlers hm_r2s hm_orphans]; try assumption.
    + intros s h G1. destruct (N.eq_dec s sid); [subst; now rewrite mget_mrem_same in G1|].
      rewrite mget_mrem_other in G1 by assumption. eauto.
    + intros s G1. rewrite smem_sadd in G1. destruct (N.eqb_spec s sid).
      * subst. split; [eauto|apply mget_mrem_same].
      * cbn [orb] in G1. destruct (D s G1). split; [assumption|]. now rewrite mget_mrem_other.
    + intros r s G1. destruct (N.eq_dec r rid); [subst; now rewrite mget_mrem_same in G1|].
      rewrite mget_mrem_other in G1 by assumption. destruct (E r s G1) as [t Ht'].
      assert (s <> sid). { intros ->. rewrite Ht in Ht'. congruence. }
      exists t. now rewrite mget_mrem_other.
  - cbn [op_in_range] in Hr. destruct (bitmap_free _ _ A Hr) as [Hf Hwf'].
    unfold hm_lookup. destruct (smem sid (hm_orphans m)) eqn:Ho.
    + cbn [fst snd ids_check_step]. eexists. split; [reflexivity|].
      destruct (D sid Ho) as [_ Hnone].
      constructor; cbn [hm_words hm_handlers hm_r2s hm_orphans]; try assumption.
      * intros j. now rewrite smem_srem, Hf, B.
      * intros s h G. rewrite Hf. assert (s <> sid) by congruence.
        destruct (N.eqb_spec s sid); [contradiction|]. cbn [negb andb]. eauto.
      * intros s G. rewrite smem_srem in G. apply Bool.andb_true_iff in G as [G1 G2].
        destruct (D s G2). rewrite Hf, G1. cbn [andb]. tauto.
    + destruct (mget sid (hm_handlers m)) as [[r t]|] eqn:Hh; cbn [fst snd ids_check_step];
        (eexists; split; [reflexivity|]); constructor; cbn [hm_words hm_handlers hm_r2s hm_orphans];
        try assumption.
      * intros j. now rewrite smem_srem, Hf, B.
      * intros s h G. destruct (N.eq_dec s sid); [subst; now rewrite mget_mrem_same in G|].
        rewrite mget_mrem_other in G by assumption. rewrite Hf.
        destruct (N.eqb_spec s sid); [contradiction|]. cbn [negb andb]. eauto.
      * intros s G. assert (s <> sid) by congruence. destruct (D s G). rewrite Hf.
        destruct (N.eqb_spec s sid); [contradiction|]. cbn [negb andb].
        split; [assumption|]. now rewrite mget_mrem_other.
      * intros r' s G. destruct (N.eq_dec r' r); [subst; now rewrite mget_mrem_same in G|].
        rewrite mget_mrem_other in G by assumption. destruct (E r' s G) as [t' Ht'].
        assert (s <> sid). { intros ->. rewrite Hh in Ht'. congruence. }
        exists t'. now rewrite mget_mrem_other.
      * intros j. now rewrite smem_srem, Hf, B.
      * intros s h G. assert (s <> sid) by congruence. rewrite Hf.
        destruct (N.eqb_spec s sid); [contradiction|]. cbn [negb andb]. eauto.
      * intros s G. assert (s <> sid) by congruence. destruct (D s G). rewrite Hf.
        destruct (N.eqb_spec s sid); [contradiction|]. cbn [negb andb]. tauto.
  - cbn [fst snd ids_check_step]. eexists. split; [reflexivity|]. constructor; assumption.
Qed.

Lemma ids_run_ok ops : forall m st, KInv m st -> Forall op_in_range ops ->
  ids_check_from st ops (snd (hm_run m ops)) = true.
Proof.
  induction ops as [|o r IH]; intros m st HK HF; cbn [hm_run]; [reflexivity|].
  inversion HF as [|? ? Ho Hr]; subst.
  destruct (KInv_step m st o HK Ho) as (st' & Hs & HK').
  destruct (hm_step m o) as [m1 x]. cbn [fst snd] in *.
  specialize (IH m1 st' HK' Hr). destruct (hm_run m1 r) as [m2 xs]. cbn [snd ids_check_from] in *.
  now rewrite Hs.
Qed.

(* for EVERY operation sequence, also with repeated request ids and tokens: no id is handed out
   while outstanding, a refusal only with 32768 outstanding, the assert never fires *)
Theorem ids_spec ops : Forall op_in_range ops -> ids_check ops (snd (hm_run hm_new ops)) = true.
Proof. intros H. apply ids_run_ok; [apply KInv_new|assumption]. Qed.

(* ================================================================ the acceptor under the runner's skew *)

Lemma filter_split_lift {A} (f : A -> bool) (l : list A) : forall a x b,
  filter f l = a ++ x :: b ->
  exists a' b', l = a' ++ x :: b' /\ filter f a' = a /\ filter f b' = b.
Proof.
  induction l as [|y l IH]; intros a x b H; cbn [filter] in H; [destruct a; discriminate|].
  destruct (f y) eqn:Hy.
  - destruct a as [|y0 a0]; cbn [app] in H; inversion H; subst.
    + exists [], l. repeat split; reflexivity.
    + destruct (IH _ _ _ H2) as (a' & b' & -> & Ha & Hb). exists (y0 :: a'), b'.
      repeat split; [|assumption]. cbn [filter]. now rewrite Hy, Ha.
  - destruct (IH _ _ _ H) as (a' & b' & -> & Ha & Hb). exists (y :: a'), b'.
    repeat split; [|assumption]. cbn [filter]. now rewrite Hy.
Qed.

Lemma nth_error_mid {A} (a : list A) x b : nth_error (a ++ x :: b) (List.length a) = Some x.
Proof. rewrite nth_error_app2 by lia. now rewrite Nat.sub_diag. Qed.

(* the two sentences in "split" form *)
Lemma trace_ok_no_share_split evs a b c sid m1 m2 : c02_trace_ok evs = true ->
  evs = a ++ EIn sid m1 :: b ++ EIn sid m2 :: c -> In (EOut sid m1) b.
Proof.
  intros H ->.
  assert (Hi := nth_error_mid a (EIn sid m1) (b ++ EIn sid m2 :: c)).
  assert (Hj : nth_error (a ++ EIn sid m1 :: b ++ EIn sid m2 :: c) (List.length a + 1 + List.length b)
               = Some (EIn sid m2)).
  { rewrite nth_error_app2 by lia. replace (List.length a + 1 + List.length b - List.length a)%nat with (S (List.length b)) by lia.
    cbn [nth_error]. apply nth_error_mid. }
  assert (Hlt : (List.length a < List.length a + 1 + List.length b)%nat) by lia.
  destruct (trace_ok_no_share _ _ _ _ _ _ H Hlt Hi Hj) as (k & Hk & Hn).
  rewrite nth_error_app2 in Hn by lia.
  destruct (k - List.length a)%nat as [|k'] eqn:E; [lia|]. cbn [nth_error] in Hn.
  rewrite nth_error_app1 in Hn by lia. eapply nth_error_In; eassumption.
Qed.

Lemma nth_error_split_two {A} (l : list A) i j x y : (i < j)%nat ->
  nth_error l i = Some x -> nth_error l j = Some y ->
  exists a b c, l = a ++ x :: b ++ y :: c.
Proof.
  intros Hij Hi Hj. destruct (nth_error_split _ _ Hi) as (a & r & -> & Hla).
  rewrite nth_error_app2 in Hj by lia. destruct (j - List.length a)%nat as [|j'] eqn:E; [lia|].
  cbn [nth_error] in Hj. destruct (nth_error_split _ _ Hj) as (b & c & -> & _). eauto.
Qed.

Lemma trace_ok_delivery_split evs m m' : c02_trace_ok evs = true -> In (EDone m (ORows m')) evs ->
  m' = m /\ exists a b c sid, evs = a ++ EIn sid m :: b ++ EOut sid m :: c.
Proof.
  intros H Hin. apply In_nth_error in Hin as [k Hk].
  destruct (trace_ok_delivery _ _ _ _ H Hk) as (Hm & i & j & sid & Hij & Hi & Hj).
  split; [assumption|]. assert (Hlt : (i < j)%nat) by lia.
  destruct (nth_error_split_two _ _ _ _ _ Hlt Hi Hj) as (a & b & c & E). eauto.
Qed.

(* The real history [tr] is not known: the peer's events are, in their order; the callers' events
   are observed somewhere else in the list.  If the OBSERVATION is accepted, the REAL history
   satisfies both sentences of the property (the second one literally; of the first one everything
   but "the answer was sent before the caller returned", which no observer of time stamps can see). *)
Theorem trace_skew_sound tr obs : observes tr obs -> c02_trace_ok obs = true ->
  (forall a b c sid m1 m2, tr = a ++ EIn sid m1 :: b ++ EIn sid m2 :: c -> In (EOut sid m1) b) /\
  (forall m m', In (EDone m (ORows m')) tr ->
     m' = m /\ exists a b c sid, tr = a ++ EIn sid m :: b ++ EOut sid m :: c).
Proof.
  intros [Hf Hd] Hok. split.
  - intros a b c sid m1 m2 ->.
    rewrite filter_app in Hf. cbn [filter is_mock] in Hf. rewrite filter_app in Hf. cbn [filter is_mock] in Hf.
    destruct (filter_split_lift _ _ _ _ _ Hf) as (a' & r' & Ho & Ha & Hr).
    destruct (filter_split_lift _ _ _ _ _ Hr) as (b' & c' & -> & Hb & Hc). subst obs.
    pose proof (trace_ok_no_share_split _ _ _ _ _ _ _ Hok eq_refl) as Hin.
    assert (Hin' : In (EOut sid m1) (filter is_mock b')) by (apply filter_In; split; [assumption|reflexivity]).
    rewrite Hb in Hin'. apply filter_In in Hin'. tauto.
  - intros m m' Hin. apply (Hd (EDone m (ORows m')) eq_refl) in Hin.
    destruct (trace_ok_delivery_split _ _ _ Hok Hin) as (Hm & a & b & c & sid & ->). split; [assumption|].
    rewrite filter_app in Hf. cbn [filter is_mock] in Hf. rewrite filter_app in Hf. cbn [filter is_mock] in Hf.
    symmetry in Hf.
    destruct (filter_split_lift _ _ _ _ _ Hf) as (a' & r' & -> & Ha & Hr).
    destruct (filter_split_lift _ _ _ _ _ Hr) as (b' & c' & -> & Hb & Hc). eauto.
Qed.

(* ================================================================ the bracket of old_orphans_count over a whole run *)

Definition OtWf (o : otrack) : Prop :=
  forall t s, In (t, s) (ot_by o) -> aget s (ot_orphans o) = Some t.
Definition orph_le (e1 e2 : N * N) : Prop := fst e1 = fst e2 /\ snd e2 <= snd e1.
Definition by_le (e1 e2 : N * N) : Prop := snd e2 = snd e1 /\ fst e2 <= fst e1.
Definition OtRel (o1 o2 : otrack) : Prop :=
  Forall2 orph_le (ot_orphans o1) (ot_orphans o2) /\ Forall2 by_le (ot_by o1) (ot_by o2).

Lemma orph_le_aget l1 l2 s : Forall2 orph_le l1 l2 ->
  match aget s l1, aget s l2 with
  | Some t1, Some t2 => t2 <= t1
  | None, None => True
  | _, _ => False
  end.
Proof.
  induction 1 as [|[k1 v1] [k2 v2] r1 r2 [Hk Hv] _ IH]; cbn [aget]; [exact I|].
  cbn [fst snd] in *. subst k2. destruct (k1 =? s); [exact Hv|exact IH].
Qed.

Lemma orph_le_arem l1 l2 s : Forall2 orph_le l1 l2 -> Forall2 orph_le (arem s l1) (arem s l2).
Proof.
  induction 1 as [|[k1 v1] [k2 v2] r1 r2 [Hk Hv] _ IH]; cbn [arem]; [constructor|].
  cbn [fst snd] in *. subst k2. destruct (k1 =? s); [exact IH|]. constructor; [split; [reflexivity|exact Hv]|exact IH].
Qed.

Lemma existsb_pair_false t s l : ~ In (t, s) l -> existsb (pair_eqb (t, s)) l = false.
Proof.
  intros H. destruct (existsb (pair_eqb (t, s)) l) eqn:E; [|reflexivity]. exfalso. apply H.
  apply existsb_exists in E as ([t' s'] & Hin & Heq). unfold pair_eqb in Heq. cbn [fst snd] in Heq.
  apply Bool.andb_true_iff in Heq as [E1 E2]. apply N.eqb_eq in E1, E2. now subst.
Qed.

Lemma OtWf_insert o sid now : OtWf o -> aget sid (ot_orphans o) = None ->
  OtWf (ot_insert o sid now) /\ ot_by (ot_insert o sid now) = (now, sid) :: ot_by o.
Proof.
  intros Hw Hn. assert (Hnin : ~ In (now, sid) (ot_by o)) by (intros H; apply Hw in H; congruence).
  unfold ot_insert. rewrite (existsb_pair_false _ _ _ Hnin). cbn [ot_by ot_orphans]. split; [|reflexivity].
  unfold OtWf. cbn [ot_by ot_orphans]. intros t s [E|Hin].
  - inv_some E. apply aget_aput_same.
  - pose proof (Hw _ _ Hin) as G. assert (s <> sid) by congruence. now rewrite aget_aput_other.
Qed.

Lemma OtWf_remove o sid : OtWf o -> OtWf (ot_remove o sid).
Proof.
  intros Hw. unfold ot_remove. destruct (aget sid (ot_orphans o)) as [t0|] eqn:E; [|exact Hw].
  intros t s Hin. cbn [ot_by ot_orphans] in *. apply filter_In in Hin as [Hin Hne].
  pose proof (Hw _ _ Hin) as G. destruct (N.eq_dec s sid).
  - subst. rewrite E in G. inv_some G. unfold pair_eqb in Hne. cbn [fst snd] in Hne. now rewrite !N.eqb_refl in Hne.
  - now rewrite aget_arem_other.
Qed.

Lemma by_le_filter l1 l2 sid t1 t2 : Forall2 by_le l1 l2 ->
  (forall t, In (t, sid) l1 -> t = t1) -> (forall t, In (t, sid) l2 -> t = t2) ->
  Forall2 by_le (filter (fun e => negb (pair_eqb e (t1, sid))) l1)
                (filter (fun e => negb (pair_eqb e (t2, sid))) l2).
Proof.
  induction 1 as [|[a1 s1] [a2 s2] r1 r2 [Hs Ht] _ IH]; intros H1 H2; cbn [filter]; [constructor|].
  cbn [fst snd] in *. subst s2.
  assert (IH' := IH (fun t Hin => H1 t (or_intror Hin)) (fun t Hin => H2 t (or_intror Hin))).
  unfold pair_eqb. cbn [fst snd]. destruct (N.eqb_spec s1 sid).
  - subst. rewrite (H1 a1 (or_introl eq_refl)), (H2 a2 (or_introl eq_refl)), !N.eqb_refl. exact IH'.
  - rewrite !Bool.andb_false_r. cbn [negb]. constructor; [split; [reflexivity|assumption]|exact IH'].
Qed.

Lemma OtRel_remove o1 o2 sid : OtWf o1 -> OtWf o2 -> OtRel o1 o2 -> OtRel (ot_remove o1 sid) (ot_remove o2 sid).
Proof.
  intros W1 W2 [Ho Hb]. pose proof (orph_le_aget _ _ sid Ho) as G. unfold ot_remove.
  destruct (aget sid (ot_orphans o1)) as [t1|] eqn:E1, (aget sid (ot_orphans o2)) as [t2|] eqn:E2; try contradiction.
  - split; cbn [ot_orphans ot_by]; [now apply orph_le_arem|].
    apply by_le_filter; [assumption| |].
    + intros t Hin. apply W1 in Hin. congruence.
    + intros t Hin. apply W2 in Hin. congruence.
  - split; assumption.
Qed.

Lemma OtRel_insert o1 o2 sid n1 n2 : OtWf o1 -> OtWf o2 -> OtRel o1 o2 -> n2 <= n1 ->
  aget sid (ot_orphans o1) = None -> aget sid (ot_orphans o2) = None ->
  OtRel (ot_insert o1 sid n1) (ot_insert o2 sid n2).
Proof.
  intros W1 W2 [Ho Hb] Hn E1 E2.
  destruct (OtWf_insert o1 sid n1 W1 E1) as [_ B1]. destruct (OtWf_insert o2 sid n2 W2 E2) as [_ B2].
  split; [|rewrite B1, B2; constructor; [split; [reflexivity|assumption]|assumption]].
  unfold ot_insert, aput. cbn [ot_orphans]. constructor; [split; [reflexivity|assumption]|now apply orph_le_arem].
Qed.

Record BInv (t1 t2 : thmap) (m : hmap) (st : list N) : Prop := {
  b_r1 : TRel t1 m; b_r2 : TRel t2 m; b_k : KInv m st;
  b_rel : OtRel (th_ot t1) (th_ot t2); b_w1 : OtWf (th_ot t1); b_w2 : OtWf (th_ot t2)
}.

Lemma BInv_new : BInv th_new th_new hm_new [].
Proof.
  constructor; try apply TRel_new; try apply KInv_new.
  - split; constructor.
  - intros t s [].
  - intros t s [].
Qed.

Lemma ot_contains_none o sid : ot_contains o sid = false -> aget sid (ot_orphans o) = None.
Proof. unfold ot_contains. destruct (aget sid (ot_orphans o)); [discriminate|reflexivity]. Qed.

Lemma th_step_ot t o n : th_ot (fst (th_step t (TOp o n))) =
  match o with
  | OpOrphan rid => match mget rid (th_r2s t) with Some sid => ot_insert (th_ot t) sid n | None => th_ot t end
  | OpLookup sid => if ot_contains (th_ot t) sid then ot_remove (th_ot t) sid else th_ot t
  | _ => th_ot t
  end.
Proof.
  destruct o as [rid tok|rid|sid|tok]; cbn [th_step].
  - unfold th_allocate. destruct (sid_alloc (th_words t)) as [[sid ws']|]; [|reflexivity].
    destruct (mget sid (th_handlers t)); reflexivity.
  - unfold th_orphan. destruct (mget rid (th_r2s t)); reflexivity.
  - unfold th_lookup. destruct (ot_contains (th_ot t) sid); [reflexivity|].
    destruct (mget sid (th_handlers t)) as [[r k]|]; reflexivity.
  - reflexivity.
Qed.

Lemma BInv_step t1 t2 m st o n1 n2 : BInv t1 t2 m st -> op_in_range o ->
  (match o with OpOrphan _ => n2 <= n1 | _ => True end) ->
  BInv (fst (th_step t1 (TOp o n1))) (fst (th_step t2 (TOp o n2))) (fst (hm_step m o))
       (match ids_check_step st o (snd (hm_step m o)) with Some st' => st' | None => st end) /\
  snd (th_step t1 (TOp o n1)) = snd (th_step t2 (TOp o n2)).
Proof.
  intros [R1 R2 K Rel W1 W2] Hr Hn.
  destruct (th_step_refines t1 m o n1 R1) as [R1' E1]. destruct (th_step_refines t2 m o n2 R2) as [R2' E2].
  destruct (KInv_step m st o K Hr) as (st' & Hs & K'). rewrite Hs.
  split; [|congruence].
  destruct R1 as (A1 & B1 & C1 & D1). destruct R2 as (A2 & B2 & C2 & D2).
  assert (Hfresh : forall rid sid, mget rid (hm_r2s m) = Some sid ->
            aget sid (ot_orphans (th_ot t1)) = None /\ aget sid (ot_orphans (th_ot t2)) = None).
  { intros rid sid G. destruct (k_r _ _ K _ _ G) as [tk Hh].
    assert (Hno : smem sid (hm_orphans m) = false).
    { destruct (smem sid (hm_orphans m)) eqn:E; [|reflexivity]. destruct (k_o _ _ K _ E). congruence. }
    split; apply ot_contains_none; [rewrite D1|rewrite D2]; exact Hno. }
  constructor; try assumption; rewrite ?th_step_ot.
  - destruct o as [rid tok|rid|sid|tok]; try assumption.
    + rewrite C1, C2. destruct (mget rid (hm_r2s m)) as [sid|] eqn:G; [|assumption].
      destruct (Hfresh _ _ G). now apply OtRel_insert.
    + rewrite D1, D2. destruct (smem sid (hm_orphans m)); [now apply OtRel_remove|assumption].
  - destruct o as [rid tok|rid|sid|tok]; try assumption.
    + rewrite C1. destruct (mget rid (hm_r2s m)) as [sid|] eqn:G; [|assumption].
      destruct (Hfresh _ _ G). now apply OtWf_insert.
    + destruct (ot_contains (th_ot t1) sid); [now apply OtWf_remove|assumption].
  - destruct o as [rid tok|rid|sid|tok]; try assumption.
    + rewrite C2. destruct (mget rid (hm_r2s m)) as [sid|] eqn:G; [|assumption].
      destruct (Hfresh _ _ G). now apply OtWf_insert.
    + destruct (ot_contains (th_ot t2) sid); [now apply OtWf_remove|assumption].
Qed.

Lemma untimed_cons_op o n r : untimed (TOp o n :: r) = o :: untimed r.
Proof. reflexivity. Qed.
Lemma untimed_cons_count n r : untimed (TCount n :: r) = untimed r.
Proof. reflexivity. Qed.

Lemma bracket_run a : forall b t1 t2 m st, BInv t1 t2 m st -> same_ops a b -> stamps_le a b ->
  Forall op_in_range (untimed a) ->
  Forall2 res_le (snd (th_run t1 a)) (snd (th_run t2 b)).
Proof.
  induction a as [|x a IH]; intros [|y b] t1 t2 m st HB Hs Hl Hr; cbn [same_ops stamps_le] in *; try tauto.
  - constructor.
  - destruct x; tauto.
  - destruct x as [o n1|n1], y as [o' n2|n2]; try tauto.
    + destruct Hs as [<- Hs]. rewrite untimed_cons_op in Hr. inversion Hr as [|? ? Ho Hr']; subst.
      assert (Hn : match o with OpOrphan _ => n2 <= n1 | _ => True end) by (destruct o; tauto).
      assert (Hl' : stamps_le a b) by (destruct o; tauto).
      destruct (BInv_step t1 t2 m st o n1 n2 HB Ho Hn) as [HB' He].
      cbn [th_run]. destruct (th_step t1 (TOp o n1)) as [u1 x1]. destruct (th_step t2 (TOp o n2)) as [u2 x2].
      cbn [fst snd] in *. subst x2.
      specialize (IH b u1 u2 _ _ HB' Hs Hl' Hr').
      destruct (th_run u1 a) as [v1 xs1]. destruct (th_run u2 b) as [v2 xs2]. cbn [snd] in *.
      constructor; [|assumption].
      destruct x1; cbn [res_le]; [reflexivity|lia].
    + destruct Hl as [Hn Hl]. rewrite untimed_cons_count in Hr. cbn [th_run th_step].
      specialize (IH b t1 t2 _ _ HB Hs Hl Hr).
      destruct (th_run t1 a) as [v1 xs1]. destruct (th_run t2 b) as [v2 xs2]. cbn [snd] in *.
      constructor; [|assumption]. cbn [res_le]. unfold th_old_orphans_count, ot_older_than.
      destruct HB as [_ _ _ [_ Hb] _ _].
      assert ((List.length (filter (is_old (n1 - old_age_ns)) (ot_by (th_ot t1))) <=
               List.length (filter (is_old (n2 - old_age_ns)) (ot_by (th_ot t2))))%nat); [|lia].
      apply older_than_mono_times; [lia|exact Hb].
Qed.

(* Bracket of old_orphans_count over a whole run: the same operations under two clock labellings,
   the first with every orphaning read LATER and every count read EARLIER than the second: all
   other results are equal and every count of the first is <= the count of the second.  The real
   clock readings lie between the runner's stamps taken before and after each call, so the real
   counts lie between the driver's two model runs. *)
Theorem th_bracket a b : same_ops a b -> stamps_le a b -> Forall op_in_range (untimed a) ->
  Forall2 res_le (snd (th_run th_new a)) (snd (th_run th_new b)).
Proof. intros. eapply bracket_run; eauto using BInv_new. Qed.

(* ================================================================ dispatch and tick *)
Theorem dispatch_lookup raw sid : reader_dispatch raw = DLookup sid -> sid = raw /\ sid < nids.
Proof.
  unfold reader_dispatch. destruct (N.ltb_spec raw 32768).
  - intros E. inv_some E. split; [reflexivity|exact H].
  - destruct (raw =? 65535); discriminate.
Qed.

Theorem dispatch_negative raw : 32768 <= raw ->
  reader_dispatch raw = (if raw =? 65535 then DEvent else DIgnore).
Proof. intros H. unfold reader_dispatch. destruct (N.ltb_spec raw 32768); [lia|reflexivity]. Qed.

Theorem tick_breaks_spec t now :
  (orphaner_tick_breaks t now = true <-> old_count_threshold < th_old_orphans_count t now) /\
  (orphaner_tick_breaks t now = true -> old_count_threshold < N.of_nat (List.length (ot_by (th_ot t)))) /\
  fst (th_step t (TCount now)) = t.
Proof.
  unfold orphaner_tick_breaks. repeat split.
  - apply N.ltb_lt.
  - apply N.ltb_lt.
  - intros H. apply N.ltb_lt in H. pose proof (older_than_le (th_ot t) now old_age_ns).
    unfold th_old_orphans_count in H. lia.
Qed.

Theorem tick_mono t now now' : now <= now' ->
  orphaner_tick_breaks t now = true -> orphaner_tick_breaks t now' = true.
Proof.
  unfold orphaner_tick_breaks, th_old_orphans_count. intros H E. apply N.ltb_lt in E. apply N.ltb_lt.
  pose proof (older_than_mono_now (th_ot t) now now' old_age_ns H). lia.
Qed.

(* ================================================================ what sm_check's acceptance means *)
Lemma aget_mark_some rid sid (st : spec_state) r t o :
  aget sid (mark_orphan rid st) = Some (r, (t, o)) -> exists o', aget sid st = Some (r, (t, o')).
Proof.
  rewrite aget_mark. destruct (aget sid st) as [[r0 [t0 o0]]|]; cbn [option_map]; [|discriminate].
  unfold mark_fun. destruct (r0 =? rid); intros E; inv_some E; eauto.
Qed.
Lemma aget_mark_keep rid sid (st : spec_state) v :
  aget sid st = Some v -> exists v', aget sid (mark_orphan rid st) = Some v'.
Proof. intros H. rewrite aget_mark, H. cbn. eauto. Qed.

(* while id sid is outstanding, it is not handed out again before a lookup of it *)
Lemma sm_outstanding_blocks ops : forall st rs sid v j r t t', sm_check_from st ops rs = true ->
  aget sid st = Some v -> nth_error ops j = Some (OpAlloc r t) ->
  nth_error rs j = Some (RAlloc (AllocOk sid) t') ->
  exists k, (k < j)%nat /\ nth_error ops k = Some (OpLookup sid).
Proof.
  induction ops as [|o ops IH]; intros st rs sid v j r t t' H Hv Ho Hr; [destruct j; discriminate|].
  destruct rs as [|x rs]; [discriminate|]. cbn [sm_check_from] in H.
  destruct (sm_check_step st o x) as [st'|] eqn:Hs; [|discriminate].
  destruct j as [|j]; cbn [nth_error] in Ho, Hr.
  - inv_some Ho. inv_some Hr. cbn [sm_check_step] in Hs. rewrite Hv in Hs.
    rewrite Bool.andb_false_r in Hs. discriminate.
  - destruct (match o with OpLookup s => s =? sid | _ => false end) eqn:Hl.
    + destruct o; try discriminate. apply N.eqb_eq in Hl. subst. exists 0%nat. split; [lia|reflexivity].
    + assert (Hv' : exists v', aget sid st' = Some v').
      { destruct o as [r0 t0|r0|s0|t0], x as [a tk| |lr|b]; cbn [sm_check_step] in Hs; try discriminate.
        - destruct a as [s1| |]; try discriminate.
          + destruct ((s1 <? nids) && match aget s1 st with None => true | Some _ => false end) eqn:E; [|discriminate].
            inv_some Hs. apply Bool.andb_true_iff in E as [_ E].
            assert (s1 <> sid). { intros ->. rewrite Hv in E. discriminate. }
            rewrite aget_aput_other by congruence. eauto.
          + destruct ((tk =? t0) && (N.of_nat (List.length st) =? nids)); inv_some Hs. eauto.
        - inv_some Hs. eapply aget_mark_keep; eassumption.
        - apply N.eqb_neq in Hl.
          destruct (aget s0 st) as [[r1 [t1 [|]]]|], lr as [|r2 t2|]; try discriminate.
          + inv_some Hs. rewrite aget_arem_other by congruence. eauto.
          + destruct ((r1 =? r2) && (t1 =? t2)); inv_some Hs. rewrite aget_arem_other by congruence. eauto.
          + inv_some Hs. eauto.
        - destruct (Bool.eqb b _); inv_some Hs. eauto. }
      destruct Hv' as [v' Hv'].
      destruct (IH _ _ _ _ _ _ _ _ H Hv' Ho Hr) as (k & Hk & Hn). exists (S k). split; [lia|exact Hn].
Qed.

(* sentence 2 at the level of the map: between two hand-outs of one id lies a lookup of it (= the
   peer's answer has been read) -- whether or not the first request was orphaned meanwhile *)
Theorem sm_check_no_share ops : forall st rs i j sid r1 t1 t1' r2 t2 t2', sm_check_from st ops rs = true ->
  (i < j)%nat ->
  nth_error ops i = Some (OpAlloc r1 t1) -> nth_error rs i = Some (RAlloc (AllocOk sid) t1') ->
  nth_error ops j = Some (OpAlloc r2 t2) -> nth_error rs j = Some (RAlloc (AllocOk sid) t2') ->
  exists k, (i < k < j)%nat /\ nth_error ops k = Some (OpLookup sid).
Proof.
  induction ops as [|o ops IH]; intros st rs i j sid r1 t1 t1' r2 t2 t2' H Hij Ho1 Hr1 Ho2 Hr2;
    [destruct i; discriminate|].
  destruct rs as [|x rs]; [discriminate|]. cbn [sm_check_from] in H.
  destruct (sm_check_step st o x) as [st'|] eqn:Hs; [|discriminate].
  destruct j as [|j]; [lia|]. cbn [nth_error] in Ho2, Hr2. destruct i as [|i]; cbn [nth_error] in Ho1, Hr1.
  - inv_some Ho1. inv_some Hr1. cbn [sm_check_step] in Hs.
    destruct ((sid <? nids) && match aget sid st with None => true | Some _ => false end); [|discriminate].
    inv_some Hs.
    destruct (sm_outstanding_blocks _ _ _ sid _ _ _ _ _ H (aget_aput_same _ _ _) Ho2 Hr2) as (k & Hk & Hn).
    exists (S k). split; [lia|exact Hn].
  - assert (Hlt : (i < j)%nat) by lia.
    destruct (IH _ _ _ _ _ _ _ _ _ _ _ H Hlt Ho1 Hr1 Ho2 Hr2) as (k & Hk & Hn). exists (S k). split; [lia|exact Hn].
Qed.

(* sentence 1 at the level of the map: a lookup that yields a handler yields the handler (request id
   and token = the waiting caller) that was allocated with exactly that id *)
Lemma sm_lookup_origin ops : forall st rs k sid rid tok, sm_check_from st ops rs = true ->
  nth_error ops k = Some (OpLookup sid) -> nth_error rs k = Some (RLookup (LHandler rid tok)) ->
  (exists o, aget sid st = Some (rid, (tok, o))) \/
  exists i t', (i < k)%nat /\ nth_error ops i = Some (OpAlloc rid tok) /\
               nth_error rs i = Some (RAlloc (AllocOk sid) t').
Proof.
  induction ops as [|o ops IH]; intros st rs k sid rid tok H Ho Hr; [destruct k; discriminate|].
  destruct rs as [|x rs]; [discriminate|]. cbn [sm_check_from] in H.
  destruct (sm_check_step st o x) as [st'|] eqn:Hs; [|discriminate].
  destruct k as [|k]; cbn [nth_error] in Ho, Hr.
  - inv_some Ho. inv_some Hr. cbn [sm_check_step] in Hs.
    destruct (aget sid st) as [[r1 [t1 [|]]]|]; try discriminate.
    destruct (N.eqb_spec r1 rid), (N.eqb_spec t1 tok); try discriminate. subst. left. eauto.
  - destruct (IH _ _ _ _ _ _ H Ho Hr) as [[ob Hg]|(i & t' & Hi & A & B)].
    + destruct o as [r0 t0|r0|s0|t0], x as [a tk| |lr|b]; cbn [sm_check_step] in Hs; try discriminate.
      * destruct a as [s1| |]; try discriminate.
        -- destruct ((s1 <? nids) && match aget s1 st with None => true | Some _ => false end); [|discriminate].
           inv_some Hs. destruct (N.eq_dec sid s1).
           ++ subst. rewrite aget_aput_same in Hg. inv_some Hg. right. exists 0%nat, tk.
              split; [lia|]. split; reflexivity.
           ++ rewrite aget_aput_other in Hg by assumption. left. eauto.
        -- destruct ((tk =? t0) && (N.of_nat (List.length st) =? nids)); inv_some Hs. left. eauto.
      * inv_some Hs. left. eapply aget_mark_some; eassumption.
      * destruct (aget s0 st) as [[r1 [t1 [|]]]|] eqn:G, lr as [|r2 t2|]; try discriminate.
        -- inv_some Hs. destruct (N.eq_dec sid s0); [subst; now rewrite aget_arem_same in Hg|].
           rewrite aget_arem_other in Hg by assumption. left. eauto.
        -- destruct ((r1 =? r2) && (t1 =? t2)); inv_some Hs.
           destruct (N.eq_dec sid s0); [subst; now rewrite aget_arem_same in Hg|].
           rewrite aget_arem_other in Hg by assumption. left. eauto.
        -- inv_some Hs. left. eauto.
      * destruct (Bool.eqb b _); inv_some Hs. left. eauto.
    + right. exists (S i), t'. split; [lia|]. split; assumption.
Qed.

Theorem sm_check_delivery ops rs k sid rid tok : sm_check ops rs = true ->
  nth_error ops k = Some (OpLookup sid) -> nth_error rs k = Some (RLookup (LHandler rid tok)) ->
  exists i t', (i < k)%nat /\ nth_error ops i = Some (OpAlloc rid tok) /\
               nth_error rs i = Some (RAlloc (AllocOk sid) t').
Proof.
  intros H Ho Hr. destruct (sm_lookup_origin _ _ _ _ _ _ _ H Ho Hr) as [[o Hg]|Hx]; [discriminate|exact Hx].
Qed.

(* ================================================================ old_orphans_count = number of ids orphaned for more than 1 s *)
Definition swap (e : N * N) : N * N := (snd e, fst e).
Definition CInv (o : otrack) : Prop :=
  NoDup (map fst (ot_orphans o)) /\ ot_by o = map swap (ot_orphans o).

Lemma CInv_insert o sid now : CInv o -> aget sid (ot_orphans o) = None -> CInv (ot_insert o sid now).
Proof.
  intros [Hnd Hby] Hn. unfold ot_insert, aput. rewrite (arem_absent _ _ Hn).
  assert (Hnin : ~ In (now, sid) (ot_by o)).
  { rewrite Hby. intros H. apply in_map_iff in H as ([s t] & E & Hin). unfold swap in E. cbn in E. inv_some E.
    apply (aget_None_notin _ _ Hn). change sid with (fst (sid, now)). now apply in_map. }
  rewrite (existsb_pair_false _ _ _ Hnin). split; cbn [ot_orphans ot_by map fst].
  - constructor; [now apply aget_None_notin|assumption].
  - now rewrite Hby.
Qed.

Lemma filter_all {A} (f : A -> bool) l : (forall x, In x l -> f x = true) -> filter f l = l.
Proof.
  induction l as [|x r IH]; cbn [filter]; [reflexivity|]. intros H.
  rewrite (H x (or_introl eq_refl)), IH; [reflexivity|]. intros y Hy. apply H. now right.
Qed.

Lemma pair_eqb_swap s v t sid : pair_eqb (swap (s, v)) (t, sid) = (v =? t) && (s =? sid).
Proof. reflexivity. Qed.

Lemma filter_swap_nokey l t sid : ~ In sid (map fst l) ->
  filter (fun e => negb (pair_eqb e (t, sid))) (map swap l) = map swap l.
Proof.
  intros H. apply filter_all. intros x Hx. apply in_map_iff in Hx as ([s v] & <- & Hin).
  rewrite pair_eqb_swap. destruct (N.eqb_spec s sid).
  - subst. exfalso. apply H. change sid with (fst (sid, v)). now apply in_map.
  - now rewrite Bool.andb_false_r.
Qed.

Lemma CInv_remove o sid : CInv o -> CInv (ot_remove o sid).
Proof.
  intros [Hnd Hby]. unfold ot_remove. destruct (aget sid (ot_orphans o)) as [t|] eqn:E; [|split; assumption].
  split; cbn [ot_orphans ot_by]; [now apply NoDup_keys_arem|]. rewrite Hby. clear Hby.
  induction (ot_orphans o) as [|[s v] r IH]; cbn [aget] in E; [discriminate|].
  cbn [map fst] in Hnd. inversion Hnd as [|? ? Hn Hr]; subst. cbn [arem map filter].
  rewrite pair_eqb_swap. destruct (N.eqb_spec s sid).
  - subst. inv_some E. rewrite N.eqb_refl. cbn [andb negb].
    rewrite (arem_absent sid r) by (destruct (aget sid r) eqn:G; [|reflexivity];
      exfalso; apply Hn; apply aget_In_keys; congruence).
    now apply filter_swap_nokey.
  - rewrite Bool.andb_false_r. cbn [negb map]. now rewrite (IH Hr E).
Qed.

Lemma CInv_step t m st o n : BInv t t m st -> CInv (th_ot t) -> CInv (th_ot (fst (th_step t (TOp o n)))).
Proof.
  intros [R1 _ K _ _ _] HC. rewrite th_step_ot. destruct R1 as (A1 & B1 & C1 & D1).
  destruct o as [rid tok|rid|sid|tok]; try assumption.
  - rewrite C1. destruct (mget rid (hm_r2s m)) as [sid|] eqn:G; [|assumption].
    destruct (k_r _ _ K _ _ G) as [tk Hh].
    assert (Hno : smem sid (hm_orphans m) = false).
    { destruct (smem sid (hm_orphans m)) eqn:E; [|reflexivity]. destruct (k_o _ _ K _ E). congruence. }
    apply CInv_insert; [assumption|]. apply ot_contains_none. now rewrite D1.
  - destruct (ot_contains (th_ot t) sid); [now apply CInv_remove|assumption].
Qed.

Lemma char_run ops : forall t m st, BInv t t m st -> CInv (th_ot t) -> Forall op_in_range (untimed ops) ->
  CInv (th_ot (fst (th_run t ops))) /\ TRel (fst (th_run t ops)) (fst (hm_run m (untimed ops))).
Proof.
  induction ops as [|x ops IH]; intros t m st HB HC Hr; cbn [th_run untimed flat_map hm_run fst].
  - split; [assumption|apply (b_r1 _ _ _ _ HB)].
  - destruct x as [o n|n].
    + change (untimed (TOp o n :: ops)) with (o :: untimed ops) in Hr. inversion Hr as [|? ? Ho Hr']; subst.
      assert (Hn : match o with OpOrphan _ => n <= n | _ => True end) by (destruct o; try exact I; lia).
      destruct (BInv_step t t m st o n n HB Ho Hn) as [HB' _].
      pose proof (CInv_step t m st o n HB HC) as HC'.
      cbn [app]. fold (untimed ops). cbn [hm_run].
      destruct (th_step t (TOp o n)) as [t1 x1]. destruct (hm_step m o) as [m1 y1]. cbn [fst snd] in *.
      specialize (IH _ _ _ HB' HC' Hr'). destruct (th_run t1 ops) as [t2 xs]. destruct (hm_run m1 (untimed ops)) as [m2 ys].
      exact IH.
    + cbn [th_step app]. fold (untimed ops). change (untimed (TCount n :: ops)) with (untimed ops) in Hr.
      specialize (IH _ _ _ HB HC Hr). destruct (th_run t ops) as [t2 xs]. exact IH.
Qed.

Lemma CInv_new : CInv ot_new.
Proof. split; [constructor|reflexivity]. Qed.

Lemma filter_map_swap (f : N * N -> bool) l :
  List.length (filter f (map swap l)) = List.length (filter (fun e => f (swap e)) l).
Proof. induction l as [|e r IH]; cbn [map filter]; [reflexivity|]. destruct (f (swap e)); cbn [List.length]; now rewrite IH. Qed.

(* In every state of the timed map reached by operations (any clock; lookups in range):
   - an id is in the orphanage (with its orphaning time) iff the untimed model has it orphaned,
     each id once;
   - old_orphans_count at clock [now] = the number of orphaned ids whose orphaning time [tm]
     satisfies tm < now - 1 s (or tm = now - 1 s and the id is not 32767: the code's range bound). *)
Theorem old_count_char ops : Forall op_in_range (untimed ops) ->
  let t := fst (th_run th_new ops) in
  NoDup (map fst (ot_orphans (th_ot t))) /\
  (forall sid, (exists tm, orphaned_since t sid = Some tm) <->
               smem sid (hm_orphans (fst (hm_run hm_new (untimed ops)))) = true) /\
  (forall now, th_old_orphans_count t now = N.of_nat (List.length (old_ids t now))) /\
  (forall now sid, In sid (old_ids t now) <->
     exists tm, orphaned_since t sid = Some tm /\
                (tm < now - old_age_ns \/ (tm = now - old_age_ns /\ sid < 32767))).
Proof.
  intros Hr. destruct (char_run ops th_new hm_new [] BInv_new CInv_new Hr) as [[Hnd Hby] HT].
  cbn zeta. set (t := fst (th_run th_new ops)) in *. split; [exact Hnd|]. split; [|split].
  - intros sid. destruct HT as (_ & _ & _ & D). rewrite <- D. unfold orphaned_since, ot_contains.
    destruct (aget sid (ot_orphans (th_ot t))); split; intros H; eauto; try discriminate. now destruct H.
  - intros now. unfold th_old_orphans_count, ot_older_than, old_ids. rewrite Hby, filter_map_swap, map_length.
    reflexivity.
  - intros now sid. unfold old_ids, orphaned_since. rewrite in_map_iff. split.
    + intros ([s tm] & E & Hin). cbn in E. subst s. apply filter_In in Hin as [Hin Ho]. cbn [fst snd] in Ho.
      exists tm. split; [now apply In_aget_nodup|].
      unfold is_old in Ho. cbn [fst snd] in Ho. apply Bool.orb_true_iff in Ho as [Ho|Ho].
      * left. now apply N.ltb_lt.
      * right. apply Bool.andb_true_iff in Ho as [H1 H2]. apply N.eqb_eq in H1. apply N.ltb_lt in H2. tauto.
    + intros (tm & Hg & Ho). exists (sid, tm). split; [reflexivity|]. apply filter_In. split; [now apply aget_In|].
      unfold is_old. cbn [fst snd]. apply Bool.orb_true_iff. destruct Ho as [Ho|[H1 H2]].
      * left. now apply N.ltb_lt.
      * right. apply Bool.andb_true_iff. split; [now apply N.eqb_eq|now apply N.ltb_lt].
Qed.

(* hence the orphaner's tick: it ends the connection iff more than 1024 ids have been orphaned for
   more than 1 s (in the sense of [old_ids]) *)
Theorem tick_char ops now : Forall op_in_range (untimed ops) ->
  let t := fst (th_run th_new ops) in
  orphaner_tick_breaks t now = true <-> old_count_threshold < N.of_nat (List.length (old_ids t now)).
Proof.
  intros Hr. cbn zeta. destruct (old_count_char ops Hr) as (_ & _ & Hc & _). cbn zeta in Hc.
  unfold orphaner_tick_breaks. rewrite Hc. apply N.ltb_lt.
Qed.

(* ================================================================ deepening round 3 *)

From Coq Require Import Btauto.


(* the real clock readings lie inside the runner's brackets: the real results lie between the
   driver's two model runs *)
Theorem bracket_accepts lo re hi : same_ops lo re -> same_ops re hi -> stamps_le lo re -> stamps_le re hi ->
  Forall op_in_range (untimed re) ->
  Forall2 res_le (snd (th_run th_new lo)) (snd (th_run th_new re)) /\
  Forall2 res_le (snd (th_run th_new re)) (snd (th_run th_new hi)).
Proof.
  intros S1 S2 L1 L2 Hr. split; apply th_bracket; try assumption.
  now rewrite (same_ops_untimed lo re S1).
Qed.

Lemma kinv_run ops : forall m st, KInv m st -> Forall op_in_range ops ->
  exists st', KInv (fst (hm_run m ops)) st'.
Proof.
  induction ops as [|o r IH]; intros m st HK HF; cbn [hm_run]; [eauto|].
  inversion HF as [|? ? Ho Hr]; subst.
  destruct (KInv_step m st o HK Ho) as (st' & _ & HK').
  destruct (hm_step m o) as [m1 x]. cbn [fst] in *.
  destruct (IH m1 st' HK' Hr) as [st2 H2]. destruct (hm_run m1 r) as [m2 xs]. cbn [fst] in *. eauto.
Qed.

(* after ANY operation sequence (request ids / tokens may repeat; lookups in range) an allocation
   never panics and never returns an id that still has a handler or is in the orphanage *)
Theorem alloc_fresh_always ops rid tok : Forall op_in_range ops ->
  let m := fst (hm_run hm_new ops) in
  snd (hm_allocate m rid tok) <> AllocPanic /\
  forall sid, snd (hm_allocate m rid tok) = AllocOk sid ->
    sid < nids /\ used (hm_words m) sid = false /\ mget sid (hm_handlers m) = None /\
    smem sid (hm_orphans m) = false /\
    (forall r, mget r (hm_r2s m) <> Some sid).
Proof.
  intros Hr. cbn zeta. destruct (kinv_run ops hm_new [] KInv_new Hr) as [st K].
  set (m := fst (hm_run hm_new ops)) in *. unfold hm_allocate.
  destruct (sid_alloc (hm_words m)) as [[sid ws']|] eqn:Ha; cbn [snd].
  - destruct (bitmap_alloc _ _ _ (k_wf _ _ K) Ha) as (Hlt & Hfree & _).
    assert (Hn : mget sid (hm_handlers m) = None).
    { destruct (mget sid (hm_handlers m)) eqn:G; [|reflexivity]. apply (k_h _ _ K) in G. congruence. }
    rewrite Hn. cbn [snd]. split; [discriminate|]. intros s E. inv_some E.
    repeat split; try assumption.
    + destruct (smem s (hm_orphans m)) eqn:G; [|reflexivity]. destruct (k_o _ _ K _ G). congruence.
    + intros r G. destruct (k_r _ _ K _ _ G) as [t Ht]. congruence.
  - split; [discriminate|]. intros s E. discriminate.
Qed.

(* the age reading of old_ids without the truncated subtraction *)
Theorem old_ids_age ops now sid : Forall op_in_range (untimed ops) ->
  let t := fst (th_run th_new ops) in
  In sid (old_ids t now) <->
  exists since, orphaned_since t sid = Some since /\
    if old_age_ns <=? now
    then since + old_age_ns < now \/ (since + old_age_ns = now /\ sid < 32767)
    else since = 0 /\ sid < 32767.
Proof.
  intros Hr. cbn zeta. destruct (old_count_char ops Hr) as (_ & _ & _ & H). cbn zeta in H. rewrite H.
  split; intros (tm & Hs & Hc); exists tm; (split; [assumption|]); destruct (N.leb_spec old_age_ns now); lia.
Qed.


(* acceptor states up to the recorded positions *)
Definition aeq (a b : acc) : Prop :=
  (forall k, mhas k (a_sub a) = mhas k (a_sub b)) /\
  (forall k, mhas k (a_recv a) = mhas k (a_recv b)) /\
  (forall k, mget k (a_owed a) = mget k (a_owed b)) /\
  (forall k, mhas k (a_ans a) = mhas k (a_ans b)) /\
  (forall k, mhas k (a_done a) = mhas k (a_done b)).

Lemma aeq_refl a : aeq a a.
Proof. repeat split. Qed.
Lemma aeq_trans a b c : aeq a b -> aeq b c -> aeq a c.
Proof. intros (A1&A2&A3&A4&A5) (B1&B2&B3&B4&B5). repeat split; intros k; congruence. Qed.

Lemma mhas_owed {V} k (m m' : nmap V) : mget k m = mget k m' -> mhas k m = mhas k m'.
Proof. unfold mhas. now intros ->. Qed.

Lemma mget_mput_eq {V} k k' (v : V) m m' : mget k m = mget k m' -> mget k (mput k' v m) = mget k (mput k' v m').
Proof. intros H. destruct (N.eq_dec k k'); [subst; now rewrite !mget_mput_same|now rewrite !mget_mput_other]. Qed.
Lemma mget_mrem_eq {V} k k' (m m' : nmap V) : mget k m = mget k m' -> mget k (mrem k' m) = mget k (mrem k' m').
Proof. intros H. destruct (N.eq_dec k k'); [subst; now rewrite !mget_mrem_same|now rewrite !mget_mrem_other]. Qed.

Lemma aeq_step a b e a' : aeq a b -> acc_step a e = Some a' ->
  exists b', acc_step b e = Some b' /\ aeq a' b'.
Proof.
  intros (S&R&O&A&D) H. destruct e as [m|sid m|sid m|m o]; cbn [acc_step] in *.
  - rewrite <- S. destruct (mhas m (a_sub a)); inv_some H. eexists. split; [reflexivity|].
    repeat split; acc_simpl; intros k; rewrite ?mhas_mput, ?S; auto.
  - rewrite <- S, <- R, <- D, <- (mhas_owed sid _ _ (O sid)).
    destruct (_ && _); inv_some H. eexists. split; [reflexivity|].
    repeat split; acc_simpl; intros k; rewrite ?mhas_mput, ?R; auto. now apply mget_mput_eq.
  - rewrite <- O. destruct (mget sid (a_owed a)) as [m'|]; [|discriminate].
    destruct (m' =? m); inv_some H. eexists. split; [reflexivity|].
    repeat split; acc_simpl; intros k; rewrite ?mhas_mput, ?A; auto. now apply mget_mrem_eq.
  - rewrite <- S, <- D, <- A, <- R. destruct (_ && _); inv_some H. eexists. split; [reflexivity|].
    repeat split; acc_simpl; intros k; rewrite ?mhas_mput, ?D; auto.
Qed.

Lemma aeq_run l : forall a b af, aeq a b -> acc_run a l = Some af ->
  exists bf, acc_run b l = Some bf /\ aeq af bf.
Proof.
  induction l as [|e r IH]; intros a b af E H; cbn [acc_run] in *.
  - inv_some H. eauto.
  - destruct (acc_step a e) as [a1|] eqn:Hs; [|discriminate].
    destruct (aeq_step _ _ _ _ E Hs) as (b1 & Hb & E1). rewrite Hb. eauto.
Qed.


Ltac gtrue H := match type of H with (if ?c then _ else _) = Some _ =>
  let E := fresh "G" in destruct c eqn:E; [|discriminate]; inv_some H end.
Ltac gfalse H := match type of H with (if ?c then _ else _) = Some _ =>
  let E := fresh "G" in destruct c eqn:E; [discriminate|]; inv_some H end.
Ltac split_and G := repeat (let X := fresh "G" in apply Bool.andb_true_iff in G; destruct G as [G X]).

(* ESub one place earlier *)
Lemma swap_sub a x m a1 a2 : acc_step a x = Some a1 -> acc_step a1 (ESub m) = Some a2 ->
  exists b1 b2, acc_step a (ESub m) = Some b1 /\ acc_step b1 x = Some b2 /\ aeq a2 b2.
Proof.
  intros H1 H2. cbn [acc_step] in H2. gfalse H2.
  destruct x as [m0|sid m0|sid m0|m0 o]; cbn [acc_step] in H1.
  - gfalse H1. acc_simpl. rewrite mhas_mput in G. apply Bool.orb_false_iff in G as [Gm Gs].
    cbn [acc_step]. rewrite Gs. do 2 eexists. split; [reflexivity|]. acc_simpl.
    rewrite mhas_mput, G0. rewrite N.eqb_sym, Gm. cbn [orb]. split; [reflexivity|].
    repeat split; acc_simpl; intros k; rewrite ?mhas_mput; try reflexivity. btauto.
  - gtrue H1. acc_simpl. cbn [acc_step]. rewrite G. do 2 eexists. split; [reflexivity|]. cbn [acc_step]. acc_simpl.
    assert (Hm0 : mhas m0 (a_sub a) = true).
    { destruct (mhas m0 (a_sub a)); [reflexivity|]. rewrite ?Bool.andb_false_r in G0. cbn in G0. discriminate. }
    rewrite mhas_mput, Hm0, Bool.orb_true_r. rewrite Hm0 in G0. rewrite G0. split; [reflexivity|]. repeat split; intros; acc_simpl; rewrite ?mhas_mput; reflexivity.
  - destruct (mget sid (a_owed a)) as [m'|] eqn:E; [|discriminate]. gtrue H1. acc_simpl.
    cbn [acc_step]. rewrite G. do 2 eexists. split; [reflexivity|]. cbn [acc_step]. acc_simpl. rewrite E, G0.
    split; [reflexivity|]. repeat split; intros; acc_simpl; rewrite ?mhas_mput; reflexivity.
  - gtrue H1. acc_simpl. cbn [acc_step]. rewrite G. do 2 eexists. split; [reflexivity|]. cbn [acc_step]. acc_simpl.
    assert (Hm0 : mhas m0 (a_sub a) = true).
    { destruct (mhas m0 (a_sub a)); [reflexivity|]. cbn in G0. discriminate. }
    rewrite mhas_mput, Hm0, Bool.orb_true_r. rewrite Hm0 in G0. rewrite G0. split; [reflexivity|]. repeat split; intros; acc_simpl; rewrite ?mhas_mput; reflexivity.
Qed.


Ltac fin := repeat split; intros; acc_simpl; rewrite ?mhas_mput; try reflexivity; try btauto.

(* EDone one place later *)
Lemma swap_done a x m o a1 a2 : acc_step a (EDone m o) = Some a1 -> acc_step a1 x = Some a2 ->
  exists b1 b2, acc_step a x = Some b1 /\ acc_step b1 (EDone m o) = Some b2 /\ aeq a2 b2.
Proof.
  intros H1 H2. cbn [acc_step] in H1. gtrue H1.
  assert (Hs : mhas m (a_sub a) = true).
  { destruct (mhas m (a_sub a)); [reflexivity|]. cbn in G. discriminate. }
  assert (Hd : mhas m (a_done a) = false).
  { destruct (mhas m (a_done a)); [|reflexivity]. rewrite Hs in G. cbn in G. discriminate. }
  rewrite Hs, Hd in G. cbn [andb negb] in G.
  destruct x as [m0|sid m0|sid m0|m0 o0]; cbn [acc_step] in H2; acc_simpl.
  - gfalse H2. cbn [acc_step]. rewrite G0. do 2 eexists. split; [reflexivity|]. cbn [acc_step]. acc_simpl.
    rewrite mhas_mput, Hs, Bool.orb_true_r, Hd, G. cbn [andb negb]. split; [reflexivity|]. fin.
  - gtrue H2. rewrite mhas_mput in G0. destruct (m0 =? m) eqn:E.
    { cbn [orb negb] in G0. rewrite ?Bool.andb_false_r in G0. cbn in G0. discriminate. }
    cbn [orb] in G0. cbn [acc_step]. rewrite G0. do 2 eexists. split; [reflexivity|]. cbn [acc_step]. acc_simpl.
    rewrite Hs, Hd. cbn [andb negb]. rewrite mhas_mput, (N.eqb_sym m m0), E. cbn [orb]. rewrite G.
    split; [reflexivity|]. fin.
  - destruct (mget sid (a_owed a)) as [m'|] eqn:Eo; [|discriminate]. gtrue H2.
    cbn [acc_step]. rewrite Eo, G0. do 2 eexists. split; [reflexivity|]. cbn [acc_step]. acc_simpl.
    rewrite Hs, Hd. cbn [andb negb].
    assert (Hc : match o with
                 | ORows m'0 => (m'0 =? m) && mhas m (mput m0 sid (a_ans a))
                 | OErrAlloc => negb (mhas m (a_recv a))
                 | OOther => true
                 end = true).
    { destruct o; try assumption. apply Bool.andb_true_iff in G as [Ga Gb].
      rewrite Ga, mhas_mput, Gb, Bool.orb_true_r. reflexivity. }
    rewrite Hc. split; [reflexivity|]. fin.
  - gtrue H2. rewrite mhas_mput in G0. destruct (m0 =? m) eqn:E.
    { cbn [orb negb] in G0. rewrite ?Bool.andb_false_r in G0. cbn in G0. discriminate. }
    cbn [orb] in G0. cbn [acc_step]. rewrite G0. do 2 eexists. split; [reflexivity|]. cbn [acc_step]. acc_simpl.
    rewrite Hs, mhas_mput, (N.eqb_sym m m0), E, Hd. cbn [orb andb negb]. rewrite G.
    split; [reflexivity|]. fin.
Qed.


Lemma acc_run_split a l1 l2 af : acc_run a (l1 ++ l2) = Some af ->
  exists a1, acc_run a l1 = Some a1 /\ acc_run a1 l2 = Some af.
Proof.
  rewrite (acc_run_app a l1 a eq_refl). destruct (acc_run a l1) as [a1|]; [eauto|discriminate].
Qed.
Lemma acc_run_join a l1 l2 a1 : acc_run a l1 = Some a1 -> acc_run a (l1 ++ l2) = acc_run a1 l2.
Proof. intros H. now rewrite (acc_run_app a l1 a eq_refl), H. Qed.

Theorem skew_accepts l l' : skew l l' -> forall a af, acc_run a l = Some af ->
  exists bf, acc_run a l' = Some bf /\ aeq af bf.
Proof.
  induction 1 as [l|l1 x m l2|l1 m o x l2|l l' l'' _ IH1 _ IH2]; intros a af H.
  - exists af. split; [assumption|apply aeq_refl].
  - destruct (acc_run_split _ _ _ _ H) as (a0 & H0 & Hr). cbn [acc_run] in Hr.
    destruct (acc_step a0 x) as [a1|] eqn:S1; [|discriminate].
    destruct (acc_step a1 (ESub m)) as [a2|] eqn:S2; [|discriminate].
    destruct (swap_sub _ _ _ _ _ S1 S2) as (b1 & b2 & T1 & T2 & E).
    destruct (aeq_run _ _ _ _ E Hr) as (bf & Hb & Ef). exists bf. split; [|assumption].
    rewrite (acc_run_join _ _ _ _ H0). cbn [acc_run]. now rewrite T1, T2.
  - destruct (acc_run_split _ _ _ _ H) as (a0 & H0 & Hr). cbn [acc_run] in Hr.
    destruct (acc_step a0 (EDone m o)) as [a1|] eqn:S1; [|discriminate].
    destruct (acc_step a1 x) as [a2|] eqn:S2; [|discriminate].
    destruct (swap_done _ _ _ _ _ _ S1 S2) as (b1 & b2 & T1 & T2 & E).
    destruct (aeq_run _ _ _ _ E Hr) as (bf & Hb & Ef). exists bf. split; [|assumption].
    rewrite (acc_run_join _ _ _ _ H0). cbn [acc_run]. now rewrite T1, T2.
  - destruct (IH1 _ _ H) as (b1 & Hb1 & E1). destruct (IH2 _ _ Hb1) as (b2 & Hb2 & E2).
    exists b2. split; [assumption|eapply aeq_trans; eassumption].
Qed.

(* a skewed history is an observation in the sense of [observes] *)
Lemma skew_observes l l' : skew l l' -> observes l l'.
Proof.
  induction 1 as [l|l1 x m l2|l1 m o x l2|l l' l'' _ [F1 D1] _ [F2 D2]].
  - split; [reflexivity|auto].
  - split.
    + rewrite !filter_app. cbn [filter is_mock]. destruct (is_mock x); reflexivity.
    + intros e _ Hin. rewrite in_app_iff in *. cbn [In] in *. tauto.
  - split.
    + rewrite !filter_app. cbn [filter is_mock]. destruct (is_mock x); reflexivity.
    + intros e _ Hin. rewrite in_app_iff in *. cbn [In] in *. tauto.
  - split; [congruence|]. intros e He Hin. apply D2; [assumption|]. now apply D1.
Qed.

(* No false alarm under skew, event by event: the history of every run of the connection model,
   observed with submissions stamped earlier and outcomes stamped later (any number of adjacent
   swaps), passes every event check of the acceptor. *)
Theorem trace_skew_accepts ls s obs : run conn_init ls = Some s -> skew (obs_run conn_init ls) obs ->
  exists a, acc_run acc_init obs = Some a.
Proof.
  intros Hr Hs. destruct (trace_sound_prefix ls s Hr) as [a Ha].
  destruct (skew_accepts _ _ Hs _ _ Ha) as (b & Hb & _). eauto.
Qed.

Theorem skew_accepts_ex l l' : skew l l' -> forall a af, acc_run a l = Some af ->
  exists bf, acc_run a l' = Some bf.
Proof. intros H a af Ha. destruct (skew_accepts l l' H a af Ha) as (bf & Hb & _). eauto. Qed.
