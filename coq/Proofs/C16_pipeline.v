(* C16, deepening round 4 (proof only): theorems about the functions the driver calls directly -
   the flavor dispatchers gen_*, the whole type_check-then-deserialize pipeline, the macros'
   validate, and the boolean comparison predicates.  Nothing here is extracted. *)
From SV Require Import Base.Prelude Base.Bytes Model.Derive Model.DeriveSpec Proofs.Derive_proofs.
From Coq Require Import String.
Open Scope N_scope.

(* ---- the comparison predicates of the driver ------------------------------------------- *)

Lemma cells_eqb_iff a b : cells_eqb a b = true <-> a = b.
Proof. unfold cells_eqb. destruct (list_eq_dec cell_eq_dec a b); split; intros; congruence. Qed.

Lemma outcome_agrees_iff obs doc : outcome_agrees obs doc = true <-> obs = option_cells doc.
Proof.
  destruct obs as [a|], doc as [b|]; cbn [outcome_agrees option_cells].
  - rewrite cells_eqb_iff. split; intros; congruence.
  - split; intros; congruence.
  - split; intros; congruence.
  - split; intros; congruence.
Qed.

Lemma rt_okb_iff f x : rt_okb f x = true <-> rt_ok f x.
Proof.
  unfold rt_okb, rt_ok. destruct (vf_skip f).
  - rewrite cells_eqb_iff. split; intros; congruence.
  - rewrite orb_true_iff, andb_true_iff, !cells_eqb_iff. split.
    + intros [H|[H1 H2]]; [left|right; split]; congruence.
    + intros [H|[H1 H2]]; [left|right; split]; congruence.
Qed.

(* ---- the macros' validate -------------------------------------------------------------- *)

Lemma vdesc_valid_iff d : vdesc_valid d = true <->
  NoDup (map vf_name (nonskipped (vd_fields d))) /\
  (vd_snc d = true ->
     vd_ordered d = true /\ am_only_at_end (vd_fields d) = true /\
     forall f, In f (vd_fields d) -> vf_rename f = None).
Proof.
  unfold vdesc_valid. cbv zeta. rewrite andb_true_iff, nodupb_NoDup.
  destruct (vd_snc d).
  - rewrite !andb_true_iff, forallb_forall. split.
    + intros [[[H1 H2] H3] H4]. split; [exact H4|]. intros _. repeat split; try assumption.
      intros f Hf. specialize (H3 f Hf). destruct (vf_rename f); [discriminate|reflexivity].
    + intros [H4 H]. destruct (H eq_refl) as (H1 & H2 & H3). repeat split; try assumption.
      intros f Hf. now rewrite (H3 f Hf).
  - split.
    + intros [_ H]. split; [exact H|discriminate].
    + intros [H _]. split; [reflexivity|exact H].
Qed.

(* ---- helper: a pipeline "type_check, then deserialize" against a table of the shape
        "if the documented type check accepts then <values> else Reject" -------------------- *)

Lemma pipe_outcome {A} (t : result err unit) (b : bool) (r : result err A) (o : outcome A) :
  (t = Ok tt <-> b = true) -> (b = true -> outcome_of r = o) ->
  outcome_of (match t with Ok _ => r | Err e => Err e end) = if b then o else Reject.
Proof.
  intros I H. destruct b.
  - rewrite (proj2 I eq_refl). now apply H.
  - destruct t as [[]|e]; [|reflexivity]. exfalso. destruct I as [I _]. specialize (I eq_refl). discriminate.
Qed.

Lemma pipe_nopanic {A} (t : result err unit) (b : bool) (r : result err A) :
  (t = Ok tt <-> b = true) -> t <> Err EPanic -> (b = true -> r <> Err EPanic) ->
  (match t with Ok _ => r | Err e => Err e end) <> Err EPanic.
Proof.
  intros I Ht H. destruct t as [[]|e].
  - apply H. now apply I.
  - intros E. apply Ht. congruence.
Qed.

(* the ordered value type check has no panic site *)
Lemma tvo_loop_nopanic snc fs : forall idx db, tvo_loop snc idx fs db <> Err EPanic.
Proof.
  induction fs as [|f fs IH]; intros idx db; cbn [tvo_loop]; [discriminate|].
  destruct (vf_skip f); [apply IH|].
  destruct db as [|[n ty] db'].
  - destruct (vf_am f); [apply IH|discriminate].
  - destruct (negb snc && negb (String.eqb (vf_name f) n)).
    + destruct (vf_am f); [apply IH|discriminate].
    + destruct (accepts (vf_ty f) ty); [apply IH|discriminate].
Qed.

Lemma typeck_value_ordered_nopanic d db : gen_typeck_value_ordered d db <> Err EPanic.
Proof.
  unfold gen_typeck_value_ordered. cbv zeta.
  destruct (Nat.ltb _ _); [discriminate|].
  pose proof (tvo_loop_nopanic (vd_snc d) (vd_fields d) O db) as P.
  destruct (tvo_loop (vd_snc d) 0 (vd_fields d) db) as [rest|e]; [|congruence].
  destruct (vd_forbid d); [|discriminate]. destruct rest as [|[n ?] ?]; discriminate.
Qed.

(* the ordered serializers have no panic site *)
Lemma svo_loop_nopanic snc fs : forall db out, svo_loop snc fs db out <> Err EPanic.
Proof.
  induction fs as [|f fs IH]; intros db out; cbn [svo_loop]; [discriminate|].
  destruct db as [|[n ty] db'].
  - destruct (negb (vf_am f)); [discriminate|apply IH].
  - destruct (snc || String.eqb n (vf_name f)).
    + destruct (ser_field (vf_ty f) (vf_val f) ty); [apply IH|discriminate].
    + destruct (negb (vf_am f)); [discriminate|apply IH].
Qed.

Lemma ser_value_ordered_nopanic d db : gen_ser_value_ordered d db <> Err EPanic.
Proof.
  unfold gen_ser_value_ordered.
  pose proof (svo_loop_nopanic (vd_snc d) (nonskipped (vd_fields d)) db []) as P.
  destruct (svo_loop (vd_snc d) (nonskipped (vd_fields d)) db []) as [[out rest]|e]; [|congruence].
  destruct (vd_forbid d); [|discriminate]. destruct rest as [|[n ?] ?]; discriminate.
Qed.

Lemma io_flat_nopanic ls : forall cols out, io_flat ls cols out <> Err EPanic.
Proof.
  induction ls as [|[snc l] r IH]; intros cols out; cbn [io_flat]; [discriminate|].
  destruct (in_order_field snc (RLeaf l) cols out) as [[o c]|e] eqn:E; [apply IH|].
  cbn [in_order_field] in E. destruct cols as [|[n ty] cols']; [congruence|].
  destruct (negb snc && negb (String.eqb n (rl_name l))); [congruence|].
  destruct (ser_field (rl_ty l) (rl_val l) ty); congruence.
Qed.

Lemma ser_row_ordered_nopanic d cols : gen_ser_row_ordered d cols <> Err EPanic.
Proof.
  unfold gen_ser_row_ordered. rewrite in_order_flat.
  pose proof (io_flat_nopanic (oleaves false (RFlat false (rd_snc d) (rd_fields d))) cols []) as P.
  destruct (io_flat _ cols []) as [[out rest]|e]; [|congruence].
  destruct rest as [|[n ?] ?]; discriminate.
Qed.

(* ---- SerializeValue: the dispatcher the driver calls, every flavor ------------------------ *)

Theorem value_ser_pipeline d db : vdesc_valid d = true ->
  (vd_ordered d = false -> NoDup (map fst db)) ->
  (vd_ordered d = true -> vd_snc d = false -> ordered_am_drops d db = false) ->
  outcome_of (gen_ser_value_cells d db) =
    (if vd_ordered d then
       if vd_snc d then doc_ser_value_snc d db else doc_ser_value_ordered_strict d db
     else doc_ser_value_by_name d db) /\
  gen_ser_value_cells d db <> Err EPanic /\
  gen_ser_value d (TUdt db) =
    match gen_ser_value_cells d db with Ok cs => Ok (frame_value cs) | Err e => Err e end /\
  (forall n, gen_ser_value d (TNative n) = Err ENotUdt).
Proof.
  intros V _ K. apply vdesc_valid_iff in V. destruct V as [ND S].
  split; [|split; [|split; [reflexivity|reflexivity]]].
  - unfold gen_ser_value_cells. destruct (vd_ordered d) eqn:O.
    + destruct (vd_snc d) eqn:Sn.
      * now apply ser_value_snc_doc.
      * apply ser_value_ordered_strict_doc; auto.
    + now apply ser_value_by_name_doc.
  - unfold gen_ser_value_cells. destruct (vd_ordered d).
    + apply ser_value_ordered_nopanic.
    + now apply ser_value_by_name_nopanic.
Qed.

(* ---- DeserializeValue: type_check, then deserialize, every flavor ------------------------- *)

Theorem value_deser_pipeline d db cells : vdesc_valid d = true ->
  (vd_ordered d = true -> vd_snc d = false -> ordered_am_drops d db = false) ->
  outcome_of (match gen_typeck_value d (TUdt db) with
              | Ok _ => gen_deser_value d db cells
              | Err e => Err e
              end) =
    (if vd_ordered d then
       if vd_snc d then doc_deser_value_snc d db cells else doc_deser_value_ordered_strict d db cells
     else doc_deser_value_by_name d db cells) /\
  (match gen_typeck_value d (TUdt db) with
   | Ok _ => gen_deser_value d db cells
   | Err e => Err e
   end) <> Err EPanic /\
  (forall n, gen_typeck_value d (TNative n) = Err ENotUdt).
Proof.
  intros V K. apply vdesc_valid_iff in V. destruct V as [ND S].
  split; [|split; [|reflexivity]].
  - unfold gen_typeck_value, gen_deser_value. destruct (vd_ordered d) eqn:O.
    + destruct (vd_snc d) eqn:Sn.
      * unfold doc_deser_value_snc. apply pipe_outcome.
        -- now apply typeck_value_snc_doc.
        -- intros T. exact (proj1 (deser_value_snc_doc d db cells Sn T)).
      * specialize (K eq_refl eq_refl).
        pose proof (pipe_outcome (gen_typeck_value_ordered d db) (doc_typeck_value_ordered_strict d db)
                      (gen_deser_value_ordered d db cells) (doc_deser_value_ordered_strict d db cells)
                      (typeck_value_ordered_strict_doc d db Sn ND K)
                      (fun T => proj1 (deser_value_ordered_strict_doc d db cells Sn ND K T))) as P.
        rewrite P. destruct (doc_typeck_value_ordered_strict d db) eqn:T; [reflexivity|].
        unfold doc_deser_value_ordered_strict, doc_deser_value_ordered_am. rewrite K.
        unfold doc_typeck_value_ordered_strict in T. rewrite K in T. cbn [negb andb] in T.
        now rewrite T.
    + unfold doc_deser_value_by_name. apply pipe_outcome.
      * exact (proj1 (typeck_value_by_name_doc d db ND)).
      * intros T. exact (proj1 (deser_value_by_name_spec d db cells ND T)).
  - unfold gen_typeck_value, gen_deser_value. destruct (vd_ordered d) eqn:O.
    + destruct (vd_snc d) eqn:Sn.
      * apply (pipe_nopanic _ (doc_typeck_value_snc d db)).
        -- now apply typeck_value_snc_doc.
        -- apply typeck_value_ordered_nopanic.
        -- intros T. exact (proj2 (deser_value_snc_doc d db cells Sn T)).
      * specialize (K eq_refl eq_refl).
        apply (pipe_nopanic _ (doc_typeck_value_ordered_strict d db)).
        -- now apply typeck_value_ordered_strict_doc.
        -- apply typeck_value_ordered_nopanic.
        -- intros T. exact (proj2 (deser_value_ordered_strict_doc d db cells Sn ND K T)).
    + apply (pipe_nopanic _ (doc_typeck_value_by_name d db)).
      * exact (proj1 (typeck_value_by_name_doc d db ND)).
      * exact (proj2 (typeck_value_by_name_doc d db ND)).
      * intros T. exact (proj2 (deser_value_by_name_spec d db cells ND T)).
Qed.

(* ---- SerializeRow: the dispatcher, every flavor and flatten tree -------------------------- *)

Theorem row_ser_pipeline d cols : (rd_ordered d = false -> rdesc_wf d = true) ->
  outcome_of (gen_ser_row_cells d cols) =
    (if rd_ordered d then doc_ser_row_ordered_gen d cols else doc_ser_row_by_name d cols) /\
  gen_ser_row_cells d cols <> Err EPanic /\
  gen_ser_row d cols =
    match gen_ser_row_cells d cols with Ok cs => Ok (frame_cells cs) | Err e => Err e end.
Proof.
  intros W. split; [|split; [|reflexivity]]; unfold gen_ser_row_cells; destruct (rd_ordered d).
  - apply ser_row_ordered_gen_doc.
  - exact (proj1 (ser_row_by_name_doc d cols (W eq_refl))).
  - apply ser_row_ordered_nopanic.
  - exact (proj2 (ser_row_by_name_doc d cols (W eq_refl))).
Qed.

(* ---- DeserializeRow: type_check, then deserialize, every flavor --------------------------- *)

Lemma wf_rnodup d ls : rdesc_wf d = true -> leaves_only (rd_fields d) = Some ls -> rnodup ls.
Proof.
  intros W LO. unfold rnodup. unfold rdesc_wf in W. apply nodupb_NoDup in W.
  unfold rd_leaves in W. now rewrite (leaves_only_leaves _ _ LO) in W.
Qed.

Theorem row_deser_pipeline d ls cols cells : leaves_only (rd_fields d) = Some ls ->
  List.length cells = List.length cols ->
  (rd_ordered d && rd_snc d = false -> rdesc_wf d = true) ->
  outcome_of (match gen_typeck_row d ls cols with
              | Ok _ => gen_deser_row d ls cols cells
              | Err e => Err e
              end) =
    (if rd_ordered d then
       if rd_snc d then doc_deser_row_snc ls cols cells else doc_deser_row_ordered ls cols cells
     else doc_deser_row_by_name ls cols cells) /\
  (match gen_typeck_row d ls cols with
   | Ok _ => gen_deser_row d ls cols cells
   | Err e => Err e
   end) <> Err EPanic.
Proof.
  intros LO L W. unfold gen_typeck_row, gen_deser_row.
  destruct (rd_ordered d) eqn:O; [destruct (rd_snc d) eqn:Sn|]; cbn [andb] in W.
  - split.
    + unfold doc_deser_row_snc. apply pipe_outcome.
      * exact (proj1 (typeck_row_snc_doc ls cols)).
      * intros T. exact (proj1 (deser_row_snc_doc ls cols cells L T)).
    + apply (pipe_nopanic _ (doc_typeck_row_snc ls cols)).
      * exact (proj1 (typeck_row_snc_doc ls cols)).
      * exact (proj2 (typeck_row_snc_doc ls cols)).
      * intros T. exact (proj2 (deser_row_snc_doc ls cols cells L T)).
  - pose proof (wf_rnodup d ls (W eq_refl) LO) as ND. split.
    + unfold doc_deser_row_ordered. apply pipe_outcome.
      * exact (proj1 (typeck_row_ordered_doc ls cols)).
      * intros T. exact (proj1 (deser_row_ordered_spec ls cols cells ND L T)).
    + apply (pipe_nopanic _ (doc_typeck_row_ordered ls cols)).
      * exact (proj1 (typeck_row_ordered_doc ls cols)).
      * exact (proj2 (typeck_row_ordered_doc ls cols)).
      * intros T. exact (proj2 (deser_row_ordered_spec ls cols cells ND L T)).
  - pose proof (wf_rnodup d ls (W eq_refl) LO) as ND. split.
    + unfold doc_deser_row_by_name. apply pipe_outcome.
      * exact (proj1 (typeck_row_by_name_doc ls cols ND)).
      * intros T. exact (proj1 (deser_row_by_name_spec ls cols cells ND L T)).
    + apply (pipe_nopanic _ (doc_typeck_row_by_name ls cols)).
      * exact (proj1 (typeck_row_by_name_doc ls cols ND)).
      * exact (proj2 (typeck_row_by_name_doc ls cols ND)).
      * intros T. exact (proj2 (deser_row_by_name_spec ls cols cells ND L T)).
Qed.

(* the three ordered generators without a panic site, as one statement *)
Lemma ordered_nopanic :
  (forall d db, gen_typeck_value_ordered d db <> Err EPanic) /\
  (forall d db, gen_ser_value_ordered d db <> Err EPanic) /\
  (forall d cols, gen_ser_row_ordered d cols <> Err EPanic).
Proof.
  split; [exact typeck_value_ordered_nopanic|split; [exact ser_value_ordered_nopanic|exact ser_row_ordered_nopanic]].
Qed.
