(* Frame level: header round trip, C08_roundtrip, C08_truncation (frame and body level),
   C08_fuel_enough — for every custom-type parser and every codec with decompress∘compress = id. *)
From SV Require Import Base.Prelude Base.Bytes Model.FrameBase Model.FrameTypes Model.FrameResp
  Model.FrameEnc Proofs.FrameBase_proofs Proofs.FrameTypes_proofs Proofs.FrameResp_proofs
  Proofs.FrameRt_proofs.
Open Scope N_scope.

Definition wf_header (h : header) : Prop :=
  h_version h = 132 /\ h_flags h < 256 /\ (- 2 ^ 15 <= h_stream h < 2 ^ 15)%Z /\
  opcode_ok (h_opcode h) = true /\ h_length h < 2 ^ 32.

Lemma enc_header_len h : lenN (enc_header h) = 9.
Proof.
  unfold enc_header, lenN, enc_signed. rewrite !app_length, !be_enc_length. reflexivity.
Qed.

Lemma opcode_ok_lt op : opcode_ok op = true -> op < 256.
Proof.
  unfold opcode_ok. rewrite !orb_true_iff, !N.eqb_eq. intros H.
  intuition (subst; reflexivity).
Qed.

(* what read_frame does on a well-formed header followed by at least / fewer than [length] bytes *)
Lemma read_frame_header h tail :
  wf_header h ->
  read_frame (enc_header h ++ tail) =
  match ntake (h_length h) tail with
  | Some (body, rest) => (Ok ((h, body), rest), mkCost (N.min (h_length h) MAX_BODY_PREALLOCATION) 0)
  | None => (Err EConnectionClosed, mkCost (N.min (h_length h) MAX_BODY_PREALLOCATION) 0)
  end.
Proof.
  intros (Hv & Hf & Hs & Ho & Hl). pose proof (opcode_ok_lt _ Ho) as Ho'.
  destruct h as [v fl st op len]. cbn [h_version h_flags h_stream h_opcode h_length] in *. subst v.
  unfold read_frame.
  assert (E9 : map_err (fun _ => EHeaderIo) (read_raw 9) (enc_header (mkHeader 132 fl st op len) ++ tail)
               = (Ok (enc_header (mkHeader 132 fl st op len), tail), c0)).
  { unfold map_err, read_raw. rewrite <- (enc_header_len (mkHeader 132 fl st op len)), ntake_app. reflexivity. }
  assert (Ein : run parse_header (enc_header (mkHeader 132 fl st op len)) = Ok (mkHeader 132 fl st op len, [])).
  { unfold parse_header, enc_header. cbn [h_version h_flags h_stream h_opcode h_length app].
    rewrite run_bind, run_read_u8_one by lia. cbv beta iota.
    change (N.land 132 128 =? 0) with false. change (negb (N.land 132 127 =? 4)) with false. cbv iota.
    rewrite run_bind, run_read_u8_one by exact Hf. cbv beta iota.
    rewrite run_bind. unfold enc_signed.
    change 2 with (N.of_nat 2) at 1. rewrite run_read_be_enc.
    2:{ unfold wrap_bits. change (8 * N.of_nat 2) with 16.
        assert (0 <= st mod 2 ^ Z.of_N 16 < 2 ^ 16)%Z by (apply Z.mod_pos_bound; lia). lia. }
    cbv beta iota. rewrite run_bind, run_read_u8_one by exact Ho'. cbv beta iota.
    rewrite Ho. cbn [negb]. rewrite run_bind.
    replace (be_enc 4 len) with (be_enc 4 len ++ []) by apply app_nil_r.
    change 4 with (N.of_nat 4) at 1. rewrite run_read_be_enc by (cbn; lia). cbv beta iota. rewrite run_ret.
    f_equal. f_equal. f_equal.
    pose proof (dec_enc_signed 2 st ltac:(lia) ltac:(lia)) as D.
    unfold dec_signed, enc_signed in D. rewrite be_enc_length in D.
    rewrite be_dec_enc_small in D.
    2:{ unfold wrap_bits. change (8 * N.of_nat 2) with 16.
        assert (0 <= st mod 2 ^ Z.of_N 16 < 2 ^ 16)%Z by (apply Z.mod_pos_bound; lia). lia. }
    exact D. }
  unfold bind at 1. rewrite E9. cbv beta iota. rewrite Ein. cbv beta iota zeta.
  cbn [h_length]. destruct (ntake len tail) as [[body rest]|]; reflexivity.
Qed.

Lemma read_frame_short q : lenN q < 9 -> fst (read_frame q) = Err EHeaderIo.
Proof.
  intros H. unfold read_frame, bind, map_err, read_raw. rewrite ntake_short by exact H. reflexivity.
Qed.

Lemma pair_of_run {A} (p : parser A) b x : run p b = x -> exists c, p b = (x, c).
Proof. unfold run. destruct (p b) as [y c]. cbn. intros ->. eauto. Qed.

Section Top.
Variable custom : custom_parser.
Variables (compress : bytes -> bytes) (decompress : bytes -> option bytes).

Lemma wf_frame_header ft v2 cmp f :
  wf_frame compress ft v2 cmp f -> wf_header (d_header f).
Proof.
  intros (Hv & Hf & Hs & Ho & Hl & Hl2 & _). repeat split; try assumption; try lia.
  rewrite Ho. destruct (d_resp f); reflexivity.
Qed.

(* C08_truncation, frame level: any strict prefix of the encoded frame is rejected *)
Lemma decode_truncated ft v2 cmp f q :
  wf_frame compress ft v2 cmp f ->
  sprefix q (encode_frame compress ft f) ->
  is_rejected (fst (decode_frame custom decompress ft v2 cmp q)) = true.
Proof.
  intros W (t & Ht & E). pose proof (wf_frame_header _ _ _ _ W) as Wh.
  destruct W as (_ & _ & _ & _ & Hl & _).
  unfold decode_frame. destruct (N.lt_ge_cases (lenN q) 9) as [L|L].
  - pose proof (read_frame_short q L) as S. destruct (read_frame q) as [res c]. cbn [fst] in S. subst res. reflexivity.
  - (* q = header ++ q', q' a strict prefix of the body *)
    unfold encode_frame in E.
    assert (exists q', q = enc_header (d_header f) ++ q' /\ wire_body compress ft f = q' ++ t) as (q' & -> & Eq').
    { apply app_eq_app in E as (l & [[E1 E2]|[E1 E2]]).
      - (* header = q ++ l: then l = [] by lengths *)
        assert (lenN l = 0).
        { apply (f_equal (@lenN N)) in E1. rewrite lenN_app, enc_header_len in E1. lia. }
        apply lenN_0 in H. subst l. rewrite app_nil_r in E1. subst q. exists []. rewrite app_nil_r.
        split; [reflexivity|]. cbn in E2. symmetry. exact E2.
      - exists l. split; [exact E1|]. exact E2. }
    rewrite (read_frame_header _ _ Wh), ntake_short; [reflexivity|].
    rewrite Hl, Eq', lenN_app. destruct t; [congruence|]. rewrite lenN_cons. lia.
Qed.

(* C08_truncation, body level: the body cut anywhere, behind a header announcing exactly the cut
   length (uncompressed frames), is rejected as well *)
Lemma decode_truncated_body ft v2 cmp f q rest :
  wf_frame compress ft v2 cmp f ->
  bit (h_flags (d_header f)) 1 = false ->
  sprefix q (enc_body ft f) ->
  let h := d_header f in
  let h' := mkHeader (h_version h) (h_flags h) (h_stream h) (h_opcode h) (lenN q) in
  is_rejected (fst (decode_frame custom decompress ft v2 cmp (enc_header h' ++ q ++ rest))) = true.
Proof.
  intros W Hb Hq h h'. pose proof (wf_frame_header _ _ _ _ W) as Wh.
  destruct W as (Hv & Hf & Hs & Ho & Hl & Hl2 & Hc & Wx & Wr).
  assert (Wh' : wf_header h').
  { destruct Wh as (A & B & C & D & E). apply sprefix_len in Hq. unfold wire_body in Hl. rewrite Hb in Hl.
    unfold wf_header, h', h. cbn [h_version h_flags h_stream h_opcode h_length].
    repeat split; try assumption; lia. }
  unfold decode_frame. rewrite (read_frame_header _ _ Wh'). unfold h'. cbn [h_length]. rewrite ntake_app.
  cbn [h_flags h_opcode]. unfold h at 1. rewrite Hb.
  (* the two body stages as one parser *)
  pose proof (psafe_deser_body custom ft v2 (h_flags h) (h_opcode h)) as PS.
  assert (R : run (deser_body custom ft v2 (h_flags h) (h_opcode h)) (enc_body ft f ++ []) = Ok ((d_ext f, d_resp f), [])).
  { unfold deser_body, enc_body. rewrite <- app_assoc, run_bind. fold h.
    rewrite (run_deser_extensions_enc (h_flags h) (d_ext f) _ Wx). cbv beta iota. rewrite run_bind.
    unfold h at 1. rewrite Ho. rewrite (run_deser_response_enc custom ft v2 (d_resp f) [] Wr). reflexivity. }
  destruct (PS _ _ _ R) as (c & Ec & _ & T).
  rewrite !app_nil_r in Ec. subst c. destruct (T q Hq) as (e & Eq).
  unfold deser_body in Eq. rewrite run_bind in Eq. unfold run at 1 in Eq.
  destruct (deser_extensions (h_flags h) q) as [[[x bd1]|e1] c1]; cbn [fst] in Eq; [|reflexivity].
  rewrite run_bind in Eq. unfold run at 1 in Eq.
  destruct (deser_response custom ft v2 (h_opcode h) bd1) as [[[rr bd2]|e2] c2]; cbn [fst] in Eq;
    [rewrite run_ret in Eq; discriminate|reflexivity].
Qed.

Section Codec.
Hypothesis codec_inverse : forall b, decompress (compress b) = Some b.
(* C08_roundtrip *)
Lemma decode_encode ft v2 cmp f rest :
  wf_frame compress ft v2 cmp f ->
  fst (decode_frame custom decompress ft v2 cmp (encode_frame compress ft f ++ rest)) = ODone f.
Proof.
  intros W. pose proof (wf_frame_header _ _ _ _ W) as Wh.
  destruct W as (Hv & Hf & Hs & Ho & Hl & Hl2 & Hc & Wx & Wr).
  unfold decode_frame, encode_frame. rewrite <- app_assoc, (read_frame_header _ _ Wh).
  rewrite Hl, ntake_app.
  assert (Eb : (if bit (h_flags (d_header f)) 1
                then if cmp then match decompress (wire_body compress ft f) with Some d => Ok d | None => Err EDecompress end
                     else Err ENoCompression
                else Ok (wire_body compress ft f)) = @Ok ferr bytes (enc_body ft f)).
  { unfold wire_body. destruct (bit (h_flags (d_header f)) 1) eqn:Eb; [|reflexivity].
    rewrite (Hc eq_refl), codec_inverse. reflexivity. }
  rewrite Eb. unfold enc_body.
  destruct (pair_of_run _ _ _ (run_deser_extensions_enc (h_flags (d_header f)) (d_ext f)
                                 (enc_response ft (d_resp f)) Wx)) as (c1 & ->).
  pose proof (run_deser_response_enc custom ft v2 (d_resp f) [] Wr) as R. rewrite app_nil_r in R.
  rewrite <- Ho in R. destruct (pair_of_run _ _ _ R) as (c2 & ->). cbn [fst].
  destruct f as [h x rr]. reflexivity.
Qed.

End Codec.

(* C08_fuel_enough *)
Hypothesis custom_noof : forall s, fst (custom s) <> Err EOutOfFuel.

Lemma read_frame_no_oof b : fst (read_frame b) <> Err EOutOfFuel.
Proof.
  unfold read_frame, bind, map_err, read_raw. destruct (ntake 9 b) as [[raw rest]|]; [|discriminate]. cbv beta iota.
  assert (N : noof parse_header).
  { unfold parse_header. apply noof_bind; [auto with noof|intros v]. repeat apply noof_if; try (apply noof_fail; discriminate).
    apply noof_bind; [auto with noof|intros fl]. apply noof_bind; [apply noof_read_be|intros st].
    apply noof_bind; [auto with noof|intros op]. apply noof_if; [apply noof_fail; discriminate|].
    apply noof_bind; [apply noof_read_be|intros len]. apply noof_ret. }
  specialize (N raw).
  destruct (run parse_header raw) as [[h ?]|e] eqn:E.
  - destruct (ntake (h_length h) rest) as [[? ?]|]; discriminate.
  - cbn [fst]. congruence.
Qed.

Lemma decode_no_oof ft v2 cmp stream st :
  fst (decode_frame custom decompress ft v2 cmp stream) <> OErr st EOutOfFuel.
Proof.
  unfold decode_frame. pose proof (read_frame_no_oof stream) as RF.
  destruct (read_frame stream) as [[[[h body] rest]|e] c]; cbn [fst] in *; [|congruence].
  destruct (if bit (h_flags h) 1 then if cmp then match decompress body with Some d => Ok d | None => Err EDecompress end
                                       else Err ENoCompression else Ok body) as [bd|e] eqn:Eb.
  2:{ cbn [fst]. destruct (bit (h_flags h) 1); [|discriminate]. destruct cmp; [|inversion Eb; discriminate].
      destruct (decompress body); inversion Eb; discriminate. }
  pose proof (noof_deser_extensions (h_flags h) bd) as NX. unfold run in NX.
  destruct (deser_extensions (h_flags h) bd) as [[[x bd1]|e1] c1]; cbn [fst] in *; [|congruence].
  pose proof (noof_deser_response custom custom_noof ft v2 (h_opcode h) bd1) as NR. unfold run in NR.
  destruct (deser_response custom ft v2 (h_opcode h) bd1) as [[[rr bd2]|e2] c2]; cbn [fst] in *; [discriminate|congruence].
Qed.

End Top.
