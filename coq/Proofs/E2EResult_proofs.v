(* The direct property predicates of the C13 end-to-end tie (Model/E2ESpec.v: prop_first_real,
   prop_last_error) hold of every observation the certificate checker accepts. *)
From SV Require Import Base.Prelude Model.Retry Model.Fiber Model.E2EAttempts Model.E2ESpec.
From SV Require Import Proofs.Retry_proofs Proofs.Fiber_proofs Proofs.C06_proofs.
From SV Require Import Proofs.E2EAttempts_proofs Proofs.E2ESpec_proofs.
From SV Require Model.Spec Proofs.Spec_proofs.
Open Scope N_scope.

(* ---- the select loop: which fibers have completed, where a returning completion stands --------- *)
Lemma finish_check_fields m :
  Spec.running (Spec.finish_check m) = Spec.running m /\
  Spec.started (Spec.finish_check m) = Spec.started m.
Proof. unfold Spec.finish_check. destruct (Spec.running m) eqn:E1, (Spec.retries m) eqn:E2; cbn; rewrite ?E1; auto. Qed.

Lemma step_shape s l s' : Spec.step s l = Some s' ->
  Spec.returned s = None /\
  match l with
  | Spec.Timer =>
      (Spec.started s' = S (Spec.started s) /\ Spec.running s' = Spec.running s ++ [Spec.started s])
      \/ (Spec.started s' = Spec.started s /\ Spec.running s' = Spec.running s)
  | Spec.Complete f o =>
      In f (Spec.running s) /\ Spec.started s' = Spec.started s
      /\ Spec.running s' = Spec.remove f (Spec.running s)
  end.
Proof.
  unfold Spec.step. destruct (Spec.returned s) eqn:Hr; [discriminate|]. intros H. split; [reflexivity|].
  destruct l as [|f o].
  - unfold Spec.on_timer in H. destruct (Spec.sleep s); [|discriminate].
    destruct (Spec.retries s); injection H as <-; cbn; auto.
  - unfold Spec.on_complete in H. destruct (Spec.mem f (Spec.running s)) eqn:Hm; [|discriminate].
    apply Spec_proofs.mem_In in Hm. split; [assumption|].
    destruct o as [r|].
    + destruct (Spec.can_be_ignored r); injection H as <-.
      * destruct (finish_check_fields (Spec.mkState (Spec.retries s) (Spec.remove f (Spec.running s))
                    (Spec.sleep s) (Some r) (Spec.started s) None)) as [-> ->]. auto.
      * auto.
    + injection H as <-.
      destruct (finish_check_fields (Spec.mkState 0 (Spec.remove f (Spec.running s))
                    (Spec.sleep s) (Spec.last_error s) (Spec.started s) None)) as [-> ->]. auto.
Qed.

Definition cids (ls : list Spec.label) : list nat :=
  flat_map (fun l => match l with Spec.Complete f _ => [f] | Spec.Timer => [] end) ls.

Lemma cids_In f ls : In f (cids ls) -> exists o, In (Spec.Complete f o) ls.
Proof.
  unfold cids. rewrite in_flat_map. intros [l [Hl Hf]]. destruct l as [|g o]; [contradiction|].
  destruct Hf as [<-|[]]. now exists o.
Qed.

(* every started execution is running or has completed *)
Lemma run_cover ls : forall s0 s done0, Spec.run s0 ls = Some s ->
  (forall f, (f < Spec.started s0)%nat -> In f (Spec.running s0) \/ In f done0) ->
  forall f, (f < Spec.started s)%nat -> In f (Spec.running s) \/ In f (done0 ++ cids ls).
Proof.
  induction ls as [|l ls IH]; intros s0 s done0 H H0 f Hf.
  - cbn in H. injection H as <-. rewrite app_nil_r. auto.
  - cbn [Spec.run] in H. destruct (Spec.step s0 l) as [s1|] eqn:E; [|discriminate].
    destruct (step_shape _ _ _ E) as [_ Hs].
    assert (H1 : forall g, (g < Spec.started s1)%nat ->
                 In g (Spec.running s1) \/ In g (done0 ++ cids [l])).
    { intros g Hg. destruct l as [|h o].
      - cbn [cids flat_map]. rewrite app_nil_r.
        destruct Hs as [[Hst Hr]|[Hst Hr]]; rewrite Hr.
        + destruct (Nat.eq_dec g (Spec.started s0)) as [->|Hne]; [left; apply in_or_app; right; now left|].
          destruct (H0 g ltac:(lia)); [left; apply in_or_app; now left|now right].
        + apply H0. lia.
      - destruct Hs as [_ [Hst Hr]]. rewrite Hr. rewrite Hst in Hg.
        destruct (Nat.eq_dec g h) as [->|Hne]; [right; apply in_or_app; right; now left|].
        destruct (H0 g Hg) as [Hin|Hin]; [left; apply Spec_proofs.remove_In; auto|right; apply in_or_app; now left]. }
    specialize (IH s1 s (done0 ++ cids [l]) H H1 f Hf).
    destruct IH as [IH|IH]; [now left|right]. rewrite <- app_assoc in IH.
    assert (Hc : cids (l :: ls) = cids [l] ++ cids ls) by (unfold cids; cbn [flat_map]; now rewrite app_nil_r).
    now rewrite Hc.
Qed.

Lemma run_cover_init max ls s : Spec.run (Spec.init max) ls = Some s ->
  forall f, (f < Spec.started s)%nat -> In f (Spec.running s) \/ exists o, In (Spec.Complete f o) ls.
Proof.
  intros H f Hf.
  destruct (run_cover ls (Spec.init max) s [] H) with (f := f) as [Hin|Hin]; auto.
  - intros g Hg. cbn in Hg. left. cbn. left. lia.
  - right. now apply cids_In.
Qed.

(* a completion that makes `execute` return is the last label of the schedule *)
Lemma run_split ls s0 s pre l post : Spec.run s0 ls = Some s -> ls = pre ++ l :: post ->
  exists s1 s2, Spec.run s0 pre = Some s1 /\ Spec.step s1 l = Some s2 /\ Spec.run s2 post = Some s.
Proof.
  intros H ->. rewrite Spec_proofs.run_app in H.
  destruct (Spec.run s0 pre) as [s1|]; [|discriminate]. cbn [Spec.run] in H.
  destruct (Spec.step s1 l) as [s2|] eqn:E; [|discriminate]. now exists s1, s2.
Qed.

Lemma run_returned_nil s ls s' : Spec.run s ls = Some s' -> Spec.returned s <> None -> ls = [].
Proof.
  destruct ls as [|l ls]; [reflexivity|]. cbn [Spec.run]. unfold Spec.step.
  destruct (Spec.returned s); [discriminate|]. intros _ H. now contradiction H.
Qed.

Lemma real_label_last max ls s pre f r post :
  Spec.run (Spec.init max) ls = Some s -> ls = pre ++ Spec.Complete f (Some r) :: post ->
  Spec.can_be_ignored r = false -> post = [] /\ Spec.returned s = Some r.
Proof.
  intros H Heq Hign. destruct (run_split _ _ _ _ _ _ H Heq) as [s1 [s2 [_ [Hst Hpost]]]].
  assert (Hret : Spec.returned s2 = Some r).
  { unfold Spec.step in Hst. destruct (Spec.returned s1); [discriminate|].
    unfold Spec.on_complete in Hst. destruct (Spec.mem f (Spec.running s1)); [|discriminate].
    rewrite Hign in Hst. injection Hst as <-. reflexivity. }
  assert (Hnil : post = []) by (eapply run_returned_nil; [exact Hpost|congruence]).
  subst post. cbn in Hpost. injection Hpost as <-. auto.
Qed.

(* an ignorable (or EmptyPlan) value is returned only when nothing is running, nothing may be
   started, and no completion was real *)
Lemma ignorable_return max ls s R :
  Spec.run (Spec.init max) ls = Some s -> Spec.returned s = Some R ->
  Spec.is_real (Some R) = false ->
  Spec.running s = [] /\ Spec.retries s = 0%nat /\
  (forall o, In o (Spec.completions ls) -> Spec.is_real o = false).
Proof.
  intros H Hret Hnr. pose proof (Spec_proofs.inv_reachable _ _ _ H) as I.
  destruct (Spec_proofs.inv_ret _ _ _ I R Hret) as [Hf|[Hf [Hr [Hz _]]]].
  - apply Spec_proofs.first_real_some in Hf as [_ Hf]. congruence.
  - split; [assumption|]. split; [assumption|]. now apply Spec_proofs.first_real_none.
Qed.

Lemma completions_In f o ls : In (Spec.Complete f o) ls -> In o (Spec.completions ls).
Proof.
  unfold Spec.completions. intros H. apply in_flat_map. exists (Spec.Complete f o). split; [assumption|now left].
Qed.

(* ---- the observation side ------------------------------------------------------------------- *)
Lemma indexed_from_nth_error {A} (l : list A) : forall k i,
  nth_error (indexed_from k l) i = option_map (fun x => ((k + i)%nat, x)) (nth_error l i).
Proof.
  induction l as [|a l IH]; intros k [|i]; cbn; try reflexivity.
  - now rewrite Nat.add_0_r.
  - rewrite IH. replace (S k + i)%nat with (k + S i)%nat by lia. reflexivity.
Qed.

Lemma finfos_nth p idem cl0 down cs assign frs i :
  nth_error (finfos p idem cl0 down cs assign frs) i =
  option_map (fun c => mkFinfo (sub_frames i assign frs) c
                               (fiber_check p idem cl0 down c (sub_frames i assign frs)))
             (nth_error cs i).
Proof.
  unfold finfos, indexed. rewrite nth_error_map, indexed_from_nth_error.
  destruct (nth_error cs i); reflexivity.
Qed.

Lemma combine_In_r {A B} (l1 : list A) (l2 : list B) y :
  List.length l1 = List.length l2 -> In y l2 -> exists x, In (x, y) (combine l1 l2).
Proof.
  revert l2. induction l1 as [|a l1 IH]; intros [|b l2] Hl Hin; try discriminate; [contradiction|].
  destruct Hin as [->|Hin]; [exists a; now left|].
  destruct (IH l2 ltac:(cbn in Hl; lia) Hin) as [x Hx]. exists x. now right.
Qed.

Lemma frame_in_fiber assign frs n g :
  List.length assign = List.length frs -> (forall a, In a assign -> (a < n)%nat) -> In g frs ->
  exists i, (i < n)%nat /\ In g (sub_frames i assign frs).
Proof.
  intros Hl Ha Hg. destruct (combine_In_r assign frs g Hl Hg) as [a Hin].
  exists a. split; [apply Ha; eapply in_combine_l; eassumption|].
  unfold sub_frames. apply in_map_iff. exists (a, g). split; [reflexivity|].
  apply filter_In. split; [assumption|]. cbn. apply Nat.eqb_refl.
Qed.

Lemma seq_ok_head_wf f rest : seq_ok (f :: rest) = true -> answered f = true -> f_arr f <= f_done f.
Proof.
  cbn [seq_ok]. destruct rest as [|h r]; intros H Ha.
  - rewrite Ha in H. cbn in H. now apply N.leb_le.
  - apply andb_true_iff in H as [H _]. apply andb_true_iff in H as [H _].
    apply andb_true_iff in H as [_ H]. now apply N.leb_le.
Qed.

(* all frames of a fiber whose last frame was answered at d were answered, no later than d *)
Lemma seq_ok_all_done frs : seq_ok frs = true ->
  forall l tl d, rev frs = l :: tl -> answered l = true -> f_done l = d ->
  forall g, In g frs -> answered g = true /\ f_done g <= d.
Proof.
  induction frs as [|f rest IH]; intros H l tl d Hrev Hal Hd g Hg; [contradiction|].
  destruct rest as [|h r].
  - cbn in Hrev. injection Hrev as <- <-. destruct Hg as [<-|[]]. split; [assumption|lia].
  - assert (Hrev' : exists tl', rev (h :: r) = l :: tl').
    { change (rev (f :: h :: r)) with (rev (h :: r) ++ [f]) in Hrev.
      destruct (rev (h :: r)) as [|x xs] eqn:E.
      - apply (f_equal (@List.length _)) in E. rewrite rev_length in E. discriminate.
      - cbn in Hrev. injection Hrev as <- _. now exists xs. }
    destruct Hrev' as [tl' Hrev'].
    pose proof (seq_ok_pair [] f h r H) as [Haf [_ Hfh]].
    pose proof (seq_ok_tail _ _ H) as Ht.
    specialize (IH Ht l tl' d Hrev' Hal Hd).
    destruct Hg as [<-|Hg]; [|now apply IH].
    split; [assumption|].
    destruct (IH h (or_introl eq_refl)) as [Hah Hhd].
    pose proof (seq_ok_head_wf _ _ Ht Hah). lia.
Qed.

Lemma match_frames_split b : forall pre evs g post,
  match_frames b evs (pre ++ g :: post) = true ->
  exists epre ev epost, evs = epre ++ ev :: epost
    /\ ev_matches (b && is_nil post) ev g = true /\ List.length epost = List.length post.
Proof.
  induction pre as [|a pre IH]; intros evs g post H.
  - destruct evs as [|ev evs]; [discriminate|]. cbn [app match_frames] in H.
    apply andb_true_iff in H as [H1 H2]. exists [], ev, evs. repeat split; [assumption|].
    now apply match_frames_length in H2.
  - destruct evs as [|ev evs]; [discriminate|]. cbn [app match_frames] in H.
    apply andb_true_iff in H as [_ H2]. destruct (IH _ _ _ H2) as [epre [ev' [epost [-> [Hm Hl]]]]].
    exists (ev :: epre), ev', epost. auto.
Qed.

(* A real answer (success, or an error that is final under every policy) is the last frame of its
   fiber; a fiber that was not cancelled ends with the corresponding result. *)
Lemma real_frame_last p idem cl0 plan outs tr r b frs pre g post :
  fiber p idem cl0 plan outs = (tr, r) ->
  match_frames b (attempts tr) frs = true -> frs = pre ++ g :: post ->
  real_ans (f_ans g) = true ->
  post = [] /\
  (b = false ->
   (f_ans g = AnsOk /\ r = RCompleted (f_node g)) \/
   (exists e, f_ans g = AnsErr e /\ final_definitive e = true /\ r = RFailed (LAttempt e))).
Proof.
  intros Hf Hm -> Hreal.
  destruct (match_frames_split _ _ _ _ _ Hm) as [epre [ev [epost [Hatt [Hev Hl]]]]].
  destruct (attempts_split _ _ _ _ Hatt) as [p1 [p2 [-> [_ Hp2]]]].
  assert (Hcase : forall flag, ev_matches flag ev g = true -> flag = false ->
            (f_ans g = AnsOk /\ p2 = [] /\ r = RCompleted (f_node g)) \/
            (exists e, f_ans g = AnsErr e /\ final_definitive e = true /\ p2 = [] /\ r = RFailed (LAttempt e))).
  { intros flag Hmatch ->. apply ev_matches_obs in Hmatch as [o [-> Hans]].
    inversion Hans as [Ho Ha|e d Ho Ha]; subst o.
    - left. destruct (fiber_terminal _ _ _ _ _ _ _ Hf p1 _ _ AOk p2 eq_refl) as [-> ->]. auto.
    - right. exists e. rewrite <- Ha in Hreal. cbn in Hreal.
      destruct (fiber_provenance _ _ _ _ _ _ _ Hf p1 _ _ e d p2 eq_refl) as [s1 [s2 [_ Hd]]].
      destruct (final_definitive_spec e Hreal) as [_ Hdr]. specialize (Hdr s1 idem (f_cl g)).
      rewrite Hd in Hdr. cbn in Hdr. subst d.
      destruct (fiber_terminal _ _ _ _ _ _ _ Hf p1 _ _ (AErr e DontRetry) p2 eq_refl) as [-> ->]. auto. }
  destruct post as [|h post].
  - split; [reflexivity|]. intros ->. cbn [andb] in Hev.
    destruct (Hcase false Hev eq_refl) as [[Ha [_ Hr]]|[e [Ha [Hfd [_ Hr]]]]]; [left|right; exists e]; auto.
  - exfalso. cbn [is_nil] in Hev. rewrite andb_false_r in Hev.
    assert (Hne : p2 <> []).
    { intros ->. cbn in Hp2. subst epost. discriminate Hl. }
    destruct (Hcase false Hev eq_refl) as [[_ [Hn _]]|[e [_ [_ [Hn _]]]]]; contradiction.
Qed.

Lemma attempts_cons_attempt (t : N) c o (l : list (event N)) :
  attempts (EvAttempt t c o :: l) = EvAttempt t c o :: attempts l.
Proof. reflexivity. Qed.
Lemma attempts_cons_conn (t : N) (l : list (event N)) : attempts (EvConnFail t :: l) = attempts l.
Proof. reflexivity. Qed.

(* the result of a fiber against its last attempt *)
Lemma follow_last_attempt : forall tr plan last r,
  follow plan last tr = Some r ->
  match r with
  | RCompleted t => exists pa c, attempts tr = pa ++ [EvAttempt t c AOk]
  | RIgnoredWriteError t => exists pa c e, attempts tr = pa ++ [EvAttempt t c (AErr e IgnoreWriteError)]
  | RFailed (LAttempt e) =>
      (attempts tr = [] /\ last = Some (LAttempt e)) \/
      exists pa t c d, attempts tr = pa ++ [EvAttempt t c (AErr e d)]
  | _ => True
  end.
Proof.
  induction tr as [|ev rest IH]; intros plan last r H.
  - cbn in H. injection H as <-. destruct plan; cbn; [|exact I].
    destruct last as [[|e]|]; cbn; auto.
  - cbn [follow] in H. destruct plan as [|t0 plan']; [discriminate|].
    destruct (ev_target ev =? t0) eqn:Et; [|discriminate]. apply N.eqb_eq in Et. cbn [negb] in H.
    assert (Hcons : forall a (rest' : list (event N)) r0,
              match r0 with
              | RCompleted t => exists pa c, attempts rest' = pa ++ [EvAttempt t c AOk]
              | RIgnoredWriteError t => exists pa c e, attempts rest' = pa ++ [EvAttempt t c (AErr e IgnoreWriteError)]
              | RFailed (LAttempt e) =>
                  (attempts rest' = [] /\ Some (LAttempt a) = Some (LAttempt e)) \/
                  exists pa t c d, attempts rest' = pa ++ [EvAttempt t c (AErr e d)]
              | _ => True
              end ->
              forall t1 c1 d1,
              match r0 with
              | RCompleted t => exists pa c, attempts (EvAttempt t1 c1 (AErr a d1) :: rest') = pa ++ [EvAttempt t c AOk]
              | RIgnoredWriteError t => exists pa c e, attempts (EvAttempt t1 c1 (AErr a d1) :: rest') = pa ++ [EvAttempt t c (AErr e IgnoreWriteError)]
              | RFailed (LAttempt e) =>
                  (attempts (EvAttempt t1 c1 (AErr a d1) :: rest') = [] /\ last = Some (LAttempt e)) \/
                  exists pa t c d, attempts (EvAttempt t1 c1 (AErr a d1) :: rest') = pa ++ [EvAttempt t c (AErr e d)]
              | _ => True
              end).
    { intros a rest' r0 Hr t1 c1 d1. rewrite attempts_cons_attempt.
      destruct r0 as [t|t|[|e]| |]; auto.
      - destruct Hr as [pa [c ->]]. now exists (EvAttempt t1 c1 (AErr a d1) :: pa), c.
      - destruct Hr as [pa [c [e ->]]]. now exists (EvAttempt t1 c1 (AErr a d1) :: pa), c, e.
      - right. destruct Hr as [[Hn He]|[pa [t [c [d ->]]]]].
        + injection He as ->. rewrite Hn. now exists [], t1, c1, d1.
        + now exists (EvAttempt t1 c1 (AErr a d1) :: pa), t, c, d. }
    destruct ev as [tc|ta ca [|ea da]].
    + specialize (IH _ _ _ H). rewrite attempts_cons_conn.
      destruct r as [t|t|[|e]| |]; auto.
      destruct IH as [[Hn He]|IH]; [discriminate He|now right].
    + cbn in Et. subst ta. destruct rest; [|discriminate]. cbn in H. injection H as <-. now exists [], ca.
    + cbn in Et. subst ta. destruct da as [nc|nc| |].
      * exact (Hcons ea rest r (IH _ _ _ H) t0 ca (RetrySameTarget nc)).
      * exact (Hcons ea rest r (IH _ _ _ H) t0 ca (RetryNextTarget nc)).
      * destruct rest; [|discriminate]. cbn in H. injection H as <-. right. now exists [], t0, ca, DontRetry.
      * destruct rest; [|discriminate]. cbn in H. injection H as <-. now exists [], ca, ea.
Qed.

Lemma last_completion_snoc e f o : forall pre acc,
  last_completion e (pre ++ [Spec.Complete f o]) acc =
  match comp_window e f with
  | Some (lo, _) => Some lo
  | None => last_completion e pre acc
  end.
Proof.
  induction pre as [|l pre IH]; intros acc; cbn [app last_completion].
  - destruct (comp_window e f) as [[lo hi]|]; reflexivity.
  - destruct l as [|g og]; rewrite IH; destruct (comp_window e f) as [[lo hi]|]; reflexivity.
Qed.

Lemma completions_In_inv o ls : In o (Spec.completions ls) -> exists f, In (Spec.Complete f o) ls.
Proof.
  unfold Spec.completions. rewrite in_flat_map. intros [l [Hl Ho]].
  destruct l as [|f o']; [contradiction|]. destruct Ho as [<-|[]]. now exists f.
Qed.

Lemma frames_sum assign frs n :
  List.length assign = List.length frs -> (forall a, In a assign -> (a < n)%nat) ->
  list_sum (map (fun i => List.length (sub_frames i assign frs)) (seq 0 n)) = List.length frs.
Proof.
  intros Hl Ha. rewrite (map_ext _ _ (fun i => sub_frames_count i assign frs)).
  rewrite sum_count; [now rewrite combine_length, Hl, Nat.min_id|].
  intros [a f] Hin. cbn. apply in_combine_l in Hin. auto.
Qed.

Lemma multi_fiber_check p idem cl0 nodes down max cs assign frs i c :
  multi_ok p idem cl0 nodes down max cs assign frs = true -> nth_error cs i = Some c ->
  exists r, fiber_check p idem cl0 down c (sub_frames i assign frs) = Some r.
Proof.
  unfold multi_ok. intros H Hi.
  apply andb_true_iff in H as [H _]. apply andb_true_iff in H as [_ H6].
  rewrite forallb_forall in H6.
  pose proof (indexed_from_nth cs 0 i c Hi) as Hin. cbn in Hin.
  specialize (H6 (i, c, fiber_check p idem cl0 down c (sub_frames i assign frs))).
  unfold fiber_results in H6. rewrite in_map_iff in H6.
  assert (Hs : is_some (fiber_check p idem cl0 down c (sub_frames i assign frs)) = true).
  { apply H6. exists (i, c). split; [reflexivity|exact Hin]. }
  destruct (fiber_check p idem cl0 down c (sub_frames i assign frs)) as [r|]; [now exists r|discriminate].
Qed.

Lemma multi_assign p idem cl0 nodes down max cs assign frs :
  multi_ok p idem cl0 nodes down max cs assign frs = true ->
  List.length assign = List.length frs /\ forall a, In a assign -> (a < List.length cs)%nat.
Proof.
  unfold multi_ok. intros H.
  apply andb_true_iff in H as [H _]. apply andb_true_iff in H as [H _].
  apply andb_true_iff in H as [H _]. apply andb_true_iff in H as [H _].
  apply andb_true_iff in H as [H _]. apply andb_true_iff in H as [Hlen Hidx].
  apply Nat.eqb_eq in Hlen. rewrite forallb_forall in Hidx. split; [assumption|].
  intros a Ha. apply Nat.ltb_lt. auto.
Qed.

Section Accepted.
  Variables (p : policy) (idem : bool) (cl0 : consistency) (nodes down : list N) (max : nat)
            (interval : N) (cs : list cert) (assign : list nat) (frs : list frame)
            (ls : list Spec.label) (t0 tret margin : N) (o : ores) (co : option N).
  Hypothesis Hchk :
    check_spec p idem cl0 nodes down max interval cs assign frs ls t0 tret margin o co = true.
  Let e := mk_env p idem cl0 nodes down interval cs assign frs t0 tret margin co.
  Let sub i := sub_frames i assign frs.

  Lemma acc_multi : multi_ok p idem cl0 nodes down max cs assign frs = true.
  Proof. exact (proj1 (check_spec_sound _ _ _ _ _ _ _ _ _ _ _ _ _ _ _ _ Hchk)). Qed.

  Lemma acc_nodup : NoDup nodes.
  Proof.
    unfold check_spec in Hchk. cbv zeta in Hchk.
    apply andb_true_iff in Hchk as [H _]. apply andb_true_iff in H as [H _].
    apply andb_true_iff in H as [H _]. apply andb_true_iff in H as [H _].
    apply andb_true_iff in H as [_ H]. now apply nodupb_NoDup.
  Qed.

  (* what the checker knows about fiber i *)
  Lemma acc_fiber i : (i < List.length cs)%nat ->
    exists c tr r,
      nth_error cs i = Some c
      /\ nth_error (e_fis e) i = Some (mkFinfo (sub i) c (Some r))
      /\ fiber p idem cl0 (c_plan c) (c_outs c) = (tr, r)
      /\ match_frames (c_free c) (attempts tr) (sub i) = true
      /\ seq_ok (sub i) = true.
  Proof.
    intros Hi. destruct (nth_error cs i) as [c|] eqn:E; [|apply nth_error_None in E; lia].
    destruct (multi_fiber_check _ _ _ _ _ _ _ _ _ _ _ acc_multi E) as [r Hr].
    destruct (fiber_check_Some _ _ _ _ _ _ _ Hr) as [tr [Hf [Hm [Hs _]]]].
    exists c, tr, r. split; [reflexivity|]. split; [|auto].
    unfold e, mk_env. cbn [e_fis]. rewrite finfos_nth, E. cbn. unfold sub. now rewrite Hr.
  Qed.

  Lemma acc_frame g : In g frs -> exists i, (i < List.length cs)%nat /\ In g (sub i).
  Proof.
    destruct (multi_assign _ _ _ _ _ _ _ _ _ acc_multi) as [Hl Ha]. intros Hg.
    exact (frame_in_fiber _ _ _ _ Hl Ha Hg).
  Qed.

  (* the accepted schedule *)
  Lemma acc_schedule : exists s R,
    Spec.run (Spec.init max) ls = Some s /\ Spec.returned s = Some R /\ rres_match e R o = true
    /\ (List.length cs <= Spec.started s <= 1 + max)%nat
    /\ ((Spec.started s <= List.length cs)%nat \/ e_exhausted e = true)
    /\ leftovers_ok e s ls = true /\ walk e (Spec.init max) ls [] = true.
  Proof.
    destruct (check_spec_sound _ _ _ _ _ _ _ _ _ _ _ _ _ _ _ _ Hchk) as [_ [_ [_ [s [R H]]]]].
    exists s, R. tauto.
  Qed.

  Lemma acc_label f out : In (Spec.Complete f out) ls -> complete_ok e f out = true.
  Proof.
    destruct acc_schedule as [s [R [_ [_ [_ [_ [_ [_ Hw]]]]]]]]. intros Hin.
    apply in_split in Hin as [pre [post ->]].
    exact (proj1 (walk_completions e _ _ _ Hw pre f out post eq_refl)).
  Qed.

  (* a fiber whose frames contain a real answer g: g is its last frame, answered; if the fiber
     completed in the schedule, that completion is real and carries g's outcome *)
  Lemma acc_real_fiber i g : (i < List.length cs)%nat -> In g (sub i) -> real_ans (f_ans g) = true ->
    exists c tr r pre,
      nth_error (e_fis e) i = Some (mkFinfo (sub i) c (Some r))
      /\ fiber p idem cl0 (c_plan c) (c_outs c) = (tr, r)
      /\ sub i = pre ++ [g] /\ answered g = true
      /\ (c_free c = false ->
          (f_ans g = AnsOk /\ r = RCompleted (f_node g)) \/
          (exists e0, f_ans g = AnsErr e0 /\ final_definitive e0 = true /\ r = RFailed (LAttempt e0))).
  Proof.
    intros Hi Hg Hreal. destruct (acc_fiber i Hi) as [c [tr [r [_ [Hfi [Hf [Hm _]]]]]]].
    apply in_split in Hg as [pre [post Heq]].
    destruct (real_frame_last _ _ _ _ _ _ _ _ _ _ _ _ Hf Hm Heq Hreal) as [-> Hres].
    exists c, tr, r, pre. repeat split; try assumption.
    unfold answered. destruct (f_ans g); [discriminate|reflexivity|reflexivity].
  Qed.
End Accepted.

Lemma Forall2_last {A B} (R : A -> B -> Prop) la a lb b :
  Forall2 R (la ++ [a]) (lb ++ [b]) -> R a b.
Proof.
  intros H. destruct (Forall2_split_r _ _ _ _ _ H) as [lp [x [lq [Heq [_ [Hr Hq]]]]]].
  inversion Hq; subst. apply app_inj_tail in Heq as [_ ->]. exact Hr.
Qed.

Lemma is_real_not_ignored R : Spec.is_real (Some R) = true -> Spec.can_be_ignored R = false.
Proof.
  rewrite Spec_proofs.can_be_ignored_spec, Spec_proofs.is_real_ignorable_exhausted.
  destruct (Spec.is_ignorable (Some R)); [discriminate|reflexivity].
Qed.

Section Accepted2.
  Variables (p : policy) (idem : bool) (cl0 : consistency) (nodes down : list N) (max : nat)
            (interval : N) (cs : list cert) (assign : list nat) (frs : list frame)
            (ls : list Spec.label) (t0 tret margin : N) (o : ores) (co : option N).
  Hypothesis Hchk :
    check_spec p idem cl0 nodes down max interval cs assign frs ls t0 tret margin o co = true.
  Let e := mk_env p idem cl0 nodes down interval cs assign frs t0 tret margin co.
  Let sub i := sub_frames i assign frs.

  (* the completion label of a VISIBLE fiber with frames: the fiber ran to its end, its last frame
     was answered before the call returned, the label carries the model's result *)
  Lemma acc_label_visible f out : In (Spec.Complete f out) ls -> (f < List.length cs)%nat ->
    exists c tr r,
      nth_error (e_fis e) f = Some (mkFinfo (sub f) c (Some r))
      /\ fiber p idem cl0 (c_plan c) (c_outs c) = (tr, r)
      /\ Forall2 ev_obs (attempts tr) (sub f) /\ seq_ok (sub f) = true
      /\ c_free c = false /\ r <> RPending /\ out = conv_result f r
      /\ (out = None -> e_exhausted e = true)
      /\ match sub f with
         | [] => e_exhausted e = true
         | _ :: _ => exists l tl, rev (sub f) = l :: tl /\ answered l = true /\ f_done l <= tret
         end.
  Proof.
    intros Hin Hf. pose proof (acc_label _ _ _ _ _ _ _ _ _ _ _ _ _ _ _ _ Hchk f out Hin) as Hc.
    destruct (acc_fiber _ _ _ _ _ _ _ _ _ _ _ _ _ _ _ _ Hchk f Hf) as [c [tr [r [_ [Hfi [Hfib [Hm Hs]]]]]]].
    fold e in Hc, Hfi. fold (sub f) in Hfi, Hm, Hs.
    unfold complete_ok in Hc. rewrite Hfi in Hc. cbn [fi_res fi_frames] in Hc.
    apply andb_true_iff in Hc as [Hc H4]. apply andb_true_iff in Hc as [Hc H3].
    apply andb_true_iff in Hc as [H1 H2].
    unfold fi_finished in H1. cbn [fi_res fi_cert] in H1. unfold fiber_finished in H1.
    apply andb_true_iff in H1 as [Hfree Hnp]. apply negb_true_iff in Hfree.
    destruct (Spec.fiber_out_eq_dec out (conv_result f r)) as [Hout|]; [|discriminate].
    rewrite Hfree in Hm.
    exists c, tr, r. split; [assumption|]. split; [assumption|].
    split; [now apply match_frames_Forall2|]. split; [assumption|]. split; [assumption|].
    split; [intros ->; discriminate|]. split; [assumption|]. split.
    - intros ->. exact H2.
    - destruct (sub f) as [|x xs] eqn:Esub; [assumption|].
      unfold fi_done in H4. cbn [fi_frames] in H4.
      destruct (rev (x :: xs)) as [|l tl] eqn:Er; [discriminate|].
      destruct (answered l) eqn:Ha; [|discriminate]. exists l, tl. split; [reflexivity|]. split; [assumption|].
      apply N.leb_le. exact H4.
  Qed.

  Lemma acc_visible f : nth_error (e_fis e) f <> None -> (f < List.length cs)%nat.
  Proof.
    unfold e, mk_env. cbn [e_fis]. rewrite finfos_nth. intros H.
    destruct (nth_error cs f) eqn:E; [|contradiction]. apply nth_error_Some. congruence.
  Qed.

  (* A REAL value returned: the schedule ends with the completion of a visible fiber fL whose last
     frame wL carries the returned answer; wL's answer instant is the instant the call is taken to
     have returned at *)
  Lemma acc_real_return s R :
    Spec.run (Spec.init max) ls = Some s -> Spec.returned s = Some R ->
    Spec.first_real (Spec.completions ls) = Some R ->
    exists pre fL c tr r preL wL,
      ls = pre ++ [Spec.Complete fL (Some R)] /\ (fL < List.length cs)%nat
      /\ nth_error (e_fis e) fL = Some (mkFinfo (sub fL) c (Some r))
      /\ fiber p idem cl0 (c_plan c) (c_outs c) = (tr, r)
      /\ conv_result fL r = Some R
      /\ sub fL = preL ++ [wL] /\ answered wL = true
      /\ last_completion e ls None = Some (f_done wL)
      /\ ((exists t, r = RCompleted t /\ f_node wL = t /\ f_ans wL = AnsOk)
          \/ (exists t e0, r = RIgnoredWriteError t /\ f_ans wL = AnsErr e0)
          \/ (exists e0, r = RFailed (LAttempt e0) /\ f_ans wL = AnsErr e0)).
  Proof.
    intros Hrun Hret Hfr.
    apply Spec_proofs.first_real_some in Hfr as [Hin Hreal].
    destruct (completions_In_inv _ _ Hin) as [fL HL].
    pose proof HL as HL'. apply in_split in HL' as [pre [post Heq]].
    destruct (real_label_last _ _ _ _ _ _ _ Hrun Heq (is_real_not_ignored _ Hreal)) as [-> _].
    pose proof (acc_label _ _ _ _ _ _ _ _ _ _ _ _ _ _ _ _ Hchk fL (Some R) HL) as Hc. fold e in Hc.
    assert (HfL : (fL < List.length cs)%nat).
    { apply acc_visible. unfold complete_ok in Hc. destruct (nth_error (e_fis e) fL); [discriminate|].
      apply andb_true_iff in Hc as [Hc _]. apply andb_true_iff in Hc as [_ Hc]. discriminate. }
    destruct (acc_label_visible fL (Some R) HL HfL)
      as [c [tr [r [Hfi [Hfib [Hobs [Hseq [Hfree [Hnp [Hout [_ Hlast]]]]]]]]]]].
    pose proof (fiber_followed _ _ _ _ _ _ _ Hfib) as Hfol.
    pose proof (follow_last_attempt _ _ _ _ Hfol) as Hla.
    (* the fiber made an attempt: its result is a success or the error of an attempt *)
    assert (Hatt : exists pa ev, attempts tr = pa ++ [ev] /\
              ((exists t c1, r = RCompleted t /\ ev = EvAttempt t c1 AOk)
               \/ (exists t c1 e0, r = RIgnoredWriteError t /\ ev = EvAttempt t c1 (AErr e0 IgnoreWriteError))
               \/ (exists t c1 e0 d, r = RFailed (LAttempt e0) /\ ev = EvAttempt t c1 (AErr e0 d)))).
    { destruct r as [t|t|[|e0]| |]; cbn in Hout; try discriminate.
      - destruct Hla as [pa [c1 Ha]]. exists pa, (EvAttempt t c1 AOk). split; [assumption|]. left. eauto.
      - destruct Hla as [pa [c1 [e0 Ha]]]. exists pa, (EvAttempt t c1 (AErr e0 IgnoreWriteError)).
        split; [assumption|]. right. left. eauto.
      - injection Hout as ->. cbn in Hreal. discriminate.
      - destruct Hla as [[_ Hl]|[pa [t [c1 [d Ha]]]]]; [discriminate|].
        exists pa, (EvAttempt t c1 (AErr e0 d)). split; [assumption|]. right. right. eauto 6. }
    destruct Hatt as [pa [ev [Hatt Hcase]]].
    destruct (sub fL) as [|x xs] eqn:Esub.
    { rewrite Hatt in Hobs. inversion Hobs. destruct pa; discriminate. }
    destruct Hlast as [wL [tl [Hrev [Hans Hdone]]]].
    assert (Hsplit : x :: xs = rev tl ++ [wL]).
    { rewrite <- (rev_involutive (x :: xs)), Hrev. reflexivity. }
    exists pre, fL, c, tr, r, (rev tl), wL.
    split; [exact Heq|]. split; [assumption|]. split; [rewrite Esub; exact Hfi|].
    split; [assumption|]. split; [now symmetry|]. split; [now rewrite Esub|]. split; [assumption|]. split.
    - rewrite Heq, last_completion_snoc. unfold comp_window. rewrite Hfi. cbn [fi_frames].
      unfold fi_done. cbn [fi_frames]. rewrite Hrev, Hans. reflexivity.
    - rewrite Hatt, Hsplit in Hobs. apply Forall2_last in Hobs as [oc [Hev Hao]].
      destruct Hcase as [[t [c1 [-> ->]]]|[[t [c1 [e0 [-> ->]]]]|[t [c1 [e0 [d [-> ->]]]]]]];
        injection Hev as Hn _ <-; inversion Hao; subst.
      + left. eauto.
      + right. left. eauto.
      + right. right. eauto.
  Qed.
End Accepted2.

Lemma filter_all_false {A} (f : A -> bool) l : (forall x, f x = false) -> filter f l = [].
Proof. intros H. induction l as [|a l IH]; cbn; [reflexivity|]. now rewrite H. Qed.

Lemma covered_distinct nodes down frs : is_nil down = true -> NoDup nodes ->
  nodes_covered nodes down frs = true -> (List.length nodes <= distinct_nodes frs)%nat.
Proof.
  intros Hdn Hnd Hc. destruct down; [|discriminate]. unfold distinct_nodes. apply NoDup_incl_length; [assumption|].
  intros n Hn. unfold nodes_covered in Hc. rewrite forallb_forall in Hc. specialize (Hc n Hn).
  cbn [memN existsb orb] in Hc. apply existsb_exists in Hc as [f [Hf He]]. apply N.eqb_eq in He.
  apply nodup_In. apply in_map_iff. now exists f.
Qed.

Section Accepted3.
  Variables (p : policy) (idem : bool) (cl0 : consistency) (nodes down : list N) (max : nat)
            (interval : N) (cs : list cert) (assign : list nat) (frs : list frame)
            (ls : list Spec.label) (t0 tret margin : N) (o : ores) (co : option N).
  Hypothesis Hchk :
    check_spec p idem cl0 nodes down max interval cs assign frs ls t0 tret margin o co = true.
  Let e := mk_env p idem cl0 nodes down interval cs assign frs t0 tret margin co.
  Let sub i := sub_frames i assign frs.

  (* a completed fiber with a real last frame completed with a real outcome *)
  Lemma acc_real_completion i g oi : (i < List.length cs)%nat -> In g (sub i) ->
    real_ans (f_ans g) = true -> In (Spec.Complete i oi) ls ->
    exists rr, oi = Some rr /\ Spec.can_be_ignored rr = false.
  Proof.
    intros Hi Hg Hreal Hin.
    destruct (acc_real_fiber _ _ _ _ _ _ _ _ _ _ _ _ _ _ _ _ Hchk i g Hi Hg Hreal)
      as [c [tr [r [pre [Hfi [_ [_ [_ Hres]]]]]]]].
    destruct (acc_label_visible _ _ _ _ _ _ _ _ _ _ _ _ _ _ _ _ Hchk i oi Hin Hi)
      as [c' [tr' [r' [Hfi' [_ [_ [_ [Hfree [_ [Hout _]]]]]]]]]].
    fold e in Hfi, Hfi'. rewrite Hfi in Hfi'. injection Hfi' as <- <-.
    destruct (Hres Hfree) as [[_ ->]|[e0 [_ [Hfd ->]]]]; subst oi; cbn [conv_result conv_last].
    - eexists. split; reflexivity.
    - eexists. split; [reflexivity|]. exact (proj1 (final_definitive_spec e0 Hfd)).
  Qed.

  Lemma acc_fi_done i g pre c r :
    nth_error (e_fis e) i = Some (mkFinfo (sub i) c (Some r)) -> sub i = pre ++ [g] -> answered g = true ->
    exists fi, nth_error (e_fis e) i = Some fi /\ fi_done fi = Some (f_done g).
  Proof.
    intros Hfi Hs Ha. eexists. split; [exact Hfi|]. unfold fi_done. cbn [fi_frames].
    rewrite Hs, rev_app_distr. cbn. now rewrite Ha.
  Qed.

  Theorem first_real_holds : prop_first_real margin o co frs = true.
  Proof.
    unfold prop_first_real. cbv zeta.
    destruct (filter (wins o co) frs) as [|w0 ws0] eqn:Ews; [reflexivity|]. cbn [is_nil orb].
    apply forallb_forall. intros g Hg.
    destruct (real_ans (f_ans g)) eqn:Hreal; [cbn [negb orb]|reflexivity].
    destruct (acc_schedule _ _ _ _ _ _ _ _ _ _ _ _ _ _ _ _ Hchk)
      as [s [R [Hrun [Hret [Hmatch [Hst [_ [Hleft _]]]]]]]]. fold e in Hmatch, Hleft.
    destruct (acc_frame _ _ _ _ _ _ _ _ _ _ _ _ _ _ _ _ Hchk g Hg) as [i [Hi Hgi]]. fold (sub i) in Hgi.
    destruct (acc_real_fiber _ _ _ _ _ _ _ _ _ _ _ _ _ _ _ _ Hchk i g Hi Hgi Hreal)
      as [ci [tri [ri [prei [Hfii [_ [Hsubi [Hansg _]]]]]]]]. fold e in Hfii. fold (sub i) in Hfii, Hsubi.
    assert (Hcov : In i (Spec.running s) \/ exists oi, In (Spec.Complete i oi) ls)
      by (apply (run_cover_init _ _ _ Hrun); lia).
    pose proof (Spec_proofs.inv_reachable _ _ _ Hrun) as I.
    destruct (Spec_proofs.inv_ret _ _ _ I R Hret) as [Hfr|[Hfr [Hrunning _]]].
    - (* a real value was returned *)
      destruct (acc_real_return _ _ _ _ _ _ _ _ _ _ _ _ _ _ _ _ Hchk s R Hrun Hret Hfr)
        as [pre [fL [c [tr [r [preL [wL [Hls [HfL [Hfi [_ [Hconv [HsubL [HansL [Hlc Hcase]]]]]]]]]]]]]]].
      fold e in Hfi, Hlc. fold (sub fL) in Hfi, HsubL.
      (* wL wins *)
      assert (Hwin : wins o co wL = true).
      { destruct (wins o co wL) eqn:Hw; [reflexivity|exfalso].
        unfold rres_match in Hmatch.
        destruct Hcase as [[t [-> [Hnode Hans]]]|[[t [e0 [-> Hans]]]|[e0 [-> Hans]]]];
          cbn [conv_result conv_last] in Hconv; injection Hconv as <-.
        - rewrite Nat2N.id, Hfi in Hmatch. cbn [fi_res] in Hmatch.
          apply andb_true_iff in Hmatch as [Hres Hco].
          unfold wins in Hw. rewrite Hans in Hw.
          destruct o; try discriminate Hres.
          + destruct co as [n|]; [|discriminate]. cbn in Hco. rewrite Hnode in Hw. congruence.
          + assert (In w0 (filter (wins OOk co) frs)) by (rewrite Ews; now left).
            apply filter_In in H as [_ H]. unfold wins in H. destruct (f_ans w0); discriminate.
        - rewrite Nat2N.id, Hfi in Hmatch. cbn [fi_res] in Hmatch.
          apply andb_true_iff in Hmatch as [Hres _].
          assert (In w0 (filter (wins o co) frs)) by (rewrite Ews; now left).
          apply filter_In in H as [_ H]. unfold wins in H.
          destruct o; try discriminate Hres; destruct (f_ans w0); discriminate.
        - destruct o as [| | |le|]; try discriminate.
          destruct (Spec.request_error_eq_dec (Spec.LastAttemptError (conv_err e0)) (conv_last le)) as [Heq|]; [|discriminate].
          destruct le as [|e']; [discriminate|]. cbn in Heq. injection Heq as Heq.
          unfold wins in Hw. rewrite Hans in Hw.
          destruct (Spec.attempt_error_eq_dec (conv_err e') (conv_err e0)); [discriminate|congruence]. }
      apply existsb_exists. exists wL. split.
      { assert (HwL : In wL frs).
        { assert (In wL (sub fL)) by (rewrite HsubL; apply in_or_app; right; now left).
          unfold sub, sub_frames in H. apply in_map_iff in H as [[a f] [<- H]].
          apply filter_In in H as [H _]. now apply in_combine_r in H. }
        rewrite <- Ews. apply filter_In. auto. }
      destruct Hcov as [Hrunning|[oi Hoi]].
      + (* fiber i was still running when the call returned *)
        unfold leftovers_ok in Hleft. rewrite Hlc in Hleft. rewrite forallb_forall in Hleft.
        specialize (Hleft i Hrunning).
        destruct (acc_fi_done i g prei ci ri Hfii Hsubi Hansg) as [fi [Hn Hd]].
        rewrite Hn, Hd in Hleft. exact Hleft.
      + (* fiber i completed in the schedule: its completion is real, hence the last label *)
        destruct (acc_real_completion i g oi Hi Hgi Hreal Hoi) as [rr [-> Hni]].
        rewrite Hls in Hoi. apply in_app_or in Hoi as [Hin|[Heq|[]]].
        * exfalso. apply in_split in Hin as [p1 [p2 ->]].
          assert (Heq : ls = p1 ++ Spec.Complete i (Some rr) :: (p2 ++ [Spec.Complete fL (Some R)])).
          { rewrite Hls, <- app_assoc. reflexivity. }
          destruct (real_label_last _ _ _ _ _ _ _ Hrun Heq Hni) as [Hnil _]. destruct p2; discriminate.
        * injection Heq as <- _. rewrite HsubL in Hsubi. apply app_inj_tail in Hsubi as [_ <-].
          apply negb_true_iff. apply N.ltb_ge. lia.
    - (* nothing real completed: impossible, fiber i has a real answer and nothing is running *)
      exfalso. destruct Hcov as [Hin|[oi Hoi]]; [rewrite Hrunning in Hin; contradiction|].
      destruct (acc_real_completion i g oi Hi Hgi Hreal Hoi) as [rr [-> Hni]].
      apply completions_In in Hoi. rewrite Spec_proofs.first_real_none in Hfr. specialize (Hfr _ Hoi).
      rewrite Spec_proofs.is_real_ignorable_exhausted, <- Spec_proofs.can_be_ignored_spec, Hni in Hfr.
      discriminate.
  Qed.
End Accepted3.

Lemma ignorable_res_inv o : ignorable_res o = true ->
  exists le, o = OFailed le /\ Spec.can_be_ignored (Err (conv_last le)) = true.
Proof. destruct o as [| | |le|]; try discriminate. intros H. now exists le. Qed.

Section Accepted4.
  Variables (p : policy) (idem : bool) (cl0 : consistency) (nodes down : list N) (max : nat)
            (interval : N) (cs : list cert) (assign : list nat) (frs : list frame)
            (ls : list Spec.label) (t0 tret margin : N) (o : ores) (co : option N).
  Hypothesis Hchk :
    check_spec p idem cl0 nodes down max interval cs assign frs ls t0 tret margin o co = true.
  Let e := mk_env p idem cl0 nodes down interval cs assign frs t0 tret margin co.
  Let sub i := sub_frames i assign frs.

  Lemma acc_exhausted_label f : In (Spec.Complete f None) ls -> e_exhausted e = true.
  Proof.
    intros Hin. pose proof (acc_label _ _ _ _ _ _ _ _ _ _ _ _ _ _ _ _ Hchk f None Hin) as Hc. fold e in Hc.
    unfold complete_ok in Hc. destruct (nth_error (e_fis e) f).
    - apply andb_true_iff in Hc as [Hc _]. apply andb_true_iff in Hc as [Hc _].
      now apply andb_true_iff in Hc as [_ Hc].
    - apply andb_true_iff in Hc as [Hc _]. now apply andb_true_iff in Hc as [Hc _].
  Qed.

  Theorem last_error_holds : prop_last_error max (List.length nodes) down tret o frs = true.
  Proof.
    unfold prop_last_error. destruct (ignorable_res o) eqn:Hign; [cbn [negb orb]|reflexivity].
    destruct (ignorable_res_inv o Hign) as [le [Ho Hign']]. clear Hign. rename Hign' into Hign.
    destruct (acc_schedule _ _ _ _ _ _ _ _ _ _ _ _ _ _ _ _ Hchk)
      as [s [R [Hrun [Hret [Hmatch [Hst [Hex _]]]]]]]. fold e in Hmatch, Hex. rewrite Ho in Hmatch.
    pose proof (Spec_proofs.inv_reachable _ _ _ Hrun) as I.
    destruct (Spec_proofs.inv_ret _ _ _ I R Hret) as [Hfr|[Hfr [Hrunning [Hretr _]]]].
    - (* a real value cannot be what the caller got *)
      exfalso.
      destruct (acc_real_return _ _ _ _ _ _ _ _ _ _ _ _ _ _ _ _ Hchk s R Hrun Hret Hfr)
        as [pre [fL [c [tr [r [preL [wL [_ [_ [Hfi [_ [Hconv [_ [_ [_ Hcase]]]]]]]]]]]]]]]. fold e in Hfi.
      apply Spec_proofs.first_real_some in Hfr as [_ Hreal]. apply is_real_not_ignored in Hreal.
      unfold rres_match in Hmatch.
      destruct Hcase as [[t [-> _]]|[[t [e0 [-> _]]]|[e0 [-> _]]]];
        cbn [conv_result conv_last] in Hconv; injection Hconv as <-.
      + rewrite Nat2N.id, Hfi in Hmatch. cbn in Hmatch. discriminate.
      + rewrite Nat2N.id, Hfi in Hmatch. cbn in Hmatch. discriminate.
      + destruct (Spec.request_error_eq_dec (Spec.LastAttemptError (conv_err e0)) (conv_last le)) as [Heq|]; [|discriminate].
        rewrite <- Heq in Hign. congruence.
    - apply andb_true_iff. split.
      + (* every frame was answered before the call returned *)
        apply forallb_forall. intros g Hg.
        destruct (acc_frame _ _ _ _ _ _ _ _ _ _ _ _ _ _ _ _ Hchk g Hg) as [i [Hi Hgi]].
        assert (Hcov : In i (Spec.running s) \/ exists oi, In (Spec.Complete i oi) ls)
          by (apply (run_cover_init _ _ _ Hrun); lia).
        destruct Hcov as [Hin|[oi Hoi]]; [rewrite Hrunning in Hin; contradiction|].
        destruct (acc_label_visible _ _ _ _ _ _ _ _ _ _ _ _ _ _ _ _ Hchk i oi Hoi Hi)
          as [c [tr [r [_ [_ [_ [Hseq [_ [_ [_ [_ Hlast]]]]]]]]]]].
        destruct (sub_frames i assign frs) as [|x xs] eqn:Es; [contradiction|].
        destruct Hlast as [l [tl [Hrev [Hal Hdl]]]].
        destruct (seq_ok_all_done _ Hseq l tl (f_done l) Hrev Hal eq_refl g Hgi) as [Hag Hdg].
        rewrite Hag. cbn [andb]. apply N.leb_le. lia.
      + destruct (is_nil down) eqn:Hdn; [cbn [negb orb]|reflexivity].
        assert (Hcovered : e_exhausted e = true -> (List.length nodes <=? distinct_nodes frs)%nat = true).
        { intros Hx. apply Nat.leb_le. apply (covered_distinct nodes down frs Hdn).
          - exact (acc_nodup _ _ _ _ _ _ _ _ _ _ _ _ _ _ _ _ Hchk).
          - exact Hx. }
        destruct (existsb Spec.is_exhausted (Spec.completions ls)) eqn:Exh.
        * apply existsb_exists in Exh as [o' [Ho' Hx]]. destruct o' as [rr|]; [discriminate|].
          destruct (completions_In_inv _ _ Ho') as [f Hf].
          rewrite (Hcovered (acc_exhausted_label f Hf)). reflexivity.
        * pose proof (Spec_proofs.inv_bound_eq _ _ _ I Exh) as Hb. rewrite Hretr in Hb.
          destruct Hex as [Hle|Hx]; [|rewrite (Hcovered Hx); reflexivity].
          assert (Hn : List.length cs = (1 + max)%nat) by lia.
          destruct (forallb (fun i => negb (is_nil (sub_frames i assign frs))) (seq 0 (List.length cs))) eqn:Hall.
          -- (* every fiber has a frame *)
             apply orb_true_iff. right. apply Nat.leb_le.
             destruct (multi_assign _ _ _ _ _ _ _ _ _ (acc_multi _ _ _ _ _ _ _ _ _ _ _ _ _ _ _ _ Hchk)) as [Hl Ha].
             rewrite <- (frames_sum assign frs (List.length cs) Hl Ha), <- Hn.
             rewrite forallb_forall in Hall.
             etransitivity; [|apply (list_sum_le (fun _ => 1%nat))].
             ++ rewrite list_sum_const, seq_length. lia.
             ++ intros i Hi. specialize (Hall i Hi). destruct (sub_frames i assign frs); [discriminate|cbn; lia].
          -- (* a fiber without a frame completed: only with the plan used up *)
             assert (Hexi : exists i, In i (seq 0 (List.length cs)) /\ sub_frames i assign frs = []).
             { clear - Hall. induction (seq 0 (List.length cs)) as [|a l IH]; [discriminate|].
               cbn in Hall. destruct (sub_frames a assign frs) eqn:E.
               - exists a. split; [now left|assumption].
               - cbn in Hall. destruct (IH Hall) as [i [Hi Hs]]. exists i. split; [now right|assumption]. }
             destruct Hexi as [i [Hi Hs]]. apply in_seq in Hi.
             assert (Hcov : In i (Spec.running s) \/ exists oi, In (Spec.Complete i oi) ls)
               by (apply (run_cover_init _ _ _ Hrun); lia).
             destruct Hcov as [Hin|[oi Hoi]]; [rewrite Hrunning in Hin; contradiction|].
             destruct (acc_label_visible _ _ _ _ _ _ _ _ _ _ _ _ _ _ _ _ Hchk i oi Hoi ltac:(lia))
               as [c [tr [r [_ [_ [_ [_ [_ [_ [_ [_ Hlast]]]]]]]]]]].
             rewrite Hs in Hlast. fold e in Hlast. rewrite (Hcovered Hlast). reflexivity.
  Qed.
End Accepted4.

(* both predicates, for the whole judgement of a record *)
Lemma e2e_check13_result_props p idem spec cl0 nodes down cs assign frs ls t0 tret margin o co max :
  e2e_check13 p idem spec cl0 nodes down cs assign frs ls t0 tret margin o co = true ->
  gate_open idem (option_map fst spec) = Some max ->
  prop_first_real margin o co frs = true /\
  prop_last_error max (List.length nodes) down tret o frs = true.
Proof.
  intros H Hg. destruct (e2e_check13_open _ _ _ _ _ _ _ _ _ _ _ _ _ _ _ _ H Hg) as [iv [_ Hc]].
  split; [eapply first_real_holds|eapply last_error_holds]; eassumption.
Qed.
