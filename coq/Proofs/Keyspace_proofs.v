(* Proofs about Model/Keyspace.v (property C20). *)
From SV Require Import Base.Prelude Model.Keyspace.
From Coq Require Import Ascii String.
Open Scope N_scope.

(* ====================================================================================== *)
(* 1. names                                                                              *)
(* ====================================================================================== *)

Lemma in_alphabet_existsb c : existsb (N.eqb c) alphabet = true <-> In c alphabet.
Proof.
  rewrite existsb_exists. split.
  - intros [x [Hx He]]. apply N.eqb_eq in He. subst. exact Hx.
  - intros H. exists c. split; [exact H|apply N.eqb_refl].
Qed.

Lemma is_ks_char_small c : is_ks_char c = true -> c < 123.
Proof. unfold is_ks_char. lia. Qed.

Lemma is_ks_char_alphabet c : is_ks_char c = true <-> In c alphabet.
Proof.
  split.
  - intros H. apply in_alphabet_existsb.
    assert (Hall : forallb (fun c => implb (is_ks_char c) (existsb (N.eqb c) alphabet)) (nrange 0 123) = true)
      by (vm_compute; reflexivity).
    rewrite forallb_forall in Hall.
    specialize (Hall c). rewrite H in Hall. apply Hall.
    apply nrange_In. pose proof (is_ks_char_small c H). lia.
  - intros H.
    assert (Hall : forallb is_ks_char alphabet = true) by (vm_compute; reflexivity).
    rewrite forallb_forall in Hall. apply Hall. exact H.
Qed.

Lemma first_illegal_none s : first_illegal s = None <-> Forall (fun c => In c alphabet) s.
Proof.
  induction s as [|c r IH]; cbn [first_illegal].
  - split; [constructor|reflexivity].
  - destruct (is_ks_char c) eqn:E.
    + rewrite IH. split.
      * intros H. constructor; [apply is_ks_char_alphabet; exact E|exact H].
      * intros H. inversion H; assumption.
    + split; [discriminate|]. intros H. inversion H as [|? ? Hc _]; subst.
      apply is_ks_char_alphabet in Hc. congruence.
Qed.

(* the reported character is the first one outside the alphabet *)
Lemma first_illegal_some s c :
  first_illegal s = Some c <->
  exists a b, s = a ++ c :: b /\ Forall (fun x => In x alphabet) a /\ ~ In c alphabet.
Proof.
  revert c. induction s as [|x r IH]; intros c; cbn [first_illegal].
  - split; [discriminate|]. intros [a [b [H _]]]. destruct a; discriminate.
  - destruct (is_ks_char x) eqn:E.
    + rewrite IH. split.
      * intros [a [b [-> [Ha Hc]]]]. exists (x :: a), b. repeat split; [|exact Hc].
        constructor; [apply is_ks_char_alphabet; exact E|exact Ha].
      * intros [a [b [Hs [Ha Hc]]]]. destruct a as [|y a]; cbn in Hs; inversion Hs; subst.
        -- exfalso. apply Hc. apply is_ks_char_alphabet. exact E.
        -- exists a, b. inversion Ha; subst. repeat split; assumption.
    + split.
      * intros H. injection H as <-. exists [], r. repeat split; [constructor|].
        intros Hc. apply is_ks_char_alphabet in Hc. congruence.
      * intros [a [b [Hs [Ha Hc]]]]. destruct a as [|y a]; cbn in Hs; inversion Hs; subst.
        -- reflexivity.
        -- inversion Ha as [|? ? Hy _]; subst. apply is_ks_char_alphabet in Hy. congruence.
Qed.

Lemma verify_name_ok_iff s : verify_name s = Ok tt <-> valid_name s.
Proof.
  unfold verify_name, valid_name. destruct s as [|c r].
  - split; [discriminate|]. cbn [List.length]. lia.
  - set (l := c :: r). assert (Hl : (1 <= List.length l)%nat) by (subst l; cbn [List.length]; lia).
    clearbody l. destruct (48 <? N.of_nat (List.length l)) eqn:E.
    + split; [discriminate|]. lia.
    + destruct (first_illegal l) as [x|] eqn:F.
      * split; [discriminate|]. intros [_ H]. apply first_illegal_none in H. congruence.
      * split; [|reflexivity]. intros _. split; [lia|]. apply first_illegal_none. exact F.
Qed.

(* which error is reported: the three checks in the order of the code *)
Lemma verify_name_err s e :
  verify_name s = Err e <->
  match e with
  | NEmpty => s = []
  | NTooLong n => n = N.of_nat (List.length s) /\ (48 < List.length s)%nat
  | NIllegal c => (1 <= List.length s <= 48)%nat /\
                  exists a b, s = a ++ c :: b /\ Forall (fun x => In x alphabet) a /\ ~ In c alphabet
  end.
Proof.
  unfold verify_name. destruct s as [|c0 r].
  - destruct e; split; try discriminate; try reflexivity.
    + intros [_ H]. cbn [List.length] in H. lia.
    + intros [H _]. cbn [List.length] in H. lia.
  - set (l := c0 :: r). assert (Hl : (1 <= List.length l)%nat) by (subst l; cbn [List.length]; lia).
    assert (Hne : l <> []) by (subst l; discriminate).
    clearbody l. destruct (48 <? N.of_nat (List.length l)) eqn:E.
    + destruct e; split; try discriminate; try congruence.
      * intros H. injection H as <-. split; [reflexivity|lia].
      * intros [-> _]. reflexivity.
      * intros [H _]. lia.
    + destruct (first_illegal l) as [x|] eqn:F.
      * destruct e; split; try discriminate; try congruence.
        -- intros [_ H]. lia.
        -- intros H. injection H as <-. split; [lia|]. apply first_illegal_some. exact F.
        -- intros [_ H]. apply first_illegal_some in H. congruence.
      * destruct e; split; try discriminate; try congruence.
        -- intros [_ H]. lia.
        -- intros [_ H]. apply first_illegal_some in H. congruence.
Qed.

Lemma valid_nameb_spec s : valid_nameb s = true <-> valid_name s.
Proof.
  unfold valid_nameb, valid_name. rewrite !andb_true_iff, forallb_forall, Forall_forall.
  rewrite Nat.leb_le, Nat.leb_le. split.
  - intros [[H1 H2] H3]. split; [lia|]. intros x Hx. apply in_alphabet_existsb. apply H3, Hx.
  - intros [[H1 H2] H3]. repeat split; try assumption. intros x Hx. apply in_alphabet_existsb. apply H3, Hx.
Qed.

Lemma make_verified_ok s cs k : make_verified s cs = Ok k <-> (k = (s, cs) /\ valid_name s).
Proof.
  unfold make_verified. destruct (verify_name s) as [[]|e] eqn:E.
  - apply verify_name_ok_iff in E. split.
    + intros H. injection H as <-. split; [reflexivity|exact E].
    + intros [-> _]. reflexivity.
  - split; [discriminate|]. intros [_ H]. apply verify_name_ok_iff in H. congruence.
Qed.

Lemma name_eqb_eq a b : name_eqb a b = true <-> a = b.
Proof.
  revert b. induction a as [|x a IH]; intros [|y b]; cbn [name_eqb]; try (split; [discriminate|discriminate]);
    try (split; reflexivity).
  rewrite andb_true_iff, N.eqb_eq, IH. split.
  - intros [-> ->]. reflexivity.
  - intros H. injection H as -> ->. split; reflexivity.
Qed.

Lemma ks_eqb_eq a b : ks_eqb a b = true <-> a = b.
Proof.
  unfold ks_eqb. destruct a as [n1 c1], b as [n2 c2]. cbn [fst snd].
  rewrite andb_true_iff, name_eqb_eq, Bool.eqb_true_iff. split.
  - intros [-> ->]. reflexivity.
  - intros H. injection H as -> ->. split; reflexivity.
Qed.

Lemma ks_eqb_refl a : ks_eqb a a = true.
Proof. apply ks_eqb_eq. reflexivity. Qed.

(* ---- the statement text --------------------------------------------------------------- *)

Lemma span_ident_app s rest :
  Forall (fun c => In c alphabet) s ->
  match rest with [] => True | c :: _ => ~ In c alphabet end ->
  span_ident (s ++ rest) = (s, rest).
Proof.
  intros Hs Hr. induction Hs as [|c r Hc _ IH]; cbn [app span_ident].
  - destruct rest as [|c q]; [reflexivity|]. cbn [span_ident].
    destruct (existsb (N.eqb c) alphabet) eqn:E; [|reflexivity].
    apply in_alphabet_existsb in E. contradiction.
  - apply in_alphabet_existsb in Hc. rewrite Hc, IH. reflexivity.
Qed.

Lemma dquote_not_alpha : ~ In dquote alphabet.
Proof.
  intros H. apply in_alphabet_existsb in H. vm_compute in H. discriminate.
Qed.

(* the emitted text reads back as USE + exactly one identifier (quoted iff case sensitive): the
   name is the only thing after the fixed prefix / between the fixed quotes *)
Lemma parse_use_statement k : valid_name (fst k) -> parse_use (use_statement k) = Some k.
Proof.
  destruct k as [s cs]. cbn [fst]. intros [Hlen Hall].
  unfold parse_use, use_statement. cbn [snd fst].
  destruct s as [|c r]; [cbn [List.length] in Hlen; lia|].
  destruct cs.
  - change (strip_prefix use_prefix (use_prefix ++ [dquote] ++ (c :: r) ++ [dquote]))
      with (Some (dquote :: (c :: r) ++ [dquote])).
    cbv iota beta. rewrite N.eqb_refl.
    rewrite (span_ident_app (c :: r) [dquote] Hall dquote_not_alpha).
    cbv iota beta. rewrite N.eqb_refl. reflexivity.
  - change (strip_prefix use_prefix (use_prefix ++ c :: r)) with (Some (c :: r)).
    assert (Hc : c =? dquote = false).
    { apply N.eqb_neq. intros ->. inversion Hall; subst. apply dquote_not_alpha. assumption. }
    cbv iota beta. rewrite Hc.
    pose proof (span_ident_app (c :: r) [] Hall I) as Hsp. rewrite app_nil_r in Hsp. rewrite Hsp.
    reflexivity.
Qed.

Lemma use_statement_chars k c :
  valid_name (fst k) -> In c (use_statement k) -> In c alphabet \/ c = 32 \/ c = dquote.
Proof.
  intros [_ Hall] Hin. rewrite Forall_forall in Hall. unfold use_statement in Hin.
  assert (Hp : forall x, In x use_prefix -> In x alphabet \/ x = 32 \/ x = dquote).
  { intros x Hx. cbn in Hx. destruct Hx as [<-|[<-|[<-|[<-|[]]]]].
    - left. apply in_alphabet_existsb. vm_compute. reflexivity.
    - left. apply in_alphabet_existsb. vm_compute. reflexivity.
    - left. apply in_alphabet_existsb. vm_compute. reflexivity.
    - right. left. reflexivity. }
  destruct (snd k).
  - rewrite !in_app_iff in Hin. destruct Hin as [H|[H|[H|H]]].
    + apply Hp, H.
    + cbn in H. destruct H as [<-|[]]. right. right. reflexivity.
    + left. apply Hall, H.
    + cbn in H. destruct H as [<-|[]]. right. right. reflexivity.
  - rewrite in_app_iff in Hin. destruct Hin as [H|H]; [apply Hp, H|left; apply Hall, H].
Qed.

(* ---- response check --------------------------------------------------------------------- *)

Lemma eq_ci_iff a b : eq_ci a b = true <-> map to_lower a = map to_lower b.
Proof.
  revert b. induction a as [|x a IH]; intros [|y b]; cbn [eq_ci map];
    try (split; [discriminate|discriminate]); try (split; reflexivity).
  rewrite andb_true_iff, N.eqb_eq, IH. split.
  - intros [-> ->]. reflexivity.
  - intros H. injection H as -> ->. split; reflexivity.
Qed.

Lemma to_lower_idem c : to_lower (to_lower c) = to_lower c.
Proof.
  unfold to_lower. destruct ((65 <=? c) && (c <=? 90)) eqn:E; [|rewrite E; reflexivity].
  destruct ((65 <=? c + 32) && (c + 32 <=? 90)) eqn:F; [lia|reflexivity].
Qed.

Lemma eq_ci_refl a : eq_ci a a = true.
Proof. apply eq_ci_iff. reflexivity. Qed.

Lemma eq_ci_canon k : eq_ci (canon k) (fst k) = true.
Proof.
  apply eq_ci_iff. unfold canon. destruct (snd k); [reflexivity|].
  rewrite map_map. apply map_ext. intros c. apply to_lower_idem.
Qed.

Lemma verify_result_ok_iff k r :
  verify_result k r = VOk <-> exists n, r = RSetKeyspace n /\ map to_lower n = map to_lower (fst k).
Proof.
  destruct r as [n| |]; cbn [verify_result].
  - destruct (eq_ci n (fst k)) eqn:E.
    + split; [|reflexivity]. intros _. exists n. split; [reflexivity|apply eq_ci_iff, E].
    + split; [discriminate|]. intros [m [H Hm]]. injection H as <-. apply eq_ci_iff in Hm. congruence.
  - split; [discriminate|]. intros [m [H _]]. discriminate.
  - split; [discriminate|]. intros [m [H _]]. discriminate.
Qed.

Lemma verify_result_honest k : verify_result k (RSetKeyspace (canon k)) = VOk.
Proof. cbn [verify_result]. rewrite eq_ci_canon. reflexivity. Qed.

(* ---- aggregation ------------------------------------------------------------------------ *)

Lemma agg_err w b l t :
  agg w b l = AErr t <->
  exists l1 l2, l = l1 ++ CErr t :: l2 /\ forallb (fun x => negb (is_err x)) l1 = true.
Proof.
  revert w b. induction l as [|x r IH]; intros w b; cbn [agg].
  - split.
    + destruct w; [discriminate|]. destruct b; discriminate.
    + intros [l1 [l2 [H _]]]. destruct l1; discriminate.
  - destruct x as [|t'|t'].
    + rewrite IH. split.
      * intros [l1 [l2 [-> H]]]. exists (COk :: l1), l2. split; [reflexivity|exact H].
      * intros [l1 [l2 [H Hf]]]. destruct l1 as [|y l1]; cbn in H; inversion H; subst.
        exists l1, l2. split; [reflexivity|]. cbn in Hf. exact Hf.
    + rewrite IH. split.
      * intros [l1 [l2 [-> H]]]. exists (CBroken t' :: l1), l2. split; [reflexivity|exact H].
      * intros [l1 [l2 [H Hf]]]. destruct l1 as [|y l1]; cbn in H; inversion H; subst.
        exists l1, l2. split; [reflexivity|]. cbn in Hf. exact Hf.
    + split.
      * intros H. injection H as <-. exists [], r. split; reflexivity.
      * intros [l1 [l2 [H Hf]]]. destruct l1 as [|y l1]; cbn in H; inversion H; subst.
        -- reflexivity.
        -- cbn in Hf. discriminate.
Qed.

Lemma agg_ok w b l :
  agg w b l = AOk <->
  (forallb (fun x => negb (is_err x)) l = true /\ (w = true \/ existsb is_ok l = true)).
Proof.
  revert w b. induction l as [|x r IH]; intros w b; cbn [agg forallb existsb].
  - destruct w.
    + split; [intros _; split; [reflexivity|left; reflexivity]|reflexivity].
    + split.
      * destruct b; discriminate.
      * intros [_ [H|H]]; discriminate.
  - destruct x as [|t|t]; cbn [is_err is_ok negb andb orb].
    + rewrite IH. split.
      * intros [H _]. split; [exact H|right; reflexivity].
      * intros [H _]. split; [exact H|left; reflexivity].
    + rewrite IH. reflexivity.
    + split; [discriminate|]. intros [H _]. discriminate.
Qed.

Lemma agg_panic w b l : agg w b l = APanic <-> (w = false /\ b = None /\ l = []).
Proof.
  revert w b. induction l as [|x r IH]; intros w b; cbn [agg].
  - destruct w.
    + split; [discriminate|]. intros [H _]. discriminate.
    + destruct b.
      * split; [discriminate|]. intros [_ [H _]]. discriminate.
      * split; [|reflexivity]. intros _. repeat split.
  - destruct x as [|t|t].
    + rewrite IH. split; [intros [H _]; discriminate|intros [_ [_ H]]; discriminate].
    + rewrite IH. split; [intros [_ [H _]]; discriminate|intros [_ [_ H]]; discriminate].
    + split; [discriminate|]. intros [_ [_ H]]. discriminate.
Qed.

Lemma use_keyspace_result_ok l :
  use_keyspace_result l = AOk <->
  (existsb is_ok l = true /\ forallb (fun x => negb (is_err x)) l = true).
Proof.
  unfold use_keyspace_result. rewrite agg_ok. split.
  - intros [H [H'|H']]; [discriminate|]. split; assumption.
  - intros [H H']. split; [exact H'|right; exact H].
Qed.

Lemma use_keyspace_result_err l t :
  use_keyspace_result l = AErr t <->
  exists l1 l2, l = l1 ++ CErr t :: l2 /\ forallb (fun x => negb (is_err x)) l1 = true.
Proof. apply agg_err. Qed.

Lemma use_keyspace_result_panic l : use_keyspace_result l = APanic <-> l = [].
Proof.
  unfold use_keyspace_result. rewrite agg_panic. split.
  - intros [_ [_ H]]. exact H.
  - intros ->. repeat split.
Qed.

(* anything but an AErr means: no non-broken error among the outcomes *)
Lemma use_keyspace_result_noerr l :
  (forall t, use_keyspace_result l <> AErr t) <-> forallb (fun x => negb (is_err x)) l = true.
Proof.
  split.
  - intros H. induction l as [|x r IH]; [reflexivity|].
    cbn [forallb]. destruct x as [|t|t]; cbn [is_err negb andb].
    + apply IH. intros t Ht. apply (H t). apply agg_err in Ht. destruct Ht as [l1 [l2 [-> Hf]]].
      apply agg_err. exists (COk :: l1), l2. split; [reflexivity|exact Hf].
    + apply IH. intros t' Ht. apply (H t'). apply agg_err in Ht. destruct Ht as [l1 [l2 [-> Hf]]].
      apply agg_err. exists (CBroken t :: l1), l2. split; [reflexivity|exact Hf].
    + exfalso. apply (H t). reflexivity.
  - intros H t Ht. apply agg_err in Ht. destruct Ht as [l1 [l2 [-> _]]].
    rewrite forallb_app in H. apply andb_true_iff in H. destruct H as [_ H]. cbn in H. discriminate.
Qed.
