(* Proofs about Model/Keyspace.v (property C20). *)
From SV Require Import Base.Prelude Model.Keyspace.
From Coq Require Import Ascii String.
Open Scope N_scope.

(* ====================================================================================== *)
(* 1. names                                                                              *)
(* ====================================================================================== *)

Lemma in_alphabet_existsb c : existsb (N.eqb c) alphabet = true <-> In c alphabet.
Proof.
  rewrite existsb_exists. split.
  - intros [x [Hx He]]. apply N.eqb_eq in He. subst. exact Hx.
  - intros H. exists c. split; [exact H|apply N.eqb_refl].
Qed.

Lemma is_ks_char_small c : is_ks_char c = true -> c < 123.
Proof. unfold is_ks_char. lia. Qed.

Lemma is_ks_char_alphabet c : is_ks_char c = true <-> In c alphabet.
Proof.
  split.
  - intros H. apply in_alphabet_existsb.
    assert (Hall : forallb (fun c => implb (is_ks_char c) (existsb (N.eqb c) alphabet)) (nrange 0 123) = true)
      by (vm_compute; reflexivity).
    rewrite forallb_forall in Hall.
    specialize (Hall c). rewrite H in Hall. apply Hall.
    apply nrange_In. pose proof (is_ks_char_small c H). lia.
  - intros H.
    assert (Hall : forallb is_ks_char alphabet = true) by (vm_compute; reflexivity).
    rewrite forallb_forall in Hall. apply Hall. exact H.
Qed.

Lemma first_illegal_none s : first_illegal s = None <-> Forall (fun c => In c alphabet) s.
Proof.
  induction s as [|c r IH]; cbn [first_illegal].
  - split; [constructor|reflexivity].
  - destruct (is_ks_char c) eqn:E.
    + rewrite IH. split.
      * intros H. constructor; [apply is_ks_char_alphabet; exact E|exact H].
      * intros H. inversion H; assumption.
    + split; [discriminate|]. intros H. inversion H as [|? ? Hc _]; subst.
      apply is_ks_char_alphabet in Hc. congruence.
Qed.

(* the reported character is the first one outside the alphabet *)
Lemma first_illegal_some s c :
  first_illegal s = Some c <->
  exists a b, s = a ++ c :: b /\ Forall (fun x => In x alphabet) a /\ ~ In c alphabet.
Proof.
  revert c. induction s as [|x r IH]; intros c; cbn [first_illegal].
  - split; [discriminate|]. intros [a [b [H _]]]. destruct a; discriminate.
  - destruct (is_ks_char x) eqn:E.
    + rewrite IH. split.
      * intros [a [b [-> [Ha Hc]]]]. exists (x :: a), b. repeat split; [|exact Hc].
        constructor; [apply is_ks_char_alphabet; exact E|exact Ha].
      * intros [a [b [Hs [Ha Hc]]]]. destruct a as [|y a]; cbn in Hs; inversion Hs; subst.
        -- exfalso. apply Hc. apply is_ks_char_alphabet. exact E.
        -- exists a, b. inversion Ha; subst. repeat split; assumption.
    + split.
      * intros H. injection H as <-. exists [], r. repeat split; [constructor|].
        intros Hc. apply is_ks_char_alphabet in Hc. congruence.
      * intros [a [b [Hs [Ha Hc]]]]. destruct a as [|y a]; cbn in Hs; inversion Hs; subst.
        -- reflexivity.
        -- inversion Ha as [|? ? Hy _]; subst. apply is_ks_char_alphabet in Hy. congruence.
Qed.

Lemma verify_name_ok_iff s : verify_name s = Ok tt <-> valid_name s.
Proof.
  unfold verify_name, valid_name. destruct s as [|c r].
  - split; [discriminate|]. cbn [List.length]. lia.
  - set (l := c :: r). assert (Hl : (1 <= List.length l)%nat) by (subst l; cbn [List.length]; lia).
    clearbody l. destruct (48 <? N.of_nat (List.length l)) eqn:E.
    + split; [discriminate|]. lia.
    + destruct (first_illegal l) as [x|] eqn:F.
      * split; [discriminate|]. intros [_ H]. apply first_illegal_none in H. congruence.
      * split; [|reflexivity]. intros _. split; [lia|]. apply first_illegal_none. exact F.
Qed.

(* which error is reported: the three checks in the order of the code *)
Lemma verify_name_err s e :
  verify_name s = Err e <->
  match e with
  | NEmpty => s = []
  | NTooLong n => n = N.of_nat (List.length s) /\ (48 < List.length s)%nat
  | NIllegal c => (1 <= List.length s <= 48)%nat /\
                  exists a b, s = a ++ c :: b /\ Forall (fun x => In x alphabet) a /\ ~ In c alphabet
  end.
Proof.
  unfold verify_name. destruct s as [|c0 r].
  - destruct e; split; try discriminate; try reflexivity.
    + intros [_ H]. cbn [List.length] in H. lia.
    + intros [H _]. cbn [List.length] in H. lia.
  - set (l := c0 :: r). assert (Hl : (1 <= List.length l)%nat) by (subst l; cbn [List.length]; lia).
    assert (Hne : l <> []) by (subst l; discriminate).
    clearbody l. destruct (48 <? N.of_nat (List.length l)) eqn:E.
    + destruct e; split; try discriminate; try congruence.
      * intros H. injection H as <-. split; [reflexivity|lia].
      * intros [-> _]. reflexivity.
      * intros [H _]. lia.
    + destruct (first_illegal l) as [x|] eqn:F.
      * destruct e; split; try discriminate; try congruence.
        -- intros [_ H]. lia.
        -- intros H. injection H as <-. split; [lia|]. apply first_illegal_some. exact F.
        -- intros [_ H]. apply first_illegal_some in H. congruence.
      * destruct e; split; try discriminate; try congruence.
        -- intros [_ H]. lia.
        -- intros [_ H]. apply first_illegal_some in H. congruence.
Qed.

Lemma valid_nameb_spec s : valid_nameb s = true <-> valid_name s.
Proof.
  unfold valid_nameb, valid_name. rewrite !andb_true_iff, forallb_forall, Forall_forall.
  rewrite Nat.leb_le, Nat.leb_le. split.
  - intros [[H1 H2] H3]. split; [lia|]. intros x Hx. apply in_alphabet_existsb. apply H3, Hx.
  - intros [[H1 H2] H3]. repeat split; try assumption. intros x Hx. apply in_alphabet_existsb. apply H3, Hx.
Qed.

Lemma make_verified_ok s cs k : make_verified s cs = Ok k <-> (k = (s, cs) /\ valid_name s).
Proof.
  unfold make_verified. destruct (verify_name s) as [[]|e] eqn:E.
  - apply verify_name_ok_iff in E. split.
    + intros H. injection H as <-. split; [reflexivity|exact E].
    + intros [-> _]. reflexivity.
  - split; [discriminate|]. intros [_ H]. apply verify_name_ok_iff in H. congruence.
Qed.

Lemma name_eqb_eq a b : name_eqb a b = true <-> a = b.
Proof.
  revert b. induction a as [|x a IH]; intros [|y b]; cbn [name_eqb]; try (split; [discriminate|discriminate]);
    try (split; reflexivity).
  rewrite andb_true_iff, N.eqb_eq, IH. split.
  - intros [-> ->]. reflexivity.
  - intros H. injection H as -> ->. split; reflexivity.
Qed.

Lemma ks_eqb_eq a b : ks_eqb a b = true <-> a = b.
Proof.
  unfold ks_eqb. destruct a as [n1 c1], b as [n2 c2]. cbn [fst snd].
  rewrite andb_true_iff, name_eqb_eq, Bool.eqb_true_iff. split.
  - intros [-> ->]. reflexivity.
  - intros H. injection H as -> ->. split; reflexivity.
Qed.

Lemma ks_eqb_refl a : ks_eqb a a = true.
Proof. apply ks_eqb_eq. reflexivity. Qed.

(* ---- the statement text --------------------------------------------------------------- *)

Lemma span_ident_app s rest :
  Forall (fun c => In c alphabet) s ->
  match rest with [] => True | c :: _ => ~ In c alphabet end ->
  span_ident (s ++ rest) = (s, rest).
Proof.
  intros Hs Hr. induction Hs as [|c r Hc _ IH]; cbn [app span_ident].
  - destruct rest as [|c q]; [reflexivity|]. cbn [span_ident].
    destruct (existsb (N.eqb c) alphabet) eqn:E; [|reflexivity].
    apply in_alphabet_existsb in E. contradiction.
  - apply in_alphabet_existsb in Hc. rewrite Hc, IH. reflexivity.
Qed.

Lemma dquote_not_alpha : ~ In dquote alphabet.
Proof.
  intros H. apply in_alphabet_existsb in H. vm_compute in H. discriminate.
Qed.

(* the emitted text reads back as USE + exactly one identifier (quoted iff case sensitive): the
   name is the only thing after the fixed prefix / between the fixed quotes *)
Lemma parse_use_statement k : valid_name (fst k) -> parse_use (use_statement k) = Some k.
Proof.
  destruct k as [s cs]. cbn [fst]. intros [Hlen Hall].
  unfold parse_use, use_statement. cbn [snd fst].
  destruct s as [|c r]; [cbn [List.length] in Hlen; lia|].
  destruct cs.
  - change (strip_prefix use_prefix (use_prefix ++ [dquote] ++ (c :: r) ++ [dquote]))
      with (Some (dquote :: (c :: r) ++ [dquote])).
    cbv iota beta. rewrite N.eqb_refl.
    rewrite (span_ident_app (c :: r) [dquote] Hall dquote_not_alpha).
    cbv iota beta. rewrite N.eqb_refl. reflexivity.
  - change (strip_prefix use_prefix (use_prefix ++ c :: r)) with (Some (c :: r)).
    assert (Hc : c =? dquote = false).
    { apply N.eqb_neq. intros ->. inversion Hall; subst. apply dquote_not_alpha. assumption. }
    cbv iota beta. rewrite Hc.
    pose proof (span_ident_app (c :: r) [] Hall I) as Hsp. rewrite app_nil_r in Hsp. rewrite Hsp.
    reflexivity.
Qed.

Lemma use_statement_chars k c :
  valid_name (fst k) -> In c (use_statement k) -> In c alphabet \/ c = 32 \/ c = dquote.
Proof.
  intros [_ Hall] Hin. rewrite Forall_forall in Hall. unfold use_statement in Hin.
  assert (Hp : forall x, In x use_prefix -> In x alphabet \/ x = 32 \/ x = dquote).
  { intros x Hx. cbn in Hx. destruct Hx as [<-|[<-|[<-|[<-|[]]]]].
    - left. apply in_alphabet_existsb. vm_compute. reflexivity.
    - left. apply in_alphabet_existsb. vm_compute. reflexivity.
    - left. apply in_alphabet_existsb. vm_compute. reflexivity.
    - right. left. reflexivity. }
  destruct (snd k).
  - rewrite !in_app_iff in Hin. destruct Hin as [H|[H|[H|H]]].
    + apply Hp, H.
    + cbn in H. destruct H as [<-|[]]. right. right. reflexivity.
    + left. apply Hall, H.
    + cbn in H. destruct H as [<-|[]]. right. right. reflexivity.
  - rewrite in_app_iff in Hin. destruct Hin as [H|H]; [apply Hp, H|left; apply Hall, H].
Qed.

(* ---- response check --------------------------------------------------------------------- *)

Lemma eq_ci_iff a b : eq_ci a b = true <-> map to_lower a = map to_lower b.
Proof.
  revert b. induction a as [|x a IH]; intros [|y b]; cbn [eq_ci map];
    try (split; [discriminate|discriminate]); try (split; reflexivity).
  rewrite andb_true_iff, N.eqb_eq, IH. split.
  - intros [-> ->]. reflexivity.
  - intros H. injection H as -> ->. split; reflexivity.
Qed.

Lemma to_lower_idem c : to_lower (to_lower c) = to_lower c.
Proof.
  unfold to_lower. destruct ((65 <=? c) && (c <=? 90)) eqn:E; [|rewrite E; reflexivity].
  destruct ((65 <=? c + 32) && (c + 32 <=? 90)) eqn:F; [lia|reflexivity].
Qed.

Lemma eq_ci_refl a : eq_ci a a = true.
Proof. apply eq_ci_iff. reflexivity. Qed.

Lemma eq_ci_canon k : eq_ci (canon k) (fst k) = true.
Proof.
  apply eq_ci_iff. unfold canon. destruct (snd k); [reflexivity|].
  rewrite map_map. apply map_ext. intros c. apply to_lower_idem.
Qed.

Lemma verify_result_ok_iff k r :
  verify_result k r = VOk <-> exists n, r = RSetKeyspace n /\ map to_lower n = map to_lower (fst k).
Proof.
  destruct r as [n| |]; cbn [verify_result].
  - destruct (eq_ci n (fst k)) eqn:E.
    + split; [|reflexivity]. intros _. exists n. split; [reflexivity|apply eq_ci_iff, E].
    + split; [discriminate|]. intros [m [H Hm]]. injection H as <-. apply eq_ci_iff in Hm. congruence.
  - split; [discriminate|]. intros [m [H _]]. discriminate.
  - split; [discriminate|]. intros [m [H _]]. discriminate.
Qed.

Lemma verify_result_honest k : verify_result k (RSetKeyspace (canon k)) = VOk.
Proof. cbn [verify_result]. rewrite eq_ci_canon. reflexivity. Qed.

(* ---- aggregation ------------------------------------------------------------------------ *)

Lemma agg_err w b l t :
  agg w b l = AErr t <->
  exists l1 l2, l = l1 ++ CErr t :: l2 /\ forallb (fun x => negb (is_err x)) l1 = true.
Proof.
  revert w b. induction l as [|x r IH]; intros w b; cbn [agg].
  - split.
    + destruct w; [discriminate|]. destruct b; discriminate.
    + intros [l1 [l2 [H _]]]. destruct l1; discriminate.
  - destruct x as [|t'|t'].
    + rewrite IH. split.
      * intros [l1 [l2 [-> H]]]. exists (COk :: l1), l2. split; [reflexivity|exact H].
      * intros [l1 [l2 [H Hf]]]. destruct l1 as [|y l1]; cbn in H; inversion H; subst.
        exists l1, l2. split; [reflexivity|]. cbn in Hf. exact Hf.
    + rewrite IH. split.
      * intros [l1 [l2 [-> H]]]. exists (CBroken t' :: l1), l2. split; [reflexivity|exact H].
      * intros [l1 [l2 [H Hf]]]. destruct l1 as [|y l1]; cbn in H; inversion H; subst.
        exists l1, l2. split; [reflexivity|]. cbn in Hf. exact Hf.
    + split.
      * intros H. injection H as <-. exists [], r. split; reflexivity.
      * intros [l1 [l2 [H Hf]]]. destruct l1 as [|y l1]; cbn in H; inversion H; subst.
        -- reflexivity.
        -- cbn in Hf. discriminate.
Qed.

Lemma agg_ok w b l :
  agg w b l = AOk <->
  (forallb (fun x => negb (is_err x)) l = true /\ (w = true \/ existsb is_ok l = true)).
Proof.
  revert w b. induction l as [|x r IH]; intros w b; cbn [agg forallb existsb].
  - destruct w.
    + split; [intros _; split; [reflexivity|left; reflexivity]|reflexivity].
    + split.
      * destruct b; discriminate.
      * intros [_ [H|H]]; discriminate.
  - destruct x as [|t|t]; cbn [is_err is_ok negb andb orb].
    + rewrite IH. split.
      * intros [H _]. split; [exact H|right; reflexivity].
      * intros [H _]. split; [exact H|left; reflexivity].
    + rewrite IH. reflexivity.
    + split; [discriminate|]. intros [H _]. discriminate.
Qed.

Lemma agg_panic w b l : agg w b l = APanic <-> (w = false /\ b = None /\ l = []).
Proof.
  revert w b. induction l as [|x r IH]; intros w b; cbn [agg].
  - destruct w.
    + split; [discriminate|]. intros [H _]. discriminate.
    + destruct b.
      * split; [discriminate|]. intros [_ [H _]]. discriminate.
      * split; [|reflexivity]. intros _. repeat split.
  - destruct x as [|t|t].
    + rewrite IH. split; [intros [H _]; discriminate|intros [_ [_ H]]; discriminate].
    + rewrite IH. split; [intros [_ [H _]]; discriminate|intros [_ [_ H]]; discriminate].
    + split; [discriminate|]. intros [_ [_ H]]. discriminate.
Qed.

Lemma use_keyspace_result_ok l :
  use_keyspace_result l = AOk <->
  (existsb is_ok l = true /\ forallb (fun x => negb (is_err x)) l = true).
Proof.
  unfold use_keyspace_result. rewrite agg_ok. split.
  - intros [H [H'|H']]; [discriminate|]. split; assumption.
  - intros [H H']. split; [exact H'|right; exact H].
Qed.

Lemma use_keyspace_result_err l t :
  use_keyspace_result l = AErr t <->
  exists l1 l2, l = l1 ++ CErr t :: l2 /\ forallb (fun x => negb (is_err x)) l1 = true.
Proof. apply agg_err. Qed.

Lemma use_keyspace_result_panic l : use_keyspace_result l = APanic <-> l = [].
Proof.
  unfold use_keyspace_result. rewrite agg_panic. split.
  - intros [_ [_ H]]. exact H.
  - intros ->. repeat split.
Qed.

(* anything but an AErr means: no non-broken error among the outcomes *)
Lemma use_keyspace_result_noerr l :
  (forall t, use_keyspace_result l <> AErr t) <-> forallb (fun x => negb (is_err x)) l = true.
Proof.
  split.
  - intros H. induction l as [|x r IH]; [reflexivity|].
    cbn [forallb]. destruct x as [|t|t]; cbn [is_err negb andb].
    + apply IH. intros t Ht. apply (H t). apply agg_err in Ht. destruct Ht as [l1 [l2 [-> Hf]]].
      apply agg_err. exists (COk :: l1), l2. split; [reflexivity|exact Hf].
    + apply IH. intros t' Ht. apply (H t'). apply agg_err in Ht. destruct Ht as [l1 [l2 [-> Hf]]].
      apply agg_err. exists (CBroken t :: l1), l2. split; [reflexivity|exact Hf].
    + exfalso. apply (H t). reflexivity.
  - intros H t Ht. apply agg_err in Ht. destruct Ht as [l1 [l2 [-> _]]].
    rewrite forallb_app in H. apply andb_true_iff in H. destruct H as [_ H]. cbn in H. discriminate.
Qed.

(* ====================================================================================== *)
(* 2. the connection pool: structural invariant                                          *)
(* ====================================================================================== *)
Open Scope nat_scope.


Ltac ssimpl :=
  cbn [cur cur_uid next unext ph alive acked told wire pending log
       set_cur set_next set_unext set_ph set_alive set_acked set_told set_wire set_pending set_log
       uid uks cov stat set_stat] in *.

Lemma upd_same {A} (f : nat -> A) c v : upd f c v c = v.
Proof. unfold upd. rewrite Nat.eqb_refl. reflexivity. Qed.
Lemma upd_other {A} (f : nat -> A) c v x : x <> c -> upd f c v x = f x.
Proof. intros H. unfold upd. destruct (Nat.eqb x c) eqn:E; [apply Nat.eqb_eq in E; contradiction|reflexivity]. Qed.

Lemma find_use_some l u r : find_use l u = Some r -> In r l /\ uid r = u.
Proof.
  unfold find_use. intros H. apply find_some in H. destruct H as [H1 H2].
  apply Nat.eqb_eq in H2. split; assumption.
Qed.

Definition same_shape (r r' : use_rec) : Prop := uid r' = uid r /\ uks r' = uks r /\ cov r' = cov r.

Lemma same_shape_refl r : same_shape r r.
Proof. repeat split. Qed.
Lemma same_shape_set_stat r c v : same_shape r (set_stat r c v).
Proof. repeat split. Qed.

Lemma in_upd_use l u f r' :
  In r' (upd_use l u f) -> exists r, In r l /\ r' = (if Nat.eqb (uid r) u then f r else r).
Proof. unfold upd_use. intros H. apply in_map_iff in H. destruct H as [r [<- Hr]]. exists r. split; [exact Hr|reflexivity]. Qed.

Lemma in_drop_use l u r : In r (drop_use l u) <-> In r l /\ uid r <> u.
Proof.
  unfold drop_use. rewrite filter_In. rewrite negb_true_iff, Nat.eqb_neq. reflexivity.
Qed.

Lemma mem_In c l : mem c l = true <-> In c l.
Proof.
  unfold mem. rewrite existsb_exists. split.
  - intros [x [Hx He]]. apply Nat.eqb_eq in He. subst. exact Hx.
  - intros H. exists c. split; [exact H|apply Nat.eqb_refl].
Qed.

Lemma in_pool_conns s c : In c (pool_conns s) <-> (c < next s /\ ph s c = InPool).
Proof.
  unfold pool_conns. rewrite filter_In, in_seq. split.
  - intros [H1 H2]. split; [lia|]. destruct (ph s c); try discriminate. reflexivity.
  - intros [H1 H2]. split; [lia|]. rewrite H2. reflexivity.
Qed.

Definition pre_pool (p : phase) : Prop :=
  match p with Unborn | Opening | Setting _ => True | _ => False end.

Record GInv (s : pool) : Prop := mkG {
  g_unborn : forall c, next s <= c -> ph s c = Unborn;
  g_pre : forall c, pre_pool (ph s c) -> wire s c = [] /\ forall r, In r (pending s) -> ~ In c (cov r);
  g_wire : forall c u k, In (u, k) (wire s c) -> u < unext s;
  g_log : forall u a, In (u, a) (log s) -> u < unext s;
  g_uid : forall r, In r (pending s) -> uid r < unext s
}.

Lemma GInv_init k0 : GInv (init k0).
Proof.
  constructor; cbn; intros; try contradiction; try reflexivity.
  split; [reflexivity|]. intros r [].
Qed.

(* a step that leaves wire/log/unext alone, maps pending shape-preservingly, and only moves
   phases "forward" *)
Lemma GInv_phase_change s f :
  GInv s ->
  (forall c, pre_pool (f c) -> pre_pool (ph s c)) ->
  (forall c, next s <= c -> f c = Unborn) ->
  GInv (set_ph s f).
Proof.
  intros G Hf Hn. constructor; ssimpl.
  - exact Hn.
  - intros c Hc. apply (g_pre s G). apply Hf, Hc.
  - apply (g_wire s G).
  - apply (g_log s G).
  - apply (g_uid s G).
Qed.

Lemma resharded_pre f c : pre_pool (resharded f c) -> pre_pool (f c).
Proof. unfold resharded. destruct (f c); cbn; tauto. Qed.


Definition flying (p : phase) : Prop := match p with Opening | Setting _ => True | _ => False end.
Lemma flying_pre p : flying p -> pre_pool p.
Proof. destruct p; cbn; tauto. Qed.
Lemma flying_lt s c : GInv s -> flying (ph s c) -> c < next s.
Proof.
  intros G H. destruct (Nat.lt_ge_cases c (next s)) as [Hl|Hl]; [exact Hl|].
  rewrite (g_unborn s G c Hl) in H. contradiction.
Qed.

Lemma GInv_move s c p :
  GInv s -> flying (ph s c) -> p <> Unborn -> GInv (set_ph s (upd (ph s) c p)).
Proof.
  intros G Hc Hp. apply GInv_phase_change; [exact G| |].
  - intros x Hx. destruct (Nat.eq_dec x c) as [->|Hne].
    + apply flying_pre, Hc.
    + rewrite upd_other in Hx by exact Hne. exact Hx.
  - intros x Hx. rewrite upd_other; [apply (g_unborn s G), Hx|].
    pose proof (flying_lt s c G Hc). lia.
Qed.

Lemma GInv_accept_path s c reshard a s' :
  GInv s -> flying (ph s c) -> accept_path s c reshard a = Some s' -> GInv s'.
Proof.
  intros G Hc H. unfold accept_path in H.
  destruct (reshard && negb (is_accept a)); [discriminate|]. injection H as <-.
  pose proof (flying_lt s c G Hc) as Hlt.
  apply GInv_phase_change; [exact G| |].
  - intros x Hx. destruct (Nat.eq_dec x c) as [->|Hne].
    + apply flying_pre, Hc.
    + rewrite upd_other in Hx by exact Hne. destruct reshard; [apply resharded_pre|]; exact Hx.
  - intros x Hx. rewrite upd_other by lia.
    destruct reshard; [unfold resharded|]; rewrite (g_unborn s G x Hx); reflexivity.
Qed.

Lemma GInv_ready_path s c evks reshard a s' :
  GInv s -> flying (ph s c) -> ready_path s c evks reshard a = Some s' -> GInv s'.
Proof.
  intros G Hc H. unfold ready_path in H.
  destruct (cur s) as [k|]; [|eapply GInv_accept_path; eassumption].
  destruct (evks_differs evks k); [|eapply GInv_accept_path; eassumption].
  injection H as <-.
  pose proof (GInv_move s c (Setting k) G Hc ltac:(discriminate)) as G'.
  constructor; ssimpl.
  - apply (g_unborn _ G').
  - apply (g_pre _ G').
  - apply (g_wire _ G').
  - apply (g_log _ G').
  - apply (g_uid _ G').
Qed.

Lemma GInv_set_acked s f : GInv s -> GInv (set_acked s f).
Proof. intros G. constructor; ssimpl; apply G. Qed.

(* pending mapped by a shape-preserving function *)
Lemma GInv_map_pending s g :
  GInv s -> (forall r, same_shape r (g r)) -> GInv (set_pending s (map g (pending s))).
Proof.
  intros G Hg. constructor; ssimpl; try apply G.
  - intros c Hc. destruct (g_pre s G c Hc) as [Hw Hp]. split; [exact Hw|].
    intros r' Hr'. apply in_map_iff in Hr'. destruct Hr' as [r [<- Hr]].
    destruct (Hg r) as [_ [_ Hcov]]. rewrite Hcov. apply Hp, Hr.
  - intros r' Hr'. apply in_map_iff in Hr'. destruct Hr' as [r [<- Hr]].
    destruct (Hg r) as [Hu _]. rewrite Hu. apply (g_uid s G), Hr.
Qed.

Lemma upd_use_as_map l u f : upd_use l u f = map (fun r => if Nat.eqb (uid r) u then f r else r) l.
Proof. reflexivity. Qed.

Lemma GInv_step s l s' : GInv s -> step s l = Some s' -> GInv s'.
Proof.
  intros G H. destruct l; cbn [step] in H.
  - (* OpenStart *)
    injection H as <-. constructor; ssimpl.
    + intros c Hc. rewrite upd_other by lia. apply (g_unborn s G). lia.
    + intros c Hc. destruct (Nat.eq_dec c (next s)) as [->|Hne].
      * apply (g_pre s G). rewrite (g_unborn s G (next s)) by lia. exact I.
      * rewrite upd_other in Hc by exact Hne. apply (g_pre s G), Hc.
    + apply (g_wire s G).
    + apply (g_log s G).
    + apply (g_uid s G).
  - (* OpenReady *)
    destruct (ph s c) eqn:E; try discriminate.
    destruct ok.
    + eapply GInv_ready_path; [exact G| |exact H]. rewrite E. exact I.
    + injection H as <-. apply GInv_move; [exact G|rewrite E; exact I|discriminate].
  - (* SetKsDone *)
    destruct (ph s c) eqn:E; try discriminate.
    destruct r as [rep|].
    + destruct (alive s c); [|discriminate].
      set (s1 := match rep with RSetKeyspace n => set_acked s (upd (acked s) c (Some n)) | _ => s end) in *.
      assert (G1 : GInv s1) by (subst s1; destruct rep; try apply GInv_set_acked; exact G).
      assert (E1 : ph s1 c = Setting k) by (subst s1; destruct rep; exact E).
      destruct (verify_result k rep).
      * eapply GInv_ready_path; [exact G1| |exact H]. rewrite E1. exact I.
      * injection H as <-. apply GInv_move; [exact G1|rewrite E1; exact I|discriminate].
      * injection H as <-. apply GInv_move; [exact G1|rewrite E1; exact I|discriminate].
      * injection H as <-. apply GInv_move; [exact G1|rewrite E1; exact I|discriminate].
    + injection H as <-.
      pose proof (GInv_move s c Gone G ltac:(rewrite E; exact I) ltac:(discriminate)) as G'.
      constructor; ssimpl; apply G'.
  - (* ClearExcess *)
    injection H as <-. apply GInv_phase_change; [exact G| |].
    + intros c Hc. destruct (ph s c); cbn in *; tauto.
    + intros c Hc. rewrite (g_unborn s G c Hc). reflexivity.
  - (* UseKeyspace *)
    destruct (make_verified raw cs) as [k|e]; [|injection H as <-; exact G].
    injection H as <-. constructor; ssimpl.
    + apply (g_unborn s G).
    + intros c Hc. destruct (g_pre s G c Hc) as [Hw Hp]. split; [exact Hw|].
      intros r Hr. apply in_app_iff in Hr. destruct Hr as [Hr|[<-|[]]]; [apply Hp, Hr|].
      cbn [cov]. intros Hin. apply in_pool_conns in Hin. destruct Hin as [_ Hin].
      rewrite Hin in Hc. exact Hc.
    + intros c u k0 Hin. pose proof (g_wire s G c u k0 Hin). lia.
    + intros u a Hin. pose proof (g_log s G u a Hin). lia.
    + intros r Hr. apply in_app_iff in Hr. destruct Hr as [Hr|[<-|[]]].
      * pose proof (g_uid s G r Hr). lia.
      * cbn [uid]. lia.
  - (* UseSend *)
    destruct (find_use (pending s) u) as [r|] eqn:F; [|discriminate].
    apply find_use_some in F. destruct F as [Hr Hu].
    destruct (mem c (cov r)) eqn:M; [|discriminate]. apply mem_In in M.
    destruct (stat r c); try discriminate.
    assert (Hnp : ~ pre_pool (ph s c)).
    { intros Hp. destruct (g_pre s G c Hp) as [_ Hq]. exact (Hq r Hr M). }
    destruct (alive s c).
    + injection H as <-.
      pose proof (GInv_map_pending s (fun r0 => if Nat.eqb (uid r0) u then set_stat r0 c Sent else r0) G) as G'.
      assert (Hsh : forall r0, same_shape r0 (if Nat.eqb (uid r0) u then set_stat r0 c Sent else r0)).
      { intros r0. destruct (Nat.eqb (uid r0) u); [apply same_shape_set_stat|apply same_shape_refl]. }
      specialize (G' Hsh). constructor; ssimpl.
      * apply (g_unborn _ G').
      * intros x Hx. destruct (g_pre _ G' x Hx) as [Hw Hp]. ssimpl. split; [|exact Hp].
        destruct (Nat.eq_dec x c) as [->|Hne]; [contradiction|].
        rewrite upd_other by exact Hne. exact Hw.
      * intros x u0 k0 Hin. destruct (Nat.eq_dec x c) as [->|Hne].
        -- rewrite upd_same in Hin. apply in_app_iff in Hin. destruct Hin as [Hin|[Heq|[]]].
           ++ apply (g_wire s G c u0 k0 Hin).
           ++ injection Heq as <- _. rewrite <- Hu. apply (g_uid s G r Hr).
        -- rewrite upd_other in Hin by exact Hne. apply (g_wire s G x u0 k0 Hin).
      * apply (g_log s G).
      * apply (g_uid _ G').
    + injection H as <-.
      apply (GInv_map_pending s (fun r0 => if Nat.eqb (uid r0) u then set_stat r0 c (Done (CBroken 0)) else r0) G).
      intros r0. destruct (Nat.eqb (uid r0) u); [apply same_shape_set_stat|apply same_shape_refl].
  - (* UseAck *)
    destruct (alive s c); [|discriminate].
    destruct (wire s c) as [|[u k] rest] eqn:W; [discriminate|].
    injection H as <-.
    set (s1 := match r with RSetKeyspace n => set_acked s (upd (acked s) c (Some n)) | _ => s end) in *.
    assert (G1 : GInv s1) by (subst s1; destruct r; try apply GInv_set_acked; exact G).
    assert (W1 : wire s1 = wire s) by (subst s1; destruct r; reflexivity).
    assert (P1 : pending s1 = pending s) by (subst s1; destruct r; reflexivity).
    set (g := fun r0 : use_rec => if Nat.eqb (uid r0) u then
                 match stat r0 c with Sent => set_stat r0 c (Done match verify_result k r with VOk => COk | _ => CErr 0 end) | _ => r0 end
               else r0).
    assert (Hsh : forall r0, same_shape r0 (g r0)).
    { intros r0. unfold g. destruct (Nat.eqb (uid r0) u); [|apply same_shape_refl].
      destruct (stat r0 c); try apply same_shape_refl. apply same_shape_set_stat. }
    pose proof (GInv_map_pending s1 g G1 Hsh) as G'.
    constructor; ssimpl.
    + apply (g_unborn _ G').
    + intros x Hx. destruct (g_pre _ G' x Hx) as [Hw Hp]. ssimpl. split; [|exact Hp].
      destruct (Nat.eq_dec x c) as [->|Hne].
      * rewrite W1, W in Hw. discriminate.
      * rewrite upd_other by exact Hne. exact Hw.
    + intros x u0 k0 Hin. destruct (Nat.eq_dec x c) as [->|Hne].
      * rewrite upd_same in Hin. apply (g_wire _ G1 c u0 k0). rewrite W1, W. right. exact Hin.
      * rewrite upd_other in Hin by exact Hne. apply (g_wire _ G1 x u0 k0 Hin).
    + apply (g_log _ G1).
    + apply (g_uid _ G').
  - (* ConnBreak *)
    destruct (alive s c && (c <? next s)); [|discriminate]. injection H as <-.
    set (g := fun r : use_rec => match stat r c with Sent => set_stat r c (Done (CBroken 0)) | _ => r end).
    assert (Hsh : forall r0, same_shape r0 (g r0)).
    { intros r0. unfold g. destruct (stat r0 c); try apply same_shape_refl. apply same_shape_set_stat. }
    pose proof (GInv_map_pending s g G Hsh) as G'.
    constructor; ssimpl.
    + apply (g_unborn _ G').
    + intros x Hx. destruct (g_pre _ G' x Hx) as [Hw Hp]. ssimpl. split; [|exact Hp].
      destruct (Nat.eq_dec x c) as [->|Hne]; [apply upd_same|].
      rewrite upd_other by exact Hne. exact Hw.
    + intros x u0 k0 Hin. destruct (Nat.eq_dec x c) as [->|Hne].
      * rewrite upd_same in Hin. contradiction.
      * rewrite upd_other in Hin by exact Hne. apply (g_wire s G x u0 k0 Hin).
    + apply (g_log s G).
    + apply (g_uid _ G').
  - (* ConnError *)
    destruct (alive s c); [discriminate|].
    assert (Hlt : ph s c = InPool \/ ph s c = Excess -> c < next s).
    { intros Hp. destruct (Nat.lt_ge_cases c (next s)) as [Hl|Hl]; [exact Hl|].
      rewrite (g_unborn s G c Hl) in Hp. destruct Hp; discriminate. }
    destruct (ph s c) eqn:E; try discriminate; injection H as <-.
    + apply GInv_phase_change; [exact G| |].
      * intros x Hx. destruct (Nat.eq_dec x c) as [->|Hne]; [rewrite upd_same in Hx; contradiction|].
        rewrite upd_other in Hx by exact Hne. exact Hx.
      * intros x Hx. rewrite upd_other; [apply (g_unborn s G x Hx)|]. specialize (Hlt (or_introl eq_refl)). lia.
    + apply GInv_phase_change; [exact G| |].
      * intros x Hx. destruct (Nat.eq_dec x c) as [->|Hne]; [rewrite upd_same in Hx; contradiction|].
        rewrite upd_other in Hx by exact Hne. exact Hx.
      * intros x Hx. rewrite upd_other; [apply (g_unborn s G x Hx)|]. specialize (Hlt (or_intror eq_refl)). lia.
  - (* UseDone *)
    destruct (find_use (pending s) u) as [r|] eqn:F; [|discriminate].
    apply find_use_some in F. destruct F as [Hr Hu].
    destruct (forallb (fun c => is_done (stat r c)) (cov r) && panswer_eqb a (answer_of r)); [|discriminate].
    injection H as <-. constructor; ssimpl.
    + apply (g_unborn s G).
    + intros c Hc. destruct (g_pre s G c Hc) as [Hw Hp]. split; [exact Hw|].
      intros r0 Hr0. apply in_drop_use in Hr0. apply Hp, Hr0.
    + apply (g_wire s G).
    + intros u0 a0 Hin. apply in_app_iff in Hin. destruct Hin as [Hin|[Heq|[]]].
      * apply (g_log s G u0 a0 Hin).
      * injection Heq as <- _. rewrite <- Hu. apply (g_uid s G r Hr).
    + intros r0 Hr0. apply in_drop_use in Hr0. apply (g_uid s G), Hr0.
  - (* UseTimeout *)
    destruct (find_use (pending s) u) as [r|] eqn:F; [|discriminate].
    apply find_use_some in F. destruct F as [Hr Hu].
    destruct (cov r); [discriminate|].
    injection H as <-. constructor; ssimpl.
    + apply (g_unborn s G).
    + intros c Hc. destruct (g_pre s G c Hc) as [Hw Hp]. split; [exact Hw|].
      intros r0 Hr0. apply in_drop_use in Hr0. apply Hp, Hr0.
    + apply (g_wire s G).
    + intros u0 a0 Hin. apply in_app_iff in Hin. destruct Hin as [Hin|[Heq|[]]].
      * apply (g_log s G u0 a0 Hin).
      * injection Heq as <- _. rewrite <- Hu. apply (g_uid s G r Hr).
    + intros r0 Hr0. apply in_drop_use in Hr0. apply (g_uid s G), Hr0.
  - (* Request *)
    destruct (ph s c); try discriminate. injection H as <-. exact G.
Qed.

(* ---- every keyspace name in the system went through the validation ---------------------- *)


Definition vks (k : ks) : Prop := valid_name (fst k).

Record NInv (s : pool) : Prop := mkN {
  n_cur : forall k, cur s = Some k -> vks k;
  n_set : forall c k, ph s c = Setting k -> vks k;
  n_pend : forall r, In r (pending s) -> vks (uks r);
  n_told : forall c k, In k (told s c) -> vks k;
  n_wire : forall c u k, In (u, k) (wire s c) -> vks k
}.

Lemma NInv_init k0 : (forall k, k0 = Some k -> vks k) -> NInv (init k0).
Proof. intros H. constructor; cbn; intros; try contradiction; try discriminate. apply H. assumption. Qed.

Lemma NInv_accept_path s c reshard a s' :
  NInv s -> accept_path s c reshard a = Some s' -> NInv s'.
Proof.
  intros N H. unfold accept_path in H.
  destruct (reshard && negb (is_accept a)); [discriminate|]. injection H as <-.
  constructor; ssimpl; try apply N.
  intros x k Hx. destruct (Nat.eq_dec x c) as [->|Hne].
  - rewrite upd_same in Hx. destruct a; discriminate.
  - rewrite upd_other in Hx by exact Hne. destruct reshard.
    + unfold resharded in Hx. destruct (ph s x) eqn:E; try discriminate. injection Hx as <-. apply (n_set s N x), E.
    + apply (n_set s N x), Hx.
Qed.

Lemma NInv_ready_path s c evks reshard a s' :
  NInv s -> ready_path s c evks reshard a = Some s' -> NInv s'.
Proof.
  intros N H. unfold ready_path in H.
  destruct (cur s) as [k|] eqn:C; [|eapply NInv_accept_path; eassumption].
  destruct (evks_differs evks k); [|eapply NInv_accept_path; eassumption].
  injection H as <-. pose proof (n_cur s N k C) as Hk.
  constructor; ssimpl; try apply N.
  - intros x k0 Hx. destruct (Nat.eq_dec x c) as [->|Hne].
    + rewrite upd_same in Hx. injection Hx as <-. exact Hk.
    + rewrite upd_other in Hx by exact Hne. apply (n_set s N x), Hx.
  - intros x k0 Hx. destruct (Nat.eq_dec x c) as [->|Hne].
    + rewrite upd_same in Hx. apply in_app_iff in Hx. destruct Hx as [Hx|[<-|[]]]; [apply (n_told s N c), Hx|exact Hk].
    + rewrite upd_other in Hx by exact Hne. apply (n_told s N x), Hx.
Qed.

Lemma NInv_set_ph_gone s c : NInv s -> NInv (set_ph s (upd (ph s) c Gone)).
Proof.
  intros N. constructor; ssimpl; try apply N.
  intros x k Hx. destruct (Nat.eq_dec x c) as [->|Hne].
  - rewrite upd_same in Hx. discriminate.
  - rewrite upd_other in Hx by exact Hne. apply (n_set s N x), Hx.
Qed.

Lemma NInv_set_acked s f : NInv s -> NInv (set_acked s f).
Proof. intros N. constructor; ssimpl; apply N. Qed.

Lemma NInv_map_pending s g :
  NInv s -> (forall r, same_shape r (g r)) -> NInv (set_pending s (map g (pending s))).
Proof.
  intros N Hg. constructor; ssimpl; try apply N.
  intros r' Hr'. apply in_map_iff in Hr'. destruct Hr' as [r [<- Hr]].
  destruct (Hg r) as [_ [Hk _]]. rewrite Hk. apply (n_pend s N), Hr.
Qed.

Lemma NInv_step s l s' : NInv s -> step s l = Some s' -> NInv s'.
Proof.
  intros N H. destruct l; cbn [step] in H.
  - injection H as <-. constructor; ssimpl; try apply N.
    intros x k Hx. destruct (Nat.eq_dec x (next s)) as [->|Hne].
    + rewrite upd_same in Hx. discriminate.
    + rewrite upd_other in Hx by exact Hne. apply (n_set s N x), Hx.
  - destruct (ph s c); try discriminate. destruct ok.
    + eapply NInv_ready_path; eassumption.
    + injection H as <-. apply NInv_set_ph_gone, N.
  - destruct (ph s c) eqn:E; try discriminate. destruct r as [rep|].
    + destruct (alive s c); [|discriminate].
      set (s1 := match rep with RSetKeyspace n => set_acked s (upd (acked s) c (Some n)) | _ => s end) in *.
      assert (N1 : NInv s1) by (subst s1; destruct rep; try apply NInv_set_acked; exact N).
      destruct (verify_result k rep).
      * eapply NInv_ready_path; eassumption.
      * injection H as <-. apply NInv_set_ph_gone, N1.
      * injection H as <-. apply NInv_set_ph_gone, N1.
      * injection H as <-. apply NInv_set_ph_gone, N1.
    + injection H as <-. pose proof (NInv_set_ph_gone s c N) as N'.
      constructor; ssimpl; apply N'.
  - injection H as <-. constructor; ssimpl; try apply N.
    intros x k Hx. destruct (ph s x) eqn:E; try discriminate. injection Hx as <-. apply (n_set s N x), E.
  - destruct (make_verified raw cs) as [k|e] eqn:M; [|injection H as <-; exact N].
    apply make_verified_ok in M. destruct M as [-> Hv].
    injection H as <-. constructor; ssimpl; try apply N.
    + intros k Hk. injection Hk as <-. exact Hv.
    + intros r Hr. apply in_app_iff in Hr. destruct Hr as [Hr|[<-|[]]]; [apply (n_pend s N), Hr|exact Hv].
  - destruct (find_use (pending s) u) as [r|] eqn:F; [|discriminate].
    apply find_use_some in F. destruct F as [Hr Hu].
    destruct (mem c (cov r)); [|discriminate].
    destruct (stat r c); try discriminate.
    destruct (alive s c).
    + injection H as <-.
      assert (Hsh : forall r0, same_shape r0 (if Nat.eqb (uid r0) u then set_stat r0 c Sent else r0)).
      { intros r0. destruct (Nat.eqb (uid r0) u); [apply same_shape_set_stat|apply same_shape_refl]. }
      pose proof (NInv_map_pending s _ N Hsh) as N'.
      pose proof (n_pend s N r Hr) as Hk.
      constructor; ssimpl.
      * apply (n_cur s N).
      * apply (n_set s N).
      * apply (n_pend _ N').
      * intros x k Hx. destruct (Nat.eq_dec x c) as [->|Hne].
        -- rewrite upd_same in Hx. apply in_app_iff in Hx. destruct Hx as [Hx|[<-|[]]]; [apply (n_told s N c), Hx|exact Hk].
        -- rewrite upd_other in Hx by exact Hne. apply (n_told s N x), Hx.
      * intros x u0 k Hx. destruct (Nat.eq_dec x c) as [->|Hne].
        -- rewrite upd_same in Hx. apply in_app_iff in Hx. destruct Hx as [Hx|[Heq|[]]]; [apply (n_wire s N c u0), Hx|].
           injection Heq as _ <-. exact Hk.
        -- rewrite upd_other in Hx by exact Hne. apply (n_wire s N x u0), Hx.
    + injection H as <-. apply NInv_map_pending; [exact N|].
      intros r0. destruct (Nat.eqb (uid r0) u); [apply same_shape_set_stat|apply same_shape_refl].
  - destruct (alive s c); [|discriminate].
    destruct (wire s c) as [|[u k] rest] eqn:W; [discriminate|].
    injection H as <-.
    set (s1 := match r with RSetKeyspace n => set_acked s (upd (acked s) c (Some n)) | _ => s end) in *.
    assert (N1 : NInv s1) by (subst s1; destruct r; try apply NInv_set_acked; exact N).
    assert (W1 : wire s1 = wire s) by (subst s1; destruct r; reflexivity).
    set (g := fun r0 : use_rec => if Nat.eqb (uid r0) u then
                 match stat r0 c with Sent => set_stat r0 c (Done match verify_result k r with VOk => COk | _ => CErr 0 end) | _ => r0 end
               else r0).
    assert (Hsh : forall r0, same_shape r0 (g r0)).
    { intros r0. unfold g. destruct (Nat.eqb (uid r0) u); [|apply same_shape_refl].
      destruct (stat r0 c); try apply same_shape_refl. apply same_shape_set_stat. }
    pose proof (NInv_map_pending s1 g N1 Hsh) as N'.
    constructor; ssimpl.
    + apply (n_cur _ N1).
    + apply (n_set _ N1).
    + apply (n_pend _ N').
    + apply (n_told _ N1).
    + intros x u0 k0 Hx. destruct (Nat.eq_dec x c) as [->|Hne].
      * rewrite upd_same in Hx. apply (n_wire _ N1 c u0). rewrite W1, W. right. exact Hx.
      * rewrite upd_other in Hx by exact Hne. apply (n_wire _ N1 x u0), Hx.
  - destruct (alive s c && (c <? next s)); [|discriminate]. injection H as <-.
    set (g := fun r : use_rec => match stat r c with Sent => set_stat r c (Done (CBroken 0)) | _ => r end).
    assert (Hsh : forall r0, same_shape r0 (g r0)).
    { intros r0. unfold g. destruct (stat r0 c); try apply same_shape_refl. apply same_shape_set_stat. }
    pose proof (NInv_map_pending s g N Hsh) as N'.
    constructor; ssimpl.
    + apply (n_cur s N).
    + apply (n_set s N).
    + apply (n_pend _ N').
    + apply (n_told s N).
    + intros x u0 k0 Hx. destruct (Nat.eq_dec x c) as [->|Hne].
      * rewrite upd_same in Hx. contradiction.
      * rewrite upd_other in Hx by exact Hne. apply (n_wire s N x u0), Hx.
  - destruct (alive s c); [discriminate|].
    destruct (ph s c); try discriminate; injection H as <-; apply NInv_set_ph_gone, N.
  - destruct (find_use (pending s) u) as [r|]; [|discriminate].
    destruct (forallb (fun c => is_done (stat r c)) (cov r) && panswer_eqb a (answer_of r)); [|discriminate].
    injection H as <-. constructor; ssimpl; try apply N.
    intros r0 Hr0. apply in_drop_use in Hr0. apply (n_pend s N), Hr0.
  - destruct (find_use (pending s) u) as [r|]; [|discriminate].
    destruct (cov r); [discriminate|].
    injection H as <-. constructor; ssimpl; try apply N.
    intros r0 Hr0. apply in_drop_use in Hr0. apply (n_pend s N), Hr0.
  - destruct (ph s c); try discriminate. injection H as <-. exact N.
Qed.

(* ---- no connection is published without having been told about the current keyspace ------ *)


Definition covers_notsent (s : pool) (k : ks) (c : nat) : Prop :=
  exists r u, cur_uid s = Some u /\ In r (pending s) /\ uid r = u /\ uks r = k /\ In c (cov r) /\ stat r c = NotSent.
Definition latest_failed (s : pool) : Prop := exists u, cur_uid s = Some u /\ In (u, PAErr) (log s).

Record TInv (s : pool) : Prop := mkT {
  t_set : forall c k, ph s c = Setting k -> In k (told s c);
  t_nodup : NoDup (map uid (pending s));
  t_main : forall k c, cur s = Some k -> ph s c = InPool -> alive s c = true ->
           In k (told s c) \/ covers_notsent s k c \/ latest_failed s
}.

Lemma TInv_init k0 : TInv (init k0).
Proof. constructor; cbn; intros; try discriminate. constructor. Qed.

Lemma nodup_uid_unique l r r' :
  NoDup (map uid l) -> In r l -> In r' l -> uid r = uid r' -> r = r'.
Proof.
  induction l as [|x l IH]; intros Hn Hr Hr' He; [contradiction|].
  cbn in Hn. inversion Hn as [|? ? Hx Hn']; subst.
  destruct Hr as [<-|Hr], Hr' as [<-|Hr'].
  - reflexivity.
  - exfalso. apply Hx. rewrite He. apply in_map, Hr'.
  - exfalso. apply Hx. rewrite <- He. apply in_map, Hr.
  - apply IH; assumption.
Qed.

Lemma nodup_snoc {A} (l : list A) x : NoDup l -> ~ In x l -> NoDup (l ++ [x]).
Proof.
  intros Hn Hx. induction l as [|y l IH]; cbn.
  - constructor; [intros []|constructor].
  - inversion Hn as [|? ? Hy Hn']; subst. constructor.
    + intros Hin. apply in_app_iff in Hin. destruct Hin as [Hin|[<-|[]]]; [contradiction|].
      apply Hx. left. reflexivity.
    + apply IH; [exact Hn'|]. intros Hin. apply Hx. right. exact Hin.
Qed.

Lemma map_uid_shape l g : (forall r, same_shape r (g r)) -> map uid (map g l) = map uid l.
Proof. intros Hg. rewrite map_map. apply map_ext. intros r. apply (Hg r). Qed.

Lemma nodup_drop_use l u : NoDup (map uid l) -> NoDup (map uid (drop_use l u)).
Proof.
  induction l as [|x l IH]; intros H; [constructor|].
  cbn in H. inversion H as [|? ? Hx Hn]; subst. cbn [drop_use filter].
  destruct (negb (Nat.eqb (uid x) u)).
  - cbn [map]. constructor; [|apply IH, Hn]. intros Hin. apply Hx.
    apply in_map_iff in Hin. destruct Hin as [r [He Hr]]. apply in_drop_use in Hr.
    rewrite <- He. apply in_map, Hr.
  - apply IH, Hn.
Qed.

(* phases other than c are unchanged or become Gone; told only grows; etc.: generic preservation
   of t_main for steps that do not touch pending/cur/log and keep alive/told monotone *)
Lemma TInv_accept_path s c reshard a s' :
  TInv s -> (forall k, cur s = Some k -> In k (told s c)) ->
  accept_path s c reshard a = Some s' -> TInv s'.
Proof.
  intros T Hc H. unfold accept_path in H.
  destruct (reshard && negb (is_accept a)); [discriminate|]. injection H as <-.
  constructor; ssimpl.
  - intros x k Hx. destruct (Nat.eq_dec x c) as [->|Hne].
    + rewrite upd_same in Hx. destruct a; discriminate.
    + rewrite upd_other in Hx by exact Hne. apply (t_set s T). destruct reshard; [|exact Hx].
      unfold resharded in Hx. destruct (ph s x); try discriminate. exact Hx.
  - apply (t_nodup s T).
  - intros k x Hk Hx Ha. destruct (Nat.eq_dec x c) as [->|Hne].
    + left. apply Hc, Hk.
    + rewrite upd_other in Hx by exact Hne.
      assert (Hx' : ph s x = InPool).
      { destruct reshard; [|exact Hx]. unfold resharded in Hx. destruct (ph s x); try discriminate. }
      exact (t_main s T k x Hk Hx' Ha).
Qed.

Lemma TInv_ready_path s c evks reshard a s' :
  TInv s -> (forall k, evks = Some k -> In k (told s c)) ->
  ready_path s c evks reshard a = Some s' -> TInv s'.
Proof.
  intros T He H. unfold ready_path in H.
  destruct (cur s) as [k|] eqn:C.
  - destruct (evks_differs evks k) eqn:D.
    + injection H as <-. constructor; ssimpl.
      * intros x k0 Hx. destruct (Nat.eq_dec x c) as [->|Hne].
        -- rewrite !upd_same in *. injection Hx as <-. apply in_app_iff. right. left. reflexivity.
        -- rewrite !upd_other in * by exact Hne. apply (t_set s T x), Hx.
      * apply (t_nodup s T).
      * intros k0 x Hk Hx Ha. destruct (Nat.eq_dec x c) as [->|Hne].
        -- rewrite upd_same in Hx. discriminate.
        -- rewrite !upd_other in * by exact Hne.
           destruct (t_main s T k0 x Hk Hx Ha) as [H1|[H2|H3]]; [left; exact H1|right; left; exact H2|right; right; exact H3].
    + eapply (TInv_accept_path s c); [exact T| |exact H].
      intros k0 Hk0. rewrite Hk0 in C. injection C as <-.
      unfold evks_differs in D. destruct evks as [k'|]; [|discriminate].
      apply negb_false_iff, ks_eqb_eq in D. subst. apply He. reflexivity.
  - eapply (TInv_accept_path s c); [exact T| |exact H]. intros k0 Hk0. congruence.
Qed.

Lemma TInv_phase_gone s f :
  TInv s -> (forall x, f x = ph s x \/ f x = Gone) -> TInv (set_ph s f).
Proof.
  intros T Hf. constructor; ssimpl.
  - intros x k Hx. destruct (Hf x) as [H|H]; rewrite H in Hx; [apply (t_set s T x), Hx|discriminate].
  - apply (t_nodup s T).
  - intros k x Hk Hx Ha. destruct (Hf x) as [H|H]; rewrite H in Hx; [|discriminate].
    exact (t_main s T k x Hk Hx Ha).
Qed.

Lemma upd_gone_cases f c x : upd f c Gone x = f x \/ upd f c Gone x = Gone.
Proof. unfold upd. destruct (Nat.eqb x c); [right|left]; reflexivity. Qed.

Lemma TInv_set_acked s f : TInv s -> TInv (set_acked s f).
Proof. intros T. constructor; ssimpl; apply T. Qed.

(* pending mapped by a shape preserving g that keeps NotSent entries *)
Lemma TInv_map_pending s g :
  TInv s -> (forall r, same_shape r (g r)) ->
  (forall r c, stat r c = NotSent -> alive s c = true -> stat (g r) c = NotSent) ->
  TInv (set_pending s (map g (pending s))).
Proof.
  intros T Hg Hns. constructor; ssimpl.
  - apply (t_set s T).
  - rewrite map_uid_shape by exact Hg. apply (t_nodup s T).
  - intros k c Hk Hc Ha. destruct (t_main s T k c Hk Hc Ha) as [H1|[H2|H3]].
    + left. exact H1.
    + right. left. destruct H2 as [r [u [Hu [Hr [Hur [Hkr [Hcov Hst]]]]]]].
      exists (g r), u. destruct (Hg r) as [E1 [E2 E3]]. ssimpl.
      repeat split; try congruence.
      * apply in_map, Hr.
      * apply Hns; assumption.
    + right. right. exact H3.
Qed.

Lemma TInv_step s l s' : GInv s -> TInv s -> step s l = Some s' -> TInv s'.
Proof.
  intros G T H. destruct l; cbn [step] in H.
  - (* OpenStart *)
    injection H as <-. constructor; ssimpl.
    + intros x k Hx. destruct (Nat.eq_dec x (next s)) as [->|Hne].
      * rewrite upd_same in Hx. discriminate.
      * rewrite upd_other in Hx by exact Hne. apply (t_set s T x), Hx.
    + apply (t_nodup s T).
    + intros k x Hk Hx Ha. destruct (Nat.eq_dec x (next s)) as [->|Hne].
      * rewrite upd_same in Hx. discriminate.
      * rewrite upd_other in Hx by exact Hne. rewrite upd_other in Ha by exact Hne. exact (t_main s T k x Hk Hx Ha).
  - (* OpenReady *)
    destruct (ph s c) eqn:E; try discriminate. destruct ok.
    + eapply TInv_ready_path; [exact T| |exact H]. intros k Hk. discriminate.
    + injection H as <-. apply TInv_phase_gone; [exact T|]. intros x. apply upd_gone_cases.
  - (* SetKsDone *)
    destruct (ph s c) eqn:E; try discriminate. destruct r as [rep|].
    + destruct (alive s c); [|discriminate].
      set (s1 := match rep with RSetKeyspace n => set_acked s (upd (acked s) c (Some n)) | _ => s end) in *.
      assert (T1 : TInv s1) by (subst s1; destruct rep; try apply TInv_set_acked; exact T).
      assert (E1 : ph s1 c = Setting k) by (subst s1; destruct rep; exact E).
      destruct (verify_result k rep).
      * eapply TInv_ready_path; [exact T1| |exact H]. intros k0 Hk0. injection Hk0 as <-.
        apply (t_set _ T1 c), E1.
      * injection H as <-. apply TInv_phase_gone; [exact T1|]. intros x. apply upd_gone_cases.
      * injection H as <-. apply TInv_phase_gone; [exact T1|]. intros x. apply upd_gone_cases.
      * injection H as <-. apply TInv_phase_gone; [exact T1|]. intros x. apply upd_gone_cases.
    + injection H as <-.
      pose proof (TInv_phase_gone s (upd (ph s) c Gone) T (upd_gone_cases _ _)) as T'.
      constructor; ssimpl.
      * apply (t_set _ T').
      * apply (t_nodup _ T').
      * intros k0 x Hk Hx Ha. destruct (Nat.eq_dec x c) as [->|Hne].
        -- rewrite upd_same in Ha. discriminate.
        -- rewrite upd_other in Ha by exact Hne. exact (t_main _ T' k0 x Hk Hx Ha).
  - (* ClearExcess *)
    injection H as <-. apply TInv_phase_gone; [exact T|]. intros x. destruct (ph s x); auto.
  - (* UseKeyspace *)
    destruct (make_verified raw cs) as [k|e]; [|injection H as <-; exact T].
    injection H as <-. constructor; ssimpl.
    + apply (t_set s T).
    + rewrite map_app. cbn [map uid]. apply nodup_snoc; [apply (t_nodup s T)|].
      intros Hin. apply in_map_iff in Hin. destruct Hin as [r [He Hr]].
      pose proof (g_uid s G r Hr). lia.
    + intros k0 x Hk Hx Ha. injection Hk as <-. right. left.
      exists (mkUse (unext s) k (pool_conns s) (fun _ => NotSent)), (unext s). ssimpl.
      repeat split.
      * apply in_app_iff. right. left. reflexivity.
      * apply in_pool_conns. split; [|exact Hx].
        destruct (Nat.lt_ge_cases x (next s)) as [Hl|Hl]; [exact Hl|].
        rewrite (g_unborn s G x Hl) in Hx. discriminate.
  - (* UseSend *)
    destruct (find_use (pending s) u) as [r|] eqn:F; [|discriminate].
    apply find_use_some in F. destruct F as [Hr Hu].
    destruct (mem c (cov r)) eqn:M; [|discriminate]. apply mem_In in M.
    destruct (stat r c) eqn:St; try discriminate.
    destruct (alive s c) eqn:Al.
    + injection H as <-.
      set (g := fun r0 : use_rec => if Nat.eqb (uid r0) u then set_stat r0 c Sent else r0).
      assert (Hsh : forall r0, same_shape r0 (g r0)).
      { intros r0. unfold g. destruct (Nat.eqb (uid r0) u); [apply same_shape_set_stat|apply same_shape_refl]. }
      constructor; ssimpl.
      * intros x k Hx. pose proof (t_set s T x k Hx) as Hin.
        destruct (Nat.eq_dec x c) as [->|Hne]; [rewrite upd_same; apply in_app_iff; left; exact Hin|].
        rewrite upd_other by exact Hne. exact Hin.
      * change (upd_use (pending s) u (fun r0 => set_stat r0 c Sent)) with (map g (pending s)).
        rewrite map_uid_shape by exact Hsh. apply (t_nodup s T).
      * intros k x Hk Hx Ha. destruct (t_main s T k x Hk Hx Ha) as [H1|[H2|H3]].
        -- left. destruct (Nat.eq_dec x c) as [->|Hne]; [rewrite upd_same; apply in_app_iff; left; exact H1|].
           rewrite upd_other by exact Hne. exact H1.
        -- destruct H2 as [r2 [u2 [Hu2 [Hr2 [Hur2 [Hkr2 [Hcov2 Hst2]]]]]]].
           destruct (Nat.eq_dec x c) as [->|Hne].
           ++ destruct (Nat.eq_dec u2 u) as [->|Hneu].
              ** left. rewrite upd_same. apply in_app_iff. right. left.
                 assert (r2 = r) by (apply (nodup_uid_unique (pending s)); [apply (t_nodup s T)|assumption|assumption|congruence]).
                 subst r2. exact Hkr2.
              ** right. left. exists (g r2), u2. destruct (Hsh r2) as [E1 [E2 E3]]. ssimpl.
                 repeat split; try congruence.
                 --- change (upd_use (pending s) u (fun r0 => set_stat r0 c Sent)) with (map g (pending s)). apply in_map, Hr2.
                 --- unfold g. destruct (Nat.eqb (uid r2) u) eqn:Eq; [apply Nat.eqb_eq in Eq; congruence|exact Hst2].
           ++ right. left. exists (g r2), u2. destruct (Hsh r2) as [E1 [E2 E3]]. ssimpl.
              repeat split; try congruence.
              ** change (upd_use (pending s) u (fun r0 => set_stat r0 c Sent)) with (map g (pending s)). apply in_map, Hr2.
              ** unfold g. destruct (Nat.eqb (uid r2) u); [|exact Hst2]. ssimpl. rewrite upd_other by exact Hne. exact Hst2.
        -- right. right. exact H3.
    + injection H as <-.
      set (g := fun r0 : use_rec => if Nat.eqb (uid r0) u then set_stat r0 c (Done (CBroken 0)) else r0).
      change (upd_use (pending s) u (fun r0 => set_stat r0 c (Done (CBroken 0)))) with (map g (pending s)).
      apply TInv_map_pending; [exact T| |].
      * intros r0. unfold g. destruct (Nat.eqb (uid r0) u); [apply same_shape_set_stat|apply same_shape_refl].
      * intros r0 x Hst Hax. unfold g. destruct (Nat.eqb (uid r0) u); [|exact Hst]. ssimpl.
        destruct (Nat.eq_dec x c) as [->|Hne]; [congruence|]. rewrite upd_other by exact Hne. exact Hst.
  - (* UseAck *)
    destruct (alive s c); [|discriminate].
    destruct (wire s c) as [|[u k] rest] eqn:W; [discriminate|].
    injection H as <-.
    set (s1 := match r with RSetKeyspace n => set_acked s (upd (acked s) c (Some n)) | _ => s end) in *.
    assert (T1 : TInv s1) by (subst s1; destruct r; try apply TInv_set_acked; exact T).
    assert (A1 : alive s1 = alive s) by (subst s1; destruct r; reflexivity).
    set (g := fun r0 : use_rec => if Nat.eqb (uid r0) u then
                 match stat r0 c with Sent => set_stat r0 c (Done match verify_result k r with VOk => COk | _ => CErr 0 end) | _ => r0 end
               else r0).
    assert (T' : TInv (set_pending s1 (map g (pending s1)))).
    { apply TInv_map_pending; [exact T1| |].
      - intros r0. unfold g. destruct (Nat.eqb (uid r0) u); [|apply same_shape_refl].
        destruct (stat r0 c); try apply same_shape_refl. apply same_shape_set_stat.
      - intros r0 x Hst _. unfold g. destruct (Nat.eqb (uid r0) u); [|exact Hst].
        destruct (stat r0 c) eqn:S0; try exact Hst. ssimpl.
        destruct (Nat.eq_dec x c) as [->|Hne]; [congruence|]. rewrite upd_other by exact Hne. exact Hst. }
    constructor; ssimpl.
    + apply (t_set _ T').
    + apply (t_nodup _ T').
    + apply (t_main _ T').
  - (* ConnBreak *)
    destruct (alive s c && (c <? next s)); [|discriminate]. injection H as <-.
    set (g := fun r : use_rec => match stat r c with Sent => set_stat r c (Done (CBroken 0)) | _ => r end).
    assert (T' : TInv (set_pending s (map g (pending s)))).
    { apply TInv_map_pending; [exact T| |].
      - intros r0. unfold g. destruct (stat r0 c); try apply same_shape_refl. apply same_shape_set_stat.
      - intros r0 x Hst _. unfold g. destruct (stat r0 c) eqn:S0; try exact Hst. ssimpl.
        destruct (Nat.eq_dec x c) as [->|Hne]; [congruence|]. rewrite upd_other by exact Hne. exact Hst. }
    constructor; ssimpl.
    + apply (t_set _ T').
    + apply (t_nodup _ T').
    + intros k0 x Hk Hx Ha. destruct (Nat.eq_dec x c) as [->|Hne].
      * rewrite upd_same in Ha. discriminate.
      * rewrite upd_other in Ha by exact Hne. exact (t_main _ T' k0 x Hk Hx Ha).
  - (* ConnError *)
    destruct (alive s c); [discriminate|].
    destruct (ph s c); try discriminate; injection H as <-;
      (apply TInv_phase_gone; [exact T|]; intros x; apply upd_gone_cases).
  - (* UseDone *)
    destruct (find_use (pending s) u) as [r|] eqn:F; [|discriminate].
    apply find_use_some in F. destruct F as [Hr Hu].
    destruct (forallb (fun c => is_done (stat r c)) (cov r)) eqn:Fd; [|discriminate].
    destruct (panswer_eqb a (answer_of r)); [|discriminate].
    injection H as <-. constructor; ssimpl.
    + apply (t_set s T).
    + apply nodup_drop_use, (t_nodup s T).
    + intros k x Hk Hx Ha. destruct (t_main s T k x Hk Hx Ha) as [H1|[H2|H3]].
      * left. exact H1.
      * destruct H2 as [r2 [u2 [Hu2 [Hr2 [Hur2 [Hkr2 [Hcov2 Hst2]]]]]]].
        destruct (Nat.eq_dec u2 u) as [->|Hneu].
        -- exfalso.
           assert (r2 = r) by (apply (nodup_uid_unique (pending s)); [apply (t_nodup s T)|assumption|assumption|congruence]).
           subst r2. rewrite forallb_forall in Fd. specialize (Fd x Hcov2). rewrite Hst2 in Fd. discriminate.
        -- right. left. exists r2, u2. ssimpl. repeat split; try assumption.
           apply in_drop_use. split; [exact Hr2|congruence].
      * right. right. destruct H3 as [u3 [Hu3 Hl3]]. exists u3. split; [exact Hu3|]. apply in_app_iff. left. exact Hl3.
  - (* UseTimeout *)
    destruct (find_use (pending s) u) as [r|] eqn:F; [|discriminate].
    apply find_use_some in F. destruct F as [Hr Hu].
    destruct (cov r); [discriminate|].
    injection H as <-. constructor; ssimpl.
    + apply (t_set s T).
    + apply nodup_drop_use, (t_nodup s T).
    + intros k x Hk Hx Ha. destruct (t_main s T k x Hk Hx Ha) as [H1|[H2|H3]].
      * left. exact H1.
      * destruct H2 as [r2 [u2 [Hu2 [Hr2 [Hur2 [Hkr2 [Hcov2 Hst2]]]]]]].
        destruct (Nat.eq_dec u2 u) as [->|Hneu].
        -- right. right. exists u. split; [exact Hu2|]. apply in_app_iff. right. left. reflexivity.
        -- right. left. exists r2, u2. ssimpl. repeat split; try assumption.
           apply in_drop_use. split; [exact Hr2|congruence].
      * right. right. destruct H3 as [u3 [Hu3 Hl3]]. exists u3. split; [exact Hu3|]. apply in_app_iff. left. exact Hl3.
  - (* Request *)
    destruct (ph s c); try discriminate. injection H as <-. exact T.
Qed.

(* ---- after a successful, undisturbed use: every live pool connection is in the keyspace ---- *)


Definition conn_ok (w : list (nat * ks)) (ack : option name) (k : ks) (u : nat) (r : use_rec) (c : nat) : Prop :=
  let good := w = [] /\ (match ack with Some n => eq_ci n (fst k) | None => false end) = true in
  if mem c (cov r) then
    match stat r c with
    | NotSent => forall f, In f w -> fst f <> u
    | Sent => exists zs, w = zs ++ [(u, k)] /\ forall f, In f zs -> fst f <> u
    | Done COk => good
    | Done (CBroken _) => False
    | Done (CErr _) => True
    end
  else good.

Definition conn_good (s : pool) (k : ks) (u : nat) (c : nat) : Prop :=
  match pending s with
  | [] => wire s c = [] /\ matchesb s c k = true
  | [r] => conn_ok (wire s c) (acked s c) k u r c
  | _ => False
  end.

Record QInv (k : ks) (u : nat) (s : pool) : Prop := mkQ {
  q_cur : cur s = Some k;
  q_pend : pending s = [] \/
           exists r, pending s = [r] /\ uid r = u /\ uks r = k /\
                     (forall c, In c (cov r) -> ph s c = InPool \/ ph s c = Gone) /\
                     (forall a, ~ In (u, a) (log s));
  q_conn : forall c, ph s c = InPool -> alive s c = true -> conn_good s k u c
}.

Definition failed (u : nat) (s : pool) : Prop :=
  pending s = [] /\ (In (u, PAErr) (log s) /\ forall a, In (u, a) (log s) -> a = PAErr).

Definition settled (k : ks) (s : pool) : Prop :=
  cur s = Some k /\ pending s = [] /\
  forall c, ph s c = InPool -> alive s c = true -> wire s c = [] /\ matchesb s c k = true.

Lemma conn_good_ext s s' k u c :
  wire s' c = wire s c -> acked s' c = acked s c -> pending s' = pending s ->
  conn_good s k u c -> conn_good s' k u c.
Proof.
  unfold conn_good, matchesb. intros -> -> ->. tauto.
Qed.

(* a step that only changes phases (towards InPool only for [c0], whose goodness is given) *)
Lemma QInv_phases s f k u :
  QInv k u s ->
  (forall c, f c = InPool -> ph s c = InPool \/ (alive s c = true -> conn_good s k u c)) ->
  (forall c, ph s c = InPool \/ ph s c = Gone -> f c = InPool \/ f c = Gone) ->
  QInv k u (set_ph s f).
Proof.
  intros Q Hin Hcov. constructor; ssimpl.
  - apply (q_cur k u s Q).
  - destruct (q_pend k u s Q) as [H|[r [H1 [H2 [H3 [H4 H5]]]]]]; [left; exact H|right].
    exists r. repeat split; try assumption. intros c Hc. apply Hcov, H4, Hc.
  - intros c Hc Ha. destruct (Hin c Hc) as [H|H].
    + apply (conn_good_ext s); try reflexivity. apply (q_conn k u s Q c H Ha).
    + apply (conn_good_ext s); try reflexivity. apply H, Ha.
Qed.

Lemma QInv_accept_path s c reshard a s' k u :
  GInv s -> QInv k u s -> flying (ph s c) ->
  (alive s c = true -> matchesb s c k = true) ->
  accept_path s c reshard a = Some s' -> QInv k u s'.
Proof.
  intros G Q Hf Hm H. unfold accept_path in H.
  destruct (reshard && negb (is_accept a)); [discriminate|]. injection H as <-.
  destruct (g_pre s G c (flying_pre _ Hf)) as [Hw Hnc].
  apply QInv_phases; [exact Q| |].
  - intros x Hx. destruct (Nat.eq_dec x c) as [->|Hne].
    + right. intros Ha. unfold conn_good.
      destruct (q_pend k u s Q) as [Hp|[r [Hp _]]]; rewrite Hp.
      * split; [exact Hw|apply Hm, Ha].
      * unfold conn_ok. destruct (mem c (cov r)) eqn:M.
        -- exfalso. apply mem_In in M. apply (Hnc r); [rewrite Hp; left; reflexivity|exact M].
        -- split; [exact Hw|]. specialize (Hm Ha). unfold matchesb in Hm. exact Hm.
    + rewrite upd_other in Hx by exact Hne. left. destruct reshard; [|exact Hx].
      unfold resharded in Hx. destruct (ph s x); try discriminate.
  - intros x Hx. destruct (Nat.eq_dec x c) as [->|Hne].
    + destruct Hx as [Hx|Hx]; rewrite Hx in Hf; contradiction.
    + rewrite upd_other by exact Hne. destruct reshard.
      * unfold resharded. destruct Hx as [Hx|Hx]; rewrite Hx; right; reflexivity.
      * exact Hx.
Qed.

Lemma QInv_set_told s f k u : QInv k u s -> QInv k u (set_told s f).
Proof.
  intros Q. constructor; ssimpl; [apply (q_cur k u s Q)|apply (q_pend k u s Q)|].
  intros c Hc Ha. apply (conn_good_ext s); try reflexivity. apply (q_conn k u s Q c Hc Ha).
Qed.

Lemma QInv_move s c p k u :
  QInv k u s -> flying (ph s c) -> p <> InPool -> QInv k u (set_ph s (upd (ph s) c p)).
Proof.
  intros Q Hf Hp. apply QInv_phases; [exact Q| |].
  - intros x Hx. destruct (Nat.eq_dec x c) as [->|Hne].
    + rewrite upd_same in Hx. contradiction.
    + rewrite upd_other in Hx by exact Hne. left. exact Hx.
  - intros x Hx. destruct (Nat.eq_dec x c) as [->|Hne].
    + destruct Hx as [Hx|Hx]; rewrite Hx in Hf; contradiction.
    + rewrite upd_other by exact Hne. exact Hx.
Qed.

Lemma QInv_ready_path s c evks reshard a s' k u :
  GInv s -> QInv k u s -> flying (ph s c) ->
  (evks = Some k -> alive s c = true -> matchesb s c k = true) ->
  ready_path s c evks reshard a = Some s' -> QInv k u s'.
Proof.
  intros G Q Hf Hm H. unfold ready_path in H. rewrite (q_cur k u s Q) in H.
  destruct (evks_differs evks k) eqn:D.
  - injection H as <-. apply QInv_set_told. apply QInv_move; [exact Q|exact Hf|discriminate].
  - eapply QInv_accept_path; [exact G|exact Q|exact Hf| |exact H].
    apply Hm. unfold evks_differs in D. destruct evks as [k'|]; [|discriminate].
    apply negb_false_iff, ks_eqb_eq in D. subst. reflexivity.
Qed.

(* set_acked on a connection that is not in the pool *)
Lemma QInv_set_acked s c v k u : QInv k u s -> ph s c <> InPool -> QInv k u (set_acked s (upd (acked s) c v)).
Proof.
  intros Q Hc. constructor; ssimpl; [apply (q_cur k u s Q)|apply (q_pend k u s Q)|].
  intros x Hx Ha. apply (conn_good_ext s); try reflexivity.
  - ssimpl. rewrite upd_other; [reflexivity|]. intros ->. contradiction.
  - apply (q_conn k u s Q x Hx Ha).
Qed.

Lemma find_use_single r u r' : find_use [r] u = Some r' -> r' = r /\ uid r = u.
Proof.
  unfold find_use. cbn [find]. destruct (Nat.eqb (uid r) u) eqn:E; [|discriminate].
  intros H. injection H as <-. apply Nat.eqb_eq in E. split; [reflexivity|exact E].
Qed.

Lemma failed_step u s l s' : failed u s -> is_use l = false -> step s l = Some s' -> failed u s'.
Proof.
  intros [Hp Hl] Hu H. unfold failed. destruct l; cbn [step is_use] in H, Hu; try discriminate.
  - injection H as <-. ssimpl. split; assumption.
  - destruct (ph s c); try discriminate. destruct ok.
    + unfold ready_path, accept_path in H.
      destruct (cur s) as [k|].
      * destruct (evks_differs None k); [injection H as <-; ssimpl; split; assumption|].
        destruct (reshard && negb (is_accept a)); [discriminate|]. injection H as <-. ssimpl. split; assumption.
      * destruct (reshard && negb (is_accept a)); [discriminate|]. injection H as <-. ssimpl. split; assumption.
    + injection H as <-. ssimpl. split; assumption.
  - destruct (ph s c); try discriminate. destruct r as [rep|].
    + destruct (alive s c); [|discriminate].
      set (s1 := match rep with RSetKeyspace n => set_acked s (upd (acked s) c (Some n)) | _ => s end) in *.
      assert (P1 : pending s1 = pending s) by (subst s1; destruct rep; reflexivity).
      assert (L1 : log s1 = log s) by (subst s1; destruct rep; reflexivity).
      destruct (verify_result k rep).
      * unfold ready_path, accept_path in H.
        destruct (cur s1) as [k'|].
        -- destruct (evks_differs (Some k) k'); [injection H as <-; ssimpl; rewrite P1, L1; split; assumption|].
           destruct (reshard && negb (is_accept a)); [discriminate|]. injection H as <-. ssimpl. rewrite P1, L1. split; assumption.
        -- destruct (reshard && negb (is_accept a)); [discriminate|]. injection H as <-. ssimpl. rewrite P1, L1. split; assumption.
      * injection H as <-. ssimpl. rewrite P1, L1. split; assumption.
      * injection H as <-. ssimpl. rewrite P1, L1. split; assumption.
      * injection H as <-. ssimpl. rewrite P1, L1. split; assumption.
    + injection H as <-. ssimpl. split; assumption.
  - injection H as <-. ssimpl. split; assumption.
  - rewrite Hp in H. discriminate.
  - destruct (alive s c); [|discriminate]. destruct (wire s c) as [|[u0 k0] rest]; [discriminate|].
    injection H as <-. ssimpl.
    assert (P1 : pending (match r with RSetKeyspace n => set_acked s (upd (acked s) c (Some n)) | _ => s end) = pending s) by (destruct r; reflexivity).
    assert (L1 : log (match r with RSetKeyspace n => set_acked s (upd (acked s) c (Some n)) | _ => s end) = log s) by (destruct r; reflexivity).
    rewrite P1, L1, Hp. split; [reflexivity|exact Hl].
  - destruct (alive s c && (c <? next s)); [|discriminate]. injection H as <-. ssimpl. rewrite Hp. split; [reflexivity|exact Hl].
  - destruct (alive s c); [discriminate|]. destruct (ph s c); try discriminate; injection H as <-; ssimpl; split; assumption.
  - rewrite Hp in H. discriminate.
  - rewrite Hp in H. discriminate.
  - destruct (ph s c); try discriminate. injection H as <-. split; assumption.
Qed.

Lemma matchesb_of_verify s c n k :
  verify_result k (RSetKeyspace n) = VOk -> acked s c = Some n -> matchesb s c k = true.
Proof.
  cbn [verify_result]. intros H E. unfold matchesb. rewrite E.
  destruct (eq_ci n (fst k)); [reflexivity|discriminate].
Qed.

Lemma answer_noerr_all r :
  cov r <> [] -> answer_of r <> PAErr ->
  forall c, In c (cov r) -> is_err (outcome (stat r c)) = false.
Proof.
  intros Hne Ha c Hc. unfold answer_of in Ha.
  destruct (cov r) as [|c0 l] eqn:E; [contradiction|]. rewrite <- E in *.
  assert (Hall : forallb (fun x => negb (is_err x)) (map (fun c => outcome (stat r c)) (cov r)) = true).
  { apply use_keyspace_result_noerr. intros t Ht. rewrite Ht in Ha. apply Ha. reflexivity. }
  rewrite forallb_forall in Hall. specialize (Hall (outcome (stat r c))).
  apply negb_true_iff. apply Hall. apply in_map_iff. exists c. split; [reflexivity|exact Hc].
Qed.

Lemma QInv_step k u s l s' :
  GInv s -> QInv k u s -> is_use l = false -> step s l = Some s' -> QInv k u s' \/ failed u s'.
Proof.
  intros G Q Hu H. destruct l; cbn [step is_use] in H, Hu; try discriminate.
  - (* OpenStart *)
    left. injection H as <-.
    assert (Q' : QInv k u (set_ph s (upd (ph s) (next s) Opening))).
    { apply QInv_phases; [exact Q| |].
      - intros x Hx. destruct (Nat.eq_dec x (next s)) as [->|Hne].
        + rewrite upd_same in Hx. discriminate.
        + rewrite upd_other in Hx by exact Hne. left. exact Hx.
      - intros x Hx. destruct (Nat.eq_dec x (next s)) as [->|Hne].
        + rewrite (g_unborn s G (next s)) in Hx by lia. destruct Hx; discriminate.
        + rewrite upd_other by exact Hne. exact Hx. }
    constructor; ssimpl; [apply (q_cur _ _ _ Q')|apply (q_pend _ _ _ Q')|].
    intros c Hc Ha. destruct (Nat.eq_dec c (next s)) as [->|Hne].
    + rewrite upd_same in Hc. discriminate.
    + rewrite upd_other in Ha by exact Hne.
      apply (conn_good_ext (set_ph s (upd (ph s) (next s) Opening))); try reflexivity.
      apply (q_conn _ _ _ Q' c Hc Ha).
  - (* OpenReady *)
    left. destruct (ph s c) eqn:E; try discriminate. destruct ok.
    + eapply QInv_ready_path; [exact G|exact Q|rewrite E; exact I| |exact H]. intros; discriminate.
    + injection H as <-. apply QInv_move; [exact Q|rewrite E; exact I|discriminate].
  - (* SetKsDone *)
    left. destruct (ph s c) eqn:E; try discriminate. destruct r as [rep|].
    + destruct (alive s c) eqn:Al; [|discriminate].
      set (s1 := match rep with RSetKeyspace n => set_acked s (upd (acked s) c (Some n)) | _ => s end) in *.
      assert (Hnp : ph s c <> InPool) by (rewrite E; discriminate).
      assert (G1 : GInv s1) by (subst s1; destruct rep; try apply GInv_set_acked; exact G).
      assert (Q1 : QInv k u s1) by (subst s1; destruct rep; try apply QInv_set_acked; assumption).
      assert (E1 : ph s1 c = Setting k0) by (subst s1; destruct rep; exact E).
      destruct (verify_result k0 rep) eqn:V.
      * eapply QInv_ready_path; [exact G1|exact Q1|rewrite E1; exact I| |exact H].
        intros Hk _. injection Hk as ->. destruct rep as [n| |]; try discriminate.
        apply (matchesb_of_verify s1 c n k V). subst s1. ssimpl. apply upd_same.
      * injection H as <-. apply QInv_move; [exact Q1|rewrite E1; exact I|discriminate].
      * injection H as <-. apply QInv_move; [exact Q1|rewrite E1; exact I|discriminate].
      * injection H as <-. apply QInv_move; [exact Q1|rewrite E1; exact I|discriminate].
    + injection H as <-.
      pose proof (QInv_move s c Gone k u Q ltac:(rewrite E; exact I) ltac:(discriminate)) as Q'.
      constructor; ssimpl; [apply (q_cur _ _ _ Q')|apply (q_pend _ _ _ Q')|].
      intros x Hx Ha. destruct (Nat.eq_dec x c) as [->|Hne].
      * rewrite upd_same in Ha. discriminate.
      * rewrite upd_other in Ha by exact Hne.
        apply (conn_good_ext (set_ph s (upd (ph s) c Gone))); try reflexivity.
        apply (q_conn _ _ _ Q' x Hx Ha).
  - (* ClearExcess *)
    left. injection H as <-. apply QInv_phases; [exact Q| |].
    + intros x Hx. left. destruct (ph s x); try discriminate. reflexivity.
    + intros x [Hx|Hx]; rewrite Hx; [left|right]; reflexivity.
  - (* UseSend *)
    left. destruct (q_pend k u s Q) as [Hp|[r [Hp [Hur [Hkr [Hcov Hlog]]]]]]; [rewrite Hp in H; discriminate|].
    rewrite Hp in H. destruct (find_use [r] u0) as [r'|] eqn:F; [|discriminate].
    apply find_use_single in F. destruct F as [-> Hu0]. assert (Eu : u0 = u) by congruence. clear Hu0. subst u0.
    destruct (mem c (cov r)) eqn:M; [|discriminate].
    destruct (stat r c) eqn:St; try discriminate.
    assert (Hupd : forall v, upd_use [r] u (fun r0 => set_stat r0 c v) = [set_stat r c v]).
    { intros v. unfold upd_use. cbn [map]. rewrite Hur, Nat.eqb_refl. reflexivity. }
    destruct (alive s c) eqn:Al; injection H as <-; cbn [upd_use map]; rewrite ?Hur, Nat.eqb_refl.
    + constructor; ssimpl; [apply (q_cur _ _ _ Q)| |].
      * right. exists (set_stat r c Sent). ssimpl. repeat split; try assumption.
      * intros x Hx Ha. pose proof (q_conn k u s Q x Hx Ha) as Hg. unfold conn_good in *. rewrite Hp in Hg. ssimpl.
        unfold conn_ok in *. ssimpl. destruct (Nat.eq_dec x c) as [->|Hne].
        -- rewrite !upd_same. rewrite M in *. rewrite St in Hg. rewrite Hkr.
           exists (wire s c). split; [reflexivity|exact Hg].
        -- rewrite !upd_other by exact Hne. exact Hg.
    + constructor; ssimpl; [apply (q_cur _ _ _ Q)| |].
      * right. exists (set_stat r c (Done (CBroken 0))). ssimpl. repeat split; try assumption.
      * intros x Hx Ha. pose proof (q_conn k u s Q x Hx Ha) as Hg. unfold conn_good in *. rewrite Hp in Hg. ssimpl.
        unfold conn_ok in *. ssimpl. destruct (Nat.eq_dec x c) as [->|Hne]; [congruence|].
        rewrite !upd_other by exact Hne. exact Hg.
  - (* UseAck *)
    left. destruct (alive s c) eqn:Al; [|discriminate].
    destruct (wire s c) as [|[u0 k0] rest] eqn:W; [discriminate|].
    injection H as <-.
    set (s1 := match r with RSetKeyspace n => set_acked s (upd (acked s) c (Some n)) | _ => s end) in *.
    assert (C1 : cur s1 = cur s) by (subst s1; destruct r; reflexivity).
    assert (P1 : pending s1 = pending s) by (subst s1; destruct r; reflexivity).
    assert (L1 : log s1 = log s) by (subst s1; destruct r; reflexivity).
    assert (W1 : wire s1 = wire s) by (subst s1; destruct r; reflexivity).
    assert (H1 : ph s1 = ph s) by (subst s1; destruct r; reflexivity).
    assert (A1 : alive s1 = alive s) by (subst s1; destruct r; reflexivity).
    assert (K1 : forall x, x <> c -> acked s1 x = acked s x).
    { intros x Hne. subst s1. destruct r; try reflexivity. ssimpl. apply upd_other, Hne. }
    destruct (q_pend k u s Q) as [Hp|[r0 [Hp [Hur [Hkr [Hcov Hlog]]]]]].
    + (* settled: c cannot be a live pool connection *)
      constructor; ssimpl; rewrite ?C1, ?P1, ?L1, ?H1, ?A1, ?W1, ?Hp; [apply (q_cur _ _ _ Q)|left; reflexivity|].
      cbn [upd_use map]. intros x Hx Ha. pose proof (q_conn k u s Q x Hx Ha) as Hg.
      unfold conn_good in *. ssimpl. rewrite Hp in Hg. rewrite ?P1, ?Hp. cbn [upd_use map].
      destruct (Nat.eq_dec x c) as [->|Hne]; [destruct Hg as [Hg _]; congruence|].
      rewrite upd_other by exact Hne. unfold matchesb in *. ssimpl. rewrite K1 by exact Hne. exact Hg.
    + set (res := match verify_result k0 r with VOk => COk | _ => CErr 0 end) in *.
      set (f := fun r1 : use_rec => match stat r1 c with Sent => set_stat r1 c (Done res) | _ => r1 end).
      set (r0' := if Nat.eqb (uid r0) u0 then f r0 else r0).
      assert (Hupd : upd_use (pending s1) u0 f = [r0']) by (rewrite P1, Hp; reflexivity).
      assert (Hsh : same_shape r0 r0').
      { subst r0' f. cbn beta. destruct (Nat.eqb (uid r0) u0); [|apply same_shape_refl].
        destruct (stat r0 c); try apply same_shape_refl. apply same_shape_set_stat. }
      destruct Hsh as [S1 [S2 S3]].
      constructor; ssimpl; rewrite ?C1, ?L1, ?H1, ?A1, ?W1; [apply (q_cur _ _ _ Q)| |].
      * right. exists r0'. rewrite Hupd. repeat split; try congruence; [rewrite S3; exact Hcov|exact Hlog].
      * intros x Hx Ha. pose proof (q_conn k u s Q x Hx Ha) as Hg.
        unfold conn_good in *. ssimpl. rewrite Hp in Hg. rewrite Hupd.
        unfold conn_ok in *. rewrite S3.
        destruct (Nat.eq_dec x c) as [->|Hne].
        -- rewrite upd_same. rewrite W in Hg.
           destruct (mem c (cov r0)) eqn:M; [|destruct Hg as [Hg _]; discriminate].
           destruct (stat r0 c) eqn:St.
           ++ (* NotSent: the answered frame is a stale one *)
              assert (Hne0 : u0 <> u) by (apply (Hg (u0, k0)); left; reflexivity).
              subst r0'. destruct (Nat.eqb (uid r0) u0) eqn:Eq; [apply Nat.eqb_eq in Eq; congruence|].
              rewrite St. intros f0 Hf0. apply Hg. right. exact Hf0.
           ++ destruct Hg as [zs [Hz Hzs]]. destruct zs as [|z zs].
              ** cbn [app] in Hz. injection Hz as Eu Ek Er. subst u0 k0 rest.
                 subst r0'. rewrite Hur, Nat.eqb_refl. subst f. cbn beta. rewrite St. ssimpl. rewrite upd_same.
                 subst res. destruct (verify_result k r) eqn:V; try exact I.
                 split; [reflexivity|]. destruct r as [n| |]; try discriminate.
                 subst s1. ssimpl. rewrite upd_same. cbn [verify_result] in V.
                 destruct (eq_ci n (fst k)); [reflexivity|discriminate].
              ** cbn [app] in Hz. injection Hz as Ez Er. subst z rest.
                 assert (Hne0 : u0 <> u) by (apply (Hzs (u0, k0)); left; reflexivity).
                 subst r0'. destruct (Nat.eqb (uid r0) u0) eqn:Eq; [apply Nat.eqb_eq in Eq; congruence|].
                 rewrite St. exists zs. split; [reflexivity|]. intros f0 Hf0. apply Hzs. right. exact Hf0.
           ++ assert (Hst' : stat r0' c = Done r1).
              { subst r0' f. cbn beta. destruct (Nat.eqb (uid r0) u0); [rewrite St|]; exact St. }
              rewrite Hst'. destruct r1; try exact Hg. destruct Hg as [Hg _]. discriminate.
        -- rewrite upd_other by exact Hne. rewrite K1 by exact Hne.
           assert (Hst' : stat r0' x = stat r0 x).
           { subst r0' f. cbn beta. destruct (Nat.eqb (uid r0) u0); [|reflexivity].
             destruct (stat r0 c); try reflexivity. ssimpl. apply upd_other, Hne. }
           rewrite Hst'. exact Hg.
  - (* ConnBreak *)
    left. destruct (alive s c && (c <? next s)); [|discriminate]. injection H as <-.
    set (g := fun r : use_rec => match stat r c with Sent => set_stat r c (Done (CBroken 0)) | _ => r end).
    assert (Hsh : forall r0, same_shape r0 (g r0)).
    { intros r0. unfold g. destruct (stat r0 c); try apply same_shape_refl. apply same_shape_set_stat. }
    constructor; ssimpl; [apply (q_cur _ _ _ Q)| |].
    + destruct (q_pend k u s Q) as [Hp|[r0 [Hp [Hur [Hkr [Hcov Hlog]]]]]]; [left; rewrite Hp; reflexivity|right].
      exists (g r0). rewrite Hp. destruct (Hsh r0) as [S1 [S2 S3]].
      repeat split; try congruence; [rewrite S3; exact Hcov|exact Hlog].
    + intros x Hx Ha. destruct (Nat.eq_dec x c) as [->|Hne]; [rewrite upd_same in Ha; discriminate|].
      rewrite upd_other in Ha by exact Hne. pose proof (q_conn k u s Q x Hx Ha) as Hg.
      unfold conn_good in *. ssimpl. rewrite upd_other by exact Hne.
      destruct (q_pend k u s Q) as [Hp|[r0 [Hp _]]]; rewrite Hp in *; cbn [map]; [exact Hg|].
      unfold conn_ok in *. destruct (Hsh r0) as [S1 [S2 S3]]. rewrite S3.
      assert (Hst' : stat (g r0) x = stat r0 x).
      { unfold g. destruct (stat r0 c); try reflexivity. ssimpl. apply upd_other, Hne. }
      rewrite Hst'. exact Hg.
  - (* ConnError *)
    left. destruct (alive s c); [discriminate|].
    assert (Hgo : ph s c = InPool \/ ph s c = Excess -> QInv k u (set_ph s (upd (ph s) c Gone))).
    { intros Hc. apply QInv_phases; [exact Q| |].
      - intros x Hx. destruct (Nat.eq_dec x c) as [->|Hne]; [rewrite upd_same in Hx; discriminate|].
        rewrite upd_other in Hx by exact Hne. left. exact Hx.
      - intros x Hx. destruct (Nat.eq_dec x c) as [->|Hne]; [rewrite upd_same; right; reflexivity|].
        rewrite upd_other by exact Hne. exact Hx. }
    destruct (ph s c); try discriminate; injection H as <-; apply Hgo; auto.
  - (* UseDone *)
    destruct (q_pend k u s Q) as [Hp|[r [Hp [Hur [Hkr [Hcov Hlog]]]]]]; [rewrite Hp in H; discriminate|].
    rewrite Hp in H. destruct (find_use [r] u0) as [r'|] eqn:F; [|discriminate].
    apply find_use_single in F. destruct F as [-> Hu0]. assert (Eu : u0 = u) by congruence. clear Hu0. subst u0.
    destruct (forallb (fun c => is_done (stat r c)) (cov r)) eqn:Fd; [|discriminate].
    destruct (panswer_eqb a (answer_of r)) eqn:Pa; [|discriminate].
    injection H as <-.
    assert (Hdrop : drop_use [r] u = []).
    { unfold drop_use. cbn [filter]. rewrite Hur, Nat.eqb_refl. reflexivity. }
    assert (Ha : a = answer_of r) by (destruct a, (answer_of r); try discriminate; reflexivity).
    destruct (answer_of r) eqn:An.
    + left. constructor; ssimpl; rewrite ?Hdrop, ?Hur, ?Nat.eqb_refl; cbn [negb]; [apply (q_cur _ _ _ Q)|left; reflexivity|].
      intros x Hx Hal. pose proof (q_conn k u s Q x Hx Hal) as Hg. unfold conn_good in *. rewrite Hp in Hg.
      ssimpl. rewrite ?Hdrop, ?Hur, ?Nat.eqb_refl; cbn [negb]. unfold matchesb. unfold conn_ok in Hg.
      destruct (mem x (cov r)) eqn:M; [|exact Hg]. apply mem_In in M.
      rewrite forallb_forall in Fd. specialize (Fd x M).
      assert (Hne : cov r <> []) by (intros E; rewrite E in M; contradiction).
      pose proof (answer_noerr_all r Hne ltac:(rewrite An; discriminate) x M) as Hno.
      destruct (stat r x) as [| |[|t|t]]; try discriminate; try contradiction. exact Hg.
    + left. constructor; ssimpl; rewrite ?Hdrop, ?Hur, ?Nat.eqb_refl; cbn [negb]; [apply (q_cur _ _ _ Q)|left; reflexivity|].
      intros x Hx Hal. pose proof (q_conn k u s Q x Hx Hal) as Hg. unfold conn_good in *. rewrite Hp in Hg.
      ssimpl. rewrite ?Hdrop, ?Hur, ?Nat.eqb_refl; cbn [negb]. unfold matchesb. unfold conn_ok in Hg.
      destruct (mem x (cov r)) eqn:M; [|exact Hg]. apply mem_In in M.
      rewrite forallb_forall in Fd. specialize (Fd x M).
      assert (Hne : cov r <> []) by (intros E; rewrite E in M; contradiction).
      pose proof (answer_noerr_all r Hne ltac:(rewrite An; discriminate) x M) as Hno.
      destruct (stat r x) as [| |[|t|t]]; try discriminate; try contradiction. exact Hg.
    + right. split; ssimpl; rewrite ?Hdrop, ?Hur, ?Nat.eqb_refl; cbn [negb]; [reflexivity|]. split.
      * apply in_app_iff. right. left. rewrite Ha. reflexivity.
      * intros a0 Hin. apply in_app_iff in Hin.
        destruct Hin as [Hin|[Heq|[]]]; [exfalso; exact (Hlog a0 Hin)|]. injection Heq as <-. exact Ha.
  - (* UseTimeout *)
    right. destruct (q_pend k u s Q) as [Hp|[r [Hp [Hur [Hkr [Hcov Hlog]]]]]]; [rewrite Hp in H; discriminate|].
    rewrite Hp in H. destruct (find_use [r] u0) as [r'|] eqn:F; [|discriminate].
    apply find_use_single in F. destruct F as [-> Hu0]. assert (Eu : u0 = u) by congruence. clear Hu0. subst u0.
    destruct (cov r); [discriminate|]. injection H as <-.
    split; ssimpl.
    + unfold drop_use. cbn [filter]. rewrite ?Hur, ?Nat.eqb_refl. reflexivity.
    + split; [apply in_app_iff; right; left; reflexivity|]. intros a0 Hin. apply in_app_iff in Hin.
      destruct Hin as [Hin|[Heq|[]]]; [exfalso; exact (Hlog a0 Hin)|]. injection Heq as <-. reflexivity.
  - (* Request *)
    left. destruct (ph s c); try discriminate. injection H as <-. exact Q.
Qed.


(* ---- runs ---------------------------------------------------------------------------------- *)

Lemma run_inv (P : pool -> Prop) (okl : label -> bool) :
  (forall s l s', P s -> okl l = true -> step s l = Some s' -> P s') ->
  forall ls s s', forallb okl ls = true -> P s -> run s ls = Some s' -> P s'.
Proof.
  intros Hstep ls. induction ls as [|l r IH]; intros s s' Hok Hp Hr; cbn [run] in Hr.
  - injection Hr as <-. exact Hp.
  - cbn [forallb] in Hok. apply andb_true_iff in Hok. destruct Hok as [Hl Hok].
    destruct (step s l) as [s1|] eqn:E; [|discriminate].
    apply (IH s1 s' Hok); [|exact Hr]. eapply Hstep; eassumption.
Qed.

Lemma GInv_reachable k0 s : reachable k0 s -> GInv s.
Proof.
  intros [ls Hr]. apply (run_inv GInv (fun _ => true)) with (ls := ls) (s := init k0).
  - intros s0 l s1 G _ H. eapply GInv_step; eassumption.
  - apply forallb_forall. reflexivity.
  - apply GInv_init.
  - exact Hr.
Qed.

Lemma GQ_run k u ls s s' :
  no_use ls = true -> GInv s -> (QInv k u s \/ failed u s) -> run s ls = Some s' ->
  GInv s' /\ (QInv k u s' \/ failed u s').
Proof.
  intros Hn G Q Hr.
  apply (run_inv (fun s => GInv s /\ (QInv k u s \/ failed u s)) (fun l => negb (is_use l)))
    with (ls := ls) (s := s); [|exact Hn|split; assumption|exact Hr].
  intros s0 l s1 [G0 Q0] Hl H. apply negb_true_iff in Hl. split; [eapply GInv_step; eassumption|].
  destruct Q0 as [Q0|F0]; [eapply QInv_step; eassumption|right; eapply failed_step; eassumption].
Qed.

Lemma QInv_after_use s raw cs s' :
  GInv s -> pending s = [] -> valid_name raw -> step s (UseKeyspace raw cs) = Some s' ->
  QInv (raw, cs) (unext s) s'.
Proof.
  intros G Hp Hv H. cbn [step] in H.
  assert (M : make_verified raw cs = Ok (raw, cs)) by (apply make_verified_ok; split; [reflexivity|exact Hv]).
  rewrite M in H. injection H as <-. rewrite Hp. cbn [app].
  constructor; ssimpl.
  - reflexivity.
  - right. eexists. split; [reflexivity|]. ssimpl. repeat split.
    + intros c Hc. apply in_pool_conns in Hc. left. apply Hc.
    + intros a Hin. pose proof (g_log s G _ _ Hin). lia.
  - intros c Hc Ha. unfold conn_good. ssimpl. unfold conn_ok. ssimpl.
    assert (Hin : In c (pool_conns s)).
    { apply in_pool_conns. split; [|exact Hc].
      destruct (Nat.lt_ge_cases c (next s)) as [Hl|Hl]; [exact Hl|].
      rewrite (g_unborn s G c Hl) in Hc. discriminate. }
    apply mem_In in Hin. rewrite Hin. intros [u0 k0] Hf. cbn [fst].
    pose proof (g_wire s G c u0 k0 Hf). lia.
Qed.

Lemma after_success k0 ls1 s1 raw cs s2 ls2 s3 a c :
  run (init k0) ls1 = Some s1 -> pending s1 = [] ->
  valid_name raw -> step s1 (UseKeyspace raw cs) = Some s2 ->
  no_use ls2 = true -> run s2 ls2 = Some s3 ->
  In (unext s1, a) (log s3) -> a <> PAErr ->
  ph s3 c = InPool -> alive s3 c = true ->
  wire s3 c = [] /\ matchesb s3 c (raw, cs) = true.
Proof.
  intros R1 Hp Hv S Hn R2 Hlog Ha Hc Hal.
  assert (G1 : GInv s1) by (apply (GInv_reachable k0); exists ls1; exact R1).
  assert (G2 : GInv s2) by (eapply GInv_step; eassumption).
  pose proof (QInv_after_use s1 raw cs s2 G1 Hp Hv S) as Q2.
  destruct (GQ_run (raw, cs) (unext s1) ls2 s2 s3 Hn G2 (or_introl Q2) R2) as [G3 [Q3|F3]].
  - destruct (q_pend _ _ _ Q3) as [Hp3|[r [_ [_ [_ [_ Hl]]]]]]; [|exfalso; exact (Hl a Hlog)].
    pose proof (q_conn _ _ _ Q3 c Hc Hal) as Hg. unfold conn_good in Hg. rewrite Hp3 in Hg. exact Hg.
  - destruct F3 as [_ [_ F3]]. exfalso. apply Ha. apply F3. exact Hlog.
Qed.

Lemma fresh_pool k ls s c :
  no_use ls = true -> run (init (Some k)) ls = Some s ->
  ph s c = InPool -> alive s c = true ->
  wire s c = [] /\ matchesb s c k = true.
Proof.
  intros Hn R Hc Hal.
  assert (Q0 : QInv k 0 (init (Some k))).
  { constructor; cbn; [reflexivity|left; reflexivity|intros; discriminate]. }
  assert (Hnil : pending s = [] /\ log s = []).
  { apply (run_inv (fun s => pending s = [] /\ log s = []) (fun l => negb (is_use l)))
      with (ls := ls) (s := init (Some k)); [|exact Hn|split; reflexivity|exact R].
    intros s0 l s1 [P0 L0] Hl H. apply negb_true_iff in Hl.
    assert (F : failed 0 s1 \/ True) by (right; exact I).
    clear F. destruct l; cbn [step is_use] in H, Hl; try discriminate.
    - injection H as <-. split; assumption.
    - destruct (ph s0 c0); try discriminate. destruct ok.
      + unfold ready_path, accept_path in H. destruct (cur s0) as [k1|].
        * destruct (evks_differs None k1); [injection H as <-; split; assumption|].
          destruct (reshard && negb (is_accept a)); [discriminate|]. injection H as <-. split; assumption.
        * destruct (reshard && negb (is_accept a)); [discriminate|]. injection H as <-. split; assumption.
      + injection H as <-. split; assumption.
    - destruct (ph s0 c0); try discriminate. destruct r as [rep|].
      + destruct (alive s0 c0); [|discriminate].
        set (s1' := match rep with RSetKeyspace n => set_acked s0 (upd (acked s0) c0 (Some n)) | _ => s0 end) in *.
        assert (P1 : pending s1' = pending s0) by (subst s1'; destruct rep; reflexivity).
        assert (L1 : log s1' = log s0) by (subst s1'; destruct rep; reflexivity).
        destruct (verify_result k0 rep).
        * unfold ready_path, accept_path in H. destruct (cur s1') as [k1|].
          -- destruct (evks_differs (Some k0) k1); [injection H as <-; ssimpl; rewrite P1, L1; split; assumption|].
             destruct (reshard && negb (is_accept a)); [discriminate|]. injection H as <-. ssimpl. rewrite P1, L1. split; assumption.
          -- destruct (reshard && negb (is_accept a)); [discriminate|]. injection H as <-. ssimpl. rewrite P1, L1. split; assumption.
        * injection H as <-. ssimpl. rewrite P1, L1. split; assumption.
        * injection H as <-. ssimpl. rewrite P1, L1. split; assumption.
        * injection H as <-. ssimpl. rewrite P1, L1. split; assumption.
      + injection H as <-. split; assumption.
    - injection H as <-. split; assumption.
    - rewrite P0 in H. discriminate.
    - destruct (alive s0 c0); [|discriminate]. destruct (wire s0 c0) as [|[u0 k1] rest]; [discriminate|].
      injection H as <-. ssimpl.
      assert (P1 : pending (match r with RSetKeyspace n => set_acked s0 (upd (acked s0) c0 (Some n)) | _ => s0 end) = pending s0) by (destruct r; reflexivity).
      assert (L1 : log (match r with RSetKeyspace n => set_acked s0 (upd (acked s0) c0 (Some n)) | _ => s0 end) = log s0) by (destruct r; reflexivity).
      rewrite P1, L1, P0. split; [reflexivity|exact L0].
    - destruct (alive s0 c0 && (c0 <? next s0)); [|discriminate]. injection H as <-. ssimpl. rewrite P0. split; [reflexivity|exact L0].
    - destruct (alive s0 c0); [discriminate|]. destruct (ph s0 c0); try discriminate; injection H as <-; split; assumption.
    - rewrite P0 in H. discriminate.
    - rewrite P0 in H. discriminate.
    - destruct (ph s0 c0); try discriminate. injection H as <-. split; assumption. }
  destruct (GQ_run k 0 ls (init (Some k)) s Hn (GInv_init _) (or_introl Q0) R) as [G [Q|F]].
  - pose proof (q_conn _ _ _ Q c Hc Hal) as Hg. unfold conn_good in Hg.
    destruct Hnil as [Hp _]. rewrite Hp in Hg. exact Hg.
  - destruct F as [_ [F _]]. destruct Hnil as [_ Hl]. rewrite Hl in F. contradiction.
Qed.

(* ====================================================================================== *)
(* 3. cluster worker and trace acceptor                                                   *)
(* ====================================================================================== *)


(* ---- cluster worker ---------------------------------------------------------------------- *)

Definition WInv (w : worker) : Prop :=
  (forall n, In n (nodes w) -> n < nnext w) /\
  match used w with
  | None => fans w = [] /\ forall n, In n (nodes w) -> born w n = None
  | Some k => exists pre u t, fans w = pre ++ [(u, k, t)] /\
                              forall n, In n (nodes w) -> In n t \/ born w n = Some k
  end.

Lemma WInv_init n0 : WInv (winit n0).
Proof.
  split; cbn.
  - intros n Hn. apply in_seq in Hn. lia.
  - split; [reflexivity|]. intros; reflexivity.
Qed.

Lemma mem_false c l : mem c l = false <-> ~ In c l.
Proof.
  split.
  - intros H Hin. apply mem_In in Hin. congruence.
  - intros H. destruct (mem c l) eqn:E; [|reflexivity]. apply mem_In in E. contradiction.
Qed.

Lemma WInv_step w l : WInv w -> WInv (wstep w l).
Proof.
  intros [Hlt Hu]. destruct l as [k|keep nnew]; cbn [wstep].
  - split; cbn; [exact Hlt|].
    exists (fans w), (List.length (fans w)), (nodes w). split; [reflexivity|]. intros n Hn. left. exact Hn.
  - split; cbn [nodes nnext used born fans].
    + intros n Hn. apply in_app_iff in Hn. destruct Hn as [Hn|Hn].
      * apply filter_In in Hn. destruct Hn as [Hn _]. specialize (Hlt n Hn). lia.
      * apply in_seq in Hn. lia.
    + assert (Hold : forall n, In n (nodes w) -> mem n (seq (nnext w) nnew) = false).
      { intros n Hn. apply mem_false. intros Hin. apply in_seq in Hin. specialize (Hlt n Hn). lia. }
      destruct (used w) as [k|].
      * destruct Hu as [pre [u [t [Hf Hn]]]]. exists pre, u, t. split; [exact Hf|].
        intros n Hin. apply in_app_iff in Hin. destruct Hin as [Hin|Hin].
        -- apply filter_In in Hin. destruct Hin as [Hin _]. rewrite (Hold n Hin). apply Hn, Hin.
        -- right. apply mem_In in Hin. rewrite Hin. reflexivity.
      * destruct Hu as [Hf Hn]. split; [exact Hf|].
        intros n Hin. apply in_app_iff in Hin. destruct Hin as [Hin|Hin].
        -- apply filter_In in Hin. destruct Hin as [Hin _]. rewrite (Hold n Hin). apply Hn, Hin.
        -- apply mem_In in Hin. rewrite Hin. reflexivity.
Qed.

Lemma WInv_run ls w : WInv w -> WInv (wrun w ls).
Proof.
  revert w. induction ls as [|l r IH]; intros w H; cbn [wrun fold_left]; [exact H|].
  apply IH. apply WInv_step, H.
Qed.

Lemma new_nodes n0 ls k :
  used (wrun (winit n0) ls) = Some k ->
  exists pre u t, fans (wrun (winit n0) ls) = pre ++ [(u, k, t)] /\
    forall n, In n (nodes (wrun (winit n0) ls)) -> In n t \/ born (wrun (winit n0) ls) n = Some k.
Proof.
  intros Hu. destruct (WInv_run ls (winit n0) (WInv_init n0)) as [_ H]. rewrite Hu in H. exact H.
Qed.

(* ---- trace acceptor --------------------------------------------------------------------------- *)

Lemma acc_run_app a t1 t2 :
  acc_run a (t1 ++ t2) = match acc_run a t1 with Some a' => acc_run a' t2 | None => None end.
Proof.
  revert a. induction t1 as [|e r IH]; intros a; cbn [app acc_run]; [reflexivity|].
  destruct (acc_step a e); [apply IH|reflexivity].
Qed.

Lemma oname_eqb_eq a b : oname_eqb a b = true <-> a = b.
Proof.
  destruct a as [x|], b as [y|]; cbn [oname_eqb]; try (split; [discriminate|discriminate]); try (split; reflexivity).
  rewrite name_eqb_eq. split; [intros ->; reflexivity|intros H; injection H as ->; reflexivity].
Qed.

(* the ids in flight are the pending calls *)
Lemma inflight_pending t : forall a a' p,
  acc_run a t = Some a' -> map fst (inflight a) = p ->
  map fst (inflight a') = pending_calls t p.
Proof.
  induction t as [|e r IH]; intros a a' p Hr Hp; cbn [acc_run pending_calls] in *.
  - injection Hr as <-. exact Hp.
  - destruct (acc_step a e) as [a1|] eqn:E; [|discriminate].
    destruct e as [u k|u ok|q|q x]; cbn [acc_step] in E.
    + injection E as <-. apply (IH _ _ _ Hr). cbn [inflight map fst]. rewrite map_map. cbn [fst]. 
      f_equal. rewrite <- Hp. apply map_ext. intros; reflexivity.
    + destruct (lookup_u u (inflight a)) as [[k clean]|]; [|discriminate].
      assert (Hf : map fst (filter (fun x => negb (Nat.eqb (fst x) u)) (inflight a)) =
                   filter (fun x => negb (Nat.eqb x u)) p).
      { rewrite <- Hp. clear. induction (inflight a) as [|y l IHl]; [reflexivity|].
        cbn [filter map]. destruct (negb (Nat.eqb (fst y) u)); cbn [map]; rewrite IHl; reflexivity. }
      destruct (ok && clean); injection E as <-; apply (IH _ _ _ Hr); exact Hf.
    + injection E as <-. apply (IH _ _ _ Hr). exact Hp.
    + destruct (lookup_q q (open a)); [|discriminate]. destruct (omem x l); [|discriminate].
      injection E as <-. apply (IH _ _ _ Hr). exact Hp.
Qed.

(* no call is in flight and none starts: nothing changes but the open requests *)
Lemma quiet_run t : forall a a',
  no_call t = true -> inflight a = [] -> acc_run a t = Some a' ->
  base a' = base a /\ inflight a' = [].
Proof.
  induction t as [|e r IH]; intros a a' Hn Hi Hr; cbn [acc_run no_call forallb] in *.
  - injection Hr as <-. split; [reflexivity|exact Hi].
  - apply andb_true_iff in Hn. destruct Hn as [He Hn].
    destruct (acc_step a e) as [a1|] eqn:E; [|discriminate].
    destruct e as [u k|u ok|q|q x]; cbn [acc_step is_call negb] in *; try discriminate.
    + rewrite Hi in E. discriminate.
    + injection E as <-. refine (IH _ a' Hn _ Hr). exact Hi.
    + destruct (lookup_q q (open a)); [|discriminate]. destruct (omem x l); [|discriminate].
      injection E as <-. apply (IH _ _ Hn Hi Hr).
Qed.

(* one clean call is in flight, none starts, and the call returns successfully at the end *)
Lemma clean_run t : forall a u k (b : bool),
  no_call t = true -> inflight a = [(u, (k, true))] ->
  forall a', acc_run a (t ++ [ERet u true]) = Some a' ->
  base a' = [Some (canon k)] /\ inflight a' = [].
Proof.
  induction t as [|e r IH]; intros a u k b Hn Hi a' Hr.
  - cbn [app acc_run acc_step] in Hr. rewrite Hi in Hr. cbn [lookup_u] in Hr. rewrite Nat.eqb_refl in Hr.
    cbn [andb filter fst negb] in Hr. rewrite Nat.eqb_refl in Hr. cbn [negb] in Hr. injection Hr as <-.
    split; reflexivity.
  - cbn [no_call forallb] in Hn. apply andb_true_iff in Hn. destruct Hn as [He Hn].
    cbn [app acc_run] in Hr. destruct (acc_step a e) as [a1|] eqn:E; [|discriminate].
    destruct e as [u' k'|u' ok|q|q x]; cbn [acc_step is_call negb] in *; try discriminate.
    + rewrite Hi in E. cbn [lookup_u] in E. destruct (Nat.eqb u' u) eqn:Eq; [|discriminate].
      apply Nat.eqb_eq in Eq. subst u'.
      (* the call returned already: the final return is rejected *)
      exfalso. cbn [filter fst] in E. rewrite Nat.eqb_refl in E. cbn [negb] in E.
      assert (Hi1 : inflight a1 = []) by (destruct (ok && true); injection E as <-; reflexivity).
      rewrite acc_run_app in Hr. destruct (acc_run a1 r) as [a2|] eqn:R; [|discriminate].
      destruct (quiet_run r a1 a2 Hn Hi1 R) as [_ Hi2].
      cbn [acc_run acc_step] in Hr. rewrite Hi2 in Hr. discriminate.
    + injection E as <-. refine (IH _ u k b Hn _ a' Hr). exact Hi.
    + destruct (lookup_q q (open a)); [|discriminate]. destruct (omem x l); [|discriminate].
      injection E as <-. apply (IH _ u k b Hn Hi a' Hr).
Qed.

(* the allowed set of an open request does not change while no call starts and it is not restarted *)
Lemma open_run t q : forall a a' al,
  no_call t = true -> forallb (fun e => negb (starts q e)) t = true ->
  lookup_q q (open a) = Some al -> acc_run a t = Some a' ->
  lookup_q q (open a') = Some al.
Proof.
  induction t as [|e r IH]; intros a a' al Hn Hs Hl Hr; cbn [acc_run no_call forallb] in *.
  - injection Hr as <-. exact Hl.
  - apply andb_true_iff in Hn. destruct Hn as [He Hn]. apply andb_true_iff in Hs. destruct Hs as [Hse Hs].
    destruct (acc_step a e) as [a1|] eqn:E; [|discriminate].
    destruct e as [u k|u ok|q' |q' x]; cbn [acc_step is_call negb starts] in *; try discriminate.
    + destruct (lookup_u u (inflight a)) as [[k clean]|]; [|discriminate].
      destruct (ok && clean); injection E as <-; (refine (IH _ a' al Hn Hs _ Hr); exact Hl).
    + injection E as <-. refine (IH _ a' al Hn Hs _ Hr). cbn [open lookup_q].
      apply negb_true_iff in Hse. rewrite Hse. exact Hl.
    + destruct (lookup_q q' (open a)); [|discriminate]. destruct (omem x l); [|discriminate].
      injection E as <-. apply (IH _ _ _ Hn Hs Hl Hr).
Qed.

Lemma accept_sound k0 t1 u k t2 t3 q t4 x t5 :
  accept_trace k0 (t1 ++ ECall u k :: t2 ++ ERet u true :: t3 ++ EStart q :: t4 ++ EFrame q x :: t5) = true ->
  pending_calls t1 [] = [] ->
  no_call t2 = true -> no_call t3 = true -> no_call t4 = true ->
  forallb (fun e => negb (starts q e)) t4 = true ->
  x = Some (canon k).
Proof.
  unfold accept_trace. intros H Hp H2 H3 H4 Hq.
  rewrite acc_run_app in H. destruct (acc_run (acc_init k0) t1) as [a1|] eqn:R1; [|discriminate].
  assert (Hi1 : inflight a1 = []).
  { pose proof (inflight_pending t1 _ _ [] R1 eq_refl) as Hm. rewrite Hp in Hm.
    destruct (inflight a1); [reflexivity|discriminate]. }
  cbn [acc_run acc_step] in H. rewrite Hi1 in H. cbn [map] in H.
  set (a2 := mkAcc (Some (canon k) :: base a1) [(u, (k, true))]
                   (map (fun qa => (fst qa, Some (canon k) :: snd qa)) (open a1)) [Some (canon k)] true) in *.
  change (t2 ++ ERet u true :: t3 ++ EStart q :: t4 ++ EFrame q x :: t5)
    with (t2 ++ [ERet u true] ++ (t3 ++ EStart q :: t4 ++ EFrame q x :: t5)) in H.
  rewrite app_assoc, acc_run_app in H.
  destruct (acc_run a2 (t2 ++ [ERet u true])) as [a3|] eqn:R2; [|discriminate].
  destruct (clean_run t2 a2 u k true H2 eq_refl a3 R2) as [Hb3 Hi3].
  rewrite acc_run_app in H. destruct (acc_run a3 t3) as [a4|] eqn:R3; [|discriminate].
  destruct (quiet_run t3 a3 a4 H3 Hi3 R3) as [Hb4 Hi4].
  cbn [acc_run acc_step] in H.
  set (a5 := mkAcc (base a4) (inflight a4) ((q, base a4) :: open a4) (group a4) (gok a4)) in *.
  rewrite acc_run_app in H. destruct (acc_run a5 t4) as [a6|] eqn:R4; [|discriminate].
  assert (Hl : lookup_q q (open a6) = Some [Some (canon k)]).
  { apply (open_run t4 q a5 a6 _ H4 Hq); [|exact R4]. subst a5. cbn [open lookup_q].
    rewrite Nat.eqb_refl. rewrite Hb4, Hb3. reflexivity. }
  cbn [acc_run acc_step] in H. rewrite Hl in H. cbn [omem existsb] in H.
  destruct (oname_eqb x (Some (canon k))) eqn:E; [apply oname_eqb_eq in E; exact E|].
  cbn [orb] in H. discriminate.
Qed.

(* ====================================================================================== *)
(* 4. the statements used by Props/C20.v                                                  *)
(* ====================================================================================== *)

Lemma statement_ok k : valid_name (fst k) ->
  parse_use (use_statement k) = Some k /\
  forall c, In c (use_statement k) -> In c alphabet \/ c = 32%N \/ c = dquote.
Proof. intros H. split; [exact (parse_use_statement k H)|intros c; exact (use_statement_chars k c H)]. Qed.

Lemma GT_reachable k0 s : reachable k0 s -> GInv s /\ TInv s.
Proof.
  intros [ls Hr]. apply (run_inv (fun s => GInv s /\ TInv s) (fun _ => true)) with (ls := ls) (s := init k0).
  - intros s0 l s1 [G T] _ H. split; [eapply GInv_step; eassumption|eapply TInv_step; eassumption].
  - apply forallb_forall. reflexivity.
  - split; [apply GInv_init|apply TInv_init].
  - exact Hr.
Qed.

Lemma N_reachable k0 s : (forall k, k0 = Some k -> valid_name (fst k)) -> reachable k0 s -> NInv s.
Proof.
  intros Hk [ls Hr]. apply (run_inv NInv (fun _ => true)) with (ls := ls) (s := init k0).
  - intros s0 l s1 N _ H. eapply NInv_step; eassumption.
  - apply forallb_forall. reflexivity.
  - apply NInv_init. exact Hk.
  - exact Hr.
Qed.

(* no live connection is visible to requests without having been told about the current keyspace *)
Lemma pool_inv k0 s k c :
  reachable k0 s -> cur s = Some k -> ph s c = InPool -> alive s c = true ->
  In k (told s c) \/
  (exists r u, cur_uid s = Some u /\ In r (pending s) /\ uid r = u /\ uks r = k /\
               In c (cov r) /\ stat r c = NotSent) \/
  (exists u, cur_uid s = Some u /\ In (u, PAErr) (log s)).
Proof. intros R. destruct (GT_reachable k0 s R) as [_ T]. apply (t_main s T). Qed.

(* a connection on which the keyspace is being set has been sent that USE and is not visible *)
Lemma setting_told k0 s k c : reachable k0 s -> ph s c = Setting k -> In k (told s c).
Proof. intros R. destruct (GT_reachable k0 s R) as [_ T]. apply (t_set s T). Qed.

(* everything ever sent is the statement of a valid name *)
Lemma told_valid k0 s k c :
  (forall k, k0 = Some k -> valid_name (fst k)) -> reachable k0 s ->
  In k (told s c) -> valid_name (fst k) /\ parse_use (use_statement k) = Some k.
Proof.
  intros Hk R Hin. pose proof (n_told s (N_reachable k0 s Hk R) c k Hin) as Hv.
  split; [exact Hv|apply parse_use_statement, Hv].
Qed.

(* an invalid name changes nothing: no statement is built, nothing is sent *)
Lemma use_rejected s raw cs : ~ valid_name raw -> step s (UseKeyspace raw cs) = Some s.
Proof.
  intros H. cbn [step]. unfold make_verified. destruct (verify_name raw) as [[]|e] eqn:E; [|reflexivity].
  apply verify_name_ok_iff in E. contradiction.
Qed.

(* Session::use_keyspace returns Ok only if every node (and, inside a node, every connection)
   answered Ok or with a broken-connection error - the two pool answers C20_after_success covers *)
Lemma aggregate_ok_each l :
  use_keyspace_result l = AOk -> forall x, In x l -> x = COk \/ exists t, x = CBroken t.
Proof.
  intros H x Hx. apply use_keyspace_result_ok in H. destruct H as [_ H].
  rewrite forallb_forall in H. specialize (H x Hx). destruct x as [|t|t]; [left; reflexivity|right; exists t; reflexivity|discriminate].
Qed.

(* the pool's answer is an error other than "broken connection" exactly when some covered
   connection reported such an error *)
Lemma answer_of_err r :
  answer_of r = PAErr <-> exists c, In c (cov r) /\ is_err (outcome (stat r c)) = true.
Proof.
  unfold answer_of. destruct (cov r) as [|c0 l] eqn:E.
  - split; [discriminate|]. intros [c [[] _]].
  - rewrite <- E.
    destruct (use_keyspace_result (map (fun c => outcome (stat r c)) (cov r))) eqn:U.
    + split; [discriminate|]. intros [c [Hc He]]. apply use_keyspace_result_ok in U. destruct U as [_ U].
      rewrite forallb_forall in U. specialize (U (outcome (stat r c))).
      rewrite He in U. cbn in U. assert (false = true); [|discriminate]. apply U.
      apply in_map_iff. exists c. split; [reflexivity|exact Hc].
    + split; [discriminate|]. intros [c [Hc He]].
      assert (Hn : forall t, use_keyspace_result (map (fun c => outcome (stat r c)) (cov r)) <> AErr t) by (intros t; rewrite U; discriminate).
      apply use_keyspace_result_noerr in Hn. rewrite forallb_forall in Hn. specialize (Hn (outcome (stat r c))).
      rewrite He in Hn. cbn in Hn. assert (false = true); [|discriminate]. apply Hn.
      apply in_map_iff. exists c. split; [reflexivity|exact Hc].
    + split; [intros _|reflexivity]. apply use_keyspace_result_err in U. destruct U as [l1 [l2 [Hl _]]].
      assert (Hin : In (CErr tag) (map (fun c => outcome (stat r c)) (cov r))) by (rewrite Hl; apply in_app_iff; right; left; reflexivity).
      apply in_map_iff in Hin. destruct Hin as [c [Hc Hin]]. exists c. split; [exact Hin|]. rewrite Hc. reflexivity.
    + apply use_keyspace_result_panic in U. rewrite E in U. discriminate.
Qed.

(* ---- the trace property predicate vs the acceptor ---------------------------------------- *)


Record RInv (p : pv) (a : acc) : Prop := mkR {
  r_pend : map fst (inflight a) = pv_pend p;
  r_cand : forall u k, pv_cand p = Some (u, k) -> inflight a = [(u, (k, true))];
  r_est : forall k, pv_est p = Some k -> base a = [Some (canon k)] /\ inflight a = [];
  r_open : forall q k, pv_lookup q (pv_open p) = Some k -> lookup_q q (open a) = Some [Some (canon k)]
}.

Lemma pv_lookup_filter q q' l :
  pv_lookup q (filter (fun x => negb (Nat.eqb (fst x) q')) l) =
  if Nat.eqb q q' then None else pv_lookup q l.
Proof.
  induction l as [|[q0 k0] r IH]; cbn [filter pv_lookup fst].
  - destruct (Nat.eqb q q'); reflexivity.
  - destruct (Nat.eqb q0 q') eqn:E0; cbn [negb pv_lookup].
    + apply Nat.eqb_eq in E0. subst q0. rewrite IH. destruct (Nat.eqb q q'); reflexivity.
    + rewrite IH. destruct (Nat.eqb q q0) eqn:E1; [|reflexivity].
      apply Nat.eqb_eq in E1. subst q0. rewrite E0. reflexivity.
Qed.

Lemma lookup_q_map q n l :
  lookup_q q (map (fun qa : nat * list (option name) => (fst qa, n :: snd qa)) l) =
  option_map (cons n) (lookup_q q l).
Proof.
  induction l as [|[q0 al] r IH]; cbn [map lookup_q fst snd]; [reflexivity|].
  destruct (Nat.eqb q q0); [reflexivity|exact IH].
Qed.

Lemma RInv_step p a e p' :
  RInv p a -> pv_step p e = Some p' ->
  match acc_step a e with Some a' => RInv p' a' | None => True end.
Proof.
  intros R H. destruct e as [u k|u ok|q|q x]; cbn [pv_step acc_step] in *.
  - injection H as <-. constructor; cbn [pv_pend pv_cand pv_est pv_open inflight base open].
    + cbn [map fst]. rewrite map_map. cbn [fst]. f_equal. rewrite <- (r_pend p a R). apply map_ext. reflexivity.
    + intros u0 k0 Hc. pose proof (r_pend p a R) as Hp.
      destruct (pv_pend p) eqn:E; [|discriminate]. injection Hc as <- <-.
      destruct (inflight a); [reflexivity|discriminate].
    + discriminate.
    + intros q k0 Hq. discriminate.
  - destruct (lookup_u u (inflight a)) as [[k clean]|] eqn:L; [|exact I].
    assert (Hf : map fst (filter (fun x : nat * (ks * bool) => negb (Nat.eqb (fst x) u)) (inflight a)) =
                 filter (fun x => negb (Nat.eqb x u)) (pv_pend p)).
    { rewrite <- (r_pend p a R). clear. induction (inflight a) as [|y l IHl]; [reflexivity|].
      cbn [filter map]. destruct (negb (Nat.eqb (fst y) u)); cbn [map]; rewrite IHl; reflexivity. }
    destruct (pv_cand p) as [[u' k']|] eqn:C.
    + pose proof (r_cand p a R u' k' C) as Hi. rewrite Hi in L. cbn [lookup_u] in L.
      destruct (Nat.eqb u u') eqn:E; [|discriminate]. apply Nat.eqb_eq in E. subst u'.
      injection L as <- <-. rewrite Nat.eqb_refl in H. injection H as <-.
      assert (Hrest : filter (fun x : nat * (ks * bool) => negb (Nat.eqb (fst x) u)) (inflight a) = []).
      { rewrite Hi. cbn [filter fst]. rewrite Nat.eqb_refl. reflexivity. }
      destruct ok; cbn [andb].
      * constructor; cbn [pv_pend pv_cand pv_est pv_open inflight base open].
        -- exact Hf.
        -- discriminate.
        -- intros k0 Hk. injection Hk as <-. split; [reflexivity|exact Hrest].
        -- apply (r_open p a R).
      * constructor; cbn [pv_pend pv_cand pv_est pv_open inflight base open].
        -- exact Hf.
        -- discriminate.
        -- discriminate.
        -- apply (r_open p a R).
    + injection H as <-.
      assert (He : pv_est p = None).
      { destruct (pv_est p) as [k0|] eqn:E; [|reflexivity].
        destruct (r_est p a R k0 E) as [_ Hi]. rewrite Hi in L. discriminate. }
      destruct (ok && clean); constructor; cbn [pv_pend pv_cand pv_est pv_open inflight base open];
        try exact Hf; try discriminate; try (rewrite He; discriminate); try apply (r_open p a R).
  - injection H as <-. constructor; cbn [pv_pend pv_cand pv_est pv_open inflight base open].
    + apply (r_pend p a R).
    + apply (r_cand p a R).
    + apply (r_est p a R).
    + intros q0 k0 Hq. cbn [lookup_q]. destruct (pv_est p) as [k|] eqn:E.
      * cbn [pv_lookup] in Hq. destruct (Nat.eqb q0 q) eqn:Eq.
        -- injection Hq as <-. destruct (r_est p a R k E) as [Hb _]. rewrite Hb. reflexivity.
        -- rewrite pv_lookup_filter, Eq in Hq. apply (r_open p a R), Hq.
      * rewrite pv_lookup_filter in Hq. destruct (Nat.eqb q0 q); [discriminate|]. apply (r_open p a R), Hq.
  - destruct (pv_lookup q (pv_open p)) as [k|] eqn:L.
    + rewrite (r_open p a R q k L). cbn [omem existsb].
      destruct (oname_eqb x (Some (canon k))); [|discriminate]. injection H as <-. cbn [orb]. exact R.
    + injection H as <-. destruct (lookup_q q (open a)); [|exact I]. destruct (omem x l); [exact R|exact I].
Qed.

Lemma RInv_viol_step p a e : RInv p a -> pv_step p e = None -> acc_step a e = None.
Proof.
  intros R H. destruct e as [u k|u ok|q|q x]; cbn [pv_step acc_step] in *; try discriminate.
  - destruct (pv_cand p) as [[u' k']|]; [destruct (Nat.eqb u' u)|]; discriminate.
  - destruct (pv_lookup q (pv_open p)) as [k|] eqn:L; [|discriminate].
    rewrite (r_open p a R q k L). cbn [omem existsb].
    destruct (oname_eqb x (Some (canon k))); [discriminate|]. reflexivity.
Qed.

Lemma viol_rejected tr : forall p a, RInv p a -> pv_run p tr = None -> acc_run a tr = None.
Proof.
  induction tr as [|e r IH]; intros p a R H; cbn [pv_run acc_run] in *; [discriminate|].
  destruct (pv_step p e) as [p'|] eqn:E.
  - pose proof (RInv_step p a e p' R E) as Hs. destruct (acc_step a e) as [a'|]; [|reflexivity].
    apply (IH p' a' Hs H).
  - rewrite (RInv_viol_step p a e R E). reflexivity.
Qed.

(* a trace on which the property fails is never accepted *)
Lemma prop_viol_not_accepted k0 tr : prop_violb tr = true -> accept_trace k0 tr = false.
Proof.
  unfold prop_violb, accept_trace. intros H.
  destruct (pv_run pv_init tr) eqn:E; [discriminate|].
  rewrite (viol_rejected tr pv_init (acc_init k0)); [reflexivity| |exact E].
  constructor; cbn; intros; try discriminate; reflexivity.
Qed.

(* for a finished use task: "other error" exactly when a covered connection answered with one *)
Lemma answer_of_err_done r :
  forallb (fun c => is_done (stat r c)) (cov r) = true ->
  (answer_of r = PAErr <-> exists c t, In c (cov r) /\ stat r c = Done (CErr t)).
Proof.
  intros Hd. rewrite answer_of_err. rewrite forallb_forall in Hd. split.
  - intros [c [Hc He]]. specialize (Hd c Hc). destruct (stat r c) as [| |[|t|t]] eqn:E; try discriminate.
    exists c, t. split; [exact Hc|exact E].
  - intros [c [t [Hc Hs]]]. exists c. split; [exact Hc|]. rewrite Hs. reflexivity.
Qed.

(* ====================================================================================== *)
(* 5. the whole session: worker x pools                                                   *)
(* ====================================================================================== *)


Lemma map_id_shape (l : list use_rec) : l = map (fun r => r) l.
Proof. symmetry. apply map_id. Qed.

Lemma accept_path_pl s c r a s' : accept_path s c r a = Some s' -> pending s' = pending s /\ log s' = log s.
Proof.
  unfold accept_path. destruct (r && negb (is_accept a)); [discriminate|]. intros H. injection H as <-. split; reflexivity.
Qed.
Lemma ready_path_pl s c e r a s' : ready_path s c e r a = Some s' -> pending s' = pending s /\ log s' = log s.
Proof.
  unfold ready_path. destruct (cur s) as [k|]; [|apply accept_path_pl].
  destruct (evks_differs e k); [|apply accept_path_pl]. intros H. injection H as <-. split; reflexivity.
Qed.

Definition plain_step (p p' : pool) (l : label) : Prop :=
  log p' = log p /\ answered_by l = None /\
  exists g, (forall r, same_shape r (g r)) /\ pending p' = map g (pending p).
Definition answer_step (p p' : pool) (l : label) : Prop :=
  exists u a r, answered_by l = Some (u, a) /\ pending p' = drop_use (pending p) u /\
                log p' = log p ++ [(u, a)] /\ find_use (pending p) u = Some r.

Lemma plain_id p p' l : log p' = log p -> answered_by l = None -> pending p' = pending p -> plain_step p p' l.
Proof.
  intros H1 H2 H3. split; [exact H1|]. split; [exact H2|]. exists (fun r => r). split; [intros; apply same_shape_refl|].
  rewrite H3. apply map_id_shape.
Qed.

Lemma step_pending_log p l p' :
  step p l = Some p' -> is_use l = false -> plain_step p p' l \/ answer_step p p' l.
Proof.
  intros H Hu. destruct l; cbn [step is_use] in H, Hu; try discriminate.
  - left. injection H as <-. apply plain_id; reflexivity.
  - left. destruct (ph p c); try discriminate. destruct ok.
    + destruct (ready_path_pl _ _ _ _ _ _ H) as [H1 H2]. apply plain_id; [exact H2|reflexivity|exact H1].
    + injection H as <-. apply plain_id; reflexivity.
  - left. destruct (ph p c); try discriminate. destruct r as [rep|].
    + destruct (alive p c); [|discriminate].
      set (s1 := match rep with RSetKeyspace n => set_acked p (upd (acked p) c (Some n)) | _ => p end) in *.
      assert (P1 : pending s1 = pending p) by (subst s1; destruct rep; reflexivity).
      assert (L1 : log s1 = log p) by (subst s1; destruct rep; reflexivity).
      destruct (verify_result k rep).
      * destruct (ready_path_pl _ _ _ _ _ _ H) as [H1 H2]. apply plain_id; [congruence|reflexivity|congruence].
      * injection H as <-. apply plain_id; [exact L1|reflexivity|exact P1].
      * injection H as <-. apply plain_id; [exact L1|reflexivity|exact P1].
      * injection H as <-. apply plain_id; [exact L1|reflexivity|exact P1].
    + injection H as <-. apply plain_id; reflexivity.
  - left. injection H as <-. apply plain_id; reflexivity.
  - left. destruct (find_use (pending p) u) as [r|]; [|discriminate].
    destruct (mem c (cov r)); [|discriminate]. destruct (stat r c); try discriminate.
    destruct (alive p c); injection H as <-.
    + split; [reflexivity|]. split; [reflexivity|].
      exists (fun r0 => if Nat.eqb (uid r0) u then set_stat r0 c Sent else r0). split; [|reflexivity].
      intros r0. destruct (Nat.eqb (uid r0) u); [apply same_shape_set_stat|apply same_shape_refl].
    + split; [reflexivity|]. split; [reflexivity|].
      exists (fun r0 => if Nat.eqb (uid r0) u then set_stat r0 c (Done (CBroken 0)) else r0). split; [|reflexivity].
      intros r0. destruct (Nat.eqb (uid r0) u); [apply same_shape_set_stat|apply same_shape_refl].
  - left. destruct (alive p c); [|discriminate]. destruct (wire p c) as [|[u k] rest]; [discriminate|].
    injection H as <-.
    set (s1 := match r with RSetKeyspace n => set_acked p (upd (acked p) c (Some n)) | _ => p end) in *.
    assert (P1 : pending s1 = pending p) by (subst s1; destruct r; reflexivity).
    assert (L1 : log s1 = log p) by (subst s1; destruct r; reflexivity).
    split; [exact L1|]. split; [reflexivity|].
    eexists. split; [|cbn [pending set_pending set_wire]; rewrite P1; reflexivity].
    intros r0. cbn beta. destruct (Nat.eqb (uid r0) u); [|apply same_shape_refl].
    destruct (stat r0 c); try apply same_shape_refl. apply same_shape_set_stat.
  - left. destruct (alive p c && (c <? next p)); [|discriminate]. injection H as <-.
    split; [reflexivity|]. split; [reflexivity|]. eexists. split; [|reflexivity].
    intros r0. cbn beta. destruct (stat r0 c); try apply same_shape_refl. apply same_shape_set_stat.
  - left. destruct (alive p c); [discriminate|]. destruct (ph p c); try discriminate; injection H as <-; apply plain_id; reflexivity.
  - right. destruct (find_use (pending p) u) as [r|] eqn:F; [|discriminate].
    destruct (forallb (fun c => is_done (stat r c)) (cov r) && panswer_eqb a (answer_of r)); [|discriminate].
    injection H as <-. exists u, a, r. repeat split; try reflexivity. exact F.
  - right. destruct (find_use (pending p) u) as [r|] eqn:F; [|discriminate].
    destruct (cov r); [discriminate|]. injection H as <-. exists u, PAErr, r. repeat split; try reflexivity. exact F.
  - left. destruct (ph p c); try discriminate. injection H as <-. apply plain_id; reflexivity.
Qed.

Lemma nil_step p l p' :
  pending p = [] -> is_use l = false -> step p l = Some p' -> pending p' = [] /\ log p' = log p.
Proof.
  intros Hp Hu H. destruct (step_pending_log p l p' H Hu) as [[Hl [_ [g [_ Hg]]]]|[u [a [r [_ [_ [_ F]]]]]]].
  - rewrite Hg, Hp. split; [reflexivity|exact Hl].
  - rewrite Hp in F. discriminate.
Qed.

Lemma log_mono p l p' x : is_use l = false -> step p l = Some p' -> In x (log p) -> In x (log p').
Proof.
  intros Hu H Hx. destruct (step_pending_log p l p' H Hu) as [[Hl _]|[u [a [r [_ [_ [Hl _]]]]]]]; rewrite Hl.
  - exact Hx.
  - apply in_app_iff. left. exact Hx.
Qed.

Lemma answered_log p l p' u a :
  is_use l = false -> step p l = Some p' -> answered_by l = Some (u, a) ->
  In (u, a) (log p') /\ (exists r, In r (pending p) /\ uid r = u) /\ forall r', In r' (pending p') -> uid r' <> u.
Proof.
  intros Hu H Ha. destruct (step_pending_log p l p' H Hu) as [[_ [Hn _]]|[u' [a' [r [Ha' [Hp [Hl F]]]]]]]; [congruence|].
  rewrite Ha in Ha'. injection Ha' as <- <-. split; [|split].
  - rewrite Hl. apply in_app_iff. right. left. reflexivity.
  - apply find_use_some in F. exists r. exact F.
  - intros r' Hr'. rewrite Hp in Hr'. apply in_drop_use in Hr'. apply Hr'.
Qed.

Lemma pending_shape p l p' r' :
  is_use l = false -> step p l = Some p' -> In r' (pending p') -> exists r, In r (pending p) /\ uid r = uid r'.
Proof.
  intros Hu H Hr. destruct (step_pending_log p l p' H Hu) as [[_ [_ [g [Hg Hp]]]]|[u [a [r [_ [Hp _]]]]]].
  - rewrite Hp in Hr. apply in_map_iff in Hr. destruct Hr as [r0 [<- Hr0]]. exists r0. split; [exact Hr0|].
    destruct (Hg r0) as [E _]. symmetry. exact E.
  - rewrite Hp in Hr. apply in_drop_use in Hr. exists r'. split; [apply Hr|reflexivity].
Qed.


Definition QF (k : ks) (u : nat) (p : pool) : Prop := QInv k u p \/ failed u p.
Definition DoneP (k : ks) (p : pool) : Prop := exists u a, QF k u p /\ In (u, a) (log p) /\ a <> PAErr.
Definition FreshP (k : ks) (p : pool) : Prop := QF k 0 p /\ pending p = [] /\ log p = [].

Lemma QF_step k u p l p' : GInv p -> QF k u p -> is_use l = false -> step p l = Some p' -> QF k u p'.
Proof.
  intros G [Q|F] Hu H; [eapply QInv_step; eassumption|right; eapply failed_step; eassumption].
Qed.

Lemma DoneP_step k p l p' : GInv p -> DoneP k p -> is_use l = false -> step p l = Some p' -> DoneP k p'.
Proof.
  intros G [u [a [Q [Hl Ha]]]] Hu H. exists u, a. split; [eapply QF_step; eassumption|].
  split; [eapply log_mono; eassumption|exact Ha].
Qed.

Lemma FreshP_step k p l p' : GInv p -> FreshP k p -> is_use l = false -> step p l = Some p' -> FreshP k p'.
Proof.
  intros G [Q [Hp Hl]] Hu H. destruct (nil_step p l p' Hp Hu H) as [Hp' Hl'].
  split; [eapply QF_step; eassumption|]. split; [exact Hp'|congruence].
Qed.

Lemma FreshP_init k : FreshP k (init (Some k)).
Proof.
  split; [|split; reflexivity]. left. constructor; cbn; [reflexivity|left; reflexivity|intros; discriminate].
Qed.

Lemma DoneP_good k p c :
  DoneP k p -> ph p c = InPool -> alive p c = true -> wire p c = [] /\ matchesb p c k = true.
Proof.
  intros [u [a [[Q|F] [Hl Ha]]]] Hc Hal.
  - destruct (q_pend _ _ _ Q) as [Hp|[r [_ [_ [_ [_ Hn]]]]]]; [|exfalso; exact (Hn a Hl)].
    pose proof (q_conn _ _ _ Q c Hc Hal) as Hg. unfold conn_good in Hg. rewrite Hp in Hg. exact Hg.
  - destruct F as [_ [_ F]]. exfalso. apply Ha, F, Hl.
Qed.

Lemma FreshP_good k p c :
  FreshP k p -> ph p c = InPool -> alive p c = true -> wire p c = [] /\ matchesb p c k = true.
Proof.
  intros [[Q|F] [Hp Hl]] Hc Hal.
  - pose proof (q_conn _ _ _ Q c Hc Hal) as Hg. unfold conn_good in Hg. rewrite Hp in Hg. exact Hg.
  - destruct F as [_ [F _]]. rewrite Hl in F. contradiction.
Qed.

Lemma use_step_shape p raw cs k p' :
  make_verified raw cs = Ok k -> step p (UseKeyspace raw cs) = Some p' ->
  pending p' = pending p ++ [mkUse (unext p) k (pool_conns p) (fun _ => NotSent)].
Proof. intros M H. cbn [step] in H. rewrite M in H. injection H as <-. reflexivity. Qed.

(* ---- phase 1: any history ---------------------------------------------------------------- *)

Record AInv (s : sys) : Prop := mkA {
  a_g : forall n, GInv (spool s n);
  a_pend : forall n r, In r (pending (spool s n)) ->
           exists g, In g (sfans s) /\ In n (ftargets g) /\ fstat g n = FSent (uid r);
  a_nodes : forall n, In n (snodes s) -> n < snnext s;
  a_targets : forall g, In g (sfans s) -> forall n, In n (ftargets g) -> n < snnext s;
  a_fid : forall g, In g (sfans s) -> fid g < sfnext s;
  a_log : forall f b, In (f, b) (slog s) -> f < sfnext s
}.

Lemma AInv_init n0 : AInv (yinit n0).
Proof.
  constructor; cbn; intros; try contradiction.
  - apply GInv_init.
  - apply in_seq in H. lia.
Qed.

Lemma fresh_not_old s n nnew : n < snnext s -> mem n (seq (snnext s) nnew) = false.
Proof. intros H. apply mem_false. intros Hin. apply in_seq in Hin. lia. Qed.

Lemma not_answered_sent g n u : In n (ftargets g) -> fstat g n = FSent u -> all_answered g = false.
Proof.
  intros Hn Hs. unfold all_answered. destruct (forallb _ _) eqn:E; [|reflexivity].
  rewrite forallb_forall in E. specialize (E n Hn). rewrite Hs in E. discriminate.
Qed.

Lemma AInv_step s l s' : AInv s -> ystep s l = Some s' -> AInv s'.
Proof.
  intros A H. destruct l as [raw cs|f n|n l|keep nnew|f ok|n c]; cbn [ystep] in H.
  - (* YUse *)
    destruct (make_verified raw cs) as [k|e]; [|injection H as <-; exact A].
    injection H as <-. constructor; cbn [sused snodes snnext spool sfans sfnext slog].
    + apply (a_g s A).
    + intros n r Hr. destruct (a_pend s A n r Hr) as [g [Hg Hx]]. exists g. split; [apply in_app_iff; left; exact Hg|exact Hx].
    + apply (a_nodes s A).
    + intros g Hg n Hn. apply in_app_iff in Hg. destruct Hg as [Hg|[<-|[]]]; [eapply (a_targets s A); eassumption|].
      apply (a_nodes s A), Hn.
    + intros g Hg. apply in_app_iff in Hg. destruct Hg as [Hg|[<-|[]]]; [pose proof (a_fid s A g Hg); lia|cbn; lia].
    + intros f b Hf. pose proof (a_log s A f b Hf). lia.
  - (* YDeliver *)
    destruct (find (deliverable f n) (sfans s)) as [g0|] eqn:F; [|discriminate].
    apply find_some in F. destruct F as [Hg0 Hd0].
    destruct (make_verified (fst (fks g0)) (snd (fks g0))) as [k|e] eqn:M; [|discriminate].
    destruct (step (spool s n) (UseKeyspace (fst (fks g0)) (snd (fks g0)))) as [p'|] eqn:S; [|discriminate].
    injection H as <-.
    pose proof (use_step_shape _ _ _ _ _ M S) as Hp'.
    set (u := unext (spool s n)) in *.
    set (fm := fun h => if deliverable f n h then set_fstat h n (FSent u) else h).
    assert (Htar : forall h, ftargets (fm h) = ftargets h) by (intros h; unfold fm; destruct (deliverable f n h); reflexivity).
    assert (Hfid : forall h, fid (fm h) = fid h) by (intros h; unfold fm; destruct (deliverable f n h); reflexivity).
    constructor; cbn [sused snodes snnext spool sfans sfnext slog].
    + intros m. destruct (Nat.eq_dec m n) as [->|Hne]; [rewrite upd_same; eapply GInv_step; [apply (a_g s A)|exact S]|].
      rewrite upd_other by exact Hne. apply (a_g s A).
    + intros m r Hr. destruct (Nat.eq_dec m n) as [->|Hne].
      * rewrite upd_same in Hr. rewrite Hp' in Hr. apply in_app_iff in Hr. destruct Hr as [Hr|[<-|[]]].
        -- destruct (a_pend s A n r Hr) as [g [Hg [Hn Hs]]]. exists (fm g). split; [apply in_map, Hg|].
           rewrite Htar. split; [exact Hn|]. unfold fm, deliverable. rewrite Hs. cbn [is_wait]. rewrite andb_false_r. exact Hs.
        -- exists (fm g0). split; [apply in_map, Hg0|]. rewrite Htar.
           pose proof Hd0 as Hd. unfold deliverable in Hd. apply andb_true_iff in Hd. destruct Hd as [Hd1 _].
           apply andb_true_iff in Hd1. destruct Hd1 as [_ Hd1]. apply mem_In in Hd1.
           split; [exact Hd1|]. unfold fm. rewrite Hd0. cbn [fstat set_fstat]. rewrite upd_same. reflexivity.
      * rewrite upd_other in Hr by exact Hne. destruct (a_pend s A m r Hr) as [g [Hg [Hn Hs]]].
        exists (fm g). split; [apply in_map, Hg|]. rewrite Htar. split; [exact Hn|].
        unfold fm. destruct (deliverable f n g); [|exact Hs]. cbn [fstat set_fstat]. rewrite upd_other by exact Hne. exact Hs.
    + apply (a_nodes s A).
    + intros g Hg m Hm. apply in_map_iff in Hg. destruct Hg as [h [<- Hh]]. rewrite Htar in Hm. eapply (a_targets s A); eassumption.
    + intros g Hg. apply in_map_iff in Hg. destruct Hg as [h [<- Hh]]. rewrite Hfid. apply (a_fid s A), Hh.
    + apply (a_log s A).
  - (* YPool *)
    destruct (is_use l) eqn:Hu; [discriminate|].
    destruct (step (spool s n) l) as [p'|] eqn:S; [|discriminate]. injection H as <-.
    set (fans' := match answered_by l with
                  | Some (u, a) => map (fun h => if fsent_is u (fstat h n) then set_fstat h n (FAns a) else h) (sfans s)
                  | None => sfans s end).
    (* every fan has an image with the same targets / id, and the same status except possibly at n *)
    assert (Himg : forall g, In g (sfans s) -> exists g', In g' fans' /\ ftargets g' = ftargets g /\ fid g' = fid g /\
                   (forall m, m <> n -> fstat g' m = fstat g m) /\
                   (forall u, fstat g n = FSent u -> (forall u' a, answered_by l = Some (u', a) -> u' <> u) -> fstat g' n = FSent u)).
    { intros g Hg. subst fans'. destruct (answered_by l) as [[u a]|] eqn:Ea.
      - eexists. split; [apply in_map, Hg|]. cbn beta. destruct (fsent_is u (fstat g n)) eqn:Ef.
        + cbn [ftargets fid fstat set_fstat]. repeat split; try reflexivity.
          * intros m Hm. apply upd_other, Hm.
          * intros u0 Hs Hno. exfalso. rewrite Hs in Ef. cbn [fsent_is] in Ef. apply Nat.eqb_eq in Ef.
            apply (Hno u a eq_refl). exact Ef.
        + repeat split; try reflexivity. intros u0 Hs _. exact Hs.
      - exists g. split; [exact Hg|]. repeat split; try reflexivity. intros u0 Hs _. exact Hs. }
    assert (Hpre : forall g', In g' fans' -> exists g, In g (sfans s) /\ ftargets g' = ftargets g /\ fid g' = fid g).
    { intros g' Hg'. subst fans'. destruct (answered_by l) as [[u a]|].
      - apply in_map_iff in Hg'. destruct Hg' as [g [<- Hg]]. exists g. split; [exact Hg|].
        destruct (fsent_is u (fstat g n)); split; reflexivity.
      - exists g'. split; [exact Hg'|split; reflexivity]. }
    constructor; cbn [sused snodes snnext spool sfans sfnext slog].
    + intros m. destruct (Nat.eq_dec m n) as [->|Hne]; [rewrite upd_same; eapply GInv_step; [apply (a_g s A)|exact S]|].
      rewrite upd_other by exact Hne. apply (a_g s A).
    + intros m r Hr. destruct (Nat.eq_dec m n) as [->|Hne].
      * rewrite upd_same in Hr. destruct (pending_shape _ _ _ _ Hu S Hr) as [r0 [Hr0 Hur]].
        destruct (a_pend s A n r0 Hr0) as [g [Hg [Hn Hs]]].
        destruct (Himg g Hg) as [g' [Hg' [Ht [_ [_ Hk]]]]]. exists g'. split; [exact Hg'|]. rewrite Ht. split; [exact Hn|].
        rewrite <- Hur. apply Hk; [exact Hs|]. intros u' a Ha.
        destruct (answered_log _ _ _ _ _ Hu S Ha) as [_ [_ Hno]]. specialize (Hno r Hr). congruence.
      * rewrite upd_other in Hr by exact Hne. destruct (a_pend s A m r Hr) as [g [Hg [Hn Hs]]].
        destruct (Himg g Hg) as [g' [Hg' [Ht [_ [Hm _]]]]]. exists g'. split; [exact Hg'|]. rewrite Ht. split; [exact Hn|].
        rewrite Hm by exact Hne. exact Hs.
    + apply (a_nodes s A).
    + intros g' Hg' m Hm. destruct (Hpre g' Hg') as [g [Hg [Ht _]]]. rewrite Ht in Hm. eapply (a_targets s A); eassumption.
    + intros g' Hg'. destruct (Hpre g' Hg') as [g [Hg [_ Hf]]]. rewrite Hf. apply (a_fid s A), Hg.
    + apply (a_log s A).
  - (* YApply *)
    injection H as <-. constructor; cbn [sused snodes snnext spool sfans sfnext slog].
    + intros m. destruct (mem m (seq (snnext s) nnew)); [apply GInv_init|apply (a_g s A)].
    + intros m r Hr. destruct (mem m (seq (snnext s) nnew)); [cbn in Hr; contradiction|]. apply (a_pend s A m r Hr).
    + intros m Hn. apply in_app_iff in Hn. destruct Hn as [Hn|Hn].
      * apply filter_In in Hn. destruct Hn as [Hn _]. pose proof (a_nodes s A m Hn). lia.
      * apply in_seq in Hn. lia.
    + intros g Hg m Hn. pose proof (a_targets s A g Hg m Hn). lia.
    + apply (a_fid s A).
    + apply (a_log s A).
  - (* YReturn *)
    destruct (find (fun g => Nat.eqb (fid g) f && all_answered g) (sfans s)) as [g0|] eqn:F; [|discriminate].
    apply find_some in F. destruct F as [Hg0 Hd0]. apply andb_true_iff in Hd0. destruct Hd0 as [Hf0 _]. apply Nat.eqb_eq in Hf0.
    destruct (ftargets g0); [discriminate|]. destruct (Bool.eqb ok (fan_ok g0)); [|discriminate]. injection H as <-.
    constructor; cbn [sused snodes snnext spool sfans sfnext slog].
    + apply (a_g s A).
    + intros m r Hr. destruct (a_pend s A m r Hr) as [g [Hg [Hn Hs]]]. exists g. split; [|split; assumption].
      apply filter_In. split; [exact Hg|]. rewrite (not_answered_sent g m _ Hn Hs). rewrite andb_false_r. reflexivity.
    + apply (a_nodes s A).
    + intros g Hg. apply filter_In in Hg. apply (a_targets s A), Hg.
    + intros g Hg. apply filter_In in Hg. apply (a_fid s A), Hg.
    + intros f0 b Hf. apply in_app_iff in Hf. destruct Hf as [Hf|[Heq|[]]]; [apply (a_log s A f0 b Hf)|].
      injection Heq as <- _. rewrite <- Hf0. apply (a_fid s A), Hg0.
  - (* YPick *)
    destruct (mem n (snodes s)); [|discriminate]. destruct (ph (spool s n) c); try discriminate. injection H as <-. exact A.
Qed.


Definition node_ok (k : ks) (s : sys) (g : fan) (n : nat) : Prop :=
  match fstat g n with
  | FWait => pending (spool s n) = []
  | FSent u => QF k u (spool s n)
  | FAns a => exists u, QF k u (spool s n) /\ In (u, a) (log (spool s n))
  end.

Record BInv (k : ks) (F : nat) (s : sys) : Prop := mkB {
  b_a : AInv s;
  b_used : sused s = Some k;
  b_fans : sfans s = [] \/
           exists g, sfans s = [g] /\ fid g = F /\ fks g = k /\ (forall b, ~ In (F, b) (slog s)) /\
                     (forall n, In n (ftargets g) -> node_ok k s g n) /\
                     (forall n, In n (snodes s) -> In n (ftargets g) \/ FreshP k (spool s n));
  b_done : sfans s = [] -> In (F, true) (slog s) ->
           forall n, In n (snodes s) -> DoneP k (spool s n) \/ FreshP k (spool s n)
}.

Lemma BInv_after_use s raw cs s' :
  AInv s -> sfans s = [] -> valid_name raw -> ystep s (YUse raw cs) = Some s' -> BInv (raw, cs) (sfnext s) s'.
Proof.
  intros A Hf Hv H. pose proof (AInv_step _ _ _ A H) as A'. cbn [ystep] in H.
  assert (M : make_verified raw cs = Ok (raw, cs)) by (apply make_verified_ok; split; [reflexivity|exact Hv]).
  rewrite M in H. injection H as <-. constructor; [exact A'|reflexivity| |].
  - right. cbn [sfans slog snodes spool]. rewrite Hf. cbn [app]. eexists. split; [reflexivity|].
    cbn [fid fks ftargets fstat]. repeat split.
    + intros b Hb. pose proof (a_log s A _ _ Hb). lia.
    + intros n _. unfold node_ok. cbn [fstat spool].
      destruct (pending (spool s n)) as [|r l] eqn:E; [reflexivity|].
      destruct (a_pend s A n r) as [g [Hg _]]; [rewrite E; left; reflexivity|]. rewrite Hf in Hg. contradiction.
    + intros n Hn. left. exact Hn.
  - cbn [sfans]. rewrite Hf. cbn [app]. discriminate.
Qed.

Lemma QF_answered_uid k u p l p' u' a :
  QF k u p -> is_use l = false -> step p l = Some p' -> answered_by l = Some (u', a) -> u' = u.
Proof.
  intros Q Hu H Ha. destruct (answered_log _ _ _ _ _ Hu H Ha) as [_ [[r [Hr Hur]] _]].
  destruct Q as [Q|[Hp _]]; [|rewrite Hp in Hr; contradiction].
  destruct (q_pend _ _ _ Q) as [Hp|[r0 [Hp [Hu0 _]]]]; rewrite Hp in Hr; [contradiction|].
  destruct Hr as [<-|[]]. congruence.
Qed.

Lemma fan_ok_each g n :
  fan_ok g = true -> In n (ftargets g) -> exists a, fstat g n = FAns a /\ a <> PAErr.
Proof.
  unfold fan_ok. intros H Hn.
  destruct (use_keyspace_result (map (fun n => node_outcome (fstat g n)) (ftargets g))) eqn:E; try discriminate.
  pose proof (aggregate_ok_each _ E (node_outcome (fstat g n))) as Hx.
  destruct Hx as [Hx|[t Hx]]; [apply in_map_iff; exists n; split; [reflexivity|exact Hn]| |];
    destruct (fstat g n) as [|u|[| |]]; try discriminate; eexists; (split; [reflexivity|discriminate]).
Qed.

Lemma BInv_step k F s l s' :
  BInv k F s -> is_yuse l = false -> ystep s l = Some s' -> BInv k F s'.
Proof.
  intros B Hy H. pose proof (AInv_step _ _ _ (b_a _ _ _ B) H) as A'. pose proof (b_a _ _ _ B) as A.
  destruct l as [raw cs|f n|n l|keep nnew|f ok|n c]; cbn [ystep is_yuse] in H, Hy; try discriminate.
  - (* YDeliver *)
    destruct (find (deliverable f n) (sfans s)) as [g0|] eqn:Fd; [|discriminate].
    destruct (make_verified (fst (fks g0)) (snd (fks g0))) as [k0|e] eqn:M; [|discriminate].
    destruct (step (spool s n) (UseKeyspace (fst (fks g0)) (snd (fks g0)))) as [p'|] eqn:S; [|discriminate].
    injection H as <-.
    destruct (b_fans _ _ _ B) as [Hf|[g [Hf [Hid [Hk [Hlog [Hnode Hsn]]]]]]]; [rewrite Hf in Fd; discriminate|].
    rewrite Hf in Fd. cbn [find] in Fd. destruct (deliverable f n g) eqn:Hd; [|discriminate]. injection Fd as <-.
    pose proof Hd as Hd'. unfold deliverable in Hd'. apply andb_true_iff in Hd'. destruct Hd' as [Hd1 Hw].
    apply andb_true_iff in Hd1. destruct Hd1 as [_ Hm]. apply mem_In in Hm.
    apply make_verified_ok in M. destruct M as [_ Hv].
    assert (Hkk : (fst (fks g), snd (fks g)) = k) by (rewrite Hk; destruct k; reflexivity).
    constructor; [exact A'|exact (b_used _ _ _ B)| |].
    + right. cbn [sfans slog snodes spool]. rewrite Hf. cbn [map]. rewrite Hd. eexists. split; [reflexivity|].
      cbn [fid fks ftargets]. repeat split; try assumption.
      * intros m Hmt. unfold node_ok. cbn [fstat set_fstat spool]. destruct (Nat.eq_dec m n) as [->|Hne].
        -- repeat rewrite upd_same. left. rewrite <- Hkk.
           apply QInv_after_use; [apply (a_g s A)| |exact Hv|exact S].
           pose proof (Hnode n Hm) as Hno. unfold node_ok in Hno. destruct (fstat g n); try discriminate. exact Hno.
        -- repeat rewrite upd_other by exact Hne. apply (Hnode m Hmt).
      * intros m Hms. destruct (Hsn m Hms) as [Ht|Hfr]; [left; exact Ht|].
        destruct (Nat.eq_dec m n) as [->|Hne]; [left; exact Hm|right; rewrite upd_other by exact Hne; exact Hfr].
    + cbn [sfans]. rewrite Hf. cbn [map]. discriminate.
  - (* YPool *)
    destruct (is_use l) eqn:Hu; [discriminate|].
    destruct (step (spool s n) l) as [p'|] eqn:S; [|discriminate]. injection H as <-.
    pose proof (a_g s A n) as Gn.
    constructor; [exact A'|exact (b_used _ _ _ B)| |].
    + destruct (b_fans _ _ _ B) as [Hf|[g [Hf [Hid [Hk [Hlog [Hnode Hsn]]]]]]].
      * left. cbn [sfans]. rewrite Hf. destruct (answered_by l) as [[u a]|]; reflexivity.
      * right. cbn [sfans slog snodes spool]. rewrite Hf.
        set (g' := match answered_by l with
                   | Some (u, a) => if fsent_is u (fstat g n) then set_fstat g n (FAns a) else g
                   | None => g end).
        exists g'. split; [subst g'; destruct (answered_by l) as [[u a]|]; reflexivity|].
        assert (Ht : ftargets g' = ftargets g) by (subst g'; destruct (answered_by l) as [[u a]|]; [destruct (fsent_is u (fstat g n))|]; reflexivity).
        assert (Hi : fid g' = fid g) by (subst g'; destruct (answered_by l) as [[u a]|]; [destruct (fsent_is u (fstat g n))|]; reflexivity).
        assert (Hkk : fks g' = fks g) by (subst g'; destruct (answered_by l) as [[u a]|]; [destruct (fsent_is u (fstat g n))|]; reflexivity).
        assert (Hother : forall m, m <> n -> fstat g' m = fstat g m).
        { intros m Hne. subst g'. destruct (answered_by l) as [[u a]|]; [destruct (fsent_is u (fstat g n))|]; try reflexivity.
          cbn [fstat set_fstat]. apply upd_other, Hne. }
        rewrite Ht, Hi, Hkk. repeat split; try assumption.
        -- intros m Hmt. unfold node_ok. cbn [spool]. destruct (Nat.eq_dec m n) as [->|Hne].
           ++ rewrite upd_same. pose proof (Hnode n Hmt) as Hno. unfold node_ok in Hno.
              destruct (fstat g n) as [|u|a] eqn:Es.
              ** assert (Hg' : fstat g' n = FWait).
                 { subst g'. destruct (answered_by l) as [[u a]|]; [try rewrite Es; cbn [fsent_is]|]; try exact Es; reflexivity. }
                 rewrite Hg'. apply (nil_step _ _ _ Hno Hu S).
              ** pose proof (QF_step _ _ _ _ _ Gn Hno Hu S) as Q'.
                 destruct (answered_by l) as [[u' a]|] eqn:Ea.
                 --- assert (u' = u) by (exact (QF_answered_uid k u (spool s n) l p' u' a Hno Hu S Ea)). subst u'.
                     subst g'. try rewrite Es. cbn [fsent_is]. rewrite Nat.eqb_refl. cbn [fstat set_fstat]. rewrite upd_same.
                     exists u. split; [exact Q'|]. apply (answered_log _ _ _ _ _ Hu S Ea).
                 --- subst g'. try rewrite Es. exact Q'.
              ** assert (Hg' : fstat g' n = FAns a).
                 { subst g'. destruct (answered_by l) as [[u a0]|]; [try rewrite Es; cbn [fsent_is]|]; try exact Es; reflexivity. }
                 rewrite Hg'. destruct Hno as [u [Q Hl]]. exists u. split; [eapply QF_step; eassumption|eapply log_mono; eassumption].
           ++ rewrite upd_other by exact Hne. rewrite Hother by exact Hne. apply (Hnode m Hmt).
        -- intros m Hms. destruct (Hsn m Hms) as [Htm|Hfr]; [left; exact Htm|right].
           destruct (Nat.eq_dec m n) as [->|Hne]; [rewrite upd_same; eapply FreshP_step; eassumption|].
           rewrite upd_other by exact Hne. exact Hfr.
    + cbn [sfans slog snodes spool]. intros Hf' Hl m Hms.
      assert (Hf : sfans s = []).
      { destruct (answered_by l) as [[u a]|]; [|exact Hf']. destruct (sfans s); [reflexivity|discriminate]. }
      destruct (b_done _ _ _ B Hf Hl m Hms) as [D|Fr]; (destruct (Nat.eq_dec m n) as [->|Hne];
        [rewrite upd_same|rewrite upd_other by exact Hne]).
      * left. eapply DoneP_step; eassumption.
      * left. exact D.
      * right. eapply FreshP_step; eassumption.
      * right. exact Fr.
  - (* YApply *)
    injection H as <-.
    assert (Hold : forall m, m < snnext s -> (if mem m (seq (snnext s) nnew) then init (sused s) else spool s m) = spool s m).
    { intros m Hm. rewrite fresh_not_old by exact Hm. reflexivity. }
    assert (Hnew : forall m, In m (filter (fun n => mem n keep) (snodes s) ++ seq (snnext s) nnew) ->
                   (In m (snodes s) /\ m < snnext s) \/ In m (seq (snnext s) nnew)).
    { intros m Hm. apply in_app_iff in Hm. destruct Hm as [Hm|Hm]; [left|right; exact Hm].
      apply filter_In in Hm. destruct Hm as [Hm _]. split; [exact Hm|apply (a_nodes s A), Hm]. }
    constructor; [exact A'|exact (b_used _ _ _ B)| |].
    + destruct (b_fans _ _ _ B) as [Hf|[g [Hf [Hid [Hk [Hlog [Hnode Hsn]]]]]]]; [left; exact Hf|right].
      exists g. cbn [sfans slog snodes spool]. repeat split; try assumption.
      * intros m Hmt. unfold node_ok. cbn [spool]. rewrite Hold; [apply (Hnode m Hmt)|].
        apply (a_targets s A g); [rewrite Hf; left; reflexivity|exact Hmt].
      * intros m Hm. destruct (Hnew m Hm) as [[Hms Hlt]|Hfr].
        -- rewrite Hold by exact Hlt. apply Hsn, Hms.
        -- right. apply mem_In in Hfr. rewrite Hfr. rewrite (b_used _ _ _ B). apply FreshP_init.
    + cbn [sfans slog snodes spool]. intros Hf Hl m Hm. destruct (Hnew m Hm) as [[Hms Hlt]|Hfr].
      * rewrite Hold by exact Hlt. apply (b_done _ _ _ B Hf Hl m Hms).
      * right. apply mem_In in Hfr. rewrite Hfr. rewrite (b_used _ _ _ B). apply FreshP_init.
  - (* YReturn *)
    destruct (find (fun g => Nat.eqb (fid g) f && all_answered g) (sfans s)) as [g0|] eqn:Fd; [|discriminate].
    destruct (b_fans _ _ _ B) as [Hf|[g [Hf [Hid [Hk [Hlog [Hnode Hsn]]]]]]]; [rewrite Hf in Fd; discriminate|].
    rewrite Hf in Fd. cbn [find] in Fd. destruct (Nat.eqb (fid g) f && all_answered g) eqn:Hd; [|discriminate].
    injection Fd as <-. apply andb_true_iff in Hd. destruct Hd as [Hff Hall]. apply Nat.eqb_eq in Hff.
    destruct (ftargets g) eqn:Et; [discriminate|]. rewrite <- Et in *.
    destruct (Bool.eqb ok (fan_ok g)) eqn:Eo; [|discriminate]. apply Bool.eqb_prop in Eo. injection H as <-.
    assert (Hnil : filter (fun h => negb (Nat.eqb (fid h) f && all_answered h)) (sfans s) = []).
    { rewrite Hf. cbn [filter]. rewrite Hff, Nat.eqb_refl, Hall. reflexivity. }
    constructor; [exact A'|exact (b_used _ _ _ B)|left; exact Hnil|].
    cbn [sfans slog snodes spool]. intros _ Hl m Hms.
    apply in_app_iff in Hl. destruct Hl as [Hl|[Heq|[]]]; [exfalso; exact (Hlog _ Hl)|].
    injection Heq as _ Hok0. assert (Hok : fan_ok g = true) by congruence.
    destruct (Hsn m Hms) as [Hmt|Hfr]; [left|right; exact Hfr].
    destruct (fan_ok_each g m Hok Hmt) as [a [Hs Ha]]. pose proof (Hnode m Hmt) as Hno. unfold node_ok in Hno. rewrite Hs in Hno.
    destruct Hno as [u [Q Hlg]]. exists u, a. repeat split; assumption.
  - (* YPick *)
    destruct (mem n (snodes s)); [|discriminate]. destruct (ph (spool s n) c); try discriminate. injection H as <-. exact B.
Qed.

Lemma yrun_inv (P : sys -> Prop) (okl : ylabel -> bool) :
  (forall s l s', P s -> okl l = true -> ystep s l = Some s' -> P s') ->
  forall ls s s', forallb okl ls = true -> P s -> yrun s ls = Some s' -> P s'.
Proof.
  intros Hstep ls. induction ls as [|l r IH]; intros s s' Hok Hp Hr; cbn [yrun] in Hr.
  - injection Hr as <-. exact Hp.
  - cbn [forallb] in Hok. apply andb_true_iff in Hok. destruct Hok as [Hl Hok].
    destruct (ystep s l) as [s1|] eqn:E; [|discriminate].
    apply (IH s1 s' Hok); [|exact Hr]. eapply Hstep; eassumption.
Qed.

(* the composed statement: session -> worker fan-out -> per-node pools -> connections *)
Lemma session_after_success n0 ls1 s1 raw cs s2 ls2 s3 n c :
  yrun (yinit n0) ls1 = Some s1 -> sfans s1 = [] ->
  valid_name raw -> ystep s1 (YUse raw cs) = Some s2 ->
  no_yuse ls2 = true -> yrun s2 ls2 = Some s3 ->
  In (sfnext s1, true) (slog s3) ->
  In n (snodes s3) -> ph (spool s3 n) c = InPool -> alive (spool s3 n) c = true ->
  wire (spool s3 n) c = [] /\ matchesb (spool s3 n) c (raw, cs) = true.
Proof.
  intros R1 Hf Hv S Hn R2 Hl Hin Hc Hal.
  assert (A1 : AInv s1).
  { apply (yrun_inv AInv (fun _ => true)) with (ls := ls1) (s := yinit n0); [|apply forallb_forall; reflexivity|apply AInv_init|exact R1].
    intros s l s' A _ H. eapply AInv_step; eassumption. }
  pose proof (BInv_after_use s1 raw cs s2 A1 Hf Hv S) as B2.
  assert (B3 : BInv (raw, cs) (sfnext s1) s3).
  { apply (yrun_inv (BInv (raw, cs) (sfnext s1)) (fun l => negb (is_yuse l))) with (ls := ls2) (s := s2); [|exact Hn|exact B2|exact R2].
    intros s l s' B Hl' H. apply negb_true_iff in Hl'. eapply BInv_step; eassumption. }
  assert (Hnil : sfans s3 = []).
  { destruct (b_fans _ _ _ B3) as [H|[g [_ [_ [_ [Hno _]]]]]]; [exact H|exfalso; exact (Hno _ Hl)]. }
  destruct (b_done _ _ _ B3 Hnil Hl n Hin) as [D|Fr]; [eapply DoneP_good|eapply FreshP_good]; eassumption.
Qed.

(* ---- overlapping calls: what is guaranteed with an honest server ---------------------------- *)


Record HInv (s : pool) : Prop := mkH {
  h_set : forall c k, ph s c = Setting k -> In k (told s c);
  h_wire : forall c u k, In (u, k) (wire s c) -> In k (told s c);
  h_ack : forall c n, acked s c = Some n -> exists k, In k (told s c) /\ n = canon k
}.

Lemma HInv_init k0 : HInv (init k0).
Proof. constructor; cbn; intros; try discriminate; contradiction. Qed.

(* phases change, nothing else *)
Lemma HInv_phase s f :
  HInv s -> (forall c k, f c = Setting k -> ph s c = Setting k) -> HInv (set_ph s f).
Proof. intros H Hf. constructor; ssimpl; [intros c k Hc; apply (h_set s H), Hf, Hc|apply (h_wire s H)|apply (h_ack s H)]. Qed.

Lemma HInv_accept_path s c r a s' : HInv s -> accept_path s c r a = Some s' -> HInv s'.
Proof.
  intros H E. unfold accept_path in E. destruct (r && negb (is_accept a)); [discriminate|]. injection E as <-.
  apply HInv_phase; [exact H|]. intros x k Hx. destruct (Nat.eq_dec x c) as [->|Hne].
  - rewrite upd_same in Hx. destruct a; discriminate.
  - rewrite upd_other in Hx by exact Hne. destruct r; [|exact Hx]. unfold resharded in Hx. destruct (ph s x); try discriminate. exact Hx.
Qed.

Lemma HInv_ready_path s c e r a s' : HInv s -> ready_path s c e r a = Some s' -> HInv s'.
Proof.
  intros H E. unfold ready_path in E. destruct (cur s) as [k|]; [|eapply HInv_accept_path; eassumption].
  destruct (evks_differs e k); [|eapply HInv_accept_path; eassumption]. injection E as <-.
  assert (Hmono : forall x k0, In k0 (told s x) -> In k0 (upd (told s) c (told s c ++ [k]) x)).
  { intros x k0 Hin. destruct (Nat.eq_dec x c) as [->|Hne]; [rewrite upd_same; apply in_app_iff; left; exact Hin|].
    rewrite upd_other by exact Hne. exact Hin. }
  constructor; ssimpl.
  - intros x k0 Hx. destruct (Nat.eq_dec x c) as [->|Hne].
    + rewrite !upd_same in *. injection Hx as <-. apply in_app_iff. right. left. reflexivity.
    + rewrite upd_other in Hx by exact Hne. apply Hmono, (h_set s H), Hx.
  - intros x u k0 Hx. apply Hmono, (h_wire s H x u), Hx.
  - intros x n Hx. destruct (h_ack s H x n Hx) as [k0 [Hk Hn]]. exists k0. split; [apply Hmono, Hk|exact Hn].
Qed.

Lemma honest_reply_set k n : honest_reply k (RSetKeyspace n) = true -> n = canon k.
Proof. cbn. apply name_eqb_eq. Qed.

Lemma HInv_step s l s' : HInv s -> honest_label s l = true -> step s l = Some s' -> HInv s'.
Proof.
  intros H Hh E. destruct l; cbn [step honest_label] in E, Hh.
  - injection E as <-. constructor; ssimpl; [|apply (h_wire s H)|apply (h_ack s H)].
    intros c k Hc. destruct (Nat.eq_dec c (next s)) as [->|Hne]; [rewrite upd_same in Hc; discriminate|].
    rewrite upd_other in Hc by exact Hne. apply (h_set s H), Hc.
  - destruct (ph s c); try discriminate. destruct ok; [eapply HInv_ready_path; eassumption|].
    injection E as <-. apply HInv_phase; [exact H|]. intros x k Hx. destruct (Nat.eq_dec x c) as [->|Hne]; [rewrite upd_same in Hx; discriminate|].
    rewrite upd_other in Hx by exact Hne. exact Hx.
  - destruct (ph s c) eqn:Ep; try discriminate. destruct r as [rep|].
    + destruct (alive s c); [|discriminate].
      set (s1 := match rep with RSetKeyspace n => set_acked s (upd (acked s) c (Some n)) | _ => s end) in *.
      assert (H1 : HInv s1).
      { subst s1. destruct rep as [n| |]; try exact H. constructor; ssimpl; [apply (h_set s H)|apply (h_wire s H)|].
        intros x n0 Hx. destruct (Nat.eq_dec x c) as [->|Hne].
        - rewrite upd_same in Hx. injection Hx as <-. exists k. split; [apply (h_set s H), Ep|apply honest_reply_set, Hh].
        - rewrite upd_other in Hx by exact Hne. apply (h_ack s H x n0 Hx). }
      destruct (verify_result k rep); [eapply HInv_ready_path; eassumption| | |];
        (injection E as <-; apply HInv_phase; [exact H1|]; intros x k0 Hx;
         destruct (Nat.eq_dec x c) as [->|Hne]; [rewrite upd_same in Hx; discriminate|rewrite upd_other in Hx by exact Hne; exact Hx]).
    + injection E as <-. constructor; ssimpl; [|apply (h_wire s H)|apply (h_ack s H)].
      intros x k0 Hx. destruct (Nat.eq_dec x c) as [->|Hne]; [rewrite upd_same in Hx; discriminate|].
      rewrite upd_other in Hx by exact Hne. apply (h_set s H), Hx.
  - injection E as <-. apply HInv_phase; [exact H|]. intros x k Hx. destruct (ph s x); try discriminate. exact Hx.
  - destruct (make_verified raw cs); injection E as <-; [|exact H].
    constructor; ssimpl; [apply (h_set s H)|apply (h_wire s H)|apply (h_ack s H)].
  - destruct (find_use (pending s) u) as [r|]; [|discriminate]. destruct (mem c (cov r)); [|discriminate].
    destruct (stat r c); try discriminate. destruct (alive s c); injection E as <-.
    + assert (Hmono : forall x k0, In k0 (told s x) -> In k0 (upd (told s) c (told s c ++ [uks r]) x)).
      { intros x k0 Hin. destruct (Nat.eq_dec x c) as [->|Hne]; [rewrite upd_same; apply in_app_iff; left; exact Hin|].
        rewrite upd_other by exact Hne. exact Hin. }
      constructor; ssimpl.
      * intros x k0 Hx. apply Hmono, (h_set s H), Hx.
      * intros x u0 k0 Hx. destruct (Nat.eq_dec x c) as [->|Hne].
        -- rewrite !upd_same in *. apply in_app_iff in Hx. destruct Hx as [Hx|[Heq|[]]].
           ++ apply in_app_iff. left. apply (h_wire s H c u0), Hx.
           ++ injection Heq as _ <-. apply in_app_iff. right. left. reflexivity.
        -- rewrite upd_other in Hx by exact Hne. apply Hmono, (h_wire s H x u0), Hx.
      * intros x n Hx. destruct (h_ack s H x n Hx) as [k0 [Hk Hn]]. exists k0. split; [apply Hmono, Hk|exact Hn].
    + constructor; ssimpl; [apply (h_set s H)|apply (h_wire s H)|apply (h_ack s H)].
  - destruct (alive s c); [|discriminate]. destruct (wire s c) as [|[u k] rest] eqn:W; [discriminate|]. injection E as <-.
    assert (Hk : In k (told s c)) by (apply (h_wire s H c u); rewrite W; left; reflexivity).
    destruct r as [n| |]; constructor; ssimpl; try apply (h_set s H); try apply (h_ack s H);
      try (intros x u0 k0 Hx; destruct (Nat.eq_dec x c) as [->|Hne];
           [rewrite upd_same in Hx; apply (h_wire s H c u0); rewrite W; right; exact Hx|
            rewrite upd_other in Hx by exact Hne; apply (h_wire s H x u0), Hx]).
    intros x n0 Hx. destruct (Nat.eq_dec x c) as [->|Hne].
    + rewrite upd_same in Hx. injection Hx as <-. exists k. split; [exact Hk|apply honest_reply_set, Hh].
    + rewrite upd_other in Hx by exact Hne. apply (h_ack s H x n0 Hx).
  - destruct (alive s c && (c <? next s)); [|discriminate]. injection E as <-.
    constructor; ssimpl; [apply (h_set s H)| |apply (h_ack s H)].
    intros x u0 k0 Hx. destruct (Nat.eq_dec x c) as [->|Hne]; [rewrite upd_same in Hx; contradiction|].
    rewrite upd_other in Hx by exact Hne. apply (h_wire s H x u0), Hx.
  - destruct (alive s c); [discriminate|]. destruct (ph s c); try discriminate; injection E as <-;
      (apply HInv_phase; [exact H|]; intros x k Hx; destruct (Nat.eq_dec x c) as [->|Hne];
       [rewrite upd_same in Hx; discriminate|rewrite upd_other in Hx by exact Hne; exact Hx]).
  - destruct (find_use (pending s) u) as [r|]; [|discriminate].
    destruct (forallb (fun c => is_done (stat r c)) (cov r) && panswer_eqb a (answer_of r)); [|discriminate].
    injection E as <-. constructor; ssimpl; [apply (h_set s H)|apply (h_wire s H)|apply (h_ack s H)].
  - destruct (find_use (pending s) u) as [r|]; [|discriminate]. destruct (cov r); [discriminate|].
    injection E as <-. constructor; ssimpl; [apply (h_set s H)|apply (h_wire s H)|apply (h_ack s H)].
  - destruct (ph s c); try discriminate. injection E as <-. exact H.
Qed.

Lemma hrun_inv ls : forall s s', HInv s -> hrun s ls = Some s' -> HInv s'.
Proof.
  induction ls as [|l r IH]; intros s s' H E; cbn [hrun] in E; [injection E as <-; exact H|].
  destruct (honest_label s l) eqn:Hh; [|discriminate]. destruct (step s l) as [s1|] eqn:S; [|discriminate].
  apply (IH s1 s'); [eapply HInv_step; eassumption|exact E].
Qed.

(* whatever the interleaving of use requests (overlapping, same or different names): with an honest
   server a connection is only ever acknowledged in the canonical keyspace of a USE sent on it *)
Lemma overlap_membership k0 ls s c n :
  hrun (init k0) ls = Some s -> acked s c = Some n -> exists k, In k (told s c) /\ n = canon k.
Proof. intros E. apply (h_ack s (hrun_inv ls _ _ (HInv_init k0) E)). Qed.

(* hence overlapping calls with the SAME name can only leave a connection in that keyspace *)
Lemma overlap_same_name k0 ls s c n k :
  hrun (init k0) ls = Some s -> (forall k', In k' (told s c) -> k' = k) -> acked s c = Some n -> n = canon k.
Proof.
  intros E Hall Ha. destruct (overlap_membership k0 ls s c n E Ha) as [k' [Hk ->]]. rewrite (Hall k' Hk). reflexivity.
Qed.

Lemma hrun_run ls : forall s s', hrun s ls = Some s' -> run s ls = Some s'.
Proof.
  induction ls as [|l r IH]; intros s s' E; cbn [hrun run] in *; [exact E|].
  destruct (honest_label s l); [|discriminate]. destruct (step s l) as [s1|]; [apply IH, E|discriminate].
Qed.

(* two overlapping calls with different names, both answered Ok by an honest server, can leave a live
   pool connection in the keyspace of the FIRST call while the pool's current keyspace is the second *)
Lemma overlap_refuted :
  exists ls s c ka kb na,
    hrun (init None) ls = Some s /\ ka <> kb /\ cur s = Some kb /\
    In (0, PAOk) (log s) /\ In (1, PAOk) (log s) /\ pending s = [] /\
    ph s c = InPool /\ alive s c = true /\ wire s c = [] /\
    acked s c = Some na /\ na = canon ka /\ matchesb s c kb = false.
Proof.
  exists [OpenStart; OpenReady 0 true false Accept; UseKeyspace [97%N] false; UseKeyspace [98%N] false;
          UseSend 1 0; UseSend 0 0; UseAck 0 (RSetKeyspace [98%N]); UseAck 0 (RSetKeyspace [97%N]);
          UseDone 0 PAOk; UseDone 1 PAOk].
  eexists. exists 0, ([97%N], false), ([98%N], false), [97%N].
  split; [vm_compute; reflexivity|]. split; [discriminate|]. vm_compute. repeat split; auto.
Qed.

(* ---- the executable violation predicate IS the declarative property ------------------------------ *)


Lemma pending_calls_app a : forall b p, pending_calls (a ++ b) p = pending_calls b (pending_calls a p).
Proof.
  induction a as [|e r IH]; intros b p; cbn [app pending_calls]; [reflexivity|]. destruct e; apply IH.
Qed.

Lemma no_call_snoc t e : no_call t = true -> is_call e = false -> no_call (t ++ [e]) = true.
Proof. intros H He. unfold no_call in *. rewrite forallb_app, H. cbn. rewrite He. reflexivity. Qed.

Lemma nostart_snoc q t e :
  forallb (fun e => negb (starts q e)) t = true -> starts q e = false ->
  forallb (fun e => negb (starts q e)) (t ++ [e]) = true.
Proof. intros H He. rewrite forallb_app, H. cbn. rewrite He. reflexivity. Qed.

Definition cand_at (pre : list ev) (u : nat) (k : ks) : Prop :=
  exists t1 t2, pre = t1 ++ ECall u k :: t2 /\ pending_calls t1 [] = [] /\ no_call t2 = true.
Definition est_at (pre : list ev) (k : ks) : Prop :=
  exists t1 u t2 t3, pre = t1 ++ ECall u k :: t2 ++ ERet u true :: t3 /\
                     pending_calls t1 [] = [] /\ no_call t2 = true /\ no_call t3 = true.
Definition open_at (pre : list ev) (q : nat) (k : ks) : Prop :=
  exists t1 u t2 t3 t4, pre = t1 ++ ECall u k :: t2 ++ ERet u true :: t3 ++ EStart q :: t4 /\
                        pending_calls t1 [] = [] /\ no_call t2 = true /\ no_call t3 = true /\ no_call t4 = true /\
                        forallb (fun e => negb (starts q e)) t4 = true.

Record PInv (pre : list ev) (p : pv) : Prop := mkP {
  p_pend : pv_pend p = pending_calls pre [];
  p_cand : forall u k, pv_cand p = Some (u, k) -> cand_at pre u k;
  p_est : forall k, pv_est p = Some k -> est_at pre k;
  p_open : forall q k, pv_lookup q (pv_open p) = Some k -> open_at pre q k
}.

Lemma app_snoc_assoc {A} (a : list A) x b e : (a ++ x :: b) ++ [e] = a ++ x :: (b ++ [e]).
Proof. rewrite <- app_assoc. reflexivity. Qed.

Lemma cand_ext pre u k e : cand_at pre u k -> is_call e = false -> cand_at (pre ++ [e]) u k.
Proof.
  intros [t1 [t2 [-> [H1 H2]]]] He. exists t1, (t2 ++ [e]). split; [apply app_snoc_assoc|].
  split; [exact H1|apply no_call_snoc; assumption].
Qed.
Lemma est_ext pre k e : est_at pre k -> is_call e = false -> est_at (pre ++ [e]) k.
Proof.
  intros [t1 [u [t2 [t3 [-> [H1 [H2 H3]]]]]]] He. exists t1, u, t2, (t3 ++ [e]).
  split; [rewrite app_snoc_assoc; f_equal; f_equal; apply app_snoc_assoc|].
  repeat split; try assumption. apply no_call_snoc; assumption.
Qed.
Lemma open_ext pre q k e : open_at pre q k -> is_call e = false -> starts q e = false -> open_at (pre ++ [e]) q k.
Proof.
  intros [t1 [u [t2 [t3 [t4 [-> [H1 [H2 [H3 [H4 H5]]]]]]]]]] He Hs. exists t1, u, t2, t3, (t4 ++ [e]).
  split; [rewrite app_snoc_assoc; f_equal; f_equal; rewrite app_snoc_assoc; f_equal; f_equal; apply app_snoc_assoc|].
  repeat split; try assumption; [apply no_call_snoc; assumption|apply nostart_snoc; assumption].
Qed.

Lemma PInv_init : PInv [] pv_init.
Proof. constructor; cbn; intros; try discriminate; reflexivity. Qed.

Lemma PInv_step pre p e p' : PInv pre p -> pv_step p e = Some p' -> PInv (pre ++ [e]) p'.
Proof.
  intros P H. destruct e as [u k|u ok|q|q x]; cbn [pv_step] in H.
  - injection H as <-. constructor; cbn [pv_pend pv_cand pv_est pv_open].
    + rewrite pending_calls_app. cbn [pending_calls]. rewrite (p_pend _ _ P). reflexivity.
    + intros u0 k0 Hc. destruct (pv_pend p) eqn:E; [|discriminate]. injection Hc as <- <-.
      exists pre, []. split; [reflexivity|]. split; [rewrite <- (p_pend _ _ P); exact E|reflexivity].
    + discriminate.
    + intros q k0 Hq. discriminate.
  - assert (Hpend : filter (fun x => negb (Nat.eqb x u)) (pv_pend p) = pending_calls (pre ++ [ERet u ok]) []).
    { rewrite pending_calls_app. cbn [pending_calls]. rewrite (p_pend _ _ P). reflexivity. }
    assert (Hopen : forall q k, pv_lookup q (pv_open p) = Some k -> open_at (pre ++ [ERet u ok]) q k).
    { intros q k Hq. apply open_ext; [apply (p_open _ _ P), Hq|reflexivity|reflexivity]. }
    destruct (pv_cand p) as [[u' k']|] eqn:C.
    + destruct (Nat.eqb u' u) eqn:Eu; injection H as <-; constructor; cbn [pv_pend pv_cand pv_est pv_open]; try exact Hpend; try exact Hopen.
      * discriminate.
      * intros k0 Hk. destruct ok; [|discriminate]. injection Hk as <-. apply Nat.eqb_eq in Eu. subst u'.
        destruct (p_cand _ _ P u k' C) as [t1 [t2 [-> [H1 H2]]]]. exists t1, u, t2, [].
        split; [apply app_snoc_assoc|]. repeat split; assumption.
      * intros u0 k0 Hc. injection Hc as <- <-. apply cand_ext; [apply (p_cand _ _ P), C|reflexivity].
      * intros k0 Hk. apply est_ext; [apply (p_est _ _ P), Hk|reflexivity].
    + injection H as <-. constructor; cbn [pv_pend pv_cand pv_est pv_open]; try exact Hpend; try exact Hopen.
      * discriminate.
      * intros k0 Hk. apply est_ext; [apply (p_est _ _ P), Hk|reflexivity].
  - injection H as <-. constructor; cbn [pv_pend pv_cand pv_est pv_open].
    + rewrite pending_calls_app. cbn [pending_calls]. apply (p_pend _ _ P).
    + intros u k Hc. apply cand_ext; [apply (p_cand _ _ P), Hc|reflexivity].
    + intros k Hk. apply est_ext; [apply (p_est _ _ P), Hk|reflexivity].
    + intros q0 k0 Hq.
      assert (Hother : Nat.eqb q0 q = false -> pv_lookup q0 (pv_open p) = Some k0 -> open_at (pre ++ [EStart q]) q0 k0).
      { intros Hne Hl. apply open_ext; [apply (p_open _ _ P), Hl|reflexivity|cbn [starts]; exact Hne]. }
      destruct (pv_est p) as [k|] eqn:E.
      * cbn [pv_lookup] in Hq. destruct (Nat.eqb q0 q) eqn:Eq.
        -- injection Hq as <-. apply Nat.eqb_eq in Eq. subst q0.
           destruct (p_est _ _ P k E) as [t1 [u [t2 [t3 [-> [H1 [H2 H3]]]]]]]. exists t1, u, t2, t3, [].
           split; [rewrite app_snoc_assoc; f_equal; f_equal; apply app_snoc_assoc|]. repeat split; assumption.
        -- rewrite pv_lookup_filter, Eq in Hq. apply Hother; [reflexivity|exact Hq].
      * rewrite pv_lookup_filter in Hq. destruct (Nat.eqb q0 q) eqn:Eq; [discriminate|]. apply Hother; [reflexivity|exact Hq].
  - assert (P' : PInv (pre ++ [EFrame q x]) p).
    { constructor.
      - rewrite pending_calls_app. cbn [pending_calls]. apply (p_pend _ _ P).
      - intros u k Hc. apply cand_ext; [apply (p_cand _ _ P), Hc|reflexivity].
      - intros k Hk. apply est_ext; [apply (p_est _ _ P), Hk|reflexivity].
      - intros q0 k0 Hq. apply open_ext; [apply (p_open _ _ P), Hq|reflexivity|reflexivity]. }
    destruct (pv_lookup q (pv_open p)) as [k|]; [destruct (oname_eqb x (Some (canon k))); [|discriminate]|];
      injection H as <-; exact P'.
Qed.

Lemma viol_decl_gen rest : forall pre p, PInv pre p -> pv_run p rest = None -> decl_viol (pre ++ rest).
Proof.
  induction rest as [|e r IH]; intros pre p P H; cbn [pv_run] in H; [discriminate|].
  destruct (pv_step p e) as [p'|] eqn:E.
  - replace (pre ++ e :: r) with ((pre ++ [e]) ++ r) by (rewrite <- app_assoc; reflexivity).
    apply (IH _ p'); [eapply PInv_step; eassumption|exact H].
  - destruct e as [u k|u ok|q|q x]; cbn [pv_step] in E; try discriminate.
    + destruct (pv_cand p) as [[u' k']|]; [destruct (Nat.eqb u' u)|]; discriminate.
    + destruct (pv_lookup q (pv_open p)) as [k|] eqn:L; [|discriminate].
      destruct (oname_eqb x (Some (canon k))) eqn:Ex; [discriminate|].
      destruct (p_open _ _ P q k L) as [t1 [u [t2 [t3 [t4 [-> [H1 [H2 [H3 [H4 H5]]]]]]]]]].
      exists t1, u, k, t2, t3, q, t4, x, r. split.
      * rewrite <- !app_assoc. cbn [app]. f_equal. f_equal. rewrite <- !app_assoc. cbn [app]. f_equal. f_equal.
        rewrite <- !app_assoc. reflexivity.
      * repeat split; try assumption. intros Hx. rewrite Hx in Ex.
        assert (oname_eqb (Some (canon k)) (Some (canon k)) = true) by (apply oname_eqb_eq; reflexivity). congruence.
Qed.

(* every `viol` of a scenario rests on the declarative property failing *)
Lemma prop_violb_sound tr : prop_violb tr = true -> decl_viol tr.
Proof.
  unfold prop_violb. intros H. destruct (pv_run pv_init tr) eqn:E; [discriminate|].
  apply (viol_decl_gen tr [] pv_init PInv_init E).
Qed.

(* ---- the converse, for traces in which the call does not "return twice" ---------------------- *)
Lemma pv_run_app a : forall p b,
  pv_run p (a ++ b) = match pv_run p a with Some p' => pv_run p' b | None => None end.
Proof.
  induction a as [|e r IH]; intros p b; cbn [app pv_run]; [reflexivity|].
  destruct (pv_step p e); [apply IH|reflexivity].
Qed.

Lemma pv_run_pend t : forall p p', pv_run p t = Some p' -> pv_pend p' = pending_calls t (pv_pend p).
Proof.
  induction t as [|e r IH]; intros p p' H; cbn [pv_run pending_calls] in *; [injection H as <-; reflexivity|].
  destruct (pv_step p e) as [p1|] eqn:E; [|discriminate]. rewrite (IH _ _ H).
  destruct e as [u k|u ok|q|q x]; cbn [pv_step] in E.
  - injection E as <-. reflexivity.
  - destruct (pv_cand p) as [[u' k']|]; [destruct (Nat.eqb u' u)|]; injection E as <-; reflexivity.
  - injection E as <-. reflexivity.
  - destruct (pv_lookup q (pv_open p)); [destruct (oname_eqb x (Some (canon k)))|]; try discriminate; injection E as <-; reflexivity.
Qed.

Lemma phase2 t u k : forall p,
  no_call t = true -> no_ret u t = true ->
  pv_cand p = Some (u, k) -> pv_est p = None -> pv_open p = [] ->
  pv_run p t = None \/ exists p', pv_run p t = Some p' /\ pv_cand p' = Some (u, k) /\ pv_est p' = None /\ pv_open p' = [].
Proof.
  induction t as [|e r IH]; intros p Hn Hr Hc He Ho; cbn [pv_run].
  - right. exists p. repeat split; assumption.
  - cbn [no_call no_ret forallb] in Hn, Hr. apply andb_true_iff in Hn. destruct Hn as [Hn1 Hn]. apply andb_true_iff in Hr. destruct Hr as [Hr1 Hr].
    destruct e as [u0 k0|u0 ok|q|q x]; cbn [pv_step is_call negb] in *; try discriminate.
    + rewrite Hc. apply negb_true_iff in Hr1. rewrite Nat.eqb_sym in Hr1. rewrite Hr1.
      apply IH; try assumption; cbn [pv_cand pv_est pv_open]; try reflexivity; assumption.
    + rewrite He, Ho. cbn [filter]. apply IH; try assumption; cbn [pv_cand pv_est pv_open]; try reflexivity; assumption.
    + rewrite Ho. cbn [pv_lookup]. apply IH; assumption.
Qed.

Lemma phase3 t k : forall p,
  no_call t = true -> pv_cand p = None -> pv_est p = Some k ->
  pv_run p t = None \/ exists p', pv_run p t = Some p' /\ pv_cand p' = None /\ pv_est p' = Some k.
Proof.
  induction t as [|e r IH]; intros p Hn Hc He; cbn [pv_run].
  - right. exists p. repeat split; assumption.
  - cbn [no_call forallb] in Hn. apply andb_true_iff in Hn. destruct Hn as [Hn1 Hn].
    destruct e as [u0 k0|u0 ok|q|q x]; cbn [pv_step is_call negb] in *; try discriminate.
    + rewrite Hc. apply IH; try assumption; cbn [pv_cand pv_est]; try reflexivity; assumption.
    + apply IH; try assumption; cbn [pv_cand pv_est]; try reflexivity; assumption.
    + destruct (pv_lookup q (pv_open p)) as [k1|]; [destruct (oname_eqb x (Some (canon k1))); [|left; reflexivity]|]; apply IH; assumption.
Qed.

Lemma phase4 t q k : forall p,
  no_call t = true -> forallb (fun e => negb (starts q e)) t = true ->
  pv_cand p = None -> pv_est p = Some k -> pv_lookup q (pv_open p) = Some k ->
  pv_run p t = None \/ exists p', pv_run p t = Some p' /\ pv_lookup q (pv_open p') = Some k.
Proof.
  induction t as [|e r IH]; intros p Hn Hs Hc He Hl; cbn [pv_run].
  - right. exists p. split; [reflexivity|exact Hl].
  - cbn [no_call forallb] in Hn, Hs. apply andb_true_iff in Hn. destruct Hn as [Hn1 Hn]. apply andb_true_iff in Hs. destruct Hs as [Hs1 Hs].
    destruct e as [u0 k0|u0 ok|q'|q' x]; cbn [pv_step is_call negb starts] in *; try discriminate.
    + rewrite Hc. apply IH; try assumption; cbn [pv_cand pv_est pv_open]; try reflexivity; assumption.
    + apply negb_true_iff in Hs1. rewrite He. apply IH; try assumption; cbn [pv_cand pv_est pv_open]; try reflexivity; try assumption.
      cbn [pv_lookup]. rewrite Hs1. rewrite pv_lookup_filter, Hs1. exact Hl.
    + destruct (pv_lookup q' (pv_open p)) as [k1|]; [destruct (oname_eqb x (Some (canon k1))); [|left; reflexivity]|]; apply IH; assumption.
Qed.

Lemma prop_violb_complete t1 u k t2 t3 q t4 x t5 :
  pending_calls t1 [] = [] -> no_call t2 = true -> no_ret u t2 = true -> no_call t3 = true -> no_call t4 = true ->
  forallb (fun e => negb (starts q e)) t4 = true -> x <> Some (canon k) ->
  prop_violb (t1 ++ ECall u k :: t2 ++ ERet u true :: t3 ++ EStart q :: t4 ++ EFrame q x :: t5) = true.
Proof.
  intros H1 H2 Hr H3 H4 Hq Hx. unfold prop_violb.
  rewrite pv_run_app. destruct (pv_run pv_init t1) as [p1|] eqn:R1; [|reflexivity].
  pose proof (pv_run_pend t1 _ _ R1) as Hp1. cbn [pv_init pv_pend] in Hp1. rewrite H1 in Hp1.
  cbn [pv_run pv_step]. rewrite Hp1.
  set (p2 := mkPv [u] (Some (u, k)) None []).
  rewrite pv_run_app.
  destruct (phase2 t2 u k p2 H2 Hr eq_refl eq_refl eq_refl) as [E|[p3 [E [Hc3 [He3 Ho3]]]]]; rewrite E; [reflexivity|].
  cbn [pv_run pv_step]. rewrite Hc3, Nat.eqb_refl.
  set (p4 := mkPv _ None (Some k) (pv_open p3)).
  rewrite pv_run_app.
  destruct (phase3 t3 k p4 H3 eq_refl eq_refl) as [E3|[p5 [E3 [Hc5 He5]]]]; rewrite E3; [reflexivity|].
  cbn [pv_run pv_step]. rewrite He5.
  set (p6 := mkPv (pv_pend p5) (pv_cand p5) (Some k) _).
  rewrite pv_run_app.
  assert (Hl6 : pv_lookup q (pv_open p6) = Some k) by (subst p6; cbn [pv_open pv_lookup]; rewrite Nat.eqb_refl; reflexivity).
  destruct (phase4 t4 q k p6 H4 Hq Hc5 eq_refl Hl6) as [E4|[p7 [E4 Hl7]]]; rewrite E4; [reflexivity|].
  cbn [pv_run pv_step]. rewrite Hl7.
  destruct (oname_eqb x (Some (canon k))) eqn:Ex; [apply oname_eqb_eq in Ex; contradiction|reflexivity].
Qed.

(* ---- the acknowledged keyspace after success, exactly ------------------------------------------------ *)


Lemma eq_ci_canon_fst k raw : eq_ci (canon k) raw = true -> eq_ci (fst k) raw = true.
Proof.
  rewrite !eq_ci_iff. unfold canon. destruct (snd k); [tauto|].
  rewrite map_map. intros H. rewrite <- H. apply map_ext. intros c. symmetry. apply to_lower_idem.
Qed.

(* the acknowledged keyspace after a successful call, exactly: with an honest server it is the canonical
   name of the requested keyspace unless another keyspace whose name differs from the requested one only
   in ASCII case, and whose canonical name is different, was ever used on that connection *)
Lemma after_success_exact k0 ls1 s1 raw cs s2 ls2 s3 a c :
  hrun (init k0) ls1 = Some s1 -> pending s1 = [] ->
  valid_name raw -> step s1 (UseKeyspace raw cs) = Some s2 ->
  no_use ls2 = true -> hrun s2 ls2 = Some s3 ->
  In (unext s1, a) (log s3) -> a <> PAErr ->
  ph s3 c = InPool -> alive s3 c = true ->
  (forall k', In k' (told s3 c) -> eq_ci (fst k') raw = true -> canon k' = canon (raw, cs)) ->
  wire s3 c = [] /\ acked s3 c = Some (canon (raw, cs)).
Proof.
  intros R1 Hp Hv S Hn R2 Hl Ha Hc Hal Hcase.
  destruct (after_success k0 ls1 s1 raw cs s2 ls2 s3 a c (hrun_run _ _ _ R1) Hp Hv S Hn (hrun_run _ _ _ R2) Hl Ha Hc Hal) as [Hw Hm].
  split; [exact Hw|].
  assert (H3 : HInv s3).
  { apply (hrun_inv ls2 s2 s3); [|exact R2]. apply (HInv_step s1 (UseKeyspace raw cs)); [|reflexivity|exact S].
    apply (hrun_inv ls1 (init k0) s1 (HInv_init k0) R1). }
  unfold matchesb in Hm. destruct (acked s3 c) as [n|] eqn:E; [|discriminate]. cbn [fst] in Hm.
  destruct (h_ack s3 H3 c n E) as [k' [Hk' ->]].
  rewrite (Hcase k' Hk' (eq_ci_canon_fst k' raw Hm)). reflexivity.
Qed.

(* in particular: no case issue at all when the names used on the connection are pairwise different
   up to ASCII case or identical as verified names *)
Lemma after_success_exact_simple k0 ls1 s1 raw cs s2 ls2 s3 a c :
  hrun (init k0) ls1 = Some s1 -> pending s1 = [] ->
  valid_name raw -> step s1 (UseKeyspace raw cs) = Some s2 ->
  no_use ls2 = true -> hrun s2 ls2 = Some s3 ->
  In (unext s1, a) (log s3) -> a <> PAErr ->
  ph s3 c = InPool -> alive s3 c = true ->
  (forall k', In k' (told s3 c) -> eq_ci (fst k') raw = true -> k' = (raw, cs)) ->
  wire s3 c = [] /\ acked s3 c = Some (canon (raw, cs)).
Proof.
  intros R1 Hp Hv S Hn R2 Hl Ha Hc Hal Hcase.
  eapply after_success_exact; try eassumption. intros k' Hk' He. rewrite (Hcase k' Hk' He). reflexivity.
Qed.

(* ====================================================================================== *)
(* 6. USE statement texts (model section 8)                                               *)
(* ====================================================================================== *)
Open Scope N_scope.
(* ---- proofs ---------------------------------------------------------------------------------- *)
Lemma is_alpha_In c : is_alpha c = true <-> In c alphabet.
Proof. apply in_alphabet_existsb. Qed.

Lemma name_mem_In i l : name_mem i l = true <-> In i l.
Proof.
  unfold name_mem. rewrite existsb_exists. split.
  - intros [x [Hx He]]. apply name_eqb_eq in He. subst. exact Hx.
  - intros H. exists i. split; [exact H|apply name_eqb_eq; reflexivity].
Qed.

(* the three equations that determine [idents]: empty text, one run, texts joined by a separator *)
Lemma runs_sep cur a x b :
  is_alpha x = false -> runs cur (a ++ x :: b) = runs cur a ++ runs [] b.
Proof.
  intros Hx. revert cur. induction a as [|c r IH]; intros cur; cbn [app runs].
  - rewrite Hx. destruct cur; reflexivity.
  - destruct (is_alpha c); [apply IH|]. destruct cur; [apply IH|]. cbn [app]. f_equal. apply IH.
Qed.

Lemma runs_all cur i :
  forallb is_alpha i = true -> (cur <> [] \/ i <> []) -> runs cur i = [rev cur ++ i].
Proof.
  revert cur. induction i as [|c r IH]; intros cur Hall Hne; cbn [runs].
  - rewrite app_nil_r. destruct cur; [destruct Hne as [H|H]; contradiction|reflexivity].
  - cbn [forallb] in Hall. apply andb_true_iff in Hall. destruct Hall as [Hc Hr]. rewrite Hc.
    rewrite IH; [|exact Hr|left; discriminate]. cbn [rev]. rewrite <- app_assoc. reflexivity.
Qed.

Lemma idents_nil : idents [] = [].
Proof. reflexivity. Qed.
Lemma idents_run i : i <> [] -> forallb is_alpha i = true -> idents i = [i].
Proof. intros Hne Hall. unfold idents. rewrite runs_all; [reflexivity|exact Hall|right; exact Hne]. Qed.
Lemma idents_sep a x b : is_alpha x = false -> idents (a ++ x :: b) = idents a ++ idents b.
Proof. apply runs_sep. Qed.

Lemma valid_all_alpha s : valid_name s -> s <> [] /\ forallb is_alpha s = true.
Proof.
  intros [Hl Hall]. split; [destruct s; [cbn in Hl; lia|discriminate]|].
  apply forallb_forall. intros c Hc. apply is_alpha_In. rewrite Forall_forall in Hall. apply Hall, Hc.
Qed.

(* the identifiers of the model's text: the keyword and the name, nothing else; all characters benign *)
Lemma statement_idents k : valid_name (fst k) ->
  idents (use_statement k) = [kw_use; fst k] /\ forallb benign (use_statement k) = true.
Proof.
  intros Hv. destruct (valid_all_alpha _ Hv) as [Hne Hall]. destruct k as [s cs]. cbn [fst] in *.
  assert (Hkw : idents kw_use = [kw_use]) by (vm_compute; reflexivity).
  assert (Hb : forallb benign s = true).
  { apply forallb_forall. intros c Hc. unfold benign. rewrite forallb_forall in Hall. rewrite (Hall c Hc). reflexivity. }
  unfold use_statement. cbn [snd fst]. destruct cs.
  - split.
    + change (use_prefix ++ [dquote] ++ s ++ [dquote]) with (kw_use ++ 32 :: ([] ++ 34 :: (s ++ 34 :: []))).
      rewrite idents_sep by (vm_compute; reflexivity). rewrite idents_sep by (vm_compute; reflexivity).
      rewrite idents_sep by (vm_compute; reflexivity). rewrite Hkw, idents_nil, (idents_run s Hne Hall). reflexivity.
    + rewrite !forallb_app, Hb. vm_compute. reflexivity.
  - split.
    + change (use_prefix ++ s) with (kw_use ++ 32 :: s).
      rewrite idents_sep by (vm_compute; reflexivity). rewrite Hkw, (idents_run s Hne Hall). reflexivity.
    + rewrite forallb_app, Hb. vm_compute. reflexivity.
Qed.

(* hence the model's text of a valid requested name is never a violation, whatever else was requested *)
Lemma statement_harmless k req : valid_name (fst k) -> In (fst k) req -> harmless req (use_statement k) = true.
Proof.
  intros Hv Hin. destruct (statement_idents k Hv) as [Hi Hb]. unfold harmless. rewrite Hb, Hi.
  cbn [forallb andb]. rewrite (proj2 (name_mem_In _ _) Hin). vm_compute. reflexivity.
Qed.

Lemma text_verdict_model callk k : In k callk -> text_verdict callk (use_statement k) = TOk.
Proof.
  intros Hin. unfold text_verdict.
  rewrite (proj2 (name_mem_In _ _)); [reflexivity|]. apply in_map, Hin.
Qed.

(* what [harmless] says, declaratively *)
Lemma harmless_iff req t :
  harmless req t = true <->
  (forall c, In c t -> In c alphabet \/ c = 32 \/ c = 34 \/ c = 59) /\
  exists kw rest, idents t = kw :: rest /\ eq_ci kw kw_use = true /\ rest <> [] /\ forall i, In i rest -> In i req.
Proof.
  unfold harmless. rewrite andb_true_iff, forallb_forall. split.
  - intros [Hb Hi]. split.
    + intros c Hc. specialize (Hb c Hc). unfold benign in Hb. rewrite !orb_true_iff, !N.eqb_eq, is_alpha_In in Hb. tauto.
    + destruct (idents t) as [|kw rest]; [discriminate|]. apply andb_true_iff in Hi. destruct Hi as [Hi Hr].
      apply andb_true_iff in Hi. destruct Hi as [Hk Hne]. exists kw, rest. repeat split; try assumption.
      * destruct rest; [discriminate|discriminate].
      * intros i Hin. rewrite forallb_forall in Hr. apply name_mem_In, Hr, Hin.
  - intros [Hb [kw [rest [Hi [Hk [Hne Hr]]]]]]. split.
    + intros c Hc. unfold benign. rewrite !orb_true_iff, !N.eqb_eq, is_alpha_In. specialize (Hb c Hc). tauto.
    + rewrite Hi, Hk. destruct rest; [contradiction|]. cbn [andb]. apply forallb_forall. intros i Hin. apply name_mem_In, Hr, Hin.
Qed.

(* the `viol statement-text` verdict, declaratively: the text is not the model's text of any requested
   valid name, and it carries a character that is not benign or its identifiers are not "USE + requested names" *)
Lemma text_viol_iff callk t :
  text_verdict callk t = TViol <->
  (forall k, In k callk -> t <> use_statement k) /\
  ((exists c, In c t /\ ~ (In c alphabet \/ c = 32 \/ c = 34 \/ c = 59)) \/
   ~ (exists kw rest, idents t = kw :: rest /\ eq_ci kw kw_use = true /\ rest <> [] /\
                      forall i, In i rest -> exists k, In k callk /\ fst k = i)).
Proof.
  unfold text_verdict. destruct (name_mem t (map use_statement callk)) eqn:E.
  - split; [discriminate|]. intros [Hn _]. apply name_mem_In in E. apply in_map_iff in E. destruct E as [k [Hk Hin]].
    exfalso. apply (Hn k Hin). symmetry. exact Hk.
  - assert (Hn : forall k, In k callk -> t <> use_statement k).
    { intros k Hin Ht. assert (name_mem t (map use_statement callk) = true); [|congruence].
      apply name_mem_In. rewrite Ht. apply in_map, Hin. }
    destruct (harmless (map fst callk) t) eqn:H.
    + split; [discriminate|]. intros [_ Hbad]. apply harmless_iff in H. destruct H as [Hb [kw [rest [Hi [Hk [Hne Hr]]]]]].
      destruct Hbad as [[c [Hc Hnb]]|Hns]; [destruct (Hnb (Hb c Hc))|]. exfalso. apply Hns.
      exists kw, rest. repeat split; try assumption. intros i Hin. specialize (Hr i Hin). apply in_map_iff in Hr.
      destruct Hr as [k [Hf Hk']]. exists k. split; assumption.
    + split; [intros _|reflexivity]. split; [exact Hn|].
      destruct (forallb benign t) eqn:B.
      * right. intros [kw [rest [Hi [Hk [Hne Hr]]]]].
        assert (harmless (map fst callk) t = true); [|congruence]. apply harmless_iff. split.
        -- intros c Hc. rewrite forallb_forall in B. specialize (B c Hc). unfold benign in B.
           rewrite !orb_true_iff, !N.eqb_eq, is_alpha_In in B. tauto.
        -- exists kw, rest. repeat split; try assumption. intros i Hin. destruct (Hr i Hin) as [k [Hk' Hf]].
           apply in_map_iff. exists k. split; assumption.
      * left. assert (Hex : existsb (fun c => negb (benign c)) t = true).
        { clear -B. induction t as [|c r IH]; [discriminate|]. cbn [forallb existsb] in *.
          destruct (benign c); cbn [negb andb orb] in *; [apply IH, B|reflexivity]. }
        apply existsb_exists in Hex. destruct Hex as [c [Hc Hb]]. exists c. split; [exact Hc|].
        intros Hok. apply negb_true_iff in Hb. unfold benign in Hb.
        assert (is_alpha c || (c =? 32) || (c =? 34) || (c =? 59) = true); [|congruence].
        rewrite !orb_true_iff, !N.eqb_eq, is_alpha_In. tauto.
Qed.

Open Scope nat_scope.
(* ---- a pending use never waits on nothing --------------------------------------------------- *)


Definition SInv (s : pool) : Prop :=
  forall r c, In r (pending s) -> In c (cov r) -> stat r c = Sent ->
  alive s c = true /\ In (uid r, uks r) (wire s c).

Lemma find_use_unique l r : NoDup (map uid l) -> In r l -> find_use l (uid r) = Some r.
Proof.
  intros Hn Hr. unfold find_use. destruct (find (fun r0 => Nat.eqb (uid r0) (uid r)) l) as [r'|] eqn:F.
  - apply find_some in F. destruct F as [Hr' He]. apply Nat.eqb_eq in He.
    f_equal. apply (nodup_uid_unique l); assumption.
  - exfalso. pose proof (find_none _ _ F r Hr) as Hx. cbn beta in Hx. rewrite Nat.eqb_refl in Hx. discriminate.
Qed.

Lemma SInv_unchanged s s' :
  SInv s -> pending s' = pending s -> wire s' = wire s ->
  (forall c, alive s c = true -> (exists r, In r (pending s) /\ In c (cov r)) -> alive s' c = true) -> SInv s'.
Proof.
  intros S Hp Hw Ha r c Hr Hc Hs. rewrite Hp in Hr. destruct (S r c Hr Hc Hs) as [H1 H2].
  split; [apply Ha; [exact H1|exists r; split; assumption]|rewrite Hw; exact H2].
Qed.

Lemma accept_path_same s c r a s' :
  accept_path s c r a = Some s' -> pending s' = pending s /\ wire s' = wire s /\ alive s' = alive s.
Proof. unfold accept_path. destruct (r && negb (is_accept a)); [discriminate|]. intros H. injection H as <-. repeat split. Qed.
Lemma ready_path_same s c e r a s' :
  ready_path s c e r a = Some s' -> pending s' = pending s /\ wire s' = wire s /\ alive s' = alive s.
Proof.
  unfold ready_path. destruct (cur s) as [k|]; [|apply accept_path_same].
  destruct (evks_differs e k); [|apply accept_path_same]. intros H. injection H as <-. repeat split.
Qed.

Lemma SInv_step s l s' : GInv s -> TInv s -> SInv s -> step s l = Some s' -> SInv s'.
Proof.
  intros G T S H. destruct l; cbn [step] in H.
  - injection H as <-. intros r c Hr Hc Hs. ssimpl. destruct (S r c Hr Hc Hs) as [H1 H2]. split; [|exact H2].
    destruct (Nat.eq_dec c (next s)) as [->|Hne]; [apply upd_same|rewrite upd_other by exact Hne; exact H1].
  - destruct (ph s c); try discriminate. destruct ok.
    + destruct (ready_path_same _ _ _ _ _ _ H) as [Hp [Hw Ha]]. apply (SInv_unchanged s); try assumption. intros x Hx _. rewrite Ha. exact Hx.
    + injection H as <-. apply (SInv_unchanged s); try reflexivity; [exact S|]. intros x Hx _. exact Hx.
  - destruct (ph s c) eqn:Ep; try discriminate. destruct r as [rep|].
    + destruct (alive s c); [|discriminate].
      set (s1 := match rep with RSetKeyspace n => set_acked s (upd (acked s) c (Some n)) | _ => s end) in *.
      assert (S1 : SInv s1) by (subst s1; destruct rep; exact S).
      destruct (verify_result k rep).
      * destruct (ready_path_same _ _ _ _ _ _ H) as [Hp [Hw Ha]]. apply (SInv_unchanged s1); try assumption. intros x Hx _. rewrite Ha. exact Hx.
      * injection H as <-. apply (SInv_unchanged s1); try reflexivity; [exact S1|]. intros x Hx _. exact Hx.
      * injection H as <-. apply (SInv_unchanged s1); try reflexivity; [exact S1|]. intros x Hx _. exact Hx.
      * injection H as <-. apply (SInv_unchanged s1); try reflexivity; [exact S1|]. intros x Hx _. exact Hx.
    + injection H as <-. apply (SInv_unchanged s); try reflexivity; [exact S|]. intros x Hx [r [Hr Hc]]. ssimpl.
      destruct (Nat.eq_dec x c) as [->|Hne]; [|rewrite upd_other by exact Hne; exact Hx].
      exfalso. destruct (g_pre s G c) as [_ Hn]; [rewrite Ep; exact I|]. exact (Hn r Hr Hc).
  - injection H as <-. apply (SInv_unchanged s); try reflexivity; [exact S|]. intros x Hx _. exact Hx.
  - destruct (make_verified raw cs) as [k|e]; injection H as <-; [|exact S].
    intros r c Hr Hc Hs. ssimpl. apply in_app_iff in Hr. destruct Hr as [Hr|[<-|[]]]; [apply (S r c Hr Hc Hs)|]. cbn in Hs. discriminate.
  - destruct (find_use (pending s) u) as [r|] eqn:F; [|discriminate]. apply find_use_some in F. destruct F as [Hr Hu].
    destruct (mem c (cov r)); [|discriminate]. destruct (stat r c) eqn:St; try discriminate.
    destruct (alive s c) eqn:Al; injection H as <-; intros r0 x Hr0 Hx Hs; ssimpl.
    + apply in_upd_use in Hr0. destruct Hr0 as [r1 [Hr1 ->]].
      destruct (Nat.eqb (uid r1) u) eqn:Eu.
      * apply Nat.eqb_eq in Eu. assert (r1 = r) by (apply (nodup_uid_unique (pending s)); [apply (t_nodup s T)|assumption|assumption|congruence]). subst r1.
        ssimpl. destruct (Nat.eq_dec x c) as [->|Hne].
        -- split; [exact Al|]. rewrite upd_same. apply in_app_iff. right. left. rewrite Hu. reflexivity.
        -- rewrite upd_other in Hs by exact Hne. destruct (S r x Hr Hx Hs) as [H1 H2]. split; [exact H1|]. rewrite upd_other by exact Hne. exact H2.
      * destruct (S r1 x Hr1 Hx Hs) as [H1 H2]. split; [exact H1|].
        destruct (Nat.eq_dec x c) as [->|Hne]; [rewrite upd_same; apply in_app_iff; left; exact H2|rewrite upd_other by exact Hne; exact H2].
    + apply in_upd_use in Hr0. destruct Hr0 as [r1 [Hr1 ->]].
      destruct (Nat.eqb (uid r1) u) eqn:Eu.
      * ssimpl. destruct (Nat.eq_dec x c) as [->|Hne]; [rewrite upd_same in Hs; discriminate|].
        rewrite upd_other in Hs by exact Hne. apply (S r1 x Hr1 Hx Hs).
      * apply (S r1 x Hr1 Hx Hs).
  - destruct (alive s c) eqn:Al; [|discriminate]. destruct (wire s c) as [|[u k] rest] eqn:W; [discriminate|]. injection H as <-.
    set (s1 := match r with RSetKeyspace n => set_acked s (upd (acked s) c (Some n)) | _ => s end) in *.
    assert (P1 : pending s1 = pending s) by (subst s1; destruct r; reflexivity).
    assert (W1 : wire s1 = wire s) by (subst s1; destruct r; reflexivity).
    assert (A1 : alive s1 = alive s) by (subst s1; destruct r; reflexivity).
    intros r0 x Hr0 Hx Hs. ssimpl. rewrite P1 in Hr0. apply in_upd_use in Hr0. destruct Hr0 as [r1 [Hr1 ->]]. rewrite A1, W1.
    destruct (Nat.eqb (uid r1) u) eqn:Eu.
    + destruct (stat r1 c) eqn:St1.
      * apply (fun H => proj1 (S r1 x Hr1 Hx H)) in Hs as Hal. destruct (S r1 x Hr1 Hx Hs) as [H1 H2]. split; [exact H1|].
        destruct (Nat.eq_dec x c) as [->|Hne]; [congruence|rewrite upd_other by exact Hne; exact H2].
      * ssimpl. destruct (Nat.eq_dec x c) as [->|Hne]; [rewrite upd_same in Hs; discriminate|].
        rewrite upd_other in Hs by exact Hne. destruct (S r1 x Hr1 Hx Hs) as [H1 H2]. split; [exact H1|]. rewrite upd_other by exact Hne. exact H2.
      * destruct (S r1 x Hr1 Hx Hs) as [H1 H2]. split; [exact H1|].
        destruct (Nat.eq_dec x c) as [->|Hne]; [congruence|rewrite upd_other by exact Hne; exact H2].
    + destruct (S r1 x Hr1 Hx Hs) as [H1 H2]. split; [exact H1|].
      destruct (Nat.eq_dec x c) as [->|Hne]; [|rewrite upd_other by exact Hne; exact H2].
      rewrite upd_same. rewrite W in H2. destruct H2 as [Heq|H2]; [|exact H2].
      injection Heq as Heq _. apply Nat.eqb_neq in Eu. congruence.
  - destruct (alive s c && (c <? next s)); [|discriminate]. injection H as <-.
    intros r0 x Hr0 Hx Hs. ssimpl. apply in_map_iff in Hr0. destruct Hr0 as [r1 [<- Hr1]].
    destruct (Nat.eq_dec x c) as [->|Hne].
    + exfalso. destruct (stat r1 c) eqn:St1; ssimpl; try (rewrite St1 in Hs; discriminate).
      rewrite upd_same in Hs. discriminate.
    + assert (Hs1 : stat r1 x = Sent).
      { destruct (stat r1 c); try exact Hs. ssimpl. rewrite upd_other in Hs by exact Hne. exact Hs. }
      assert (Hx1 : In x (cov r1)) by (destruct (stat r1 c); exact Hx).
      assert (Hk : uid (match stat r1 c with Sent => set_stat r1 c (Done (CBroken 0)) | _ => r1 end) = uid r1 /\
                   uks (match stat r1 c with Sent => set_stat r1 c (Done (CBroken 0)) | _ => r1 end) = uks r1)
        by (destruct (stat r1 c); split; reflexivity).
      destruct Hk as [-> ->]. destruct (S r1 x Hr1 Hx1 Hs1) as [H1 H2]. rewrite !upd_other by exact Hne. split; assumption.
  - destruct (alive s c); [discriminate|]. destruct (ph s c); try discriminate; injection H as <-;
      (apply (SInv_unchanged s); try reflexivity; [exact S|]; intros x Hx _; exact Hx).
  - destruct (find_use (pending s) u) as [r|]; [|discriminate].
    destruct (forallb (fun c => is_done (stat r c)) (cov r) && panswer_eqb a (answer_of r)); [|discriminate].
    injection H as <-. intros r0 x Hr0 Hx Hs. ssimpl. apply in_drop_use in Hr0. apply (S r0 x (proj1 Hr0) Hx Hs).
  - destruct (find_use (pending s) u) as [r|]; [|discriminate]. destruct (cov r); [discriminate|].
    injection H as <-. intros r0 x Hr0 Hx Hs. ssimpl. apply in_drop_use in Hr0. apply (S r0 x (proj1 Hr0) Hx Hs).
  - destruct (ph s c); try discriminate. injection H as <-. exact S.
Qed.

Lemma GTS_reachable k0 s : reachable k0 s -> GInv s /\ TInv s /\ SInv s.
Proof.
  intros [ls Hr]. apply (run_inv (fun s => GInv s /\ TInv s /\ SInv s) (fun _ => true)) with (ls := ls) (s := init k0).
  - intros s0 l s1 [G [T S]] _ H. split; [eapply GInv_step; eassumption|]. split; [eapply TInv_step; eassumption|eapply SInv_step; eassumption].
  - apply forallb_forall. reflexivity.
  - split; [apply GInv_init|]. split; [apply TInv_init|]. intros r c [].
  - exact Hr.
Qed.

(* a USE answered with the requested name makes the server-side keyspace of that connection match it *)
Lemma ack_ok_matches s c rep s' u k rest :
  step s (UseAck c rep) = Some s' -> wire s c = (u, k) :: rest -> verify_result k rep = VOk ->
  matchesb s' c k = true /\ wire s' c = rest.
Proof.
  intros H W V. cbn [step] in H. destruct (alive s c); [|discriminate]. rewrite W in H. injection H as <-.
  destruct rep as [n| |]; try discriminate. unfold matchesb. ssimpl. rewrite !upd_same. split; [|reflexivity].
  cbn [verify_result] in V. destruct (eq_ci n (fst k)); [reflexivity|discriminate].
Qed.

(* progress: a pending pool-level use never waits on nothing - one of its own steps is always enabled:
   a USE still to submit, an answer (or the connection's death) still to come on a live connection with
   the frame on the wire, or the answer to the caller *)
Lemma pool_progress k0 s r :
  reachable k0 s -> In r (pending s) ->
  (exists c s', In c (cov r) /\ step s (UseSend (uid r) c) = Some s') \/
  (exists c s', In c (cov r) /\ stat r c = Sent /\ step s (UseAck c RError) = Some s') \/
  (exists s', step s (UseDone (uid r) (answer_of r)) = Some s').
Proof.
  intros R Hr. destruct (GTS_reachable k0 s R) as [G [T S]].
  pose proof (find_use_unique (pending s) r (t_nodup s T) Hr) as Hf.
  destruct (find (fun c => match stat r c with NotSent => true | _ => false end) (cov r)) as [c|] eqn:F1.
  - left. apply find_some in F1. destruct F1 as [Hc Hs]. destruct (stat r c) eqn:St; try discriminate.
    exists c. cbn [step]. rewrite Hf, (proj2 (mem_In c (cov r)) Hc), St. destruct (alive s c); eexists; (split; [exact Hc|reflexivity]).
  - destruct (find (fun c => match stat r c with Sent => true | _ => false end) (cov r)) as [c|] eqn:F2.
    + right. left. apply find_some in F2. destruct F2 as [Hc Hs]. destruct (stat r c) eqn:St; try discriminate.
      destruct (S r c Hr Hc St) as [Hal Hw]. exists c. cbn [step]. rewrite Hal.
      destruct (wire s c) as [|[u k] rest]; [contradiction|]. eexists. repeat split; [exact Hc|exact St].
    + right. right. cbn [step]. rewrite Hf.
      assert (Hall : forallb (fun c => is_done (stat r c)) (cov r) = true).
      { apply forallb_forall. intros c Hc. pose proof (find_none _ _ F1 c Hc) as N1. pose proof (find_none _ _ F2 c Hc) as N2.
        cbn beta in N1, N2. destruct (stat r c); try discriminate. reflexivity. }
      rewrite Hall. assert (panswer_eqb (answer_of r) (answer_of r) = true) by (destruct (answer_of r); reflexivity).
      rewrite H. eexists. reflexivity.
Qed.
