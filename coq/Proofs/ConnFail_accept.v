(* Soundness of what the C10 driver evaluates before every `ok` (Model/ConnFail.v: accept_obs):
   the executable conjunction implies the declarative statement about the recorded traces. *)
From SV Require Import Base.Prelude Base.Bytes Model.ConnFail Proofs.ConnFail_proofs.
Open Scope N_scope.

(* ---------- declarative side ---------- *)
Definition written_on (rid : N) (t : list tev) : Prop := exists s ka, In (TIn s rid ka) t.
Definition no_in_on (s : N) (t : list tev) : Prop := forall s' r' k', In (TIn s' r' k') t -> s' <> s.
(* f is one of the complete frames the chunk starts with: the chunk is complete frames, then f, then a rest *)
Definition complete_frame_in (f : frame) (bs : list N) : Prop :=
  exists fs post, bs = concat (map f_raw fs) ++ f_raw f ++ post /\ Forall frame_ok fs /\ frame_ok f.
(* a complete frame with this body was written on the stream request [rid] was sent with, after the request
   and before any other request used that stream id *)
Definition delivered_for (rid : N) (body : list N) (t : list tev) : Prop :=
  exists t1 s ka t2 bs t3 f,
    t = t1 ++ TIn s rid ka :: t2 ++ TOut bs :: t3 /\ no_in_on s t2 /\
    complete_frame_in f bs /\ f_stream f = s /\ f_body f = body.
(* the body is the runner's echo of (marker, padding length) *)
Definition echo_shape (prefix body : list N) (m p : N) : Prop :=
  exists l mk pad, body = prefix ++ l ++ mk ++ pad /\ List.length l = 4%nat /\ List.length mk = 8%nat /\
    be_dec l = 8 + p /\ be_dec mk = m /\ N.of_nat (List.length pad) = p.

Definition result_ok (prefix : list N) (idem : bool) (conns : list (list tev)) (own : N) (r : cres) : Prop :=
  match r with
  | ROk m p intact =>
      m = own /\ intact = true /\
      exists t body, In t conns /\ delivered_for (rid_of_marker own) body t /\ echo_shape prefix body own p
  | RErr | RCancelled => True
  | RHang | RPanic => False
  end /\
  (idem = false ->
   forall l1 ta l2 tb l3, conns = l1 ++ ta :: l2 ++ tb :: l3 ->
     ~ (written_on (rid_of_marker own) ta /\ written_on (rid_of_marker own) tb)).

(* ---------- frames_of ---------- *)
Lemma frames_of_sound fuel : forall bs f, In f (frames_of fuel bs) -> complete_frame_in f bs.
Proof.
  induction fuel as [|k IH]; intros bs f Hin; cbn [frames_of] in Hin; [destruct Hin|].
  destruct (parse_frame bs) as [|e|g rest] eqn:Ep; [destruct Hin|destruct Hin|].
  pose proof (parse_frame_got _ _ _ Ep) as (Hb & Hok).
  destruct Hin as [<-|Hin].
  - exists [], rest. cbn. split; [exact Hb|]. split; [constructor|exact Hok].
  - destruct (IH _ _ Hin) as (fs & post & E & HF & Hf).
    exists (g :: fs), post. cbn. rewrite Hb, E, <- app_assoc. split; [reflexivity|].
    split; [constructor; [exact Hok|exact HF]|exact Hf].
Qed.

(* ---------- sent_table ---------- *)
Lemma find_remove_other s s' h r : s <> s' -> find_stream s (remove_stream s' h) = Some r -> find_stream s h = Some r.
Proof.
  intros Hne. induction h as [|[a b] t IH]; cbn [remove_stream find_stream]; [discriminate|].
  destruct (a =? s') eqn:E1.
  - apply N.eqb_eq in E1. subst a. destruct (s' =? s) eqn:E2; [apply N.eqb_eq in E2; congruence|]. tauto.
  - cbn [find_stream]. destruct (a =? s); [tauto|exact IH].
Qed.

Lemma sent_table_sound_gen t : forall holders r body, In (r, body) (sent_table holders t) ->
  (exists s t2 bs t3 f, find_stream s holders = Some r /\ t = t2 ++ TOut bs :: t3 /\ no_in_on s t2 /\
      complete_frame_in f bs /\ f_stream f = s /\ f_body f = body) \/
  delivered_for r body t.
Proof.
  induction t as [|e t IH]; intros holders r body Hin; cbn [sent_table] in Hin; [destruct Hin|].
  destruct e as [s' r' ka|bs| | |].
  - destruct (IH _ _ _ Hin) as [(s & t2 & bs & t3 & f & Hf & Et & Hn & Hc & Hs & Hb)|Hd].
    + cbn [find_stream] in Hf. destruct (s' =? s) eqn:E.
      * apply N.eqb_eq in E. subst s'. injection Hf as <-. right.
        exists [], s, ka, t2, bs, t3, f. cbn. rewrite Et. repeat split; assumption.
      * apply N.eqb_neq in E. left. exists s, (TIn s' r' ka :: t2), bs, t3, f.
        split; [apply (find_remove_other s s'); [congruence|exact Hf]|].
        split; [rewrite Et; reflexivity|]. split; [|tauto].
        intros a b c [H|H]; [injection H as <- _ _; exact E|eapply Hn; exact H].
    + right. destruct Hd as (t1 & s & k & t2 & bs & t3 & f & Et & H). exists (TIn s' r' ka :: t1), s, k, t2, bs, t3, f.
      rewrite Et. split; [reflexivity|exact H].
  - apply in_app_or in Hin. destruct Hin as [Hin|Hin].
    + apply in_flat_map in Hin. destruct Hin as (f & Hf & Hin).
      destruct (find_stream (f_stream f) holders) as [r0|] eqn:Ef; [|destruct Hin].
      destruct Hin as [Hin|[]]. injection Hin as <- <-.
      left. exists (f_stream f), [], bs, t, f. repeat split; try assumption; try reflexivity.
      * intros a b c [].
      * eapply frames_of_sound. exact Hf.
    + destruct (IH _ _ _ Hin) as [(s & t2 & bs' & t3 & f & Hf & Et & Hn & H)|Hd].
      * left. exists s, (TOut bs :: t2), bs', t3, f. split; [exact Hf|]. split; [rewrite Et; reflexivity|].
        split; [|exact H]. intros a b c [Hx|Hx]; [discriminate|eapply Hn; exact Hx].
      * right. destruct Hd as (t1 & s & k & t2 & bs' & t3 & f & Et & H). exists (TOut bs :: t1), s, k, t2, bs', t3, f.
        rewrite Et. split; [reflexivity|exact H].
  - destruct (IH _ _ _ Hin) as [(s & t2 & bs' & t3 & f & Hf & Et & Hn & H)|Hd].
    + left. exists s, (TFin :: t2), bs', t3, f. split; [exact Hf|]. split; [rewrite Et; reflexivity|].
      split; [|exact H]. intros a b c [Hx|Hx]; [discriminate|eapply Hn; exact Hx].
    + right. destruct Hd as (t1 & s & k & t2 & bs' & t3 & f & Et & H). exists (TFin :: t1), s, k, t2, bs', t3, f.
      rewrite Et. split; [reflexivity|exact H].
  - destruct (IH _ _ _ Hin) as [(s & t2 & bs' & t3 & f & Hf & Et & Hn & H)|Hd].
    + left. exists s, (TRst :: t2), bs', t3, f. split; [exact Hf|]. split; [rewrite Et; reflexivity|].
      split; [|exact H]. intros a b c [Hx|Hx]; [discriminate|eapply Hn; exact Hx].
    + right. destruct Hd as (t1 & s & k & t2 & bs' & t3 & f & Et & H). exists (TRst :: t1), s, k, t2, bs', t3, f.
      rewrite Et. split; [reflexivity|exact H].
  - destruct (IH _ _ _ Hin) as [(s & t2 & bs' & t3 & f & Hf & Et & Hn & H)|Hd].
    + left. exists s, (TClose :: t2), bs', t3, f. split; [exact Hf|]. split; [rewrite Et; reflexivity|].
      split; [|exact H]. intros a b c [Hx|Hx]; [discriminate|eapply Hn; exact Hx].
    + right. destruct Hd as (t1 & s & k & t2 & bs' & t3 & f & Et & H). exists (TClose :: t1), s, k, t2, bs', t3, f.
      rewrite Et. split; [reflexivity|exact H].
Qed.

Lemma sent_table_sound t r body : In (r, body) (sent_table [] t) -> delivered_for r body t.
Proof.
  intros H. destruct (sent_table_sound_gen t [] r body H) as [(s & t2 & bs & t3 & f & Hf & _)|Hd]; [discriminate|exact Hd].
Qed.

(* ---------- echo_of ---------- *)
Lemma echo_of_sound prefix body m p : echo_of prefix body = Some (m, p) -> echo_shape prefix body m p.
Proof.
  unfold echo_of. destruct (take (List.length prefix) body) as [[pf rest]|] eqn:E1; [|discriminate].
  destruct (list_eq_dec N.eq_dec pf prefix) as [->|]; [|discriminate].
  destruct (take 4 rest) as [[l cell]|] eqn:E2; [|discriminate].
  destruct ((be_dec l =? N.of_nat (List.length cell)) && (8 <=? be_dec l)) eqn:E3; [|discriminate].
  destruct (take 8 cell) as [[mk pad]|] eqn:E4; [|discriminate].
  intros H. injection H as <- <-.
  apply take_some in E1, E2, E4. destruct E1 as [-> _]. destruct E2 as [-> L4]. destruct E4 as [-> L8].
  apply andb_prop in E3. destruct E3 as [Ea Eb]. apply N.eqb_eq in Ea.
  exists l, mk, pad. repeat split; try assumption; try reflexivity.
  rewrite Ea, app_length, L8. lia.
Qed.

(* ---------- seen_on / resend ---------- *)
Lemma seen_on_iff rid t : seen_on rid t = true <-> written_on rid t.
Proof.
  unfold seen_on, written_on. induction t as [|e t IH]; cbn [streams_of].
  - split; [discriminate|intros (s & k & [])].
  - destruct e as [s r ka|bs| | |]; try (rewrite IH; split; intros (s0 & k0 & H); exists s0, k0; [right; exact H|destruct H as [H|H]; [discriminate|exact H]]).
    destruct (r =? rid) eqn:E.
    + apply N.eqb_eq in E. subst r. split; [intros _; exists s, ka; left; reflexivity|reflexivity].
    + apply N.eqb_neq in E. rewrite IH. split; intros (s0 & k0 & H); exists s0, k0.
      * right. exact H.
      * destruct H as [H|H]; [injection H as _ H _; congruence|exact H].
Qed.

Lemma filter_le1 {A} (f : A -> bool) l1 a l2 b l3 :
  (List.length (filter f (l1 ++ a :: l2 ++ b :: l3)) <= 1)%nat -> ~ (f a = true /\ f b = true).
Proof.
  intros H [Ha Hb]. rewrite filter_app in H. cbn [filter] in H. rewrite Ha in H.
  rewrite app_length in H. cbn [List.length] in H. rewrite filter_app in H. cbn [filter] in H. rewrite Hb in H.
  rewrite app_length in H. cbn [List.length] in H. lia.
Qed.

(* ---------- soundness ---------- *)
Lemma res_accept_sound prefix idem conns own r :
  res_accept prefix conns own r = true ->
  resend_ok idem (List.length (filter (seen_on (rid_of_marker own)) conns)) = true ->
  result_ok prefix idem conns own r.
Proof.
  intros Hr Hs. split.
  - destruct r as [m p intact| | | |]; cbn [res_accept] in Hr; try exact I; try discriminate.
    apply andb_prop in Hr. destruct Hr as [Hr Hex]. apply andb_prop in Hr. destruct Hr as [Hm Hi].
    apply N.eqb_eq in Hm. subst m. split; [reflexivity|]. split; [exact Hi|].
    apply existsb_exists in Hex. destruct Hex as (t & Ht & Hex). apply existsb_exists in Hex.
    destruct Hex as ([r' b] & Hin & Hc). cbn [fst snd] in Hc. apply andb_prop in Hc. destruct Hc as [Er Hc].
    apply N.eqb_eq in Er. subst r'.
    destruct (echo_of prefix b) as [[m' p']|] eqn:Ee; [|discriminate].
    apply andb_prop in Hc. destruct Hc as [E1 E2]. apply N.eqb_eq in E1, E2. subst m' p'.
    exists t, b. split; [exact Ht|]. split; [apply sent_table_sound; exact Hin|apply echo_of_sound; exact Ee].
  - intros Hi l1 ta l2 tb l3 Ec [Ha Hb]. subst idem conns. unfold resend_ok in Hs. cbn [orb] in Hs.
    apply Nat.leb_le in Hs. apply (filter_le1 _ _ _ _ _ _ Hs). split; apply seen_on_iff; assumption.
Qed.

Lemma results_accept_sound prefix idem conns : forall rs own,
  results_accept prefix idem conns own rs = true ->
  forall i r, nth_error rs i = Some r -> result_ok prefix idem conns (own + N.of_nat i) r.
Proof.
  induction rs as [|r0 rs IH]; intros own H i r Hn; [destruct i; discriminate|].
  cbn [results_accept] in H. apply andb_prop in H. destruct H as [H H3]. apply andb_prop in H. destruct H as [H1 H2].
  destruct i as [|i]; cbn [nth_error] in Hn.
  - injection Hn as <-. replace (own + N.of_nat 0) with own by lia. apply res_accept_sound; assumption.
  - replace (own + N.of_nat (S i)) with (own + 1 + N.of_nat i) by lia. apply IH; assumption.
Qed.

Lemma accept_sound prefix idem conns rs :
  accept_obs prefix idem conns rs = true ->
  forall i r, nth_error rs i = Some r -> result_ok prefix idem conns (1 + N.of_nat i) r.
Proof. intros H. apply results_accept_sound. exact H. Qed.
