(* Proofs for Model/MurmurRef.v: the unsigned, block-walking formulation of MurmurHash3_x64_128
   (with Cassandra's signed tail bytes) equals, for every byte string, the unsigned reading of the
   Java-style specification hash3_x64_128 of Model/Murmur.v; hence its token is murmur3_token_spec. *)
From SV Require Import Base.Prelude Base.Bytes Model.Murmur Model.MurmurRef Proofs.Murmur_proofs.
Open Scope Z_scope.


Definition U (z : Z) : Z := z mod 2 ^ 64.
Definition Uh (h : Z * Z) : Z * Z := (U (fst h), U (snd h)).

Lemma U_range z : 0 <= U z < 2 ^ 64.
Proof. unfold U. lia. Qed.
Lemma U_U z : U (U z) = U z.
Proof. unfold U. rewrite Z.mod_mod by lia. reflexivity. Qed.
Lemma U_jlong z : U (jlong z) = U z.
Proof. unfold U, jlong. lia. Qed.

Lemma U_jmul a b : U (jmul a b) = umul (U a) (U b).
Proof. unfold jmul, umul, u64. rewrite U_jlong. unfold U. rewrite <- Z.mul_mod by lia. reflexivity. Qed.
Lemma U_jadd a b : U (jadd a b) = uadd (U a) (U b).
Proof. unfold jadd, uadd, u64. rewrite U_jlong. unfold U. rewrite <- Z.add_mod by lia. reflexivity. Qed.
Lemma uadd_U a b : uadd a b = uadd (U a) (U b).
Proof. unfold uadd, u64, U. rewrite <- Z.add_mod by lia. reflexivity. Qed.

Lemma U_lxor a b : U (Z.lxor a b) = Z.lxor (U a) (U b).
Proof.
  unfold U. apply Z.bits_inj'. intros n Hn. destruct (Z.lt_ge_cases n 64) as [Hl|Hg].
  - rewrite Z.mod_pow2_bits_low by lia. rewrite !Z.lxor_spec. rewrite !Z.mod_pow2_bits_low by lia. reflexivity.
  - rewrite Z.mod_pow2_bits_high by lia. rewrite Z.lxor_spec. rewrite !Z.mod_pow2_bits_high by lia. reflexivity.
Qed.
Lemma U_lor a b : U (Z.lor a b) = Z.lor (U a) (U b).
Proof.
  unfold U. apply Z.bits_inj'. intros n Hn. destruct (Z.lt_ge_cases n 64) as [Hl|Hg].
  - rewrite Z.mod_pow2_bits_low by lia. rewrite !Z.lor_spec. rewrite !Z.mod_pow2_bits_low by lia. reflexivity.
  - rewrite Z.mod_pow2_bits_high by lia. rewrite Z.lor_spec. rewrite !Z.mod_pow2_bits_high by lia. reflexivity.
Qed.

Lemma U_jshl a k : 0 <= k -> U (jshl a k) = ushl (U a) k.
Proof.
  intros Hk. unfold jshl, ushl, u64. rewrite U_jlong. unfold U.
  rewrite Z.mul_mod_idemp_l by lia. reflexivity.
Qed.
Lemma U_jushr a k : 0 <= k -> U (jushr a k) = ushr (U a) k.
Proof.
  intros Hk. unfold jushr, ushr. rewrite U_jlong. unfold U.
  assert (0 < 2 ^ k) by (apply Z.pow_pos_nonneg; lia).
  apply Z.mod_small. split; [apply Z.div_pos; lia|].
  apply Z.le_lt_trans with (a mod 2 ^ 64); [|lia]. apply Z.div_le_upper_bound; nia.
Qed.
Lemma U_rotl v n : 0 <= n <= 64 -> U (j_rotl64 v n) = urotl (U v) n.
Proof. intros H. unfold j_rotl64, urotl. rewrite U_lor, U_jshl, U_jushr by lia. reflexivity. Qed.

Lemma U_fmix k : U (j_fmix k) = u_fmix (U k).
Proof.
  unfold j_fmix, u_fmix, jxor. cbv zeta.
  rewrite !U_lxor, !U_jushr, !U_jmul, !U_lxor, !U_jushr, !U_jmul, !U_lxor, !U_jushr by lia.
  reflexivity.
Qed.


Lemma U_c1 : U j_c1 = u_c1. Proof. reflexivity. Qed.
Lemma U_c2 : U j_c2 = u_c2. Proof. reflexivity. Qed.

Lemma U_mix key i h :
  Uh (j_block key i h) =
  u_mix (Uh h) (U (j_getblock key 0 (2 * i))) (U (j_getblock key 0 (2 * i + 1))).
Proof.
  destruct h as [a b]. unfold j_block, u_mix, Uh, jxor. cbn [fst snd]. cbv zeta.
  repeat first [rewrite U_jadd | rewrite U_jmul | rewrite U_lxor | rewrite U_rotl by lia].
  rewrite U_c1, U_c2. reflexivity.
Qed.

Lemma u_le_le_dec b : u_le b = Z.of_N (le_dec b).
Proof. induction b as [|x r IH]; [reflexivity|]. cbn [u_le le_dec]. rewrite IH. lia. Qed.

Lemma U_getblock key o : (o + 8 <= length key)%nat ->
  U (fst (get_i64_le (skipn o key))) = u64 (u_le (firstn 8 (skipn o key))).
Proof.
  intros H. unfold get_i64_le. cbn [fst]. rewrite wrap64_jlong, U_jlong, u_le_le_dec. reflexivity.
Qed.

Lemma U_blocks key n : forall i h, (16 * (i + n) <= length key)%nat ->
  u_blocks n (skipn (16 * i) key) (Uh h) = (Uh (j_body key i n h), skipn (16 * (i + n)) key).
Proof.
  induction n as [|n IH]; intros i h H.
  - cbn [u_blocks j_body]. rewrite Nat.add_0_r. reflexivity.
  - cbn [u_blocks j_body].
    pose proof (fetch_16_at key i ltac:(lia)) as Hf. unfold fetch_16_bytes_from_buf in Hf.
    pose proof (U_getblock key (16 * i) ltac:(lia)) as H1.
    pose proof (U_getblock key (16 * i + 8) ltac:(lia)) as H2.
    destruct (get_i64_le (skipn (16 * i) key)) as [k1 r1] eqn:E1.
    assert (Hr1 : r1 = skipn 8 (skipn (16 * i) key)) by (unfold get_i64_le in E1; inversion E1; reflexivity).
    rewrite Hr1 in Hf. rewrite skipn_skipn' in Hf.
    destruct (get_i64_le (skipn (16 * i + 8) key)) as [k2 r2] eqn:E2.
    assert (Hk1 : k1 = j_getblock key 0 (2 * i)) by congruence.
    assert (Hk2 : k2 = j_getblock key 0 (2 * i + 1)) by congruence.
    clear Hf. cbn [fst] in H1, H2.
    rewrite !skipn_skipn'. rewrite <- H1, <- H2.
    rewrite Hk1, Hk2. rewrite <- U_mix.
    replace (16 * i + 16)%nat with (16 * S i)%nat by lia.
    rewrite IH by lia. f_equal. f_equal. lia.
Qed.


Lemma U_fold (f : nat -> Z) (s : nat -> Z) l : (forall i, 0 <= s i) -> forall a,
  U (fold_left (fun k i => Z.lxor k (wshl (f i) (s i))) l a) =
  fold_left (fun k i => Z.lxor k (ushl (U (f i)) (s i))) l (U a).
Proof.
  intros Hs. induction l as [|x l IH]; intros a; [reflexivity|].
  cbn [fold_left]. rewrite IH. rewrite U_lxor, wshl_jshl, U_jshl by apply Hs. reflexivity.
Qed.

Lemma nth_bytes_ok (b : bytes) j : bytes_ok b -> (nth j b 0 < 256)%N.
Proof.
  intros H. destruct (Nat.lt_ge_cases j (length b)) as [Hl|Hg].
  - unfold bytes_ok in H. rewrite Forall_forall in H. apply H. apply nth_In. exact Hl.
  - rewrite nth_overflow by exact Hg. reflexivity.
Qed.

Lemma U_sbyte key j : bytes_ok key -> U (j_sbyte key j) = u_tail_byte (nth j key 0%N).
Proof.
  intros H. pose proof (nth_bytes_ok key j H) as Hb. unfold j_sbyte, u_tail_byte, U.
  destruct (nth j key 0 <? 128)%N eqn:E; [apply N.ltb_lt in E|apply N.ltb_ge in E]; lia.
Qed.

Lemma j_sbyte_range key j : - 2 ^ 63 <= j_sbyte key j < 2 ^ 63.
Proof. unfold j_sbyte. lia. Qed.

Lemma Uh_00 : Uh (0, 0) = (0, 0).
Proof. reflexivity. Qed.

Lemma U_if (c : bool) x y : U (if c then x else y) = if c then U x else U y.
Proof. destruct c; reflexivity. Qed.

Lemma U_final a b len :
  Uh (j_final a b len) =
  (let h1 := Z.lxor (U a) len in let h2 := Z.lxor (U b) len in
   let h1 := uadd h1 h2 in let h2 := uadd h2 h1 in
   let h1 := u_fmix h1 in let h2 := u_fmix h2 in
   let h1 := uadd h1 h2 in let h2 := uadd h2 h1 in (h1, h2)).
Proof.
  unfold j_final, Uh, jxor. cbv zeta. cbn [fst snd].
  repeat first [rewrite U_jadd | rewrite U_fmix].
  rewrite !U_lxor.
  rewrite (uadd_U (Z.lxor (U a) len)), (uadd_U (Z.lxor (U b) len) (uadd _ _)).
  rewrite !U_lxor, !U_U.
  assert (HU : forall x y, U (uadd x y) = uadd x y) by (intros; unfold uadd, u64, U; rewrite Z.mod_mod by lia; reflexivity).
  rewrite !HU. reflexivity.
Qed.

Theorem u_hash3_spec key : bytes_ok key -> u_hash3_x64_128 key = Uh (hash3_x64_128 key).
Proof.
  intros Hok. unfold u_hash3_x64_128, hash3_x64_128. cbv zeta.
  remember (length key / 16)%nat as q eqn:Hq. remember (length key mod 16)%nat as r eqn:Hr.
  assert (Hr16 : (r < 16)%nat) by lia.
  pose proof (U_blocks key q 0 (0, 0) ltac:(lia)) as Hb.
  change (16 * 0)%nat with O in Hb. cbn [skipn] in Hb.
  rewrite Uh_00 in Hb. rewrite Hb. clear Hb.
  destruct (j_body key 0 q (0, 0)) as [h1 h2]. unfold Uh at 1. cbn [fst snd].
  set (tail := skipn (16 * (0 + q)) key).
  assert (Hlen : length tail = r) by (unfold tail; rewrite skipn_length; lia).
  rewrite Hlen.
  set (b := fun i => j_sbyte key (q * 16 + i)).
  assert (Hbyte : forall i, U (b i) = u_tail_byte (nth i tail 0%N)).
  { intros i. unfold b, tail. rewrite U_sbyte by exact Hok. rewrite nth_skipn'. do 2 f_equal. lia. }
  assert (Hk2 : U (j_tail_k2 b r) = u_tail_word tail 8 r).
  { rewrite <- (tail_k2_eq b r Hr16).
    rewrite (U_fold b (fun i => Z.of_nat ((i - 8) * 8))) by (intros; lia).
    unfold u_tail_word. apply fold_left_ext_in. intros x a _. rewrite Hbyte. do 3 f_equal. lia. }
  assert (Hk1 : U (j_tail_k1 b r) = u_tail_word tail 0 (Nat.min 8 r)).
  { rewrite <- (tail_k1_eq b r (j_sbyte_range key _)).
    rewrite (U_fold b (fun i => Z.of_nat (i * 8))) by (intros; lia).
    unfold u_tail_word. rewrite Nat.sub_0_r. apply fold_left_ext_in. intros x a _. rewrite Hbyte. do 3 f_equal. lia. }
  fold b. rewrite U_final.
  rewrite !U_if. unfold jxor. rewrite !U_lxor, !U_jmul, !U_rotl, !U_jmul by lia.
  rewrite Hk1, Hk2, U_c1, U_c2.
  change (9 <=? r)%nat with (8 <? r)%nat. change (1 <=? r)%nat with (0 <? r)%nat.
  reflexivity.
Qed.

Theorem u_token_spec key : bytes_ok key -> u_token key = murmur3_token_spec key.
Proof.
  intros Hok. unfold u_token, murmur3_token_spec, j_normalize. rewrite (u_hash3_spec key Hok).
  unfold Uh. cbn [fst]. fold (murmur3_spec key).
  pose proof (murmur3_spec_range key) as Hr. cbv zeta.
  assert (Hv : (if U (murmur3_spec key) <? 2 ^ 63 then U (murmur3_spec key) else U (murmur3_spec key) - 2 ^ 64)
               = murmur3_spec key).
  { unfold U. destruct (murmur3_spec key mod 2 ^ 64 <? 2 ^ 63) eqn:E; lia. }
  rewrite Hv. reflexivity.
Qed.


(* the CDC token of a key of at least 8 bytes, written out: the first eight bytes as one
   big-endian two's complement 64-bit integer, Long.MIN_VALUE mapped to Long.MAX_VALUE *)
Theorem cdc_token_explicit key : bytes_ok key -> (8 <= length key)%nat ->
  let b i := Z.of_N (nth i key 0%N) in
  cdc_token_spec key =
  j_normalize (jlong (b 0%nat * 2 ^ 56 + b 1%nat * 2 ^ 48 + b 2%nat * 2 ^ 40 + b 3%nat * 2 ^ 32
                      + b 4%nat * 2 ^ 24 + b 5%nat * 2 ^ 16 + b 6%nat * 2 ^ 8 + b 7%nat)).
Proof.
  intros Hok Hl b. rewrite cdc_token_long by exact Hl. f_equal.
  pose proof (firstn_skipn_seq 0%N key 8 0 ltac:(lia)) as Hf. cbn [skipn seq map Nat.add] in Hf.
  rewrite Hf. unfold dec_signed, to_signed. cbn [length].
  change (8 * N.of_nat 8)%N with 64%N. unfold be_dec. cbn [fold_left].
  unfold b, jlong. clear b Hf.
  pose proof (nth_bytes_ok key 0 Hok) as Hb0. pose proof (nth_bytes_ok key 1 Hok) as Hb1.
  pose proof (nth_bytes_ok key 2 Hok) as Hb2. pose proof (nth_bytes_ok key 3 Hok) as Hb3.
  pose proof (nth_bytes_ok key 4 Hok) as Hb4. pose proof (nth_bytes_ok key 5 Hok) as Hb5.
  pose proof (nth_bytes_ok key 6 Hok) as Hb6. pose proof (nth_bytes_ok key 7 Hok) as Hb7.
  set (b0 := nth 0 key 0%N) in *. set (b1 := nth 1 key 0%N) in *. set (b2 := nth 2 key 0%N) in *.
  set (b3 := nth 3 key 0%N) in *. set (b4 := nth 4 key 0%N) in *. set (b5 := nth 5 key 0%N) in *.
  set (b6 := nth 6 key 0%N) in *. set (b7 := nth 7 key 0%N) in *.
  clearbody b0 b1 b2 b3 b4 b5 b6 b7.
  change (2 ^ (64 - 1))%N with 9223372036854775808%N. change (Z.of_N 64) with 64.
  match goal with |- context [(?v <? _)%N] => destruct (v <? 9223372036854775808)%N eqn:E end;
    [apply N.ltb_lt in E|apply N.ltb_ge in E]; lia.
Qed.

(* the streaming hasher against the unsigned reference, for every chunking *)
Theorem m3_chunking_reference chunks : bytes_ok (concat chunks) ->
  m3_finish (fold_left m3_write chunks m3_init) = u_token (concat chunks).
Proof. intros H. rewrite m3_chunking_all. symmetry. apply u_token_spec. exact H. Qed.
