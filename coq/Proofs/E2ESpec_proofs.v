(* Soundness of the end-to-end checker of Model/E2ESpec.v against the model of speculative
   execution (Model/Spec.v) and its theorems (Proofs/Spec_proofs.v). *)
From SV Require Import Base.Prelude Model.Retry Model.Fiber Model.E2EAttempts Model.E2ESpec.
From SV Require Import Proofs.E2EAttempts_proofs.
From SV Require Model.Spec Proofs.Spec_proofs.
Open Scope N_scope.

(* the gate of the checker is the gate of the model *)
Lemma gate_open_is_gate idem spec :
  gate_open idem spec = Spec.gate (Spec.mkConfig idem (Some spec)).
Proof. unfold gate_open, Spec.gate. cbn. destruct spec, idem; reflexivity. Qed.

(* ---- the walk ---------------------------------------------------------------------------- *)
Lemma walk_run e ls : forall s seen, walk e s ls seen = true -> exists s', Spec.run s ls = Some s'.
Proof.
  induction ls as [|l rest IH]; intros s seen H; cbn [walk Spec.run] in *; [now exists s|].
  destruct (Spec.step s l) as [s'|]; [|discriminate].
  destruct l as [|f out].
  - apply andb_true_iff in H as [_ H]. eauto.
  - apply andb_true_iff in H as [_ H]. destruct (comp_window e f) as [[lo hi]|]; [|discriminate].
    apply andb_true_iff in H as [_ H]. eauto.
Qed.

(* every completion of an accepted schedule is backed by the observation, and the order of the
   completions respects the logged answer instants up to the margin *)
Lemma walk_completions e ls : forall s seen, walk e s ls seen = true ->
  forall pre g out post, ls = pre ++ Spec.Complete g out :: post ->
  complete_ok e g out = true /\
  exists lo hi, comp_window e g = Some (lo, hi)
    /\ (forall x, In x seen -> x <= hi + e_margin e)
    /\ (forall f out2, In (Spec.Complete f out2) pre ->
          exists lo2 hi2, comp_window e f = Some (lo2, hi2) /\ lo2 <= hi + e_margin e).
Proof.
  induction ls as [|l rest IH]; intros s seen H pre g out post Heq.
  - destruct pre; discriminate.
  - cbn [walk] in H. destruct (Spec.step s l) as [s'|]; [|discriminate].
    destruct pre as [|l0 pre].
    + cbn in Heq. injection Heq as -> ->.
      apply andb_true_iff in H as [Hc H]. split; [assumption|].
      destruct (comp_window e g) as [[lo hi]|]; [|discriminate].
      apply andb_true_iff in H as [Hs _]. exists lo, hi. split; [reflexivity|]. split.
      * intros x Hx. rewrite forallb_forall in Hs. apply N.leb_le. auto.
      * intros f out2 [].
    + cbn in Heq. injection Heq as -> ->.
      destruct l0 as [|f0 out0].
      * apply andb_true_iff in H as [_ H].
        destruct (IH _ _ H pre g out post eq_refl) as [Hc [lo [hi [Hw [Hs Hp]]]]].
        split; [assumption|]. exists lo, hi. split; [assumption|]. split; [assumption|].
        intros f out2 [Hd|Hin]; [discriminate|]. eauto.
      * apply andb_true_iff in H as [_ H].
        destruct (comp_window e f0) as [[lo0 hi0]|] eqn:W0; [|discriminate].
        apply andb_true_iff in H as [_ H].
        destruct (IH _ _ H pre g out post eq_refl) as [Hc [lo [hi [Hw [Hs Hp]]]]].
        split; [assumption|]. exists lo, hi. split; [assumption|]. split.
        -- intros x Hx. apply Hs. now right.
        -- intros f out2 [Hd|Hin]; [|eauto].
           injection Hd as <- <-. exists lo0, hi0. split; [assumption|]. apply Hs. now left.
Qed.

(* a completion placed before the timer tick that started fiber k was logged before fiber k's first
   frame arrived *)
Lemma walk_timer e ls : forall s seen, walk e s ls seen = true ->
  forall pre post s1 s2, ls = pre ++ Spec.Timer :: post ->
  Spec.run s pre = Some s1 -> Spec.step s1 Spec.Timer = Some s2 ->
  (Spec.started s1 < Spec.started s2)%nat ->
  forall f out, In (Spec.Complete f out) pre ->
  exists lo hi, comp_window e f = Some (lo, hi) /\ lo <= start_hi e (Spec.started s1).
Proof.
  induction ls as [|l rest IH]; intros s seen H pre post s1 s2 Heq Hrun Hstep Hlt f out Hin.
  - destruct pre; discriminate.
  - destruct pre as [|l0 pre]; [contradiction|].
    cbn in Heq. injection Heq as -> ->.
    cbn [walk] in H. cbn [Spec.run] in Hrun.
    destruct (Spec.step s l0) as [s'|]; [|discriminate].
    (* generalised: every element of [seen] is below the bound too *)
    revert H Hin. revert seen.
    assert (G : forall rest s seen, walk e s rest seen = true ->
              forall pre post s1 s2, rest = pre ++ Spec.Timer :: post ->
              Spec.run s pre = Some s1 -> Spec.step s1 Spec.Timer = Some s2 ->
              (Spec.started s1 < Spec.started s2)%nat ->
              forall x, In x seen -> x <= start_hi e (Spec.started s1)).
    { clear. induction rest as [|l rest IH]; intros s seen H pre post s1 s2 Heq Hrun Hstep Hlt x Hx.
      - destruct pre; discriminate.
      - cbn [walk] in H. destruct pre as [|l0 pre].
        + cbn in Heq. injection Heq as -> ->. cbn in Hrun. injection Hrun as ->.
          rewrite Hstep in H. apply andb_true_iff in H as [H _].
          apply Nat.ltb_lt in Hlt. rewrite Hlt in H. rewrite forallb_forall in H.
          apply N.leb_le. auto.
        + cbn in Heq. injection Heq as -> ->. cbn [Spec.run] in Hrun.
          destruct (Spec.step s l0) as [s'|]; [|discriminate].
          destruct l0 as [|f0 out0].
          * apply andb_true_iff in H as [_ H]. eapply IH; eauto.
          * apply andb_true_iff in H as [_ H].
            destruct (comp_window e f0) as [[lo0 hi0]|]; [|discriminate].
            apply andb_true_iff in H as [_ H]. eapply IH; eauto. now right. }
    intros seen H Hin.
    destruct l0 as [|f0 out0].
    + apply andb_true_iff in H as [_ H]. destruct Hin as [Hd|Hin]; [discriminate|].
      eapply IH; eauto.
    + apply andb_true_iff in H as [_ H].
      destruct (comp_window e f0) as [[lo0 hi0]|] eqn:W0; [|discriminate].
      apply andb_true_iff in H as [_ H].
      destruct Hin as [Hd|Hin]; [|eapply IH; eauto].
      injection Hd as <- <-. exists lo0, hi0. split; [assumption|].
      eapply (G _ _ _ H pre post s1 s2 eq_refl Hrun Hstep Hlt). now left.
Qed.

(* ---- the checker --------------------------------------------------------------------------- *)
(* Acceptance (gate open) exhibits a schedule of `execute` that returns what the caller got;
   by Spec_proofs.execute_result / execute_bound the returned value is the one the property text
   prescribes for the schedule's completion order (first Success / Definitive; else, once all
   started executions completed and none may be started, the last Ignorable), and at most 1 + max
   executions were started. *)
Lemma check_spec_sound p idem cl0 nodes down max interval cs assign frs ls t0 tret margin o co :
  check_spec p idem cl0 nodes down max interval cs assign frs ls t0 tret margin o co = true ->
  let e := mk_env p idem cl0 nodes down interval cs assign frs t0 tret margin co in
  multi_ok p idem cl0 nodes down max cs assign frs = true
  /\ (forall t, (List.length (in_flight t frs) <= 1 + max)%nat /\ NoDup (map f_node (in_flight t frs)))
  /\ starts_ok e = true
  /\ exists s R,
       Spec.run (Spec.init max) ls = Some s
       /\ Spec.returned s = Some R
       /\ Spec.spec_returned max (Spec.started s) (Spec.completions ls) = Some R
       /\ rres_match e R o = true
       /\ (List.length cs <= Spec.started s <= 1 + max)%nat
       /\ ((Spec.started s <= List.length cs)%nat \/ e_exhausted e = true)
       /\ leftovers_ok e s ls = true
       /\ walk e (Spec.init max) ls [] = true.
Proof.
  intros H. cbv zeta. unfold check_spec in H. cbv zeta in H.
  set (e := mk_env p idem cl0 nodes down interval cs assign frs t0 tret margin co) in *.
  apply andb_true_iff in H as [H H5]. apply andb_true_iff in H as [H H4].
  apply andb_true_iff in H as [H H3]. apply andb_true_iff in H as [H H2].
  apply andb_true_iff in H as [H1 Hnd].
  split; [assumption|]. split; [intros t; now apply overlap_ok_sound|]. split; [assumption|].
  destruct (Spec.run (Spec.init max) ls) as [s|] eqn:Hrun; [|discriminate].
  apply andb_true_iff in H5 as [H5 H9]. apply andb_true_iff in H5 as [H5 H8].
  apply andb_true_iff in H5 as [H6 H7].
  destruct (Spec.returned s) as [R|] eqn:Hret; [|discriminate].
  exists s, R. split; [reflexivity|]. split; [assumption|].
  split; [rewrite <- Hret; symmetry; exact (Spec_proofs.execute_result max ls s Hrun)|].
  split; [assumption|].
  apply Nat.leb_le in H6.
  destruct (Spec_proofs.execute_bound max ls s Hrun) as [Hb _].
  split; [lia|]. split.
  - apply orb_true_iff in H7 as [H7|H7]; [left; now apply Nat.leb_le|now right].
  - split; assumption.
Qed.

(* gate closed (in particular: a request that is not idempotent): one fiber run to its end, and at
   no instant two frames of the request in flight *)
Lemma e2e_check13_closed p idem spec cl0 nodes down cs assign frs ls t0 tret margin o co :
  e2e_check13 p idem spec cl0 nodes down cs assign frs ls t0 tret margin o co = true ->
  gate_open idem (option_map fst spec) = None ->
  exists c, cs = [c] /\ check_single p idem cl0 nodes down c frs tret o co = true
            /\ forall t, (List.length (in_flight t frs) <= 1)%nat.
Proof.
  unfold e2e_check13. intros H Hg. rewrite Hg in H.
  destruct cs as [|c [|c2 cs]]; try discriminate.
  apply andb_true_iff in H as [H1 H2]. exists c. split; [reflexivity|]. split; [assumption|].
  intros t. now apply (overlap_ok_sound 1 frs H2 t).
Qed.

Lemma e2e_check13_open p idem spec cl0 nodes down cs assign frs ls t0 tret margin o co max :
  e2e_check13 p idem spec cl0 nodes down cs assign frs ls t0 tret margin o co = true ->
  gate_open idem (option_map fst spec) = Some max ->
  exists interval, spec = Some (max, interval) /\
    check_spec p idem cl0 nodes down max interval cs assign frs ls t0 tret margin o co = true.
Proof.
  unfold e2e_check13. intros H Hg. rewrite Hg in H.
  destruct spec as [[m iv]|]; [|destruct idem; discriminate].
  unfold gate_open in Hg. cbn in Hg. destruct idem; [|discriminate]. injection Hg as ->.
  now exists iv.
Qed.

(* the driver's predicate for rejected observations holds of every accepted one *)
Lemma e2e_check13_prop_overlap p idem spec cl0 nodes down cs assign frs ls t0 tret margin o co :
  e2e_check13 p idem spec cl0 nodes down cs assign frs ls t0 tret margin o co = true ->
  prop_overlap idem (option_map fst spec) frs = true.
Proof.
  unfold e2e_check13, prop_overlap. intros H.
  destruct (gate_open idem (option_map fst spec)) as [max|] eqn:Hg.
  - destruct spec as [[m iv]|]; [|destruct idem; discriminate].
    unfold check_spec in H.
    apply andb_true_iff in H as [H _]. apply andb_true_iff in H as [H _].
    apply andb_true_iff in H as [H _]. now apply andb_true_iff in H as [_ H].
  - destruct cs as [|c [|c2 cs]]; try discriminate. now apply andb_true_iff in H as [_ H].
Qed.

Lemma e2e13_gate p idem spec cl0 nodes down cs assign frs ls t0 tret margin o co :
  e2e_check13 p idem spec cl0 nodes down cs assign frs ls t0 tret margin o co = true ->
  (idem = false \/ spec = None) ->
  exists c, cs = [c] /\ check_single p idem cl0 nodes down c frs tret o co = true
            /\ forall t, (List.length (in_flight t frs) <= 1)%nat.
Proof.
  intros H Hg. apply (e2e_check13_closed _ _ _ _ _ _ _ _ _ _ _ _ _ _ _ H).
  destruct Hg as [-> | ->]; [reflexivity|now destruct idem].
Qed.

(* an answer of the final_definitive class ends its fiber under every built-in policy, in every
   session state, and its error is not ignorable: `execute` returns it as soon as it completes *)
Lemma final_definitive_spec e : final_definitive e = true ->
  Spec.can_be_ignored (Err (Spec.LastAttemptError (conv_err e))) = false /\
  forall s idem cl, snd (decide s (mk_ri e idem cl)) = DontRetry.
Proof.
  destruct e as [| | | | | | |d| | | |]; try discriminate.
  destruct d; try discriminate; intros _; (split; [reflexivity|]);
    intros [ds|w|] idem cl; cbn; try reflexivity;
    try (destruct (is_serial cl); reflexivity);
    destruct cl; reflexivity.
Qed.

(* C06's frame predicate (a frame follows only a retry decision, the request-level frame bound) holds
   of everything the C13 checker accepts *)
Lemma e2e_check13_prop_frames p idem spec cl0 nodes down cs assign frs ls t0 tret margin o co :
  e2e_check13 p idem spec cl0 nodes down cs assign frs ls t0 tret margin o co = true ->
  prop_frames p idem (option_map fst spec) (List.length nodes) frs = true.
Proof.
  intros H. destruct (gate_open idem (option_map fst spec)) as [max|] eqn:Hg.
  - destruct (e2e_check13_open _ _ _ _ _ _ _ _ _ _ _ _ _ _ _ _ H Hg) as [iv [_ Hc]].
    pose proof (proj1 (check_spec_sound _ _ _ _ _ _ _ _ _ _ _ _ _ _ _ _ Hc)) as Hm.
    unfold prop_frames. rewrite Hg. apply orb_true_iff. right. apply Nat.leb_le.
    eapply multi_bound; eassumption.
  - destruct (e2e_check13_closed _ _ _ _ _ _ _ _ _ _ _ _ _ _ _ H Hg) as [c [_ [Hs _]]].
    eapply single_prop_frames; eassumption.
Qed.
