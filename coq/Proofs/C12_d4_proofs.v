(* Proofs for Model/Route.v (property C12), deepening round 4 (proof only).
   The driver's input constructors and checks (pool_of, assoc_pool, cluster_wfb, pool_wfb) and the
   pool acceptor, characterised; kept in a file of its own so that nothing importing
   Route_proofs is rebuilt. *)
From SV Require Import Base.Prelude Base.Bytes Model.Ring Model.Replicas Model.Plan Model.Shard Model.Route.
From SV Require Model.Murmur Model.PartKey Model.Tablets.
From SV Require Import Proofs.Route_proofs.
Open Scope Z_scope.

(* ---- 1. acceptors / input checks as equivalences ---------------------------------------- *)
(* the pool acceptor IS the conjunction C12_conn_accept_sound concludes *)
Lemma accept_conn_shard_iff p want sh : accept_conn_shard p want sh = true <->
  (pool_has_shard p sh = true /\
   (pool_sharder p <> None -> pool_has_shard p (shard_u16 want) = true -> sh = shard_u16 want)).
Proof.
  split; [apply accept_conn_shard_sound|].
  intros [H1 H2]. unfold accept_conn_shard. rewrite H1. cbn [andb].
  destruct (pool_sharder p) eqn:Es; [|reflexivity].
  destruct (pool_has_shard p (shard_u16 want)) eqn:Eh; [|reflexivity].
  apply N.eqb_eq. apply H2; [discriminate|reflexivity].
Qed.

Lemma assoc_pool_notin l n : ~ In n (map fst l) -> assoc_pool l n = PoolDown.
Proof.
  induction l as [|[k v] r IH]; cbn [assoc_pool map fst In]; intros H; [reflexivity|].
  destruct (N.eqb k n) eqn:E.
  - apply N.eqb_eq in E. exfalso. apply H. now left.
  - apply IH. intros Hi. apply H. now right.
Qed.

Lemma assoc_pool_in l n : assoc_pool l n <> PoolDown -> In (n, assoc_pool l n) l.
Proof.
  induction l as [|[k v] r IH]; cbn [assoc_pool In]; intros H; [congruence|].
  destruct (N.eqb k n) eqn:E.
  - apply N.eqb_eq in E. subst k. now left.
  - right. now apply IH.
Qed.

Lemma cluster_wfb_sound cl nodes : cluster_wfb cl nodes = true ->
  (forall n, ~ In n nodes -> c_pool cl n = PoolDown) -> cluster_ok cl.
Proof.
  unfold cluster_wfb. intros H Hout. rewrite forallb_forall in H.
  assert (Hn : forall n, pool_wf (c_pool cl n) /\ (c_enabled cl n = false -> c_pool cl n = PoolDown)).
  { intros n. destruct (in_dec N.eq_dec n nodes) as [Hi|Hi].
    - specialize (H n Hi). apply andb_true_iff in H. destruct H as [Hw He]. split.
      + now apply pool_wfb_sound.
      + intros Hen. rewrite Hen in He. cbn [orb] in He.
        destruct (c_pool cl n); [reflexivity|discriminate|discriminate].
    - rewrite (Hout n Hi). split; [exact I|reflexivity]. }
  split; intros n; apply Hn.
Qed.

Lemma cluster_wfb_nodes cl nodes n : cluster_wfb cl nodes = true -> In n nodes ->
  pool_wfb (c_pool cl n) = true /\ (c_connected cl n = true -> c_enabled cl n = true).
Proof.
  unfold cluster_wfb, c_connected. intros H Hi. rewrite forallb_forall in H. specialize (H n Hi).
  apply andb_true_iff in H. destruct H as [Hw He]. split; [assumption|].
  intros Hc. rewrite Hc in He. cbn [negb] in He. now rewrite orb_false_r in He.
Qed.

(* as the driver builds it: c_pool = assoc_pool over the node list that cluster_wfb is run on *)
Lemma cluster_wfb_assoc_ok cl l : (forall n, c_pool cl n = assoc_pool l n) ->
  cluster_wfb cl (map fst l) = true -> cluster_ok cl.
Proof.
  intros Hp H. apply (cluster_wfb_sound cl (map fst l) H).
  intros n Hn. rewrite Hp. now apply assoc_pool_notin.
Qed.

(* ---- 2. pool_wfb decides pool_wf; cluster_wfb decides cluster_ok on the listed nodes ------ *)
Lemma combine_nrange_nth {A} (l : list A) lo i v d :
  In (i, v) (combine (nrange lo (List.length l)) l) ->
  (lo <= i)%N /\ nth (N.to_nat i - N.to_nat lo) l d = v /\ In v l.
Proof.
  revert lo. induction l as [|x r IH]; intros lo; cbn [List.length nrange combine In]; [intros []|].
  intros [H|H].
  - injection H as <- <-. split; [lia|]. rewrite Nat.sub_diag. split; [reflexivity|now left].
  - apply IH in H. destruct H as (Hlo & Hn & Hin). split; [lia|]. split; [|now right].
    replace (N.to_nat i - N.to_nat lo)%nat with (S (N.to_nat i - N.to_nat (N.succ lo))) by lia.
    exact Hn.
Qed.

Lemma pool_wfb_complete p : pool_wf p -> pool_wfb p = true.
Proof.
  destruct p as [|conns|nr msb slots]; cbn [pool_wfb pool_wf]; [trivial| |].
  - intros [H1 H2]. apply andb_true_iff. split.
    + destruct conns; [congruence|reflexivity].
    + apply forallb_forall. intros c Hc. now rewrite (H2 c Hc).
  - intros [[H1 H2] H3]. rewrite !andb_true_iff. split; [split|].
    + now apply Nat.eqb_eq.
    + apply forallb_forall. intros [i v] Hin. cbn [fst snd]. apply forallb_forall. intros c Hc.
      destruct (combine_nrange_nth slots 0%N i v [] Hin) as (_ & Hn & _).
      rewrite Nat.sub_0_r in Hn. subst v. destruct (H2 _ _ Hc) as [Ha Hb].
      apply andb_true_iff. split; [now apply sharder_eqb_spec|]. apply N.eqb_eq. lia.
    + destruct (concat slots); [congruence|reflexivity].
Qed.

Lemma pool_wfb_iff p : pool_wfb p = true <-> pool_wf p.
Proof. split; [apply pool_wfb_sound|apply pool_wfb_complete]. Qed.

Lemma cluster_wfb_complete cl nodes : cluster_ok cl -> cluster_wfb cl nodes = true.
Proof.
  intros [Hw He]. unfold cluster_wfb. apply forallb_forall. intros n _.
  apply andb_true_iff. split; [apply pool_wfb_complete, Hw|].
  destruct (c_enabled cl n) eqn:E; [reflexivity|]. now rewrite (He n E).
Qed.

(* ---- 3. pool_of, the driver's pool constructor ------------------------------------------- *)
Lemma In_combine_nrange {A} (l : list A) x :
  In x l <-> exists i, In (i, x) (combine (nrange 0 (List.length l)) l).
Proof.
  split.
  - intros Hi. destruct (In_nth l x x Hi) as (j & Hj & Ej).
    exists (nth j (nrange 0 (List.length l)) 0%N).
    replace (nth j (nrange 0 (List.length l)) 0%N, x)
      with (nth j (combine (nrange 0 (List.length l)) l) (0%N, x))
      by (rewrite combine_nth by apply nrange_length; now rewrite Ej).
    apply nth_In. rewrite combine_length, nrange_length. lia.
  - intros (i & Hi). eapply in_combine_r; eassumption.
Qed.

Lemma slots_of_In nr msb shards c :
  In c (concat (slots_of nr msb shards)) <->
  exists id s, In (id, s) (combine (nrange 0 (List.length shards)) shards) /\ (s < nr)%N /\
               c = mkConn id (Some (s, nr, msb)).
Proof.
  unfold slots_of. rewrite in_concat. split.
  - intros (v & Hv & Hc). apply in_map_iff in Hv. destruct Hv as (i & <- & Hi).
    apply in_map_iff in Hc. destruct Hc as ([id s] & <- & Hf). apply filter_In in Hf.
    destruct Hf as [Hin He]. cbn [fst snd] in *. apply N.eqb_eq in He. subst s.
    exists id, i. split; [assumption|]. split; [|reflexivity].
    apply nrange_In in Hi. lia.
  - intros (id & s & Hin & Hlt & ->).
    exists (map (fun ks => mkConn (fst ks) (Some (s, nr, msb)))
                (filter (fun ks => N.eqb (snd ks) s) (combine (nrange 0 (List.length shards)) shards))).
    split.
    + apply in_map_iff. exists s. split; [reflexivity|]. apply nrange_In. lia.
    + apply in_map_iff. exists (id, s). split; [reflexivity|]. apply filter_In. split; [assumption|].
      cbn [snd]. apply N.eqb_refl.
Qed.

(* the pool the driver builds from the observed shard list of a sharded node has a connection
   of shard s exactly when s was observed (and is a shard of the node) *)
Lemma pool_of_sharded_has nr msb shards s :
  pool_has_shard (pool_of (Some (nr, msb)) shards) s = true <-> In s shards /\ (s < nr)%N.
Proof.
  rewrite pool_has_shard_spec. destruct shards as [|s0 r] eqn:E.
  - cbn. split; [intros (c & [] & _)|intros [[] _]].
  - rewrite <- E. assert (Hp : pool_of (Some (nr, msb)) shards = PoolSharded nr msb (slots_of nr msb shards))
      by (rewrite E; reflexivity).
    rewrite Hp. cbn [pool_conns]. split.
    + intros (c & Hc & Hs). apply slots_of_In in Hc. destruct Hc as (id & s' & Hin & Hlt & ->).
      cbn in Hs. subst s'. split; [|assumption]. apply In_combine_nrange. eauto.
    + intros [Hi Hlt]. apply In_combine_nrange in Hi. destruct Hi as (id & Hi).
      exists (mkConn id (Some (s, nr, msb))). split; [|reflexivity].
      apply slots_of_In. eauto.
Qed.

Lemma pool_of_unsharded_has shards s :
  pool_has_shard (pool_of None shards) s = true <-> shards <> [] /\ s = 0%N.
Proof.
  rewrite pool_has_shard_spec. destruct shards as [|s0 r].
  - cbn. split; [intros (c & [] & _)|intros [H _]; congruence].
  - cbn [pool_of pool_conns]. split.
    + intros (c & Hc & Hs). apply in_map_iff in Hc. destruct Hc as (i & <- & _). cbn in Hs.
      split; [discriminate|now symmetry].
    + intros [_ ->]. exists (mkConn 0 None). split; [|reflexivity].
      apply in_map_iff. exists 0%N. split; [reflexivity|]. cbn. now left.
Qed.

Lemma pool_of_sharder sharder shards : shards <> [] -> pool_sharder (pool_of sharder shards) = sharder.
Proof. destruct shards; [congruence|]. intros _. destruct sharder as [[nr msb]|]; reflexivity. Qed.

Lemma pool_of_connected sharder shards :
  pool_connected (pool_of sharder shards) = true <-> shards <> [].
Proof.
  destruct shards; cbn; [split; [discriminate|congruence]|].
  destruct sharder as [[nr msb]|]; cbn; split; intros; try discriminate; reflexivity.
Qed.

Lemma combine_map_self {A B} (f : A -> B) l : combine l (map f l) = map (fun x => (x, f x)) l.
Proof. induction l as [|x r IH]; cbn; [reflexivity|now rewrite IH]. Qed.

Lemma pool_of_wf sharder shards :
  (forall nr msb, sharder = Some (nr, msb) -> shards <> [] -> exists s, In s shards /\ (s < nr)%N) ->
  pool_wf (pool_of sharder shards).
Proof.
  intros H. destruct shards as [|s0 r] eqn:E; [exact I|]. rewrite <- E in *.
  assert (Hne : shards <> []) by (rewrite E; discriminate).
  destruct sharder as [[nr msb]|].
  - replace (pool_of (Some (nr, msb)) shards) with (PoolSharded nr msb (slots_of nr msb shards))
      by (rewrite E; reflexivity).
    apply pool_wfb_sound. cbn [pool_wfb].
    assert (Hl : List.length (slots_of nr msb shards) = N.to_nat nr)
      by (unfold slots_of; now rewrite map_length, nrange_length).
    rewrite !andb_true_iff. split; [split|].
    + now apply Nat.eqb_eq.
    + rewrite Hl. unfold slots_of at 1. rewrite combine_map_self. apply forallb_forall.
      intros [i v] Hin. apply in_map_iff in Hin. destruct Hin as (i' & Hi & _).
      injection Hi as -> <-. cbn [fst snd]. apply forallb_forall. intros c Hc.
      apply in_map_iff in Hc. destruct Hc as (ks & <- & _). cbn.
      rewrite !N.eqb_refl. reflexivity.
    + destruct (H nr msb eq_refl Hne) as (s & Hs & Hlt).
      apply In_combine_nrange in Hs. destruct Hs as (id & Hid).
      assert (Hc : In (mkConn id (Some (s, nr, msb))) (concat (slots_of nr msb shards)))
        by (apply slots_of_In; eauto).
      destruct (concat (slots_of nr msb shards)); [destruct Hc|reflexivity].
  - rewrite E. cbn [pool_of pool_wf]. split; [cbn; discriminate|].
    intros c Hc. apply in_map_iff in Hc. destruct Hc as (i & <- & _). reflexivity.
Qed.
