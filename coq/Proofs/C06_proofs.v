(* Property C06: the generic facts of Fiber_proofs.v instantiated with the three built-in
   retry policies (Retry_proofs.v).  Everything is about [fiber p idem cl0 plan outs] for
   EVERY plan, initial consistency and outcome stream (of any length). *)
From SV Require Import Base.Prelude Model.Retry Model.Fiber Proofs.Retry_proofs Proofs.Fiber_proofs.
Open Scope Z_scope.

Definition has_policy (p : policy) (s : session) : Prop := session_policy s = p.

Lemma has_policy_step p s ri s' d : decide s ri = (s', d) -> has_policy p s -> has_policy p s'.
Proof. unfold has_policy. intros H <-. exact (decide_policy s ri s' d H). Qed.

Lemma has_policy_new p : has_policy p (new_session p).
Proof. exact (new_session_policy p). Qed.

Lemma fiber_Exec p idem cl0 plan outs tr r :
  fiber p idem cl0 plan outs = (tr, r) <->
  Exec decide idem plan (new_session p) cl0 None outs tr r.
Proof. apply fiber_run_iff. Qed.

(* -- safe resend ------------------------------------------------------------ *)
Lemma fiber_safe_resend p cl0 plan outs tr r :
  fiber p false cl0 plan outs = (tr, r) ->
  forall pre t c e d post, tr = pre ++ EvAttempt t c (AErr e d) :: post -> post <> [] ->
  safe_errorb e = true.
Proof.
  intros H pre t c e d post Heq Hpost. apply fiber_Exec in H.
  destruct (Exec_nonlast _ _ _ _ _ _ _ _ _ _ _ H pre t c _ post Heq Hpost) as [e' [d' [Ho Hr]]].
  inversion Ho; subst e' d'.
  destruct (Exec_provenance _ _ _ _ (fun _ => True) (fun _ _ _ _ _ _ => I)
              _ _ _ _ _ _ _ H I pre t c e d post Heq) as [s1 [s2 [_ Hd]]].
  exact (decide_safe s1 _ s2 d Hd eq_refl Hr).
Qed.

Lemma fiber_unsafe_final p cl0 plan outs tr r :
  fiber p false cl0 plan outs = (tr, r) ->
  forall pre t c e d post, tr = pre ++ EvAttempt t c (AErr e d) :: post ->
  named_unsafe_errorb e = true ->
  d = DontRetry /\ post = [] /\ r = RFailed (LAttempt e).
Proof.
  intros H pre t c e d post Heq Hu. apply fiber_Exec in H.
  destruct (Exec_provenance _ _ _ _ (fun _ => True) (fun _ _ _ _ _ _ => I)
              _ _ _ _ _ _ _ H I pre t c e d post Heq) as [s1 [s2 [_ Hd]]].
  pose proof (decide_named_unsafe s1 _ s2 d Hd eq_refl Hu) as ->.
  split; [reflexivity|].
  exact (Exec_terminal _ _ _ _ _ _ _ _ _ _ _ H pre t c _ post Heq).
Qed.

(* -- Default at a serial consistency ------------------------------------------ *)
Lemma fiber_serial_default idem cl0 plan outs tr r :
  fiber PDefault idem cl0 plan outs = (tr, r) ->
  forall pre t c e d post, tr = pre ++ EvAttempt t c (AErr e d) :: post ->
  is_serial c = true ->
  d = DontRetry /\ post = [] /\ r = RFailed (LAttempt e).
Proof.
  intros H pre t c e d post Heq Hs. apply fiber_Exec in H.
  destruct (Exec_provenance _ _ _ _ (has_policy PDefault) (has_policy_step PDefault)
              _ _ _ _ _ _ _ H (has_policy_new PDefault) pre t c e d post Heq)
    as [s1 [s2 [Hp Hd]]].
  destruct s1 as [ds | w | ]; try discriminate Hp.
  destruct (decide_default_serial ds _ s2 d Hd Hs) as [-> _].
  split; [reflexivity|].
  exact (Exec_terminal _ _ _ _ _ _ _ _ _ _ _ H pre t c _ post Heq).
Qed.

Lemma fiber_serial_default_one idem cl0 plan outs tr r :
  fiber PDefault idem cl0 plan outs = (tr, r) -> is_serial cl0 = true ->
  (List.length (attempts tr) <= 1)%nat.
Proof.
  intros H Hs. apply fiber_Exec in H.
  refine (Exec_no_retry _ _ _ _ (has_policy PDefault) _ _ _ _ _ _ _ _ H (has_policy_new PDefault)).
  intros s ri s' d Hp Hc Hd. destruct s as [ds | w | ]; try discriminate Hp.
  rewrite <- Hc in Hs. destruct (decide_default_serial ds ri s' d Hd Hs) as [-> _]. reflexivity.
Qed.

(* -- bounds and termination ------------------------------------------------- *)
Lemma fiber_bound p idem cl0 plan outs tr r :
  fiber p idem cl0 plan outs = (tr, r) ->
  (List.length (attempts tr) + List.length (conn_fails tr)
   <= List.length plan + same_target_budget p)%nat.
Proof.
  intros H. apply fiber_Exec in H. rewrite attempts_conn_fails, <- new_session_budget.
  exact (Exec_bound _ _ _ _ budget decide_budget _ _ _ _ _ _ _ H).
Qed.

Lemma new_session_same_target p h :
  (List.length (filter is_same_target (decide_history (new_session p) h))
   <= same_target_budget p)%nat.
Proof. rewrite <- new_session_budget. apply decide_history_same_target. Qed.

Lemma fiber_fallthrough_one idem cl0 plan outs tr r :
  fiber PFallthrough idem cl0 plan outs = (tr, r) -> (List.length (attempts tr) <= 1)%nat.
Proof.
  intros H. apply fiber_Exec in H.
  refine (Exec_no_retry _ _ _ _ (has_policy PFallthrough) _ _ _ _ _ _ _ _ H
            (has_policy_new PFallthrough)).
  intros s ri s' d Hp _ Hd. rewrite (decide_fallthrough s ri s' d Hd Hp). reflexivity.
Qed.

Lemma fiber_terminates p idem cl0 plan outs tr r :
  fiber p idem cl0 plan outs = (tr, r) ->
  (List.length plan + same_target_budget p <= List.length outs)%nat -> r <> RPending.
Proof.
  intros H Hl Hr. apply fiber_Exec in H.
  destruct (Exec_pending _ _ _ _ budget decide_budget _ _ _ _ _ _ _ H Hr) as [_ Hlt].
  rewrite new_session_budget in Hlt. lia.
Qed.

Lemma fiber_pending_consumed p idem cl0 plan outs tr r :
  fiber p idem cl0 plan outs = (tr, r) -> r = RPending -> List.length tr = List.length outs.
Proof.
  intros H Hr. apply fiber_Exec in H.
  exact (proj1 (Exec_pending _ _ _ _ budget decide_budget _ _ _ _ _ _ _ H Hr)).
Qed.

Lemma fiber_extend p idem cl0 plan outs tr r more :
  fiber p idem cl0 plan outs = (tr, r) -> r <> RPending ->
  fiber p idem cl0 plan (outs ++ more) = (tr, r).
Proof.
  intros H Hr. apply fiber_Exec. apply fiber_Exec in H. now apply Exec_extend.
Qed.

(* -- exactness corollaries ---------------------------------------------------- *)
Lemma fiber_after_error p idem cl0 plan outs tr r :
  fiber p idem cl0 plan outs = (tr, r) ->
  forall pre t c e d ev post, tr = pre ++ EvAttempt t c (AErr e d) :: ev :: post ->
  (exists nc, d = RetrySameTarget nc /\ ev_target ev = t) \/ (exists nc, d = RetryNextTarget nc).
Proof.
  intros H pre t c e d ev post Heq. apply fiber_Exec in H.
  destruct (Exec_nonlast _ _ _ _ _ _ _ _ _ _ _ H pre t c _ (ev :: post) Heq ltac:(discriminate))
    as [e' [d' [Ho Hr]]].
  inversion Ho; subst e' d'. destruct d as [nc | nc | | ]; try discriminate Hr.
  - left. exists nc. split; [reflexivity|].
    exact (Exec_same_target _ _ _ _ _ _ _ _ _ _ _ H pre t c e nc ev post Heq).
  - right. now exists nc.
Qed.

Lemma fiber_terminal p idem cl0 plan outs tr r :
  fiber p idem cl0 plan outs = (tr, r) ->
  forall pre t c o post, tr = pre ++ EvAttempt t c o :: post ->
  match o with
  | AOk => post = [] /\ r = RCompleted t
  | AErr e DontRetry => post = [] /\ r = RFailed (LAttempt e)
  | AErr e IgnoreWriteError => post = [] /\ r = RIgnoredWriteError t
  | AErr _ _ => True
  end.
Proof. intros H. apply fiber_Exec in H. exact (Exec_terminal _ _ _ _ _ _ _ _ _ _ _ H). Qed.

Lemma fiber_provenance p idem cl0 plan outs tr r :
  fiber p idem cl0 plan outs = (tr, r) ->
  forall pre t c e d post, tr = pre ++ EvAttempt t c (AErr e d) :: post ->
  exists s1 s2, session_policy s1 = p /\ decide s1 (mk_ri e idem c) = (s2, d).
Proof.
  intros H. apply fiber_Exec in H.
  exact (Exec_provenance _ _ _ _ (has_policy p) (has_policy_step p)
           _ _ _ _ _ _ _ H (has_policy_new p)).
Qed.

Lemma fiber_first_cl p idem cl0 plan outs tr r :
  fiber p idem cl0 plan outs = (tr, r) -> forall c l, attempt_cls tr = c :: l -> c = cl0.
Proof. intros H. apply fiber_Exec in H. exact (Exec_first_cl _ _ _ _ _ _ _ _ _ _ _ H). Qed.

Lemma fiber_cl_carried p idem cl0 plan outs tr r :
  fiber p idem cl0 plan outs = (tr, r) ->
  forall pre t c e d post c' l, tr = pre ++ EvAttempt t c (AErr e d) :: post ->
  attempt_cls post = c' :: l -> c' = unwrap_or (carried d) c.
Proof. intros H. apply fiber_Exec in H. exact (Exec_cl_carried _ _ _ _ _ _ _ _ _ _ _ H). Qed.

(* -- consistency along a run -------------------------------------------------- *)
Definition spent (s : session) : Prop :=
  session_policy s <> PDowngrading \/ s = SDowngrading true.

Lemma spent_stays s ri s' d : decide s ri = (s', d) -> spent s -> spent s' /\ carried d = None.
Proof.
  intros H [Hp | ->].
  - split.
    + left. now rewrite (decide_policy s ri s' d H).
    + apply (decide_carried_none s ri s' d H). intros w ->. now apply Hp.
  - split; [|exact (decide_down_spent ri s' d H)].
    destruct (decide_down_shape true ri s' d H) as [w' [-> Hw]]. right. now rewrite Hw.
Qed.

Lemma carry_spends s ri s' d c : decide s ri = (s', d) -> carried d = Some c -> spent s'.
Proof.
  intros H Hc. destruct s as [ds | w | ].
  - rewrite (decide_carried_none _ ri s' d H) in Hc; [discriminate | intros w; discriminate].
  - cbn [decide] in H. destruct (down_decide w ri) as [w' d'] eqn:E. inversion H; subst.
    destruct (down_decide_carried w ri w' d c E Hc) as [_ [-> _]]. now right.
  - rewrite (decide_carried_none _ ri s' d H) in Hc; [discriminate | intros w; discriminate].
Qed.

Lemma fiber_cl_const p idem cl0 plan outs tr r :
  fiber p idem cl0 plan outs = (tr, r) -> p <> PDowngrading ->
  Forall (eq cl0) (attempt_cls tr).
Proof.
  intros H Hp. apply fiber_Exec in H.
  refine (Exec_spent_const _ _ _ _ spent spent_stays _ _ _ _ _ _ _ H _).
  left. now rewrite new_session_policy.
Qed.

Lemma fiber_one_change p idem cl0 plan outs tr r :
  fiber p idem cl0 plan outs = (tr, r) ->
  exists n c' m, attempt_cls tr = repeat cl0 n ++ repeat c' m.
Proof.
  intros H. apply fiber_Exec in H.
  exact (Exec_one_change _ _ _ _ spent spent_stays carry_spends _ _ _ _ _ _ _ H).
Qed.

(* what a change of consistency between two consecutive attempts of Downgrading means *)
Definition downgrade_ok (c : consistency) (idem : bool) (e : attempt_error) (d : decision)
           (c' : consistency) : Prop :=
  is_serial c = false /\ d = RetrySameTarget (Some c') /\
  exists known_ok required,
    (e = EDbError (DbUnavailable required known_ok)
     \/ (exists dp, e = EDbError (DbReadTimeout known_ok required dp) /\ known_ok < required)
     \/ (e = EDbError (DbWriteTimeout known_ok required WUnloggedBatch) /\ idem = true))
    /\ exists n, cl_count c' = Some n
         /\ (n <= known_ok \/ (c = CEachQuorum /\ c' = COne /\ known_ok <= 0))
         /\ (known_ok < required -> 1 <= required -> n <= required
             /\ (n < required \/ (c = CEachQuorum /\ c' = COne /\ required = 1))).

Lemma decide_downgrade_ok w ri s' d c' :
  decide (SDowngrading w) ri = (s', d) -> carried d = Some c' ->
  w = false /\ s' = SDowngrading true /\
  downgrade_ok (ri_consistency ri) (ri_idempotent ri) (ri_error ri) d c'.
Proof.
  cbn [decide]. destruct (down_decide w ri) as [w' d'] eqn:E. intros H Hc; inversion H; subst.
  destruct (down_decide_carried w ri w' d c' E Hc)
    as [Hw [Hw' [Hs [Hd [k [rq [He [n [Hn Hle]]]]]]]]].
  subst w w'. split; [reflexivity | split; [reflexivity|]].
  split; [exact Hs | split; [exact Hd|]]. exists k, rq. split; [exact He|].
  exists n. split; [exact Hn | split; [exact Hle|]].
  intros Hk Hr. destruct Hle as [Hle | [Hq [Hc1 Hk0]]]; [lia|].
  subst c'. cbn in Hn. inversion Hn; subst n. split; [lia|].
  destruct (Z.eq_dec rq 1); [right; auto | left; lia].
Qed.

Lemma fiber_downgrade_sound idem cl0 plan outs tr r :
  fiber PDowngrading idem cl0 plan outs = (tr, r) ->
  forall pre t c e d post c' l, tr = pre ++ EvAttempt t c (AErr e d) :: post ->
  attempt_cls post = c' :: l -> c' <> c ->
  downgrade_ok c idem e d c'.
Proof.
  intros H pre t c e d post c' l Heq Hcl Hne.
  pose proof (fiber_cl_carried _ _ _ _ _ _ _ H pre t c e d post c' l Heq Hcl) as Hc'.
  destruct (carried d) as [c1|] eqn:Hcar; cbn [unwrap_or] in Hc'; [subst c1 | congruence].
  destruct (fiber_provenance _ _ _ _ _ _ _ H pre t c e d post Heq) as [s1 [s2 [Hp Hd]]].
  destruct s1 as [ds | w | ]; try discriminate Hp.
  exact (proj2 (proj2 (decide_downgrade_ok w _ s2 d c' Hd Hcar))).
Qed.

(* -- the trace predicate of the driver holds of every model run ------------------ *)
Lemma Exec_resend_ok p idem plan s cl last outs tr r :
  Exec decide idem plan s cl last outs tr r -> has_policy p s -> resend_ok p idem tr = true.
Proof.
  induction 1 as [ s cl last outs | t rest s cl last | t rest s cl last outs tr r H IH
                 | t rest s cl last outs | t rest s cl last e outs s' nc tr r E H IH
                 | t rest s cl last e outs s' nc tr r E H IH
                 | t rest s cl last e outs s' E | t rest s cl last e outs s' E ];
    intros Hp; try reflexivity.
  - specialize (IH Hp). cbn [resend_ok]. destruct tr; [reflexivity | exact IH].
  - specialize (IH (has_policy_step p _ _ _ _ E Hp)). cbn [resend_ok].
    destruct tr as [|ev tr']; [reflexivity|]. rewrite IH, andb_true_r.
    apply andb_true_iff; split.
    + destruct idem eqn:Hi; [reflexivity|]. exact (decide_safe _ _ _ _ E eq_refl eq_refl).
    + destruct p; try reflexivity. destruct (is_serial cl) eqn:Hs; [|reflexivity].
      destruct s as [ds | w | ]; try discriminate Hp.
      destruct (decide_default_serial ds _ _ _ E Hs) as [Hd _]. discriminate Hd.
  - specialize (IH (has_policy_step p _ _ _ _ E Hp)). cbn [resend_ok].
    destruct tr as [|ev tr']; [reflexivity|]. rewrite IH, andb_true_r.
    apply andb_true_iff; split.
    + destruct idem eqn:Hi; [reflexivity|]. exact (decide_safe _ _ _ _ E eq_refl eq_refl).
    + destruct p; try reflexivity. destruct (is_serial cl) eqn:Hs; [|reflexivity].
      destruct s as [ds | w | ]; try discriminate Hp.
      destruct (decide_default_serial ds _ _ _ E Hs) as [Hd _]. discriminate Hd.
Qed.

Lemma fiber_trace_prop_ok p idem cl0 plan outs tr r :
  fiber p idem cl0 plan outs = (tr, r) -> prop_trace_ok p idem (List.length plan) tr = true.
Proof.
  intros H. unfold prop_trace_ok. apply andb_true_iff; split.
  - apply fiber_Exec in H. exact (Exec_resend_ok p _ _ _ _ _ _ _ _ H (has_policy_new p)).
  - apply Nat.leb_le. pose proof (fiber_bound _ _ _ _ _ _ _ H) as B.
    rewrite attempts_conn_fails in B. exact B.
Qed.

(* -- "exactly the attempts the policy decided": the trace walks the plan as the recorded decisions
      say, and the result is the one the end of the trace prescribes ------------------------------ *)
Lemma Exec_follow idem plan s cl last outs tr r :
  Exec decide idem plan s cl last outs tr r -> follow plan last tr = Some r.
Proof.
  induction 1 as [ s cl last outs | t rest s cl last | t rest s cl last outs tr r H IH
                 | t rest s cl last outs | t rest s cl last e outs s' nc tr r E H IH
                 | t rest s cl last e outs s' nc tr r E H IH
                 | t rest s cl last e outs s' E | t rest s cl last e outs s' E ];
    cbn [follow ev_target is_nil_ev]; try rewrite N.eqb_refl; cbn [negb]; try reflexivity; assumption.
Qed.

Lemma fiber_followed p idem cl0 plan outs tr r :
  fiber p idem cl0 plan outs = (tr, r) -> follow plan None tr = Some r.
Proof. intros H. apply fiber_Exec in H. exact (Exec_follow _ _ _ _ _ _ _ _ H). Qed.

Lemma follow_next_target plan : forall pre last t c e nc ev post r,
  follow plan last (pre ++ EvAttempt t c (AErr e (RetryNextTarget nc)) :: ev :: post) = Some r ->
  exists p1 p2, plan = p1 ++ t :: ev_target ev :: p2.
Proof.
  intros pre. revert plan. induction pre as [|a pre IH]; intros plan last t c e nc ev post r H.
  - cbn [app follow] in H. destruct plan as [|t0 plan']; [discriminate|].
    cbn [ev_target] in H. destruct (t =? t0)%N eqn:Et; [|discriminate]. apply N.eqb_eq in Et. subst t0.
    cbn [negb] in H. cbn [follow] in H. destruct plan' as [|t1 plan'']; [discriminate|].
    destruct (ev_target ev =? t1)%N eqn:E1; [|discriminate]. apply N.eqb_eq in E1. subst t1.
    now exists [], plan''.
  - cbn [app follow] in H. destruct plan as [|t0 plan']; [discriminate|].
    destruct (negb (ev_target a =? t0)%N); [discriminate|].
    assert (Hne : is_nil_ev (pre ++ EvAttempt t c (AErr e (RetryNextTarget nc)) :: ev :: post) = false)
      by (destruct pre; reflexivity).
    destruct a as [ta|ta ca [|ea da]].
    + destruct (IH _ _ _ _ _ _ _ _ _ H) as [p1 [p2 ->]]. now exists (t0 :: p1), p2.
    + rewrite Hne in H. discriminate.
    + destruct da as [n1|n1| |]; try (rewrite Hne in H; discriminate).
      * destruct (IH _ _ _ _ _ _ _ _ _ H) as [p1 [p2 Hp]]. now exists p1, p2.
      * destruct (IH _ _ _ _ _ _ _ _ _ H) as [p1 [p2 ->]]. now exists (t0 :: p1), p2.
Qed.

(* after RetryNextTarget the next event is on the successor of that target in the plan *)
Lemma fiber_next_target p idem cl0 plan outs tr r :
  fiber p idem cl0 plan outs = (tr, r) ->
  forall pre t c e nc ev post, tr = pre ++ EvAttempt t c (AErr e (RetryNextTarget nc)) :: ev :: post ->
  exists p1 p2, plan = p1 ++ t :: ev_target ev :: p2.
Proof.
  intros H pre t c e nc ev post ->. apply fiber_followed in H.
  exact (follow_next_target _ _ _ _ _ _ _ _ _ _ H).
Qed.

Lemma fiber_trace_prop_full p idem cl0 plan outs tr r :
  fiber p idem cl0 plan outs = (tr, r) -> prop_trace_full p idem plan tr r = true.
Proof.
  intros H. unfold prop_trace_full. rewrite (fiber_trace_prop_ok _ _ _ _ _ _ _ H). cbn [andb].
  unfold followed_ok. rewrite (fiber_followed _ _ _ _ _ _ _ H).
  destruct (fiber_result_eq_dec r r); [reflexivity|contradiction].
Qed.

(* one fiber, on the attempts only: a failed attempt is followed by another attempt only if the
   session, fed the errors in order, decided a retry (sessions are not touched by failed connection
   acquisitions) *)
Lemma Exec_attempt_decisions idem (plan : list N) s cl last outs tr r :
  Exec decide idem plan s cl last outs tr r ->
  forall t c e d rest, attempts tr = EvAttempt t c (AErr e d) :: rest ->
  exists s', decide s (mk_ri e idem c) = (s', d) /\
             (rest <> [] -> is_retry d = true /\
                exists (plan' : list N) cl' last' outs' (tr' : list (event N)),
                  Exec decide idem plan' s' cl' last' outs' tr' r /\ attempts tr' = rest).
Proof.
  induction 1 as [ s cl last outs | t0 rest0 s cl last | t0 rest0 s cl last outs tr r H IH
                 | t0 rest0 s cl last outs | t0 rest0 s cl last e0 outs s' nc tr r E H IH
                 | t0 rest0 s cl last e0 outs s' nc tr r E H IH
                 | t0 rest0 s cl last e0 outs s' E | t0 rest0 s cl last e0 outs s' E ];
    intros t c e d rest Ha; cbn in Ha; try discriminate.
  - exact (IH _ _ _ _ _ Ha).
  - injection Ha as <- <- <- <- <-. exists s'. split; [assumption|]. intros _. split; [reflexivity|].
    do 5 eexists. split; [exact H|reflexivity].
  - injection Ha as <- <- <- <- <-. exists s'. split; [assumption|]. intros _. split; [reflexivity|].
    do 5 eexists. split; [exact H|reflexivity].
  - injection Ha as <- <- <- <- <-. exists s'. split; [assumption|]. intros Hn. now contradiction Hn.
  - injection Ha as <- <- <- <- <-. exists s'. split; [assumption|]. intros Hn. now contradiction Hn.
Qed.

Lemma Exec_attempt_ok_last idem (plan : list N) s cl last outs tr r :
  Exec decide idem plan s cl last outs tr r ->
  forall t c rest, attempts tr = EvAttempt t c AOk :: rest -> rest = [].
Proof.
  induction 1 as [ s cl last outs | t0 rest0 s cl last | t0 rest0 s cl last outs tr r H IH
                 | t0 rest0 s cl last outs | t0 rest0 s cl last e0 outs s' nc tr r E H IH
                 | t0 rest0 s cl last e0 outs s' nc tr r E H IH
                 | t0 rest0 s cl last e0 outs s' E | t0 rest0 s cl last e0 outs s' E ];
    intros t c rest Ha; cbn in Ha; try discriminate.
  - exact (IH _ _ _ Ha).
  - now injection Ha as _ _ <-.
Qed.

(* -- provenance, constructively: the recorded decisions are the decisions of ONE session of the
      request's policy fed with the history of failed attempts (error, idempotence, consistency of
      that attempt), in order ------------------------------------------------------------------- *)
Lemma Exec_decisions idem (plan : list N) s cl last outs tr r :
  Exec decide idem plan s cl last outs tr r ->
  attempt_decisions tr = decide_history s (attempt_infos idem tr).
Proof.
  induction 1 as [ s cl last outs | t rest s cl last | t rest s cl last outs tr r H IH
                 | t rest s cl last outs | t rest s cl last e outs s' nc tr r E H IH
                 | t rest s cl last e outs s' nc tr r E H IH
                 | t rest s cl last e outs s' E | t rest s cl last e outs s' E ];
    cbn [attempt_decisions attempt_infos decide_history]; try reflexivity; try assumption;
    rewrite E; try (now rewrite IH); reflexivity.
Qed.

Lemma fiber_decisions p idem cl0 plan outs tr r :
  fiber p idem cl0 plan outs = (tr, r) ->
  attempt_decisions tr = decide_history (new_session p) (attempt_infos idem tr).
Proof. intros H. apply fiber_Exec in H. exact (Exec_decisions _ _ _ _ _ _ _ _ H). Qed.

(* -- cutting a fiber short (client timeout, a speculative fiber dropped) adds no attempt ------------ *)
Lemma finish_not_pending (last : option last_err) : @finish N last <> RPending.
Proof. destruct last; discriminate. Qed.

(* a pending (cancelled) run is a PREFIX of every longer run: cutting a fiber short adds no attempt *)
Lemma Exec_pending_prefix idem (plan : list N) s cl last outs tr r :
  Exec decide idem plan s cl last outs tr r -> r = RPending ->
  forall more, exists tr' r', Exec decide idem plan s cl last (outs ++ more) (tr ++ tr') r'.
Proof.
  induction 1 as [ s cl last outs | t rest s cl last | t rest s cl last outs tr r H IH
                 | t rest s cl last outs | t rest s cl last e outs s' nc tr r E H IH
                 | t rest s cl last e outs s' nc tr r E H IH
                 | t rest s cl last e outs s' E | t rest s cl last e outs s' E ];
    intros Hr more; try discriminate Hr.
  - exfalso. exact (finish_not_pending _ Hr).
  - cbn [app]. eexists _, _. apply fn_Exec.
  - destruct (IH Hr more) as [tr' [r' H']]. exists tr', r'. cbn [app]. now constructor.
  - destruct (IH Hr more) as [tr' [r' H']]. exists tr', r'. cbn [app]. eapply Ex_same; eassumption.
  - destruct (IH Hr more) as [tr' [r' H']]. exists tr', r'. cbn [app]. eapply Ex_next; eassumption.
Qed.

Lemma fiber_pending_prefix p idem cl0 plan outs tr :
  fiber p idem cl0 plan outs = (tr, RPending) ->
  forall more, exists tr' r', fiber p idem cl0 plan (outs ++ more) = (tr ++ tr', r').
Proof.
  intros H more. apply fiber_Exec in H.
  destruct (Exec_pending_prefix _ _ _ _ _ _ _ _ H eq_refl more) as [tr' [r' H']].
  exists tr', r'. now apply fiber_Exec.
Qed.

(* -- the outcome stream of a finished run can be read off its trace ------------------------------- *)
(* the outcome stream a trace was produced from, read off the trace: one outcome per event *)
Definition outs_of_trace (tr : list (event N)) : list outcome :=
  map (fun ev => match ev with
                 | EvConnFail _ => OConnFail
                 | EvAttempt _ _ AOk => OSuccess
                 | EvAttempt _ _ (AErr e _) => OError e
                 end) tr.

Lemma Exec_canonical_outs idem (plan : list N) s cl last outs tr r :
  Exec decide idem plan s cl last outs tr r -> r <> RPending ->
  Exec decide idem plan s cl last (outs_of_trace tr) tr r.
Proof.
  induction 1 as [ s cl last outs | t rest s cl last | t rest s cl last outs tr r H IH
                 | t rest s cl last outs | t rest s cl last e outs s' nc tr r E H IH
                 | t rest s cl last e outs s' nc tr r E H IH
                 | t rest s cl last e outs s' E | t rest s cl last e outs s' E ];
    intros Hr; cbn [outs_of_trace map].
  - constructor.
  - contradiction.
  - constructor. now apply IH.
  - constructor.
  - eapply Ex_same; [eassumption|now apply IH].
  - eapply Ex_next; [eassumption|now apply IH].
  - eapply Ex_dont; eassumption.
  - eapply Ex_ignore; eassumption.
Qed.

Lemma fiber_canonical_outs p idem cl0 plan outs tr r :
  fiber p idem cl0 plan outs = (tr, r) -> r <> RPending ->
  fiber p idem cl0 plan (outs_of_trace tr) = (tr, r).
Proof.
  intros H Hr. apply fiber_Exec. apply fiber_Exec in H. eapply Exec_canonical_outs; eassumption.
Qed.
