(* Proofs for Model/Murmur.v (property C03): the streaming Murmur3 hasher computes, for every
   way of chunking the input, Cassandra's one-shot hash3_x64_128 of the concatenation; the CDC
   hasher computes the CDC token of the concatenation. *)
From SV Require Import Base.Prelude Base.Bytes Model.Murmur.
Open Scope Z_scope.

(* ===== part 1 ===== *)

Lemma wrap64_mod z : wrap64 z = (z + 2 ^ 63) mod 2 ^ 64 - 2 ^ 63.
Proof.
  unfold wrap64, ones64, two63, two64. rewrite Z.land_ones by lia.
  destruct (z mod 2 ^ 64 <? 2 ^ 63) eqn:E; lia.
Qed.

Lemma wrap64_jlong z : wrap64 z = jlong z.
Proof. rewrite wrap64_mod. reflexivity. Qed.

Lemma wrap64_range z : - 2 ^ 63 <= wrap64 z < 2 ^ 63.
Proof. rewrite wrap64_mod. lia. Qed.

Lemma wrap64_id z : - 2 ^ 63 <= z < 2 ^ 63 -> wrap64 z = z.
Proof. intros H. rewrite wrap64_mod. lia. Qed.

Lemma wrap64_mod_eq a b : a mod 2 ^ 64 = b mod 2 ^ 64 -> wrap64 a = wrap64 b.
Proof. intros H. rewrite !wrap64_mod. lia. Qed.

Lemma wrap128_mod z : wrap128 z = (z + 2 ^ 127) mod 2 ^ 128 - 2 ^ 127.
Proof.
  unfold wrap128, ones128, two127, two128. rewrite Z.land_ones by lia.
  destruct (z mod 2 ^ 128 <? 2 ^ 127) eqn:E; lia.
Qed.

Lemma wshl_jshl a k : 0 <= k -> wshl a k = jshl a k.
Proof. intros H. unfold wshl, jshl. rewrite Z.shiftl_mul_pow2 by exact H. apply wrap64_jlong. Qed.

Lemma lshr_jushr a k : 0 <= k -> lshr a k = jushr a k.
Proof.
  intros H. unfold lshr, jushr, as_u64, ones64. rewrite Z.land_ones by lia.
  rewrite Z.shiftr_div_pow2 by exact H. apply wrap64_jlong.
Qed.

Lemma rotl64_j v n : 0 <= n <= 64 -> rotl64 v n = j_rotl64 v n.
Proof. intros H. unfold rotl64, j_rotl64. rewrite wshl_jshl, lshr_jushr by lia. reflexivity. Qed.

Lemma fmix_j k : fmix k = j_fmix k.
Proof.
  unfold fmix, j_fmix, jxor, wmul, jmul. rewrite !lshr_jushr by lia. rewrite !wrap64_jlong. reflexivity.
Qed.

(* the last line of finish: the low 64 bits of (h2 << 64) | h1 are h1 *)
Lemma final_word hh1 hh2 : - 2 ^ 63 <= hh1 < 2 ^ 63 ->
  wrap64 (Z.lor (wrap128 (Z.shiftl hh2 64)) hh1) = hh1.
Proof.
  intros H. rewrite <- (wrap64_id hh1) at 2 by exact H. apply wrap64_mod_eq.
  rewrite <- !Z.land_ones by lia. rewrite Z.land_lor_distr_l.
  replace (Z.land (wrap128 (Z.shiftl hh2 64)) (Z.ones 64)) with 0; [reflexivity|].
  rewrite Z.land_ones by lia. rewrite wrap128_mod, Z.shiftl_mul_pow2 by lia. lia.
Qed.

(* ===== part 2 ===== *)

Lemma wmul_j a b : wmul a b = jmul a b.
Proof. apply wrap64_jlong. Qed.
Lemma wadd_j a b : wadd a b = jadd a b.
Proof. apply wrap64_jlong. Qed.
Lemma C1_j : C1 = j_c1.
Proof. apply wrap64_jlong. Qed.
Lemma C2_j : C2 = j_c2.
Proof. apply wrap64_jlong. Qed.

(* ---- list facts ---- *)
Lemma skipn_cons_nth {A} (d : A) l off : (off < length l)%nat ->
  skipn off l = nth off l d :: skipn (S off) l.
Proof.
  revert off; induction l as [|x l IH]; intros off H; cbn [length] in H; [lia|].
  destruct off as [|off]; [reflexivity|]. cbn [skipn nth]. apply IH. lia.
Qed.

Lemma firstn_skipn_seq {A} (d : A) l n off : (off + n <= length l)%nat ->
  firstn n (skipn off l) = map (fun i => nth (off + i) l d) (seq 0 n).
Proof.
  revert off; induction n as [|n IH]; intros off H; [reflexivity|].
  rewrite (skipn_cons_nth d) by lia. cbn [firstn seq map]. rewrite Nat.add_0_r. f_equal.
  rewrite IH by lia. rewrite <- seq_shift, map_map. apply map_ext. intros i. f_equal. lia.
Qed.

Lemma skipn_skipn' {A} (l : list A) a : forall b, skipn a (skipn b l) = skipn (b + a) l.
Proof.
  revert l; intros l b; revert l; induction b as [|b IH]; intros l; [reflexivity|].
  destruct l as [|x l]; [now rewrite !skipn_nil|]. cbn [skipn Nat.add]. apply IH.
Qed.

Lemma firstn_app_exact {A} (a b : list A) n : length a = n -> firstn n (a ++ b) = a.
Proof.
  intros <-. rewrite firstn_app, Nat.sub_diag, firstn_all. cbn [firstn]. apply app_nil_r.
Qed.

Lemma skipn_app_le {A} (a b : list A) n : (n <= length a)%nat -> skipn n (a ++ b) = skipn n a ++ b.
Proof.
  intros H. rewrite skipn_app. replace (n - length a)%nat with O by lia. reflexivity.
Qed.

Lemma skipn_app_exact {A} (a b : list A) n : length a = n -> skipn n (a ++ b) = b.
Proof.
  intros <-. rewrite skipn_app, Nat.sub_diag, skipn_all. reflexivity.
Qed.

(* ---- one 16-byte block: the streaming fetch + hash_16_bytes is one iteration of the Java loop ---- *)
Lemma get_i64_le_at key o : (o + 8 <= length key)%nat ->
  get_i64_le (skipn o key) =
  (jlong (j_ubyte key o + j_ubyte key (o + 1) * 2 ^ 8 + j_ubyte key (o + 2) * 2 ^ 16
          + j_ubyte key (o + 3) * 2 ^ 24 + j_ubyte key (o + 4) * 2 ^ 32
          + j_ubyte key (o + 5) * 2 ^ 40 + j_ubyte key (o + 6) * 2 ^ 48
          + j_ubyte key (o + 7) * 2 ^ 56), skipn (o + 8) key).
Proof.
  intros H. unfold get_i64_le. rewrite (firstn_skipn_seq 0%N) by exact H.
  rewrite skipn_skipn'. f_equal.
  cbn [seq map le_dec]. rewrite wrap64_jlong. f_equal. unfold j_ubyte.
  rewrite Nat.add_0_r. lia.
Qed.

Lemma fetch_16_at key i : (16 * (i + 1) <= length key)%nat ->
  fetch_16_bytes_from_buf (skipn (16 * i) key) =
  ((j_getblock key 0 (2 * i), j_getblock key 0 (2 * i + 1)), skipn (16 * (i + 1)) key).
Proof.
  intros H. unfold fetch_16_bytes_from_buf.
  rewrite get_i64_le_at by lia. rewrite get_i64_le_at by lia.
  unfold j_getblock.
  replace (0 + 8 * (2 * i))%nat with (16 * i)%nat by lia.
  replace (0 + 8 * (2 * i + 1))%nat with (16 * i + 8)%nat by lia.
  replace (16 * i + 8 + 8)%nat with (16 * (i + 1))%nat by lia.
  reflexivity.
Qed.

Lemma hash_16_j key i h :
  hash_16_bytes h (j_getblock key 0 (2 * i)) (j_getblock key 0 (2 * i + 1)) = j_block key i h.
Proof.
  destruct h as [a b]. unfold hash_16_bytes, j_block, jxor.
  rewrite !wmul_j, !wadd_j, !C1_j, !C2_j. rewrite !rotl64_j by lia. reflexivity.
Qed.

Lemma fetch_firstn16 b :
  fst (fetch_16_bytes_from_buf (firstn 16 b)) = fst (fetch_16_bytes_from_buf b).
Proof.
  unfold fetch_16_bytes_from_buf, get_i64_le. cbn [fst].
  rewrite firstn_firstn. change (Nat.min 8 16) with 8%nat.
  change 16%nat with (8 + 8)%nat. rewrite <- firstn_skipn_comm. rewrite firstn_firstn.
  reflexivity.
Qed.

(* ---- the Java block loop reads only the blocks it is asked for ---- *)
Lemma j_ubyte_app key c j : (j < length key)%nat -> j_ubyte (key ++ c) j = j_ubyte key j.
Proof. intros H. unfold j_ubyte. rewrite app_nth1 by exact H. reflexivity. Qed.

Lemma j_getblock_app key c idx : (8 * (idx + 1) <= length key)%nat ->
  j_getblock (key ++ c) 0 idx = j_getblock key 0 idx.
Proof. intros H. unfold j_getblock. rewrite !j_ubyte_app by lia. reflexivity. Qed.

Lemma j_block_app key c i h : (16 * (i + 1) <= length key)%nat ->
  j_block (key ++ c) i h = j_block key i h.
Proof. intros H. unfold j_block. rewrite !j_getblock_app by lia. reflexivity. Qed.

Lemma j_body_app key c n : forall i h, (16 * (i + n) <= length key)%nat ->
  j_body (key ++ c) i n h = j_body key i n h.
Proof.
  induction n as [|n IH]; intros i h H; [reflexivity|].
  cbn [j_body]. rewrite j_block_app by lia. apply IH. lia.
Qed.

Lemma j_body_split key n : forall m i h,
  j_body key i (n + m) h = j_body key (i + n) m (j_body key i n h).
Proof.
  induction n as [|n IH]; intros m i h.
  - cbn [j_body Nat.add]. rewrite Nat.add_0_r. reflexivity.
  - cbn [j_body Nat.add]. rewrite IH. f_equal. lia.
Qed.

Lemma len_ge_spec {A} (l : list A) n : len_ge l n = (n <=? length l)%nat.
Proof.
  unfold len_ge. rewrite firstn_length.
  destruct (n <=? length l)%nat eqn:E.
  - apply Nat.leb_le in E. apply Nat.eqb_eq. lia.
  - apply Nat.leb_gt in E. apply Nat.eqb_neq. lia.
Qed.

Lemma second_phase_spec key fuel : forall i h,
  (16 * i <= length key)%nat -> ((length key - 16 * i) / 16 <= fuel)%nat ->
  second_phase fuel (skipn (16 * i) key) h =
  (skipn (16 * (length key / 16)) key, j_body key i (length key / 16 - i) h).
Proof.
  induction fuel as [|f IH]; intros i h Hi Hf.
  - assert (length key / 16 = i)%nat as -> by lia.
    rewrite Nat.sub_diag. reflexivity.
  - cbn [second_phase]. rewrite len_ge_spec, skipn_length.
    destruct (16 <=? length key - 16 * i)%nat eqn:E.
    + apply Nat.leb_le in E. rewrite fetch_16_at by lia. rewrite hash_16_j.
      rewrite IH by lia.
      replace (length key / 16 - i)%nat with (S (length key / 16 - (i + 1)))%nat by lia.
      cbn [j_body]. do 2 f_equal. lia.
    + apply Nat.leb_gt in E. assert (length key / 16 = i)%nat as -> by lia.
      rewrite Nat.sub_diag. reflexivity.
Qed.

Lemma fetch_16_firstn key i : (16 * (i + 1) <= length key)%nat ->
  exists rest, fetch_16_bytes_from_buf (firstn 16 (skipn (16 * i) key)) =
               ((j_getblock key 0 (2 * i), j_getblock key 0 (2 * i + 1)), rest).
Proof.
  intros H. pose proof (fetch_firstn16 (skipn (16 * i) key)) as Hf.
  rewrite fetch_16_at in Hf by exact H.
  destruct (fetch_16_bytes_from_buf (firstn 16 _)) as [ks rest]. exists rest.
  unfold fst in Hf. subst ks. reflexivity.
Qed.

(* ===== part 3 ===== *)
Open Scope nat_scope.

(* the state of the streaming hasher after the byte stream [s] has been written *)
Definition m3_inv (st : m3_hasher) (s : bytes) : Prop :=
  total_len st = N.of_nat (length s) /\
  length (buf st) = 16 /\
  firstn (length s mod 16) (buf st) = skipn (16 * (length s / 16)) s /\
  (h1 st, h2 st) = j_body s 0 (length s / 16) (0%Z, 0%Z).

Lemma m3_inv_init : m3_inv m3_init [].
Proof. repeat split. Qed.

Lemma copy_into_length dst off src : off + length src <= length dst ->
  length (copy_into dst off src) = length dst.
Proof.
  intros H. unfold copy_into. rewrite !app_length, firstn_length, skipn_length. lia.
Qed.

(* second and third phase, started with an empty buffer after i whole blocks of t *)
Lemma phase23 t i B h : length B = 16 -> 16 * i <= length t ->
  let pk1 := skipn (16 * i) t in
  let '(pk2, h_2) := second_phase (length pk1) pk1 h in
  let buf3 := copy_into B 0 pk2 in
  length buf3 = 16 /\
  firstn (length t mod 16) buf3 = skipn (16 * (length t / 16)) t /\
  h_2 = j_body t i (length t / 16 - i) h.
Proof.
  intros HB Hi. cbv zeta. rewrite second_phase_spec by (rewrite ?skipn_length; lia).
  assert (Hl : length (skipn (16 * (length t / 16)) t) = length t mod 16)
    by (rewrite skipn_length; lia).
  split; [|split].
  - rewrite copy_into_length; [exact HB|]. rewrite Hl. lia.
  - unfold copy_into. cbn [firstn app]. apply firstn_app_exact. exact Hl.
  - reflexivity.
Qed.

Lemma m3_inv_write st s c : m3_inv st s -> m3_inv (m3_write st c) (s ++ c).
Proof.
  intros (Hlen & Hbuf & Htail & Hh).
  remember (length s / 16) as q eqn:Hq. remember (length s mod 16) as r eqn:Hrd.
  assert (HL : length s = 16 * q + r) by lia. assert (Hr : r < 16) by lia.
  assert (Hbl : N.to_nat (total_len st mod 16) = r) by (rewrite Hlen; lia).
  assert (Hts : length (skipn (16 * q) s) = r) by (rewrite skipn_length; lia).
  unfold m3_write. rewrite Hbl.
  destruct ((0 <? r) && (16 - r <=? length c)) eqn:E1.
  - (* first phase runs *)
    apply andb_true_iff in E1 as [E1a E1b]. apply Nat.ltb_lt in E1a. apply Nat.leb_le in E1b.
    rewrite Nat.min_l by exact E1b.
    set (B := copy_into (buf st) r (firstn (16 - r) c)).
    assert (HB : B = firstn 16 (skipn (16 * q) (s ++ c))).
    { unfold B, copy_into. rewrite Htail, firstn_length, Nat.min_l by lia.
      replace (r + (16 - r)) with 16 by lia.
      rewrite (skipn_all2 (buf st)) by lia. rewrite app_nil_r.
      rewrite skipn_app_le by lia. rewrite firstn_app, Hts.
      rewrite (firstn_all2 (n := 16)) by lia. reflexivity. }
    assert (HBl : length B = 16).
    { rewrite HB, firstn_length, skipn_length, app_length. lia. }
    assert (Hq1 : 16 * (q + 1) <= length (s ++ c)) by (rewrite app_length; lia).
    destruct (fetch_16_firstn (s ++ c) q Hq1) as [rest EB]. rewrite <- HB in EB. rewrite EB.
    cbv beta iota zeta. rewrite hash_16_j, Hh.
    change (0 =? 0) with true. cbv iota.
    assert (Hpk : skipn (16 - r) c = skipn (16 * (q + 1)) (s ++ c)).
    { rewrite skipn_app. replace (16 * (q + 1) - length s) with (16 - r) by lia.
      rewrite (skipn_all2 s) by lia. reflexivity. }
    rewrite Hpk.
    pose proof (phase23 (s ++ c) (q + 1) B (j_block (s ++ c) q (j_body s 0 q (0%Z, 0%Z))) HBl Hq1) as P.
    cbv zeta in P.
    destruct (second_phase _ _ _) as [pk2 h_2]. destruct P as (P1 & P2 & P3).
    repeat split; cbn [total_len buf h1 h2].
    + rewrite Hlen, app_length. lia.
    + exact P1.
    + exact P2.
    + rewrite <- surjective_pairing, P3.
      rewrite <- (j_body_app s c q 0) by lia.
      replace (length (s ++ c) / 16) with (q + 1 + (length (s ++ c) / 16 - (q + 1))) at 2 by lia.
      rewrite j_body_split. replace (0 + (q + 1)) with (q + 1) by lia.
      f_equal. replace (q + 1) with (q + 1 + 0) at 2 by lia.
      rewrite (j_body_split (s ++ c) q 1 0). cbn [j_body]. f_equal; lia.
  - (* first phase does not run *)
    destruct (r =? 0) eqn:E2.
    + (* empty buffer: second phase from the input *)
      apply Nat.eqb_eq in E2.
      assert (Hq0 : 16 * q <= length (s ++ c)) by (rewrite app_length; lia).
      assert (Hpk : c = skipn (16 * q) (s ++ c)).
      { rewrite skipn_app_exact by lia. reflexivity. }
      rewrite Hpk at 1 2.
      pose proof (phase23 (s ++ c) q (buf st) (h1 st, h2 st) Hbuf Hq0) as P. cbv zeta in P.
      rewrite E2. destruct (second_phase _ _ _) as [pk2 h_2]. destruct P as (P1 & P2 & P3).
      repeat split; cbn [total_len buf h1 h2].
      * rewrite Hlen, app_length. lia.
      * exact P1.
      * exact P2.
      * rewrite <- surjective_pairing, P3, Hh.
        rewrite <- (j_body_app s c q 0) by lia.
        replace (length (s ++ c) / 16) with (q + (length (s ++ c) / 16 - q)) at 2 by lia.
        rewrite j_body_split. reflexivity.
    + (* the chunk does not fill the buffer *)
      apply Nat.eqb_neq in E2.
      assert (Hc : length c < 16 - r).
      { apply andb_false_iff in E1 as [E1|E1]; [apply Nat.ltb_ge in E1; lia|apply Nat.leb_gt in E1; lia]. }
      assert (Hq' : length (s ++ c) / 16 = q) by (rewrite app_length; lia).
      assert (Hr' : length (s ++ c) mod 16 = r + length c) by (rewrite app_length; lia).
      repeat split; cbn [total_len buf h1 h2 fst snd].
      * rewrite Hlen, app_length. lia.
      * rewrite copy_into_length; [exact Hbuf|lia].
      * rewrite Hq', Hr'. unfold copy_into. rewrite Htail, app_assoc.
        rewrite firstn_app_exact by (rewrite app_length; lia).
        rewrite skipn_app_le by lia. reflexivity.
      * rewrite Hq', Hh. symmetry. apply j_body_app. lia.
Qed.

(* ===== part 4 ===== *)
Open Scope nat_scope.

Lemma sext8_range b : (- 2 ^ 63 <= sext8 b < 2 ^ 63)%Z.
Proof. unfold sext8. cbv zeta. destruct (b mod 256 <? 128)%N eqn:E; lia. Qed.

Lemma sext8_j key i : sext8 (nth i key 0%N) = j_sbyte key i.
Proof. unfold sext8, j_sbyte. cbv zeta. destruct (_ mod 256 <? 128)%N eqn:E; lia. Qed.

Lemma wshl_0 x : (- 2 ^ 63 <= x < 2 ^ 63)%Z -> wshl x 0 = x.
Proof. intros H. unfold wshl. rewrite Z.shiftl_0_r. apply wrap64_id. exact H. Qed.

Lemma nth_firstn' {A} (d : A) l n i : i < n -> nth i (firstn n l) d = nth i l d.
Proof.
  revert l i; induction n as [|n IH]; intros l i H; [lia|].
  destruct l as [|x l]; [reflexivity|]. destruct i as [|i]; [reflexivity|].
  cbn [firstn nth]. apply IH. lia.
Qed.

Lemma nth_skipn' {A} (d : A) l n i : nth i (skipn n l) d = nth (n + i) l d.
Proof.
  revert l; induction n as [|n IH]; intros l; [reflexivity|].
  destruct l as [|x l]; [now destruct i|]. cbn [skipn Nat.add nth]. apply IH.
Qed.

Lemma fold_left_ext_in {A B} (f g : A -> B -> A) l : forall a,
  (forall x a, In x l -> f a x = g a x) -> fold_left f l a = fold_left g l a.
Proof.
  induction l as [|x l IH]; intros a H; [reflexivity|].
  cbn [fold_left]. rewrite H by (left; reflexivity). apply IH. intros y b Hy. apply H. right. exact Hy.
Qed.

Ltac eval_of_nat :=
  repeat match goal with
  | |- context [Z.of_nat ?n] =>
      let v := eval vm_compute in (Z.of_nat n) in change (Z.of_nat n) with v
  end.

(* the two descending loops of finish are the fall-through switch of the Java code *)
Lemma tail_k2_eq (f : nat -> Z) r : r < 16 ->
  fold_left (fun k i => Z.lxor k (wshl (f i) (Z.of_nat ((i - 8) * 8)))) (rev (seq 8 (r - 8))) 0%Z
  = j_tail_k2 f r.
Proof.
  intros H. unfold j_tail_k2, jxor.
  do 16 (destruct r as [|r]; [cbn [Nat.sub seq rev app fold_left Nat.leb]; eval_of_nat;
                              rewrite ?wshl_jshl by lia; reflexivity|]).
  lia.
Qed.

Lemma tail_k1_eq (f : nat -> Z) r : (- 2 ^ 63 <= f O < 2 ^ 63)%Z ->
  fold_left (fun k i => Z.lxor k (wshl (f i) (Z.of_nat (i * 8)))) (rev (seq 0 (Nat.min 8 r))) 0%Z
  = j_tail_k1 f r.
Proof.
  intros H0. unfold j_tail_k1, jxor.
  do 8 (destruct r as [|r]; [cbn [Nat.min seq rev app fold_left Nat.leb]; eval_of_nat;
                              rewrite ?(wshl_0 (f 0)) by exact H0;
                              rewrite ?wshl_jshl by lia; reflexivity|]).
  cbn [Nat.min seq rev app fold_left Nat.leb]. eval_of_nat.
  rewrite (wshl_0 (f 0)) by exact H0. rewrite ?wshl_jshl by lia. reflexivity.
Qed.

Lemma token_new_j v : token_new v = j_normalize v.
Proof. reflexivity. Qed.

Lemma m3_final_j a b len : (0 <= Z.of_N len < 2 ^ 63)%Z ->
  m3_final a b len = j_normalize (fst (j_final a b (Z.of_N len))).
Proof.
  intros H. unfold m3_final, j_final. cbv zeta. cbn [fst].
  rewrite final_word by apply wrap64_range. rewrite token_new_j.
  rewrite (wrap64_id (Z.of_N len)) by lia.
  rewrite !wadd_j, !fmix_j. reflexivity.
Qed.

Lemma m3_inv_finish st s : m3_inv st s -> (Z.of_nat (length s) < 2 ^ 63)%Z ->
  m3_finish st = murmur3_token_spec s.
Proof.
  intros (Hlen & Hbuf & Htail & Hh) Hbound.
  remember (length s / 16) as q eqn:Hq. remember (length s mod 16) as r eqn:Hrd.
  assert (Hr : r < 16) by lia.
  assert (Hbl : N.to_nat (total_len st mod 16) = r) by (rewrite Hlen; lia).
  assert (Hbyte : forall i, i < r -> sext8 (nth i (buf st) 0%N) = j_sbyte s (q * 16 + i)).
  { intros i Hi. rewrite <- (nth_firstn' 0%N (buf st) r i Hi), Htail, nth_skipn'.
    rewrite sext8_j. f_equal. lia. }
  set (b := fun i => j_sbyte s (q * 16 + i)).
  assert (Hk2 : m3_tail_k2 (buf st) r = j_tail_k2 b r).
  { unfold m3_tail_k2. rewrite <- tail_k2_eq by exact Hr. apply fold_left_ext_in.
    intros x a Hx. apply in_rev, in_seq in Hx. unfold b. rewrite Hbyte by lia. reflexivity. }
  assert (Hk1 : m3_tail_k1 (buf st) r = j_tail_k1 b r).
  { unfold m3_tail_k1. rewrite <- tail_k1_eq by (unfold b, j_sbyte; lia). apply fold_left_ext_in.
    intros x a Hx. apply in_rev, in_seq in Hx. unfold b. rewrite Hbyte by lia. reflexivity. }
  unfold m3_finish. rewrite Hbl. cbv zeta. rewrite Hk1, Hk2.
  rewrite m3_final_j by (rewrite Hlen; lia).
  unfold murmur3_token_spec, murmur3_spec, hash3_x64_128.
  rewrite <- Hq, <- Hrd, <- Hh. cbv zeta. fold b.
  rewrite Hlen, nat_N_Z.
  rewrite !wmul_j, !C1_j, !C2_j. rewrite !rotl64_j by lia.
  reflexivity.
Qed.

Lemma m3_inv_fold chunks : forall st s, m3_inv st s ->
  m3_inv (fold_left m3_write chunks st) (s ++ concat chunks).
Proof.
  induction chunks as [|c cs IH]; intros st s H.
  - cbn [fold_left concat]. rewrite app_nil_r. exact H.
  - cbn [fold_left concat]. rewrite app_assoc. apply IH. apply m3_inv_write. exact H.
Qed.

Theorem m3_chunking chunks : (Z.of_nat (length (concat chunks)) < 2 ^ 63)%Z ->
  m3_finish (fold_left m3_write chunks m3_init) = murmur3_token_spec (concat chunks).
Proof.
  intros H. apply m3_inv_finish; [|exact H].
  apply (m3_inv_fold chunks m3_init []). apply m3_inv_init.
Qed.

(* ===== part 5: the CDC hasher ===== *)

Definition cdc_inv (st : cdc_hasher) (s : bytes) : Prop :=
  match st with
  | CdcFeeding len cbuf => len = length s /\ len < 8 /\ length cbuf = 8 /\ firstn len cbuf = s
  | CdcComputed t => 8 <= length s /\ t = token_new (dec_signed (firstn 8 s))
  end.

Lemma cdc_inv_init : cdc_inv cdc_init [].
Proof. cbn. repeat split. lia. Qed.

Lemma cdc_inv_write st s c : cdc_inv st s -> cdc_inv (cdc_write st c) (s ++ c).
Proof.
  destruct st as [len cbuf|t]; cbn [cdc_inv cdc_write].
  - intros (Hlen & Hlt & Hb & Hs).
    set (copied := Nat.min (length c) (8 - len)).
    destruct (len + copied =? 8) eqn:E.
    + apply Nat.eqb_eq in E. assert (Hc : copied = 8 - len) by lia.
      assert (Hcl : 8 - len <= length c) by lia.
      cbn [cdc_inv]. split; [rewrite app_length; lia|]. f_equal. unfold get_i64_be. f_equal.
      unfold copy_into. rewrite Hs, firstn_length, Hc, Nat.min_l by lia.
      rewrite (skipn_all2 cbuf) by lia. rewrite app_nil_r.
      rewrite firstn_all2 by (rewrite app_length, firstn_length; lia).
      rewrite firstn_app. rewrite (firstn_all2 s) by lia. f_equal. f_equal. lia.
    + apply Nat.eqb_neq in E. assert (Hc : copied = length c) by lia.
      cbn [cdc_inv]. rewrite app_length. repeat split; try lia.
      * rewrite copy_into_length; [exact Hb|]. rewrite firstn_length. lia.
      * unfold copy_into. rewrite Hs, Hc, firstn_all, app_assoc.
        apply firstn_app_exact. rewrite app_length. lia.
  - intros (Hl & Ht). split; [rewrite app_length; lia|].
    rewrite firstn_app. replace (8 - length s) with 0 by lia. cbn [firstn]. rewrite app_nil_r.
    exact Ht.
Qed.

Lemma cdc_inv_fold chunks : forall st s, cdc_inv st s ->
  cdc_inv (fold_left cdc_write chunks st) (s ++ concat chunks).
Proof.
  induction chunks as [|c cs IH]; intros st s H.
  - cbn [fold_left concat]. rewrite app_nil_r. exact H.
  - cbn [fold_left concat]. rewrite app_assoc. apply IH. apply cdc_inv_write. exact H.
Qed.

Lemma cdc_inv_finish st s : cdc_inv st s -> cdc_finish st = cdc_token_spec s.
Proof.
  unfold cdc_token_spec. destruct st as [len cbuf|t]; cbn [cdc_inv cdc_finish].
  - intros (Hlen & Hlt & _). destruct (length s <? 8) eqn:E; [reflexivity|].
    apply Nat.ltb_ge in E. lia.
  - intros (Hl & Ht). destruct (length s <? 8) eqn:E; [apply Nat.ltb_lt in E; lia|].
    rewrite Ht. apply token_new_j.
Qed.

Theorem cdc_chunking chunks :
  cdc_finish (fold_left cdc_write chunks cdc_init) = cdc_token_spec (concat chunks).
Proof.
  apply cdc_inv_finish. apply (cdc_inv_fold chunks cdc_init []). apply cdc_inv_init.
Qed.

(* the CDC token as the property states it *)
Lemma cdc_token_short key : length key < 8 -> cdc_token_spec key = (- 2 ^ 63)%Z.
Proof. intros H. unfold cdc_token_spec. apply Nat.ltb_lt in H. rewrite H. reflexivity. Qed.

Lemma cdc_token_long key : 8 <= length key ->
  cdc_token_spec key = j_normalize (dec_signed (firstn 8 key)).
Proof. intros H. unfold cdc_token_spec. apply Nat.ltb_ge in H. rewrite H. reflexivity. Qed.

(* ===== part 6: PartitionerHasherAny ===== *)

Lemma fold_hasher_m3 chunks : forall st,
  fold_left hasher_write chunks (HMurmur3 st) = HMurmur3 (fold_left m3_write chunks st).
Proof. induction chunks as [|c cs IH]; intros st; [reflexivity|]. cbn [fold_left hasher_write]. apply IH. Qed.

Lemma fold_hasher_cdc chunks : forall st,
  fold_left hasher_write chunks (HCdc st) = HCdc (fold_left cdc_write chunks st).
Proof. induction chunks as [|c cs IH]; intros st; [reflexivity|]. cbn [fold_left hasher_write]. apply IH. Qed.

Theorem feed_chunking p chunks : (Z.of_nat (length (concat chunks)) < 2 ^ 63)%Z ->
  feed p chunks = token_spec p (concat chunks).
Proof.
  intros H. unfold feed, token_spec. destruct p; cbn [build_hasher].
  - rewrite fold_hasher_m3. cbn [hasher_finish]. apply m3_chunking. exact H.
  - rewrite fold_hasher_cdc. cbn [hasher_finish]. apply cdc_chunking.
Qed.

Corollary hash_one_spec p data : (Z.of_nat (length data) < 2 ^ 63)%Z ->
  hash_one p data = token_spec p data.
Proof.
  intros H. unfold hash_one. rewrite feed_chunking; cbn [concat]; rewrite app_nil_r; [reflexivity|exact H].
Qed.

(* the token is a valid i64 and never i64::MIN for Murmur3 *)
Lemma j_normalize_range v : (- 2 ^ 63 <= v < 2 ^ 63)%Z -> (- 2 ^ 63 < j_normalize v < 2 ^ 63)%Z.
Proof. intros H. unfold j_normalize. destruct (v =? - 2 ^ 63)%Z eqn:E; lia. Qed.

Lemma murmur3_spec_range key : (- 2 ^ 63 <= murmur3_spec key < 2 ^ 63)%Z.
Proof.
  unfold murmur3_spec, hash3_x64_128. cbv zeta. destruct (j_body _ _ _ _) as [a b].
  unfold j_final. cbv zeta. cbn [fst]. unfold jadd. rewrite <- wrap64_jlong. apply wrap64_range.
Qed.

Theorem murmur3_token_range key : (- 2 ^ 63 < murmur3_token_spec key < 2 ^ 63)%Z.
Proof. apply j_normalize_range, murmur3_spec_range. Qed.

(* a CDC stream id is 16 bytes: for such keys every reading of the CDC partitioner agrees *)
Theorem cdc_chunking_stream_id chunks : length (concat chunks) = 16 ->
  cdc_finish (fold_left cdc_write chunks cdc_init) = j_normalize (dec_signed (firstn 8 (concat chunks))).
Proof. intros H. rewrite cdc_chunking. apply cdc_token_long. lia. Qed.

(* ===== part 7: every token is an i64; composition with the sharder is in PartKey_proofs ===== *)
Lemma dec_signed_8_range b : length b = 8 -> bytes_ok b -> (- 2 ^ 63 <= dec_signed b < 2 ^ 63)%Z.
Proof.
  intros Hl Hb. unfold dec_signed, to_signed. rewrite Hl.
  pose proof (be_dec_lt b Hb) as Hlt. rewrite Hl in Hlt.
  change (8 * N.of_nat 8)%N with 64%N. change (256 ^ N.of_nat 8)%N with (2 ^ 64)%N in Hlt.
  destruct (be_dec b <? 2 ^ (64 - 1))%N eqn:E.
  - apply N.ltb_lt in E. change (2 ^ (64 - 1))%N with 9223372036854775808%N in E. lia.
  - apply N.ltb_ge in E. change (2 ^ (64 - 1))%N with 9223372036854775808%N in E.
    change (2 ^ 64)%N with 18446744073709551616%N in Hlt. change (Z.of_N 64) with 64%Z. lia.
Qed.

(* ===== part 8: the length premise is not needed =====
   `total_len as i64` wraps and Java's length does not, but both enter the hash only through
   xor followed by wrapping additions, i.e. modulo 2^64. *)
Lemma lxor_mod64 a x y : (x mod 2 ^ 64 = y mod 2 ^ 64 -> Z.lxor a x mod 2 ^ 64 = Z.lxor a y mod 2 ^ 64)%Z.
Proof.
  intros H. apply Z.bits_inj'. intros n Hn. destruct (Z.lt_ge_cases n 64) as [Hl|Hg].
  - rewrite !Z.mod_pow2_bits_low by lia. rewrite !Z.lxor_spec. f_equal.
    rewrite <- (Z.mod_pow2_bits_low x 64 n) by lia. rewrite H. apply Z.mod_pow2_bits_low. lia.
  - rewrite !Z.mod_pow2_bits_high by lia. reflexivity.
Qed.

Lemma wrap64_congr z : (wrap64 z mod 2 ^ 64 = z mod 2 ^ 64)%Z.
Proof. rewrite wrap64_mod. lia. Qed.

Lemma m3_final_j_all a b len :
  m3_final a b len = j_normalize (fst (j_final a b (Z.of_N len))).
Proof.
  unfold m3_final, j_final. cbv zeta. cbn [fst].
  rewrite final_word by apply wrap64_range. rewrite token_new_j.
  set (X := wrap64 (Z.of_N len)). set (L := Z.of_N len).
  assert (HX : (X mod 2 ^ 64 = L mod 2 ^ 64)%Z) by apply wrap64_congr.
  assert (H1 : wadd (Z.lxor a X) (Z.lxor b X) = jadd (jxor a L) (jxor b L)).
  { unfold wadd, jadd, jxor. rewrite <- wrap64_jlong. apply wrap64_mod_eq.
    pose proof (lxor_mod64 a X L HX). pose proof (lxor_mod64 b X L HX).
    rewrite Z.add_mod by lia. rewrite (Z.add_mod (Z.lxor a L)) by lia. congruence. }
  rewrite H1. set (S := jadd (jxor a L) (jxor b L)).
  assert (H2 : wadd (Z.lxor b X) S = jadd (jxor b L) S).
  { unfold wadd, jadd, jxor. rewrite <- wrap64_jlong. apply wrap64_mod_eq.
    pose proof (lxor_mod64 b X L HX).
    rewrite Z.add_mod by lia. rewrite (Z.add_mod (Z.lxor b L)) by lia. congruence. }
  rewrite H2. rewrite !wadd_j, !fmix_j. reflexivity.
Qed.

Lemma m3_inv_finish_all st s : m3_inv st s -> m3_finish st = murmur3_token_spec s.
Proof.
  intros (Hlen & Hbuf & Htail & Hh).
  remember (length s / 16) as q eqn:Hq. remember (length s mod 16) as r eqn:Hrd.
  assert (Hr : r < 16) by lia.
  assert (Hbl : N.to_nat (total_len st mod 16) = r) by (rewrite Hlen; lia).
  assert (Hbyte : forall i, i < r -> sext8 (nth i (buf st) 0%N) = j_sbyte s (q * 16 + i)).
  { intros i Hi. rewrite <- (nth_firstn' 0%N (buf st) r i Hi), Htail, nth_skipn'.
    rewrite sext8_j. f_equal. lia. }
  set (b := fun i => j_sbyte s (q * 16 + i)).
  assert (Hk2 : m3_tail_k2 (buf st) r = j_tail_k2 b r).
  { unfold m3_tail_k2. rewrite <- tail_k2_eq by exact Hr. apply fold_left_ext_in.
    intros x a Hx. apply in_rev, in_seq in Hx. unfold b. rewrite Hbyte by lia. reflexivity. }
  assert (Hk1 : m3_tail_k1 (buf st) r = j_tail_k1 b r).
  { unfold m3_tail_k1. rewrite <- tail_k1_eq by (unfold b, j_sbyte; lia). apply fold_left_ext_in.
    intros x a Hx. apply in_rev, in_seq in Hx. unfold b. rewrite Hbyte by lia. reflexivity. }
  unfold m3_finish. rewrite Hbl. cbv zeta. rewrite Hk1, Hk2.
  rewrite m3_final_j_all.
  unfold murmur3_token_spec, murmur3_spec, hash3_x64_128.
  rewrite <- Hq, <- Hrd, <- Hh. cbv zeta. fold b.
  rewrite Hlen, nat_N_Z.
  rewrite !wmul_j, !C1_j, !C2_j. rewrite !rotl64_j by lia.
  reflexivity.
Qed.

Theorem m3_chunking_all chunks :
  m3_finish (fold_left m3_write chunks m3_init) = murmur3_token_spec (concat chunks).
Proof. apply m3_inv_finish_all. apply (m3_inv_fold chunks m3_init []). apply m3_inv_init. Qed.

Theorem feed_chunking_all p chunks : feed p chunks = token_spec p (concat chunks).
Proof.
  unfold feed, token_spec. destruct p; cbn [build_hasher].
  - rewrite fold_hasher_m3. cbn [hasher_finish]. apply m3_chunking_all.
  - rewrite fold_hasher_cdc. cbn [hasher_finish]. apply cdc_chunking.
Qed.
