(* Round trips: every decoder of Model/FrameResp.v inverts the corresponding encoder of the
   specification (Model/FrameEnc.v) on well-formed values, whatever follows the encoding. *)
From SV Require Import Base.Prelude Base.Bytes Model.FrameBase Model.FrameTypes Model.FrameResp
  Model.FrameEnc Proofs.FrameBase_proofs Proofs.FrameTypes_proofs Proofs.FrameResp_proofs.
From Coq Require Import Ascii String.
Open Scope N_scope.

(* evaluate comparisons between closed terms *)
Ltac eval_closed :=
  repeat match goal with
         | |- context [is_str (astr ?a) ?b] =>
           let v := eval vm_compute in (is_str (astr a) b) in
           match v with true => idtac | false => idtac end; change (is_str (astr a) b) with v
         | |- context [Z.eqb ?a ?b] =>
           let v := eval vm_compute in (Z.eqb a b) in
           match v with true => idtac | false => idtac end; change (Z.eqb a b) with v
         | |- context [N.eqb ?a ?b] =>
           let v := eval vm_compute in (N.eqb a b) in
           match v with true => idtac | false => idtac end; change (N.eqb a b) with v
         end.

Ltac wf_const := split; [apply bytes_okb_ok; reflexivity | split; reflexivity].
Ltac rt_side := first [ assumption | wf_const | lia | (unfold wf_int, wf_cl in *; lia) | (repeat split; assumption) ].

Lemma run_read_bool_enc b r : run read_bool (enc_bool b ++ r) = Ok (b, r).
Proof.
  unfold read_bool, enc_bool. cbn [app]. rewrite run_bind, run_read_u8_one by (destruct b; lia).
  destruct b; reflexivity.
Qed.

Ltac rt :=
  repeat first
    [ rewrite run_bind
    | rewrite run_ret
    | rewrite run_pmap
    | rewrite run_tick_alloc
    | rewrite run_tick_alloc_capped
    | rewrite run_tick_hm_capped
    | rewrite run_read_string_enc by rt_side
    | rewrite run_read_string_list_enc by rt_side
    | rewrite run_read_short_bytes_enc by rt_side
    | rewrite run_read_bytes_enc by rt_side
    | rewrite run_read_int_enc by rt_side
    | rewrite run_read_int_length_enc by rt_side
    | rewrite run_read_consistency_enc by rt_side
    | rewrite run_read_short_enc by rt_side
    | rewrite run_read_bool_enc
    | rewrite run_read_inet_enc by rt_side
    | progress cbv beta iota ].

(* ---- ERROR ------------------------------------------------------------------------------------- *)
Lemma write_type_rt w :
  wf_write_type w -> wf_string (write_type_str w) /\ write_type_of (write_type_str w) = w.
Proof.
  destruct w; cbn [wf_write_type write_type_str]; intros H;
    try (split; [wf_const|reflexivity]). exact H.
Qed.

Lemma known_code_chain c :
  ~ In c known_error_codes ->
  ((c =? 0) = false /\ (c =? 10) = false /\ (c =? 256) = false /\ (c =? 4096) = false /\
   (c =? 4097) = false /\ (c =? 4098) = false /\ (c =? 4099) = false /\ (c =? 4352) = false /\
   (c =? 4608) = false /\ (c =? 4864) = false /\ (c =? 5120) = false /\ (c =? 5376) = false /\
   (c =? 8192) = false /\ (c =? 8448) = false /\ (c =? 8704) = false /\ (c =? 8960) = false /\
   (c =? 9216) = false /\ (c =? 9472) = false)%Z.
Proof.
  intros H. repeat split; apply Z.eqb_neq; intros ->; apply H; cbn; tauto.
Qed.

Lemma wf_error_code ft e : wf_dberror ft e -> wf_int (error_code ft e).
Proof.
  destruct e; cbn [wf_dberror error_code]; intros H; try (unfold wf_int; lia).
  - destruct H as (_ & c & -> & Hc & _). exact Hc.
  - tauto.
Qed.

Lemma run_deser_error_enc ft e reason r :
  wf_dberror ft e -> wf_string reason ->
  run (deser_error ft) (enc_error ft e reason ++ r) = Ok ((e, reason), r).
Proof.
  intros We Wr. pose proof (wf_error_code ft e We) as Wc.
  unfold deser_error, enc_error. rewrite <- !app_assoc. rt.
  destruct e; cbn [error_code enc_error_fields wf_dberror] in *; eval_closed; cbv iota;
    rewrite <- ?app_assoc; cbn [app];
    repeat match goal with H : _ /\ _ |- _ => destruct H end;
    try match goal with H : wf_write_type ?w |- _ => destruct (write_type_rt w H) as [Wws Ews] end;
    rt; rewrite ?Ews; try reflexivity.
  - (* rate limit *)
    destruct H0 as (c & Hc & Wi & Nk). rewrite Hc in *.
    destruct (known_code_chain c Nk) as (E1&E2&E3&E4&E5&E6&E7&E8&E9&E10&E11&E12&E13&E14&E15&E16&E17&E18).
    rewrite E1,E2,E3,E4,E5,E6,E7,E8,E9,E10,E11,E12,E13,E14,E15,E16,E17,E18, Z.eqb_refl.
    rt. rewrite run_read_u8_one by assumption. rt. reflexivity.
  - (* other *)
    destruct (known_code_chain code H0) as (E1&E2&E3&E4&E5&E6&E7&E8&E9&E10&E11&E12&E13&E14&E15&E16&E17&E18).
    rewrite E1,E2,E3,E4,E5,E6,E7,E8,E9,E10,E11,E12,E13,E14,E15,E16,E17,E18.
    destruct (ft_rate_limit ft) as [rl|] eqn:Erl; [|rt; reflexivity].
    destruct (code =? rl)%Z eqn:Ec; [apply Z.eqb_eq in Ec; subst; congruence|]. rt. reflexivity.
Qed.

(* ---- schema change / events --------------------------------------------------------------------- *)
Lemma change_type_rt ct :
  ct <> CtInvalid -> wf_string (change_type_str ct) /\ change_type_of (change_type_str ct) = ct.
Proof. destruct ct; intros H; try congruence; (split; [wf_const|reflexivity]). Qed.

Lemma run_read_arg_list_enc l r :
  wf_string_list l -> run read_arg_list (enc_string_list l ++ r) = Ok (l, r).
Proof. intros H. exact (run_read_string_list_enc l r H). Qed.

Lemma run_deser_schema_change_enc sc r :
  wf_schema_change sc -> run deser_schema_change (enc_schema_change sc ++ r) = Ok (sc, r).
Proof.
  intros W. unfold deser_schema_change.
  destruct sc; cbn [wf_schema_change enc_schema_change] in *;
    repeat match goal with H : _ /\ _ |- _ => destruct H end;
    match goal with H : ?ct <> CtInvalid |- _ => destruct (change_type_rt ct H) as [Wct Ect] end;
    rewrite <- !app_assoc; rt; eval_closed; cbv iota; rt;
    try rewrite run_read_arg_list_enc by assumption; rt; rewrite Ect; reflexivity.
Qed.

(* ---- EVENT ----------------------------------------------------------------------------------------- *)
(* uuid text form: parse (print u) = u *)
Lemma hexval_hexdigit v : v < 16 -> hexval (hexdigit v) = Some v.
Proof.
  intros H.
  assert (A : forallb (fun v => match hexval (hexdigit v) with Some w => w =? v | None => false end)
                      (nrange 0 16) = true) by reflexivity.
  rewrite forallb_forall in A. specialize (A v). rewrite nrange_In in A. specialize (A ltac:(lia)).
  destruct (hexval (hexdigit v)); [apply N.eqb_eq in A; subst; reflexivity|discriminate].
Qed.

Lemma hex_pairs_hex_of_bytes u : bytes_ok u -> hex_pairs (hex_of_bytes u) = Some u.
Proof.
  induction u as [|x u IH]; intros H; [reflexivity|]. inversion H as [|? ? Hx Hu]; subst.
  cbn [hex_of_bytes flat_map app hex_pairs]. fold (hex_of_bytes u).
  rewrite !hexval_hexdigit by lia. rewrite IH by exact Hu. f_equal. f_equal. lia.
Qed.

Arguments hexdigit : simpl never.
Lemma uuid_text_rt u : wf_uuid u -> parse_uuid_text (uuid_text u) = Some u.
Proof.
  intros [Hb Hl].
  do 16 (destruct u as [|? u]; [unfold lenN in Hl; cbn [Datatypes.length] in Hl; lia|]).
  destruct u; [|unfold lenN in Hl; cbn [Datatypes.length] in Hl; lia].
  pose proof (hex_pairs_hex_of_bytes _ Hb) as P.
  unfold parse_uuid_text, uuid_text. cbn [firstn skipn hex_of_bytes flat_map app lenN Datatypes.length].
  cbn [hex_of_bytes flat_map app] in P.
  change (N.of_nat 36 =? 32) with false. change (N.of_nat 36 =? 36) with true. cbv iota.
  unfold parse_hyphenated. cbn [lenN Datatypes.length nth_is nth_error firstn skipn app].
  change (N.of_nat 36 =? 36) with true. rewrite !N.eqb_refl. cbn [andb]. exact P.
Qed.

Lemma parse_uuids_rt hosts : Forall wf_uuid hosts -> parse_uuids (List.map uuid_text hosts) = Some hosts.
Proof.
  induction 1 as [|u l Hu _ IH]; [reflexivity|]. cbn [List.map parse_uuids]. rewrite uuid_text_rt, IH by exact Hu.
  reflexivity.
Qed.

Lemma wf_string_uuid_text u : wf_uuid u -> wf_string (uuid_text u).
Proof.
  intros [Hb Hl].
  do 16 (destruct u as [|? u]; [unfold lenN in Hl; cbn [Datatypes.length] in Hl; lia|]).
  destruct u; [|unfold lenN in Hl; cbn [Datatypes.length] in Hl; lia].
  assert (HD : forall v, v < 256 -> hexdigit (v / 16) < 128 /\ hexdigit (v mod 16) < 128).
  { intros v Hv. unfold hexdigit. split; [destruct (v / 16 <? 10)|destruct (v mod 16 <? 10)]; lia. }
  assert (A : forall l, Forall (fun x => x < 128) l -> bytes_ok l /\ utf8_valid l = true).
  { induction l as [|x l IH]; intros F; [split; [constructor|reflexivity]|].
    inversion F as [|? ? Hx Hl']; subst. destruct (IH Hl') as [B U]. split; [constructor; [lia|exact B]|].
    cbn [utf8_valid]. destruct (x <? 128) eqn:E; [exact U|lia]. }
  unfold uuid_text. cbn [firstn skipn hex_of_bytes flat_map app].
  unfold bytes_ok in Hb. rewrite Forall_forall in Hb.
  match goal with |- wf_string ?l => destruct (A l) as [B U] end.
  { repeat (constructor; [first [lia | apply HD; apply Hb; cbn [In]; tauto]|]). constructor. }
  split; [exact B|split; [reflexivity|exact U]].
Qed.

Lemma run_read_host_ids_enc hosts r :
  Forall wf_uuid hosts ->
  run (read_host_ids (lenN hosts)) (flat_map enc_string (List.map uuid_text hosts) ++ r) = Ok (hosts, r).
Proof.
  intros F. unfold read_host_ids. unfold lenN at 1. rewrite Nat2N.id.
  induction F as [|u l Hu _ IH]; [reflexivity|].
  cbn [Datatypes.length]. rewrite read_host_ids_f_unfold, lenN_cons.
  destruct (lenN l + 1 =? 0) eqn:E; [lia|]. cbn [List.map flat_map]. rewrite <- app_assoc.
  rewrite run_bind, run_read_string_enc by (apply wf_string_uuid_text; exact Hu). cbv beta iota.
  rewrite uuid_text_rt by exact Hu. replace (lenN l + 1 - 1) with (lenN l) by lia.
  rewrite run_bind, IH. reflexivity.
Qed.

Lemma run_deser_event_enc v2 e r :
  wf_event v2 e -> run (deser_event v2) (enc_event e ++ r) = Ok (e, r).
Proof.
  intros W. unfold deser_event. destruct e as [nw a|up a|sc|conn hosts]; cbn [wf_event enc_event] in *.
  - destruct nw; rewrite <- !app_assoc; rt; eval_closed; cbv iota; rt; eval_closed; reflexivity.
  - destruct up; rewrite <- !app_assoc; rt; eval_closed; cbv iota; rt; eval_closed; reflexivity.
  - rewrite <- !app_assoc; rt; eval_closed; cbv iota. rt.
    rewrite run_deser_schema_change_enc by exact W. reflexivity.
  - destruct W as (-> & Wc & Wh & Hl). rewrite <- !app_assoc; rt; eval_closed; cbv iota. cbn [andb].
    unfold deser_client_routes. rt. eval_closed. cbv iota. rt.
    unfold enc_string_list at 1. unfold enc_list. rewrite <- app_assoc.
    assert (L : lenN (List.map uuid_text hosts) = lenN hosts) by (unfold lenN; rewrite map_length; reflexivity).
    rewrite L. destruct Wc as [Wcl Wcs]. rt. rewrite Hl, N.eqb_refl. cbn [negb].
    rewrite <- Hl. rt. rewrite run_read_host_ids_enc by exact Wh. reflexivity.
Qed.

(* ---- RESULT ------------------------------------------------------------------------------------------ *)
Lemma flag_bits g m n c :
  let fl := (b2z g 1 + b2z m 2 + b2z n 4 + b2z c 8)%Z in
  wf_int fl /\ flag_set fl 1 = g /\ flag_set fl 2 = m /\ flag_set fl 4 = n /\ flag_set fl 8 = c.
Proof. destruct g, m, n, c; cbv zeta; unfold wf_int; repeat split; try reflexivity; cbn; lia. Qed.

Lemma enc_cell_nonempty c : enc_cell c <> [].
Proof.
  intros X. apply (f_equal (@Datatypes.length N)) in X. destruct c as [v|]; cbn [enc_cell enc_bytes_opt] in X.
  - unfold enc_bytes, enc_int, enc_signed in X. rewrite app_length, be_enc_length in X. cbn in X. lia.
  - unfold enc_int, enc_signed in X. rewrite be_enc_length in X. cbn in X. lia.
Qed.

Section WithCustom.
Variable custom : custom_parser.

Lemma run_deser_rows_enc ncols rc rows r :
  (ncols = 0 -> rows = []) ->
  (ncols <> 0 -> lenN rows = rc /\ Forall (fun row => lenN row = ncols /\ Forall wf_cell row) rows) ->
  run (deser_rows ncols rc) (flat_map enc_row rows ++ r) = Ok (rows, r).
Proof.
  intros W0 W1. unfold deser_rows. destruct (ncols =? 0) eqn:E.
  - apply N.eqb_eq in E. rewrite (W0 E). reflexivity.
  - apply N.eqb_neq in E. destruct (W1 E) as [<- F]. apply run_repeatN_enc.
    + eapply Forall_impl; [|exact F]. intros row [Hl Hc] r'. unfold deser_row, enc_row. subst ncols.
      apply run_repeatS_enc. eapply Forall_impl; [|exact Hc]. intros c Hw r''. apply run_read_bytes_opt_enc.
      destruct c; exact Hw.
    + eapply Forall_impl; [|exact F]. intros row [Hl _]. unfold enc_row.
      destruct row as [|c row]; [subst; rewrite lenN_nil in E; congruence|]. cbn [flat_map].
      intros X. apply app_eq_nil in X as [X _]. eapply enc_cell_nonempty; eauto.
Qed.

Lemma run_deser_rows_full_enc ft rr r :
  wf_rows ft rr -> run (deser_rows_full custom ft) (enc_rows rr ++ r) = Ok (rr, r).
Proof.
  destruct rr as [[cc g nomd chg ps] mid cols rc rows].
  unfold wf_rows. cbn [rr_hdr rr_meta_id rr_cols rr_rows_count rr_rows rh_col_count rh_global rh_no_metadata
                      rh_metadata_changed rh_paging].
  intros (Hcc & Hrc & Hps & Hchg & Hmid & Hcols & Hrows).
  unfold deser_rows_full, enc_rows. cbn [rr_hdr rr_meta_id rr_cols rr_rows_count rr_rows rh_col_count rh_global
                                        rh_no_metadata rh_metadata_changed rh_paging].
  pose proof (flag_bits g (match ps with Some _ => true | None => false end) nomd chg) as FB.
  cbv zeta in FB. destruct FB as (Wf & F1 & F2 & F4 & F8).
  rewrite <- !app_assoc. unfold deser_rows_hdr. rt. rewrite F1, F2, F4, F8.
  assert (Echg : ft_metadata_id ft && chg = chg).
  { destruct chg; [destruct (Hchg eq_refl) as [-> _]; reflexivity|apply andb_false_r]. }
  rewrite Echg.
  assert (Enc : nomd && chg = false).
  { destruct chg; [destruct (Hchg eq_refl) as [_ ->]; reflexivity|apply andb_false_r]. }
  rewrite Enc. rt.
  assert (Eps : forall r', run (if match ps with Some _ => true | None => false end then pmap Some read_bytes else ret None)
                    (match ps with Some p => enc_bytes p | None => [] end ++ r') = Ok (ps, r')).
  { intros r'. destruct ps as [p|]; [rewrite run_pmap, run_read_bytes_enc by exact Hps|]; reflexivity. }
  rewrite Eps. rt. unfold deser_rows_meta. cbn [rh_no_metadata rh_metadata_changed rh_global rh_col_count].
  destruct nomd.
  - (* no metadata *)
    subst cols. cbn [app]. rt. cbn [fst snd lenN Datatypes.length].
    assert (mid = None) as -> by (destruct mid as [x|]; [destruct Hmid as [-> _]; discriminate|reflexivity]).
    destruct chg; [discriminate|]. cbn [cs_table]. change (N.of_nat 0) with 0.
    rewrite (run_deser_rows_enc 0 rc rows); [subst rows; reflexivity|intros _; exact Hrows|congruence].
  - destruct Hcols as (Hlen & Wcols & Hg). rewrite <- !app_assoc. rt.
    assert (Emid : forall r', run (if chg then pmap Some read_short_bytes else ret None)
                      (match mid with Some id => enc_short_bytes id | None => [] end ++ r') = Ok (mid, r')).
    { intros r'. destruct mid as [id|].
      - destruct Hmid as [-> Hm]. rewrite run_pmap, run_read_short_bytes_enc by exact Hm. reflexivity.
      - rewrite Hmid. reflexivity. }
    rewrite Emid. rt.
    assert (Eg : forall r', run (if g then pmap Some deser_table_spec else ret None)
                      ((if g then enc_table_spec (first_table cols) else []) ++ r') =
                    Ok (if g then Some (first_table cols) else None, r')).
    { intros r'. destruct g; [|reflexivity]. destruct (Hg eq_refl) as [Hne Hall].
      rewrite run_pmap, run_deser_table_spec_enc; [reflexivity|].
      destruct cols as [|c0 cols']; [congruence|]. cbn [first_table].
      inversion Wcols as [|? ? Wc0 _]; subst. apply Wc0. }
    rewrite Eg. rt. subst cc.
    rewrite (run_deser_col_specs_enc custom g (first_table cols)); [|exact Wcols|].
    2:{ intros ->. destruct (Hg eq_refl) as [Hne Hall]. split; [|exact Hall].
        destruct cols as [|c0 cols']; [congruence|]. inversion Wcols as [|? ? Wc0 _]; subst. apply Wc0. }
    rt. cbn [fst snd].
    rewrite (run_deser_rows_enc (lenN cols) rc rows).
    + reflexivity.
    + intros E0. apply lenN_0 in E0. subst cols. exact Hrows.
    + intros E0. destruct cols as [|c0 cols']; [rewrite lenN_nil in E0; congruence|exact Hrows].
Qed.


(* PREPARED *)
Lemma pk_seq_insert_len x l : lenN (pk_seq_insert x l) = lenN l + 1.
Proof.
  induction l as [|y l IH]; [reflexivity|]. cbn [pk_seq_insert]. destruct (pk_seq_leb x y).
  - rewrite !lenN_cons. reflexivity.
  - rewrite !lenN_cons, IH. reflexivity.
Qed.
Lemma pk_seq_insert_forall (P : N * N -> Prop) x l : P x -> Forall P l -> Forall P (pk_seq_insert x l).
Proof.
  intros Hx. induction 1 as [|y l Hy Hl IH]; [repeat constructor; exact Hx|]. cbn [pk_seq_insert].
  destruct (pk_seq_leb x y); repeat constructor; auto.
Qed.
Lemma pk_wire_len pk : lenN (pk_wire pk) = lenN pk.
Proof.
  unfold pk_wire. unfold lenN at 1. rewrite map_length. fold (lenN (fold_right pk_seq_insert [] pk)).
  induction pk as [|x pk IH]; [reflexivity|]. cbn [fold_right]. rewrite pk_seq_insert_len, IH, lenN_cons. reflexivity.
Qed.
Lemma pk_wire_forall pk : Forall (fun x => fst x < 65536) pk -> Forall (fun v => v < 65536) (pk_wire pk).
Proof.
  intros F. unfold pk_wire. apply Forall_map.
  induction F as [|x pk Hx _ IH]; [constructor|]. cbn [fold_right]. apply pk_seq_insert_forall; assumption.
Qed.

Lemma enc_short_nonempty v : enc_short v <> [].
Proof. intros X. apply (f_equal (@Datatypes.length N)) in X. unfold enc_short in X. rewrite be_enc_length in X. cbn in X. lia. Qed.

Lemma run_table_opt_enc (g : bool) cols r' :
  (g = true -> wf_tablespec (first_table cols)) ->
  run (if g then pmap Some deser_table_spec else ret None)
      ((if g then enc_table_spec (first_table cols) else []) ++ r') =
  Ok (if g then Some (first_table cols) else None, r').
Proof.
  intros H. destruct g; [|reflexivity]. rewrite run_pmap, run_deser_table_spec_enc by (apply H; reflexivity).
  reflexivity.
Qed.

Lemma wf_cols_first g n cols : wf_cols g n cols -> g = true -> wf_tablespec (first_table cols).
Proof.
  intros (_ & W & G) ->. destruct (G eq_refl) as [Hne _]. destruct cols as [|c0 cols']; [congruence|].
  inversion W as [|? ? Wc0 _]; subst. apply Wc0.
Qed.

Lemma run_cols_enc (g : bool) n cols r' :
  wf_cols g n cols ->
  run (deser_col_specs custom (if g then Some (first_table cols) else None) n)
      (flat_map (enc_col_spec g) cols ++ r') = Ok (cols, r').
Proof.
  intros W. pose proof (wf_cols_first _ _ _ W) as Wt. destruct W as (<- & W & G).
  apply run_deser_col_specs_enc; [exact W|]. intros ->. split; [apply Wt; reflexivity|apply G; reflexivity].
Qed.

Lemma run_deser_prepared_enc ft p r :
  wf_prepared ft p -> run (deser_prepared custom ft) (enc_prepared p ++ r) = Ok (p, r).
Proof.
  destruct p as [id rmid flags cc pk cols g nomd rcc rcols].
  unfold wf_prepared. cbn [p_id p_result_metadata_id p_flags p_col_count p_pk p_cols pr_global pr_no_metadata
                           pr_col_count pr_cols].
  intros (Wid & Wrmid & Wfl & Hcc & Hrcc & Hpk & Hpkl & Hpkeq & Wcols & Wrcols).
  unfold deser_prepared, enc_prepared.
  cbn [p_id p_result_metadata_id p_flags p_col_count p_pk p_cols pr_global pr_no_metadata pr_col_count pr_cols].
  rewrite <- !app_assoc. rt.
  assert (Ermid : forall r', run (if ft_metadata_id ft then pmap Some read_short_bytes else ret None)
                    (match rmid with Some x => enc_short_bytes x | None => [] end ++ r') = Ok (rmid, r')).
  { intros r'. destruct rmid as [x|].
    - destruct Wrmid as [-> Wx]. rewrite run_pmap, run_read_short_bytes_enc by exact Wx. reflexivity.
    - rewrite Wrmid. reflexivity. }
  rewrite Ermid. rt. unfold deser_prepared_metadata. rt.
  rewrite ?run_tick_alloc_capped. rt.
  rewrite <- (pk_wire_len pk).
  rewrite (run_repeatN_enc read_short enc_short (pk_wire pk)).
  2:{ eapply Forall_impl; [|apply pk_wire_forall; exact Hpk]. intros v Hv r'. apply run_read_short_enc. exact Hv. }
  2:{ apply Forall_forall. intros v _. apply enc_short_nonempty. }
  rt. rewrite run_table_opt_enc by (apply (wf_cols_first _ _ _ Wcols)). rt.
  rewrite run_cols_enc by exact Wcols. rt. rewrite <- Hpkeq.
  (* result metadata *)
  unfold deser_result_metadata.
  pose proof (flag_bits g false nomd false) as FB. cbv zeta in FB. destruct FB as (Wf & F1 & F2 & F4 & F8).
  replace (b2z g 1 + b2z nomd 4)%Z with (b2z g 1 + b2z false 2 + b2z nomd 4 + b2z false 8)%Z by (cbn [b2z]; lia).
  rt. rewrite F1, F2, F4, F8, andb_false_r. cbn [andb]. rt.
  destruct nomd.
  - subst rcols. cbn [app]. rt. reflexivity.
  - rewrite <- !app_assoc. rt. rewrite run_table_opt_enc by (apply (wf_cols_first _ _ _ Wrcols)). rt.
    rewrite run_cols_enc by exact Wrcols. rt. reflexivity.
Qed.

Lemma run_deser_result_enc ft x r :
  wf_result ft x -> run (deser_result custom ft) (enc_result x ++ r) = Ok (x, r).
Proof.
  intros W. unfold deser_result. destruct x as [|rr|ks|p|sc]; cbn [wf_result enc_result] in *;
    rewrite <- ?app_assoc; rt; eval_closed; cbv iota; rt.
  - reflexivity.
  - rewrite run_deser_rows_full_enc by exact W. reflexivity.
  - reflexivity.
  - rewrite run_deser_prepared_enc by exact W. reflexivity.
  - rewrite run_deser_schema_change_enc by exact W. reflexivity.
Qed.

Lemma run_deser_response_enc ft v2 resp r :
  wf_response ft v2 resp ->
  run (deser_response custom ft v2 (opcode_of resp)) (enc_response ft resp ++ r) = Ok (resp, r).
Proof.
  intros W. unfold deser_response.
  destruct resp as [e reason| |n|o|x|e|m|m]; cbn [wf_response enc_response opcode_of] in *; eval_closed; cbv iota.
  - destruct W as [We Wr]. rt. rewrite run_deser_error_enc by assumption. reflexivity.
  - reflexivity.
  - rt. reflexivity.
  - destruct W as (Wl & Wn & Wf). rt. rewrite run_read_string_multimap_enc by assumption. reflexivity.
  - rt. rewrite run_deser_result_enc by exact W. reflexivity.
  - rt. rewrite run_deser_event_enc by exact W. reflexivity.
  - rt. rewrite run_read_bytes_opt_enc by (destruct m; exact W). reflexivity.
  - rt. rewrite run_read_bytes_opt_enc by (destruct m; exact W). reflexivity.
Qed.

Lemma run_deser_extensions_enc flags x r :
  wf_extensions flags x -> run (deser_extensions flags) (enc_extensions x flags ++ r) = Ok (x, r).
Proof.
  destruct x as [tr w pl]. unfold wf_extensions, deser_extensions, enc_extensions. cbn [x_trace x_warnings x_payload].
  intros (Wt & Ww & Wp). rewrite <- !app_assoc. rt.
  assert (Et : forall r', run (if bit flags 2 then pmap Some read_uuid else ret None)
                  ((if bit flags 2 then match tr with Some t => t | None => [] end else []) ++ r') = Ok (tr, r')).
  { intros r'. destruct (bit flags 2).
    - destruct Wt as (t & -> & Wb & Wl). rewrite run_pmap. unfold read_uuid. rewrite <- Wl, run_read_raw_app. reflexivity.
    - subst tr. reflexivity. }
  rewrite Et. rt.
  assert (Ew : forall r', run (if bit flags 8 then read_string_list else ret [])
                  ((if bit flags 8 then enc_string_list w else []) ++ r') = Ok (w, r')).
  { intros r'. destruct (bit flags 8); [apply run_read_string_list_enc; exact Ww|subst w; reflexivity]. }
  rewrite Ew. rt.
  assert (Ep : forall r', run (if bit flags 4 then pmap Some read_bytes_map else ret None)
                  ((if bit flags 4 then match pl with Some p => enc_bytes_map p | None => [] end else []) ++ r') = Ok (pl, r')).
  { intros r'. destruct (bit flags 4).
    - destruct Wp as (p0 & -> & Wl & Wn & Wf). rewrite run_pmap, run_read_bytes_map_enc by assumption. reflexivity.
    - subst pl. reflexivity. }
  rewrite Ep. rt. reflexivity.
Qed.

End WithCustom.
