(* Proofs about Model/FetchPlan.v (property C19). *)
From SV Require Import Base.Prelude Model.Sched Model.FetchPlan.
Open Scope N_scope.

(* ---------------- the plan and the starter step ---------------- *)

Lemma full_subsumes p : note_full p = PFull /\
  (forall r, note_routes r PFull = PFull) /\ note_topology PFull = PFull.
Proof. repeat split. Qed.

(* a due full fetch (owed by the plan, or the periodic deadline) starts unless one is running; it
   empties the plan and replaces every running partial fetch *)
Lemma start_due_full d nx fl p : is_full fl = false -> (p = PFull \/ d = true) ->
  start_due d nx fl p = (IFull nx, plan_empty, nx + 1).
Proof.
  intros Hf [-> | ->]; unfold start_due; rewrite Hf; cbn [negb andb orb]; [reflexivity|].
  destruct p; reflexivity.
Qed.

(* while a full fetch is in flight nothing starts and the plan keeps what it is owed *)
Lemma start_due_blocked d nx f p : start_due d nx (IFull f) p = (IFull f, p, nx).
Proof. unfold start_due. cbn [is_full negb andb]. destruct p; reflexivity. Qed.

(* otherwise each partial type starts iff it is owed and its slot is free *)
Lemma start_due_partial nx rf tf rs t :
  start_due false nx (IPartial rf tf) (PPartial rs t) =
  let started_r := match rf, rs with None, _ :: _ => true | _, _ => false end in
  let n1 := if started_r then nx + 1 else nx in
  let started_t := match tf, t with None, true => true | _, _ => false end in
  (IPartial (if started_r then Some nx else rf) (if started_t then Some n1 else tf),
   PPartial (if started_r then [] else rs) (if started_t then false else t),
   if started_t then n1 + 1 else n1).
Proof. unfold start_due. cbn. destruct rf, rs, tf, t; reflexivity. Qed.

(* resolution: a completed full fetch resolves and leaves nothing in flight; of two completed
   partial fetches the client-routes one is reported first and the other stays in flight *)
Lemma resolve_full ready f : ready f = true -> resolve ready (IFull f) = Some (OFull f, inflight_empty).
Proof. intros H. cbn. rewrite H. reflexivity. Qed.
Lemma resolve_both ready a b : ready a = true ->
  resolve ready (IPartial (Some a) (Some b)) = Some (ORoutes a, IPartial None (Some b)).
Proof. intros H. cbn. rewrite H. reflexivity. Qed.
Lemma resolve_none ready : resolve ready inflight_empty = None.
Proof. reflexivity. Qed.

(* ---------------- the worker invariant ---------------- *)

Definition attached_fresh (s : fstate) : Prop :=
  forall r f, In (r, AAttached f) (f_answers s) -> exists rs, In (f, rs) (f_started s) /\ In r rs.

Record FInv (s : fstate) : Prop := mkFInv {
  fi_cons : map fst (f_answers s) ++ pending_list s ++ f_queue s = f_arrived s;
  fi_recv : map fst (f_answers s) ++ pending_list s = f_received s;
  fi_full : forall r f, f_pending s = Some r -> f_fl s = IFull f -> exists rs, In (f, rs) (f_started s) /\ In r rs;
  fi_plan : forall r, f_pending s = Some r -> f_cc s = OnCC -> is_full (f_fl s) = false -> f_plan s = PFull;
  fi_nocc : f_cc s = NoCC -> f_fl s = inflight_empty;
  fi_fresh : attached_fresh s
}.

Lemma finv_init : FInv f_init.
Proof. constructor; cbn; try reflexivity; try discriminate; intros; try discriminate. intros r f []. Qed.

Lemma fresh_mono s s' : attached_fresh s -> f_answers s' = f_answers s ->
  (forall x, In x (f_started s) -> In x (f_started s')) -> attached_fresh s'.
Proof.
  intros H Ea Hs r f Hin. rewrite Ea in Hin. destruct (H r f Hin) as (rs & H1 & H2). exists rs. split; [apply Hs; exact H1|exact H2].
Qed.

Lemma publish_inv s f :
  map fst (f_answers s) ++ pending_list s ++ f_queue s = f_arrived s ->
  map fst (f_answers s) ++ pending_list s = f_received s -> attached_fresh s ->
  (forall r, f_pending s = Some r -> exists rs, In (f, rs) (f_started s) /\ In r rs) ->
  map fst (f_answers (publish s f)) ++ pending_list (publish s f) ++ f_queue (publish s f) = f_arrived (publish s f) /\
  map fst (f_answers (publish s f)) ++ pending_list (publish s f) = f_received (publish s f) /\
  f_pending (publish s f) = None /\ attached_fresh (publish s f) /\
  f_started (publish s f) = f_started s /\ f_cc (publish s f) = f_cc s /\ f_fl (publish s f) = f_fl s /\ f_plan (publish s f) = f_plan s.
Proof.
  intros Hc Hr Hfr Hf. unfold publish, pending_list in *.
  destruct (f_pending s) as [r|] eqn:Ep.
  - cbn. rewrite map_app. cbn [map fst]. rewrite <- !app_assoc in *. cbn [app] in *.
    repeat split; try assumption; try reflexivity.
    intros r0 f0 Hin. apply in_app_or in Hin as [Hin|[Hin|[]]]; [apply Hfr; exact Hin|].
    injection Hin as <- <-. apply Hf. reflexivity.
  - rewrite Ep. cbn [app] in *. repeat split; try assumption; reflexivity.
Qed.

Lemma finv_step s lb s' : FInv s -> fstep s lb = Some s' -> FInv s'.
Proof.
  intros I Hs. pose proof I as [Hc Hr Hfu Hpl Hno Hfr].
  destruct lb as [r|d| |e|ready ok| |ok]; cbn [fstep] in Hs.
  - (* FSend *)
    injection Hs as <-. constructor; cbn; unfold pending_list in *; cbn; try assumption.
    rewrite !app_assoc. f_equal. rewrite <- !app_assoc. exact Hc.
  - (* FStarter *)
    destruct (f_cc s) eqn:Ecc; [|discriminate].
    destruct (start_due d (f_next s) (f_fl s) (f_plan s)) as [[fl p] nx] eqn:E. injection Hs as <-.
    constructor; cbn; unfold pending_list in *; cbn; try assumption; try discriminate.
    + (* fi_full *)
      intros r f Hp Hfl. subst fl. destruct (f_fl s) as [f0|rf tf] eqn:Efl.
      * rewrite start_due_blocked in E. injection E as <- _ _. apply (Hfu r f0 Hp eq_refl).
      * unfold start_due in E. cbn [is_full negb andb] in E.
        destruct (match f_plan s with PFull => true | PPartial _ _ => false end || d) eqn:Ed.
        -- injection E as <- _ _. exists (f_received s). split; [apply in_or_app; right; left; reflexivity|].
           rewrite <- Hr, Hp. apply in_or_app. right. left. reflexivity.
        -- destruct (f_plan s) as [|rs t]; [discriminate|].
           destruct rf, rs, tf, t; cbn in E; discriminate.
    + (* fi_plan *)
      intros r Hp _ Hnf. destruct (f_fl s) as [f0|rf tf] eqn:Efl.
      * rewrite start_due_blocked in E. injection E as <- _ _. discriminate.
      * pose proof (Hpl r Hp eq_refl eq_refl) as Ep.
        rewrite Ep, (start_due_full d (f_next s) (IPartial rf tf) PFull eq_refl (or_introl eq_refl)) in E.
        injection E as <- _ _. discriminate.
    + (* fi_fresh *)
      eapply fresh_mono; [exact Hfr|reflexivity|]. cbn. intros x Hx. destruct fl, (f_fl s); try exact Hx.
      apply in_or_app. left. exact Hx.
  - (* FRecv *)
    destruct (f_queue s) as [|r q] eqn:Eq; [discriminate|]. destruct (f_pending s) eqn:Ep; [discriminate|].
    unfold pending_list in *. rewrite Ep in *. cbn [app] in *.
    destruct (f_cc s) eqn:Ecc.
    + destruct (is_full (f_fl s)) eqn:Ef; [discriminate|]. injection Hs as <-.
      constructor; cbn; unfold pending_list; cbn; try discriminate.
      * exact Hc.
      * rewrite <- Hr, app_nil_r. reflexivity.
      * intros r0 f _ Hfl. rewrite Hfl in Ef. discriminate.
      * reflexivity.
      * exact Hfr.
    + injection Hs as <-. constructor; cbn; unfold pending_list; cbn; try discriminate.
      * exact Hc.
      * rewrite <- Hr, app_nil_r. reflexivity.
      * intros r0 f _ Hfl. rewrite (Hno eq_refl) in Hfl. discriminate.
      * exact Hno.
      * exact Hfr.
  - (* FEvent *)
    destruct (f_cc s) eqn:Ecc; [|discriminate]. injection Hs as <-.
    constructor; cbn; unfold pending_list in *; cbn; try assumption; try discriminate.
    intros r Hp _ Hnf. rewrite (Hpl r Hp eq_refl Hnf). destruct e; reflexivity.
  - (* FDone *)
    destruct (f_cc s) eqn:Ecc; [|discriminate].
    destruct (resolve ready (f_fl s)) as [[o fl]|] eqn:Er; [|discriminate].
    destruct o as [f|f|f].
    + (* full *)
      assert (Efl : f_fl s = IFull f /\ fl = inflight_empty).
      { destruct (f_fl s) as [f0|rf tf]; cbn in Er.
        - destruct (ready f0); [injection Er as <- <-; split; reflexivity|discriminate].
        - destruct rf as [a|]; [destruct (ready a); [discriminate|]|]; destruct tf as [b|]; try discriminate;
            destruct (ready b); discriminate. }
      destruct Efl as [Efl ->]. destruct ok.
      * injection Hs as <-.
        set (s0 := set_core s OnCC (f_plan s) inflight_empty (f_next s)).
        destruct (publish_inv s0 f) as (P1 & P2 & P3 & P4 & P5 & P6 & P7 & P8); try assumption.
        { intros r Hp. apply (Hfu r f Hp Efl). }
        constructor; try assumption.
        -- intros r f0 Hp. rewrite P3 in Hp. discriminate.
        -- intros r Hp. rewrite P3 in Hp. discriminate.
        -- rewrite P6. discriminate.
      * injection Hs as <-. constructor; cbn; unfold pending_list in *; cbn; try assumption; try discriminate.
        reflexivity.
    + (* client routes *)
      injection Hs as <-.
      assert (Hnf : is_full (f_fl s) = false /\ is_full fl = false).
      { destruct (f_fl s) as [f0|rf tf]; cbn in Er; [destruct (ready f0); discriminate|].
        split; [reflexivity|]. destruct rf as [a|]; [destruct (ready a); [injection Er as _ <-; reflexivity|]|];
          destruct tf as [b|]; try discriminate; destruct (ready b); try discriminate; injection Er as _ <-; reflexivity. }
      destruct Hnf as [Hn1 Hn2].
      constructor; cbn; unfold pending_list in *; cbn; try assumption; try discriminate.
      * intros r f0 _ Hfl. rewrite Hfl in Hn2. discriminate.
      * intros r Hp _ _. rewrite (Hpl r Hp eq_refl Hn1). destruct ok; reflexivity.
    + (* topology *)
      injection Hs as <-.
      assert (Hnf : is_full (f_fl s) = false /\ is_full fl = false).
      { destruct (f_fl s) as [f0|rf tf]; cbn in Er; [destruct (ready f0); discriminate|].
        split; [reflexivity|]. destruct rf as [a|]; [destruct (ready a); [injection Er as _ <-; reflexivity|]|];
          destruct tf as [b|]; try discriminate; destruct (ready b); try discriminate; injection Er as _ <-; reflexivity. }
      destruct Hnf as [Hn1 Hn2].
      constructor; cbn; unfold pending_list in *; cbn; try assumption; try discriminate.
      * intros r f0 _ Hfl. rewrite Hfl in Hn2. discriminate.
      * intros r Hp _ _. rewrite (Hpl r Hp eq_refl Hn1). destruct ok; reflexivity.
  - (* FBroken *)
    destruct (f_cc s) eqn:Ecc; [|discriminate]. injection Hs as <-.
    constructor; cbn; unfold pending_list in *; cbn; try assumption; try discriminate. reflexivity.
  - (* FEstablish *)
    destruct (f_cc s) eqn:Ecc; [discriminate|].
    set (f := f_next s) in *.
    set (s1 := mkF NoCC (f_plan s) (f_fl s) (f + 1) (f_queue s) (f_pending s) (f_received s)
                   (f_started s ++ [(f, f_received s)]) (f_answers s) (f_arrived s)) in *.
    assert (I1 : FInv s1).
    { constructor; cbn; unfold pending_list in *; cbn; try assumption; try discriminate.
      - intros r f0 Hp Hfl. rewrite (Hno eq_refl) in Hfl. discriminate.
      - eapply fresh_mono; [exact Hfr|reflexivity|]. cbn. intros x Hx. apply in_or_app. left. exact Hx. }
    destruct ok.
    + injection Hs as <-.
      destruct (publish_inv s1 f (fi_cons _ I1) (fi_recv _ I1) (fi_fresh _ I1)) as (P1 & P2 & P3 & P4 & P5 & P6 & P7 & P8).
      { intros r Hp. exists (f_received s). split; [cbn; apply in_or_app; right; left; reflexivity|].
        cbn in Hp. rewrite <- Hr. unfold pending_list. rewrite Hp. apply in_or_app. right. left. reflexivity. }
      constructor; unfold pending_list, attached_fresh;
        cbn [set_core f_cc f_plan f_fl f_next f_queue f_pending f_received f_started f_answers f_arrived];
        try assumption; try discriminate.
      intros r Hp. rewrite P3 in Hp. discriminate.
    + injection Hs as <-.
      pose proof (fi_cons _ I1) as Hc1. pose proof (fi_recv _ I1) as Hr1. pose proof (fi_fresh _ I1) as Hfr1.
      unfold pending_list in Hc1, Hr1. cbn [s1 f_pending f_answers f_queue f_arrived f_received] in Hc1, Hr1.
      change (f_pending s1) with (f_pending s).
      destruct (f_pending s) as [r|] eqn:Ep; [|exact I1].
      constructor; cbn; unfold pending_list; cbn; try discriminate.
      * rewrite map_app. cbn [map fst]. rewrite <- app_assoc. exact Hc1.
      * rewrite map_app. cbn [map fst]. rewrite app_nil_r. exact Hr1.
      * intros _. apply (Hno eq_refl).
      * intros r0 f0 Hin. apply in_app_or in Hin as [Hin|[Hin|[]]]; [|discriminate].
        destruct (Hfr r0 f0 Hin) as (rs & H1 & H2). exists rs. split; [apply in_or_app; left; exact H1|exact H2].
Qed.

Lemma finv_reachable s : reachable fstep f_init s -> FInv s.
Proof. apply (invariant_reachable _ _ fstep FInv f_init); [apply finv_init|apply finv_step]. Qed.

(* ---------------- deepening round 3: the starter step ---------------- *)

(* ---- what the starter step may and may not do to owed work ---- *)
Definition plan_routes (p : plan) : list N := match p with PPartial rs _ => rs | PFull => [] end.
Definition plan_topology (p : plan) : bool := match p with PPartial _ t => t | PFull => false end.
Definition routes_slot (fl : inflight) : option N := match fl with IPartial r _ => r | IFull _ => None end.
Definition topology_slot (fl : inflight) : option N := match fl with IPartial _ t => t | IFull _ => None end.

(* No owed work is ever dropped except by covering it with a full fetch: after the starter step a full fetch
   runs, or every owed client-routes pair / the owed topology re-read is still owed or has just been started
   in a slot that was free; fetches in flight are only replaced by a full fetch; a full fetch owed by the plan
   is running afterwards. *)
Lemma start_due_preserves_work d nx fl p fl' p' nx' : start_due d nx fl p = (fl', p', nx') ->
  (p = PFull -> is_full fl' = true) /\
  (is_full fl' = true \/
   (p' <> PFull /\
    (forall r, In r (plan_routes p) -> In r (plan_routes p') \/ (routes_slot fl = None /\ routes_slot fl' = Some nx)) /\
    (plan_topology p = true -> plan_topology p' = true \/ (topology_slot fl = None /\ exists g, topology_slot fl' = Some g /\ nx <= g)) /\
    (forall f, routes_slot fl = Some f -> routes_slot fl' = Some f) /\
    (forall f, topology_slot fl = Some f -> topology_slot fl' = Some f))) /\
  nx <= nx'.
Proof.
  unfold start_due. destruct fl as [f0|rf tf]; cbn [is_full negb andb].
  - intros H. injection H as <- <- <-. split; [intros _; reflexivity|]. split; [left; reflexivity|lia].
  - destruct p as [|rs t]; cbn [orb].
    + intros H. injection H as <- <- <-. split; [reflexivity|]. split; [left; reflexivity|lia].
    + destruct d; cbn [orb].
      * intros H. injection H as <- <- <-. split; [discriminate|]. split; [left; reflexivity|lia].
      * destruct rf as [a|], rs as [|r0 rs], tf as [b|], t; cbn; intros H; injection H as <- <- <-;
          (split; [discriminate|]); (split; [right|lia]); (split; [discriminate|]);
          repeat split; cbn; intros; try tauto; try discriminate; try (left; assumption);
          try (right; split; [reflexivity|]; eexists; split; [reflexivity|lia]);
          try (right; split; reflexivity).
Qed.

(* the starter step is idempotent: run again right away (no deadline in between) it starts nothing more *)
Lemma start_due_idempotent d nx fl p fl' p' nx' : start_due d nx fl p = (fl', p', nx') ->
  start_due false nx' fl' p' = (fl', p', nx').
Proof.
  unfold start_due. destruct fl as [f0|rf tf]; cbn [is_full negb andb].
  - intros H. injection H as <- <- <-. cbn. destruct p; reflexivity.
  - destruct p as [|rs t]; cbn [orb].
    + intros H. injection H as <- <- <-. reflexivity.
    + destruct d; cbn [orb].
      * intros H. injection H as <- <- <-. reflexivity.
      * destruct rf as [a|], rs as [|r0 rs], tf as [b|], t; cbn; intros H; injection H as <- <- <-; reflexivity.
Qed.

(* at most one fetch per type, a full fetch alone - and a full fetch is started only by the due-full rule *)
Lemma start_due_full_iff d nx fl p fl' p' nx' : start_due d nx fl p = (fl', p', nx') ->
  (is_full fl' = true <-> is_full fl = true \/ p = PFull \/ d = true).
Proof.
  unfold start_due. destruct fl as [f0|rf tf]; cbn [is_full negb andb].
  - intros H. injection H as <- _ _. cbn. tauto.
  - destruct p as [|rs t]; cbn [orb].
    + intros H. injection H as <- _ _. cbn. tauto.
    + destruct d; cbn [orb].
      * intros H. injection H as <- _ _. cbn. tauto.
      * destruct rf, rs, tf, t; cbn; intros H; injection H as <- _ _; cbn;
          (split; [discriminate|intros [H|[H|H]]; discriminate]).
Qed.
