(* C14, deepening round 4 (proof-only): characterising theorems for extracted functions the
   driver uses for a verdict that had Examples only: chunk_rows / decode_rows (the caller's raw and
   typed view of a rows result, through obs_of_outcome), present_ok (the presented-id check of the
   announced-metadata bookkeeping) and prop_exec_ok (the property predicate evaluated on a
   mismatch). *)
From SV Require Import Base.Prelude Base.Bytes Model.Reprepare Proofs.Reprepare_proofs.
Open Scope N_scope.

(* ---------------------------------------------------------------------------------- *)
(* chunk_rows: exactly "nrows rows of ncols cells each, taken from the front, in order" *)
(* ---------------------------------------------------------------------------------- *)

Lemma take_cells_fwd : forall n cells a b,
  take_cells n cells = Some (a, b) -> List.length a = n /\ cells = a ++ b.
Proof.
  induction n as [|n IH]; intros cells a b; cbn [take_cells].
  - intros E; inversion E; subst. split; reflexivity.
  - destruct cells as [|x r]; [discriminate|].
    destruct (take_cells n r) as [[a' b']|] eqn:T; [|discriminate].
    apply IH in T. destruct T as [L E]. intros Q; inversion Q; subst. split; reflexivity.
Qed.

Lemma take_cells_bwd : forall a b, take_cells (List.length a) (a ++ b) = Some (a, b).
Proof.
  induction a as [|x a IH]; intros b; cbn [take_cells List.length app]; [reflexivity|].
  rewrite IH. reflexivity.
Qed.

Lemma take_cells_spec : forall n cells a b,
  take_cells n cells = Some (a, b) <-> List.length a = n /\ cells = a ++ b.
Proof.
  intros n cells a b. split; [apply take_cells_fwd|]. intros [L E]. subst. apply take_cells_bwd.
Qed.

Lemma chunk_rows_fwd : forall ncols nrows cells rows,
  chunk_rows ncols nrows cells = Some rows ->
  List.length rows = nrows /\ Forall (fun r => List.length r = ncols) rows /\
  exists rest, cells = concat rows ++ rest.
Proof.
  intros ncols. induction nrows as [|k IH]; intros cells rows; cbn [chunk_rows].
  - intros E; inversion E; subst. split; [reflexivity|]. split; [constructor|]. exists cells. reflexivity.
  - destruct (take_cells ncols cells) as [[row rest]|] eqn:T; [|discriminate].
    apply take_cells_fwd in T. destruct T as [LR EC].
    destruct (chunk_rows ncols k rest) as [rows'|] eqn:C; [|discriminate].
    apply IH in C. destruct C as [L [F [rest' E]]].
    intros Q; inversion Q; subst rows. split; [cbn; congruence|]. split; [constructor; assumption|].
    exists rest'. cbn [concat]. rewrite <- app_assoc, <- E. assumption.
Qed.

Lemma chunk_rows_bwd : forall ncols rows rest,
  Forall (fun r => List.length r = ncols) rows ->
  chunk_rows ncols (List.length rows) (concat rows ++ rest) = Some rows.
Proof.
  intros ncols rows rest F. induction F as [|r rows L F IH]; cbn [chunk_rows List.length concat]; [reflexivity|].
  rewrite <- app_assoc, <- L, take_cells_bwd, L, IH. reflexivity.
Qed.

Lemma chunk_rows_spec : forall ncols nrows cells rows,
  chunk_rows ncols nrows cells = Some rows <->
  List.length rows = nrows /\ Forall (fun r => List.length r = ncols) rows /\
  exists rest, cells = concat rows ++ rest.
Proof.
  intros ncols nrows cells rows. split; [apply chunk_rows_fwd|]. intros [L [F [rest E]]]. subst.
  apply chunk_rows_bwd. assumption.
Qed.

(* the raw view exists iff there are enough cells *)
Lemma chunk_rows_some_iff : forall ncols nrows cells,
  (exists rows, chunk_rows ncols nrows cells = Some rows) <-> (ncols * nrows <= List.length cells)%nat.
Proof.
  intros ncols. 
  assert (TK : forall n cells, (n <= List.length cells)%nat -> exists a b, take_cells n cells = Some (a, b)).
  { induction n as [|n IH]; intros cells L; cbn [take_cells]; [eauto|].
    destruct cells as [|x r]; cbn in L; [lia|]. destruct (IH r) as [a [b E]]; [lia|]. rewrite E. eauto. }
  induction nrows as [|k IH]; intros cells.
  - cbn [chunk_rows]. split; [intros _; lia|eauto].
  - split.
    + intros [rows C]. apply chunk_rows_fwd in C. destruct C as [L [F [rest E]]]. subst cells.
      rewrite app_length. 
      assert (X : List.length (concat rows) = (ncols * List.length rows)%nat).
      { clear -F. induction F as [|r rows L F IH]; cbn [concat List.length]; [lia|]. rewrite app_length, IH, L. lia. }
      rewrite X, L. lia.
    + intros L. cbn [chunk_rows]. destruct (TK ncols cells) as [a [b T]]; [lia|]. rewrite T.
      apply take_cells_fwd in T. destruct T as [LA E]. subst cells. rewrite app_length in L.
      destruct (proj2 (IH b)) as [rows C]; [lia|]. rewrite C. eauto.
Qed.

(* ---------------------------------------------------------------------------------- *)
(* decode_rows: typed decoding succeeds exactly when the raw chunking succeeds and every *)
(* cell fits the type of its column; the typed rows are the raw rows zipped with cols   *)
(* ---------------------------------------------------------------------------------- *)

Definition row_fits (cols : list col) (r : list cellv) : Prop :=
  Forall2 (fun c x => cell_fits (c_type c) x = true) cols r.

Lemma decode_row_fwd : forall cols cells row rest,
  decode_row cols cells = Some (row, rest) ->
  cells = map snd row ++ rest /\ map fst row = cols /\ row_fits cols (map snd row).
Proof.
  unfold row_fits. induction cols as [|c cr IH]; intros cells row rest; cbn [decode_row].
  - intros E; inversion E; subst. cbn. repeat split. constructor.
  - destruct cells as [|x xr]; [discriminate|].
    destruct (cell_fits (c_type c) x) eqn:CF; [|discriminate].
    destruct (decode_row cr xr) as [[row' rest']|] eqn:DR; [|discriminate].
    apply IH in DR. destruct DR as [T [M F]].
    intros Q; inversion Q; subst. cbn. repeat split. constructor; assumption.
Qed.

Lemma decode_row_bwd : forall row rest,
  row_fits (map fst row) (map snd row) -> decode_row (map fst row) (map snd row ++ rest) = Some (row, rest).
Proof.
  unfold row_fits. induction row as [|[c x] row IH]; intros rest F; cbn [decode_row map app fst snd]; [reflexivity|].
  cbn [map fst snd] in F. inversion F; subst. rewrite H2, IH by assumption. reflexivity.
Qed.

Lemma decode_rows_fwd : forall cols nrows cells rows,
  decode_rows cols nrows cells = Some rows ->
  chunk_rows (List.length cols) nrows cells = Some (map (map snd) rows) /\
  Forall (fun row => map fst row = cols /\ row_fits cols (map snd row)) rows.
Proof.
  intros cols. induction nrows as [|k IH]; intros cells rows; cbn [decode_rows chunk_rows].
  - intros E; inversion E; subst. split; [reflexivity|constructor].
  - destruct (decode_row cols cells) as [[row rest]|] eqn:DR; [|discriminate].
    apply decode_row_fwd in DR. destruct DR as [T [M F]].
    destruct (decode_rows cols k rest) as [rows'|] eqn:DS; [|discriminate].
    apply IH in DS. destruct DS as [C FA]. intros Q; inversion Q; subst rows.
    split; [|constructor; [split; assumption|assumption]].
    subst cells. assert (LL : List.length cols = List.length (map snd row)) by (rewrite <- M, !map_length; reflexivity).
    rewrite LL, take_cells_bwd, <- LL, C. reflexivity.
Qed.

Lemma map_fst_snd_inj {A B} : forall (l l' : list (A * B)), map fst l = map fst l' -> map snd l = map snd l' -> l = l'.
Proof.
  induction l as [|[a b] l IH]; intros [|[a' b'] l'] M S; cbn in *; try discriminate; try reflexivity.
  inversion M; inversion S; subst. f_equal. auto.
Qed.

Lemma decode_rows_bwd : forall cols rows rest,
  Forall (fun row => map fst row = cols /\ row_fits cols (map snd row)) rows ->
  decode_rows cols (List.length rows) (concat (map (map snd) rows) ++ rest) = Some rows.
Proof.
  intros cols rows rest F. induction F as [|row rows [M RF] F IH]; cbn [decode_rows List.length map concat]; [reflexivity|].
  rewrite <- app_assoc. rewrite <- M at 1. rewrite decode_row_bwd by (rewrite M; assumption).
  rewrite IH. reflexivity.
Qed.

Lemma decode_rows_spec : forall cols nrows cells rows,
  decode_rows cols nrows cells = Some rows <->
  chunk_rows (List.length cols) nrows cells = Some (map (map snd) rows) /\
  Forall (fun row => map fst row = cols /\ row_fits cols (map snd row)) rows.
Proof.
  intros cols nrows cells rows. split; [apply decode_rows_fwd|]. intros [C F].
  apply chunk_rows_fwd in C. destruct C as [L [_ [rest E]]]. subst cells. rewrite map_length in L. subst nrows.
  apply decode_rows_bwd. assumption.
Qed.

(* the caller's typed view exists iff the raw view exists and every raw row fits the columns *)
Lemma decode_rows_typed_iff : forall cols nrows cells,
  (exists rows, decode_rows cols nrows cells = Some rows) <->
  (exists raw, chunk_rows (List.length cols) nrows cells = Some raw /\ Forall (row_fits cols) raw).
Proof.
  intros cols nrows cells. split.
  - intros [rows D]. apply decode_rows_spec in D. destruct D as [C F]. exists (map (map snd) rows).
    split; [assumption|]. apply Forall_forall. intros r I. apply in_map_iff in I. destruct I as [row [E I]].
    subst. rewrite Forall_forall in F. apply F in I. tauto.
  - intros [raw [C F]]. exists (map (fun r => combine cols r) raw). apply decode_rows_spec.
    assert (LEN : Forall (fun r => List.length r = List.length cols) raw).
    { apply chunk_rows_spec in C. tauto. }
    assert (SND : forall r : list cellv, List.length r = List.length cols -> map snd (combine cols r) = r).
    { clear. induction cols as [|c cr IH]; intros [|x r] L; cbn in *; try discriminate; try reflexivity.
      f_equal. apply IH. congruence. }
    assert (FST : forall r : list cellv, List.length r = List.length cols -> map fst (combine cols r) = cols).
    { clear. induction cols as [|c cr IH]; intros [|x r] L; cbn in *; try discriminate; try reflexivity.
      f_equal. apply IH. congruence. }
    split.
    + rewrite C. f_equal. rewrite map_map. clear -LEN SND. induction raw as [|r raw IH]; [reflexivity|].
      inversion LEN; subst. cbn [map]. rewrite SND by assumption. f_equal. apply IH. assumption.
    + apply Forall_forall. intros row I. apply in_map_iff in I. destruct I as [r [E I]]. subst.
      rewrite Forall_forall in LEN, F. rewrite (SND r (LEN r I)), (FST r (LEN r I)). split; [reflexivity|auto].
Qed.

(* ---------------------------------------------------------------------------------- *)
(* present_ok: a frame passes the bookkeeping check iff its presented id and skip flag   *)
(* are the ones calculate_cached_metadata_params computes from a cell that holds the     *)
(* most recently announced metadata                                                    *)
(* ---------------------------------------------------------------------------------- *)

Definition cell_agrees (an : ann_state) (s : nat) (m : meta) : Prop :=
  m_cols m = an_latest an s /\ m_id m = an_id an s /\ (m_count m = 0 <-> m_cols m = []).

Lemma bool_eqb_eq a b : Bool.eqb a b = true <-> a = b.
Proof. destruct a, b; cbn; split; congruence. Qed.

Lemma present_ok_iff_params : forall an ext a f m,
  cell_agrees an (xa_stmt a) m ->
  (present_ok an ext a f = true <->
   f_rmid f = cp_rmid ext (xa_use_cached a) m /\ f_skip f = cp_skip ext (xa_use_cached a) m).
Proof.
  intros an ext a f m [HC [HI HN]]. unfold present_ok, cp_rmid, cp_cached, cp_skip.
  rewrite <- HC, <- HI.
  assert (Z : (m_count m =? 0) = is_nil (m_cols m)).
  { destruct (m_count m =? 0) eqn:E.
    - apply N.eqb_eq in E. apply HN in E. rewrite E. reflexivity.
    - apply N.eqb_neq in E. destruct (m_cols m) eqn:EC; [|reflexivity]. exfalso. apply E. apply HN. reflexivity. }
  rewrite Z. destruct ext; rewrite andb_true_iff, obytes_eqb_eq, bool_eqb_eq.
  - destruct (is_nil (m_cols m)), (xa_use_cached a); cbn; tauto.
  - destruct (is_nil (m_cols m)), (xa_use_cached a); cbn; tauto.
Qed.

Lemma present_ok_model_frame : forall an st ext a m,
  cell_agrees an (xa_stmt a) m -> present_ok an ext a (mk_exec_frame st ext a m) = true.
Proof.
  intros an st ext a m H. apply (present_ok_iff_params an ext a _ m H). split; reflexivity.
Qed.

(* ---------------------------------------------------------------------------------- *)
(* prop_exec_ok: the Prop reading of the predicate the driver evaluates on a mismatch   *)
(* ---------------------------------------------------------------------------------- *)

Definition PropExec (ST : nat -> stmt) (fe : bool) (a : xargs) (xs : list xchg) (out : obs_out) : Prop :=
  let st := ST (xa_stmt a) in
  exists x1 f1, hd_error xs = Some x1 /\ x_req x1 = Q_execute f1 /\
   ((xs = [x1] /\ (forall i, x_resp x1 <> RUnprepared i) /\ f_id f1 = s_id st /\ normal_result fe x1 out = true)
    \/
    (exists x2 i, xs = [x1; x2] /\ x_resp x1 = RUnprepared i /\ x_req x2 = Q_prepare (s_text st) /\
       (forall id m, x_resp x2 = RPrepared id m -> id <> s_id st) /\ exists e, out = OB_err e)
    \/
    (exists x2 x3 f2 i m, xs = [x1; x2; x3] /\ x_resp x1 = RUnprepared i /\
       x_req x2 = Q_prepare (s_text st) /\ x_resp x2 = RPrepared (s_id st) m /\ x_req x3 = Q_execute f2 /\
       f_id f1 = s_id st /\ f_id f2 = f_id f1 /\ f_values f2 = f_values f1 /\ f_cons f2 = f_cons f1 /\
       f_serial f2 = f_serial f1 /\ f_page_size f2 = f_page_size f1 /\ f_paging f2 = f_paging f1 /\
       f_ts f2 = f_ts f1 /\ normal_result fe x3 out = true)).

Lemma is_err_ex o : is_err o = true -> exists e, o = OB_err e.
Proof. destruct o; cbn; try discriminate. eauto. Qed.

Lemma prop_exec_ok_sound : forall ST fe a xs out,
  prop_exec_ok ST fe a xs out = true -> PropExec ST fe a xs out.
Proof.
  intros ST fe a xs out. unfold prop_exec_ok, PropExec.
  destruct xs as [|x1 [|x2 [|x3 [|x4 r]]]]; try discriminate.
  - destruct (x_req x1) as [f1| |] eqn:Q1; try (destruct (x_resp x1); discriminate).
    intros H. exists x1, f1. split; [reflexivity|]. split; [assumption|]. left.
    destruct (x_resp x1) eqn:R1; try discriminate;
      apply andb_true_iff in H; destruct H as [H1 H2]; apply bytes_eqb_eq in H1;
      (split; [reflexivity|]; split; [intros i E; try rewrite R1 in E; discriminate|]; split; assumption).
  - destruct (x_req x1) as [f1| |] eqn:Q1; try (destruct (x_resp x1); discriminate).
    destruct (x_resp x1) as [| |i| | | |] eqn:R1; try discriminate.
    destruct (x_req x2) as [|t|] eqn:Q2; try (destruct (x_resp x2); discriminate).
    intros H. exists x1, f1. split; [reflexivity|]. split; [assumption|]. right; left.
    exists x2, i. split; [reflexivity|]. split; [exact R1|]. rewrite Q2.
    destruct (x_resp x2) as [| | | |id m| |] eqn:R2;
      repeat (apply andb_true_iff in H; let H' := fresh "H" in destruct H as [H H']);
      try (apply N.eqb_eq in H; subst t; split; [reflexivity|]; split; [intros ? ? E; try rewrite R2 in E; discriminate|];
           apply is_err_ex; assumption).
    apply N.eqb_eq in H. subst t. split; [reflexivity|]. split; [|apply is_err_ex; assumption].
    intros id' m' E. try rewrite R2 in E. inversion E; subst. apply negb_true_iff in H1. apply bytes_eqb_neq in H1. assumption.
  - destruct (x_req x1) as [f1| |] eqn:Q1; try (destruct (x_resp x1); discriminate).
    destruct (x_resp x1) as [| |i| | | |] eqn:R1; try discriminate.
    destruct (x_req x2) as [|t|] eqn:Q2; try (destruct (x_resp x2); discriminate).
    destruct (x_resp x2) as [| | | |id m| |] eqn:R2; try discriminate.
    destruct (x_req x3) as [f2| |] eqn:Q3; try discriminate.
    intros H. repeat (apply andb_true_iff in H; let H' := fresh "H" in destruct H as [H H']).
    apply N.eqb_eq in H. apply bytes_eqb_eq in H3, H2. apply same_core_fields in H1. subst t id.
    exists x1, f1. split; [reflexivity|]. split; [assumption|]. right; right.
    exists x2, x3, f2, i, m. intuition congruence.
Qed.

Lemma same_core_of_fields f g :
  f_id f = f_id g -> f_values f = f_values g -> f_cons f = f_cons g -> f_serial f = f_serial g ->
  f_page_size f = f_page_size g -> f_paging f = f_paging g -> f_ts f = f_ts g -> same_core f g = true.
Proof.
  intros E1 E2 E3 E4 E5 E6 E7. unfold same_core. rewrite E1, E2, E3, E4, E5, E6, E7.
  rewrite !bytes_eqb_refl, N.eqb_refl. rewrite (proj2 (obytes_eqb_eq _ _) eq_refl).
  assert (HN : forall x : option N, opt_eqb N.eqb x x = true) by (intros [x|]; cbn; [apply N.eqb_refl|reflexivity]).
  assert (HZ : forall x : option Z, opt_eqb Z.eqb x x = true) by (intros [x|]; cbn; [apply Z.eqb_refl|reflexivity]).
  rewrite !HN, HZ. reflexivity.
Qed.

Lemma prop_exec_ok_complete : forall ST fe a xs out,
  PropExec ST fe a xs out -> prop_exec_ok ST fe a xs out = true.
Proof.
  intros ST fe a xs out [x1 [f1 [HD [Q1 [A|[B|C]]]]]].
  - destruct A as [E [NU [I NR]]]. subst xs. unfold prop_exec_ok. rewrite Q1.
    destruct (x_resp x1) as [| |i| | | |] eqn:R1; try (rewrite I, bytes_eqb_refl, NR; reflexivity).
    exfalso. apply (NU i). reflexivity.
  - destruct B as [x2 [i [E [R1 [Q2 [NE [e EO]]]]]]]. subst xs out. unfold prop_exec_ok. rewrite Q1, R1, Q2.
    destruct (x_resp x2) as [| | | |id m| |] eqn:R2; rewrite N.eqb_refl; try reflexivity.
    assert (X : bytes_eqb id (s_id (ST (xa_stmt a))) = false) by (apply bytes_eqb_neq; apply (NE id m); reflexivity).
    rewrite X. reflexivity.
  - destruct C as [x2 [x3 [f2 [i [m [E [R1 [Q2 [R2 [Q3 [I [E1 [E2 [E3 [E4 [E5 [E6 [E7 NR]]]]]]]]]]]]]]]]]].
    subst xs. unfold prop_exec_ok. rewrite Q1, R1, Q2, R2, Q3.
    rewrite N.eqb_refl, bytes_eqb_refl, I, bytes_eqb_refl, NR.
    rewrite same_core_of_fields by congruence. reflexivity.
Qed.

Lemma prop_exec_ok_iff : forall ST fe a xs out,
  prop_exec_ok ST fe a xs out = true <-> PropExec ST fe a xs out.
Proof. intros. split; [apply prop_exec_ok_sound|apply prop_exec_ok_complete]. Qed.
